(** The writer on nested data sets for BOTH strategies: the bytes are a direct
    recursive description in terms of the WRITTEN lengths [wl nc l] (the
    recorded length under NoChange, "undefined" under SetUndefined): a
    sequence/item with undefined written length is closed by its delimiter, one
    with a defined written length is not. Generalises Proofs/NestedP.v. *)
From Coq Require Import ZifyBool ZifyNat ZifyN.
From DicomV Require Import Base.Endian Model.Vr Model.Header Model.Prim Model.Dataset Model.Writer Spec.Ps35
  Proofs.HeaderP Proofs.PrimP Proofs.WriterP Proofs.NestedP.
Open Scope N_scope.

(** written length *)
Definition wl (nc : bool) (l : N) : N := if nc then l else undef.

Fixpoint enc_tree_g (fuel : nat) (c : codec) (nc : bool) (e : elem) : outcome bytes :=
  match fuel with
  | O => Err 0
  | S f =>
      match e with
      | EPrim t v _ p => enc_prim_element c t v p
      | ESeq t _ l its =>
          obind (st_enc_header c t SQ (wl nc l)) (fun h =>
          obind ((fix items (its : list item) : outcome bytes :=
                    match its with
                    | [] => Ok []
                    | (n, es) :: rest =>
                        obind ((fix elems (es : list elem) : outcome bytes :=
                                  match es with
                                  | [] => Ok []
                                  | e :: es' => obind (enc_tree_g f c nc e) (fun b => obind (elems es') (fun r => Ok (b ++ r)))
                                  end) es) (fun body =>
                        obind (items rest) (fun r =>
                          Ok (st_enc_item_header c (wl nc n) ++ body
                                ++ (if wl nc n =? undef then enc_item_delim c else []) ++ r)))
                    end) its) (fun body => Ok (h ++ body ++ (if wl nc l =? undef then enc_seq_delim c else []))))
      | EPix _ _ _ ot frags => enc_pix c ot frags
      end
  end.
Fixpoint enc_trees_g (f : nat) (c : codec) (nc : bool) (es : list elem) : outcome bytes :=
  match es with
  | [] => Ok []
  | e :: es' => obind (enc_tree_g f c nc e) (fun b => obind (enc_trees_g f c nc es') (fun r => Ok (b ++ r)))
  end.
Fixpoint enc_items_g (f : nat) (c : codec) (nc : bool) (its : list item) : outcome bytes :=
  match its with
  | [] => Ok []
  | (n, es) :: rest =>
      obind (enc_trees_g f c nc es) (fun body =>
      obind (enc_items_g f c nc rest) (fun r =>
        Ok (st_enc_item_header c (wl nc n) ++ body ++ (if wl nc n =? undef then enc_item_delim c else []) ++ r)))
  end.

Lemma enc_tree_g_seq f c nc t v l its :
  enc_tree_g (S f) c nc (ESeq t v l its) =
  obind (st_enc_header c t SQ (wl nc l)) (fun h =>
  obind (enc_items_g f c nc its) (fun body => Ok (h ++ body ++ (if wl nc l =? undef then enc_seq_delim c else [])))).
Proof.
  cbn [enc_tree_g]. destruct (st_enc_header c t SQ (wl nc l)) as [h|x|x]; cbn [obind]; try reflexivity.
  f_equal.
  induction its as [|[n es] rest IH]; [reflexivity|].
  cbn [enc_items_g]. rewrite <- IH. f_equal.
  induction es as [|e es IHe]; [reflexivity|]. cbn [enc_trees_g]. rewrite <- IHe. reflexivity.
Qed.

Definition writes_ok_g (c : codec) (nc : bool) (e : elem) : Prop :=
  snd (elem_tokens false e) = false /\
  forall f st, (elem_size e <= f)%nat -> w_last st = None ->
    write_tokens c nc st (fst (elem_tokens false e)) = wres st (enc_tree_g f c nc e).

Lemma write_elems_g c nc es : forall f st,
  Forall (writes_ok_g c nc) es -> (elems_size es <= f)%nat -> w_last st = None ->
  snd (elems_tokens false es) = false /\
  write_tokens c nc st (fst (elems_tokens false es)) = wres st (enc_trees_g f c nc es).
Proof.
  induction es as [|e es IH]; intros f st H F L.
  - split; [reflexivity|]. cbn. rewrite List.app_nil_r. destruct st; cbn in *; subst; reflexivity.
  - inversion H as [|? ? [He1 He2] Hes]; subst.
    cbn [elems_size] in F.
    destruct (IH f {| w_stack := w_stack st; w_last := None; w_out := w_out st |} Hes ltac:(lia) eq_refl) as [I1 _].
    cbn [elems_tokens]. unfold ts_app. rewrite He1. cbn [fst snd]. split; [exact I1|].
    rewrite write_tokens_app, (He2 f st ltac:(lia) L). cbn [enc_trees_g].
    destruct (enc_tree_g f c nc e) as [b|x|x]; cbn [wres obind]; try reflexivity.
    destruct (IH f {| w_stack := w_stack st; w_last := None; w_out := w_out st ++ b |} Hes ltac:(lia) eq_refl) as [_ I2].
    rewrite I2. cbn [w_stack w_out].
    destruct (enc_trees_g f c nc es) as [r|x|x]; cbn [wres obind]; try reflexivity.
    cbn [w_stack w_out]. rewrite <- app_assoc. reflexivity.
Qed.

Lemma write_items_g c nc its : forall f st,
  Forall (fun it : item => Forall (writes_ok_g c nc) (snd it)) its -> (items_size its <= f)%nat -> w_last st = None ->
  snd (items_tokens false its) = false /\
  write_tokens c nc st (fst (items_tokens false its)) = wres st (enc_items_g f c nc its).
Proof.
  induction its as [|[n es] rest IH]; intros f st H F L.
  - split; [reflexivity|]. cbn. rewrite List.app_nil_r. destruct st; cbn in *; subst; reflexivity.
  - inversion H as [|? ? Hes Hrest]; subst. cbn [snd] in Hes. cbn [items_size] in F.
    cbn [items_tokens]. rewrite andb_false_r.
    set (st1 := {| w_stack := (true, wl nc n) :: w_stack st; w_last := None; w_out := w_out st ++ st_enc_item_header c (wl nc n) |}).
    destruct (write_elems_g c nc es f st1 Hes ltac:(lia) eq_refl) as [E1 E2].
    destruct (IH f {| w_stack := w_stack st; w_last := None; w_out := w_out st |} Hrest ltac:(lia) eq_refl) as [R1 _].
    assert (T : ts_app (ts_of [TItemStart n]) (ts_app (elems_tokens false es) (ts_app (ts_of [TItemEnd]) (items_tokens false rest)))
                = ([TItemStart n] ++ fst (elems_tokens false es) ++ [TItemEnd] ++ fst (items_tokens false rest),
                   snd (items_tokens false rest))).
    { rewrite ts_app_of, (ts_app_false _ _ E1), ts_app_of. reflexivity. }
    rewrite T. cbn [fst snd]. split; [exact R1|].
    cbn [app write_tokens write_token]. rewrite L. cbn [last_is_encaps].
    assert (LEN : (if nc then n else undef) = wl nc n) by reflexivity. rewrite LEN.
    change (emit st ((true, wl nc n) :: w_stack st) None (st_enc_item_header c (wl nc n))) with st1.
    rewrite write_tokens_app, E2. cbn [enc_items_g].
    destruct (enc_trees_g f c nc es) as [body|x|x]; cbn [wres obind]; try reflexivity.
    cbn [app write_tokens write_token w_stack st1 andb].
    match goal with |- write_tokens c nc ?S _ = _ =>
      destruct (IH f S Hrest ltac:(lia) eq_refl) as [_ R2]; rewrite R2 end.
    unfold emit. cbn [w_stack w_out].
    destruct (enc_items_g f c nc rest) as [r|x|x]; cbn [wres obind]; try reflexivity.
    unfold st1. cbn [w_stack w_out]. rewrite <- !app_assoc. reflexivity.
Qed.

(** pixel fragments: the item lengths are kept under either strategy *)
Lemma write_frags_g c nc frags : forall st,
  last_is_encaps (w_last st) = true -> Forall (fun f : bytes => blen f < 4294967295) frags ->
  write_tokens c nc st (flat_map (frag_tokens false) frags) =
  Ok {| w_stack := w_stack st; w_last := w_last st; w_out := w_out st ++ flat_map (frag_bytes c) frags |}.
Proof.
  destruct nc; [|apply write_frags].
  induction frags as [|fr frags IH]; intros st L H.
  - cbn. rewrite List.app_nil_r. destruct st; reflexivity.
  - inversion H as [|? ? Hf Hr]; subst. cbn [flat_map]. rewrite write_tokens_app.
    destruct fr as [|x fr].
    + cbn [frag_tokens write_tokens write_token]. cbn [emit w_stack w_last w_out andb].
      change (0 =? undef) with false. cbn [andb]. unfold emit. cbn [w_stack w_last w_out].
      rewrite IH by (cbn [w_last]; assumption). cbn [w_stack w_last w_out frag_bytes].
      rewrite List.app_nil_r, <- app_assoc. reflexivity.
    + cbn [frag_tokens]. unfold frag_bytes at 1. set (b := x :: fr) in *.
      assert (Hb : (blen b mod 4294967296 =? undef) = false).
      { apply N.eqb_neq. rewrite N.mod_small by lia. unfold undef. lia. }
      cbn [write_tokens write_token]. unfold emit. cbn [w_stack w_last w_out andb].
      rewrite Hb. cbn [andb].
      rewrite IH by (cbn [w_last]; assumption). cbn [w_stack w_last w_out].
      rewrite List.app_nil_r, <- !app_assoc. reflexivity.
Qed.

Lemma write_ot_g c nc ot st :
  last_is_encaps (w_last st) = true -> nlen ot < 1073741824 ->
  write_tokens c nc st (ot_tokens ot) =
  Ok {| w_stack := w_stack st; w_last := w_last st; w_out := w_out st ++ ot_bytes c ot |}.
Proof.
  destruct nc; [|apply write_ot].
  intros L H. destruct ot as [|x ot].
  - cbn [ot_tokens write_tokens write_token]. unfold emit. cbn [w_stack w_last w_out andb].
    change (0 =? undef) with false. cbn [andb ot_bytes]. rewrite List.app_nil_r. reflexivity.
  - cbn [ot_tokens]. unfold ot_bytes. set (o := x :: ot) in *.
    assert (Hb : ((nlen o mod 4294967296 * 4) mod 4294967296 =? undef) = false).
    { apply N.eqb_neq. rewrite (N.mod_small (nlen o)) by lia. rewrite N.mod_small by lia. unfold undef. lia. }
    cbn [write_tokens write_token]. unfold emit. cbn [w_stack w_last w_out andb].
    rewrite Hb. cbn [andb]. rewrite List.app_nil_r, <- !app_assoc. reflexivity.
Qed.

(** W (general): every regular element is written as its direct encoding, for either strategy. *)
Lemma regular_writes_ok_g c nc : forall e, regular e -> writes_ok_g c nc e.
Proof.
  apply (elem_ind_nested (fun e => regular e -> writes_ok_g c nc e)).
  - intros t v l p R. inversion R as [? ? ? ? [H1 H2]| |]; subst.
    unfold writes_ok_g. cbn [elem_tokens]. rewrite H2, H1. cbn [ts_of fst snd]. split; [reflexivity|].
    intros f st F L. destruct f as [|f]; [cbn in F; lia|].
    cbn [write_tokens write_token enc_tree_g]. unfold emit. cbn [w_stack w_last w_out].
    destruct (enc_prim_element c t v p) as [b|x|x]; cbn [wres]; try reflexivity.
    rewrite List.app_nil_r. reflexivity.
  - intros t v l ot fr R. inversion R as [| |? ? Hfr Hot]; subst.
    unfold writes_ok_g. cbn [elem_tokens]. change (vr_eqb OB OB && is_encaps_header pixel_tag undef) with true.
    cbn [ts_of fst snd]. split; [reflexivity|].
    intros f st F L. destruct f as [|f]; [cbn in F; lia|].
    cbn [enc_tree_g]. unfold enc_pix. rewrite st_enc_header_undef_ob. cbn [obind].
    change ([TPixStart] ++ ot_tokens ot ++ flat_map (frag_tokens false) fr ++ [TSeqEnd])
      with (TPixStart :: (ot_tokens ot ++ flat_map (frag_tokens false) fr ++ [TSeqEnd])).
    cbn [write_tokens write_token]. rewrite st_enc_header_undef_ob. unfold emit at 1.
    rewrite write_tokens_app, write_ot_g by (reflexivity || exact Hot).
    rewrite write_tokens_app, write_frags_g by (reflexivity || exact Hfr).
    cbn [write_tokens write_token w_stack w_last w_out negb andb]. rewrite N.eqb_refl.
    unfold emit. cbn [w_stack w_last w_out wres].
    rewrite <- !app_assoc. reflexivity.
  - intros t v l its IH R. inversion R as [|? ? ? Hits|]; subst.
    assert (A : Forall (fun it : item => Forall (writes_ok_g c nc) (snd it)) its).
    { clear R. induction its as [|it its IHi]; [constructor|].
      inversion IH as [|? ? I1 I2]; inversion Hits as [|? ? J1 J2]; subst. constructor.
      - clear IHi I2 J2. induction (snd it) as [|x xs IHx]; [constructor|].
        inversion I1; inversion J1; subst. constructor; [auto | auto].
      - apply IHi; assumption. }
    unfold writes_ok_g. rewrite seq_tokens_unfold.
    destruct (write_items_g c nc its (items_size its) w_init A (le_n _) eq_refl) as [S1 _].
    rewrite ts_app_of, (ts_app_false _ _ S1). cbn [ts_of fst snd]. split; [reflexivity|].
    intros f st F L. destruct f as [|f]; [cbn in F; lia|]. rewrite elem_size_seq in F.
    rewrite enc_tree_g_seq.
    cbn [app write_tokens write_token].
    assert (LEN : (if nc then l else undef) = wl nc l) by reflexivity. rewrite LEN.
    destruct (st_enc_header c t SQ (wl nc l)) as [h|x|x]; cbn [obind wres]; try reflexivity.
    unfold emit at 1. rewrite write_tokens_app.
    match goal with |- match write_tokens c nc ?S _ with _ => _ end = _ =>
      destruct (write_items_g c nc its f S A ltac:(lia) L) as [_ W2]; rewrite W2 end.
    destruct (enc_items_g f c nc its) as [body|x|x]; cbn [wres obind]; try reflexivity.
    cbn [write_tokens write_token w_stack negb andb].
    unfold emit. cbn [w_stack w_last w_out]. rewrite <- !app_assoc. reflexivity.
Qed.

Lemma write_dataset_nested_g c nc es :
  Forall regular es ->
  write_dataset c nc false es = enc_trees_g (elems_size es) c nc es.
Proof.
  intros H. unfold write_dataset, write_stream.
  assert (A : Forall (writes_ok_g c nc) es) by (eapply Forall_impl; [apply regular_writes_ok_g | exact H]).
  destruct (write_elems_g c nc es (elems_size es) w_init A (le_n _) eq_refl) as [S1 S2].
  rewrite S1, S2. destruct (enc_trees_g (elems_size es) c nc es); reflexivity.
Qed.
