(** Lemmas about Model/TsRegistry.v: the padding lemma (unbounded, by induction) and
    finite sweeps over the COMPLETE regenerated registry of each feature set. *)
From DicomV Require Import Model.TsRegistry.
Open Scope N_scope.

(* ------------------------------------------------------- padding (unbounded) *)
Lemma drop_while_app_all p l m : Forall (fun c => p c = true) l -> drop_while p (l ++ m) = drop_while p m.
Proof.
  induction l as [|c l IH]; intros H; [reflexivity|]. inversion H as [|? ? Hc Hl]; subst.
  cbn [app drop_while]. rewrite Hc. apply IH; exact Hl.
Qed.

Lemma Forall_rev' {A} (P : A -> Prop) l : Forall P l -> Forall P (rev l).
Proof.
  intros H. apply Forall_forall. intros x Hx. apply in_rev in Hx. revert x Hx. apply Forall_forall. exact H.
Qed.

Lemma trim_end_pad_app uid pad :
  Forall (fun c => is_pad c = true) pad -> trim_end_pad (uid ++ pad) = trim_end_pad uid.
Proof.
  intros H. unfold trim_end_pad. rewrite rev_app_distr, drop_while_app_all; [reflexivity|]. apply Forall_rev'; exact H.
Qed.

Theorem get_padding m uid pad :
  Forall (fun c => is_pad c = true) pad -> get m (uid ++ pad) = get m uid.
Proof. intros H. unfold get. rewrite trim_end_pad_app by exact H. reflexivity. Qed.

(** a string that ends in a non-padding character is not trimmed at all *)
Lemma trim_end_pad_id s : match rev s with c :: _ => is_pad c = false | [] => True end -> trim_end_pad s = s.
Proof.
  unfold trim_end_pad. intros H. destruct (rev s) as [|c r] eqn:R.
  - cbn. apply (f_equal (@rev N)) in R. rewrite rev_involutive in R. cbn in R. congruence.
  - cbn [drop_while]. rewrite H. rewrite <- R. apply rev_involutive.
Qed.

(* ----------------------------------------------------------- row equality *)
Lemma bool_list_eqb_eq a b : list_eqb Bool.eqb a b = true <-> a = b.
Proof. apply list_eqb_spec. intros x y. apply Bool.eqb_true_iff. Qed.

Lemma row_eqb_eq a b : row_eqb a b = true <-> a = b.
Proof.
  destruct a as [a1 a2 a3 a4 a5 a6 a7 a8], b as [b1 b2 b3 b4 b5 b6 b7 b8]; unfold row_eqb;
    cbn [t_uid t_big t_dec t_enc t_codec t_q t_pdr t_pdw].
  rewrite !andb_true_iff, str_eqb_spec, !Bool.eqb_true_iff, !N.eqb_eq, bool_list_eqb_eq.
  split; [intros [[[[[[[-> ->] ->] ->] ->] ->] ->] ->]; reflexivity | intros H; inversion H; tauto].
Qed.
Lemma opt_row_eqb_eq a b : opt_eqb row_eqb a b = true -> a = b.
Proof.
  destruct a, b; cbn; try discriminate; try reflexivity. intros H; apply row_eqb_eq in H; congruence.
Qed.

(* ------------------------------------------------ finite sweeps per feature set *)
Definition FS : list N := [0; 1].   (* 0 = default features; 1 = rle + jpeg + deflate + inventory-registry *)

(** the registry the implementation built = the model's fold of [register] over the descriptors *)
Definition chk_registry_is_model (k : N) : bool := same_rows (observed k) (model_registry k).
(** looking up a registered UID (unpadded) returns that row; a registered UID has no trailing padding *)
Definition chk_lookup (k : N) : bool :=
  forallb (fun r => opt_eqb row_eqb (get (observed k) (t_uid r)) (Some r)
                    && str_eqb (trim_end_pad (t_uid r)) (t_uid r)) (observed k).
(** UIDs are pairwise distinct *)
Fixpoint uids_distinct (l : list ts_row) : bool :=
  match l with
  | [] => true
  | r :: l' => negb (existsb (fun x => str_eqb (t_uid x) (t_uid r)) l') && uids_distinct l'
  end.
(** only Implicit VR Little Endian is implicit, only Explicit VR Big Endian is big endian
    (flags and the wire layout of the codecs handed out agree) *)
Definition chk_flags (k : N) : bool :=
  forallb (fun r => Bool.eqb (row_implicit r) (str_eqb (t_uid r) UID_IMPLICIT_VR_LE)
                    && Bool.eqb (t_big r) (str_eqb (t_uid r) UID_EXPLICIT_VR_BE)
                    && Bool.eqb ((t_dec r =? L_EBE) || (t_enc r =? L_EBE)) (str_eqb (t_uid r) UID_EXPLICIT_VR_BE)) (observed k).
(** decodable data sets come with a data set decoder and encoder *)
Definition chk_codecs (k : N) : bool :=
  forallb (fun r => match codec_of (t_codec r) with
                    | Some c => implb (can_decode_dataset c) (negb (t_dec r =? L_NONE) && negb (t_enc r =? L_NONE))
                    | None => false end) (observed k).
(** capability answers = the model's function of the codec; codecs handed out = (byte order, explicitness) *)
Definition chk_consistent (k : N) : bool := forallb row_consistent (observed k) && forallb row_consistent (declared k).
Definition chk_nonempty (k : N) : bool := negb (N.of_nat (length (observed k)) <? 46).

Definition chk_all : bool :=
  forallb (fun k => chk_registry_is_model k && chk_lookup k && uids_distinct (observed k) && chk_flags k
                    && chk_codecs k && chk_consistent k && chk_nonempty k) FS.
Lemma all_ok : chk_all = true. Proof. vm_compute. reflexivity. Qed.

Lemma fs_cases k : In k FS -> k = 0 \/ k = 1.
Proof. cbn. intuition. Qed.

Ltac fs_fact k H :=
  let A := fresh in
  pose proof all_ok as A; unfold chk_all in A;
  pose proof (proj1 (forallb_forall _ _) A k H) as A'; cbn beta in A';
  rewrite !andb_true_iff in A'; clear A.

Lemma registry_is_model k : In k FS -> same_rows (observed k) (model_registry k) = true.
Proof.
  intros H. pose proof all_ok as A. unfold chk_all in A. pose proof (proj1 (forallb_forall _ _) A k H) as B. cbn beta in B.
  rewrite !andb_true_iff in B. tauto.
Qed.

Lemma lookup_row k r : In k FS -> In r (observed k) ->
  get (observed k) (t_uid r) = Some r /\ trim_end_pad (t_uid r) = t_uid r.
Proof.
  intros H Hr. pose proof all_ok as A. unfold chk_all in A. pose proof (proj1 (forallb_forall _ _) A k H) as B. cbn beta in B.
  rewrite !andb_true_iff in B. destruct B as [[[[[[_ B] _] _] _] _] _].
  pose proof (proj1 (forallb_forall _ _) B r Hr) as C. cbn beta in C. rewrite andb_true_iff in C. destruct C as [C1 C2].
  split; [apply opt_row_eqb_eq; exact C1|apply str_eqb_spec; exact C2].
Qed.

Theorem lookup_padded k r pad : In k FS -> In r (observed k) ->
  Forall (fun c => is_pad c = true) pad -> get (observed k) (t_uid r ++ pad) = Some r.
Proof. intros H Hr Hp. rewrite get_padding by exact Hp. apply lookup_row; assumption. Qed.

Lemma uids_distinct_nodup l : uids_distinct l = true -> NoDup (map t_uid l).
Proof.
  induction l as [|r l IH]; cbn [uids_distinct map]; [constructor|]. rewrite andb_true_iff, negb_true_iff. intros [H1 H2].
  constructor; [|apply IH; exact H2]. intros Hin. apply in_map_iff in Hin. destruct Hin as [x [Hx Hin]].
  assert (E : existsb (fun x => str_eqb (t_uid x) (t_uid r)) l = true).
  { apply existsb_exists. exists x. split; [exact Hin|apply str_eqb_spec; exact Hx]. }
  congruence.
Qed.
Theorem uids_unique k : In k FS -> NoDup (map t_uid (observed k)).
Proof.
  intros H. apply uids_distinct_nodup. pose proof all_ok as A. unfold chk_all in A.
  pose proof (proj1 (forallb_forall _ _) A k H) as B. cbn beta in B. rewrite !andb_true_iff in B. tauto.
Qed.

Theorem flags k r : In k FS -> In r (observed k) ->
  (row_implicit r = true <-> t_uid r = UID_IMPLICIT_VR_LE) /\
  (t_big r = true <-> t_uid r = UID_EXPLICIT_VR_BE) /\
  (t_dec r = L_EBE \/ t_enc r = L_EBE <-> t_uid r = UID_EXPLICIT_VR_BE).
Proof.
  intros H Hr. pose proof all_ok as A. unfold chk_all in A. pose proof (proj1 (forallb_forall _ _) A k H) as B. cbn beta in B.
  rewrite !andb_true_iff in B. destruct B as [[[[_ B] _] _] _].
  pose proof (proj1 (forallb_forall _ _) B r Hr) as C. cbn beta in C. rewrite !andb_true_iff, !Bool.eqb_true_iff in C.
  destruct C as [[C1 C2] C3]. rewrite <- !str_eqb_spec.
  split; [rewrite C1; tauto|]. split; [rewrite C2; tauto|]. rewrite <- C3, orb_true_iff, !N.eqb_eq. tauto.
Qed.

Theorem decodable_has_codecs k r : In k FS -> In r (observed k) ->
  exists c, codec_of (t_codec r) = Some c /\
            (can_decode_dataset c = true -> t_dec r <> L_NONE /\ t_enc r <> L_NONE).
Proof.
  intros H Hr. pose proof all_ok as A. unfold chk_all in A. pose proof (proj1 (forallb_forall _ _) A k H) as B. cbn beta in B.
  rewrite !andb_true_iff in B. destruct B as [[[_ B] _] _].
  pose proof (proj1 (forallb_forall _ _) B r Hr) as C. cbn beta in C.
  destruct (codec_of (t_codec r)) as [c|]; [|discriminate]. exists c. split; [reflexivity|]. intros D. rewrite D in C. cbn [implb] in C.
  rewrite andb_true_iff, !negb_true_iff, !N.eqb_neq in C. exact C.
Qed.

Lemma consistent_rows k : In k FS -> forallb row_consistent (observed k) = true /\ forallb row_consistent (declared k) = true.
Proof.
  intros H. pose proof all_ok as A. unfold chk_all in A. pose proof (proj1 (forallb_forall _ _) A k H) as B. cbn beta in B.
  rewrite !andb_true_iff in B. destruct B as [[_ B] _]. unfold chk_consistent in B. rewrite andb_true_iff in B. exact B.
Qed.
Lemma row_consistent_spec r : row_consistent r = true ->
  exists c, codec_of (t_codec r) = Some c /\ t_q r = answers c /\
            t_pdr r = pixel_data_reader c /\ t_pdw r = pixel_data_writer c /\
            t_dec r = dataset_codec (t_big r) (row_explicit r) /\ t_enc r = dataset_codec (t_big r) (row_explicit r).
Proof.
  unfold row_consistent. intros C. destruct (codec_of (t_codec r)) as [c|]; [|discriminate]. exists c. split; [reflexivity|].
  rewrite !andb_true_iff, bool_list_eqb_eq, !Bool.eqb_true_iff, !N.eqb_eq in C. tauto.
Qed.
Theorem capabilities k r : In k FS -> In r (observed k) \/ In r (declared k) ->
  exists c, codec_of (t_codec r) = Some c /\ t_q r = answers c /\
            t_pdr r = pixel_data_reader c /\ t_pdw r = pixel_data_writer c /\
            t_dec r = dataset_codec (t_big r) (row_explicit r) /\ t_enc r = dataset_codec (t_big r) (row_explicit r).
Proof.
  intros H Hr. destruct (consistent_rows k H) as [B1 B2]. apply row_consistent_spec.
  destruct Hr as [Hr|Hr]; [exact (proj1 (forallb_forall _ _) B1 r Hr)|exact (proj1 (forallb_forall _ _) B2 r Hr)].
Qed.
(** every codec kind occurs among the declared descriptors of feature set 1 *)
Lemma all_codec_kinds_declared : forallb (fun c => existsb (fun r => t_codec r =? c) (declared 1)) [0;1;2;3;4;5;6] = true.
Proof. vm_compute. reflexivity. Qed.

Theorem registry_size k : In k FS -> (46 <= length (observed k))%nat.
Proof. intros H. destruct (fs_cases k H) as [->| ->]; vm_compute; repeat constructor. Qed.

(** [register] (model, all registries): it never duplicates a UID and keeps every other row *)
Lemma register_uids m ts : NoDup (map t_uid m) -> NoDup (map t_uid (register m ts)).
Proof.
  induction m as [|x m IH]; intros H; cbn [register map]; [constructor; [intros []|constructor]|].
  inversion H as [|? ? Hx Hm]; subst.
  destruct (str_eqb (t_uid x) (t_uid ts)) eqn:E.
  - apply str_eqb_spec in E. destruct (row_replaces x ts); cbn [map]; [rewrite <- E|]; constructor; assumption.
  - cbn [map]. constructor; [|apply IH; exact Hm]. intros Hin. apply in_map_iff in Hin. destruct Hin as [y [Hy Hin]].
    assert (G : forall m, In y (register m ts) -> y = ts \/ In y m).
    { clear. induction m as [|z m IH]; cbn [register]; intros Hin.
      - destruct Hin as [->|[]]; left; reflexivity.
      - destruct (str_eqb (t_uid z) (t_uid ts)); [destruct (row_replaces z ts)|].
        + destruct Hin as [->|Hin]; [left; reflexivity|right; right; exact Hin].
        + right; exact Hin.
        + destruct Hin as [->|Hin]; [right; left; reflexivity|]. destruct (IH Hin) as [->|Hm]; [left; reflexivity|right; right; exact Hm]. }
    destruct (G _ Hin) as [->|Hm'].
    + rewrite Hy in E. assert (str_eqb (t_uid x) (t_uid x) = true) by (apply str_eqb_spec; reflexivity). congruence.
    + apply Hx. apply in_map_iff. exists y. split; assumption.
Qed.
Theorem build_registry_uids l : NoDup (map t_uid (build_registry l)).
Proof.
  unfold build_registry. assert (G : forall m, NoDup (map t_uid m) -> NoDup (map t_uid (fold_left register l m))).
  { induction l as [|a l IH]; intros m H; cbn [fold_left]; [exact H|]. apply IH. apply register_uids. exact H. }
  apply G. constructor.
Qed.
