(** The writer on flat data sets (primitive elements only): the bytes are the
    concatenation of the element encodings; shape of one element encoding
    (header with the exact even length, value, VR-specific padding). *)
From Coq Require Import ZifyBool ZifyNat ZifyN.
From DicomV Require Import Base.Endian Model.Vr Model.Header Model.Prim Model.Dataset Model.Writer Spec.Ps35
  Proofs.HeaderP Proofs.PrimP.
Open Scope N_scope.

Definition plain (e : elem) : Prop :=
  match e with
  | EPrim t v l p => vr_eqb v SQ = false /\ (vr_eqb v OB && is_encaps_header t l) = false
  | _ => False
  end.

Fixpoint enc_flat (c : codec) (es : list elem) : outcome bytes :=
  match es with
  | [] => Ok []
  | EPrim t v _ p :: r =>
      match enc_prim_element c t v p with
      | Ok b => match enc_flat c r with Ok b' => Ok (b ++ b') | Err e => Err e | Panic w => Panic w end
      | Err e => Err e | Panic w => Panic w
      end
  | _ :: _ => Err 0
  end.

Definition flat_tokens (es : list elem) : list token :=
  flat_map (fun e => match e with EPrim t v l p => [TElemHeader t v l; TPrim p] | _ => [] end) es.

Lemma ts_app_of l s : ts_app (ts_of l) s = (l ++ fst s, snd s).
Proof. reflexivity. Qed.

Lemma elems_tokens_flat inv es : Forall plain es -> elems_tokens inv es = (flat_tokens es, false).
Proof.
  induction 1 as [|e es He Hes IH]; [reflexivity|].
  cbn [elems_tokens]. rewrite IH. destruct e as [t v l p| |]; cbn in He; try contradiction.
  destruct He as [H1 H2]. cbn [elem_tokens]. rewrite H2, H1. reflexivity.
Qed.

Lemma write_tokens_flat c nc es : forall st,
  Forall plain es -> w_last st = None ->
  write_tokens c nc st (flat_tokens es) =
  match enc_flat c es with
  | Ok b => Ok {| w_stack := w_stack st; w_last := None; w_out := w_out st ++ b |}
  | Err e => Err e | Panic w => Panic w
  end.
Proof.
  induction es as [|e es IH]; intros st H L.
  - destruct st as [stk lst out]. cbn in L. subst lst.
    cbn [flat_tokens flat_map write_tokens enc_flat w_stack w_out]. rewrite List.app_nil_r. reflexivity.
  - inversion H as [|? ? He Hes]; subst. destruct e as [t v l p| |]; cbn in He; try contradiction.
    cbn [flat_tokens flat_map app write_tokens write_token enc_flat emit w_last].
    destruct (enc_prim_element c t v p) as [b|x|x]; [|reflexivity|reflexivity].
    fold (flat_tokens es). rewrite IH by (assumption || reflexivity).
    unfold emit. cbn [w_stack w_out w_last]. rewrite List.app_nil_r.
    destruct (enc_flat c es); [rewrite <- app_assoc| |]; reflexivity.
Qed.

(** W (flat): writing a flat data set = concatenating the element encodings. *)
Lemma write_dataset_flat c nc inv es : Forall plain es -> write_dataset c nc inv es = enc_flat c es.
Proof.
  intros H. unfold write_dataset, write_stream. rewrite elems_tokens_flat by exact H.
  cbn [fst snd]. rewrite (write_tokens_flat c nc es w_init H eq_refl).
  destruct (enc_flat c es); reflexivity.
Qed.

(** * One element *)
(** Which in-memory variants carry a value of VR [v] (the natural typing of dicom-rs). *)
Definition typed (v : vr) (p : prim) : bool :=
  match p with
  | PEmpty => true
  | PStr _ => match v with LT | ST | UT | UR | AE | AS | CS | DA | DS | DT | IS | LO | PN | SH | TM | UC | UI => true | _ => false end
  | PStrs _ => match v with AE | AS | CS | DA | DS | DT | IS | LO | PN | SH | TM | UC | UI | LT | ST | UT | UR => true | _ => false end
  | PTags _ => match v with AT => true | _ => false end
  | PU8 _ => match v with OB | UN => true | _ => false end
  | PU16 _ => match v with US | OW => true | _ => false end
  | PI16 _ => match v with SS => true | _ => false end
  | PU32 _ => match v with UL | OL => true | _ => false end
  | PI32 _ => match v with SL | IS | DS => true | _ => false end
  | PU64 _ => match v with UV | OV => true | _ => false end
  | PI64 _ => match v with SV => true | _ => false end
  | PF32 _ => match v with FL | OF => true | _ => false end
  | PF64 _ => match v with FD | OD => true | _ => false end
  | PDate _ => match v with DA => true | _ => false end
  | PTime _ => match v with TM => true | _ => false end
  | PDateTime _ => match v with DT => true | _ => false end
  end.

(** The unpadded value field. *)
Definition raw_value (c : codec) (v : vr) (p : prim) : bytes :=
  match p with
  | PStr s => s
  | PStrs l => join_bs l
  | _ => match v with
         | DS | IS => match int_text p with Some t => t | None => [] end
         | _ => fst (enc_prim c p)
         end
  end.

Lemma even_len_even n : n < 4294967295 -> n mod 2 = 0 -> even_len n = n.
Proof.
  intros H E. unfold even_len, clear_low_bit. rewrite N.mod_small by lia.
  assert (n = 2 * (n / 2)) by (pose proof (N.div_mod' n 2); lia).
  assert ((n + 1) / 2 = n / 2).
  { rewrite H0 at 1. rewrite N.mul_comm, N.div_add_l by discriminate. cbn. lia. }
  lia.
Qed.
Lemma even_len_odd n : n < 4294967295 -> n mod 2 = 1 -> even_len n = n + 1.
Proof.
  intros H E. unfold even_len, clear_low_bit. rewrite N.mod_small by lia.
  pose proof (N.div_mod' n 2).
  assert ((n + 1) / 2 = n / 2 + 1).
  { replace (n + 1) with ((n / 2 + 1) * 2) by lia. apply N.div_mul. discriminate. }
  lia.
Qed.

Lemma odd_mod2 (b : bytes) : Nat.odd (length b) = true -> blen b mod 2 = 1.
Proof.
  intros H. unfold blen. apply Nat.odd_spec in H. destruct H as [k Hk]. rewrite Hk.
  replace (N.of_nat (2 * k + 1)) with (1 + N.of_nat k * 2) by lia. rewrite N.mod_add by discriminate. reflexivity.
Qed.
Lemma even_mod2 (b : bytes) : Nat.odd (length b) = false -> blen b mod 2 = 0.
Proof.
  intros H. unfold blen. rewrite <- Nat.negb_even in H. apply negb_false_iff in H.
  apply Nat.even_spec in H. destruct H as [k Hk]. rewrite Hk.
  replace (N.of_nat (2 * k)) with (0 + N.of_nat k * 2) by lia. rewrite N.mod_add by discriminate. reflexivity.
Qed.

Lemma ps35_padded_len v raw : blen raw < 4294967295 -> blen (ps35_padded v raw) = even_len (blen raw).
Proof.
  intros H. unfold ps35_padded. destruct (Nat.odd (length raw)) eqn:O.
  - rewrite blen_app. rewrite even_len_odd by (exact H || apply odd_mod2; exact O). reflexivity.
  - rewrite even_len_even by (exact H || apply even_mod2; exact O). reflexivity.
Qed.
Lemma ps35_padded_even v raw : blen (ps35_padded v raw) mod 2 = 0.
Proof.
  unfold ps35_padded. destruct (Nat.odd (length raw)) eqn:O.
  - rewrite blen_app. pose proof (odd_mod2 raw O) as H. change (blen [ps35_pad v]) with 1.
    rewrite N.add_mod by discriminate. rewrite H. reflexivity.
  - apply even_mod2; exact O.
Qed.

Lemma st_enc_header_defined c t v len :
  len < 4294967295 -> len mod 2 = 0 -> (c <> ILE -> ps35_len16 v = true -> len <= 65535) ->
  st_enc_header c t v len = Ok (ps35_header c t v len).
Proof.
  intros H E S. unfold st_enc_header.
  replace (len =? 4294967295) with false by (symmetry; apply N.eqb_neq; lia).
  rewrite even_len_even by assumption. rewrite enc_header_layout by exact S. reflexivity.
Qed.

Definition hdr_ok (c : codec) (v : vr) (len : N) : Prop := c <> ILE -> ps35_len16 v = true -> len <= 65535.

Lemma st_enc_header_inv c t v len h :
  len < 4294967295 -> st_enc_header c t v len = Ok h ->
  h = ps35_header c t v (even_len len) /\ hdr_ok c v (even_len len).
Proof.
  intros H E. unfold st_enc_header in E.
  replace (len =? 4294967295) with false in E by (symmetry; apply N.eqb_neq; lia).
  destruct (enc_header c t v (even_len len)) as [[b n]|x|x] eqn:EH; try discriminate.
  apply enc_header_ok_inv in EH. destruct EH as [-> [_ K]]. inversion E. split; [reflexivity | exact K].
Qed.

Lemma even_len_idem n : n < 4294967295 -> even_len (even_len n) = even_len n.
Proof.
  intros H. destruct (N.eq_dec (n mod 2) 0) as [E|E].
  - rewrite (even_len_even n H E). apply even_len_even; assumption.
  - assert (E1 : n mod 2 = 1) by (pose proof (N.mod_lt n 2); lia).
    rewrite (even_len_odd n H E1).
    destruct (N.eq_dec n 4294967294) as [->|Hn]; [vm_compute in E1; discriminate|].
    apply even_len_even; [lia|].
    replace (n + 1) with (n mod 2 + 1 + (n / 2) * 2) by (pose proof (N.div_mod' n 2); lia).
    rewrite N.mod_add by discriminate. rewrite E1. reflexivity.
Qed.

Lemma even_len_even_up n : n < 4294967295 -> even_len n = even_up n.
Proof. intros H. unfold even_len, even_up, clear_low_bit. rewrite N.mod_small by lia. reflexivity. Qed.

Lemma pad_even_padded v raw pad : pad = ps35_pad v -> pad_even pad raw = ps35_padded v raw.
Proof. intros ->. reflexivity. Qed.

(** Text path ([encode_text_element] / [encode_texts_element]). *)
Lemma enc_text_value_shape c t v raw b :
  text_pad v = ps35_pad v -> blen raw < 4294967295 ->
  enc_text_value c t v raw = Ok b ->
  b = ps35_header c t v (blen (ps35_padded v raw)) ++ ps35_padded v raw /\ hdr_ok c v (blen (ps35_padded v raw)).
Proof.
  intros P H E. unfold enc_text_value in E. rewrite (pad_even_padded v raw _ P) in E.
  pose proof (ps35_padded_len v raw H) as L.
  assert (B : blen (ps35_padded v raw) < 4294967296).
  { rewrite L. unfold even_len, clear_low_bit. pose proof (N.mod_lt (blen raw + 1) 4294967296).
    assert ((blen raw + 1) mod 4294967296 = blen raw + 1) by (apply N.mod_small; lia).
    pose proof (N.div_mod' (blen raw + 1) 2). pose proof (N.mod_lt (blen raw + 1) 2). lia. }
  rewrite N.mod_small in E by exact B.
  destruct (st_enc_header c t v (blen (ps35_padded v raw))) as [h|x|x] eqn:EH; try discriminate.
  inversion E; subst b.
  destruct (N.eq_dec (blen (ps35_padded v raw)) 4294967295) as [Hu|Hu].
  - exfalso. pose proof (ps35_padded_even v raw) as Ev. rewrite Hu in Ev. discriminate.
  - apply st_enc_header_inv in EH; [|lia]. destruct EH as [EH K].
    rewrite even_len_even in EH, K by (lia || apply ps35_padded_even).
    rewrite EH. split; [reflexivity | exact K].
Qed.

Lemma N_odd_blen (b : bytes) : N.odd (blen b) = Nat.odd (length b).
Proof.
  destruct (Nat.odd (length b)) eqn:O.
  - pose proof (odd_mod2 b O) as H. apply N.odd_spec. exists (blen b / 2).
    pose proof (N.div_mod' (blen b) 2). lia.
  - pose proof (even_mod2 b O) as H. destruct (N.odd (blen b)) eqn:X; [|reflexivity].
    apply N.odd_spec in X. destruct X as [m Hm]. rewrite Hm in H.
    replace (2 * m + 1) with (1 + m * 2) in H by lia. rewrite N.mod_add in H by discriminate. discriminate.
Qed.

(** Binary path ([encode_primitive_element], not text, VR not DS/IS). *)
Lemma enc_binary_shape c t v p b :
  (match p with PStr _ | PStrs _ => False | _ => True end) ->
  (match v with DS | IS => False | _ => True end) ->
  wf_prim p ->
  (match v with DA | DT | TM => 32 | _ => 0 end) = ps35_pad v ->
  blen (fst (enc_prim c p)) < 4294967295 ->
  enc_prim_element c t v p = Ok b ->
  b = ps35_header c t v (blen (ps35_padded v (fst (enc_prim c p)))) ++ ps35_padded v (fst (enc_prim c p))
  /\ hdr_ok c v (blen (ps35_padded v (fst (enc_prim c p)))).
Proof.
  intros Hp Hv W P H E.
  assert (G : match st_enc_header c t v (calc_byte_len p mod 4294967296) with
              | Ok h => Ok (h ++ fst (enc_prim c p) ++ (if N.odd (snd (enc_prim c p)) then [ps35_pad v] else []))
              | Err e => Err e | Panic w => Panic w end = Ok b).
  { rewrite <- P. rewrite <- E. unfold enc_prim_element, enc_binary.
    destruct p; try contradiction; destruct v; try contradiction; destruct (enc_prim c _); reflexivity. }
  clear E. rewrite enc_prim_count, N_odd_blen in G.
  set (raw := fst (enc_prim c p)) in *.
  assert (L : even_len (calc_byte_len p mod 4294967296) = blen (ps35_padded v raw)).
  { rewrite (ps35_padded_len v raw H).
    pose proof (calc_byte_len_ok c p W) as CB. fold raw in CB.
    destruct p; try contradiction; rewrite CB;
      try (rewrite N.mod_small by lia; reflexivity);
      rewrite <- even_len_even_up by exact H;
      (rewrite N.mod_small;
       [apply even_len_idem; exact H
       | rewrite even_len_even_up by exact H; unfold even_up;
         pose proof (N.div_mod' (blen raw + 1) 2); pose proof (N.mod_lt (blen raw + 1) 2); lia]). }
  assert (D : calc_byte_len p mod 4294967296 < 4294967295 \/ calc_byte_len p mod 4294967296 = 4294967295).
  { pose proof (N.mod_lt (calc_byte_len p) 4294967296). lia. }
  destruct D as [D|D].
  - destruct (st_enc_header c t v (calc_byte_len p mod 4294967296)) as [h|x|x] eqn:EH; try discriminate.
    apply st_enc_header_inv in EH; [|exact D]. destruct EH as [EH K]. rewrite L in EH, K. inversion G; subst b h.
    split; [|exact K].
    f_equal. unfold ps35_padded. destruct (Nat.odd (length raw)); [reflexivity | rewrite List.app_nil_r; reflexivity].
  - (* a calculated length of exactly 0xFFFFFFFF cannot happen below the size bound *)
    exfalso. pose proof (calc_byte_len_ok c p W) as CB. fold raw in CB.
    assert (calc_byte_len p <= blen raw + 1).
    { destruct p; try contradiction; rewrite CB; try lia;
        unfold even_up; pose proof (N.div_mod' (blen raw + 1) 2); lia. }
    rewrite N.mod_small in D by lia.
    assert (blen raw = 4294967294) by lia.
    destruct p; try contradiction; rewrite CB in D; try lia;
      unfold even_up in D; pose proof (N.div_mod' (blen raw + 1) 2); lia.
Qed.

Lemma latin1_enc_ok s r : latin1_enc s = Ok r -> r = s.
Proof. unfold latin1_enc. destruct (forallb _ s); intros E; inversion E; reflexivity. Qed.
Lemma latin1_enc_all_ok l r : latin1_enc_all l = Ok r -> r = l.
Proof.
  revert r. induction l as [|s l IH]; intros r E; cbn in E; [inversion E; reflexivity|].
  destruct (latin1_enc s) as [b|x|x] eqn:Es; try discriminate.
  destruct (latin1_enc_all l) as [r'|x|x]; try discriminate.
  inversion E; subst. rewrite (latin1_enc_ok _ _ Es), (IH r' eq_refl). reflexivity.
Qed.

Ltac bin_shape :=
  match goal with
  | E : enc_prim_element ?c ?t ?v ?p = Ok ?b, W : wf_prim ?p, H : blen _ < _ |- _ =>
      apply (enc_binary_shape c t v p b I I W eq_refl H E)
  end.

(** E: every primitive element the writer accepts is header ++ value, the
    header carrying exactly the (even) number of value bytes, the value being
    the raw value padded with the PS3.5 pad byte of the VR. *)
Lemma enc_prim_element_shape c t v p b :
  typed v p = true -> wf_prim p -> blen (raw_value c v p) < 4294967295 ->
  enc_prim_element c t v p = Ok b ->
  b = ps35_header c t v (blen (ps35_padded v (raw_value c v p))) ++ ps35_padded v (raw_value c v p)
  /\ hdr_ok c v (blen (ps35_padded v (raw_value c v p))).
Proof.
  intros T W H E.
  destruct p.
  - (* PEmpty *)
    assert (G : exists h, st_enc_header c t v 0 = Ok h /\ b = h).
    { destruct v; cbn in E; change (0 mod 4294967296) with 0 in E;
        try (destruct (st_enc_header c t _ 0) as [h|x|x]; try discriminate; inversion E; exists h;
             rewrite ?List.app_nil_r; auto); exists b; auto. }
    destruct G as [h [G ->]]. apply st_enc_header_inv in G; [|lia]. destruct G as [G K]. rewrite G.
    replace (raw_value c v PEmpty) with ([] : bytes) by (destruct v; reflexivity).
    change (even_len 0) with 0 in *. cbn. rewrite List.app_nil_r. split; [reflexivity | exact K].
  - (* PStr *)
    cbn [enc_prim_element] in E. destruct (latin1_enc s) as [r|x|x] eqn:L; try discriminate.
    apply latin1_enc_ok in L. subst r. cbn [raw_value] in *.
    apply enc_text_value_shape; [destruct v; try discriminate T; reflexivity | exact H | exact E].
  - (* PStrs *)
    cbn [enc_prim_element] in E. destruct (latin1_enc_all l) as [r|x|x] eqn:L; try discriminate.
    apply latin1_enc_all_ok in L. subst r. cbn [raw_value] in *.
    apply enc_text_value_shape; [destruct v; try discriminate T; reflexivity | exact H | exact E].
  - destruct v; try discriminate T. bin_shape.
  - destruct v; try discriminate T; bin_shape.
  - destruct v; try discriminate T; bin_shape.
  - destruct v; try discriminate T; bin_shape.
  - (* PI32: SL binary; IS/DS as text *)
    destruct v; try discriminate T; try (bin_shape).
    all: cbn [enc_prim_element int_text raw_value] in *;
      set (txt := join_bs (map (signed_dec 32) l)) in *;
      rewrite (N.mod_small (blen txt)) in E by lia;
      destruct (st_enc_header c t _ (even_len (blen txt))) as [h|x|x] eqn:EH; try discriminate;
      inversion E; subst b;
      (assert (B : even_len (blen txt) < 4294967295 \/ even_len (blen txt) = 4294967295)
         by (unfold even_len, clear_low_bit; rewrite N.mod_small by lia;
             pose proof (N.div_mod' (blen txt + 1) 2); pose proof (N.mod_lt (blen txt + 1) 2); lia));
      destruct B as [B|B];
      [ apply st_enc_header_inv in EH; [|exact B]; destruct EH as [EH K]; rewrite even_len_idem in EH, K by exact H;
        rewrite EH; (rewrite <- (ps35_padded_len DS txt H) in * || rewrite <- (ps35_padded_len IS txt H) in * ); split; [reflexivity | exact K]
      | exfalso; unfold even_len, clear_low_bit in B; rewrite N.mod_small in B by lia; lia ].
  - destruct v; try discriminate T; bin_shape.
  - destruct v; try discriminate T; bin_shape.
  - destruct v; try discriminate T; bin_shape.
  - destruct v; try discriminate T; bin_shape.
  - destruct v; try discriminate T; bin_shape.
  - destruct v; try discriminate T; bin_shape.
  - destruct v; try discriminate T; bin_shape.
  - destruct v; try discriminate T; bin_shape.
Qed.
