(** Lemmas about the PDU codec model (Model/Pdu.v):
    A. buffer primitives;  B. the writer emits exactly the pure layout, or fails;
    C. the reader inverts the layout, item kind by item kind;  D. framing (prefixes, strict). *)
From DicomV Require Import Base.Prelude Base.Endian Base.Str Proofs.StrP Model.Pdu.
From Coq Require Import ZifyBool ZifyNat ZifyN.
Ltac Zify.zify_post_hook ::= Z.div_mod_to_equations.

Local Arguments take : simpl never.
Local Arguments len : simpl never.
Local Arguments trim : simpl never.
Local Arguments be16 : simpl never.
Local Arguments be32 : simpl never.

(** * A. lengths and buffer primitives *)
Lemma len_nil : len (@nil N) = 0. Proof. reflexivity. Qed.
Lemma len_cons x (b : list N) : len (x :: b) = 1 + len b.
Proof. unfold len. cbn [length]. lia. Qed.
Lemma len_app (a b : list N) : len (a ++ b) = len a + len b.
Proof. unfold len. rewrite app_length. lia. Qed.
Lemma len_be16 n : len (be16 n) = 2.
Proof. unfold len, be16. rewrite be_bytes_length. reflexivity. Qed.
Lemma len_be32 n : len (be32 n) = 4.
Proof. unfold len, be32. rewrite be_bytes_length. reflexivity. Qed.
Lemma len_repeat (x : N) k : len (repeat x k) = N.of_nat k.
Proof. unfold len. rewrite repeat_length. reflexivity. Qed.
Lemma len_item t c : len (item t c) = 4 + len c.
Proof. unfold item. rewrite !len_cons, len_app, len_be16. lia. Qed.
Lemma len_lp16 c : len (lp16 c) = 2 + len c.
Proof. unfold lp16. rewrite len_app, len_be16. lia. Qed.
Lemma len_firstn (k : nat) (b : list N) : len (firstn k b) = N.min (N.of_nat k) (len b).
Proof. unfold len. rewrite firstn_length. lia. Qed.
Lemma len_length (b : list N) : length b = N.to_nat (len b).
Proof. unfold len. lia. Qed.

Lemma be16_eq n : be16 n = [(n / 256) mod 256; n mod 256].
Proof. reflexivity. Qed.
Lemma be32_eq n : be32 n = [(n / 256 / 256 / 256) mod 256; (n / 256 / 256) mod 256; (n / 256) mod 256; n mod 256].
Proof. reflexivity. Qed.

Lemma u16_be16 n r : n < 65536 -> u16 (be16 n ++ r) = Some (n, r).
Proof.
  intros H. rewrite be16_eq. cbn [app u16]. f_equal. f_equal.
  unfold be_val. cbn [rev app le_val]. lia.
Qed.
Lemma u32_be32 n r : n < 4294967296 -> u32 (be32 n ++ r) = Some (n, r).
Proof.
  intros H. rewrite be32_eq. cbn [app u32]. f_equal. f_equal.
  unfold be_val. cbn [rev app le_val]. lia.
Qed.

Lemma take_app a r : take (len a) (a ++ r) = Some (a, r).
Proof.
  unfold take. rewrite len_app.
  destruct (len a + len r <? len a) eqn:E; [lia|].
  unfold len. rewrite Nat2N.id, firstn_app, skipn_app, Nat.sub_diag, firstn_all, skipn_all.
  cbn. rewrite app_nil_r. reflexivity.
Qed.
Lemma take_app' n a r : n = len a -> take n (a ++ r) = Some (a, r).
Proof. intros ->. apply take_app. Qed.
Lemma take_all a : take (len a) a = Some (a, []).
Proof. rewrite <- (app_nil_r a) at 2. apply take_app. Qed.
Lemma take_short n b : len b < n -> take n b = None.
Proof. intros H. unfold take. destruct (len b <? n) eqn:E; [reflexivity|lia]. Qed.
Lemma take_some n b x r : take n b = Some (x, r) -> b = x ++ r /\ len x = n.
Proof.
  unfold take. destruct (len b <? n) eqn:E; [discriminate|]. intros [= <- <-]. split.
  - symmetry. apply firstn_skipn.
  - rewrite len_firstn. lia.
Qed.

(** * B. the writer: [o] yields exactly [b] when the strings are encodable ([lat]) and
    every content fits its length field ([fit]); otherwise it is an error, never a panic. *)
Definition char (o : outcome bytes) (lat fit : bool) (b : bytes) : Prop :=
  (lat = true -> fit = true -> o = Ok b)
  /\ (forall x, o = Ok x -> lat = true /\ fit = true /\ x = b)
  /\ (forall w, o <> Panic w).

Lemma char_ext o lat fit b lat' fit' b' :
  char o lat fit b -> lat = lat' -> fit = fit' -> b = b' -> char o lat' fit' b'.
Proof. intros H <- <- <-. exact H. Qed.
Lemma char_ok b : char (Ok b) true true b.
Proof. repeat split; try congruence. Qed.
Lemma char_encode s : char (encode s) (latin1 s) true s.
Proof.
  unfold encode, char. destruct (latin1 s); repeat split; try congruence; try discriminate.
Qed.
Lemma char_chunk16 o lat fit b : char o lat fit b -> char (chunk16 o) lat (fit && fits16 b) (lp16 b).
Proof.
  intros (H1 & H2 & H3). unfold chunk16, fits16, lp16. repeat split.
  - intros Hl Hf. apply andb_true_iff in Hf as [Hf Hs]. rewrite (H1 Hl Hf). cbn [bind].
    destruct (65535 <? len b) eqn:E; [lia|reflexivity].
  - destruct o as [d| |]; cbn [bind] in H; try discriminate.
    destruct (H2 d eq_refl) as (-> & -> & ->). reflexivity.
  - destruct o as [d| |]; cbn [bind] in H; try discriminate.
    destruct (H2 d eq_refl) as (-> & -> & ->).
    destruct (65535 <? len b) eqn:E; [discriminate|]. cbn. lia.
  - destruct o as [d| |]; cbn [bind] in H; try discriminate.
    destruct (H2 d eq_refl) as (_ & _ & ->).
    destruct (65535 <? len b) eqn:E; [discriminate|]. congruence.
  - intros w. destruct o as [d| |]; cbn [bind]; try congruence.
    all: try (destruct (65535 <? len d); congruence).
    all: try (exfalso; exact (H3 _ eq_refl)).
Qed.
Lemma char_chunk32 o lat fit b : char o lat fit b -> char (chunk32 o) lat (fit && fits32 b) (be32 (len b) ++ b).
Proof.
  intros (H1 & H2 & H3). unfold chunk32, fits32. repeat split.
  - intros Hl Hf. apply andb_true_iff in Hf as [Hf Hs]. rewrite (H1 Hl Hf). cbn [bind].
    destruct (4294967295 <? len b) eqn:E; [lia|reflexivity].
  - destruct o as [d| |]; cbn [bind] in H; try discriminate.
    destruct (H2 d eq_refl) as (-> & -> & ->). reflexivity.
  - destruct o as [d| |]; cbn [bind] in H; try discriminate.
    destruct (H2 d eq_refl) as (-> & -> & ->).
    destruct (4294967295 <? len b) eqn:E; [discriminate|]. cbn. lia.
  - destruct o as [d| |]; cbn [bind] in H; try discriminate.
    destruct (H2 d eq_refl) as (_ & _ & ->).
    destruct (4294967295 <? len b) eqn:E; [discriminate|]. congruence.
  - intros w. destruct o as [d| |]; cbn [bind]; try congruence.
    all: try (destruct (4294967295 <? len d); congruence).
    all: try (exfalso; exact (H3 _ eq_refl)).
Qed.
Definition seq2 (o1 o2 : outcome bytes) : outcome bytes := a <- o1 ;; b <- o2 ;; Ok (a ++ b).
Lemma char_seq2 o1 o2 lat1 fit1 b1 lat2 fit2 b2 :
  char o1 lat1 fit1 b1 -> char o2 lat2 fit2 b2 ->
  char (seq2 o1 o2) (lat1 && lat2) (fit1 && fit2) (b1 ++ b2).
Proof.
  intros (A1 & A2 & A3) (B1 & B2 & B3). unfold seq2. repeat split.
  - intros Hl Hf. apply andb_true_iff in Hl as [? ?]. apply andb_true_iff in Hf as [? ?].
    rewrite A1, B1 by assumption. reflexivity.
  - destruct o1 as [a| |]; cbn [bind] in H; try discriminate.
    destruct o2 as [c| |]; cbn [bind] in H; try discriminate.
    destruct (A2 a eq_refl) as (-> & _ & _), (B2 c eq_refl) as (-> & _ & _). reflexivity.
  - destruct o1 as [a| |]; cbn [bind] in H; try discriminate.
    destruct o2 as [c| |]; cbn [bind] in H; try discriminate.
    destruct (A2 a eq_refl) as (_ & -> & _), (B2 c eq_refl) as (_ & -> & _). reflexivity.
  - destruct o1 as [a| |]; cbn [bind] in H; try discriminate.
    destruct o2 as [c| |]; cbn [bind] in H; try discriminate.
    destruct (A2 a eq_refl) as (_ & _ & ->), (B2 c eq_refl) as (_ & _ & ->). congruence.
  - intros w. destruct o1 as [a| |]; cbn [bind]; try congruence.
    all: try (destruct o2 as [c| |]; cbn [bind]; try congruence; exfalso; exact (B3 _ eq_refl)).
    all: try (exfalso; exact (A3 _ eq_refl)).
Qed.
Lemma cat_cons o l : cat (o :: l) = seq2 o (cat l).
Proof. reflexivity. Qed.
Lemma cat_app l1 l2 : cat (l1 ++ l2) = seq2 (cat l1) (cat l2).
Proof.
  induction l1 as [|o l1 IH]; cbn [app].
  - unfold seq2. cbn [cat bind]. destruct (cat l2); reflexivity.
  - rewrite !cat_cons, IH. unfold seq2.
    destruct o, (cat l1), (cat l2); cbn [bind]; try reflexivity. rewrite app_assoc. reflexivity.
Qed.
Lemma char_cat_nil : char (cat []) true true [].
Proof. apply char_ok. Qed.
Lemma char_cat_cons o l lat1 fit1 b1 lat2 fit2 b2 :
  char o lat1 fit1 b1 -> char (cat l) lat2 fit2 b2 ->
  char (cat (o :: l)) (lat1 && lat2) (fit1 && fit2) (b1 ++ b2).
Proof. rewrite cat_cons. apply char_seq2. Qed.
Lemma char_cat_app l1 l2 lat1 fit1 b1 lat2 fit2 b2 :
  char (cat l1) lat1 fit1 b1 -> char (cat l2) lat2 fit2 b2 ->
  char (cat (l1 ++ l2)) (lat1 && lat2) (fit1 && fit2) (b1 ++ b2).
Proof. rewrite cat_app. apply char_seq2. Qed.
Lemma char_cat_map {A} (f : A -> outcome bytes) (latf fitf : A -> bool) (ef : A -> bytes) l :
  (forall x, char (f x) (latf x) (fitf x) (ef x)) ->
  char (cat (map f l)) (forallb latf l) (forallb fitf l) (concat (map ef l)).
Proof.
  intros H. induction l as [|x l IH]; cbn [map forallb concat].
  - apply char_cat_nil.
  - apply char_cat_cons; [apply H|exact IH].
Qed.

Ltac norm_bool := cbn [andb]; rewrite ?andb_true_r, ?andb_true_l, ?andb_assoc; reflexivity.
Ltac norm_app := repeat (progress (cbn [app]) || rewrite <- app_assoc); rewrite ?app_nil_r; reflexivity.

Lemma char_item t o lat fit b : char o lat fit b -> char (w_item t o) lat (fit && fits16 b) (item t b).
Proof.
  intros H. unfold w_item. eapply char_ext.
  - apply char_cat_cons; [apply (char_ok [t; 0])|].
    apply char_cat_cons; [apply char_chunk16, H|apply char_cat_nil].
  - norm_bool.
  - norm_bool.
  - unfold item, lp16. norm_app.
Qed.
Lemma char_item_str t s : char (w_item t (encode s)) (latin1 s) (fits16 s) (item t s).
Proof. eapply char_ext; [apply char_item, char_encode|reflexivity|reflexivity|reflexivity]. Qed.
Lemma char_item_raw t d : char (w_item t (Ok d)) true (fits16 d) (item t d).
Proof. eapply char_ext; [apply char_item, char_ok|reflexivity|reflexivity|reflexivity]. Qed.
Lemma char_ae s : char (w_ae s) (latin1 s) true (pad16 s).
Proof.
  unfold w_ae, encode, char. destruct (latin1 s); cbn [bind]; repeat split; try congruence; try discriminate.
Qed.

Lemma char_pc_proposed p :
  char (w_pc_proposed p) (latin_pc_proposed p) (fits_pc_proposed p) (e_pc_proposed p).
Proof.
  unfold w_pc_proposed, e_pc_proposed, latin_pc_proposed, fits_pc_proposed. eapply char_ext.
  - apply char_item. apply char_cat_cons; [apply char_ok|].
    apply char_cat_cons; [apply char_item_str|].
    apply (char_cat_map (fun ts => w_item 64 (encode ts)) latin1 fits16 (item 64)).
    intros x. apply char_item_str.
  - norm_bool.
  - norm_bool.
  - reflexivity.
Qed.
Lemma char_pc_result p :
  char (w_pc_result p) (latin_pc_result p) (fits_pc_result p) (e_pc_result p).
Proof.
  unfold w_pc_result, e_pc_result, latin_pc_result, fits_pc_result. eapply char_ext.
  - apply char_item. apply char_cat_cons; [apply char_ok|].
    apply char_cat_cons; [apply char_item_str|apply char_cat_nil].
  - norm_bool.
  - unfold c_pc_result. rewrite app_nil_r. norm_bool.
  - unfold c_pc_result. rewrite app_nil_r. reflexivity.
Qed.
Lemma char_user_var v :
  char (w_user_var v) (latin_user_var v) (fits_user_var v) (e_user_var v).
Proof.
  destruct v as [t d|n|s|s|uid d|uid scu scp|pos ty prim sec];
    unfold w_user_var, e_user_var, latin_user_var, fits_user_var, t_user_var, c_user_var.
  - apply char_item_raw.
  - apply char_item_raw.
  - eapply char_ext; [apply char_item_str|reflexivity|reflexivity|reflexivity].
  - eapply char_ext; [apply char_item_str|reflexivity|reflexivity|reflexivity].
  - eapply char_ext.
    + apply char_item. apply char_cat_cons; [apply char_chunk16, char_encode|].
      apply char_cat_cons; [apply char_ok|apply char_cat_nil].
    + norm_bool.
    + rewrite app_nil_r. norm_bool.
    + rewrite app_nil_r. reflexivity.
  - eapply char_ext.
    + apply char_item. apply char_cat_cons; [apply char_chunk16, char_encode|].
      apply char_cat_cons; [apply char_ok|apply char_cat_nil].
    + norm_bool.
    + rewrite app_nil_r. norm_bool.
    + rewrite app_nil_r. reflexivity.
  - eapply char_ext.
    + apply char_item. apply char_cat_cons; [apply char_ok|].
      apply char_cat_cons; [apply char_chunk16, char_ok|].
      apply char_cat_cons; [apply char_chunk16, char_ok|apply char_cat_nil].
    + norm_bool.
    + rewrite app_nil_r. norm_bool.
    + rewrite app_nil_r. reflexivity.
Qed.
Lemma char_user_vars uvs :
  char (w_user_vars uvs) (forallb latin_user_var uvs) (fits_user_vars uvs) (e_user_vars uvs).
Proof.
  destruct uvs as [|v uvs].
  - apply char_ok.
  - unfold w_user_vars, e_user_vars, fits_user_vars.
    apply char_item. apply char_cat_map. apply char_user_var.
Qed.
Lemma char_pdv v : char (w_pdv v) true (fits_pdv v) (e_pdv v).
Proof.
  unfold w_pdv, e_pdv, fits_pdv. eapply char_ext; [apply char_chunk32, char_ok|reflexivity| |].
  - unfold fits32. rewrite !len_cons. cbn [andb]. f_equal. lia.
  - rewrite !len_cons. f_equal. f_equal. lia.
Qed.

Lemma char_body p :
  char (w_body p) (latin_pdu p)
       (match p with
        | AssocRQ _ _ _ app pcs uvs => fits16 app && forallb fits_pc_proposed pcs && fits_user_vars uvs
        | AssocAC _ _ _ app pcs uvs => fits16 app && forallb fits_pc_result pcs && fits_user_vars uvs
        | PData vs => forallb fits_pdv vs
        | _ => true
        end) (e_body p).
Proof.
  destruct p as [t d|ver calling called apc pcs uvs|ver calling called apc pcs uvs|r s|vs| | |s];
    unfold w_body, e_body, latin_pdu; try apply char_ok.
  - unfold w_assoc_head. cbn [app]. eapply char_ext.
    + apply char_cat_cons; [apply char_ok|]. apply char_cat_cons; [apply char_ae|].
      apply char_cat_cons; [apply char_ae|]. apply char_cat_cons; [apply char_ok|].
      apply char_cat_cons; [apply char_item_str|].
      apply char_cat_app; [apply char_cat_map, char_pc_proposed|].
      apply char_cat_cons; [apply char_user_vars|apply char_cat_nil].
    + norm_bool.
    + norm_bool.
    + unfold e_assoc_head. norm_app.
  - unfold w_assoc_head. cbn [app]. eapply char_ext.
    + apply char_cat_cons; [apply char_ok|]. apply char_cat_cons; [apply char_ae|].
      apply char_cat_cons; [apply char_ae|]. apply char_cat_cons; [apply char_ok|].
      apply char_cat_cons; [apply char_item_str|].
      apply char_cat_app; [apply char_cat_map, char_pc_result|].
      apply char_cat_cons; [apply char_user_vars|apply char_cat_nil].
    + norm_bool.
    + norm_bool.
    + unfold e_assoc_head. norm_app.
  - eapply char_ext; [apply (char_cat_map w_pdv (fun _ => true) fits_pdv e_pdv), char_pdv| |reflexivity|reflexivity].
    induction vs; cbn; auto.
Qed.

Theorem char_write p : char (write_pdu p) (latin_pdu p) (fits_pdu p) (e_pdu p).
Proof.
  unfold write_pdu, e_pdu, fits_pdu. eapply char_ext.
  - apply char_cat_cons; [apply char_ok|].
    apply char_cat_cons; [apply char_chunk32, char_body|apply char_cat_nil].
  - norm_bool.
  - norm_bool.
  - norm_app.
Qed.

Lemma write_ok p : latin_pdu p = true -> fits_pdu p = true -> write_pdu p = Ok (e_pdu p).
Proof. intros H1 H2. apply (proj1 (char_write p)); assumption. Qed.
Lemma write_inv p b : write_pdu p = Ok b -> b = e_pdu p /\ latin_pdu p = true /\ fits_pdu p = true.
Proof. intros H. destruct (proj1 (proj2 (char_write p)) b H) as (? & ? & ?). auto. Qed.
Lemma write_not_ok p : latin_pdu p && fits_pdu p = false -> exists e, write_pdu p = Err e.
Proof.
  intros H. destruct (write_pdu p) as [b|e|w] eqn:E.
  - apply write_inv in E as (_ & E1 & E2). rewrite E1, E2 in H. discriminate.
  - eauto.
  - exfalso. exact (proj2 (proj2 (char_write p)) w E).
Qed.

(** * D. framing: header, incomplete prefixes, strict mode *)
Definition frame (t : N) (body : bytes) : bytes := t :: 0 :: be32 (len body) ++ body.
Lemma e_pdu_frame p : e_pdu p = frame (pdu_type p) (e_body p).
Proof. reflexivity. Qed.
Lemma length_frame t body : length (frame t body) = (6 + length body)%nat.
Proof. unfold frame. cbn [length]. rewrite app_length. unfold be32. rewrite be_bytes_length. lia. Qed.

Lemma read_frame max strict t body rest :
  max_ok max = true -> len body < 4294967296 -> (strict = false \/ len body <= max) ->
  read_pdu max strict (frame t body ++ rest) = (p <- r_body t body ;; Ok (Some (p, rest))).
Proof.
  intros Hm Hl Hs. unfold read_pdu, frame. rewrite Hm. cbn [negb app].
  rewrite <- app_assoc, u32_be32 by exact Hl.
  replace (strict && (max <? len body)) with false by (destruct Hs as [->|Hs]; [reflexivity|]; lia).
  rewrite take_app. reflexivity.
Qed.

Lemma firstn_lt_none_u32 (k : nat) (b : bytes) : (k < 4)%nat -> u32 (firstn k b) = None.
Proof.
  intros H. destruct k as [|[|[|[|k]]]]; try lia;
    destruct b as [|x [|y [|z [|w b]]]]; reflexivity.
Qed.

Lemma read_frame_prefix max strict t body k :
  max_ok max = true -> len body < 4294967296 -> (strict = false \/ len body <= max) ->
  (k < length (frame t body))%nat ->
  read_pdu max strict (firstn k (frame t body)) = Ok None.
Proof.
  intros Hm Hl Hs Hk. rewrite length_frame in Hk. unfold read_pdu, frame. rewrite Hm. cbn [negb].
  destruct k as [|[|k]]; [reflexivity|reflexivity|]. cbn [firstn].
  destruct (Nat.lt_ge_cases k 4) as [H4|H4].
  - rewrite firstn_lt_none_u32 by exact H4. reflexivity.
  - rewrite firstn_app. unfold be32 at 1 2. rewrite be_bytes_length.
    rewrite firstn_all2 by (rewrite be_bytes_length; exact H4).
    fold (be32 (len body)). rewrite u32_be32 by exact Hl.
    replace (strict && (max <? len body)) with false by (destruct Hs as [->|Hs]; [reflexivity|]; lia).
    rewrite take_short; [reflexivity|]. rewrite len_firstn. unfold len in *. lia.
Qed.

Lemma read_strict_too_large max t r plen tail :
  max_ok max = true -> plen < 4294967296 -> max < plen ->
  read_pdu max true (t :: r :: be32 plen ++ tail) = Err E_PduTooLarge.
Proof.
  intros Hm Hl Hs. unfold read_pdu. rewrite Hm. cbn [negb].
  rewrite u32_be32 by exact Hl. replace (max <? plen) with true by lia. reflexivity.
Qed.
