(** Lemmas about Model/Ops.v and Spec/OpsSpec.v (C13). *)
From DicomV Require Import Base.Prelude Model.Ops Spec.OpsSpec.
From Coq Require Import ZifyBool ZifyNat ZifyN.
Open Scope N_scope.

(** * Induction principle for nested values *)
Section value_ind'.
  Variable P : value -> Prop.
  Hypothesis HP : forall p, P (VPrim p).
  Hypothesis HS : forall items, Forall (fun it : obj => Forall (fun e : elem => P (snd e)) it) items -> P (VSeq items).
  Hypothesis HX : forall b f, P (VPix b f).
  Fixpoint value_ind' (v : value) : P v :=
    match v with
    | VPrim p => HP p
    | VSeq items =>
        HS items
          ((fix go (l : list obj) : Forall (fun it : obj => Forall (fun e : elem => P (snd e)) it) l :=
              match l with
              | [] => Forall_nil _
              | it :: l' =>
                  Forall_cons it
                    ((fix go2 (o : obj) : Forall (fun e : elem => P (snd e)) o :=
                        match o with
                        | [] => Forall_nil _
                        | e :: o' => Forall_cons e (value_ind' (snd e)) (go2 o')
                        end) it)
                    (go l')
              end) items)
    | VPix b f => HX b f
    end.
End value_ind'.

(** * The attribute map *)
Lemma get_put_same o e : get (put o e) (e_tag e) = Some e.
Proof.
  induction o as [|x o IH]; cbn [put get].
  - rewrite N.eqb_refl. reflexivity.
  - destruct (e_tag e <? e_tag x) eqn:E1; cbn [get]; [rewrite N.eqb_refl; reflexivity|].
    destruct (e_tag e =? e_tag x) eqn:E2; cbn [get]; [rewrite N.eqb_refl; reflexivity|].
    replace (e_tag x =? e_tag e) with false by lia. exact IH.
Qed.

Lemma get_put_other o e t : t <> e_tag e -> get (put o e) t = get o t.
Proof.
  intros H. induction o as [|x o IH]; cbn [put get].
  - replace (e_tag e =? t) with false by lia. reflexivity.
  - destruct (e_tag e <? e_tag x) eqn:E1; cbn [get].
    + replace (e_tag e =? t) with false by lia. reflexivity.
    + destruct (e_tag e =? e_tag x) eqn:E2; cbn [get].
      * replace (e_tag e =? t) with false by lia. replace (e_tag x =? t) with false by lia. reflexivity.
      * rewrite IH. reflexivity.
Qed.

Lemma get_del_other o t t' : t <> t' -> get (del o t') t = get o t.
Proof.
  intros H. induction o as [|x o IH]; cbn [del get]; [reflexivity|].
  destruct (e_tag x =? t') eqn:E; cbn [get].
  - replace (e_tag x =? t) with false by lia. reflexivity.
  - rewrite IH. reflexivity.
Qed.

Lemma get_tag o t e : get o t = Some e -> e_tag e = t.
Proof.
  induction o as [|x o IH]; cbn [get]; [discriminate|].
  destruct (e_tag x =? t) eqn:E; [intros H; injection H as <-; lia|exact IH].
Qed.

Lemma put_put o e1 e2 : e_tag e1 = e_tag e2 -> put (put o e1) e2 = put o e2.
Proof.
  intros H. induction o as [|x o IH]; cbn [put].
  - replace (e_tag e2 <? e_tag e1) with false by lia. replace (e_tag e2 =? e_tag e1) with true by lia. reflexivity.
  - destruct (e_tag e1 <? e_tag x) eqn:E1; cbn [put].
    + replace (e_tag e2 <? e_tag e1) with false by lia. replace (e_tag e2 =? e_tag e1) with true by lia.
      replace (e_tag e2 <? e_tag x) with true by lia. reflexivity.
    + destruct (e_tag e1 =? e_tag x) eqn:E2; cbn [put].
      * replace (e_tag e2 <? e_tag e1) with false by lia. replace (e_tag e2 =? e_tag e1) with true by lia.
        replace (e_tag e2 <? e_tag x) with false by lia. replace (e_tag e2 =? e_tag x) with true by lia. reflexivity.
      * replace (e_tag e2 <? e_tag x) with false by lia. replace (e_tag e2 =? e_tag x) with false by lia.
        rewrite IH. reflexivity.
Qed.

(* strictly increasing tags: the BTreeMap invariant *)
Definition lb (m : N) (o : obj) : bool := forallb (fun x => m <? e_tag x) o.
Fixpoint sortedb (o : obj) : bool :=
  match o with [] => true | x :: o' => lb (e_tag x) o' && sortedb o' end.

Lemma lb_weaken m m' o : m' <= m -> lb m o = true -> lb m' o = true.
Proof.
  intros H. unfold lb. rewrite !forallb_forall. intros Hl x Hx. specialize (Hl x Hx). lia.
Qed.

Lemma lb_put m o e : lb m o = true -> m < e_tag e -> lb m (put o e) = true.
Proof.
  intros Hl He. induction o as [|x o IH]; cbn [put lb forallb] in *.
  - replace (m <? e_tag e) with true by lia. reflexivity.
  - apply andb_true_iff in Hl. destruct Hl as [Hx Ho].
    destruct (e_tag e <? e_tag x); cbn [forallb].
    + replace (m <? e_tag e) with true by lia. rewrite Hx. exact Ho.
    + destruct (e_tag e =? e_tag x); cbn [forallb].
      * replace (m <? e_tag e) with true by lia. exact Ho.
      * rewrite Hx. apply IH. exact Ho.
Qed.

Lemma sorted_put o e : sortedb o = true -> sortedb (put o e) = true.
Proof.
  induction o as [|x o IH]; cbn [put sortedb]; [reflexivity|].
  rewrite andb_true_iff. intros [Hl Hs].
  destruct (e_tag e <? e_tag x) eqn:E1; cbn [sortedb].
  - assert (H1 : lb (e_tag e) (x :: o) = true).
    { unfold lb. cbn [forallb]. rewrite E1. cbn [andb]. apply (lb_weaken (e_tag x)); [lia|exact Hl]. }
    rewrite H1, Hl, Hs. reflexivity.
  - destruct (e_tag e =? e_tag x) eqn:E2; cbn [sortedb].
    + replace (e_tag e) with (e_tag x) by lia. rewrite Hl, Hs. reflexivity.
    + rewrite lb_put by (assumption || lia). cbn [andb]. apply IH, Hs.
Qed.

Lemma lb_del m o t : lb m o = true -> lb m (del o t) = true.
Proof.
  induction o as [|x o IH]; cbn [del lb forallb]; [reflexivity|].
  rewrite andb_true_iff. intros [Hx Ho]. destruct (e_tag x =? t); [exact Ho|].
  cbn [forallb]. rewrite Hx. apply IH, Ho.
Qed.

Lemma sorted_del o t : sortedb o = true -> sortedb (del o t) = true.
Proof.
  induction o as [|x o IH]; cbn [del sortedb]; [reflexivity|].
  rewrite andb_true_iff. intros [Hl Hs]. destruct (e_tag x =? t); [exact Hs|].
  cbn [sortedb]. rewrite lb_del by exact Hl. apply IH, Hs.
Qed.

Lemma lb_get m o t e : lb m o = true -> get o t = Some e -> m < t.
Proof.
  induction o as [|x o IH]; cbn [lb forallb get]; [discriminate|].
  rewrite andb_true_iff. intros [Hx Ho]. destruct (e_tag x =? t) eqn:E; [intros _; lia|apply IH, Ho].
Qed.

(* writing back what is there changes nothing *)
Lemma put_get_id o e : sortedb o = true -> get o (e_tag e) = Some e -> put o e = o.
Proof.
  induction o as [|x o IH]; cbn [sortedb get put]; [discriminate|].
  rewrite andb_true_iff. intros [Hl Hs].
  destruct (e_tag x =? e_tag e) eqn:E.
  - intros H; injection H as ->. rewrite N.ltb_irrefl, N.eqb_refl. reflexivity.
  - intros Hg. pose proof (lb_get _ _ _ _ Hl Hg).
    replace (e_tag e <? e_tag x) with false by lia. replace (e_tag e =? e_tag x) with false by lia.
    rewrite IH by assumption. reflexivity.
Qed.

Lemma set_nth_same {A} (l : list A) n x : nth_error l n = Some x -> set_nth l n x = l.
Proof.
  revert n; induction l as [|y l IH]; intros [|n]; cbn; try discriminate.
  - intros H; injection H as ->. reflexivity.
  - intros H. rewrite IH by exact H. reflexivity.
Qed.

(* generic: a pointwise property of elements survives put / del / get *)
Lemma forallb_put (P : elem -> bool) o e : forallb P o = true -> P e = true -> forallb P (put o e) = true.
Proof.
  intros Ho He. induction o as [|x o IH]; cbn [put forallb] in *; [rewrite He; reflexivity|].
  apply andb_true_iff in Ho. destruct Ho as [Hx Ho].
  destruct (e_tag e <? e_tag x); cbn [forallb]; [rewrite He, Hx, Ho; reflexivity|].
  destruct (e_tag e =? e_tag x); cbn [forallb]; [rewrite He, Ho; reflexivity|].
  rewrite Hx. apply IH, Ho.
Qed.
Lemma forallb_del (P : elem -> bool) o t : forallb P o = true -> forallb P (del o t) = true.
Proof.
  induction o as [|x o IH]; cbn [del forallb]; [reflexivity|].
  rewrite andb_true_iff. intros [Hx Ho]. destruct (e_tag x =? t); [exact Ho|]. cbn [forallb]. rewrite Hx. apply IH, Ho.
Qed.
Lemma forallb_get (P : elem -> bool) o t e : forallb P o = true -> get o t = Some e -> P e = true.
Proof.
  induction o as [|x o IH]; cbn [forallb get]; [discriminate|].
  rewrite andb_true_iff. intros [Hx Ho]. destruct (e_tag x =? t); [intros H; injection H as <-; exact Hx|apply IH, Ho].
Qed.
Lemma forallb_nth_error {A} (P : A -> bool) l n x : forallb P l = true -> nth_error l n = Some x -> P x = true.
Proof.
  intros H Hn. rewrite forallb_forall in H. apply H. eapply nth_error_In; eassumption.
Qed.
Lemma forallb_set_nth {A} (P : A -> bool) l n x : forallb P l = true -> P x = true -> forallb P (set_nth l n x) = true.
Proof.
  revert n; induction l as [|y l IH]; intros n Hl Hx; [destruct n; reflexivity|].
  cbn [forallb] in Hl. apply andb_true_iff in Hl. destruct Hl as [Hy Hl].
  destruct n; cbn [set_nth forallb]; [rewrite Hx, Hl; reflexivity|]. rewrite Hy. apply IH; assumption.
Qed.
Lemma forallb_snoc {A} (P : A -> bool) l x : forallb P l = true -> P x = true -> forallb P (l ++ [x]) = true.
Proof. intros Hl Hx. rewrite forallb_app, Hl. cbn. rewrite Hx. reflexivity. Qed.
Lemma forallb_firstn {A} (P : A -> bool) n l : forallb P l = true -> forallb P (firstn n l) = true.
Proof.
  revert n; induction l as [|y l IH]; intros [|n]; cbn [firstn forallb]; try reflexivity.
  rewrite andb_true_iff. intros [Hy Hl]. rewrite Hy. apply IH, Hl.
Qed.

(** * Deep well-formedness: every object, at every depth, is in tag order *)
Fixpoint wfv (v : value) : bool :=
  match v with
  | VSeq items => forallb (fun it : obj => sortedb it && forallb (fun e : elem => wfv (snd e)) it) items
  | _ => true
  end.
Definition wfo (o : obj) : bool := sortedb o && forallb (fun e : elem => wfv (e_val e)) o.
Lemma wfv_seq items : wfv (VSeq items) = forallb wfo items.
Proof. reflexivity. Qed.

Lemma wfo_put o t vr v : wfo o = true -> wfv v = true -> wfo (put o (t, vr, v)) = true.
Proof.
  unfold wfo. rewrite !andb_true_iff. intros [Hs Hf] Hv. split.
  - apply sorted_put, Hs.
  - apply forallb_put; assumption.
Qed.
Lemma wfo_del o t : wfo o = true -> wfo (del o t) = true.
Proof.
  unfold wfo. rewrite !andb_true_iff. intros [Hs Hf]. split; [apply sorted_del, Hs|apply forallb_del, Hf].
Qed.
Lemma wfo_get o t e : wfo o = true -> get o t = Some e -> wfv (e_val e) = true.
Proof. unfold wfo. rewrite andb_true_iff. intros [_ Hf] Hg. apply (forallb_get _ _ _ _ Hf Hg). Qed.
Lemma wfo_sorted o : wfo o = true -> sortedb o = true.
Proof. unfold wfo. rewrite andb_true_iff. tauto. Qed.

Lemma wfv_truncate n v : wfv v = true -> wfv (value_truncate n v) = true.
Proof.
  destruct v as [p|items|b f]; cbn [value_truncate]; try reflexivity.
  rewrite !wfv_seq. apply forallb_firstn.
Qed.
Lemma wfv_new_value vr p : wfv (new_value vr p) = true.
Proof. unfold new_value. destruct ((vr =? VR_SQ) && prim_is_empty p); reflexivity. Qed.

Section WithDict.
Variable dict : N -> option N.

Lemma wfo_leaf t a o : wfo o = true -> wfo (snd (apply_leaf dict t a o)) = true.
Proof.
  intros H. destruct a; cbn [apply_leaf snd].
  - apply wfo_del, H.
  - destruct (get o t) eqn:G; [apply wfo_put; [exact H|apply wfv_new_value]|exact H].
  - destruct (get o t) as [e|] eqn:G; [|exact H].
    match goal with |- context [if ?c then _ else _] => destruct c end; [|exact H].
    apply wfo_put; [exact H|apply (wfo_get _ _ _ H G)].
  - unfold change_value. destruct (get o t); apply wfo_put; try exact H; apply wfv_new_value.
  - destruct (get o t); [exact H|]. unfold change_value. destruct (get o t); apply wfo_put; try exact H; apply wfv_new_value.
  - destruct (get o t) eqn:G; [|exact H]. unfold change_value. rewrite G. apply wfo_put; [exact H|apply wfv_new_value].
  - unfold push. destruct (get o t) as [e|]; [|apply wfo_put; [exact H|reflexivity]].
    destruct (e_val e); try exact H. destruct (extend_str p s); try exact H. apply wfo_put; [exact H|reflexivity].
  - unfold push. destruct (get o t) as [e|]; [|apply wfo_put; [exact H|reflexivity]].
    destruct (e_val e); try exact H. destruct (extend_num p own casts text); try exact H. apply wfo_put; [exact H|reflexivity].
  - destruct (get o t) as [e|] eqn:G; [|exact H]. apply wfo_put; [exact H|]. apply wfv_truncate, (wfo_get _ _ _ H G).
Qed.

Lemma wfo_apply_sel steps leaf a : forall o, wfo o = true -> wfo (snd (apply_sel dict steps leaf a o)) = true.
Proof.
  induction steps as [|[t item] rest IH]; intros o H; cbn [apply_sel].
  - apply wfo_leaf, H.
  - set (created := match get o t with Some _ => Ok o | None => _ end).
    assert (Hc : forall o1, created = Ok o1 -> wfo o1 = true).
    { intros o1. unfold created. destruct (get o t).
      - intros E; injection E as <-. exact H.
      - destruct (constructive a); [|discriminate].
        destruct (negb (dict_vr dict t VR_UN =? VR_SQ) && negb (dict_vr dict t VR_UN =? VR_UN)); [discriminate|].
        intros E; injection E as <-. apply wfo_put; [exact H|reflexivity]. }
    destruct created as [o1| |]; cbn [snd]; try exact H.
    specialize (Hc o1 eq_refl).
    destruct (get o1 t) as [[[t0 vr] v]|] eqn:G; cbn [snd]; [|exact Hc].
    destruct v as [p|items|b f]; cbn [snd]; try exact Hc.
    pose proof (wfo_get _ _ _ Hc G) as Hi. cbn [e_val snd] in Hi. rewrite wfv_seq in Hi.
    destruct ((N.of_nat (length items) =? item) && constructive a).
    + specialize (IH [] eq_refl). destruct (apply_sel dict rest leaf a []) as [r it']. cbn [snd] in *.
      apply wfo_put; [exact Hc|]. rewrite wfv_seq. apply forallb_snoc; assumption.
    + destruct (nth_error items (N.to_nat item)) as [it|] eqn:En; cbn [snd]; [|exact Hc].
      specialize (IH it (forallb_nth_error _ _ _ _ Hi En)).
      destruct (apply_sel dict rest leaf a it) as [r it']. cbn [snd] in *.
      apply wfo_put; [exact Hc|]. rewrite wfv_seq. apply forallb_set_nth; assumption.
Qed.

Lemma wfo_apply o x : wfo o = true -> wfo (snd (apply dict o x)) = true.
Proof.
  destruct x as [[steps leaf] a]. intros H. cbn [apply].
  destruct (constructive a); [|apply wfo_apply_sel, H].
  destruct (check_path dict steps o); [apply wfo_apply_sel, H|exact H|exact H].
Qed.

Lemma wfo_apply_all ops : forall o, wfo o = true -> wfo (apply_all dict ops o) = true.
Proof. induction ops as [|x ops IH]; intros o H; cbn; [exact H|]. apply IH, wfo_apply, H. Qed.

(** * Frame: attributes other than the one addressed at the root are untouched *)
Definition root_tag (x : op) : N :=
  match x with (steps, leaf, _) => match steps with [] => leaf | (t, _) :: _ => t end end.

Lemma frame_leaf t a o t' : t' <> t -> get (snd (apply_leaf dict t a o)) t' = get o t'.
Proof.
  intros Hn. destruct a; cbn [apply_leaf snd].
  - apply get_del_other, Hn.
  - destruct (get o t); [apply get_put_other; exact Hn|reflexivity].
  - destruct (get o t) as [e|]; [|reflexivity].
    match goal with |- context [if ?c then _ else _] => destruct c end; [apply get_put_other; exact Hn|reflexivity].
  - unfold change_value. destruct (get o t); apply get_put_other; exact Hn.
  - destruct (get o t); [reflexivity|]. unfold change_value. destruct (get o t); apply get_put_other; exact Hn.
  - destruct (get o t) eqn:G; [|reflexivity]. unfold change_value. rewrite G. apply get_put_other; exact Hn.
  - unfold push. destruct (get o t) as [e|]; [|apply get_put_other; exact Hn].
    destruct (e_val e); try reflexivity. destruct (extend_str p s); try reflexivity. apply get_put_other; exact Hn.
  - unfold push. destruct (get o t) as [e|]; [|apply get_put_other; exact Hn].
    destruct (e_val e); try reflexivity. destruct (extend_num p own casts text); try reflexivity. apply get_put_other; exact Hn.
  - destruct (get o t); [apply get_put_other; exact Hn|reflexivity].
Qed.

Lemma frame_sel steps leaf a o t' : t' <> root_tag (steps, leaf, a) -> get (snd (apply_sel dict steps leaf a o)) t' = get o t'.
Proof.
  cbn [root_tag]. destruct steps as [|[t item] rest]; intros Hn.
  - apply frame_leaf, Hn.
  - cbn [apply_sel].
    set (created := match get o t with Some _ => Ok o | None => _ end).
    assert (Hc : forall o1, created = Ok o1 -> get o1 t' = get o t').
    { intros o1. unfold created. destruct (get o t); [intros E; injection E as <-; reflexivity|].
      destruct (constructive a); [|discriminate].
      destruct (negb (dict_vr dict t VR_UN =? VR_SQ) && negb (dict_vr dict t VR_UN =? VR_UN)); [discriminate|].
      intros E; injection E as <-. apply get_put_other, Hn. }
    destruct created as [o1| |]; cbn [snd]; try reflexivity. specialize (Hc o1 eq_refl).
    destruct (get o1 t) as [[[t0 vr] v]|]; cbn [snd]; [|exact Hc].
    destruct v as [p|items|b f]; cbn [snd]; try exact Hc.
    destruct ((N.of_nat (length items) =? item) && constructive a).
    + destruct (apply_sel dict rest leaf a []) as [r it']. cbn [snd]. rewrite get_put_other by exact Hn. exact Hc.
    + destruct (nth_error items (N.to_nat item)) as [it|]; cbn [snd]; [|exact Hc].
      destruct (apply_sel dict rest leaf a it) as [r it']. cbn [snd]. rewrite get_put_other by exact Hn. exact Hc.
Qed.

Lemma frame o x t' : t' <> root_tag x -> get (snd (apply dict o x)) t' = get o t'.
Proof.
  destruct x as [[steps leaf] a]. intros Hn. cbn [apply].
  destruct (constructive a); [|apply frame_sel, Hn].
  destruct (check_path dict steps o); [apply frame_sel, Hn|reflexivity|reflexivity].
Qed.

(** * No panic: the [expect] in [apply] is unreachable *)
Lemma no_panic_leaf t a o w : fst (apply_leaf dict t a o) <> Panic w.
Proof.
  destruct a; cbn [apply_leaf fst]; try discriminate.
  - unfold push. destruct (get o t) as [e|]; [|discriminate]. destruct (e_val e); try discriminate.
    destruct p; cbn; discriminate.
  - unfold push. destruct (get o t) as [e|]; [|discriminate]. destruct (e_val e); try discriminate.
    destruct p; cbn; discriminate.
Qed.

Lemma no_panic_sel steps leaf a : forall o w, fst (apply_sel dict steps leaf a o) <> Panic w.
Proof.
  induction steps as [|[t item] rest IH]; intros o w; cbn [apply_sel]; [apply no_panic_leaf|].
  destruct (get o t) as [e0|] eqn:G0.
  - rewrite G0. destruct e0 as [[t0 vr] v]. destruct v as [p|items|b f]; cbn [fst]; try discriminate.
    destruct ((N.of_nat (length items) =? item) && constructive a).
    + specialize (IH [] w). destruct (apply_sel dict rest leaf a []) as [r it']. exact IH.
    + destruct (nth_error items (N.to_nat item)) as [it|]; [|discriminate].
      specialize (IH it w). destruct (apply_sel dict rest leaf a it) as [r it']. exact IH.
  - destruct (constructive a); [|discriminate].
    destruct (negb (dict_vr dict t VR_UN =? VR_SQ) && negb (dict_vr dict t VR_UN =? VR_UN)); [discriminate|].
    pose proof (get_put_same o (t, VR_SQ, VSeq [])) as Hg. cbn [e_tag fst] in Hg. rewrite Hg. cbn [length N.of_nat].
    destruct ((0 =? item) && true).
    + specialize (IH [] w). destruct (apply_sel dict rest leaf a []) as [r it']. exact IH.
    + destruct (nth_error [] (N.to_nat item)) eqn:En; [destruct (N.to_nat item); discriminate|discriminate].
Qed.

(** * A failing operation changes nothing, unless it is a constructive action under a nested
      selector (known class NestedFailureLeavesPath) *)
Lemma fail_leaf t a o : fst (apply_leaf dict t a o) <> Ok tt -> snd (apply_leaf dict t a o) = o.
Proof.
  destruct a; cbn [apply_leaf fst snd]; try (intros H; exfalso; apply H; reflexivity).
  - unfold push. destruct (get o t) as [e|]; [|intros H; exfalso; apply H; reflexivity].
    destruct (e_val e); try reflexivity. destruct (extend_str p s); cbn; try reflexivity. intros H; exfalso; apply H; reflexivity.
  - unfold push. destruct (get o t) as [e|]; [|intros H; exfalso; apply H; reflexivity].
    destruct (e_val e); try reflexivity. destruct (extend_num p own casts text); cbn; try reflexivity. intros H; exfalso; apply H; reflexivity.
Qed.

Lemma fail_sel steps leaf a : (steps = [] \/ constructive a = false) ->
  forall o, wfo o = true -> fst (apply_sel dict steps leaf a o) <> Ok tt -> snd (apply_sel dict steps leaf a o) = o.
Proof.
  intros Hk. induction steps as [|[t item] rest IH]; intros o Hw; cbn [apply_sel]; [apply fail_leaf|].
  destruct Hk as [Hk|Hk]; [discriminate|]. rewrite Hk in *.
  destruct (get o t) as [e0|] eqn:G0; [|reflexivity].
  rewrite G0. destruct e0 as [[t0 vr] v]. destruct v as [p|items|b f]; cbn [snd]; try reflexivity.
  rewrite andb_false_r.
  destruct (nth_error items (N.to_nat item)) as [it|] eqn:En; [|reflexivity].
  pose proof (wfo_get _ _ _ Hw G0) as Hi. cbn [e_val snd] in Hi. rewrite wfv_seq in Hi.
  specialize (IH (or_intror eq_refl) it (forallb_nth_error _ _ _ _ Hi En)).
  destruct (apply_sel dict rest leaf a it) as [r it']. cbn [fst snd] in *.
  intros Hr. rewrite (IH Hr). rewrite set_nth_same by exact En.
  pose proof (get_tag _ _ _ G0) as Ht. cbn [e_tag fst] in Ht. subst t0.
  apply put_get_id; [apply wfo_sorted, Hw|exact G0].
Qed.

(** * Refinement: the implementation model computes the reference semantics *)
Lemma del_absent o t : get o t = None -> del o t = o.
Proof.
  induction o as [|x o IH]; [reflexivity|]. cbn [get del]. destruct (e_tag x =? t); [discriminate|].
  intros G. rewrite IH by exact G. reflexivity.
Qed.

Lemma leaf_refines t a o :
  match spec_leaf dict t a o with
  | Ok o' => apply_leaf dict t a o = (Ok tt, o')
  | Err e => apply_leaf dict t a o = (Err e, o)
  | Panic _ => False
  end.
Proof.
  unfold spec_leaf. destruct (get o t) as [e|] eqn:G; destruct a; cbn [apply_leaf];
    unfold change_value, s_assign, push, s_store, new_value, s_fresh_vr, s_vr, dict_vr in *; rewrite ?G; try reflexivity.
  all: try (match goal with G' : get _ _ = None |- _ => rewrite (del_absent _ _ G') end; reflexivity).
  all: try (destruct (e_val e); reflexivity).
  all: destruct (e_val e); try reflexivity; cbn [s_push_prim bind].
  - destruct p; cbn; reflexivity.
  - destruct p; cbn; reflexivity.
Qed.

Lemma sel_refines steps leaf a : forall o, wfo o = true ->
  match spec_apply dict steps leaf a o with
  | Ok o' => apply_sel dict steps leaf a o = (Ok tt, o')
  | Err e => fst (apply_sel dict steps leaf a o) = Err e
  | Panic _ => False
  end.
Proof.
  induction steps as [|[t item] rest IH]; intros o Hw; cbn [spec_apply apply_sel].
  - pose proof (leaf_refines leaf a o) as H. destruct (spec_leaf dict leaf a o); [exact H|rewrite H; reflexivity|exact H].
  - destruct (get o t) as [e0|] eqn:G0.
    + rewrite G0. destruct e0 as [[t0 vr] v]. destruct v as [p|items|b f]; try reflexivity.
      pose proof (wfo_get _ _ _ Hw G0) as Hi. cbn [e_val snd] in Hi. rewrite wfv_seq in Hi.
      destruct (nth_error items (N.to_nat item)) as [it|] eqn:En.
      * (* existing item: the "next item" test is false *)
        assert (Hlt : (N.to_nat item < length items)%nat) by (apply nth_error_Some; rewrite En; discriminate).
        replace (N.of_nat (length items) =? item) with false by lia. cbn [andb].
        specialize (IH it (forallb_nth_error _ _ _ _ Hi En)).
        destruct (spec_apply dict rest leaf a it) as [it'| |]; cbn [bind].
        -- rewrite IH. reflexivity.
        -- destruct (apply_sel dict rest leaf a it). cbn [fst] in *. exact IH.
        -- exact IH.
      * assert (Hge : (length items <= N.to_nat item)%nat) by (apply nth_error_None; exact En).
        destruct (constructive a) eqn:Ca; rewrite ?andb_true_r, ?andb_false_r.
        -- destruct (item =? N.of_nat (length items)) eqn:E.
           ++ replace (N.of_nat (length items) =? item) with true by lia.
              specialize (IH [] eq_refl). destruct (spec_apply dict rest leaf a []) as [it'| |]; cbn [bind].
              ** rewrite IH. reflexivity.
              ** destruct (apply_sel dict rest leaf a []). cbn [fst] in *. exact IH.
              ** exact IH.
           ++ replace (N.of_nat (length items) =? item) with false by lia. reflexivity.
        -- reflexivity.
    + destruct (constructive a) eqn:Ca; [|reflexivity].
      unfold s_vr, dict_vr.
      destruct (negb (match dict t with Some v => v | None => VR_UN end =? VR_SQ)
                && negb (match dict t with Some v => v | None => VR_UN end =? VR_UN)); [reflexivity|].
      pose proof (get_put_same o (t, VR_SQ, VSeq [])) as Hg. cbn [e_tag fst] in Hg. rewrite !Hg. cbn [length N.of_nat].
      destruct (item =? 0) eqn:E.
      * replace (0 =? item) with true by lia. cbn [andb].
        specialize (IH [] eq_refl). destruct (spec_apply dict rest leaf a []) as [it'| |]; cbn [bind].
        -- rewrite IH. cbn [app]. rewrite put_put by reflexivity. reflexivity.
        -- destruct (apply_sel dict rest leaf a []). cbn [fst] in *. exact IH.
        -- exact IH.
      * replace (0 =? item) with false by lia. cbn [andb].
        destruct (N.to_nat item) eqn:En; [lia|]. reflexivity.
Qed.

Lemma check_no_panic steps : forall o w, check_path dict steps o <> Panic w.
Proof.
  induction steps as [|[t item] rest IH]; intros o w; cbn [check_path]; [discriminate|].
  destruct (get o t) as [[[t0 vr] v]|].
  - destruct v as [p|items|b f]; try discriminate.
    destruct (nth_error items (N.to_nat item)); [apply IH|]. destruct (item =? N.of_nat (length items)); [apply IH|discriminate].
  - destruct (negb (dict_vr dict t VR_UN =? VR_SQ) && negb (dict_vr dict t VR_UN =? VR_UN)); [discriminate|].
    destruct (item =? 0); [apply IH|discriminate].
Qed.

Ltac errt := let H := fresh in intros H; injection H as <-; reflexivity.
(* what the check rejects, the reference semantics rejects with the same error *)
Lemma check_err_spec steps leaf a : constructive a = true -> forall o e,
  check_path dict steps o = Err e -> spec_apply dict steps leaf a o = Err e.
Proof.
  intros Ca. induction steps as [|[t item] rest IH]; intros o e; cbn [check_path spec_apply]; [discriminate|].
  rewrite Ca. destruct (get o t) as [[[t0 vr] v]|].
  - destruct v as [p|items|b f]; try errt.
    destruct (nth_error items (N.to_nat item)) as [it|].
    + intros H. rewrite (IH _ _ H). reflexivity.
    + rewrite andb_true_r. destruct (item =? N.of_nat (length items)); [|errt].
      intros H. rewrite (IH _ _ H). reflexivity.
  - unfold s_vr, dict_vr.
    destruct (negb (match dict t with Some v => v | None => VR_UN end =? VR_SQ)
              && negb (match dict t with Some v => v | None => VR_UN end =? VR_UN)); [errt|].
    destruct (item =? 0); [|errt]. intros H. rewrite (IH _ _ H). reflexivity.
Qed.

(* in a data set yet to be created a checked constructive operation cannot fail *)
Lemma leaf_empty_ok leaf a : constructive a = true -> fst (apply_leaf dict leaf a []) = Ok tt.
Proof. destruct a; cbn; intros H; try discriminate; reflexivity. Qed.

Lemma sel_empty_ok steps leaf a : constructive a = true ->
  check_path dict steps [] = Ok tt -> fst (apply_sel dict steps leaf a []) = Ok tt.
Proof.
  intros Ca. induction steps as [|[t item] rest IH]; cbn [check_path apply_sel get]; [intros _; apply leaf_empty_ok, Ca|].
  rewrite Ca.
  destruct (negb (dict_vr dict t VR_UN =? VR_SQ) && negb (dict_vr dict t VR_UN =? VR_UN)); [discriminate|].
  destruct (item =? 0) eqn:E; [|discriminate]. intros Hc.
  cbn [put get e_tag fst]. rewrite N.eqb_refl. cbn [length N.of_nat].
  replace (0 =? item) with true by lia. cbn [andb].
  specialize (IH Hc). destruct (apply_sel dict rest leaf a []) as [r it']. exact IH.
Qed.

Lemma fail_sel_checked steps leaf a : constructive a = true ->
  forall o, wfo o = true -> check_path dict steps o = Ok tt ->
  fst (apply_sel dict steps leaf a o) <> Ok tt -> snd (apply_sel dict steps leaf a o) = o.
Proof.
  intros Ca. induction steps as [|[t item] rest IH]; intros o Hw; cbn [check_path apply_sel]; [intros _; apply fail_leaf|].
  rewrite Ca. destruct (get o t) as [e0|] eqn:G0.
  - rewrite G0. destruct e0 as [[t0 vr] v]. destruct v as [p|items|b f]; try discriminate.
    pose proof (wfo_get _ _ _ Hw G0) as Hi. cbn [e_val snd] in Hi. rewrite wfv_seq in Hi.
    rewrite andb_true_r.
    destruct (nth_error items (N.to_nat item)) as [it|] eqn:En.
    + assert (Hlt : (N.to_nat item < length items)%nat) by (apply nth_error_Some; rewrite En; discriminate).
      replace (N.of_nat (length items) =? item) with false by lia.
      intros Hc. specialize (IH it (forallb_nth_error _ _ _ _ Hi En) Hc).
      destruct (apply_sel dict rest leaf a it) as [r it']. cbn [fst snd] in *.
      intros Hr. rewrite (IH Hr), set_nth_same by exact En.
      pose proof (get_tag _ _ _ G0) as Ht. cbn [e_tag fst] in Ht. subst t0.
      apply put_get_id; [apply wfo_sorted, Hw|exact G0].
    + destruct (item =? N.of_nat (length items)) eqn:E; [|discriminate].
      replace (N.of_nat (length items) =? item) with true by lia.
      intros Hc. pose proof (sel_empty_ok rest leaf a Ca Hc) as Hok.
      destruct (apply_sel dict rest leaf a []) as [r it']. cbn [fst snd] in *. intros Hr. contradiction.
  - destruct (negb (dict_vr dict t VR_UN =? VR_SQ) && negb (dict_vr dict t VR_UN =? VR_UN)); [discriminate|].
    destruct (item =? 0) eqn:E; [|discriminate]. intros Hc.
    pose proof (get_put_same o (t, VR_SQ, VSeq [])) as Hg. cbn [e_tag fst] in Hg. rewrite Hg. cbn [length N.of_nat].
    replace (0 =? item) with true by lia. cbn [andb].
    pose proof (sel_empty_ok rest leaf a Ca Hc) as Hok.
    destruct (apply_sel dict rest leaf a []) as [r it']. cbn [fst snd] in *. intros Hr. contradiction.
Qed.

(* failure => unchanged, for every operation *)
Lemma fail_apply o x : wfo o = true -> fst (apply dict o x) <> Ok tt -> snd (apply dict o x) = o.
Proof.
  destruct x as [[steps leaf] a]. intros Hw. cbn [apply]. destruct (constructive a) eqn:Ca.
  - destruct (check_path dict steps o) as [[]| |] eqn:Hc; cbn [fst snd]; try reflexivity.
    apply fail_sel_checked; assumption.
  - apply fail_sel; [right; exact Ca|exact Hw].
Qed.

Lemma refines o x : wfo o = true ->
  match spec_op dict o x with
  | Ok o' => apply dict o x = (Ok tt, o')
  | Err e => fst (apply dict o x) = Err e
  | Panic _ => False
  end.
Proof.
  destruct x as [[steps leaf] a]. intros Hw. cbn [apply spec_op].
  pose proof (sel_refines steps leaf a o Hw) as H.
  destruct (constructive a) eqn:Ca; [|exact H].
  destruct (check_path dict steps o) as [[]| |] eqn:Hc; [exact H| |exfalso; eapply check_no_panic; eassumption].
  rewrite (check_err_spec steps leaf a Ca o _ Hc). reflexivity.
Qed.

(* one step of a history: the state after the operation is the reference's (failed: unchanged) *)
Lemma step_refines o x : wfo o = true -> snd (apply dict o x) = spec_step dict o x.
Proof.
  intros Hw. pose proof (refines o x Hw) as H. unfold spec_step.
  destruct (spec_op dict o x) as [o'|e|] eqn:E.
  - rewrite H. reflexivity.
  - apply fail_apply; [exact Hw|rewrite H; discriminate].
  - contradiction.
Qed.
End WithDict.

(** * Kind discipline and writing *)
Lemma kind_seq t vr items : value_kind_ok t vr (VSeq items) = (vr =? VR_SQ) && forallb kind_ok items.
Proof. reflexivity. Qed.

Definition ekind (e : elem) : bool := value_kind_ok (e_tag e) (e_vr e) (e_val e).
Lemma kind_ok_unfold o : kind_ok o = forallb ekind o.
Proof. reflexivity. Qed.

Lemma kind_new_value t vr p : value_kind_ok t vr (new_value vr p) = true.
Proof.
  unfold new_value. destruct ((vr =? VR_SQ) && prim_is_empty p) eqn:E; [|reflexivity].
  apply andb_true_iff in E. destruct E as [E _]. cbn. rewrite E. reflexivity.
Qed.

Lemma kind_truncate t vr n v : value_kind_ok t vr v = true -> value_kind_ok t vr (value_truncate n v) = true.
Proof.
  destruct v as [p|items|b f]; cbn [value_truncate]; try (intros H; exact H).
  rewrite !kind_seq, !andb_true_iff. intros [H1 H2]. split; [exact H1|apply forallb_firstn, H2].
Qed.

Section WithDict2.
Variable dict : N -> option N.

Lemma kind_put o t vr v : kind_ok o = true -> value_kind_ok t vr v = true -> kind_ok (put o (t, vr, v)) = true.
Proof. rewrite !kind_ok_unfold. intros Ho Hv. apply forallb_put; [exact Ho|exact Hv]. Qed.

Lemma kind_get o t e : kind_ok o = true -> get o t = Some e -> value_kind_ok t (e_vr e) (e_val e) = true.
Proof.
  rewrite kind_ok_unfold. intros Ho Hg. pose proof (forallb_get _ _ _ _ Ho Hg) as H. unfold ekind in H.
  rewrite (get_tag _ _ _ Hg) in H. exact H.
Qed.

Lemma kind_leaf t a o : kind_ok o = true -> kind_ok (snd (apply_leaf dict t a o)) = true.
Proof.
  intros H. destruct a; cbn [apply_leaf snd].
  - rewrite kind_ok_unfold in *. apply forallb_del, H.
  - destruct (get o t); [apply kind_put; [exact H|apply kind_new_value]|exact H].
  - destruct (get o t) as [e|] eqn:G; [|exact H].
    pose proof (kind_get _ _ _ H G) as Hk.
    destruct (e_val e) as [p|items|b f] eqn:Ev.
    + destruct (negb (vr =? VR_SQ)); [apply kind_put; [exact H|reflexivity]|exact H].
    + destruct (vr =? VR_SQ) eqn:E; [|exact H]. apply kind_put; [exact H|].
      rewrite kind_seq in *. rewrite E. apply andb_true_iff in Hk. cbn [andb]. tauto.
    + destruct (vr =? VR_OB) eqn:E; [|exact H]. apply kind_put; [exact H|].
      cbn in *. rewrite E. apply andb_true_iff in Hk. cbn [andb]. tauto.
  - unfold change_value. destruct (get o t); apply kind_put; try exact H; apply kind_new_value.
  - destruct (get o t); [exact H|]. unfold change_value. destruct (get o t); apply kind_put; try exact H; apply kind_new_value.
  - destruct (get o t) eqn:G; [|exact H]. unfold change_value. rewrite G. apply kind_put; [exact H|apply kind_new_value].
  - unfold push. destruct (get o t) as [e|]; [|apply kind_put; [exact H|reflexivity]].
    destruct (e_val e); try exact H. destruct (extend_str p s); try exact H. apply kind_put; [exact H|reflexivity].
  - unfold push. destruct (get o t) as [e|]; [|apply kind_put; [exact H|reflexivity]].
    destruct (e_val e); try exact H. destruct (extend_num p own casts text); try exact H. apply kind_put; [exact H|reflexivity].
  - destruct (get o t) as [e|] eqn:G; [|exact H]. apply kind_put; [exact H|]. apply kind_truncate, (kind_get _ _ _ H G).
Qed.

Lemma kind_apply_sel steps leaf a : forall o, kind_ok o = true -> kind_ok (snd (apply_sel dict steps leaf a o)) = true.
Proof.
  induction steps as [|[t item] rest IH]; intros o H; cbn [apply_sel].
  - apply kind_leaf, H.
  - set (created := match get o t with Some _ => Ok o | None => _ end).
    assert (Hc : forall o1, created = Ok o1 -> kind_ok o1 = true).
    { intros o1. unfold created. destruct (get o t).
      - intros E; injection E as <-. exact H.
      - destruct (constructive a); [|discriminate].
        destruct (negb (dict_vr dict t VR_UN =? VR_SQ) && negb (dict_vr dict t VR_UN =? VR_UN)); [discriminate|].
        intros E; injection E as <-. apply kind_put; [exact H|reflexivity]. }
    destruct created as [o1| |]; cbn [snd]; try exact H.
    specialize (Hc o1 eq_refl).
    destruct (get o1 t) as [[[t0 vr] v]|] eqn:G; cbn [snd]; [|exact Hc].
    destruct v as [p|items|b f]; cbn [snd]; try exact Hc.
    pose proof (kind_get _ _ _ Hc G) as Hi. cbn [e_val e_vr fst snd] in Hi. rewrite kind_seq in Hi.
    apply andb_true_iff in Hi. destruct Hi as [Hvr Hi].
    destruct ((N.of_nat (length items) =? item) && constructive a).
    + specialize (IH [] eq_refl). destruct (apply_sel dict rest leaf a []) as [r it']. cbn [snd] in *.
      apply kind_put; [exact Hc|]. rewrite kind_seq, Hvr. apply forallb_snoc; assumption.
    + destruct (nth_error items (N.to_nat item)) as [it|] eqn:En; cbn [snd]; [|exact Hc].
      specialize (IH it (forallb_nth_error _ _ _ _ Hi En)).
      destruct (apply_sel dict rest leaf a it) as [r it']. cbn [snd] in *.
      apply kind_put; [exact Hc|]. rewrite kind_seq, Hvr. apply forallb_set_nth; assumption.
Qed.

Lemma kind_apply_all ops : forall o, kind_ok o = true -> kind_ok (apply_all dict ops o) = true.
Proof.
  induction ops as [|x ops IH]; intros o H; cbn [apply_all fold_left]; [exact H|]. apply IH.
  destruct x as [[steps leaf] a]. cbn [apply]. destruct (constructive a); [|apply kind_apply_sel, H].
  destruct (check_path dict steps o); [apply kind_apply_sel, H|exact H|exact H].
Qed.
End WithDict2.

(* an object whose values agree in kind with their VRs never makes the token generator panic *)
Lemma kind_no_panic_value v : forall t vr, value_kind_ok t vr v = true -> value_panics t vr v = false.
Proof.
  induction v as [p|items IH|b f] using value_ind'; intros t vr H.
  - reflexivity.
  - rewrite kind_seq in H. apply andb_true_iff in H. destruct H as [Hvr Hi].
    cbn [value_panics]. rewrite Hvr. cbn [negb orb].
    apply not_true_is_false. intros Hex. apply existsb_exists in Hex. destruct Hex as [it [Hin Hex]].
    apply existsb_exists in Hex. destruct Hex as [e [Hine He]].
    rewrite Forall_forall in IH. specialize (IH it Hin). rewrite Forall_forall in IH. specialize (IH e Hine).
    rewrite forallb_forall in Hi. specialize (Hi it Hin). rewrite kind_ok_unfold, forallb_forall in Hi.
    specialize (Hi e Hine). unfold ekind, e_tag, e_vr, e_val in Hi.
    rewrite (IH _ _ Hi) in He. discriminate.
  - cbn in *. apply andb_true_iff in H. destruct H as [H1 H2]. rewrite H1, H2.
    destruct (vr =? VR_SQ); reflexivity.
Qed.

Lemma kind_no_panic o : kind_ok o = true -> tokens_panic o = false.
Proof.
  intros H. unfold tokens_panic. apply not_true_is_false. intros Hex. apply existsb_exists in Hex.
  destruct Hex as [e [Hin He]]. rewrite kind_ok_unfold, forallb_forall in H. specialize (H e Hin).
  rewrite (kind_no_panic_value _ _ _ H) in He. discriminate.
Qed.

Lemma shape_ok_split o : shape_ok o = kind_ok o && sq_prim_free o.
Proof. reflexivity. Qed.

(** * Histories *)
Section Histories.
Variable dict : N -> option N.
Lemma history_refines ops : forall o, wfo o = true -> apply_all dict ops o = spec_all dict ops o.
Proof.
  induction ops as [|x r IH]; intros o Hw; [reflexivity|].
  cbn [apply_all spec_all fold_left].
  pose proof (step_refines dict o x Hw) as Hs.
  change (fold_left (fun o x => snd (apply dict o x)) r (snd (apply dict o x))) with (apply_all dict r (snd (apply dict o x))).
  change (fold_left (spec_step dict) r (spec_step dict o x)) with (spec_all dict r (spec_step dict o x)).
  rewrite Hs. apply IH. rewrite <- Hs. apply wfo_apply, Hw.
Qed.
End Histories.

(** * Witnesses of the known classes *)
(* (0008,1140)[0].(0010,0010)[0].(0010,0020) SetStr "x" on the empty object, with (0010,0010) known to the
   dictionary as PN: fails with NotASequence and (since fix) leaves no trace *)
Definition w_dict (t : N) : option N := if t =? 1048592 then Some 20558 else None.
Definition w_nested : op := ([(528704, 0); (1048592, 0)], 1048608, ASet (PStr [120])).
Lemma nested_failure_example : apply w_dict [] w_nested = (Err e_not_a_seq, []).
Proof. vm_compute. reflexivity. Qed.

(* PrimitiveUnderSqVr: SetStr "x" on an existing sequence attribute keeps the VR SQ with a string value *)
Definition w_seq_obj : obj := [(528704, VR_SQ, VSeq [[]])].
Definition w_set_on_sq : op := ([], 528704, ASet (PStr [120])).
Lemma primitive_under_sq_witness :
  shape_ok w_seq_obj = true /\ fst (apply w_dict w_seq_obj w_set_on_sq) = Ok tt /\
  snd (apply w_dict w_seq_obj w_set_on_sq) = [(528704, VR_SQ, VPrim (PStr [120]))] /\
  shape_ok (snd (apply w_dict w_seq_obj w_set_on_sq)) = false /\
  spec_op w_dict w_seq_obj w_set_on_sq = Ok [(528704, VR_SQ, VPrim (PStr [120]))].
Proof. repeat split; vm_compute; reflexivity. Qed.
