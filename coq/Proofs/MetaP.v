(** Lemmas about Model/Meta.v (C09). *)
From DicomV Require Import Base.Prelude Base.Endian Base.Str Model.Meta.
From Coq Require Import ZifyBool ZifyNat ZifyN.
Ltac Zify.zify_post_hook ::= Z.div_mod_to_equations.
Open Scope N_scope.

(** * 1. The recorded length is kept up to date by every operation *)
Lemma calc_glen_set_glen g t : calc_glen (set_glen g t) = calc_glen t.
Proof. reflexivity. Qed.

Lemma up_to_date_update t : up_to_date (update_glen t).
Proof. unfold up_to_date, update_glen. rewrite calc_glen_set_glen. reflexivity. Qed.

Lemma apply_meta_ok op t : fst (apply_meta op t) = Ok tt -> up_to_date (snd (apply_meta op t)).
Proof.
  unfold apply_meta. destruct (apply_fields op t); cbn; intros H; try discriminate.
  apply up_to_date_update.
Qed.

Lemma apply_meta_fail op t : fst (apply_meta op t) <> Ok tt -> snd (apply_meta op t) = t.
Proof.
  unfold apply_meta. destruct (apply_fields op t); cbn; intros H; try reflexivity.
  exfalso; apply H; reflexivity.
Qed.

Lemma apply_meta_res op t : fst (apply_meta op t) = Ok tt \/ (exists e, fst (apply_meta op t) = Err e).
Proof.
  unfold apply_meta. destruct (apply_fields op t) eqn:E; cbn; eauto.
  (* no panic in apply_fields *)
  exfalso. unfold apply_fields in E. destruct op as [[tag|] a]; cbn in E; try discriminate.
  repeat match type of E with
  | (if ?c then _ else _) = _ => destruct c
  end;
  try (destruct a; cbn in E; try discriminate;
       repeat match type of E with
              | context [match ?x with _ => _ end] => destruct x; cbn in E; try discriminate
              end).
Qed.

Lemma apply_meta_step op t : up_to_date t -> up_to_date (snd (apply_meta op t)).
Proof.
  intros H. destruct (apply_meta_res op t) as [E|[e E]].
  - apply apply_meta_ok; exact E.
  - rewrite apply_meta_fail; [exact H | rewrite E; discriminate].
Qed.

Lemma apply_all_up_to_date ops : forall t, up_to_date t -> up_to_date (apply_all ops t).
Proof.
  induction ops as [|op ops IH]; intros t H; cbn; [exact H|].
  apply IH, apply_meta_step, H.
Qed.

Lemma build_up_to_date iu inm b t : build iu inm b = Ok t -> up_to_date t.
Proof.
  unfold build. destruct (b_ts b); [|discriminate].
  destruct (b_impl_class b); intros E; inversion E; apply up_to_date_update.
Qed.

(** * 2. Length of the encoded group *)
Lemma blen_app a b : blen (a ++ b) = blen a + blen b.
Proof. unfold blen. rewrite app_length. lia. Qed.
Lemma blen_cons x b : blen (x :: b) = 1 + blen b.
Proof. unfold blen. cbn [length]. lia. Qed.
Lemma blen_nil : blen [] = 0. Proof. reflexivity. Qed.
Lemma blen_le16 n : blen (le16 n) = 2. Proof. unfold blen, le16. rewrite le_bytes_length. reflexivity. Qed.
Lemma blen_le32 n : blen (le32 n) = 4. Proof. unfold blen, le32. rewrite le_bytes_length. reflexivity. Qed.

Ltac blen_simp := repeat first [rewrite blen_app | rewrite blen_cons | rewrite blen_le16 | rewrite blen_le32 | rewrite blen_nil].

Lemma slen_ascii s : ascii s = true -> slen s = blen s.
Proof.
  induction s as [|c s IH]; cbn [ascii forallb slen]; [reflexivity|].
  rewrite andb_true_iff. intros [Hc Hs]. rewrite blen_cons, (IH Hs).
  unfold utf8_len1. rewrite Hc. reflexivity.
Qed.

Lemma latin1_ascii s : ascii s = true -> latin1 s = Some s.
Proof.
  intros H. unfold latin1. replace (forallb (fun c => c <? 256) s) with true; [reflexivity|].
  symmetry. unfold ascii in H. rewrite forallb_forall in *. intros x Hx. specialize (H x Hx). lia.
Qed.

Lemma pow32 : 2 ^ 32 = 4294967296. Proof. reflexivity. Qed.
Lemma pow31 : 2 ^ 31 = 2147483648. Proof. reflexivity. Qed.

Lemma u32_small n : n < 2 ^ 32 -> u32 n = n.
Proof. intros H. unfold u32. apply N.mod_small, H. Qed.

Lemma even_len_small n : n < 2 ^ 32 - 1 -> even_len n = (n + 1) / 2 * 2.
Proof. intros H. unfold even_len. rewrite u32_small; [reflexivity|]. rewrite pow32 in *. lia. Qed.

Lemma blen_pad_even b p : blen (pad_even b p) = (blen b + 1) / 2 * 2.
Proof.
  unfold pad_even. destruct (N.odd (blen b)) eqn:E.
  - rewrite blen_app, blen_cons, blen_nil. apply N.odd_spec in E. destruct E as [k Hk]. rewrite Hk. lia.
  - assert (N.even (blen b) = true) as E2 by (rewrite <- N.negb_odd, E; reflexivity).
    apply N.even_spec in E2. destruct E2 as [k Hk]. rewrite Hk. lia.
Qed.

Lemma hdr16_ok el a b len h : hdr16 el a b len = Ok h -> even_len len <= 65535 /\ blen h = 8.
Proof.
  unfold hdr16. destruct (65535 <? even_len len) eqn:E; [discriminate|].
  intros H; inversion H; subst. split; [lia|].
  blen_simp. reflexivity.
Qed.

Lemma enc_text_len el a b pad s out :
  ascii s = true -> blen s < 2 ^ 31 -> enc_text el a b pad s = Ok out ->
  blen out = 8 + dicom_len s /\ dicom_len s <= 65535.
Proof.
  intros Ha Hs. unfold enc_text. rewrite (latin1_ascii _ Ha).
  destruct (hdr16 el a b (u32 (blen (pad_even s pad)))) eqn:Eh; cbn; try discriminate.
  intros H; inversion H; subst out. apply hdr16_ok in Eh. destruct Eh as [Hle Hh].
  rewrite blen_app, Hh. unfold dicom_len. rewrite (slen_ascii _ Ha).
  rewrite blen_pad_even in *. rewrite pow31 in Hs.
  assert (Hu: u32 ((blen s + 1) / 2 * 2) = (blen s + 1) / 2 * 2) by (apply u32_small; rewrite pow32; lia).
  rewrite Hu in Hle.
  rewrite (u32_small (blen s)) by (rewrite pow32; lia).
  rewrite even_len_small in Hle by (rewrite pow32; lia).
  rewrite even_len_small by (rewrite pow32; lia).
  split; lia.
Qed.

Lemma enc_opt_len f o out :
  (forall s out, o = Some s -> f s = Ok out -> blen out = 8 + dicom_len s /\ dicom_len s <= 65535) ->
  enc_opt f o = Ok out -> blen out = opt_len o /\ opt_len o <= 65543.
Proof.
  intros Hf. destruct o as [s|]; cbn.
  - intros H. destruct (Hf s out eq_refl H). lia.
  - intros H; inversion H. rewrite blen_nil. lia.
Qed.

Lemma blen_hdr32 el a b len : blen (hdr32 el a b len) = 12.
Proof. unfold hdr32. blen_simp. reflexivity. Qed.

Lemma enc_ob_len el b : blen b < 2 ^ 31 -> blen (enc_ob el b) = 12 + even_len (u32 (blen b)).
Proof.
  intros H. unfold enc_ob. rewrite blen_app, blen_hdr32, blen_pad_even. rewrite pow31 in H.
  rewrite u32_small by (rewrite pow32; lia). rewrite even_len_small by (rewrite pow32; lia). reflexivity.
Qed.

(* sizes for which no u32 computation wraps *)
Definition ostr_small (o : option str) : Prop := match o with Some s => blen s < 2 ^ 31 | None => True end.
Definition small (t : meta) : Prop :=
  blen (m_sop_class t) < 2 ^ 31 /\ blen (m_sop_inst t) < 2 ^ 31 /\ blen (m_ts t) < 2 ^ 31 /\
  blen (m_impl_class t) < 2 ^ 31 /\ ostr_small (m_impl_ver t) /\ ostr_small (m_src_ae t) /\
  ostr_small (m_snd_ae t) /\ ostr_small (m_rcv_ae t) /\ ostr_small (m_priv_creator t) /\ small_priv t.

Lemma ascii_table_fields t : ascii_table t = true ->
  ascii (m_sop_class t) = true /\ ascii (m_sop_inst t) = true /\ ascii (m_ts t) = true /\
  ascii (m_impl_class t) = true /\ oascii (m_impl_ver t) = true /\ oascii (m_src_ae t) = true /\
  oascii (m_snd_ae t) = true /\ oascii (m_rcv_ae t) = true /\ oascii (m_priv_creator t) = true.
Proof. unfold ascii_table. rewrite !andb_true_iff. tauto. Qed.

Lemma write_body_len_bound t b :
  ascii_table t = true -> small t -> write_body t = Ok b -> blen b = calc_glen t /\ calc_glen t < 4294967295.
Proof.
  intros Ha Hs. apply ascii_table_fields in Ha.
  destruct Ha as (A1 & A2 & A3 & A4 & A5 & A6 & A7 & A8 & A9).
  destruct Hs as (S1 & S2 & S3 & S4 & S5 & S6 & S7 & S8 & S9 & S10).
  unfold write_body.
  assert (Hv : blen (enc_ob 1 [fst (m_ver t); snd (m_ver t)]) = 14) by reflexivity.
  remember (enc_ob 1 [fst (m_ver t); snd (m_ver t)]) as e1 eqn:He1. clear He1.
  remember (match m_priv_info t with Some b => enc_ob 258 b | None => [] end) as e11 eqn:He11.
  destruct (enc_ui 2 (m_sop_class t)) as [e2| |] eqn:E2; cbn [bind]; try discriminate.
  destruct (enc_ui 3 (m_sop_inst t)) as [e3| |] eqn:E3; cbn [bind]; try discriminate.
  destruct (enc_ui 16 (m_ts t)) as [e4| |] eqn:E4; cbn [bind]; try discriminate.
  destruct (enc_ui 18 (m_impl_class t)) as [e5| |] eqn:E5; cbn [bind]; try discriminate.
  destruct (enc_opt (enc_sh 19) (m_impl_ver t)) as [e6| |] eqn:E6; cbn [bind]; try discriminate.
  destruct (enc_opt (enc_ae 22) (m_src_ae t)) as [e7| |] eqn:E7; cbn [bind]; try discriminate.
  destruct (enc_opt (enc_ae 23) (m_snd_ae t)) as [e8| |] eqn:E8; cbn [bind]; try discriminate.
  destruct (enc_opt (enc_ae 24) (m_rcv_ae t)) as [e9| |] eqn:E9; cbn [bind]; try discriminate.
  destruct (enc_opt (enc_ui 256) (m_priv_creator t)) as [e10| |] eqn:E10; cbn [bind]; try discriminate.
  intros H; injection H as <-.
  apply enc_text_len in E2, E3, E4, E5; try assumption.
  apply enc_opt_len in E6; [|intros s o Hq Ho; rewrite Hq in A5, S5; apply (enc_text_len _ _ _ _ _ _ A5 S5 Ho)].
  apply enc_opt_len in E7; [|intros s o Hq Ho; rewrite Hq in A6, S6; apply (enc_text_len _ _ _ _ _ _ A6 S6 Ho)].
  apply enc_opt_len in E8; [|intros s o Hq Ho; rewrite Hq in A7, S7; apply (enc_text_len _ _ _ _ _ _ A7 S7 Ho)].
  apply enc_opt_len in E9; [|intros s o Hq Ho; rewrite Hq in A8, S8; apply (enc_text_len _ _ _ _ _ _ A8 S8 Ho)].
  apply enc_opt_len in E10; [|intros s o Hq Ho; rewrite Hq in A9, S9; apply (enc_text_len _ _ _ _ _ _ A9 S9 Ho)].
  rewrite !blen_app.
  rewrite Hv.
  unfold calc_glen.
  assert (Hp : blen e11
               = match m_priv_info t with Some x => 12 + even_len (u32 (blen x)) | None => 0 end
               /\ match m_priv_info t with Some x => 12 + even_len (u32 (blen x)) | None => 0 end <= 2 ^ 31 + 14).
  { subst e11. unfold small_priv in S10. destruct (m_priv_info t) as [x|].
    - rewrite enc_ob_len by exact S10. split; [reflexivity|].
      rewrite pow31 in *. rewrite u32_small by (rewrite pow32; lia).
      rewrite even_len_small by (rewrite pow32; lia). lia.
    - rewrite blen_nil. rewrite pow31. split; [reflexivity|lia]. }
  destruct Hp as [Hp Hpb]. rewrite Hp.
  rewrite u32_small; [|rewrite pow32, pow31 in *; lia]. rewrite pow31 in *. split; lia.
Qed.

Lemma write_body_len t b :
  ascii_table t = true -> small t -> write_body t = Ok b -> blen b = calc_glen t.
Proof. intros Ha Hs Hw. apply (write_body_len_bound _ _ Ha Hs Hw). Qed.

Lemma enc_ul_len el v h : enc_ul el v = Ok h -> blen h = 12.
Proof.
  unfold enc_ul. destruct (hdr16 el 85 76 4) eqn:E; cbn; try discriminate.
  intros H; injection H as <-. apply hdr16_ok in E. blen_simp. lia.
Qed.

Lemma blen_skipn n b : blen (skipn n b) = blen b - N.of_nat n.
Proof. unfold blen. rewrite skipn_length. lia. Qed.

Lemma skipn_app_exact {A} (a b : list A) n : length a = n -> skipn n (a ++ b) = b.
Proof. intros <-. rewrite skipn_app, skipn_all, Nat.sub_diag. reflexivity. Qed.

(** main lemma of part 2 *)
Lemma group_length_matches t b :
  ascii_table t = true -> small t -> up_to_date t -> write_meta t = Ok b ->
  m_glen t = blen (skipn 12 b).
Proof.
  intros Ha Hs Hu. unfold write_meta.
  destruct (enc_ul 0 (m_glen t)) as [g| |] eqn:Eg; cbn [bind]; try discriminate.
  destruct (write_body t) as [body| |] eqn:Eb; cbn [bind]; try discriminate.
  intros H; inversion H; subst b.
  apply enc_ul_len in Eg.
  rewrite skipn_app_exact by (unfold blen in Eg; lia).
  rewrite (write_body_len _ _ Ha Hs Eb). exact Hu.
Qed.

(** * 3. Where the equality fails outside the default repertoire *)
(* one Latin-1 character: two bytes in the Rust String, one byte on the wire *)
Definition latin1_witness : meta :=
  update_glen {| m_glen := 0; m_ver := (0, 1); m_sop_class := [233; 65]; m_sop_inst := []; m_ts := [49]; m_impl_class := [49];
     m_impl_ver := None; m_src_ae := None; m_snd_ae := None; m_rcv_ae := None; m_priv_creator := None; m_priv_info := None |}.
Lemma non_ascii_mismatch :
  exists b, write_meta latin1_witness = Ok b /\ m_glen latin1_witness <> blen (skipn 12 b).
Proof. eexists. split; [vm_compute; reflexivity|]. vm_compute. discriminate. Qed.

(** * 4. Reading back what was written *)
Record item := { i_el : N; i_v1 : N; i_v2 : N; i_long : bool; i_val : bytes }.
Definition enc_item (i : item) : bytes :=
  2 :: 0 :: le16 (i_el i) ++
  (if i_long i then [i_v1 i; i_v2 i; 0; 0] ++ le32 (blen (i_val i)) else [i_v1 i; i_v2 i] ++ le16 (blen (i_val i)))
  ++ i_val i.
Definition i_hb (i : item) : N := if i_long i then 12 else 8.
Definition i_size (i : item) : N := i_hb i + blen (i_val i).
Definition item_ok (i : item) : Prop :=
  i_el i < 65536 /\ short_vr (i_v1 i) (i_v2 i) = negb (i_long i) /\
  blen (i_val i) < (if i_long i then 4294967295 else 65536) /\ (i_el i = 1 -> blen (i_val i) = 2).
Definition i_tag (i : item) : N := 131072 + i_el i.
Definition upd (bd : builder) (i : item) : builder :=
  if i_tag i =? 131073 then set_ver (nth 0 (i_val i) 0, nth 1 (i_val i) 0) bd else set_field (i_tag i) (i_val i) bd.

Lemma le_val2 n : n < 65536 -> le_val (le16 n) = n.
Proof. intros H. apply (le_val_le_bytes_small 2). exact H. Qed.
Lemma le_val4 n : n < 4294967296 -> le_val (le32 n) = n.
Proof. intros H. apply (le_val_le_bytes_small 4). exact H. Qed.

Lemma decode_header_item i rest : item_ok i ->
  decode_header (enc_item i ++ rest) = Ok (i_tag i, blen (i_val i), i_hb i, i_val i ++ rest).
Proof.
  intros (Hel & Hvr & Hlen & _). unfold enc_item, i_hb, i_tag.
  assert (E16 : forall n, le16 n = [n mod 256; n / 256 mod 256]) by reflexivity.
  assert (E32 : forall n, le32 n = [n mod 256; n / 256 mod 256; n / 256 / 256 mod 256; n / 256 / 256 / 256 mod 256]) by reflexivity.
  destruct (i_long i) eqn:L; cbn [negb] in Hvr.
  - rewrite E16, E32. cbn [app]. unfold decode_header.
    replace (le_val [2; 0]) with 2 by reflexivity. change (2 =? 65534) with false. cbv iota.
    rewrite Hvr. rewrite <- E32, <- E16. rewrite le_val2 by exact Hel. rewrite le_val4 by lia. reflexivity.
  - rewrite !E16. cbn [app]. unfold decode_header.
    replace (le_val [2; 0]) with 2 by reflexivity. change (2 =? 65534) with false. cbv iota.
    rewrite Hvr. rewrite <- !E16. rewrite le_val2 by exact Hel. rewrite le_val2 by lia. reflexivity.
Qed.

Lemma take_n_app a b n : blen a = n -> take_n n (a ++ b) = Some (a, b).
Proof.
  intros H. unfold take_n. rewrite blen_app.
  replace (blen a + blen b <? n) with false by lia.
  assert (Hn : N.to_nat n = length a) by (unfold blen in H; lia).
  rewrite Hn, firstn_app, skipn_app, firstn_all, skipn_all, Nat.sub_diag. cbn. rewrite app_nil_r. reflexivity.
Qed.

Lemma read_loop_S f glen total bd b :
  read_loop (S f) glen total bd b =
  if glen <=? total then Ok (bd, b) else
    h <- decode_header b ;;
    let '(tag, len, hb, r) := h in
    if len =? 4294967295 then Err e_undefined_len else
    if (tag =? 131073) && negb (len =? 2) then Err e_unexpected_len else
    match take_n len r with
    | None => if (tag =? 131073) || ((131074 <=? tag) && (tag <=? 131075)) || (tag =? 131088)
                 || ((131090 <=? tag) && (tag <=? 131091)) || ((131094 <=? tag) && (tag <=? 131096))
                 || (tag =? 131328) || (tag =? 131330)
              then Err e_read_value else Err e_unexpected_len
    | Some (v, r') =>
      let bd' := if tag =? 131073 then set_ver (nth 0 v 0, nth 1 v 0) bd else set_field tag v bd in
      read_loop f glen (sat_add32 (sat_add32 total hb) len) bd' r'
    end.
Proof. reflexivity. Qed.

Lemma read_loop_done f glen total bd b : glen <= total -> read_loop f glen total bd b = Ok (bd, b).
Proof. intros H. destruct f; cbn [read_loop]; replace (glen <=? total) with true by lia; reflexivity. Qed.

Lemma read_loop_item f glen total bd i rest :
  item_ok i -> total < glen -> total + i_size i < 4294967295 ->
  read_loop (S f) glen total bd (enc_item i ++ rest) = read_loop f glen (total + i_size i) (upd bd i) rest.
Proof.
  intros Hok Hlt Hsz. rewrite read_loop_S. replace (glen <=? total) with false by lia.
  rewrite (decode_header_item _ _ Hok). cbn [bind]. destruct Hok as (Hel & Hvr & Hlen & Hv).
  unfold i_size, i_hb in *.
  replace (blen (i_val i) =? 4294967295) with false by (destruct (i_long i); lia).
  assert (Hc : (i_tag i =? 131073) && negb (blen (i_val i) =? 2) = false).
  { unfold i_tag. destruct (131072 + i_el i =? 131073) eqn:E; [|reflexivity].
    rewrite Hv by lia. reflexivity. }
  rewrite Hc. rewrite (take_n_app _ _ _ eq_refl).
  unfold upd, sat_add32. f_equal. destruct (i_long i); lia.
Qed.

Definition items_size (l : list item) : N := fold_right (fun i a => i_size i + a) 0 l.

Lemma i_size_pos i : 8 <= i_size i.
Proof. unfold i_size, i_hb. destruct (i_long i); lia. Qed.

Lemma read_loop_items items : forall f glen total bd rest,
  Forall item_ok items -> (length items <= f)%nat -> total + items_size items <= glen -> glen < 4294967295 ->
  read_loop f glen total bd (concat (map enc_item items) ++ rest)
  = read_loop (f - length items) glen (total + items_size items) (fold_left upd items bd) rest.
Proof.
  induction items as [|i items IH]; intros f glen total bd rest Hok Hf Hsz Hg.
  - cbn. rewrite N.add_0_r, Nat.sub_0_r. reflexivity.
  - cbn [map concat length fold_left items_size fold_right] in *.
    inversion Hok as [|? ? Hi Hrest]; subst.
    destruct f as [|f]; [lia|].
    pose proof (i_size_pos i) as Hp.
    rewrite <- app_assoc. rewrite read_loop_item; [|exact Hi|lia|lia].
    fold (items_size items) in *.
    rewrite IH; [|exact Hrest|lia|lia|exact Hg].
    cbn [Nat.sub]. f_equal. lia.
Qed.

(* the elements written for a table *)
Definition txt_item el v1 v2 pad s := {| i_el := el; i_v1 := v1; i_v2 := v2; i_long := false; i_val := pad_even s pad |}.
Definition opt_item el v1 v2 pad (o : option str) := match o with Some s => [txt_item el v1 v2 pad s] | None => [] end.
Definition ob_item el b := {| i_el := el; i_v1 := 79; i_v2 := 66; i_long := true; i_val := pad_even b 0 |}.
Definition items_of (t : meta) : list item :=
  [ob_item 1 [fst (m_ver t); snd (m_ver t)]; txt_item 2 85 73 0 (m_sop_class t); txt_item 3 85 73 0 (m_sop_inst t);
   txt_item 16 85 73 0 (m_ts t); txt_item 18 85 73 0 (m_impl_class t)]
  ++ opt_item 19 83 72 32 (m_impl_ver t) ++ opt_item 22 65 69 32 (m_src_ae t) ++ opt_item 23 65 69 32 (m_snd_ae t)
  ++ opt_item 24 65 69 32 (m_rcv_ae t) ++ opt_item 256 85 73 0 (m_priv_creator t)
  ++ match m_priv_info t with Some b => [ob_item 258 b] | None => [] end.

Lemma enc_text_item el v1 v2 pad s out :
  ascii s = true -> blen s < 2 ^ 31 -> el < 65536 -> el <> 1 -> short_vr v1 v2 = true ->
  enc_text el v1 v2 pad s = Ok out -> out = enc_item (txt_item el v1 v2 pad s) /\ item_ok (txt_item el v1 v2 pad s).
Proof.
  intros Ha Hs Hel Hel1 Hvr. unfold enc_text. rewrite (latin1_ascii _ Ha).
  destruct (hdr16 el v1 v2 (u32 (blen (pad_even s pad)))) eqn:Eh; cbn [bind]; try discriminate.
  intros H; injection H as <-.
  pose proof (hdr16_ok _ _ _ _ _ Eh) as [Hle _].
  unfold hdr16 in Eh. destruct (65535 <? _); [discriminate|]. injection Eh as <-.
  rewrite blen_pad_even in *. rewrite pow31 in Hs.
  rewrite (u32_small ((blen s + 1) / 2 * 2)) in * by (rewrite pow32; lia).
  rewrite even_len_small in * by (rewrite pow32; lia).
  assert (He : ((blen s + 1) / 2 * 2 + 1) / 2 * 2 = (blen s + 1) / 2 * 2) by lia.
  rewrite He in *.
  split.
  - unfold enc_item, txt_item; cbn [i_el i_v1 i_v2 i_long i_val]. rewrite blen_pad_even.
    change (le16 2) with [2; 0]. cbn [app]. rewrite <- ?app_assoc. reflexivity.
  - unfold item_ok, txt_item; cbn [i_el i_v1 i_v2 i_long i_val negb]. rewrite blen_pad_even.
    repeat split; try assumption; try lia.
Qed.

Lemma enc_ob_item el b :
  blen b < 2 ^ 31 -> el < 65536 -> (el = 1 -> blen b = 2) ->
  enc_ob el b = enc_item (ob_item el b) /\ item_ok (ob_item el b).
Proof.
  intros Hb Hel H1. rewrite pow31 in Hb. split.
  - unfold enc_ob, hdr32, enc_item, ob_item; cbn [i_el i_v1 i_v2 i_long i_val]. rewrite blen_pad_even.
    rewrite u32_small by (rewrite pow32; lia). rewrite even_len_small by (rewrite pow32; lia).
    change (le16 2) with [2; 0]. cbn [app]. rewrite <- ?app_assoc. reflexivity.
  - unfold item_ok, ob_item; cbn [i_el i_v1 i_v2 i_long i_val negb]. rewrite blen_pad_even.
    repeat split; try assumption; try lia; try reflexivity.
    all: try (intros E; rewrite (H1 E); reflexivity).
Qed.

Lemma enc_opt_item el v1 v2 pad o out :
  oascii o = true -> ostr_small o -> el < 65536 -> el <> 1 -> short_vr v1 v2 = true ->
  enc_opt (enc_text el v1 v2 pad) o = Ok out ->
  out = concat (map enc_item (opt_item el v1 v2 pad o)) /\ Forall item_ok (opt_item el v1 v2 pad o).
Proof.
  intros Ha Hs Hel H1 Hvr. destruct o as [s|]; cbn [enc_opt opt_item map concat].
  - intros H. destruct (enc_text_item _ _ _ _ _ _ Ha Hs Hel H1 Hvr H) as [-> Hok].
    rewrite app_nil_r. split; [reflexivity|]. constructor; [exact Hok|constructor].
  - intros H; injection H as <-. split; [reflexivity|constructor].
Qed.

Lemma concat_map_app l1 l2 : concat (map enc_item (l1 ++ l2)) = concat (map enc_item l1) ++ concat (map enc_item l2).
Proof. rewrite map_app, concat_app. reflexivity. Qed.

Lemma write_body_items t b :
  ascii_table t = true -> small t -> write_body t = Ok b ->
  b = concat (map enc_item (items_of t)) /\ Forall item_ok (items_of t).
Proof.
  intros Ha Hs. apply ascii_table_fields in Ha.
  destruct Ha as (A1 & A2 & A3 & A4 & A5 & A6 & A7 & A8 & A9).
  destruct Hs as (S1 & S2 & S3 & S4 & S5 & S6 & S7 & S8 & S9 & S10).
  unfold write_body.
  destruct (enc_ob_item 1 [fst (m_ver t); snd (m_ver t)]) as [Ev Hv]; [rewrite pow31; cbn; lia|lia|reflexivity|].
  remember (enc_ob 1 [fst (m_ver t); snd (m_ver t)]) as e1 eqn:He1. clear He1.
  remember (match m_priv_info t with Some b => enc_ob 258 b | None => [] end) as e11 eqn:He11.
  destruct (enc_ui 2 (m_sop_class t)) as [e2| |] eqn:E2; cbn [bind]; try discriminate.
  destruct (enc_ui 3 (m_sop_inst t)) as [e3| |] eqn:E3; cbn [bind]; try discriminate.
  destruct (enc_ui 16 (m_ts t)) as [e4| |] eqn:E4; cbn [bind]; try discriminate.
  destruct (enc_ui 18 (m_impl_class t)) as [e5| |] eqn:E5; cbn [bind]; try discriminate.
  destruct (enc_opt (enc_sh 19) (m_impl_ver t)) as [e6| |] eqn:E6; cbn [bind]; try discriminate.
  destruct (enc_opt (enc_ae 22) (m_src_ae t)) as [e7| |] eqn:E7; cbn [bind]; try discriminate.
  destruct (enc_opt (enc_ae 23) (m_snd_ae t)) as [e8| |] eqn:E8; cbn [bind]; try discriminate.
  destruct (enc_opt (enc_ae 24) (m_rcv_ae t)) as [e9| |] eqn:E9; cbn [bind]; try discriminate.
  destruct (enc_opt (enc_ui 256) (m_priv_creator t)) as [e10| |] eqn:E10; cbn [bind]; try discriminate.
  intros H; injection H as <-.
  apply enc_text_item in E2, E3, E4, E5; try assumption; try lia; try reflexivity.
  apply enc_opt_item in E6, E7, E8, E9, E10; try assumption; try lia; try reflexivity.
  destruct E2 as [-> O2], E3 as [-> O3], E4 as [-> O4], E5 as [-> O5].
  destruct E6 as [-> O6], E7 as [-> O7], E8 as [-> O8], E9 as [-> O9], E10 as [-> O10].
  assert (Hp : e11 = concat (map enc_item (match m_priv_info t with Some b => [ob_item 258 b] | None => [] end))
               /\ Forall item_ok (match m_priv_info t with Some b => [ob_item 258 b] | None => [] end)).
  { subst e11. unfold small_priv in S10. destruct (m_priv_info t) as [x|].
    - destruct (enc_ob_item 258 x S10) as [E O]; [lia|intros; discriminate|].
      cbn [map concat]. rewrite app_nil_r. split; [exact E|constructor; [exact O|constructor]].
    - split; [reflexivity|constructor]. }
  destruct Hp as [-> O11]. rewrite Ev.
  unfold items_of. split.
  - cbn [map concat app]. rewrite !concat_map_app. rewrite <- ?app_assoc. cbn [app]. reflexivity.
  - repeat (apply Forall_app; split); try assumption.
    repeat (constructor; try assumption).
Qed.

Lemma items_size_blen l : items_size l = blen (concat (map enc_item l)).
Proof.
  induction l as [|i l IH]; [reflexivity|]. cbn [items_size fold_right map concat]. fold (items_size l).
  rewrite blen_app, IH. f_equal. unfold i_size, i_hb, enc_item. blen_simp. destruct (i_long i); blen_simp; lia.
Qed.

Lemma length_items_le l : (length l <= length (concat (map enc_item l)))%nat.
Proof.
  induction l as [|i l IH]; [cbn; lia|]. cbn [map concat length]. rewrite app_length.
  unfold enc_item at 1. cbn [length]. lia.
Qed.

(* what the reader builds from the elements of [t] *)
Definition norm_table (t : meta) : meta :=
  update_glen
   {| m_glen := 0; m_ver := m_ver t;
      m_sop_class := ui_padded (pad_even (m_sop_class t) 0);
      m_sop_inst := ui_padded (pad_even (m_sop_inst t) 0);
      m_ts := ui_padded (pad_even (m_ts t) 0);
      m_impl_class := ui_padded (pad_even (m_impl_class t) 0);
      m_impl_ver := option_map (fun s => txt_padded (pad_even s 32)) (m_impl_ver t);
      m_src_ae := option_map (fun s => txt_padded (pad_even s 32)) (m_src_ae t);
      m_snd_ae := option_map (fun s => txt_padded (pad_even s 32)) (m_snd_ae t);
      m_rcv_ae := option_map (fun s => txt_padded (pad_even s 32)) (m_rcv_ae t);
      m_priv_creator := option_map (fun s => ui_padded (pad_even s 0)) (m_priv_creator t);
      m_priv_info := option_map (fun b => pad_even b 0) (m_priv_info t) |}.

Lemma build_items iu inm t :
  build iu inm (fold_left upd (items_of t) empty_builder) = Ok (norm_table t).
Proof.
  destruct t as [g [va vb] s1 s2 s3 s4 o1 o2 o3 o4 o5 p]. unfold items_of, norm_table.
  cbn [m_glen m_ver m_sop_class m_sop_inst m_ts m_impl_class m_impl_ver m_src_ae m_snd_ae m_rcv_ae m_priv_creator m_priv_info fst snd].
  destruct o1, o2, o3, o4, o5, p; reflexivity.
Qed.

Lemma read_written iu inm t b tail :
  ascii_table t = true -> small t -> up_to_date t -> write_meta t = Ok b ->
  read_meta iu inm (DICM ++ b ++ tail) = Ok (norm_table t, tail).
Proof.
  intros Ha Hs Hu Hw.
  pose proof (group_length_matches _ _ Ha Hs Hu Hw) as Hg.
  unfold write_meta in Hw.
  destruct (enc_ul 0 (m_glen t)) as [g| |] eqn:Eg; cbn [bind] in Hw; try discriminate.
  destruct (write_body t) as [body| |] eqn:Eb; cbn [bind] in Hw; try discriminate.
  injection Hw as <-.
  pose proof (enc_ul_len _ _ _ Eg) as Hgl.
  rewrite skipn_app_exact in Hg by (unfold blen in Hgl; lia).
  assert (Hgv : g = [2; 0; 0; 0; 85; 76; 4; 0] ++ le32 (m_glen t)).
  { unfold enc_ul in Eg. change (hdr16 0 85 76 4) with (Ok (A:=bytes) [2; 0; 0; 0; 85; 76; 4; 0]) in Eg.
    cbn [bind] in Eg. injection Eg as <-. reflexivity. }
  destruct (write_body_items _ _ Ha Hs Eb) as [Hbody Hok].
  assert (Hlt : m_glen t < 4294967296).
  { rewrite Hu. unfold calc_glen, u32. apply N.mod_lt. discriminate. }
  unfold read_meta. change (DICM ++ (g ++ body) ++ tail) with (DICM ++ ((g ++ body) ++ tail)).
  rewrite (take_n_app DICM _ 4 eq_refl).
  change (negb (list_eqb N.eqb DICM DICM)) with false. cbv iota.
  subst g. rewrite <- !app_assoc. cbn [app].
  assert (E32 : forall n, le32 n = [n mod 256; n / 256 mod 256; n / 256 / 256 mod 256; n / 256 / 256 / 256 mod 256]) by reflexivity.
  unfold decode_header. replace (le_val [2; 0]) with 2 by reflexivity. change (2 =? 65534) with false. cbv iota.
  change (short_vr 85 76) with true. cbv iota.
  change (le_val [2; 0] * 65536 + le_val [0; 0]) with 131072.
  replace (2 * 65536 + le_val [0; 0]) with 131072 by reflexivity.
  cbn [bind]. change (negb (131072 =? 131072)) with false. cbv iota.
  replace (le_val [4; 0]) with 4 by reflexivity. change (negb (4 =? 4)) with false. cbv iota.
  rewrite (take_n_app (le32 (m_glen t)) _ 4) by apply blen_le32.
  rewrite le_val4 by exact Hlt.
  rewrite Hbody.
  assert (Hsz : items_size (items_of t) = m_glen t).
  { rewrite items_size_blen, <- Hbody. symmetry. exact Hg. }
  assert (Hg2 : m_glen t < 4294967295).
  { rewrite Hu. apply (write_body_len_bound _ _ Ha Hs Eb). }
  rewrite read_loop_items; [|exact Hok| |lia|exact Hg2].
  - rewrite read_loop_done by lia. cbn [bind fst snd]. rewrite build_items. reflexivity.
  - rewrite app_length. pose proof (length_items_le (items_of t)). lia.
Qed.

(** * 5. The table read back is equal (PartialEq) to the one written *)
Definition padc (c : N) : bool := is_ws c || (c =? 0).
Definition trim_go := fix go (r : str) := match r with c :: r' => if is_ws c || (c =? 0) then go r' else r | [] => [] end.
Lemma trim_pad_unfold s : trim_pad s = rev (trim_go (rev s)).
Proof. reflexivity. Qed.

Lemma trim_pad_snoc s c : padc c = true -> trim_pad (s ++ [c]) = trim_pad s.
Proof.
  intros H. rewrite !trim_pad_unfold. rewrite rev_app_distr. cbn [rev app trim_go].
  unfold padc in H. rewrite H. reflexivity.
Qed.

Lemma ascii_app a b : ascii (a ++ b) = ascii a && ascii b.
Proof. unfold ascii. apply forallb_app. Qed.

Lemma ascii_pad_even s p : ascii s = true -> p < 128 -> ascii (pad_even s p) = true.
Proof.
  intros H Hp. unfold pad_even. destruct (N.odd (blen s)); [|exact H].
  rewrite ascii_app, H. cbn. replace (p <? 128) with true by lia. reflexivity.
Qed.

Lemma even_blen_pad_even s p : N.odd (blen (pad_even s p)) = false.
Proof.
  rewrite blen_pad_even. rewrite <- N.negb_even. rewrite N.even_mul. cbn. rewrite orb_true_r. reflexivity.
Qed.

Lemma padded_pad_even s p q : ascii s = true -> p < 128 -> padded (pad_even s p) q = pad_even s p.
Proof.
  intros H Hp. unfold padded. rewrite (slen_ascii _ (ascii_pad_even _ _ H Hp)), even_blen_pad_even. reflexivity.
Qed.

Lemma trim_pad_pad_even s p : padc p = true -> trim_pad (pad_even s p) = trim_pad s.
Proof. intros H. unfold pad_even. destruct (N.odd (blen s)); [apply trim_pad_snoc, H|reflexivity]. Qed.

Lemma str_eqb_refl s : str_eqb s s = true.
Proof. apply str_eqb_spec. reflexivity. Qed.

Lemma dicom_len_pad_even s p : ascii s = true -> p < 128 -> blen s < 2 ^ 31 -> dicom_len (pad_even s p) = dicom_len s.
Proof.
  intros H Hp Hs. unfold dicom_len. rewrite (slen_ascii _ (ascii_pad_even _ _ H Hp)), (slen_ascii _ H).
  rewrite blen_pad_even. rewrite pow31 in Hs.
  rewrite !u32_small by (rewrite pow32; lia). rewrite !even_len_small by (rewrite pow32; lia). lia.
Qed.

Lemma bytes_trim_pad_even b : bytes_trim (pad_even b 0) = bytes_trim b.
Proof.
  unfold pad_even. destruct (N.odd (blen b)) eqn:E; [|reflexivity].
  unfold bytes_trim at 1. rewrite blen_app, blen_cons, blen_nil.
  assert (N.even (blen b + (1 + 0)) = true) as ->.
  { rewrite N.add_0_r, N.add_1_r, N.even_succ. exact E. }
  rewrite last_last, removelast_last. change (0 =? 0) with true.
  replace (blen b + (1 + 0) =? 0) with false by lia. cbn [andb negb].
  unfold bytes_trim. rewrite <- N.negb_odd, E. reflexivity.
Qed.

Lemma list_eqb_refl (b : bytes) : list_eqb N.eqb b b = true.
Proof. apply (list_eqb_spec N.eqb); [intros; apply N.eqb_eq|reflexivity]. Qed.

Lemma ostr_eqb_norm o p q : oascii o = true -> p < 128 -> padc p = true ->
  ostr_eqb (option_map (fun s => padded (pad_even s p) q) o) o = true.
Proof.
  intros Ha Hp Hc. destruct o as [s|]; [|reflexivity]. cbn [option_map ostr_eqb opt_eqb].
  cbn in Ha. rewrite padded_pad_even by assumption. rewrite trim_pad_pad_even by exact Hc. apply str_eqb_refl.
Qed.

Lemma opt_len_norm o p q : oascii o = true -> p < 128 -> ostr_small o ->
  opt_len (option_map (fun s => padded (pad_even s p) q) o) = opt_len o.
Proof.
  intros Ha Hp Hs. destruct o as [s|]; [|reflexivity]. cbn [option_map opt_len]. cbn in Ha, Hs.
  rewrite padded_pad_even by assumption. rewrite dicom_len_pad_even by assumption. reflexivity.
Qed.

Lemma calc_glen_norm t : ascii_table t = true -> small t -> calc_glen (norm_table t) = calc_glen t.
Proof.
  intros Ha Hs. apply ascii_table_fields in Ha.
  destruct Ha as (A1 & A2 & A3 & A4 & A5 & A6 & A7 & A8 & A9).
  destruct Hs as (S1 & S2 & S3 & S4 & S5 & S6 & S7 & S8 & S9 & S10).
  unfold norm_table, update_glen. rewrite calc_glen_set_glen. unfold calc_glen.
  cbn [m_sop_class m_sop_inst m_ts m_impl_class m_impl_ver m_src_ae m_snd_ae m_rcv_ae m_priv_creator m_priv_info].
  unfold ui_padded, txt_padded.
  rewrite !padded_pad_even by (assumption || lia).
  rewrite !dicom_len_pad_even by (assumption || lia).
  rewrite !opt_len_norm by (assumption || lia).
  assert (Hp : match option_map (fun b : bytes => pad_even b 0) (m_priv_info t) with
               | Some x => 12 + even_len (u32 (blen x)) | None => 0 end
             = match m_priv_info t with Some x => 12 + even_len (u32 (blen x)) | None => 0 end).
  { unfold small_priv in S10. destruct (m_priv_info t) as [x|]; [|reflexivity]. cbn [option_map].
    rewrite blen_pad_even. rewrite pow31 in S10.
    rewrite !u32_small by (rewrite pow32; lia). rewrite !even_len_small by (rewrite pow32; lia). f_equal. lia. }
  rewrite Hp. reflexivity.
Qed.

Lemma meta_eqb_norm t : ascii_table t = true -> small t -> up_to_date t -> meta_eqb (norm_table t) t = true.
Proof.
  intros Ha Hs Hu. pose proof (calc_glen_norm _ Ha Hs) as Hc.
  apply ascii_table_fields in Ha.
  destruct Ha as (A1 & A2 & A3 & A4 & A5 & A6 & A7 & A8 & A9).
  unfold meta_eqb.
  assert (Hg : m_glen (norm_table t) = m_glen t).
  { rewrite Hu, <- Hc. apply up_to_date_update. }
  rewrite Hg, N.eqb_refl.
  unfold norm_table, update_glen, set_glen.
  cbn [m_ver m_sop_class m_sop_inst m_ts m_impl_class m_impl_ver m_src_ae m_snd_ae m_rcv_ae m_priv_creator m_priv_info].
  rewrite !N.eqb_refl. unfold ui_padded, txt_padded.
  rewrite !padded_pad_even by (assumption || lia).
  rewrite !trim_pad_pad_even by reflexivity. rewrite !str_eqb_refl.
  rewrite !ostr_eqb_norm by (assumption || lia || reflexivity).
  cbn [andb].
  destruct (m_priv_info t) as [x|]; [|reflexivity]. cbn [option_map opt_eqb].
  rewrite bytes_trim_pad_even. apply list_eqb_refl.
Qed.

(** * 6. Preamble detection *)
Lemma firstn_blen {A} n (l : list A) : (n <= length l)%nat -> length (firstn n l) = n.
Proof. intros H. rewrite firstn_length. lia. Qed.

Lemma list_eqb_DICM_refl : list_eqb N.eqb DICM DICM = true. Proof. reflexivity. Qed.

(* a buffer that shows at least 132 bytes of a file with a 128-byte preamble *)
Lemma detect_with_preamble pre rest n :
  length pre = 128%nat -> (132 <= n)%nat ->
  detect_preamble (firstn n (pre ++ DICM ++ rest)) = Ok PAlways.
Proof.
  intros Hp Hn. unfold detect_preamble.
  set (file := pre ++ DICM ++ rest).
  assert (Hlen : (132 <= length file)%nat) by (unfold file; rewrite !app_length, Hp; cbn; lia).
  assert (Hb : 132 <= blen (firstn n file)) by (unfold blen; rewrite firstn_length; lia).
  replace (blen (firstn n file) <? 4) with false by lia.
  replace (132 <=? blen (firstn n file)) with true by lia. cbn [andb].
  assert (Hs : firstn 4 (skipn 128 (firstn n file)) = DICM).
  { rewrite skipn_firstn_comm. unfold file. rewrite <- Hp, skipn_app, skipn_all, Nat.sub_diag. cbn [app skipn].
    rewrite firstn_firstn. replace (Nat.min 4 (n - length pre)) with 4%nat by lia. reflexivity. }
  rewrite Hs. reflexivity.
Qed.

(* a buffer of a file that starts with the magic code and does not show "DICM" at offset 128 *)
Definition dicm_at_128 (buf : bytes) : bool :=
  (132 <=? blen buf) && list_eqb N.eqb (firstn 4 (skipn 128 buf)) DICM.

Lemma detect_without_preamble rest n :
  (4 <= n)%nat -> dicm_at_128 (firstn n (DICM ++ rest)) = false ->
  detect_preamble (firstn n (DICM ++ rest)) = Ok PNever.
Proof.
  intros Hn H. unfold detect_preamble. unfold dicm_at_128 in H. rewrite H.
  assert (Hb : 4 <= blen (firstn n (DICM ++ rest))).
  { unfold blen. rewrite firstn_length, app_length. cbn. lia. }
  replace (blen (firstn n (DICM ++ rest)) <? 4) with false by lia.
  rewrite firstn_firstn. replace (Nat.min 4 n) with 4%nat by lia. reflexivity.
Qed.

Lemma skipn_blen_take (pre b : bytes) : length pre = 128%nat -> take_n 128 (pre ++ b) = Some (pre, b).
Proof. intros H. apply take_n_app. unfold blen. rewrite H. reflexivity. Qed.

Lemma dicm_at_128_firstn n (file : bytes) : (132 <= n)%nat -> dicm_at_128 (firstn n file) = dicm_at_128 file.
Proof.
  intros Hn. unfold dicm_at_128.
  destruct (Nat.le_gt_cases (length file) n) as [Hl|Hl].
  - rewrite firstn_all2 by exact Hl. reflexivity.
  - assert (Hb1 : 132 <= blen (firstn n file)) by (unfold blen; rewrite firstn_length; lia).
    assert (Hb2 : 132 <= blen file) by (unfold blen; lia).
    replace (132 <=? blen (firstn n file)) with true by lia.
    replace (132 <=? blen file) with true by lia. cbn [andb].
    rewrite skipn_firstn_comm, firstn_firstn. replace (Nat.min 4 (n - 128)) with 4%nat by lia. reflexivity.
Qed.

Lemma BUF_ge : (132 <= BUF)%nat.
Proof. apply Nat.leb_le. vm_compute. reflexivity. Qed.
Lemma BUF_ge4 : (4 <= BUF)%nat.
Proof. apply Nat.leb_le. vm_compute. reflexivity. Qed.

Lemma take_n_0 (b : bytes) : take_n 0 b = Some ([], b).
Proof. unfold take_n. replace (blen b <? 0) with false by lia. reflexivity. Qed.

Lemma open_with_preamble iu inm pre rest :
  length pre = 128%nat ->
  open_by_path iu inm PAuto (pre ++ DICM ++ rest) = read_meta iu inm (DICM ++ rest) /\
  open_by_reader iu inm PAuto (pre ++ DICM ++ rest) = read_meta iu inm (DICM ++ rest).
Proof.
  intros Hp. unfold open_by_path, open_by_reader, open_with, skip_by_path, skip_by_reader.
  rewrite !detect_with_preamble by (assumption || apply BUF_ge || lia). cbn [bind].
  rewrite skipn_blen_take by exact Hp. split; reflexivity.
Qed.

Lemma open_without_preamble iu inm rest :
  dicm_at_128 (DICM ++ rest) = false ->
  open_by_path iu inm PAuto (DICM ++ rest) = read_meta iu inm (DICM ++ rest) /\
  open_by_reader iu inm PAuto (DICM ++ rest) = read_meta iu inm (DICM ++ rest).
Proof.
  intros H. unfold open_by_path, open_by_reader, open_with, skip_by_path, skip_by_reader.
  rewrite !detect_without_preamble; try apply BUF_ge4; try lia;
    try (rewrite dicm_at_128_firstn; [exact H|apply BUF_ge || lia]).
  cbn [bind]. rewrite take_n_0. split; reflexivity.
Qed.

Lemma auto_asymmetry buf : detect_preamble buf = Ok PAuto ->
  skip_by_path PAuto buf = Ok 128 /\ skip_by_reader PAuto buf = Ok 0.
Proof. intros H. unfold skip_by_path, skip_by_reader. rewrite H. split; reflexivity. Qed.

(* explicit options never look at the data *)
Lemma explicit_options buf :
  skip_by_path PNever buf = Ok 0 /\ skip_by_reader PNever buf = Ok 0 /\
  skip_by_path PAlways buf = Ok 128 /\ skip_by_reader PAlways buf = Ok 128.
Proof. repeat split. Qed.

(* known finding: a file without preamble that carries "DICM" at offset 128 *)
Definition dicm128_table : meta :=
  update_glen {| m_glen := 0; m_ver := (0, 1);
     m_sop_class := [49;46;50;46;51;46;52];                (* "1.2.3.4" *)
     m_sop_inst := [49;46;50;46;51;46;52;46;53;46;54];     (* "1.2.3.4.5.6" *)
     m_ts := [49;46;50;46;56;52;48;46;49;48;48;48;56;46;49;46;50;46;49]; (* "1.2.840.10008.1.2.1" *)
     m_impl_class := [49;46;50;46;51];
     m_impl_ver := Some (repeat 120 12 ++ DICM);           (* "xxxxxxxxxxxxDICM" *)
     m_src_ae := None; m_snd_ae := None; m_rcv_ae := None; m_priv_creator := None; m_priv_info := None |}.
Definition dicm128_file : bytes :=
  DICM ++ match write_meta dicm128_table with Ok b => b | _ => [] end.

Lemma dicm128_refutes :
  firstn 4 dicm128_file = DICM /\ dicm_at_128 dicm128_file = true /\
  (exists t, read_meta [] [] dicm128_file = Ok (t, []) /\ meta_eqb t dicm128_table = true) /\
  open_by_path [] [] PAuto dicm128_file = Err e_decode_elem /\
  open_by_reader [] [] PAuto dicm128_file = Err e_decode_elem.
Proof.
  split; [vm_compute; reflexivity|]. split; [vm_compute; reflexivity|].
  split; [eexists; split; vm_compute; reflexivity|]. split; vm_compute; reflexivity.
Qed.
