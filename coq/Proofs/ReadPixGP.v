(** General-stack version (with position accounting) of Proofs/ReadPixP.v:
    steps of the reader on an encapsulated pixel data sequence when the frames
    below it may have defined lengths. *)
From Coq Require Import ZifyBool ZifyNat ZifyN.
From DicomV Require Import Base.Endian Model.Vr Model.Header Model.Prim Model.Dataset Model.Reader Spec.Ps35
  Proofs.HeaderP Proofs.PrimP Proofs.ValidP Proofs.ValueP Proofs.ReaderP Proofs.ReadStepsP Proofs.ReadPixP
  Proofs.ReadStepsGP.
Open Scope N_scope.

Definition pixseq_state_g (st : rstate) (src : bytes) (stk : list seqtok) : Prop :=
  r_src st = src /\ r_in_seq st = true /\ (exists b0, r_stack st = pix_seq_tok b0 :: stk) /\ nopix stk /\
  r_hard st = false /\ r_last st = None /\ r_signed st = None /\ r_ot_next st = false.
Definition pixitem_state_g (st : rstate) (src : bytes) (stk : list seqtok) (len : N) (ot : bool) : Prop :=
  r_src st = src /\ r_in_seq st = false /\
  (exists b0, r_stack st = pix_item_tok len (r_pos st) :: pix_seq_tok b0 :: stk) /\ nopix stk /\
  r_hard st = false /\ r_last st = None /\ r_signed st = None /\ r_ot_next st = ot /\
  len <> undef /\ (len = 0 -> r_pending st = true).
Definition pixdone_state_g (st : rstate) (src : bytes) (stk : list seqtok) : Prop :=
  r_src st = src /\ r_in_seq st = false /\
  (exists len b1 b0, r_stack st = pix_item_tok len b1 :: pix_seq_tok b0 :: stk /\ len <> undef /\ b1 + len = r_pos st) /\
  nopix stk /\ r_hard st = false /\ r_last st = None /\ r_signed st = None /\ r_ot_next st = false /\
  r_pending st = true.

Lemma pixitem_zero_done_g st src stk ot : pixitem_state_g st src stk 0 ot -> ot = false -> pixdone_state_g st src stk.
Proof.
  intros (H1 & H2 & (b0 & H3) & H4 & H5 & H6 & H7 & H8 & H9 & H10) ->.
  unfold pixdone_state_g. repeat split; auto. exists 0, (r_pos st), b0. repeat split; auto. lia.
Qed.

Lemma step_pix_start_g f c d st stk rest n :
  gstate st (ps35_header c pixel_tag OB undef ++ rest) stk -> 0 < n -> room st n ->
  exists st1, next (S f) c d st = (RTok TPixStart, st1)
              /\ gval_state st1 rest stk (pixel_tag, read_vr c d pixel_tag OB, undef)
              /\ r_pos st1 = r_pos st + blen (ps35_header c pixel_tag OB undef).
Proof.
  intros (Hsrc & Hin & Hst & Hb & Hh & Hl & Hsg & Hot) Hn0 Hroom.
  destruct (next_via_body_g f c d st Hh (room_noop st n Hn0 Hroom)) as (st' & (E1 & E2 & E3 & E4 & E5 & E6 & E7 & E8) & EP & EN).
  rewrite EN. clear EN.
  unfold next_body. rewrite E3, Hin, E5, Hst, (not_pixel_item_g stk _ _ Hb), E7, Hl.
  unfold st_decode_header. rewrite E1, Hsrc.
  rewrite dec_header_layout; [| split; cbn; lia | unfold undef; lia | intros _; cbn; lia | intros _ Hs; discriminate Hs].
  rewrite E8, Hsg. fold (read_vr c d pixel_tag OB).
  assert (V : vr_eqb (read_vr c d pixel_tag OB) SQ = false) by (destruct c; reflexivity).
  rewrite V. change (tag_eqb pixel_tag (65534, 57357)) with false.
  change (is_encaps_header pixel_tag undef) with true.
  eexists. split; [reflexivity|].
  unfold gval_state, upd, set_src, blen. cbn. rewrite ?E2, ?E4, ?E5, ?E6, ?E8, ?Hst, ?EP. fin_state.
Qed.

Lemma step_pix_first_item_g f c d st stk v len more :
  gval_state st (ps35_item_header c len ++ more) stk (pixel_tag, v, undef) -> len < 4294967295 ->
  exists st1, next (S f) c d st = (RTok (TItemStart len), st1)
              /\ pixitem_state_g st1 more stk len (negb (len =? 0)) /\ r_pos st1 = r_pos st + 8.
Proof.
  intros (Hsrc & Hin & Hst & Hb & Hh & Hl & Hsg & Hot & Hp) Hlen.
  rewrite (next_nopending f c d st Hh Hp).
  unfold next_body. rewrite Hin, Hst, (not_pixel_item_g stk _ _ Hb), Hl.
  change (is_encaps_header pixel_tag undef) with true. cbv iota.
  unfold upd at 1. cbn [r_src]. rewrite Hsrc.
  rewrite dec_item_header_item by lia.
  eexists. split; [reflexivity|].
  unfold pixitem_state_g, upd, set_src, push, pix_item_tok, pix_seq_tok. cbn. rewrite ?Hst, ?Hot.
  destruct (N.eqb_spec len 0) as [->|Hz]; cbn;
    repeat split; auto; try congruence; try (eexists; reflexivity); try (unfold undef; lia).
Qed.

Lemma step_pix_item_g f c d st stk len more :
  pixseq_state_g st (ps35_item_header c len ++ more) stk -> len < 4294967295 ->
  exists st1, next (S f) c d st = (RTok (TItemStart len), st1) /\ pixitem_state_g st1 more stk len false
              /\ r_pos st1 = r_pos st + 8.
Proof.
  intros (Hsrc & Hin & (b0 & Hst) & Hb & Hh & Hl & Hsg & Hot) Hlen.
  assert (Hn : noop_delims st) by (unfold noop_delims; rewrite Hst; left; reflexivity).
  destruct (next_via_body_g f c d st Hh Hn) as (st' & (E1 & E2 & E3 & E4 & E5 & E6 & E7 & E8) & EP & EN).
  rewrite EN. clear EN.
  unfold next_body. rewrite E3, Hin, E1, Hsrc.
  rewrite dec_item_header_item by lia.
  unfold set_src at 1. cbn [r_stack]. rewrite E5, Hst.
  eexists. split; [reflexivity|].
  unfold pixitem_state_g, upd, set_src, push, pix_item_tok, pix_seq_tok. cbn. rewrite ?E2, ?E4, ?E5, ?E6, ?E7, ?E8, ?Hst.
  destruct (N.eqb_spec len 0) as [->|Hz]; cbn;
    repeat split; auto; try congruence; try (eexists; reflexivity); try (unfold undef; lia).
Qed.

Lemma step_pix_offset_table_g f c d st stk n raw more :
  pixitem_state_g st (raw ++ more) stk (4 * N.of_nat n) true -> length raw = (4 * n)%nat -> (0 < n)%nat ->
  exists st1, next (S f) c d st = (RTok (TOffsetTable (dec_words c 4 n raw)), st1) /\ pixdone_state_g st1 more stk
              /\ r_pos st1 = r_pos st + 4 * N.of_nat n.
Proof.
  intros (Hsrc & Hin & (b0 & Hst) & Hb & Hh & Hl & Hsg & Hot & Hu & _) Hraw Hn0.
  assert (Hn : noop_delims st).
  { unfold noop_delims. rewrite Hst. right. cbn. split; [exact Hu | lia]. }
  destruct (next_via_body_g f c d st Hh Hn) as (st' & (E1 & E2 & E3 & E4 & E5 & E6 & E7 & E8) & EP & EN).
  rewrite EN. clear EN.
  unfold next_body. rewrite E3, Hin, E5, Hst. unfold pix_item_tok at 1. cbv iota.
  replace (4 * N.of_nat n =? undef) with false by (symmetry; apply N.eqb_neq; exact Hu).
  rewrite E4, Hot.
  replace (N.to_nat (4 * N.of_nat n / 4)) with n
    by (rewrite N.mul_comm, N.div_mul by discriminate; lia).
  unfold upd at 1 2. cbn [r_src]. rewrite E1, Hsrc.
  rewrite take_app by exact Hraw.
  replace (N.to_nat (4 * N.of_nat n mod 4)) with O
    by (rewrite N.mul_comm, N.mod_mul by discriminate; reflexivity).
  change (take 0 more) with (Some (@nil N, more)). cbv iota.
  eexists. split; [reflexivity|].
  unfold pixdone_state_g, upd, set_src. cbn. rewrite ?E2, ?E5, ?E6, ?E7, ?E8, ?Hst.
  repeat split; auto; try congruence.
  exists (4 * N.of_nat n), (r_pos st), b0. repeat split; auto.
Qed.

Lemma step_pix_value_g f c d st stk val more :
  pixitem_state_g st (val ++ more) stk (blen val) false -> 0 < blen val ->
  exists st1, next (S f) c d st = (RTok (TItemValue val), st1) /\ pixdone_state_g st1 more stk
              /\ r_pos st1 = r_pos st + blen val.
Proof.
  intros (Hsrc & Hin & (b0 & Hst) & Hb & Hh & Hl & Hsg & Hot & Hu & _) Hpos.
  assert (Hn : noop_delims st).
  { unfold noop_delims. rewrite Hst. right. cbn. split; [exact Hu | lia]. }
  destruct (next_via_body_g f c d st Hh Hn) as (st' & (E1 & E2 & E3 & E4 & E5 & E6 & E7 & E8) & EP & EN).
  rewrite EN. clear EN.
  unfold next_body. rewrite E3, Hin, E5, Hst. unfold pix_item_tok at 1. cbv iota.
  replace (blen val =? undef) with false by (symmetry; apply N.eqb_neq; exact Hu).
  rewrite E4, Hot. cbv iota.
  replace (N.to_nat (blen val)) with (length val) by (unfold blen; lia).
  rewrite E1, Hsrc, firstn_app_exact, skipn_app_exact by reflexivity.
  eexists. split; [reflexivity|].
  unfold pixdone_state_g, upd, set_src. cbn. rewrite ?E2, ?E4, ?E5, ?E6, ?E7, ?E8, ?Hst, ?Hot.
  repeat split; auto; try congruence.
  exists (blen val), (r_pos st), b0. repeat split; auto.
Qed.

Lemma step_pix_item_end_g f c d st src stk :
  pixdone_state_g st src stk ->
  exists st1, next (S f) c d st = (RTok TItemEnd, st1) /\ pixseq_state_g st1 src stk
              /\ r_pos st1 = r_pos st.
Proof.
  intros (Hsrc & Hin & (len & b1 & b0 & Hst & Hu & Hpos) & Hb & Hh & Hl & Hsg & Hot & Hp).
  cbn [next]. rewrite Hh, Hp. unfold update_delims. rewrite Hst. unfold pix_item_tok. cbn [sq_len sq_base sq_item].
  replace (len =? undef) with false by (symmetry; apply N.eqb_neq; exact Hu).
  replace (b1 + len =? r_pos st) with true by (symmetry; apply N.eqb_eq; exact Hpos).
  eexists. split; [reflexivity|].
  unfold pixseq_state_g, upd. cbn. repeat split; auto. exists b0. reflexivity.
Qed.

Lemma step_pix_end_g f c d st stk rest :
  pixseq_state_g st (ps35_seq_delim c ++ rest) stk ->
  exists st1, next (S f) c d st = (RTok TSeqEnd, st1) /\ gstate st1 rest stk
              /\ r_pos st1 = r_pos st + 8 /\ r_pending st1 = true.
Proof.
  intros (Hsrc & Hin & (b0 & Hst) & Hb & Hh & Hl & Hsg & Hot).
  assert (Hn : noop_delims st) by (unfold noop_delims; rewrite Hst; left; reflexivity).
  destruct (next_via_body_g f c d st Hh Hn) as (st' & (E1 & E2 & E3 & E4 & E5 & E6 & E7 & E8) & EP & EN).
  rewrite EN. clear EN.
  unfold next_body. rewrite E3, Hin, E1, Hsrc.
  rewrite dec_item_header_seq_delim.
  unfold set_src at 1. cbn [r_stack]. rewrite E5, Hst. cbn [tl].
  eexists. split; [reflexivity|].
  unfold gstate, upd, set_src. cbn. rewrite ?E2, ?E4, ?E5, ?E6, ?E7, ?E8, ?Hst. fin_state.
Qed.
