(** C01/C02 glue for flat data sets: write-then-read and read-then-rewrite. *)
From Coq Require Import ZifyBool ZifyNat ZifyN Sorting.Sorted.
From DicomV Require Import Base.Endian Model.Vr Model.Header Model.Prim Model.Dataset Model.Writer Model.Reader
  Spec.Ps35 Proofs.HeaderP Proofs.PrimP Proofs.WriterP Proofs.ValidP Proofs.FlatP Proofs.ValueP Proofs.ReaderP.
Open Scope N_scope.

Definition readback_prim (c : codec) (v : vr) (val : bytes) : prim :=
  match back_value c v val with Ok p => p | _ => PEmpty end.

(** The element read back after writing [e]: the VR the reader assigns, the
    even length actually written, and the value decoded from the padded bytes. *)
Definition norm_elem (c : codec) (d : dict_t) (e : elem) : elem :=
  match e with
  | EPrim t v _ p =>
      let val := ps35_padded v (raw_value c v p) in
      EPrim t (read_vr c d t v) (blen val) (readback_prim c (read_vr c d t v) val)
  | _ => e
  end.

(** Reader-side conditions on an in-memory primitive element. *)
Definition rt_ok (c : codec) (d : dict_t) (e : elem) : Prop :=
  match e with
  | EPrim t v _ _ => t <> (40, 259) /\ vr_eqb (read_vr c d t v) SQ = false
  | _ => False
  end.

Lemma back_value_not_sq c v val : vr_eqb v SQ = false -> exists p, back_value c v val = Ok p.
Proof.
  intros H. unfold back_value. destruct (blen val =? 0); [eauto|].
  destruct v; cbn in H; try discriminate; cbn; eauto.
Qed.

Lemma rflat_of_written c d is_sq es :
  Forall (elem_ok c is_sq) es -> Forall (rt_ok c d) es ->
  all_cprim_ok c is_sq (map (to_c c) es) ->
  rflat_ok c d (map (to_c c) es)
    (map (fun e => match norm_elem c d e with EPrim _ _ _ p => p | _ => PEmpty end) es)
  /\ back_elems c d (map (to_c c) es)
       (map (fun e => match norm_elem c d e with EPrim _ _ _ p => p | _ => PEmpty end) es)
     = map (norm_elem c d) es.
Proof.
  induction es as [|e es IH]; intros H1 H2 A; [split; [exact I | reflexivity]|].
  inversion H1 as [|? ? He Hes]; inversion H2 as [|? ? Re Res]; subst.
  destruct e as [t v l p| |]; cbn in He, Re; try contradiction.
  cbn [map to_c all_cprim_ok] in A. destruct A as [A1 A2].
  destruct (IH Hes Res A2) as [I1 I2].
  destruct Re as [Rt Rsq].
  destruct (back_value_not_sq c (read_vr c d t v) (ps35_padded v (raw_value c v p)) Rsq) as [q Hq].
  assert (Q : readback_prim c (read_vr c d t v) (ps35_padded v (raw_value c v p)) = q)
    by (unfold readback_prim; rewrite Hq; reflexivity).
  cbn [map to_c norm_elem rflat_ok back_elems]. rewrite Q.
  split.
  - split; [|exact I1].
    destruct A1 as (T1 & T2 & T3 & T4 & T5 & T6). unfold rprim_ok.
    change (ps35_len (ps35_padded v (raw_value c v p))) with (blen (ps35_padded v (raw_value c v p))) in *.
    split; [exact T1|]. split; [exact T2|]. split; [exact Rt|]. split; [exact T4|].
    split; [intros Hc Hs; apply (proj2 (T5 Hc)); exact Hs|]. split; [exact Rsq | exact Hq].
  - rewrite I2. reflexivity.
Qed.

(** C01, flat data sets: what is read back after writing. *)
Lemma roundtrip_flat c nc inv d is_sq es b :
  Forall (elem_ok c is_sq) es -> Forall (rt_ok c d) es ->
  StronglySorted tag_lt (map elem_tag es) ->
  write_dataset c nc inv es = Ok b ->
  read_dataset c d b = Ok (map (norm_elem c d) es).
Proof.
  intros H1 H2 S E.
  rewrite write_dataset_flat in E by (apply (elem_ok_plain c is_sq); exact H1).
  destruct (enc_flat_canon c is_sq es b H1 E) as [-> A].
  destruct (rflat_of_written c d is_sq es H1 H2 A) as [R1 R2].
  rewrite (read_dataset_flat c d _ _ R1); [rewrite R2; reflexivity|].
  rewrite map_map. replace (map (fun x => ctag (to_c c x)) es) with (map elem_tag es); [exact S|].
  apply map_ext_in. intros e He.
  assert (Hok : elem_ok c is_sq e) by (rewrite Forall_forall in H1; apply H1; exact He).
  destruct e; cbn in Hok; try contradiction. reflexivity.
Qed.

(** * Value-level normalisations *)
(** Multi-valued text (components without backslash) of a text VR read back
    as Strs: the same components; when the joined length is odd the last one
    carries the pad byte (trailing padding, removed by [to_str]). *)
Lemma readback_text c v l :
  l <> [] -> Forall no_sep l -> join_bs l <> [] ->
  In v [AE; AS; CS; DA; DS; DT; IS; LO; PN; SH; TM; UC; UI] ->
  readback_prim c v (ps35_padded v (raw_value c v (PStrs l)))
  = PStrs (if Nat.odd (length (join_bs l)) then pad_last (ps35_pad v) l else l).
Proof.
  intros Hl Hs Hne Hv. unfold readback_prim, back_value. cbn [raw_value].
  assert (P : ps35_pad v <> 92).
  { cbn in Hv. repeat (destruct Hv as [ <- | Hv ]; [cbn; discriminate|]). contradiction. }
  assert (Z : (blen (ps35_padded v (join_bs l)) =? 0) = false).
  { apply N.eqb_neq. unfold ps35_padded, blen. destruct (Nat.odd (length (join_bs l)));
      [rewrite app_length; cbn; lia | destruct (join_bs l); [congruence | cbn; lia]]. }
  rewrite Z.
  pose proof (split_join_padded (ps35_pad v) l Hl P Hs) as SJ. unfold pad_even in SJ.
  cbn in Hv. repeat (destruct Hv as [ <- | Hv ]; [cbn [value_of_bytes]; unfold ps35_padded; rewrite SJ; reflexivity|]).
  contradiction.
Qed.

(** Binary words: exactly the numbers written (16/32/64-bit VRs). *)
Lemma readback_words c k (l : list N) v (mk : list N -> prim) :
  l <> [] -> Forall (fun n => n < 2 ^ (8 * N.of_nat k)) l -> (k = 2 \/ k = 4 \/ k = 8)%nat ->
  (forall raw, value_of_bytes c v raw = Ok (mk (dec_words c k (Nat.div (length raw) k) raw))) ->
  readback_prim c v (ps35_padded v (enc_words c k l)) = mk l.
Proof.
  intros Hl Hw Hk Hv. unfold readback_prim, back_value.
  assert (Len : length (enc_words c k l) = (length l * k)%nat) by apply enc_words_length.
  assert (Ev : Nat.odd (length (enc_words c k l)) = false).
  { rewrite Len. rewrite <- Nat.negb_even. apply negb_false_iff. apply Nat.even_spec.
    destruct Hk as [ -> | [ -> | -> ] ]; [exists (length l) | exists (2 * length l)%nat | exists (4 * length l)%nat]; lia. }
  unfold ps35_padded. rewrite Ev.
  assert (Z : (blen (enc_words c k l) =? 0) = false).
  { apply N.eqb_neq. unfold blen. rewrite Len. destruct l; [congruence|]. cbn [length]. destruct Hk as [ -> | [ -> | -> ] ]; lia. }
  rewrite Z, Hv. f_equal. rewrite Len.
  replace (Nat.div (length l * k) k) with (length l) by (symmetry; apply Nat.div_mul; destruct Hk as [ -> | [ -> | -> ] ]; discriminate).
  rewrite <- (List.app_nil_r (enc_words c k l)). apply dec_words_enc_words. exact Hw.
Qed.
