(** Lemmas about Model/DateTime.v (C12): range texts [A-B], [-B], [A-]. *)
From DicomV Require Import Base.Prelude Model.DateTime Proofs.DateTimeP Proofs.DateTimeTP.
From Coq Require Import ZifyBool ZifyNat ZifyN.
Ltac Zify.zify_post_hook ::= Z.div_mod_to_equations.
Local Open Scope N_scope.

(** * Texts without '-' *)
Definition nodash (l : bytes) : bool := forallb (fun b => negb (b =? dash)) l.

Lemma nodash_app l r : nodash (l ++ r) = nodash l && nodash r.
Proof. apply forallb_app. Qed.
Lemma digits_nodash l : forallb is_digit l = true -> nodash l = true.
Proof.
  unfold nodash. induction l as [|b l IH]; cbn [forallb]; [reflexivity|].
  intros H. apply andb_true_iff in H as [Hb Hl]. rewrite IH by exact Hl.
  apply is_digit_spec in Hb. unfold dash. assert (b =? 45 = false) as -> by lia. reflexivity.
Qed.
Lemma padk_nodash k n : nodash (padk k n) = true.
Proof. apply digits_nodash, padk_digits. Qed.
Lemma date_enc_nodash d : nodash (date_enc d) = true.
Proof. destruct d; cbn [date_enc]; rewrite ?nodash_app, ?padk_nodash; reflexivity. Qed.
Lemma nodash_cons c l : nodash (c :: l) = negb (c =? dash) && nodash l.
Proof. reflexivity. Qed.
Lemma time_enc_nodash t : nodash (time_enc t) = true.
Proof.
  destruct t; cbn [time_enc]; rewrite ?nodash_app, ?nodash_cons, ?padk_nodash; reflexivity.
Qed.

Lemma position_nodash l r : nodash l = true -> position dash (l ++ dash :: r) = Some (length l).
Proof.
  induction l as [|b l IH]; cbn [app position length nodash forallb].
  - intros _. unfold dash. rewrite N.eqb_refl. reflexivity.
  - intros H. apply andb_true_iff in H as [Hb Hl]. apply negb_true_iff in Hb. rewrite Hb.
    fold (nodash l) in Hl. rewrite IH by exact Hl. reflexivity.
Qed.

Lemma firstn_exact {A} (l r : list A) : firstn (length l) (l ++ r) = l.
Proof. rewrite firstn_app, Nat.sub_diag, firstn_all. cbn. apply app_nil_r. Qed.
Lemma skipn_exact {A} (l r : list A) c : skipn (S (length l)) (l ++ c :: r) = r.
Proof.
  rewrite skipn_app. rewrite skipn_all2 by lia. replace (S (length l) - length l)%nat with 1%nat by lia. reflexivity.
Qed.

Lemma date_enc_len d : (4 <= length (date_enc d))%nat.
Proof. destruct d; cbn [date_enc]; rewrite ?app_length, ?padk_length; lia. Qed.
Lemma time_enc_len t : (2 <= length (time_enc t))%nat.
Proof. destruct t; cbn [time_enc]; rewrite ?app_length, ?padk_length; lia. Qed.

(** * Date ranges *)
Lemma date_range_text a b :
  valid_date a = true -> valid_date b = true ->
  parse_date_range (date_enc a ++ dash :: date_enc b)
  = (lo <- date_earliest a;; hi <- date_latest b;; date_from_start_to_end lo hi).
Proof.
  intros Ha Hb. unfold parse_date_range. pose proof (date_enc_len a). pose proof (date_enc_len b).
  assert (short 5 (date_enc a ++ dash :: date_enc b) = false) as ->
    by (unfold short; rewrite app_length; cbn [length]; lia).
  rewrite position_nodash by apply date_enc_nodash.
  assert ((length (date_enc a) =? 0)%nat = false) as -> by lia.
  assert ((length (date_enc a) =? length (date_enc a ++ dash :: date_enc b) - 1)%nat = false) as ->
    by (rewrite app_length; cbn [length]; lia).
  rewrite firstn_exact, skipn_exact. rewrite !parse_date_rt by assumption.
  cbn [ctx_parse map_err bind fst]. reflexivity.
Qed.

Lemma date_range_text_open_start b :
  valid_date b = true ->
  parse_date_range (dash :: date_enc b) = (hi <- date_latest b;; Ok (None, Some hi)).
Proof.
  intros Hb. unfold parse_date_range. pose proof (date_enc_len b).
  assert (short 5 (dash :: date_enc b) = false) as -> by (unfold short; cbn [length]; lia).
  cbn [position]. unfold dash at 1 2. rewrite N.eqb_refl. cbn [Nat.eqb skipn].
  rewrite parse_date_rt by assumption. reflexivity.
Qed.

Lemma date_range_text_open_end a :
  valid_date a = true ->
  parse_date_range (date_enc a ++ [dash]) = (lo <- date_earliest a;; Ok (Some lo, None)).
Proof.
  intros Ha. unfold parse_date_range. pose proof (date_enc_len a).
  assert (short 5 (date_enc a ++ [dash]) = false) as ->
    by (unfold short; rewrite app_length; cbn [length]; lia).
  rewrite position_nodash by apply date_enc_nodash.
  assert ((length (date_enc a) =? 0)%nat = false) as -> by lia.
  assert ((length (date_enc a) =? length (date_enc a ++ [dash]) - 1)%nat = true) as ->
    by (rewrite app_length; cbn [length]; lia).
  rewrite firstn_exact. rewrite parse_date_rt by assumption. reflexivity.
Qed.

(** * Time ranges *)
Lemma time_range_text a b :
  valid_time a = true -> valid_time b = true ->
  parse_time_range (time_enc a ++ dash :: time_enc b)
  = (lo <- time_earliest a;; hi <- time_latest b;; time_from_start_to_end lo hi).
Proof.
  intros Ha Hb. unfold parse_time_range. pose proof (time_enc_len a). pose proof (time_enc_len b).
  assert (short 3 (time_enc a ++ dash :: time_enc b) = false) as ->
    by (unfold short; rewrite app_length; cbn [length]; lia).
  rewrite position_nodash by apply time_enc_nodash.
  assert ((length (time_enc a) =? 0)%nat = false) as -> by lia.
  assert ((length (time_enc a) =? length (time_enc a ++ dash :: time_enc b) - 1)%nat = false) as ->
    by (rewrite app_length; cbn [length]; lia).
  rewrite firstn_exact, skipn_exact. rewrite !parse_time_rt by assumption.
  cbn [ctx_parse map_err bind fst]. reflexivity.
Qed.

Lemma time_range_text_open_start b :
  valid_time b = true ->
  parse_time_range (dash :: time_enc b) = (hi <- time_latest b;; Ok (None, Some hi)).
Proof.
  intros Hb. unfold parse_time_range. pose proof (time_enc_len b).
  assert (short 3 (dash :: time_enc b) = false) as -> by (unfold short; cbn [length]; lia).
  cbn [position]. unfold dash at 1 2. rewrite N.eqb_refl. cbn [Nat.eqb skipn].
  rewrite parse_time_rt by assumption. reflexivity.
Qed.

Lemma time_range_text_open_end a :
  valid_time a = true ->
  parse_time_range (time_enc a ++ [dash]) = (lo <- time_earliest a;; Ok (Some lo, None)).
Proof.
  intros Ha. unfold parse_time_range. pose proof (time_enc_len a).
  assert (short 3 (time_enc a ++ [dash]) = false) as ->
    by (unfold short; rewrite app_length; cbn [length]; lia).
  rewrite position_nodash by apply time_enc_nodash.
  assert ((length (time_enc a) =? 0)%nat = false) as -> by lia.
  assert ((length (time_enc a) =? length (time_enc a ++ [dash]) - 1)%nat = true) as ->
    by (rewrite app_length; cbn [length]; lia).
  rewrite firstn_exact. rewrite parse_time_rt by assumption. reflexivity.
Qed.

(** * Date-time ranges *)
Definition west (v : dicom_dt) : bool := match dt_zone v with Some z => (z <? 0)%Z | None => false end.
(* the four digits of a year read as hhmm form an acceptable west offset (up to 12:00) *)
Definition tz_like (y : N) : bool := (y / 100) * 60 + y mod 100 <=? 720.
(* the text of a date-time without its zone suffix *)
Definition body (v : dicom_dt) : bytes := date_enc (dt_date v) ++ otime_enc (dt_time v).

Lemma dt_enc_body v : dt_enc v = body v ++ ozone_enc (dt_zone v).
Proof. unfold dt_enc, body. rewrite app_assoc. reflexivity. Qed.

Lemma body_nodash v : nodash (body v) = true.
Proof.
  unfold body. rewrite nodash_app, date_enc_nodash. destruct (dt_time v); cbn [otime_enc]; [apply time_enc_nodash|reflexivity].
Qed.

Lemma positions_app i l r :
  positions_from i dash (l ++ r) = positions_from i dash l ++ positions_from (i + length l) dash r.
Proof.
  revert i; induction l as [|b l IH]; intros i; cbn [app positions_from length].
  - rewrite Nat.add_0_r. reflexivity.
  - rewrite IH. replace (S i + length l)%nat with (i + S (length l))%nat by lia.
    destruct (b =? dash); reflexivity.
Qed.
Lemma positions_nodash i l : nodash l = true -> positions_from i dash l = [].
Proof.
  revert i; induction l as [|b l IH]; intros i; cbn [positions_from nodash forallb]; [reflexivity|].
  intros H. apply andb_true_iff in H as [Hb Hl]. apply negb_true_iff in Hb. rewrite Hb. apply IH, Hl.
Qed.

Lemma valid_dt_zone v : valid_dt v = true -> match dt_zone v with Some z => valid_zone z = true | None => True end.
Proof.
  unfold valid_dt. intros H. apply andb_true_iff in H as [_ Hz]. destruct (dt_zone v); auto.
Qed.

Lemma positions_ozone i z :
  match z with Some z => valid_zone z = true | None => True end ->
  positions_from i dash (ozone_enc z)
  = if match z with Some z => (z <? 0)%Z | None => false end then [i] else [].
Proof.
  destruct z as [z|]; [|reflexivity]. intros Hv. cbn [ozone_enc]. rewrite zone_enc_valid by exact Hv.
  cbn [positions_from]. rewrite positions_nodash by (rewrite nodash_app, !padk_nodash; reflexivity).
  destruct (z <? 0)%Z; reflexivity.
Qed.

Lemma positions_dt i v :
  valid_dt v = true ->
  positions_from i dash (dt_enc v) = if west v then [(i + length (body v))%nat] else [].
Proof.
  intros Hv. rewrite dt_enc_body, positions_app, positions_nodash by apply body_nodash.
  rewrite positions_ozone by (apply valid_dt_zone, Hv). reflexivity.
Qed.

Lemma dt_enc_len v : (4 <= length (dt_enc v))%nat.
Proof. unfold dt_enc. rewrite app_length. pose proof (date_enc_len (dt_date v)). lia. Qed.

Lemma hd_padk4 y r : is_digit (hd 0 (padk 4 y ++ r)) = true.
Proof.
  cbn [padk app hd]. apply is_digit_spec. assert (y / 10 / 10 / 10 mod 10 < 10) by (apply N.mod_lt; lia). lia.
Qed.
Lemma hd_dt_enc v r : hd 0 (dt_enc v ++ r) =? dash = false.
Proof.
  assert (is_digit (hd 0 (dt_enc v ++ r)) = true) as H.
  { unfold dt_enc. destruct (dt_date v); cbn [date_enc]; rewrite <- ?app_assoc; apply hd_padk4. }
  apply is_digit_spec in H. unfold dash. lia.
Qed.

(* texts ending in a digit *)
Definition ends_digit (l : bytes) : Prop := exists x c, l = x ++ [c] /\ is_digit c = true.
Lemma ends_digit_padk k n : ends_digit (padk (S k) n).
Proof.
  exists (padk k (n / 10)), (48 + n mod 10). split; [reflexivity|].
  apply is_digit_spec. assert (n mod 10 < 10) by (apply N.mod_lt; lia). lia.
Qed.
Lemma ends_digit_app l r : ends_digit r -> ends_digit (l ++ r).
Proof. intros (x & c & -> & H). exists (l ++ x), c. rewrite app_assoc. auto. Qed.
Lemma ends_digit_cons a r : ends_digit r -> ends_digit (a :: r).
Proof. apply (ends_digit_app [a]). Qed.

Lemma date_enc_ends d : ends_digit (date_enc d).
Proof.
  destruct d; cbn [date_enc].
  - apply ends_digit_padk.
  - apply ends_digit_app, ends_digit_padk.
  - do 2 apply ends_digit_app. apply ends_digit_padk.
Qed.
Lemma time_enc_ends t : valid_time t = true -> ends_digit (time_enc t).
Proof.
  destruct t as [h|h m|h m s|h m s f fp]; cbn [time_enc valid_time]; intros Hv.
  - apply ends_digit_padk.
  - apply ends_digit_app, ends_digit_padk.
  - do 2 apply ends_digit_app. apply ends_digit_padk.
  - do 3 apply ends_digit_app. apply ends_digit_cons.
    destruct (N.to_nat fp) as [|k] eqn:E; [unfold in_range in Hv; lia|apply ends_digit_padk].
Qed.
Lemma dt_enc_ends v : valid_dt v = true -> ends_digit (dt_enc v).
Proof.
  intros Hv. pose proof (valid_dt_zone v Hv) as Hz. unfold dt_enc.
  destruct (dt_zone v) as [z|]; cbn [ozone_enc].
  - rewrite zone_enc_valid by exact Hz. do 2 apply ends_digit_app. apply ends_digit_cons, ends_digit_app, ends_digit_padk.
  - rewrite app_nil_r. unfold valid_dt in Hv. apply andb_true_iff in Hv as [Hv _]. apply andb_true_iff in Hv as [_ Ht].
    destruct (dt_time v) as [t|]; cbn [otime_enc].
    + apply ends_digit_app, time_enc_ends. apply andb_true_iff in Ht; tauto.
    + rewrite app_nil_r. apply date_enc_ends.
Qed.

Lemma last_ends l p : ends_digit l -> last (p ++ l) 0 =? dash = false.
Proof.
  intros (x & c & -> & H). rewrite app_assoc, last_last. apply is_digit_spec in H. unfold dash. lia.
Qed.

Lemma split_range_text mode a b :
  valid_dt a = true -> valid_dt b = true ->
  split_range mode (dt_enc a ++ dash :: dt_enc b) (length (dt_enc a))
  = (lo <- dt_earliest a;; hi <- dt_latest b;; combine mode lo hi).
Proof.
  intros Ha Hb. unfold split_range. rewrite firstn_exact, skipn_exact.
  rewrite !parse_dt_rt by assumption. cbn [ctx_parse map_err bind]. reflexivity.
Qed.

Lemma padk22 a b : b < 100 -> padk 2 a ++ padk 2 b = padk 4 (a * 100 + b).
Proof.
  intros Hb. cbn [padk app].
  repeat match goal with |- _ :: _ = _ :: _ => f_equal end; lia.
Qed.

Lemma padk4_split y : padk 4 y = padk 2 (y / 100) ++ padk 2 (y mod 100).
Proof.
  rewrite padk22 by (apply N.mod_lt; lia). f_equal. lia.
Qed.

(* the first attempt of the two-dash case, split inside A's west offset, fails to parse *)
Lemma west_offset_then_year_fails hh mm b :
  hh < 100 -> mm < 100 -> valid_dt b = true -> tz_like (d_year (dt_date b)) = false ->
  exists e, parse_datetime_partial (padk 2 hh ++ padk 2 mm ++ dash :: dt_enc b) = Err e.
Proof.
  intros Hh Hm Hb Htz. unfold parse_datetime_partial.
  rewrite app_assoc, padk22 by exact Hm.
  change (padk 4 (hh * 100 + mm)) with (date_enc (DYear (hh * 100 + mm))).
  rewrite parse_date_enc; [|cbn [valid_date]; inr; lia|right; reflexivity].
  cbn [bind].
  destruct (parse_time_nondigit dash (dt_enc b) eq_refl) as [e ->]. cbn [bind].
  unfold parse_zone. pose proof (dt_enc_len b).
  assert ((length (dash :: dt_enc b) <=? 4)%nat = false) as -> by (cbn [length]; lia).
  assert (Hy : ok_year (d_year (dt_date b)) = true).
  { unfold valid_dt in Hb. apply andb_true_iff in Hb as [Hb _]. apply andb_true_iff in Hb as [Hb _].
    destruct (dt_date b) as [y0|y0 m0|y0 m0 d0]; cbn [valid_date d_year] in *.
    - exact Hb.
    - apply andb_true_iff in Hb as [Hb _]. exact Hb.
    - apply andb_true_iff in Hb as [Hb _]. apply andb_true_iff in Hb as [Hb _]. exact Hb. }
  set (y := d_year (dt_date b)) in *.
  assert (Henc : exists r, dt_enc b = padk 2 (y / 100) ++ padk 2 (y mod 100) ++ r).
  { unfold dt_enc. subst y. destruct (dt_date b) as [y0|y0 m0|y0 m0 d0]; cbn [date_enc d_year];
      rewrite (padk4_split y0), <- !app_assoc; eexists; reflexivity. }
  destruct Henc as [r ->].
  rewrite firstn_padk, skipn_padk, firstn_padk.
  rewrite !read_number_padk by (try lia; inr; cbn; lia). cbn [bind].
  unfold dash, plus. change (45 =? 43) with false. change (45 =? 45) with true. cbv iota.
  unfold tz_like in Htz.
  assert (ok_west ((y / 100 * 60 + y mod 100) * 60) = false) as -> by (inr; lia).
  cbn. eauto.
Qed.

Lemma body_parse v :
  valid_dt v = true -> parse_datetime_partial (body v) = Ok (mkDT (dt_date v) (dt_time v) None).
Proof.
  intros Hv. assert (H : valid_dt (mkDT (dt_date v) (dt_time v) None) = true).
  { unfold valid_dt in *. cbn [dt_date dt_time dt_zone]. apply andb_true_iff in Hv as [Hv _]. rewrite Hv. reflexivity. }
  pose proof (parse_dt_rt _ H) as P. unfold dt_enc in P. cbn [dt_date dt_time dt_zone ozone_enc] in P.
  rewrite app_nil_r in P. exact P.
Qed.

Lemma dt_range_text mode a b :
  valid_dt a = true -> valid_dt b = true ->
  (west a = true -> west b = false -> tz_like (d_year (dt_date b)) = false) ->
  (west a = false -> west b = true ->
   exists r, (lo <- dt_earliest a;; hi <- dt_latest b;; combine mode lo hi) = Ok r) ->
  parse_datetime_range mode (dt_enc a ++ dash :: dt_enc b)
  = (lo <- dt_earliest a;; hi <- dt_latest b;; combine mode lo hi).
Proof.
  intros Ha Hb Hwa Hwb. unfold parse_datetime_range.
  pose proof (dt_enc_len a) as La. pose proof (dt_enc_len b) as Lb.
  assert (short 5 (dt_enc a ++ dash :: dt_enc b) = false) as ->
    by (unfold short; rewrite app_length; cbn [length]; lia).
  rewrite hd_dt_enc.
  change (dt_enc a ++ dash :: dt_enc b) with (dt_enc a ++ [dash] ++ dt_enc b) at 1.
  rewrite app_assoc, last_ends by (apply dt_enc_ends, Hb).
  rewrite positions_app. cbn [positions_from]. unfold dash at 2 3. rewrite N.eqb_refl. fold dash.
  rewrite !positions_dt by assumption. cbn [Nat.add].
  destruct (west a) eqn:Wa, (west b) eqn:Wb; cbn [app].
  - apply split_range_text; assumption.
  - (* A carries the only west offset *)
    unfold west in Wa.
    pose proof (valid_dt_zone a Ha) as Hz. destruct (dt_zone a) as [z|] eqn:Ez; [|discriminate].
    set (hh := Z.abs_N z / 60 / 60). set (mm := (Z.abs_N z / 60) mod 60).
    assert (Hbuf : dt_enc a ++ dash :: dt_enc b
                   = body a ++ dash :: (padk 2 hh ++ padk 2 mm ++ dash :: dt_enc b)).
    { rewrite (dt_enc_body a), Ez. cbn [ozone_enc]. rewrite zone_enc_valid by exact Hz. rewrite Wa.
      rewrite <- !app_assoc. cbn [app]. rewrite <- !app_assoc. reflexivity. }
    remember (dt_enc a ++ dash :: dt_enc b) as buf eqn:Ebuf.
    assert (F1 : firstn (length (body a)) buf = body a) by (rewrite Hbuf; apply firstn_exact).
    assert (F2 : skipn (S (length (body a))) buf = padk 2 hh ++ padk 2 mm ++ dash :: dt_enc b)
      by (rewrite Hbuf; apply skipn_exact).
    rewrite F1, F2, body_parse by exact Ha.
    unfold valid_zone in Hz.
    destruct (west_offset_then_year_fails hh mm b) as [e ->];
      [subst hh; lia|subst mm; lia|assumption|auto|].
    subst buf. apply split_range_text; assumption.
  - (* B carries the only west offset: the first dash is the separator *)
    rewrite firstn_exact, skipn_exact. rewrite !parse_dt_rt by assumption.
    destruct (Hwb eq_refl eq_refl) as [r Hr]. rewrite Hr.
    destruct (dt_earliest a) as [lo| |]; cbn [bind] in *; try discriminate.
    destruct (dt_latest b) as [hi| |]; cbn [bind] in *; try discriminate.
    rewrite Hr. reflexivity.
  - apply split_range_text; assumption.
Qed.

Lemma dt_range_text_open_start mode b :
  valid_dt b = true ->
  parse_datetime_range mode (dash :: dt_enc b)
  = (hi <- dt_latest b;;
     Ok (match hi with PNaive e => RNaive None (Some e) | PTz e eo => RTz None (Some (e, eo)) end)).
Proof.
  intros Hb. unfold parse_datetime_range. pose proof (dt_enc_len b).
  assert (short 5 (dash :: dt_enc b) = false) as -> by (unfold short; cbn [length]; lia).
  cbn [hd tl]. unfold dash at 1 2. rewrite N.eqb_refl.
  rewrite parse_dt_rt by assumption. reflexivity.
Qed.

Lemma dt_range_text_open_end mode a :
  valid_dt a = true ->
  parse_datetime_range mode (dt_enc a ++ [dash])
  = (lo <- dt_earliest a;;
     Ok (match lo with PNaive s => RNaive (Some s) None | PTz s so => RTz (Some (s, so)) None end)).
Proof.
  intros Ha. unfold parse_datetime_range. pose proof (dt_enc_len a).
  assert (short 5 (dt_enc a ++ [dash]) = false) as ->
    by (unfold short; rewrite app_length; cbn [length]; lia).
  rewrite hd_dt_enc. rewrite last_last. unfold dash at 1 2. rewrite N.eqb_refl.
  assert ((length (dt_enc a ++ [dash]) - 1)%nat = length (dt_enc a)) as -> by (rewrite app_length; cbn [length]; lia).
  rewrite firstn_exact. rewrite parse_dt_rt by assumption. reflexivity.
Qed.

(** The text of a date-time range is genuinely ambiguous when exactly one end has a
    west offset: two different pairs of values print to the same text. *)
Lemma dt_range_text_ambiguous :
  let a := mkDT (DYear 1000) None (Some (-39600)%Z) in
  let b := mkDT (DYear 100) None None in
  let a' := mkDT (DYear 1000) None None in
  let b' := mkDT (DYear 1100) None (Some (-3600)%Z) in
  valid_dt a = true /\ valid_dt b = true /\ valid_dt a' = true /\ valid_dt b' = true
  /\ dt_enc a ++ dash :: dt_enc b = dt_enc a' ++ dash :: dt_enc b'
  /\ (a, b) <> (a', b').
Proof. cbv zeta. repeat split; try (vm_compute; reflexivity). discriminate. Qed.
