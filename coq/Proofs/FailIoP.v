(** Lemmas for C34 about Model/FailIo.v (generic fallible sinks / sources). *)
From DicomV Require Import Base.Prelude Base.Endian Model.PData Model.FailIo Proofs.PDataP.
From Coq Require Import ZifyBool ZifyNat ZifyN.

Definition fail_ge (sk : osink) (n : N) : Prop :=
  match o_fail sk with Some f => n <= f | None => True end.

(** bytes the sink can still take when [n] have been received and [m] are offered *)
Definition room (sk : osink) (n m : N) : N :=
  match o_fail sk with Some f => N.min m (f - n) | None => m end.

Lemma take_add {A} k m (l : list A) : take k l ++ take m (drop k l) = take (k + m) l.
Proof.
  unfold take, drop. replace (N.to_nat (k + m)) with (N.to_nat k + N.to_nat m)%nat by lia.
  generalize (N.to_nat k) as a. generalize (N.to_nat m) as c. intros c a. revert l.
  induction a as [|a IH]; intros l; [reflexivity|].
  destruct l; cbn [firstn skipn Nat.add app]; [destruct c; reflexivity|]. f_equal. apply IH.
Qed.

Lemma room_nil sk n : room sk n 0 = 0.
Proof. unfold room. destruct (o_fail sk); lia. Qed.

Lemma owrite_all_spec sk : forall fuel recv buf,
  (length buf <= fuel)%nat -> fail_ge sk (len recv) ->
  owrite_all fuel sk recv buf =
    (if room sk (len recv) (len buf) =? len buf then Ok tt else Err (fault_class (o_kind sk)),
     recv ++ take (room sk (len recv) (len buf)) buf).
Proof.
  induction fuel as [|fuel IH]; intros recv buf Hf Hge.
  - destruct buf; [|cbn in Hf; lia]. cbn [owrite_all]. rewrite len_nil, room_nil, take_0, app_nil_r. reflexivity.
  - destruct buf as [|x buf].
    + cbn [owrite_all]. rewrite len_nil, room_nil, take_0, app_nil_r. reflexivity.
    + cbn [owrite_all]. unfold osink_write, room, fail_ge in *.
      set (b := x :: buf) in *.
      assert (0 < len b) as Hb by (unfold b; rewrite len_cons; lia).
      set (k0 := if o_chunk sk =? 0 then len b else N.min (len b) (o_chunk sk)).
      assert (0 < k0 <= len b) as Hk0 by (unfold k0; destruct (o_chunk sk =? 0) eqn:E; lia).
      destruct (o_fail sk) as [f|] eqn:Ef.
      * destruct (f <=? len recv) eqn:E1.
        -- replace (N.min (len b) (f - len recv)) with 0 by lia.
           destruct (0 =? len b) eqn:E2; [lia|]. rewrite take_0, app_nil_r. reflexivity.
        -- set (k := N.min k0 (f - len recv)).
           assert (0 < k <= len b) as Hk by (unfold k; lia).
           destruct (k =? 0) eqn:E2; [lia|].
           rewrite IH.
           ++ rewrite len_app, len_take, len_drop.
              replace (N.min k (len b)) with k by lia.
              assert (N.min (len b - k) (f - (len recv + k)) + k = N.min (len b) (f - len recv)) as Hm by lia.
              f_equal.
              ** destruct (N.min (len b - k) (f - (len recv + k)) =? len b - k) eqn:E3;
                 destruct (N.min (len b) (f - len recv) =? len b) eqn:E4; try reflexivity; lia.
              ** rewrite <- app_assoc. f_equal. rewrite take_add. f_equal. lia.
           ++ unfold drop. rewrite skipn_length. unfold b in *. cbn [length] in *. unfold len in Hk. cbn [length] in Hk. lia.
           ++ rewrite len_app, len_take. lia.
      * assert (0 < k0) by lia. destruct (k0 =? 0) eqn:E2; [lia|].
        rewrite IH.
        -- rewrite N.eqb_refl. rewrite len_drop, N.eqb_refl.
           f_equal. rewrite <- app_assoc. f_equal. rewrite (take_all (len b - k0)) by (rewrite len_drop; lia).
           rewrite take_drop. symmetry. apply take_all. lia.
        -- unfold drop. rewrite skipn_length. unfold b in *. cbn [length] in *. unfold len in Hk0. cbn [length] in Hk0. lia.
        -- exact I.
Qed.

Lemma run_units_spec sk : forall units recv, fail_ge sk (len recv) ->
  run_units sk recv units =
    (if room sk (len recv) (len (concat units)) =? len (concat units) then Ok tt else Err (fault_class (o_kind sk)),
     recv ++ take (room sk (len recv) (len (concat units))) (concat units)).
Proof.
  induction units as [|u us IH]; intros recv Hge.
  - cbn [run_units concat]. rewrite len_nil, room_nil, take_0, app_nil_r. reflexivity.
  - cbn [run_units concat]. rewrite owrite_all_spec by (lia || assumption).
    unfold room, fail_ge in *. rewrite len_app.
    destruct (o_fail sk) as [f|] eqn:Ef.
    + destruct (N.min (len u) (f - len recv) =? len u) eqn:E1.
      * assert (len u <= f - len recv) by lia.
        rewrite take_all by lia.
        rewrite IH by (rewrite len_app; lia).
        rewrite len_app.
        f_equal.
        -- destruct (N.min (len (concat us)) (f - (len recv + len u)) =? len (concat us)) eqn:E2;
           destruct (N.min (len u + len (concat us)) (f - len recv) =? len u + len (concat us)) eqn:E3; try reflexivity; lia.
        -- rewrite <- app_assoc. f_equal.
           rewrite take_app_r by lia. f_equal. f_equal. lia.
      * destruct (N.min (len u + len (concat us)) (f - len recv) =? len u + len (concat us)) eqn:E3; [lia|].
        f_equal. f_equal. rewrite take_app_l by lia. f_equal. lia.
    + rewrite N.eqb_refl. rewrite take_all by lia.
      rewrite IH by exact I. rewrite !N.eqb_refl.
      rewrite <- app_assoc. f_equal. f_equal. rewrite !take_all by (rewrite ?len_app; lia). reflexivity.
Qed.

(** every run: what the sink received is the prefix of the operation's bytes up to the fail offset *)
Lemma run_wop_received sk op :
  snd (run_wop sk op) = take (room sk 0 (len (wop_bytes op))) (wop_bytes op).
Proof.
  unfold run_wop, wop_bytes. rewrite run_units_spec by (unfold fail_ge; destruct (o_fail sk); [rewrite len_nil; lia|exact I]).
  cbn [app]. rewrite len_nil.
  set (c := concat (checked op)). set (d := concat (at_drop op)).
  assert (fail_ge sk (len (take (room sk 0 (len c)) c))) as Hge.
  { unfold fail_ge, room. destruct (o_fail sk); [|exact I]. rewrite len_take. lia. }
  rewrite run_units_spec by exact Hge. cbn [snd]. fold d.
  unfold room in *. rewrite len_take, len_app. destruct (o_fail sk) as [f|].
  - destruct (len c <=? f) eqn:E.
    + rewrite (take_all (N.min (len c) (f - 0))) by lia.
      rewrite take_app_r by lia. f_equal. f_equal. lia.
    + rewrite take_app_l by lia.
      replace (N.min (len d) (f - N.min (N.min (len c) (f - 0)) (len c))) with 0 by lia.
      rewrite take_0, app_nil_r. f_equal. lia.
  - rewrite !take_all by (rewrite ?len_app; lia). reflexivity.
Qed.

Lemma run_wop_result sk op :
  fst (run_wop sk op) =
    if room sk 0 (len (concat (checked op))) =? len (concat (checked op)) then Ok tt else Err (fault_class (o_kind sk)).
Proof.
  unfold run_wop. rewrite run_units_spec by (unfold fail_ge; destruct (o_fail sk); [rewrite len_nil; lia|exact I]).
  rewrite len_nil. reflexivity.
Qed.

(* ------------------------------------------------------------------ readers *)
Definition src_ge (sr : osrc) (n : N) : Prop := match i_fail sr with Some f => n <= f | None => True end.
Definition reach (sr : osrc) (pos want : N) : N :=
  match i_fail sr with Some f => N.min want (f - pos) | None => want end.

Lemma reach_0 sr pos : reach sr pos 0 = 0.
Proof. unfold reach. destruct (i_fail sr); lia. Qed.

Lemma oread_exact_spec sr total : forall fuel pos want,
  (N.to_nat want <= fuel)%nat -> pos + want <= total -> src_ge sr pos ->
  oread_exact fuel sr total pos want =
    (if reach sr pos want =? want then Ok tt else Err E_INJECTED, pos + reach sr pos want).
Proof.
  induction fuel as [|fuel IH]; intros pos want Hf Ht Hge.
  - assert (want = 0) as -> by lia. cbn [oread_exact]. rewrite reach_0, !N.eqb_refl, N.add_0_r. reflexivity.
  - cbn [oread_exact]. destruct (want =? 0) eqn:E0.
    { assert (want = 0) as -> by lia. rewrite reach_0, N.eqb_refl, N.add_0_r. reflexivity. }
    unfold src_ge, reach in *.
    unfold osrc_read.
    set (k0 := N.min want (total - pos)).
    set (k1 := if i_chunk sr =? 0 then k0 else N.min k0 (i_chunk sr)).
    assert (0 < k1 <= want) as Hk1 by (unfold k1, k0; destruct (i_chunk sr =? 0) eqn:E; lia).
    destruct (i_fail sr) as [f|] eqn:Ef.
    + destruct (f <=? pos) eqn:E1.
      * replace (N.min want (f - pos)) with 0 by lia.
        destruct (0 =? want) eqn:E2; [lia|]. f_equal. lia.
      * set (k := N.min k1 (f - pos)).
        assert (0 < k <= want) by (unfold k; lia).
        destruct (k =? 0) eqn:E2; [lia|].
        rewrite IH by lia.
        f_equal; [|lia].
        destruct (N.min (want - k) (f - (pos + k)) =? want - k) eqn:E3;
        destruct (N.min want (f - pos) =? want) eqn:E4; try reflexivity; lia.
    + destruct (k1 =? 0) eqn:E2; [lia|].
      rewrite IH by (lia || exact I). rewrite !N.eqb_refl. f_equal. lia.
Qed.

Lemma run_demands_spec sr total : forall ds pos,
  pos + sumN ds <= total -> src_ge sr pos ->
  run_demands sr total pos ds =
    (if reach sr pos (sumN ds) =? sumN ds then Ok tt else Err E_INJECTED, pos + reach sr pos (sumN ds)).
Proof.
  induction ds as [|d ds IH]; intros pos Ht Hge; cbn [run_demands sumN fold_right] in *.
  - rewrite reach_0, N.eqb_refl, N.add_0_r. reflexivity.
  - fold (sumN ds) in *. rewrite oread_exact_spec by (lia || assumption).
    unfold reach, src_ge in *. destruct (i_fail sr) as [f|] eqn:Ef.
    + destruct (N.min d (f - pos) =? d) eqn:E1.
      * rewrite IH by lia.
        f_equal; [|lia].
        destruct (N.min (sumN ds) (f - (pos + N.min d (f - pos))) =? sumN ds) eqn:E2;
        destruct (N.min (d + sumN ds) (f - pos) =? d + sumN ds) eqn:E3; try reflexivity; lia.
      * destruct (N.min (d + sumN ds) (f - pos) =? d + sumN ds) eqn:E3; [lia|]. f_equal. lia.
    + rewrite N.eqb_refl. rewrite IH by (lia || exact I). rewrite !N.eqb_refl. f_equal. lia.
Qed.

(* ------------------------------------------------------------------ the C34 statements *)
Lemma wop_bytes_nodrop op : at_drop op = [] -> wop_bytes op = concat (checked op).
Proof. intros H. unfold wop_bytes. rewrite H. cbn. apply app_nil_r. Qed.

Lemma write_reports sk op f : at_drop op = [] -> o_fail sk = Some f -> f < len (wop_bytes op) ->
  fst (run_wop sk op) = Err (fault_class (o_kind sk)).
Proof.
  intros Hd Hf Hlt. rewrite run_wop_result. rewrite wop_bytes_nodrop in Hlt by exact Hd.
  unfold room. rewrite Hf. destruct (N.min (len (concat (checked op))) (f - 0) =? len (concat (checked op))) eqn:E; [lia|reflexivity].
Qed.

Lemma ok_all_checked sk op : fst (run_wop sk op) = Ok tt ->
  exists rest, snd (run_wop sk op) = concat (checked op) ++ rest.
Proof.
  rewrite run_wop_result, run_wop_received. unfold room, wop_bytes.
  destruct (o_fail sk) as [f|].
  - destruct (N.min (len (concat (checked op))) (f - 0) =? len (concat (checked op))) eqn:E; [|discriminate].
    intros _. rewrite len_app.
    exists (take (N.min (len (concat (checked op)) + len (concat (at_drop op))) (f - 0) - len (concat (checked op))) (concat (at_drop op))).
    apply take_app_r. lia.
  - intros _. exists (concat (at_drop op)). apply take_all. lia.
Qed.

Lemma no_partial_success sk op : at_drop op = [] -> fst (run_wop sk op) = Ok tt ->
  snd (run_wop sk op) = wop_bytes op.
Proof.
  intros Hd Hok. rewrite run_wop_received. rewrite run_wop_result in Hok.
  rewrite (wop_bytes_nodrop op Hd). unfold room in *.
  destruct (o_fail sk) as [f|]; [|apply take_all; lia].
  destruct (N.min (len (concat (checked op))) (f - 0) =? len (concat (checked op))) eqn:E; [|discriminate].
  apply take_all. lia.
Qed.

Lemma never_panics sk op : is_panic (fst (run_wop sk op)) = false.
Proof.
  rewrite run_wop_result.
  destruct (room sk 0 (len (concat (checked op))) =? len (concat (checked op))); reflexivity.
Qed.

Lemma outside_known sk op : ~ fails_in_drop_phase sk op ->
  (fst (run_wop sk op) = Ok tt -> snd (run_wop sk op) = wop_bytes op) /\
  (forall f, o_fail sk = Some f -> f < len (wop_bytes op) -> fst (run_wop sk op) = Err (fault_class (o_kind sk))).
Proof.
  intros Hk. unfold fails_in_drop_phase in Hk.
  rewrite run_wop_result, run_wop_received. unfold room, wop_bytes in *. rewrite len_app in *.
  destruct (o_fail sk) as [f|].
  - destruct (at_drop op) as [|d ds] eqn:Ed.
    + cbn [concat] in *. rewrite len_nil, app_nil_r, N.add_0_r in *. split.
      * destruct (N.min (len (concat (checked op))) (f - 0) =? len (concat (checked op))) eqn:E; [|discriminate].
        intros _. apply take_all. lia.
      * intros f' Hf' Hlt. injection Hf' as <-.
        destruct (N.min (len (concat (checked op))) (f - 0) =? len (concat (checked op))) eqn:E; [lia|reflexivity].
    + assert (~ (len (concat (checked op)) <= f < len (concat (checked op)) + len (concat (d :: ds)))) as Hn
        by (intros H; apply Hk; split; [discriminate|exact H]).
      split.
      * destruct (N.min (len (concat (checked op))) (f - 0) =? len (concat (checked op))) eqn:E; [|discriminate].
        intros _. apply take_all. rewrite len_app. lia.
      * intros f' Hf' Hlt. injection Hf' as <-.
        destruct (N.min (len (concat (checked op))) (f - 0) =? len (concat (checked op))) eqn:E; [lia|reflexivity].
  - split; [intros _; apply take_all; rewrite len_app; lia|intros f' Hf'; discriminate].
Qed.

Lemma read_reports sr total op f : i_fail sr = Some f -> sumN (demands op) <= total ->
  f < sumN (demands op) \/ (probes_eof op = true /\ f = sumN (demands op)) ->
  fst (run_rop sr total op) = Err E_INJECTED.
Proof.
  intros Hf Ht Hc. unfold run_rop.
  rewrite run_demands_spec by (lia || (unfold src_ge; rewrite Hf; lia)).
  unfold reach. rewrite Hf. cbn [N.add]. rewrite !N.sub_0_r.
  destruct Hc as [Hlt|(Hp & ->)].
  - destruct (N.min (sumN (demands op)) f =? sumN (demands op)) eqn:E; [lia|reflexivity].
  - rewrite N.min_id, N.eqb_refl, Hp. unfold osrc_read. rewrite Hf.
    replace (sumN (demands op) <=? 0 + sumN (demands op)) with true by (symmetry; apply N.leb_le; lia).
    reflexivity.
Qed.

Lemma read_ok_all sr total op : sumN (demands op) <= total ->
  fst (run_rop sr total op) = Ok tt -> snd (run_rop sr total op) = sumN (demands op).
Proof.
  intros Ht. unfold run_rop.
  rewrite run_demands_spec by (lia || (unfold src_ge; destruct (i_fail sr); [lia|exact I])).
  unfold reach. destruct (i_fail sr) as [f|] eqn:Hf.
  - destruct (N.min (sumN (demands op)) (f - 0) =? sumN (demands op)) eqn:E; [|discriminate].
    destruct (probes_eof op).
    + destruct (osrc_read sr total (0 + N.min (sumN (demands op)) (f - 0)) 1); [|discriminate]. intros _. cbn [snd]. lia.
    + intros _. cbn [snd]. lia.
  - rewrite N.eqb_refl. destruct (probes_eof op).
    + destruct (osrc_read sr total (0 + sumN (demands op)) 1); [|discriminate]. intros _. cbn [snd]. lia.
    + intros _. cbn [snd]. lia.
Qed.

Lemma read_never_panics sr total op : sumN (demands op) <= total -> is_panic (fst (run_rop sr total op)) = false.
Proof.
  intros Ht. unfold run_rop.
  rewrite run_demands_spec by (lia || (unfold src_ge; destruct (i_fail sr); [lia|exact I])).
  destruct (reach sr 0 (sumN (demands op)) =? sumN (demands op)); [|reflexivity].
  destruct (probes_eof op); [|reflexivity].
  destruct (osrc_read sr total (0 + reach sr 0 (sumN (demands op))) 1); reflexivity.
Qed.

(* ------------------------------------------------------------------ sources that END early *)
Lemma oread_exact_short sr total : i_fail sr = None -> forall fuel pos want,
  (N.to_nat want <= fuel)%nat -> pos <= total -> total < pos + want ->
  fst (oread_exact fuel sr total pos want) = Err E_UNEXPECTED_EOF.
Proof.
  intros Hn. induction fuel as [|fuel IH]; intros pos want Hf Hp Ht; [lia|].
  cbn [oread_exact]. destruct (want =? 0) eqn:E0; [lia|].
  unfold osrc_read. rewrite Hn.
  set (k0 := N.min want (total - pos)).
  set (k1 := if i_chunk sr =? 0 then k0 else N.min k0 (i_chunk sr)).
  assert (k1 <= k0 /\ (0 < k0 -> 0 < k1)) as (Hk1 & Hk1p) by (unfold k1; destruct (i_chunk sr =? 0) eqn:E; lia).
  destruct (k1 =? 0) eqn:E1; [reflexivity|].
  apply IH; unfold k0 in *; lia.
Qed.

Lemma run_demands_short sr total : i_fail sr = None -> forall ds pos,
  pos <= total -> total < pos + sumN ds ->
  fst (run_demands sr total pos ds) = Err E_UNEXPECTED_EOF.
Proof.
  intros Hn. induction ds as [|d ds IH]; intros pos Hp Ht; cbn [run_demands sumN fold_right] in *; [lia|].
  fold (sumN ds) in *.
  destruct (pos + d <=? total) eqn:E.
  - rewrite oread_exact_spec by (lia || (unfold src_ge; rewrite Hn; exact I)).
    unfold reach. rewrite Hn, N.eqb_refl. apply IH; lia.
  - pose proof (oread_exact_short sr total Hn (N.to_nat d) pos d (le_n _) Hp) as H.
    destruct (oread_exact (N.to_nat d) sr total pos d) as [r p]. cbn [fst] in H. rewrite H by lia. reflexivity.
Qed.

Lemma read_reports_early_end sr total op : i_fail sr = None -> total < sumN (demands op) ->
  fst (run_rop sr total op) = Err E_UNEXPECTED_EOF.
Proof.
  intros Hn Ht. unfold run_rop.
  pose proof (run_demands_short sr total Hn (demands op) 0) as H.
  destruct (run_demands sr total 0 (demands op)) as [r p]. cbn [fst] in H. rewrite H by lia. reflexivity.
Qed.
