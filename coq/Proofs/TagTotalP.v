(** Totality (no panic) of the text parsers of Model/TagText.v on every valid
    string: parse_tag, by_expr, parse_selector (release builds; in debug builds
    the only panic is the debug assertion of AttributeSelector::new),
    TagRange::from_str, VR::from_str. *)
From DicomV Require Import Base.RustStr Proofs.StrP Proofs.RustStrP Model.TagText Proofs.TagTextP.
From Coq Require Import ZifyBool ZifyNat ZifyN.

(** ---- [ascii_sync] is closed under prefixes, hence under every slice *)
Lemma nth_error_firstn_some {A} k (s : list A) i b :
  nth_error (firstn k s) i = Some b -> nth_error s i = Some b.
Proof.
  revert s i; induction k as [|k IH]; intros [|x s] [|i]; cbn; try discriminate; auto.
Qed.

Lemma ascii_sync_firstn s k : ascii_sync s -> ascii_sync (firstn k s).
Proof.
  intros H i b Hi Hb. apply nth_error_firstn_some in Hi. specialize (H i b Hi Hb).
  destruct (nth_error (firstn k s) (S i)) as [b'|] eqn:E; [|exact I].
  apply nth_error_firstn_some in E. rewrite E in H. exact H.
Qed.

Lemma ascii_sync_app_l a b : ascii_sync (a ++ b) -> ascii_sync a.
Proof. intros H. rewrite <- (firstn_app_at a b). apply ascii_sync_firstn. exact H. Qed.

Lemma ascii_sync_nil : ascii_sync [].
Proof. intros [|i] b H; discriminate. Qed.

Lemma ascii_sync_tail c s : ascii_sync (c :: s) -> ascii_sync s.
Proof. intros H. exact (ascii_sync_skipn (c :: s) 1 H). Qed.

Lemma slice_ok_sync s a b x : ascii_sync s -> slice s a b = Ok x -> ascii_sync x.
Proof.
  unfold slice. intros H. destruct (_ && _); [|discriminate]. intros E; inversion E; subst.
  apply ascii_sync_firstn, ascii_sync_skipn. exact H.
Qed.

(** ---- the parts produced by [split] are sub-strings *)
Lemma split_on_head_prefix sep s :
  exists p ps tail, split_on sep s = p :: ps /\ s = p ++ tail.
Proof.
  induction s as [|c s IH]; cbn [split_on].
  - exists [], [], []. split; reflexivity.
  - destruct (c =? sep).
    + exists [], (split_on sep s), (c :: s). split; reflexivity.
    + destruct IH as [p [ps [tail [E ->]]]]. rewrite E. exists (c :: p), ps, tail. split; reflexivity.
Qed.

Lemma split_on_sync sep s : ascii_sync s -> Forall ascii_sync (split_on sep s).
Proof.
  induction s as [|c s IH]; intros H; cbn [split_on].
  - constructor; [apply ascii_sync_nil|constructor].
  - specialize (IH (ascii_sync_tail _ _ H)). destruct (c =? sep).
    + constructor; [apply ascii_sync_nil|exact IH].
    + destruct (split_on_head_prefix sep s) as [p [ps [tail [E Es]]]]. rewrite E in IH |- *.
      inversion IH; subst. constructor; [|assumption].
      apply (ascii_sync_app_l (c :: p) tail). exact H.
Qed.

(** ---- positions of ASCII bytes are boundaries *)
Lemma boundary_at s i b : nth_error s i = Some b -> is_cont b = false -> is_char_boundary s i = true.
Proof. intros E C. unfold is_char_boundary. destruct i; [reflexivity|]. rewrite E, C. reflexivity. Qed.

Lemma find_byte_nth c s i : find_byte c s = Some i -> nth_error s i = Some c.
Proof.
  revert i; induction s as [|b s IH]; intros i; cbn [find_byte]; [discriminate|].
  destruct (N.eqb_spec b c) as [->|].
  - intros E; inversion E; reflexivity.
  - destruct (find_byte c s) as [j|]; cbn; [|discriminate]. intros E; inversion E; subst. cbn. apply IH. reflexivity.
Qed.

Lemma ends_with_last c s :
  ends_with c s = true -> nth_error s (length s - 1) = Some c /\ (1 <= length s)%nat.
Proof.
  unfold ends_with. intros H. destruct (starts_with_inv _ _ H) as [r E].
  assert (Es : s = rev r ++ [c]) by (rewrite <- (rev_involutive s), E; reflexivity).
  subst s. rewrite app_length. cbn [length]. split; [|lia].
  replace (length (rev r) + 1 - 1)%nat with (length (rev r)) by lia. apply nth_error_app_at.
Qed.

(** ---- parse_tag, by_expr *)
Section Dict.
  Variable by_name : bytes -> option tag.

  Lemma parse_tag_dict_no_panic s w : ascii_sync s -> parse_tag_dict by_name s <> Panic w.
  Proof.
    intros H. unfold parse_tag_dict. destruct (tag_from_str s) as [t|e|w'] eqn:E; try discriminate.
    exfalso. exact (tag_from_str_no_panic s w' H E).
  Qed.

  Lemma parse_part_no_panic part w : ascii_sync part -> parse_part by_name part <> Panic w.
  Proof.
    intros H. unfold parse_part. destruct (ends_with rbracket part) eqn:EW.
    - destruct (find_byte lbracket part) as [i|] eqn:F; [|discriminate].
      apply find_byte_nth in F. destruct (ends_with_last _ _ EW) as [L Hlen].
      assert (Hi : (i < length part)%nat) by (apply nth_error_Some; congruence).
      assert (Hne : i <> (length part - 1)%nat) by (intros ->; rewrite L in F; discriminate).
      assert (Bi : is_char_boundary part i = true) by (eapply boundary_at; [exact F|reflexivity]).
      assert (BL : is_char_boundary part (length part - 1) = true) by (eapply boundary_at; [exact L|reflexivity]).
      assert (BS : is_char_boundary part (S i) = true).
      { pose proof (H i lbracket F ltac:(reflexivity)) as N1.
        destruct (nth_error part (S i)) as [b'|] eqn:E1.
        - eapply boundary_at; [exact E1|exact N1].
        - apply nth_error_None in E1. lia. }
      unfold slice at 1. cbn [Nat.leb is_char_boundary andb]. rewrite Bi. cbn [bind].
      unfold slice at 1. rewrite BS, BL.
      replace (Nat.leb (S i) (length part - 1)) with true by (symmetry; apply Nat.leb_le; lia).
      cbn [andb bind].
      destruct (parse_tag_dict by_name (firstn (i - 0) (skipn 0 part))) as [ot|e|w'] eqn:P; cbn [bind]; try discriminate.
      + destruct ot; [|discriminate]. destruct (uint_from_str_radix 10 u32_max _); discriminate.
      + exfalso. refine (parse_tag_dict_no_panic _ w' _ P). apply ascii_sync_firstn, ascii_sync_skipn. exact H.
    - destruct (parse_tag_dict by_name part) as [ot|e|w'] eqn:P; cbn [bind]; try discriminate.
      + destruct ot; discriminate.
      + exfalso. exact (parse_tag_dict_no_panic _ w' H P).
  Qed.

  Lemma parse_parts_no_panic parts w : Forall ascii_sync parts -> parse_parts by_name parts <> Panic w.
  Proof.
    induction 1 as [|p ps Hp _ IH]; cbn [parse_parts]; [discriminate|].
    destruct (parse_part by_name p) as [st|e|w'] eqn:P; cbn [bind]; try discriminate.
    - destruct (parse_parts by_name ps) as [r|e|w''] eqn:Q; cbn [bind]; try discriminate.
      intros E; inversion E; subst. apply IH. reflexivity.
    - exfalso. exact (parse_part_no_panic _ w' Hp P).
  Qed.

  Lemma parse_parts_length parts steps : parse_parts by_name parts = Ok steps -> length steps = length parts.
  Proof.
    revert steps; induction parts as [|p ps IH]; intros steps; cbn [parse_parts].
    - intros E; inversion E; reflexivity.
    - destruct (parse_part by_name p); cbn [bind]; try discriminate.
      destruct (parse_parts by_name ps) as [r| |]; cbn [bind]; try discriminate.
      intros E; inversion E; subst. cbn. rewrite (IH r eq_refl). reflexivity.
  Qed.

  (** The only panic the selector parser can raise on a valid string is the
      debug assertion of AttributeSelector::new, in a debug build, for a text
      of 256 or more parts. *)
  Theorem parse_selector_panic_only_debug dbg s w :
    ascii_sync s -> parse_selector by_name dbg s = Panic w ->
    dbg = true /\ w = P_debug_assert /\ (256 <= length (split_on dot s))%nat.
  Proof.
    intros H. unfold parse_selector.
    destruct (parse_parts by_name (split_on dot s)) as [steps|e|w'] eqn:P; cbn [bind]; try discriminate.
    - unfold selector_new. destruct (dbg && Nat.leb 256 (length steps)) eqn:G; cbn [bind].
      + intros E; inversion E; subst. apply andb_true_iff in G as [-> G]. apply Nat.leb_le in G.
        rewrite (parse_parts_length _ _ P) in G. auto.
      + destruct (normalise steps); discriminate.
    - intros E. exfalso. exact (parse_parts_no_panic _ w' (split_on_sync dot s H) P).
  Qed.

  Theorem parse_selector_release_total s w : ascii_sync s -> parse_selector by_name false s <> Panic w.
  Proof.
    intros H E. destruct (parse_selector_panic_only_debug false s w H E) as [X _]. discriminate.
  Qed.
End Dict.

Theorem by_expr_no_panic {E} (by_tag : tag -> option E) by_name_e s w :
  ascii_sync s -> by_expr by_tag by_name_e s <> Panic w.
Proof.
  intros H. unfold by_expr. destruct (tag_from_str s) as [t|e|w'] eqn:P; try discriminate.
  exfalso. exact (tag_from_str_no_panic s w' H P).
Qed.

(** ---- TagRange::from_str *)
Lemma radix16_no_panic e s w : radix16_u16 e s <> Panic w.
Proof. unfold radix16_u16. destruct (uint_from_str_radix 16 u16_max s); discriminate. Qed.

Lemma slice_xx_prefix g : bytes_eqb (skipn 2 g) xx = true -> exists p, slice g 0 2 = Ok p.
Proof.
  intros H. apply bytes_eqb_eq in H.
  assert (N2 : nth_error g 2 = Some 120).
  { pose proof (nth_error_skipn g 2 0) as K. rewrite H in K. cbn in K. symmetry. exact K. }
  unfold slice. rewrite (boundary_at g 2 120 N2 ltac:(reflexivity)). cbn [Nat.leb is_char_boundary andb]. eauto.
Qed.

Theorem tag_range_no_panic s w : ascii_sync s -> tag_range_from_str s <> Panic w.
Proof.
  intros H. unfold tag_range_from_str.
  assert (S1 : exists s1, (if starts_with lparen s && ends_with rparen s
                           then slice s 1 (length s - 1) else Ok s) = Ok s1).
  { destruct (starts_with lparen s && ends_with rparen s) eqn:G; [|eauto].
    apply andb_true_iff in G as [G1 G2]. destruct (ends_with_last _ _ G2) as [L Hlen].
    destruct (starts_with_inv _ _ G1) as [r E].
    assert (Hl2 : (2 <= length s)%nat).
    { subst s. destruct r; [cbn in L; inversion L|cbn; lia]. }
    unfold slice.
    rewrite (boundary_after_ascii s lparen H G1) by reflexivity.
    rewrite (boundary_at s _ rparen L) by reflexivity.
    replace (Nat.leb 1 (length s - 1)) with true by (symmetry; apply Nat.leb_le; lia). cbn [andb]. eauto. }
  destruct S1 as [s1 ->]. cbn [bind].
  destruct (split_on comma s1) as [|g [|e rest]]; try discriminate.
  destruct (Nat.eqb (length g) 4); cbn [negb]; [|discriminate].
  destruct (Nat.eqb (length e) 4); cbn [negb]; [|discriminate].
  destruct (bytes_eqb (skipn 2 g) xx) eqn:GX; destruct (bytes_eqb (skipn 2 e) xx) eqn:EX; cbn [andb]; try discriminate.
  - destruct (slice_xx_prefix g GX) as [p ->]. cbn [bind].
    destruct (radix16_u16 E_tr_group p) as [x|?|w'] eqn:R1; cbn [bind]; try discriminate;
      [|exfalso; exact (radix16_no_panic _ _ _ R1)].
    destruct (radix16_u16 E_tr_element e) as [y|?|w'] eqn:R2; cbn [bind]; try discriminate.
    exfalso; exact (radix16_no_panic _ _ _ R2).
  - destruct (radix16_u16 E_tr_group g) as [x|?|w'] eqn:R1; cbn [bind]; try discriminate;
      [|exfalso; exact (radix16_no_panic _ _ _ R1)].
    destruct (slice_xx_prefix e EX) as [p ->]. cbn [bind].
    destruct (radix16_u16 E_tr_element p) as [y|?|w'] eqn:R2; cbn [bind]; try discriminate.
    exfalso; exact (radix16_no_panic _ _ _ R2).
  - destruct (radix16_u16 E_tr_group g) as [x|?|w'] eqn:R1; cbn [bind]; try discriminate;
      [|exfalso; exact (radix16_no_panic _ _ _ R1)].
    destruct (radix16_u16 E_tr_element e) as [y|?|w'] eqn:R2; cbn [bind]; try discriminate.
    exfalso; exact (radix16_no_panic _ _ _ R2).
Qed.

(** ---- VR::from_str *)
Theorem vr_from_str_no_panic s w : vr_from_str s <> Panic w.
Proof.
  unfold vr_from_str. destruct s as [|a [|b [|? ?]]]; try discriminate.
  destruct (existsb _ vr_codes); discriminate.
Qed.
