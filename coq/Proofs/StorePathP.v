(** Lemmas about Model.StorePath (C32). *)
From DicomV Require Import Base.Str Proofs.StrP Model.StorePath.
From Coq Require Import ZifyBool ZifyNat ZifyN.

(** ** split_on over a separator in the middle *)
Lemma split_on_app_sep sep a b :
  split_on sep (a ++ sep :: b) = split_on sep a ++ split_on sep b.
Proof.
  induction a as [|c a IH]; cbn.
  - rewrite N.eqb_refl. reflexivity.
  - destruct (c =? sep); [rewrite IH; reflexivity|].
    rewrite IH. pose proof (split_on_nonempty sep a) as Hne.
    destruct (split_on sep a) as [|p ps]; [congruence|]. reflexivity.
Qed.

Lemma split_on_single sep s : ~ In sep s -> split_on sep s = [s].
Proof. intros H. apply split_on_nosep. exact H. Qed.

(** ** the file name *)
Lemma sanitize_safe c : safe_char (sanitize c) = true.
Proof. unfold sanitize. destruct (safe_char c) eqn:E; [exact E|reflexivity]. Qed.

Lemma safe_not_slash c : safe_char c = true -> c <> slash.
Proof. intros H ->. discriminate H. Qed.
Lemma safe_not_nul c : safe_char c = true -> c <> nul.
Proof. intros H ->. discriminate H. Qed.

Lemma sanitized_no c s : (forall x, safe_char x = true -> x <> c) -> ~ In c (map sanitize s).
Proof.
  intros Hc Hin. apply in_map_iff in Hin. destruct Hin as [x [Hx _]].
  apply (Hc (sanitize x)); [apply sanitize_safe|exact Hx].
Qed.

Lemma file_name_no_slash uid : ~ In slash (file_name uid).
Proof.
  unfold file_name. intros H. apply in_app_or in H. destruct H as [H|H].
  - revert H. apply sanitized_no. exact safe_not_slash.
  - cbn in H. unfold slash in H. repeat (destruct H as [H|H]; [discriminate H|]). exact H.
Qed.

Lemma file_name_no_nul uid : ~ In nul (file_name uid).
Proof.
  unfold file_name. intros H. apply in_app_or in H. destruct H as [H|H].
  - revert H. apply sanitized_no. exact safe_not_nul.
  - cbn in H. unfold nul in H. repeat (destruct H as [H|H]; [discriminate H|]). exact H.
Qed.

Lemma file_name_length uid : (4 <= length (file_name uid))%nat.
Proof. unfold file_name. rewrite app_length. cbn. lia. Qed.

Theorem file_name_normal uid : normal_name (file_name uid).
Proof.
  pose proof (file_name_length uid) as L.
  unfold normal_name. repeat split.
  - intros E. rewrite E in L. cbn in L. lia.
  - intros E. rewrite E in L. cbn in L. lia.
  - intros E. rewrite E in L. cbn in L. lia.
  - apply file_name_no_slash.
  - apply file_name_no_nul.
Qed.

Lemma file_name_not_absolute uid : is_absolute (file_name uid) = false.
Proof.
  pose proof (file_name_no_slash uid) as H. destruct (file_name uid) as [|c s]; [reflexivity|].
  cbn. destruct (N.eqb_spec c slash) as [->|]; [exfalso; apply H; left; reflexivity|reflexivity].
Qed.

Lemma normal_nameb_spec c : normal_nameb c = true <-> normal_name c.
Proof.
  unfold normal_nameb, normal_name, no_charb.
  rewrite !andb_true_iff, !negb_true_iff.
  assert (Hex : forall x, existsb (N.eqb x) c = false <-> ~ In x c).
  { intros x. split.
    - intros E Hin. assert (existsb (N.eqb x) c = true); [|congruence].
      apply existsb_exists. exists x. split; [exact Hin|apply N.eqb_refl].
    - intros Hn. destruct (existsb (N.eqb x) c) eqn:E; [|reflexivity].
      apply existsb_exists in E. destruct E as [y [Hy Exy]]. apply N.eqb_eq in Exy. subst. contradiction. }
  assert (Hl : forall l, list_eqb N.eqb c l = false <-> c <> l).
  { intros l. split.
    - intros E ->. assert (list_eqb N.eqb l l = true); [|congruence]. apply str_eqb_spec. reflexivity.
    - intros Hn. destruct (list_eqb N.eqb c l) eqn:E; [|reflexivity]. apply str_eqb_spec in E. contradiction. }
  rewrite !Hl, !Hex. tauto.
Qed.

(** ** pushing a normal name and walking the result *)
Lemma comp_step_normal acc c : normal_name c -> comp_step acc c = acc ++ [c].
Proof.
  intros [H0 [H1 [H2 _]]]. unfold comp_step.
  destruct c as [|x [|y [|z c]]]; try congruence; try reflexivity.
  - destruct (N.eq_dec x 46) as [->|Hx]; [congruence|].
    destruct x as [|p]; [reflexivity|].
    do 6 (destruct p as [p|p|]; try reflexivity). congruence.
  - destruct (N.eq_dec x 46) as [->|Hx].
    + destruct (N.eq_dec y 46) as [->|Hy]; [congruence|].
      destruct y as [|p]; [reflexivity|].
      do 6 (destruct p as [p|p|]; try reflexivity). congruence.
    + destruct x as [|p]; [reflexivity|].
      do 6 (destruct p as [p|p|]; try reflexivity). congruence.
  - destruct x as [|p]; [reflexivity|].
    do 6 (destruct p as [p|p|]; try reflexivity).
    destruct y as [|q]; [reflexivity|].
    do 6 (destruct q as [q|q|]; try reflexivity).
Qed.

Lemma resolve_from_push_sep start out f :
  normal_name f -> resolve_from start (out ++ slash :: f) = resolve_from start out ++ [f].
Proof.
  intros Hf. unfold resolve_from. rewrite split_on_app_sep, fold_left_app.
  destruct Hf as [H0 [H1 [H2 [Hs Hn]]]].
  rewrite (split_on_single slash f Hs). cbn [fold_left].
  apply comp_step_normal. repeat split; assumption.
Qed.

Lemma is_absolute_app a b : a <> [] -> is_absolute (a ++ b) = is_absolute a.
Proof. destruct a; [congruence|reflexivity]. Qed.

Lemma need_sep_true_nonempty s : need_sep s = true -> s <> [].
Proof. intros H ->. discriminate H. Qed.

Lemma need_sep_false s : need_sep s = false -> s = [] \/ exists s', s = s' ++ [slash].
Proof.
  unfold need_sep. intros H. destruct (rev s) as [|c r] eqn:E.
  - left. rewrite <- (rev_involutive s), E. reflexivity.
  - right. exists (rev r). apply negb_false_iff, N.eqb_eq in H. subst c.
    rewrite <- (rev_involutive s), E. reflexivity.
Qed.

Theorem resolve_push_normal cwd out f :
  normal_name f -> is_absolute f = false ->
  resolve cwd (path_push out f) = resolve cwd out ++ [f].
Proof.
  intros Hf Hna. unfold path_push. rewrite Hna.
  destruct (need_sep out) eqn:Ens.
  - unfold resolve. rewrite is_absolute_app by (apply need_sep_true_nonempty; exact Ens).
    destruct (is_absolute out); apply resolve_from_push_sep; exact Hf.
  - destruct (need_sep_false out Ens) as [->|[o ->]].
    + cbn [app]. unfold resolve. rewrite Hna. cbn [is_absolute].
      unfold resolve_from. destruct Hf as [H0 [H1 [H2 [Hs Hn]]]].
      rewrite (split_on_single slash f Hs). cbn [split_on fold_left].
      apply comp_step_normal. repeat split; assumption.
    + rewrite <- app_assoc. cbn [app].
      assert (Habs : is_absolute (o ++ slash :: f) = is_absolute (o ++ [slash])).
      { destruct o; reflexivity. }
      unfold resolve. rewrite Habs.
      assert (Hr : forall st, resolve_from st (o ++ [slash]) = resolve_from st o).
      { intros st. unfold resolve_from. rewrite split_on_app_sep, fold_left_app. reflexivity. }
      destruct (is_absolute (o ++ [slash])); rewrite Hr; apply resolve_from_push_sep; exact Hf.
Qed.

Theorem store_path_inside cwd out uid :
  resolve cwd (store_path out uid) = resolve cwd out ++ [file_name uid].
Proof.
  unfold store_path. apply resolve_push_normal; [apply file_name_normal|apply file_name_not_absolute].
Qed.

(** ** the P-DATA loop *)
Section LoopP.
  Variable out : str.
  Variable pcs : list (N * str).
  Variable parse_ds : str -> bytes -> option (str * str * bytes).
  Variable name_max : N.

  Notation step := (step out pcs parse_ds name_max).
  Notation run := (run out pcs parse_ds name_max).

  Definition from_store_path (f : stored) : Prop := exists uid, s_path f = store_path out uid.

  Lemma step_files s v s' o :
    step s v = Ok (s', o) -> Forall from_store_path (files_of o).
  Proof.
    unfold Model.StorePath.step. destruct v as [last pc c|last pc d].
    - destruct last; [destruct c|]; intros H; inversion H; subst; cbn; constructor.
    - destruct last.
      + destruct (find_pc pcs pc); [|discriminate].
        destruct (parse_ds s0 (st_buf s ++ d)) as [[[cl ins] wr]|]; [|discriminate].
        destruct (name_max <? N.of_nat (length (file_name (st_inst s)))); [discriminate|].
        intros H; inversion H; subst; cbn. constructor; [|constructor].
        exists (st_inst s). reflexivity.
      + intros H; inversion H; subst; cbn; constructor.
  Qed.

  Lemma files_of_app a b : files_of (a ++ b) = files_of a ++ files_of b.
  Proof. unfold files_of. apply flat_map_app. Qed.

  Theorem run_files_from_store_path vs : forall s,
    Forall from_store_path (files_of (fst (run s vs))).
  Proof.
    induction vs as [|v vs IH]; intros s; cbn; [constructor|].
    destruct (step s v) as [[s' o]|e|w] eqn:E; cbn; try constructor.
    specialize (IH s'). destruct (run s' vs) as [os e]. cbn in *.
    rewrite files_of_app. apply Forall_app. split; [eapply step_files; exact E|exact IH].
  Qed.

  (** the non-last data fragments only grow the buffer *)
  Lemma run_chunks pc chunks : forall s rest,
    run s (map (PData false pc) chunks ++ rest)
    = run (mk_state (st_buf s ++ concat chunks) (st_msgid s) (st_class s) (st_inst s)) rest.
  Proof.
    induction chunks as [|c cs IH]; intros s rest; cbn [map app concat].
    - rewrite app_nil_r. destruct s; reflexivity.
    - cbn [Model.StorePath.run Model.StorePath.step]. rewrite IH. cbn [st_buf st_msgid st_class st_inst].
      rewrite app_assoc. destruct (run _ rest); reflexivity.
  Qed.

  Definition expected (m : message) : list output :=
    match find_pc pcs (m_pc m) with
    | Some ts =>
        match parse_ds ts (m_data m) with
        | Some (cl, ins, wr) =>
            [Stored (mk_stored (store_path out (m_inst m)) ts cl ins wr);
             StoreRsp (m_pc m) (m_msgid m) (m_class m) (m_inst m)]
        | None => []
        end
    | None => []
    end.

  Definition storable (m : message) : Prop :=
    (exists ts, find_pc pcs (m_pc m) = Some ts /\ parse_ds ts (m_data m) <> None)
    /\ N.of_nat (length (file_name (m_inst m))) <= name_max.

  Lemma run_message m : storable m -> forall s rest,
    run s (pdvs_of m ++ rest)
    = let '(os, e) := run (mk_state (m_data m) (m_msgid m) (m_class m) (m_inst m)) rest in
      (expected m ++ os, e).
  Proof.
    intros [[ts [Hpc Hparse]] Hlen] s rest. unfold pdvs_of, expected.
    cbn [app Model.StorePath.run Model.StorePath.step].
    rewrite <- app_assoc, run_chunks. cbn [st_buf st_msgid st_class st_inst app].
    cbn [Model.StorePath.run Model.StorePath.step st_buf st_msgid st_class st_inst app].
    unfold m_data. rewrite Hpc.
    destruct (parse_ds ts (concat (m_chunks m) ++ m_last m)) as [[[cl ins] wr]|] eqn:Ep; [|exfalso; apply Hparse; exact Ep].
    assert (Hlt : (name_max <? N.of_nat (length (file_name (m_inst m)))) = false) by lia.
    rewrite Hlt. destruct (run _ rest) as [os e]. reflexivity.
  Qed.

  Theorem run_messages msgs : Forall storable msgs -> forall s,
    run s (flat_map pdvs_of msgs) = (flat_map expected msgs, None).
  Proof.
    induction 1 as [|m ms Hm Hms IH]; intros s; [reflexivity|].
    cbn [flat_map]. rewrite run_message by exact Hm. rewrite IH. reflexivity.
  Qed.

  Lemma expected_files m ts cl ins wr :
    find_pc pcs (m_pc m) = Some ts -> parse_ds ts (m_data m) = Some (cl, ins, wr) ->
    files_of (expected m) = [mk_stored (store_path out (m_inst m)) ts cl ins wr].
  Proof. intros H1 H2. unfold expected. rewrite H1, H2. reflexivity. Qed.
End LoopP.
