(** C02, value and element level: re-encoding what was read from a canonical
    value field reproduces the element byte for byte. *)
From Coq Require Import ZifyBool ZifyNat ZifyN Sorting.Sorted.
From DicomV Require Import Base.Endian Model.Vr Model.Header Model.Prim Model.Dataset Model.Writer Model.Reader
  Spec.Ps35 Proofs.HeaderP Proofs.PrimP Proofs.WriterP Proofs.ValidP Proofs.FlatP Proofs.ValueP Proofs.ReaderP
  Proofs.RoundTripP.
Open Scope N_scope.

(** word size of the fixed-width binary VRs (0: not a fixed-width VR) *)
Definition word_size (v : vr) : nat :=
  match v with
  | US | SS | OW => 2 | UL | SL | OL | FL | OF | AT => 4 | UV | SV | OV | FD | OD => 8 | _ => 0
  end.

(** A canonical value field of VR [v] (PS3.5: even length, a whole number of
    words for the fixed-width VRs incl. AT, bytes are bytes). *)
Definition canon_val (c : codec) (v : vr) (val : bytes) : Prop :=
  wf_bytes val /\ blen val mod 2 = 0 /\ blen val < 4294967295 /\
  (c <> ILE -> ps35_len16 v = true -> blen val <= 65535) /\
  v <> SQ /\
  (word_size v <> O -> exists n, length val = (n * word_size v)%nat).

Lemma latin1_enc_wf s : wf_bytes s -> latin1_enc s = Ok s.
Proof.
  intros H. unfold latin1_enc. replace (forallb (fun c => c <? 256) s) with true; [reflexivity|].
  symmetry. apply forallb_forall. intros x Hx. unfold wf_bytes in H. rewrite Forall_forall in H.
  apply N.ltb_lt. apply H. exact Hx.
Qed.

Lemma split_wf b : wf_bytes b -> Forall wf_bytes (split_on_byte 92 b).
Proof.
  induction b as [|x b IH]; intros H; [repeat constructor|].
  inversion H as [|? ? Hx Hb]; subst. specialize (IH Hb). cbn [split_on_byte].
  destruct (x =? 92).
  - constructor; [constructor | exact IH].
  - destruct (split_on_byte 92 b) as [|h t]; [repeat constructor; exact Hx|].
    inversion IH; subst. constructor; [constructor; assumption | assumption].
Qed.

Lemma latin1_enc_all_wf l : Forall wf_bytes l -> latin1_enc_all l = Ok l.
Proof.
  induction 1 as [|s l Hs Hl IH]; [reflexivity|]. cbn [latin1_enc_all].
  rewrite latin1_enc_wf by exact Hs. rewrite IH. reflexivity.
Qed.

Lemma pad_even_even pad b : blen b mod 2 = 0 -> pad_even pad b = b.
Proof.
  intros H. unfold pad_even. destruct (Nat.odd (length b)) eqn:O; [|reflexivity].
  pose proof (odd_mod2 b O). lia.
Qed.

Lemma enc_text_value_canon c t v val :
  blen val mod 2 = 0 -> blen val < 4294967295 -> (c <> ILE -> ps35_len16 v = true -> blen val <= 65535) ->
  enc_text_value c t v val = Ok (ps35_header c t v (blen val) ++ val).
Proof.
  intros E L S. unfold enc_text_value. rewrite pad_even_even by exact E.
  rewrite N.mod_small by lia. rewrite st_enc_header_defined by assumption. reflexivity.
Qed.

Lemma enc_binary_canon c t v p val :
  fst (enc_prim c p) = val -> calc_byte_len p = blen val ->
  blen val mod 2 = 0 -> blen val < 4294967295 -> (c <> ILE -> ps35_len16 v = true -> blen val <= 65535) ->
  enc_binary c t v p = Ok (ps35_header c t v (blen val) ++ val).
Proof.
  intros F C E L S. unfold enc_binary. pose proof (enc_prim_count c p) as K.
  destruct (enc_prim c p) as [b n]. cbn [fst snd] in *. subst b n.
  rewrite C, N.mod_small by lia. rewrite st_enc_header_defined by assumption.
  replace (N.odd (blen val)) with false; [rewrite List.app_nil_r; reflexivity|].
  symmetry. destruct (N.odd (blen val)) eqn:O; [|reflexivity].
  apply N.odd_spec in O. destruct O as [m Hm]. rewrite Hm in E.
  replace (2 * m + 1) with (1 + m * 2) in E by lia. rewrite N.mod_add in E by discriminate. discriminate.
Qed.

Lemma dec_words_length c k n b : length (dec_words c k n b) = n.
Proof. unfold dec_words. rewrite map_length. revert b. induction n; intros b; cbn; [reflexivity|]. rewrite IHn. reflexivity. Qed.

(** Words: the decoded numbers re-encode to the same bytes. *)
Lemma words_canon c t v val k n (mk : list N -> prim) :
  length val = (n * k)%nat -> (k = 2 \/ k = 4 \/ k = 8)%nat -> wf_bytes val ->
  (forall l, fst (enc_prim c (mk l)) = enc_words c k l) ->
  (forall l, calc_byte_len (mk l) = nlen l * N.of_nat k) ->
  blen val mod 2 = 0 -> blen val < 4294967295 -> (c <> ILE -> ps35_len16 v = true -> blen val <= 65535) ->
  enc_binary c t v (mk (dec_words c k (Nat.div (length val) k) val)) = Ok (ps35_header c t v (blen val) ++ val).
Proof.
  intros Len Hk W F C E L S.
  assert (D : Nat.div (length val) k = n).
  { rewrite Len. apply Nat.div_mul. destruct Hk as [ -> | [ -> | -> ] ]; discriminate. }
  rewrite D. apply enc_binary_canon; try assumption.
  - rewrite F. apply enc_words_dec_words; assumption.
  - rewrite C. unfold nlen, blen. rewrite dec_words_length, Len. lia.
Qed.

(** Attribute tags: the decoded (group, element) pairs re-encode to the same bytes. *)
Lemma u16_word c n : u16 c n = word c 2 n.
Proof. destruct c; reflexivity. Qed.

Lemma tags_canon_bytes c n val :
  length val = (n * 4)%nat -> wf_bytes val ->
  flat_map (fun t : tag => u16 c (fst t) ++ u16 c (snd t))
    (map (fun w => (rd c (firstn 2 w), rd c (skipn 2 w))) (chunks 4 n val)) = val.
Proof.
  intros Len W. rewrite flat_map_concat_map, map_map. rewrite <- (chunks_concat 4 n val Len) at 2. f_equal.
  pose proof (chunks_Forall 4 n val Len W) as F.
  induction F as [|w l [Hw1 Hw2] Hl IH]; [reflexivity|]. cbn [map]. rewrite IH. f_equal. cbn [fst snd].
  rewrite !u16_word.
  assert (W1 : wf_bytes (firstn 2 w) /\ wf_bytes (skipn 2 w)).
  { unfold wf_bytes in *. rewrite <- (firstn_skipn 2 w) in Hw2. apply Forall_app in Hw2. exact Hw2. }
  rewrite (word_rd c 2 (firstn 2 w)) by (try apply firstn_length_le; try lia; tauto).
  rewrite (word_rd c 2 (skipn 2 w)) by (try (rewrite skipn_length; lia); tauto).
  apply firstn_skipn.
Qed.

Lemma tags_canon c t v val n :
  length val = (n * 4)%nat -> wf_bytes val ->
  (match v with DS | IS => False | _ => True end) ->
  blen val mod 2 = 0 -> blen val < 4294967295 -> (c <> ILE -> ps35_len16 v = true -> blen val <= 65535) ->
  enc_binary c t v (PTags (map (fun w => (rd c (firstn 2 w), rd c (skipn 2 w))) (chunks 4 (Nat.div (length val) 4) val)))
  = Ok (ps35_header c t v (blen val) ++ val).
Proof.
  intros Len W Hv E L S.
  assert (D : Nat.div (length val) 4 = n) by (rewrite Len; apply Nat.div_mul; discriminate).
  rewrite D. apply enc_binary_canon; try assumption.
  - cbn [enc_prim fst]. apply tags_canon_bytes; assumption.
  - cbn [calc_byte_len]. unfold nlen, blen. rewrite map_length.
    assert (CL : forall m b, length (chunks 4 m b) = m) by (induction m; intros; cbn; [reflexivity | rewrite IHm; reflexivity]).
    rewrite CL, Len. lia.
Qed.

(** C02 at element level: the element read from a canonical value field is
    re-encoded to exactly the same bytes. *)
Lemma rewrite_element c t v val p :
  canon_val c v val -> back_value c v val = Ok p ->
  enc_prim_element c t v p = Ok (ps35_header c t v (blen val) ++ val).
Proof.
  intros (W & E & L & S & Hsq & Hw) B. unfold back_value in B.
  destruct (blen val =? 0) eqn:Z.
  - (* empty value *)
    inversion B; subst p. apply N.eqb_eq in Z.
    assert (val = []) by (destruct val; [reflexivity | unfold blen in Z; cbn in Z; lia]). subst val.
    assert (G : enc_prim_element c t v PEmpty = st_enc_header c t v 0 \/
                enc_prim_element c t v PEmpty = enc_binary c t v PEmpty).
    { destruct v; cbn; auto. }
    destruct G as [G|G]; rewrite G.
    + rewrite st_enc_header_defined by (lia || reflexivity || (intros; lia)). rewrite List.app_nil_r. reflexivity.
    + apply enc_binary_canon; try reflexivity; try assumption; lia.
  - assert (TXT : enc_prim_element c t v (PStrs (split_on_byte 92 val)) = Ok (ps35_header c t v (blen val) ++ val)).
    { cbn [enc_prim_element]. rewrite latin1_enc_all_wf by (apply split_wf; exact W).
      rewrite join_split. apply enc_text_value_canon; assumption. }
    assert (STR : enc_prim_element c t v (PStr val) = Ok (ps35_header c t v (blen val) ++ val)).
    { cbn [enc_prim_element]. rewrite latin1_enc_wf by exact W. apply enc_text_value_canon; assumption. }
    assert (U8 : forall v', (match v' with DS | IS => False | _ => True end) ->
                 enc_binary c t v' (PU8 val) = Ok (ps35_header c t v' (blen val) ++ val) ->
                 enc_prim_element c t v' (PU8 val) = Ok (ps35_header c t v' (blen val) ++ val)).
    { intros v' Hv' G. destruct v'; try contradiction; exact G. }
    destruct v; try congruence; cbn [value_of_bytes] in B; inversion B; subst p; clear B;
      try exact TXT; try exact STR;
      try (apply U8; [exact I | apply enc_binary_canon; try reflexivity; assumption]);
      try (destruct (Hw ltac:(cbn; discriminate)) as [n Hn]; cbn [word_size] in Hn; unfold enc_prim_element;
           apply (tags_canon c t AT val n Hn W I E L S));
      (destruct (Hw ltac:(cbn; discriminate)) as [n Hn]; cbn [word_size] in Hn;
       change (enc_prim_element c t ?vv ?pp) with (enc_binary c t vv pp) || idtac;
       unfold enc_prim_element;
       first [ apply (words_canon c t _ val 2 n PU16 Hn) | apply (words_canon c t _ val 2 n PI16 Hn)
             | apply (words_canon c t _ val 4 n PU32 Hn) | apply (words_canon c t _ val 4 n PI32 Hn)
             | apply (words_canon c t _ val 4 n PF32 Hn) | apply (words_canon c t _ val 8 n PU64 Hn)
             | apply (words_canon c t _ val 8 n PI64 Hn) | apply (words_canon c t _ val 8 n PF64 Hn) ];
       try assumption; try (intros; reflexivity); try (intros; cbn; lia); tauto).
Qed.

(** * C02 for flat canonical data sets *)
Fixpoint canon_flat (c : codec) (d : dict_t) (es : list celem) : Prop :=
  match es with
  | [] => True
  | CPrim t v val :: r =>
      wf_tag t /\ fst t <> 65534 /\ t <> (40, 259) /\ canon_val c (read_vr c d t v) val /\
      (c <> ILE -> ps35_len16 v = true -> blen val <= 65535) /\ canon_flat c d r
  | _ :: _ => False
  end.

Lemma header_read_vr c d t v len : ps35_header c t (read_vr c d t v) len = ps35_header c t v len.
Proof. destruct c; reflexivity. Qed.

Lemma canon_flat_rflat c d es :
  canon_flat c d es -> exists ps, rflat_ok c d es ps.
Proof.
  induction es as [|e es IH]; intros H; [exists []; exact I|].
  destruct e as [t v val| |]; cbn in H; try contradiction.
  destruct H as (Ht & Hg & Hp & Hc & H16 & Hr). destruct (IH Hr) as [ps Hps].
  destruct Hc as (W & E & L & S & Hsq & Hw).
  assert (Q : vr_eqb (read_vr c d t v) SQ = false) by (destruct (read_vr c d t v); try reflexivity; congruence).
  destruct (back_value_not_sq c (read_vr c d t v) val Q) as [p Hp'].
  exists (p :: ps). cbn [rflat_ok]. split; [|exact Hps].
  unfold rprim_ok. split; [exact Ht|]. split; [exact Hg|]. split; [exact Hp|]. split; [exact L|].
  split; [exact H16|]. split; [exact Q | exact Hp'].
Qed.

Lemma rewrite_flat c d es : forall ps,
  canon_flat c d es -> rflat_ok c d es ps ->
  Forall plain (back_elems c d es ps) /\ enc_flat c (back_elems c d es ps) = Ok (canon_encode c es).
Proof.
  induction es as [|e es IH]; intros ps H R.
  - destruct ps; cbn in R; try contradiction. split; [constructor | reflexivity].
  - destruct e as [t v val| |]; cbn in H, R; try contradiction. destruct ps as [|p ps]; try contradiction.
    destruct H as (Ht & Hg & Hp & Hc & H16 & Hr). destruct R as [R1 R2].
    destruct (IH ps Hr R2) as [P1 P2].
    destruct R1 as (_ & _ & _ & Hl & _ & Hsq & Hb).
    cbn [back_elems enc_flat canon_encode canon_elem]. split.
    + constructor; [|exact P1]. cbn [plain]. split; [exact Hsq|].
      assert (Hu : (blen val =? undef) = false) by (apply N.eqb_neq; unfold undef; clear - Hl; lia).
      unfold is_encaps_header. rewrite Hu, !andb_false_r. reflexivity.
    + rewrite (rewrite_element c t (read_vr c d t v) val p Hc Hb), P2, header_read_vr. reflexivity.
Qed.

(** C02 (flat): read the canonical stream, write it back keeping lengths (or
    with the default strategy: no sequences here): byte-identical. *)
Lemma read_rewrite_flat c d nc es :
  canon_flat c d es -> StronglySorted tag_lt (map ctag es) ->
  exists obj, read_dataset c d (canon_encode c es) = Ok obj /\
              write_dataset c nc false obj = Ok (canon_encode c es).
Proof.
  intros H S. destruct (canon_flat_rflat c d es H) as [ps R].
  exists (back_elems c d es ps). split; [apply read_dataset_flat; assumption|].
  destruct (rewrite_flat c d es ps H R) as [P E].
  rewrite write_dataset_flat by exact P. exact E.
Qed.
