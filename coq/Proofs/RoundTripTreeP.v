(** C01 for nested data sets (undefined-length sequences/items of any depth and
    encapsulated pixel data, default strategy): write, then read. *)
From Coq Require Import ZifyBool ZifyNat ZifyN Sorting.Sorted.
From DicomV Require Import Base.Endian Model.Vr Model.Header Model.Prim Model.Dataset Model.Writer Model.Reader
  Spec.Ps35 Proofs.HeaderP Proofs.PrimP Proofs.WriterP Proofs.ValidP Proofs.FlatP Proofs.ValueP Proofs.ReaderP
  Proofs.RoundTripP Proofs.TotalP Proofs.NestedP Proofs.ReadStepsP Proofs.ReadPixP Proofs.ReadTreeP Proofs.BuildTreeP.
Open Scope N_scope.

Lemma readable_regular c d : forall e, readable c d e -> regular e.
Proof.
  apply (elem_ind_nested (fun e => readable c d e -> regular e)).
  - intros t v l p R. inversion R as [? ? ? ? Hok _| |]; subst. constructor. exact (proj1 Hok).
  - intros t v l ot fr R. inversion R as [| |? ? Hot Hn Hfr]; subst. constructor; [|exact Hn].
    eapply Forall_impl; [|exact Hfr]. cbn. intros f Hf. lia.
  - intros t v l its IH R. inversion R as [|? ? ? _ _ _ Hits|]; subst. constructor.
    clear R. induction its as [|it its IHi]; [constructor|].
    inversion IH as [|? ? I1 I2]; inversion Hits as [|? ? [J1 _] J2]; subst. constructor.
    + clear IHi I2 J2. induction (snd it) as [|x xs IHx]; [constructor|].
      inversion I1; inversion J1; subst. constructor; [auto | auto].
    + apply IHi; assumption.
Qed.

(** Round trip of a nested data set with the default strategy. *)
Lemma roundtrip_tree c d es b :
  delim_ok c d -> Forall (readable c d) es -> StronglySorted tag_lt (map elem_tag es) ->
  write_dataset c false false es = Ok b ->
  read_dataset c d b = Ok (map (norm_tree c d) es).
Proof.
  intros Hd R S W.
  rewrite write_dataset_nested in W by (eapply Forall_impl; [apply (readable_regular c d) | exact R]).
  unfold read_dataset. rewrite (read_tokens_tree c d Hd es b R W).
  rewrite (build_tree c d es R S). reflexivity.
Qed.

(** * Writing a nested data set never fails *)
Inductive writable (c : codec) : elem -> Prop :=
| WPrim t v l p : elem_writable c (EPrim t v l p) -> writable c (EPrim t v l p)
| WSeq t l its : Forall (fun it : item => Forall (writable c) (snd it)) its -> writable c (ESeq t SQ l its)
| WPix ot frags : writable c (EPix pixel_tag OB undef ot frags).

Definition enc_total (c : codec) (e : elem) : Prop :=
  forall f, (elem_size e <= f)%nat -> exists b, enc_tree f c e = Ok b.

Lemma enc_trees_total c es : forall f,
  Forall (enc_total c) es -> (elems_size es <= f)%nat -> exists b, enc_trees f c es = Ok b.
Proof.
  induction es as [|e es IH]; intros f H F; [exists []; reflexivity|].
  inversion H as [|? ? He Hes]; subst. cbn [elems_size] in F.
  destruct (He f ltac:(lia)) as [b1 E1]. destruct (IH f Hes ltac:(lia)) as [b2 E2].
  cbn [enc_trees]. rewrite E1, E2. cbn. eauto.
Qed.

Lemma enc_items_total c its : forall f,
  Forall (fun it : item => Forall (enc_total c) (snd it)) its -> (items_size its <= f)%nat ->
  exists b, enc_items f c its = Ok b.
Proof.
  induction its as [|[n es] its IH]; intros f H F; [exists []; reflexivity|].
  inversion H as [|? ? Hes Hits]; subst. cbn [snd] in Hes. cbn [items_size] in F.
  destruct (enc_trees_total c es f Hes ltac:(lia)) as [b1 E1]. destruct (IH f Hits ltac:(lia)) as [b2 E2].
  cbn [enc_items]. rewrite E1, E2. cbn. eauto.
Qed.

Lemma writable_enc_total c : forall e, writable c e -> enc_total c e.
Proof.
  apply (elem_ind_nested (fun e => writable c e -> enc_total c e)).
  - intros t v l p W f F. inversion W as [? ? ? ? Hw| |]; subst.
    destruct f as [|f]; [cbn in F; lia|]. cbn [enc_tree].
    destruct Hw as (_ & T & Wf & L & Fl & B & K). apply enc_prim_element_total; assumption.
  - intros t v l ot fr W f F. inversion W; subst. destruct f as [|f]; [cbn in F; lia|].
    cbn [enc_tree]. unfold enc_pix. rewrite st_enc_header_undef_ob. cbn. eauto.
  - intros t v l its IH W f F. inversion W as [|? ? ? Hits|]; subst.
    assert (A : Forall (fun it : item => Forall (enc_total c) (snd it)) its).
    { clear W F. induction its as [|it its IHi]; [constructor|].
      inversion IH as [|? ? I1 I2]; inversion Hits as [|? ? J1 J2]; subst. constructor.
      - clear IHi I2 J2. induction (snd it) as [|x xs IHx]; [constructor|].
        inversion I1; inversion J1; subst. constructor; [auto | auto].
      - apply IHi; assumption. }
    destruct f as [|f]; [cbn in F; lia|]. rewrite elem_size_seq in F.
    destruct (enc_items_total c its f A ltac:(lia)) as [body E].
    rewrite enc_tree_seq, st_enc_header_undef_sq. cbn [obind]. rewrite E. cbn. eauto.
Qed.

Lemma write_tree_total c es :
  Forall (writable c) es -> Forall regular es -> exists b, write_dataset c false false es = Ok b.
Proof.
  intros W R. rewrite write_dataset_nested by exact R.
  apply enc_trees_total; [|lia]. eapply Forall_impl; [apply writable_enc_total | exact W].
Qed.
