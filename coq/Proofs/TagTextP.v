(** Lemmas about Model/TagText.v (C14). *)
From DicomV Require Import Base.RustStr Proofs.StrP Proofs.RustStrP Model.TagText.
From Coq Require Import ZifyBool ZifyNat ZifyN.

(** ================= parse_tag_part ================= *)

Lemma boundary4_length s : is_char_boundary s 4 = true -> (4 <= length s)%nat.
Proof.
  unfold is_char_boundary. destruct (nth_error s 4) eqn:E.
  - intros _. assert (4 < length s)%nat by (apply nth_error_Some; congruence). lia.
  - intros H. apply Nat.eqb_eq in H. lia.
Qed.

(** The function never panics: the boundary test guards [split_at], the
    hex-digit test guards [from_str_radix(..).expect(..)]. *)
Lemma parse_tag_part_spec s :
  parse_tag_part s =
  if is_char_boundary s 4 && forallb is_ascii_hexdigit (firstn 4 s)
  then Ok (digits_val 16 (firstn 4 s), skipn 4 s) else Err E_number.
Proof.
  unfold parse_tag_part, split_at. destruct (is_char_boundary s 4) eqn:B; cbn [negb andb]; [|reflexivity].
  cbn [bind]. destruct (forallb is_ascii_hexdigit (firstn 4 s)) eqn:H; cbn [negb]; [|reflexivity].
  unfold u16_max. rewrite hex4_fits; [reflexivity| |exact H].
  apply firstn_length_le. apply boundary4_length. exact B.
Qed.

Lemma parse_tag_part_no_panic s w : parse_tag_part s <> Panic w.
Proof.
  rewrite parse_tag_part_spec. destruct (_ && _); discriminate.
Qed.

Lemma parse_tag_part_ok s n r :
  parse_tag_part s = Ok (n, r) -> exists ds, s = ds ++ r /\ hex4_of n ds.
Proof.
  rewrite parse_tag_part_spec.
  destruct (is_char_boundary s 4) eqn:B; cbn [andb]; [|discriminate].
  destruct (forallb is_ascii_hexdigit (firstn 4 s)) eqn:H; [|discriminate].
  intros E; inversion E; subst. exists (firstn 4 s). split; [symmetry; apply firstn_skipn|].
  repeat split; [|exact H]. apply firstn_length_le. apply boundary4_length. exact B.
Qed.

Lemma hexdigit_not_cont b : is_ascii_hexdigit b = true -> is_cont b = false.
Proof. unfold is_ascii_hexdigit, is_dec_digit, is_cont. intros H. bdestr_in H; bdestr; cbn in *; try reflexivity; try discriminate; lia. Qed.

Lemma ascii_not_cont b : b < 128 -> is_cont b = false.
Proof. unfold is_cont. intros H. bdestr; cbn; try reflexivity; lia. Qed.

(** four hex digits followed by nothing or by a non-continuation byte *)
Lemma parse_tag_part_app n ds rest :
  hex4_of n ds ->
  match rest with [] => True | b :: _ => is_cont b = false end ->
  parse_tag_part (ds ++ rest) = Ok (n, rest).
Proof.
  intros [HL [HH HV]] Hr. rewrite parse_tag_part_spec.
  assert (F : firstn 4 (ds ++ rest) = ds) by (rewrite <- HL; apply firstn_app_at).
  assert (S4 : skipn 4 (ds ++ rest) = rest) by (rewrite <- HL; apply skipn_app_at).
  assert (B : is_char_boundary (ds ++ rest) 4 = true).
  { unfold is_char_boundary. destruct rest as [|b rest'].
    - rewrite app_nil_r. replace (nth_error ds 4) with (@None N) by (symmetry; apply nth_error_None; lia).
      apply Nat.eqb_eq. congruence.
    - rewrite <- HL at 1. rewrite nth_error_app_at. rewrite Hr. reflexivity. }
  rewrite B, F, S4, HH, HV. reflexivity.
Qed.

Lemma hex4_of_head n ds : hex4_of n ds -> exists b r, ds = b :: r /\ is_cont b = false.
Proof.
  intros [HL [HH _]]. destruct ds as [|b r]; [discriminate|]. exists b, r. split; [reflexivity|].
  cbn in HH. apply andb_true_iff in HH as [Hb _]. apply hexdigit_not_cont; exact Hb.
Qed.

(** ================= the three forms parse ================= *)

Lemma slice_from_cons c x :
  match x with [] => True | b :: _ => is_cont b = false end -> slice_from (c :: x) 1 = Ok x.
Proof.
  intros H. unfold slice_from, is_char_boundary. destruct x as [|b r]; cbn; [reflexivity|].
  rewrite H. reflexivity.
Qed.

Lemma head_app_hex n ds rest :
  hex4_of n ds -> match ds ++ rest with [] => True | b :: _ => is_cont b = false end.
Proof. intros H. destruct (hex4_of_head _ _ H) as [b [r [-> C]]]. exact C. Qed.

Theorem tag_forms_parse f g e gd ed :
  hex4_of g gd -> hex4_of e ed -> tag_from_str (tag_text f gd ed) = Ok (g, e).
Proof.
  intros Hg He.
  pose proof Hg as [LG _]. pose proof He as [LE _].
  destruct f; unfold tag_text, tag_from_str.
  - (* (gggg,eeee) *)
    assert (HL : length (lparen :: gd ++ comma :: ed ++ [rparen]) = 11%nat)
      by (cbn [length]; rewrite !app_length; cbn [length]; rewrite app_length; cbn [length]; lia).
    rewrite HL. cbn [Nat.eqb starts_with]. rewrite N.eqb_refl. cbn [negb].
    rewrite slice_from_cons by (eapply head_app_hex; exact Hg). cbn [bind].
    rewrite (parse_tag_part_app g gd (comma :: ed ++ [rparen]) Hg) by (apply ascii_not_cont; reflexivity).
    cbn [bind starts_with]. rewrite N.eqb_refl. cbn [negb].
    rewrite slice_from_cons by (eapply head_app_hex; exact He). cbn [bind].
    rewrite (parse_tag_part_app e ed [rparen] He) by (apply ascii_not_cont; reflexivity).
    reflexivity.
  - (* gggg,eeee *)
    assert (HL : length (gd ++ comma :: ed) = 9%nat) by (rewrite app_length; cbn [length]; lia).
    rewrite HL. cbn [Nat.eqb].
    rewrite (parse_tag_part_app g gd (comma :: ed) Hg) by (apply ascii_not_cont; reflexivity).
    cbn [bind starts_with]. rewrite N.eqb_refl. cbn [negb].
    rewrite slice_from_cons by (rewrite <- (app_nil_r ed); eapply head_app_hex; exact He). cbn [bind].
    rewrite <- (app_nil_r ed).
    rewrite (parse_tag_part_app e ed [] He) by exact I. reflexivity.
  - (* ggggeeee *)
    assert (HL : length (gd ++ ed) = 8%nat) by (rewrite app_length; lia).
    rewrite HL. cbn [Nat.eqb].
    assert (B : is_char_boundary (gd ++ ed) 4 = true).
    { destruct (hex4_of_head _ _ He) as [e0 [er [Ee Ce]]].
      unfold is_char_boundary. rewrite <- LG at 1. rewrite Ee. rewrite nth_error_app_at, Ce. reflexivity. }
    unfold split_at. rewrite B. cbn [negb bind].
    replace (firstn 4 (gd ++ ed)) with gd by (rewrite <- LG; symmetry; apply firstn_app_at).
    replace (skipn 4 (gd ++ ed)) with ed by (rewrite <- LG; symmetry; apply skipn_app_at).
    rewrite <- (app_nil_r gd) at 1. rewrite (parse_tag_part_app g gd [] Hg) by exact I. cbn [bind].
    rewrite <- (app_nil_r ed) at 1. rewrite (parse_tag_part_app e ed [] He) by exact I.
    reflexivity.
Qed.

Lemma hex4_of_hex4 upper n : n < 65536 -> hex4_of n (hex4 upper n).
Proof.
  intros H. repeat split; [apply hex4_all_hex | apply hex4_value; exact H].
Qed.

Theorem tag_print_parse f upper t :
  wf_tag t -> tag_from_str (print_tag f upper t) = Ok t.
Proof.
  intros [Hg He]. destruct t as [g e]. unfold print_tag. cbn [fst snd] in *.
  apply tag_forms_parse; apply hex4_of_hex4; assumption.
Qed.

(** ================= exactly those forms ================= *)

Lemma starts_with_inv c s : starts_with c s = true -> exists r, s = c :: r.
Proof. destruct s as [|b r]; [discriminate|]. cbn. intros H. apply N.eqb_eq in H. subst. eauto. Qed.

Lemma slice_from_ok s k x : slice_from s k = Ok x -> x = skipn k s.
Proof. unfold slice_from. destruct (is_char_boundary s k); [|discriminate]. intros E; inversion E; reflexivity. Qed.

Lemma bytes_eqb_eq a b : bytes_eqb a b = true -> a = b.
Proof. apply list_eqb_spec. intros; apply N.eqb_eq. Qed.

Lemma hex4_of_value_lt n ds : hex4_of n ds -> n < 65536.
Proof.
  intros [HL [HH HV]]. destruct ds as [|a [|b [|c [|d [|? ?]]]]]; try discriminate.
  cbn [forallb] in HH. apply andb_true_iff in HH as [Ha HH]. apply andb_true_iff in HH as [Hb HH].
  apply andb_true_iff in HH as [Hc HH]. apply andb_true_iff in HH as [Hd _].
  rewrite digits_val_4 in HV. unfold digit_val in HV. change (16 =? 16) with true in HV. cbv beta iota in HV.
  pose proof (hex_val_lt16 _ Ha). pose proof (hex_val_lt16 _ Hb).
  pose proof (hex_val_lt16 _ Hc). pose proof (hex_val_lt16 _ Hd). lia.
Qed.

Theorem tag_parse_exact s g e :
  tag_from_str s = Ok (g, e) ->
  exists f gd ed, hex4_of g gd /\ hex4_of e ed /\ s = tag_text f gd ed.
Proof.
  unfold tag_from_str.
  destruct (Nat.eqb (length s) 11) eqn:L11; [|destruct (Nat.eqb (length s) 9) eqn:L9; [|destruct (Nat.eqb (length s) 8) eqn:L8]].
  - destruct (starts_with lparen s) eqn:S0; cbn [negb]; [|discriminate].
    destruct (starts_with_inv _ _ S0) as [s1 ->].
    destruct (slice_from (lparen :: s1) 1) as [x| |] eqn:SL; cbn [bind]; try discriminate.
    apply slice_from_ok in SL. cbn in SL. subst x.
    destruct (parse_tag_part s1) as [[g' rest]| |] eqn:P1; cbn [bind]; try discriminate.
    destruct (starts_with comma rest) eqn:S1; cbn [negb]; [|discriminate].
    destruct (starts_with_inv _ _ S1) as [r1 ->].
    destruct (slice_from (comma :: r1) 1) as [x| |] eqn:SL2; cbn [bind]; try discriminate.
    apply slice_from_ok in SL2. cbn in SL2. subst x.
    destruct (parse_tag_part r1) as [[e' rest2]| |] eqn:P2; cbn [bind]; try discriminate.
    destruct (bytes_eqb rest2 [rparen]) eqn:EE; cbn [negb]; [|discriminate].
    intros H; inversion H; subst g' e'. apply bytes_eqb_eq in EE. subst rest2.
    apply parse_tag_part_ok in P1 as [gd [E1 Hg]]. apply parse_tag_part_ok in P2 as [ed [E2 He]].
    exists Paren, gd, ed. repeat split; try apply Hg; try apply He. cbn [tag_text]. subst. reflexivity.
  - destruct (parse_tag_part s) as [[g' rest]| |] eqn:P1; cbn [bind]; try discriminate.
    destruct (starts_with comma rest) eqn:S1; cbn [negb]; [|discriminate].
    destruct (starts_with_inv _ _ S1) as [r1 ->].
    destruct (slice_from (comma :: r1) 1) as [x| |] eqn:SL2; cbn [bind]; try discriminate.
    apply slice_from_ok in SL2. cbn in SL2. subst x.
    destruct (parse_tag_part r1) as [[e' rest2]| |] eqn:P2; cbn [bind]; try discriminate.
    intros H; inversion H; subst g' e'.
    apply parse_tag_part_ok in P1 as [gd [E1 Hg]]. apply parse_tag_part_ok in P2 as [ed [E2 He]].
    assert (rest2 = []).
    { apply Nat.eqb_eq in L9. subst s r1. destruct Hg as [LG _], He as [LE _].
      rewrite app_length in L9. cbn [length] in L9. rewrite app_length in L9.
      destruct rest2; [reflexivity|cbn [length] in L9; lia]. }
    subst rest2. rewrite app_nil_r in E2. subst r1.
    exists Comma, gd, ed. repeat split; try apply Hg; try apply He. exact E1.
  - destruct (is_char_boundary s 4) eqn:B; cbn [negb]; [|discriminate].
    unfold split_at. rewrite B. cbn [bind].
    destruct (parse_tag_part (firstn 4 s)) as [[g' r1]| |] eqn:P1; cbn [bind]; try discriminate.
    destruct (parse_tag_part (skipn 4 s)) as [[e' r2]| |] eqn:P2; cbn [bind]; try discriminate.
    cbn [fst]. intros H; inversion H; subst g' e'.
    apply parse_tag_part_ok in P1 as [gd [E1 Hg]]. apply parse_tag_part_ok in P2 as [ed [E2 He]].
    apply Nat.eqb_eq in L8.
    assert (L1 : length (firstn 4 s) = 4%nat) by (apply firstn_length_le; lia).
    assert (L2 : length (skipn 4 s) = 4%nat) by (rewrite skipn_length; lia).
    destruct Hg as [LG Hg'], He as [LE He'].
    assert (r1 = []) by (rewrite E1, app_length in L1; destruct r1; [reflexivity|cbn [length] in L1; lia]).
    assert (r2 = []) by (rewrite E2, app_length in L2; destruct r2; [reflexivity|cbn [length] in L2; lia]).
    subst r1 r2. rewrite app_nil_r in E1, E2.
    exists Plain, gd, ed. repeat split; try assumption; try apply Hg'; try apply He'.
    cbn [tag_text]. rewrite <- E1, <- E2. symmetry. apply firstn_skipn.
  - discriminate.
Qed.

Corollary tag_parse_wf s t : tag_from_str s = Ok t -> wf_tag t.
Proof.
  destruct t as [g e]. intros H. apply tag_parse_exact in H as [f [gd [ed [Hg [He _]]]]].
  split; cbn; eapply hex4_of_value_lt; eassumption.
Qed.

(** ================= no panic, for every valid string ================= *)

Theorem tag_from_str_no_panic s w : ascii_sync s -> tag_from_str s <> Panic w.
Proof.
  intros HS. unfold tag_from_str.
  destruct (Nat.eqb (length s) 11) eqn:L11; [|destruct (Nat.eqb (length s) 9) eqn:L9; [|destruct (Nat.eqb (length s) 8) eqn:L8]].
  - destruct (starts_with lparen s) eqn:S0; cbn [negb]; [|discriminate].
    unfold slice_from at 1. rewrite (boundary_after_ascii s lparen HS S0) by reflexivity. cbn [bind].
    rewrite parse_tag_part_spec. destruct (_ && _); cbn [bind]; [|discriminate].
    set (rest := skipn 4 (skipn 1 s)).
    assert (HR : ascii_sync rest) by (apply ascii_sync_skipn, ascii_sync_skipn; exact HS).
    destruct (starts_with comma rest) eqn:S1; cbn [negb]; [|discriminate].
    unfold slice_from. rewrite (boundary_after_ascii rest comma HR S1) by reflexivity. cbn [bind].
    rewrite parse_tag_part_spec. destruct (_ && _); cbn [bind]; [|discriminate].
    destruct (bytes_eqb _ _); discriminate.
  - rewrite parse_tag_part_spec. destruct (_ && _); cbn [bind]; [|discriminate].
    set (rest := skipn 4 s).
    assert (HR : ascii_sync rest) by (apply ascii_sync_skipn; exact HS).
    destruct (starts_with comma rest) eqn:S1; cbn [negb]; [|discriminate].
    unfold slice_from. rewrite (boundary_after_ascii rest comma HR S1) by reflexivity. cbn [bind].
    rewrite parse_tag_part_spec. destruct (_ && _); cbn [bind]; discriminate.
  - destruct (is_char_boundary s 4) eqn:B; cbn [negb]; [|discriminate].
    unfold split_at. rewrite B. cbn [bind].
    rewrite !parse_tag_part_spec. destruct (_ && _); cbn [bind]; [|discriminate].
    destruct (_ && _); cbn [bind]; discriminate.
  - discriminate.
Qed.

(** the 8-byte arm needs no UTF-8 hypothesis at all after the fix; before
    the fix it panicked on a concrete valid string *)
Lemma unfixed_panics :
  tag_from_str_unfixed (utf8 [48; 48; 48; 233; 48; 48; 48]) = Panic P_char_boundary.
Proof. vm_compute. reflexivity. Qed.
Lemma fixed_rejects :
  tag_from_str (utf8 [48; 48; 48; 233; 48; 48; 48]) = Err E_number.
Proof. vm_compute. reflexivity. Qed.

(** ================= selectors ================= *)

Ltac punct := unfold lparen, rparen, comma, dot, lbracket, rbracket; repeat split; discriminate.

Lemma ends_with_app_last c s : ends_with c (s ++ [c]) = true.
Proof. unfold ends_with. rewrite rev_app_distr. cbn. apply N.eqb_refl. Qed.

Lemma ends_with_notin c s : ~ In c s -> ends_with c s = false.
Proof.
  intros H. unfold ends_with. destruct (rev s) as [|b r] eqn:E; [reflexivity|]. cbn.
  destruct (N.eqb_spec b c) as [->|]; [|reflexivity].
  exfalso. apply H. apply in_rev. rewrite E. left; reflexivity.
Qed.

Lemma find_byte_app c k rest : ~ In c k -> find_byte c (k ++ c :: rest) = Some (length k).
Proof.
  induction k as [|b k IH]; cbn [app find_byte length In]; intros H.
  - rewrite N.eqb_refl. reflexivity.
  - destruct (N.eqb_spec b c) as [->|]; [exfalso; apply H; left; reflexivity|].
    rewrite IH by (intros Hin; apply H; right; exact Hin). reflexivity.
Qed.

Definition head_ok (x : bytes) : Prop := match x with [] => True | b :: _ => is_cont b = false end.

Lemma boundary_app a x : head_ok x -> is_char_boundary (a ++ x) (length a) = true.
Proof.
  intros H. destruct a as [|y a]; [reflexivity|].
  unfold is_char_boundary. cbn [length]. change (S (length a)) with (length (y :: a)).
  destruct x as [|b r].
  - rewrite app_nil_r. replace (nth_error (y :: a) (length (y :: a))) with (@None N)
      by (symmetry; apply nth_error_None; lia). apply Nat.eqb_refl.
  - rewrite nth_error_app_at. cbn in H. rewrite H. reflexivity.
Qed.

Lemma slice_prefix m c : head_ok c -> slice (m ++ c) 0 (length m) = Ok m.
Proof.
  intros H. unfold slice. rewrite (boundary_app m c H). cbn [Nat.leb is_char_boundary andb skipn].
  rewrite Nat.sub_0_r, firstn_app_at. reflexivity.
Qed.

Lemma slice_mid a m c :
  head_ok (m ++ c) -> head_ok c ->
  slice (a ++ m ++ c) (length a) (length a + length m) = Ok m.
Proof.
  intros H1 H2. unfold slice.
  rewrite (boundary_app a (m ++ c) H1).
  assert (B2 : is_char_boundary (a ++ m ++ c) (length a + length m) = true).
  { rewrite app_assoc, <- app_length. apply boundary_app. exact H2. }
  rewrite B2. replace (Nat.leb (length a) (length a + length m)) with true by (symmetry; apply Nat.leb_le; lia).
  cbn [andb]. rewrite skipn_app_at. replace (length a + length m - length a)%nat with (length m) by lia.
  rewrite firstn_app_at. reflexivity.
Qed.

Lemma print_dec_head_ok i c : head_ok (print_dec i ++ c).
Proof.
  destruct (print_dec_spec i) as [_ [_ Hne]]. destruct (print_dec i) as [|d r] eqn:E; [congruence|].
  cbn. apply ascii_not_cont. assert (In d (print_dec i)) by (rewrite E; left; reflexivity).
  pose proof (print_dec_chars _ _ H). lia.
Qed.

Section Dict.
  Variable by_name : bytes -> option tag.

  Lemma parse_part_tag k t : good_key by_name k t -> parse_part by_name k = Ok (STag t).
  Proof.
    intros [[_ [_ Hr]] Hp]. unfold parse_part. rewrite (ends_with_notin _ _ Hr), Hp. reflexivity.
  Qed.

  Lemma parse_part_nested k t i :
    good_key by_name k t -> i <= u32_max ->
    parse_part by_name (k ++ lbracket :: print_dec i ++ [rbracket]) = Ok (SNested t i).
  Proof.
    intros [[_ [Hl _]] Hp] Hi. unfold parse_part.
    set (dec := print_dec i).
    assert (EW : ends_with rbracket (k ++ lbracket :: dec ++ [rbracket]) = true).
    { replace (k ++ lbracket :: dec ++ [rbracket]) with ((k ++ lbracket :: dec) ++ [rbracket])
        by (rewrite <- app_assoc; reflexivity). apply ends_with_app_last. }
    rewrite EW. rewrite (find_byte_app _ _ _ Hl).
    rewrite slice_prefix by (apply ascii_not_cont; reflexivity). cbn [bind].
    assert (SL : slice (k ++ lbracket :: dec ++ [rbracket]) (S (length k))
                   (length (k ++ lbracket :: dec ++ [rbracket]) - 1) = Ok dec).
    { replace (k ++ lbracket :: dec ++ [rbracket]) with ((k ++ [lbracket]) ++ dec ++ [rbracket])
        by (rewrite <- app_assoc; reflexivity).
      replace (S (length k)) with (length (k ++ [lbracket])) by (rewrite app_length; cbn; lia).
      replace (length ((k ++ [lbracket]) ++ dec ++ [rbracket]) - 1)%nat
        with (length (k ++ [lbracket]) + length dec)%nat
        by (rewrite !app_length; cbn [length]; lia).
      apply slice_mid; [apply print_dec_head_ok | apply ascii_not_cont; reflexivity]. }
    rewrite SL. cbn [bind]. rewrite Hp. cbn [bind].
    unfold dec. rewrite uint_parse_print by exact Hi. reflexivity.
  Qed.

  Lemma parse_part_step_text k st :
    good_key by_name k (step_tag st) -> item_ok st -> parse_part by_name (step_text k st) = Ok st.
  Proof.
    destruct st as [t|t i]; cbn [step_tag step_text item_ok]; intros Hk Hi.
    - apply parse_part_tag; exact Hk.
    - apply parse_part_nested; assumption.
  Qed.

  Definition key_ok (p : bytes * step) : Prop :=
    good_key by_name (fst p) (step_tag (snd p)) /\ item_ok (snd p).

  Lemma parse_parts_spelled ks :
    Forall key_ok ks ->
    parse_parts by_name (map (fun p => step_text (fst p) (snd p)) ks) = Ok (map snd ks).
  Proof.
    induction 1 as [|p ks [Hk Hi] _ IH]; [reflexivity|].
    cbn [map parse_parts]. rewrite parse_part_step_text by assumption. cbn [bind].
    rewrite IH. reflexivity.
  Qed.

  Lemma step_text_no_dot k st : good_key_chars k -> no_char dot (step_text k st).
  Proof.
    intros [Hd _]. unfold no_char. destruct st as [t|t i]; cbn [step_text]; [exact Hd|].
    intros Hin. apply in_app_or in Hin as [Hin|Hin]; [exact (Hd Hin)|].
    cbn [In] in Hin. destruct Hin as [Hin|Hin]; [discriminate|].
    apply in_app_or in Hin as [Hin|Hin].
    - pose proof (print_dec_chars _ _ Hin). unfold dot in *. lia.
    - cbn in Hin. destruct Hin as [Hin|[]]. discriminate.
  Qed.

  (** A selector text whose keys are spelled in any way this dictionary
      resolves parses to exactly the steps written. *)
  Theorem parse_selector_spelled dbg ks :
    ks <> [] -> Forall key_ok ks ->
    parse_selector by_name dbg (spelled_text ks) = sel_result dbg (map snd ks).
  Proof.
    intros Hne Hall. unfold parse_selector, spelled_text.
    rewrite split_on_join.
    - rewrite parse_parts_spelled by exact Hall. reflexivity.
    - destruct ks; [congruence|discriminate].
    - apply Forall_forall. intros x Hx. apply in_map_iff in Hx as [p [<- Hp]].
      rewrite Forall_forall in Hall. destruct (Hall p Hp) as [[Hc _] _].
      apply step_text_no_dot; exact Hc.
  Qed.

  (** tag literals are good keys whatever the dictionary *)
  Lemma hexdigit_not_punct b :
    is_ascii_hexdigit b = true -> b <> dot /\ b <> lbracket /\ b <> rbracket.
  Proof.
    unfold is_ascii_hexdigit, is_dec_digit, dot, lbracket, rbracket. intros H.
    bdestr_in H; cbn in H; try discriminate; lia.
  Qed.

  Lemma hex4_of_chars n ds c : hex4_of n ds -> In c ds -> c <> dot /\ c <> lbracket /\ c <> rbracket.
  Proof.
    intros [_ [HH _]] Hin. rewrite forallb_forall in HH. apply hexdigit_not_punct. exact (HH c Hin).
  Qed.

  Ltac hx := match goal with Hg : hex4_of _ ?d, Hin : In _ ?d |- _ => exact (hex4_of_chars _ _ _ Hg Hin) end.

  Lemma tag_text_good_chars f g e gd ed :
    hex4_of g gd -> hex4_of e ed -> good_key_chars (tag_text f gd ed).
  Proof.
    intros Hg He.
    assert (K : forall c, In c (tag_text f gd ed) -> c <> dot /\ c <> lbracket /\ c <> rbracket).
    { intros c Hin. destruct f; cbn [tag_text] in Hin.
      - destruct Hin as [<-|Hin]; [punct|].
        apply in_app_or in Hin as [Hin|[<-|Hin]]; [hx|punct|].
        apply in_app_or in Hin as [Hin|[<-|[]]]; [hx|punct].
      - apply in_app_or in Hin as [Hin|[<-|Hin]];
          [hx|punct|hx].
      - apply in_app_or in Hin as [Hin|Hin]; hx. }
    repeat split; intros Hin; destruct (K _ Hin) as [? [? ?]]; congruence.
  Qed.

  Theorem tag_text_good_key f g e gd ed :
    hex4_of g gd -> hex4_of e ed -> good_key by_name (tag_text f gd ed) (g, e).
  Proof.
    intros Hg He. split; [eapply tag_text_good_chars; eassumption|].
    unfold parse_tag_dict. rewrite (tag_forms_parse f g e gd ed Hg He). reflexivity.
  Qed.

  Lemma display_tag_good_key t : wf_tag t -> good_key by_name (display_tag t) t.
  Proof.
    intros [Hg He]. destruct t as [g e]. cbn [fst snd] in *.
    apply (tag_text_good_key Paren g e); apply hex4_of_hex4; assumption.
  Qed.
End Dict.

(** ---- AttributeSelector::new *)
Lemma normalise_nonempty steps sel : normalise steps = Some sel -> sel <> [].
Proof.
  destruct steps as [|s rest]; cbn [normalise]; [discriminate|].
  destruct s, rest; try discriminate; try (intros H; inversion H; discriminate);
    destruct (normalise (_ :: _)); intros H; inversion H; discriminate.
Qed.

Lemma normalise_cons s s2 rest :
  normalise (s :: s2 :: rest) =
  match normalise (s2 :: rest) with Some r => Some (to_nested s :: r) | None => None end.
Proof. destruct s; reflexivity. Qed.

Lemma normalise_idem steps : forall sel,
  normalise steps = Some sel -> normalise sel = Some sel /\ length sel = length steps.
Proof.
  induction steps as [|s rest IH]; intros sel H; [discriminate|].
  destruct rest as [|s2 rest].
  - destruct s; cbn in H; inversion H; subst. split; reflexivity.
  - rewrite normalise_cons in H. destruct (normalise (s2 :: rest)) as [r|] eqn:E; [|discriminate].
    inversion H; subst. destruct (IH r eq_refl) as [Hr Hl].
    pose proof (normalise_nonempty _ _ E) as Hne.
    destruct r as [|r0 r']; [congruence|]. split.
    + rewrite normalise_cons, Hr. destruct s; reflexivity.
    + cbn [length] in *. lia.
Qed.

(** Every selector value (anything [AttributeSelector::new] returns) prints
    to a text that parses back to it, with any dictionary. *)
Theorem selector_roundtrip by_name dbg steps sel :
  selector_new dbg steps = Ok (Some sel) -> Forall wf_step sel ->
  parse_selector by_name dbg (print_selector sel) = Ok sel.
Proof.
  unfold selector_new. destruct (dbg && Nat.leb 256 (length steps)) eqn:G; [discriminate|].
  intros H Hwf. inversion H as [Hn]. clear H.
  destruct (normalise_idem _ _ Hn) as [Hidem Hlen].
  set (ks := map (fun st => (display_tag (step_tag st), st)) sel).
  assert (Et : print_selector sel = spelled_text ks).
  { unfold print_selector, spelled_text, ks. rewrite map_map. reflexivity. }
  assert (Es : map snd ks = sel).
  { unfold ks. rewrite map_map. cbn [snd]. apply map_id. }
  rewrite Et, parse_selector_spelled.
  - rewrite Es. unfold sel_result, selector_new. rewrite Hlen, G. cbn [bind]. rewrite Hidem. reflexivity.
  - unfold ks. pose proof (normalise_nonempty _ _ Hn). destruct sel; [congruence|discriminate].
  - unfold ks. apply Forall_forall. intros p Hp. apply in_map_iff in Hp as [st [<- Hst]].
    rewrite Forall_forall in Hwf. destruct (Hwf st Hst) as [Ht Hi]. split; cbn [fst snd].
    + apply display_tag_good_key; exact Ht.
    + destruct st; cbn in *; [exact I|unfold u32_max; lia].
Qed.

(** what [AttributeSelector::new] produces, as a predicate *)
Lemma normalise_shape steps sel :
  normalise steps = Some sel ->
  exists init t, sel = init ++ [STag t] /\ Forall (fun s => exists u i, s = SNested u i) init.
Proof.
  revert sel. induction steps as [|s rest IH]; intros sel H; [discriminate|].
  destruct rest as [|s2 rest].
  - destruct s; cbn in H; inversion H; subst. exists [], t. split; [reflexivity|constructor].
  - rewrite normalise_cons in H. destruct (normalise (s2 :: rest)) as [r|] eqn:E; [|discriminate].
    inversion H; subst. destruct (IH r eq_refl) as [init [t [-> Hall]]].
    exists (to_nested s :: init), t. split; [reflexivity|].
    constructor; [|exact Hall]. destruct s; cbn; eauto.
Qed.
