(** The PDU reader inverts the layout written by the PDU writer, item kind by
    item kind (Model/Pdu.v, part C of the proof of C25). *)
From DicomV Require Import Base.Prelude Base.Endian Base.Str Proofs.StrP Model.Pdu Proofs.PduP.
From Coq Require Import ZifyBool ZifyNat ZifyN.
Ltac Zify.zify_post_hook ::= Z.div_mod_to_equations.

Local Arguments take : simpl never.
Local Arguments len : simpl never.
Local Arguments trim : simpl never.
Local Arguments be16 : simpl never.
Local Arguments be32 : simpl never.
Local Arguments item : simpl never.

(* decide comparisons between numerals *)
Ltac ev_eqb :=
  repeat match goal with
  | |- context [?a =? ?b] => first [ change (a =? b) with true | change (a =? b) with false ]
  end.
Ltac norm_l := repeat (progress (cbn [app]) || rewrite <- app_assoc).

(** ** trimming *)
Lemma trimmed_trim s : trimmed s = true -> trim s = s.
Proof.
  unfold trimmed. intros H. apply andb_true_iff in H as [H1 H2].
  apply trim_id; [destruct (starts_ws s)|destruct (ends_ws s)]; auto; discriminate.
Qed.
Lemma trim_start_spaces k : trim_start (repeat 32 k) = [].
Proof. induction k as [|k IH]; [reflexivity|]. cbn [repeat trim_start]. change (is_ws 32) with true. exact IH. Qed.
Lemma trim_start_spaces_app k s : trim_start (repeat 32 k ++ s) = trim_start s.
Proof. induction k as [|k IH]; [reflexivity|]. cbn [repeat app trim_start]. change (is_ws 32) with true. exact IH. Qed.
Lemma rev_repeat {A} (x : A) k : rev (repeat x k) = repeat x k.
Proof.
  induction k as [|k IH]; [reflexivity|]. cbn [repeat rev]. rewrite IH.
  symmetry. apply repeat_cons.
Qed.
Lemma trim_padded s k : trimmed s = true -> trim (s ++ repeat 32 k) = s.
Proof.
  unfold trimmed. intros H. apply andb_true_iff in H as [H1 H2].
  apply negb_true_iff in H1, H2. unfold trim, trim_end.
  destruct s as [|c s].
  - cbn [app]. rewrite trim_start_spaces. reflexivity.
  - assert (E : trim_start ((c :: s) ++ repeat 32 k) = (c :: s) ++ repeat 32 k).
    { cbn [app trim_start]. cbn [starts_ws] in H1. rewrite H1. reflexivity. }
    rewrite E, rev_app_distr, rev_repeat, trim_start_spaces_app.
    unfold ends_ws in H2. rewrite (trim_start_id _ H2). apply rev_involutive.
Qed.
Lemma firstn_repeat_le {A} (x : A) k n : (k <= n)%nat -> firstn k (repeat x n) = repeat x k.
Proof.
  revert n. induction k as [|k IH]; intros n H; [reflexivity|].
  destruct n as [|n]; [lia|]. cbn [repeat firstn]. rewrite IH by lia. reflexivity.
Qed.
Lemma pad16_short s : len s <= 16 -> pad16 s = s ++ repeat 32 (16 - length s).
Proof.
  intros H. unfold pad16, len in *. rewrite firstn_app.
  rewrite firstn_all2 by lia. f_equal. apply firstn_repeat_le. lia.
Qed.
Lemma len_pad16 s : len (pad16 s) = 16.
Proof. unfold pad16. rewrite len_firstn, len_app, len_repeat. lia. Qed.
Lemma trim_pad16 s : norm_ae s = true -> trim (pad16 s) = s.
Proof.
  unfold norm_ae. intros H. apply andb_true_iff in H as [H1 H2].
  rewrite pad16_short by lia. apply trim_padded. exact H1.
Qed.

(** ** item headers *)
Lemma r_hdr_item t c rest :
  fits16 c = true -> r_hdr (item t c ++ rest) = ret (t, len c, c ++ rest).
Proof.
  intros H. unfold fits16 in H. unfold r_hdr, item. cbn [app u8 inc rbind].
  rewrite <- app_assoc, u16_be16 by lia. reflexivity.
Qed.
Lemma length_item t c : length (item t c) = (4 + length c)%nat.
Proof. unfold item. cbn [length]. rewrite app_length. unfold be16. rewrite be_bytes_length. lia. Qed.
Lemma item_cons t c : exists x l, item t c = x :: l.
Proof. unfold item. eauto. Qed.

(** ** proposed presentation context (0x20) *)
Lemma pcp_loop_step fuel t c rest abs acc :
  fits16 c = true ->
  r_pcp_loop (S fuel) (item t c ++ rest) abs acc =
  if t =? 48 then r_pcp_loop fuel rest (Some (trim c)) acc
  else if t =? 64 then r_pcp_loop fuel rest abs (acc ++ [trim c])
  else Err E_PcSubItem.
Proof.
  intros H. destruct (item_cons t c) as (x & l & E).
  cbn [r_pcp_loop]. rewrite E at 1. cbn [app]. rewrite r_hdr_item by exact H.
  cbn [rbind ret]. rewrite take_app. cbn [inc rbind]. reflexivity.
Qed.
Lemma pcp_loop_ts tss : forall fuel abs acc,
  forallb fits16 tss = true -> forallb trimmed tss = true ->
  (length (concat (map (item 64) tss)) <= fuel)%nat ->
  r_pcp_loop fuel (concat (map (item 64) tss)) abs acc = ret (abs, acc ++ tss).
Proof.
  induction tss as [|x tss IH]; intros fuel abs acc Hf Ht Hl.
  - cbn [map concat]. destruct fuel; cbn [r_pcp_loop]; rewrite app_nil_r; reflexivity.
  - cbn [map concat forallb] in *. apply andb_true_iff in Hf as [Hf1 Hf2]. apply andb_true_iff in Ht as [Ht1 Ht2].
    rewrite app_length, length_item in Hl. destruct fuel as [|fuel]; [lia|].
    rewrite pcp_loop_step by exact Hf1. ev_eqb. cbv iota.
    rewrite IH by (auto; lia). rewrite trimmed_trim by exact Ht1. rewrite <- app_assoc. reflexivity.
Qed.
Lemma r_pc_proposed_rt p :
  fits_pc_proposed p = true -> norm_pc_proposed p = true ->
  r_pc_proposed (c_pc_proposed p) = ret p.
Proof.
  destruct p as [id abs tss]. unfold fits_pc_proposed, norm_pc_proposed, c_pc_proposed. cbn [pp_id pp_abstract pp_ts].
  intros Hf Hn. apply andb_true_iff in Hf as [Hf Hc]. apply andb_true_iff in Hf as [Hf1 Hf2].
  apply andb_true_iff in Hn as [Hn1 Hn2].
  unfold r_pc_proposed. cbn [app u8 inc rbind].
  rewrite app_length, length_item. cbn [Nat.add].
  rewrite pcp_loop_step by exact Hf1. ev_eqb. cbv iota.
  rewrite pcp_loop_ts by (auto; lia). cbn [rbind ret app]. rewrite trimmed_trim by exact Hn1. reflexivity.
Qed.

(** ** presentation context result (0x21) *)
Lemma pc_reason_of_code r : pc_reason_of (pc_reason_code r) = Some r.
Proof. destruct r; reflexivity. Qed.
Lemma r_pc_result_rt p :
  fits_pc_result p = true -> norm_pc_result p = true ->
  r_pc_result (c_pc_result p) = ret p.
Proof.
  destruct p as [id reason ts]. unfold fits_pc_result, norm_pc_result, c_pc_result. cbn [pr_id pr_reason pr_ts].
  intros Hf Hn. apply andb_true_iff in Hf as [Hf1 Hc].
  unfold r_pc_result. cbn [app u8 inc rbind]. rewrite pc_reason_of_code. cbn [u8 inc rbind].
  rewrite length_item. cbn [Nat.add].
  destruct (item_cons 64 ts) as (x & l & E). cbn [r_pcr_loop]. rewrite E at 1.
  rewrite <- (app_nil_r (item 64 ts)). rewrite r_hdr_item by exact Hf1. cbn [rbind ret]. ev_eqb. cbv iota.
  rewrite app_nil_r, take_all. cbn [inc rbind].
  destruct (length ts); cbn [r_pcr_loop rbind ret]; rewrite trimmed_trim by exact Hn; reflexivity.
Qed.

(** ** user information sub-items (0x50) *)
Lemma identity_of_code ty : identity_of (identity_code ty) = Some ty.
Proof. destruct ty; reflexivity. Qed.
Lemma b2n_nonzero b : negb (b2n b =? 0) = b.
Proof. destruct b; reflexivity. Qed.
Lemma b2n_one b : (b2n b =? 1) = b.
Proof. destruct b; reflexivity. Qed.

Lemma r_user_sub_rt v rest :
  fits_user_var v = true -> norm_user_var v = true ->
  r_user_sub (e_user_var v ++ rest) = ret ([v], rest).
Proof.
  unfold fits_user_var, norm_user_var, e_user_var, r_user_sub. intros Hf Hn.
  apply andb_true_iff in Hf as [Hf Hc]. rewrite r_hdr_item by exact Hc. cbn [rbind ret].
  destruct v as [t d|n|s|s|uid d|uid scu scp|pos ty prim sec]; cbn [t_user_var c_user_var] in *.
  - (* Unknown *)
    unfold known_user_type in Hn.
    replace (t =? 81) with false by lia. replace (t =? 82) with false by lia.
    replace (t =? 84) with false by lia. replace (t =? 85) with false by lia.
    replace (t =? 86) with false by lia. replace (t =? 88) with false by lia.
    rewrite take_app. reflexivity.
  - (* MaxLength *)
    ev_eqb. cbv iota. rewrite u32_be32 by lia. reflexivity.
  - (* ImplClassUid *)
    ev_eqb. cbv iota. rewrite take_app. cbn [inc rbind]. rewrite trimmed_trim by exact Hn. reflexivity.
  - (* ImplVersion *)
    ev_eqb. cbv iota. rewrite take_app. cbn [inc rbind]. rewrite trimmed_trim by exact Hn. reflexivity.
  - (* SopExt *)
    ev_eqb. cbv iota. unfold lp16. norm_l. unfold fits16 in *. rewrite len_app, len_lp16 in Hc.
    rewrite u16_be16 by lia. cbn [inc rbind].
    repeat match goal with
    | |- context [?a <? ?b] => replace (a <? b) with false by (rewrite ?len_app, ?len_be16; lia)
    end.
    rewrite take_app. cbn [must rbind].
    rewrite take_app' by (rewrite ?len_app, ?len_be16; lia).
    cbn [inc rbind]. rewrite trimmed_trim by exact Hn. reflexivity.
  - (* Role *)
    ev_eqb. cbv iota. unfold lp16. norm_l. unfold fits16 in *.
    rewrite u16_be16 by lia. cbn [inc rbind]. rewrite take_app. cbn [inc rbind u8].
    rewrite !b2n_nonzero, trimmed_trim by exact Hn. reflexivity.
  - (* Identity *)
    ev_eqb. cbv iota. unfold lp16. norm_l. cbn [u8 inc rbind]. unfold fits16 in *.
    apply andb_true_iff in Hf as [Hp Hs].
    rewrite u16_be16 by lia. cbn [inc rbind]. rewrite take_app. cbn [inc rbind].
    rewrite u16_be16 by lia. cbn [inc rbind]. rewrite take_app. cbn [inc rbind].
    rewrite identity_of_code, b2n_one. reflexivity.
Qed.

Lemma length_e_user_var v : (4 <= length (e_user_var v))%nat.
Proof. unfold e_user_var. rewrite length_item. lia. Qed.
Lemma user_loop_step fuel b :
  b <> [] ->
  r_user_loop (S fuel) b = (' (vs, b') <-? r_user_sub b ;; rest <-? r_user_loop fuel b' ;; ret (vs ++ rest)).
Proof. destruct b; [congruence|reflexivity]. Qed.
Lemma item_app_nonnil t c rest : item t c ++ rest <> [].
Proof. destruct (item_cons t c) as (x & l & ->). discriminate. Qed.
Lemma r_user_loop_rt uvs : forall fuel,
  forallb fits_user_var uvs = true -> forallb norm_user_var uvs = true ->
  (length (concat (map e_user_var uvs)) <= fuel)%nat ->
  r_user_loop fuel (concat (map e_user_var uvs)) = ret uvs.
Proof.
  induction uvs as [|v uvs IH]; intros fuel Hf Hn Hl.
  - destruct fuel; reflexivity.
  - cbn [map concat forallb] in *. apply andb_true_iff in Hf as [Hf1 Hf2]. apply andb_true_iff in Hn as [Hn1 Hn2].
    rewrite app_length in Hl. pose proof (length_e_user_var v).
    destruct fuel as [|fuel]; [lia|].
    rewrite user_loop_step by apply item_app_nonnil.
    rewrite r_user_sub_rt by assumption. cbn [rbind ret].
    rewrite IH by (auto; lia). reflexivity.
Qed.

(** ** variable items of A-ASSOCIATE-RQ/AC *)
Lemma r_var_app_context s rest :
  fits16 s = true -> r_var (item 16 s ++ rest) = ret (ViAppContext s, rest).
Proof.
  intros H. unfold r_var. rewrite r_hdr_item by exact H. cbn [rbind ret].
  rewrite take_app. cbn [inc rbind]. ev_eqb. reflexivity.
Qed.
Lemma r_var_pc_proposed p rest :
  fits_pc_proposed p = true -> norm_pc_proposed p = true ->
  r_var (e_pc_proposed p ++ rest) = ret (ViPcProposed p, rest).
Proof.
  intros Hf Hn. unfold r_var, e_pc_proposed.
  assert (Hc : fits16 (c_pc_proposed p) = true).
  { unfold fits_pc_proposed in Hf. apply andb_true_iff in Hf as [_ Hc]. exact Hc. }
  rewrite r_hdr_item by exact Hc. cbn [rbind ret]. rewrite take_app. cbn [inc rbind]. ev_eqb. cbv iota.
  rewrite r_pc_proposed_rt by assumption. reflexivity.
Qed.
Lemma r_var_pc_result p rest :
  fits_pc_result p = true -> norm_pc_result p = true ->
  r_var (e_pc_result p ++ rest) = ret (ViPcResult p, rest).
Proof.
  intros Hf Hn. unfold r_var, e_pc_result.
  assert (Hc : fits16 (c_pc_result p) = true).
  { unfold fits_pc_result in Hf. apply andb_true_iff in Hf as [_ Hc]. exact Hc. }
  rewrite r_hdr_item by exact Hc. cbn [rbind ret]. rewrite take_app. cbn [inc rbind]. ev_eqb. cbv iota.
  rewrite r_pc_result_rt by assumption. reflexivity.
Qed.
Lemma r_var_user_vars uvs rest :
  fits_user_vars uvs = true -> forallb norm_user_var uvs = true ->
  r_var (item 80 (concat (map e_user_var uvs)) ++ rest) = ret (ViUserVars uvs, rest).
Proof.
  intros Hf Hn. unfold fits_user_vars in Hf. apply andb_true_iff in Hf as [Hf Hc].
  unfold r_var. rewrite r_hdr_item by exact Hc. cbn [rbind ret]. rewrite take_app. cbn [inc rbind]. ev_eqb. cbv iota.
  rewrite r_user_loop_rt by (auto; lia). reflexivity.
Qed.

Lemma vars_loop_step rq fuel b a :
  b <> [] ->
  r_vars_loop rq (S fuel) b a =
  match r_var b with
  | Ok None => Err E_ReadUserVariable
  | Err e => Err e
  | Panic w => Panic w
  | Ok (Some (ViAppContext s, b)) =>
      r_vars_loop rq fuel b {| acc_app := Some s; acc_pp := acc_pp a; acc_pr := acc_pr a; acc_uv := acc_uv a |}
  | Ok (Some (ViUserVars l, b)) =>
      r_vars_loop rq fuel b {| acc_app := acc_app a; acc_pp := acc_pp a; acc_pr := acc_pr a; acc_uv := l |}
  | Ok (Some (ViPcProposed p, b)) =>
      if rq then r_vars_loop rq fuel b {| acc_app := acc_app a; acc_pp := acc_pp a ++ [p]; acc_pr := acc_pr a; acc_uv := acc_uv a |}
      else Err E_InvalidPduVariable
  | Ok (Some (ViPcResult p, b)) =>
      if rq then Err E_InvalidPduVariable
      else r_vars_loop rq fuel b {| acc_app := acc_app a; acc_pp := acc_pp a; acc_pr := acc_pr a ++ [p]; acc_uv := acc_uv a |}
  | Ok (Some (ViUnknown _, _)) => Err E_InvalidPduVariable
  end.
Proof. destruct b; [congruence|reflexivity]. Qed.

Lemma length_e_user_vars_pos v uvs : (4 <= length (e_user_vars (v :: uvs)))%nat.
Proof. unfold e_user_vars. rewrite length_item. lia. Qed.

(* the tail of the variable part: the (optional) user information item *)
Lemma vars_loop_uvs rq uvs fuel a :
  acc_uv a = [] ->
  fits_user_vars uvs = true -> forallb norm_user_var uvs = true ->
  (length (e_user_vars uvs) <= fuel)%nat ->
  r_vars_loop rq fuel (e_user_vars uvs) a =
  Ok {| acc_app := acc_app a; acc_pp := acc_pp a; acc_pr := acc_pr a; acc_uv := uvs |}.
Proof.
  intros Ha Hf Hn Hl. destruct uvs as [|v uvs].
  - cbn [e_user_vars]. destruct a; cbn in Ha; subst. destruct fuel; reflexivity.
  - pose proof (length_e_user_vars_pos v uvs). destruct fuel as [|fuel]; [lia|].
    unfold e_user_vars in *. rewrite <- (app_nil_r (item 80 _)).
    rewrite vars_loop_step by apply item_app_nonnil.
    rewrite r_var_user_vars by assumption. cbn [ret]. destruct fuel; reflexivity.
Qed.

Lemma vars_loop_pcp pcs : forall uvs fuel a,
  acc_uv a = [] ->
  forallb fits_pc_proposed pcs = true -> forallb norm_pc_proposed pcs = true ->
  fits_user_vars uvs = true -> forallb norm_user_var uvs = true ->
  (length (concat (map e_pc_proposed pcs) ++ e_user_vars uvs) <= fuel)%nat ->
  r_vars_loop true fuel (concat (map e_pc_proposed pcs) ++ e_user_vars uvs) a =
  Ok {| acc_app := acc_app a; acc_pp := acc_pp a ++ pcs; acc_pr := acc_pr a; acc_uv := uvs |}.
Proof.
  induction pcs as [|p pcs IH]; intros uvs fuel a Ha Hf Hn Hfu Hnu Hl.
  - cbn [map concat app] in *. rewrite app_nil_r. apply vars_loop_uvs; assumption.
  - cbn [map concat forallb] in *. apply andb_true_iff in Hf as [Hf1 Hf2]. apply andb_true_iff in Hn as [Hn1 Hn2].
    rewrite <- app_assoc in *. rewrite app_length in Hl. unfold e_pc_proposed in Hl at 1. rewrite length_item in Hl.
    destruct fuel as [|fuel]; [lia|].
    rewrite vars_loop_step by (unfold e_pc_proposed; apply item_app_nonnil).
    rewrite r_var_pc_proposed by assumption. cbn [ret].
    rewrite IH by (auto; cbn [acc_uv]; try lia). cbn [acc_app acc_pp acc_pr]. rewrite <- app_assoc. reflexivity.
Qed.
Lemma vars_loop_pcr pcs : forall uvs fuel a,
  acc_uv a = [] ->
  forallb fits_pc_result pcs = true -> forallb norm_pc_result pcs = true ->
  fits_user_vars uvs = true -> forallb norm_user_var uvs = true ->
  (length (concat (map e_pc_result pcs) ++ e_user_vars uvs) <= fuel)%nat ->
  r_vars_loop false fuel (concat (map e_pc_result pcs) ++ e_user_vars uvs) a =
  Ok {| acc_app := acc_app a; acc_pp := acc_pp a; acc_pr := acc_pr a ++ pcs; acc_uv := uvs |}.
Proof.
  induction pcs as [|p pcs IH]; intros uvs fuel a Ha Hf Hn Hfu Hnu Hl.
  - cbn [map concat app] in *. rewrite app_nil_r. apply vars_loop_uvs; assumption.
  - cbn [map concat forallb] in *. apply andb_true_iff in Hf as [Hf1 Hf2]. apply andb_true_iff in Hn as [Hn1 Hn2].
    rewrite <- app_assoc in *. rewrite app_length in Hl. unfold e_pc_result in Hl at 1. rewrite length_item in Hl.
    destruct fuel as [|fuel]; [lia|].
    rewrite vars_loop_step by (unfold e_pc_result; apply item_app_nonnil).
    rewrite r_var_pc_result by assumption. cbn [ret].
    rewrite IH by (auto; cbn [acc_uv]; try lia). cbn [acc_app acc_pp acc_pr]. rewrite <- app_assoc. reflexivity.
Qed.

(** ** A-ASSOCIATE-RQ / -AC bodies *)
Lemma len_assoc_head ver called calling : len (e_assoc_head ver called calling) = 68.
Proof.
  unfold e_assoc_head. rewrite !len_app, len_be16, !len_pad16, len_repeat. reflexivity.
Qed.

Lemma r_assoc_rq ver calling called apc pcs uvs :
  let p := AssocRQ ver calling called apc pcs uvs in
  latin_pdu p = true -> fits_pdu p = true -> norm_pdu p = true ->
  r_assoc true (e_body p) = Ok p.
Proof.
  intros p Hl Hf Hn. subst p. unfold latin_pdu, fits_pdu, norm_pdu in *. cbn [e_body] in *.
  repeat match goal with H : _ && _ = true |- _ => apply andb_true_iff in H as [? ?] end.
  unfold r_assoc. rewrite len_app, len_assoc_head.
  replace (68 + _ <? 68) with false by lia.
  unfold e_assoc_head. norm_l. rewrite u16_be16 by lia.
  change (take 2 (0 :: 0 :: ?x)) with (take (len [0; 0]) ([0; 0] ++ x)). rewrite take_app.
  rewrite (take_app' 16 (pad16 called)) by (rewrite len_pad16; reflexivity).
  rewrite (take_app' 16 (pad16 calling)) by (rewrite len_pad16; reflexivity).
  rewrite (take_app' 32 (repeat 0 32)) by reflexivity.
  (* application context item, then the presentation contexts and the user information *)
  rewrite app_length, length_item. cbn [Nat.add].
  rewrite vars_loop_step by apply item_app_nonnil.
  rewrite r_var_app_context by assumption. cbn [ret acc0 acc_app acc_pp acc_pr acc_uv].
  rewrite vars_loop_pcp by (auto; lia). cbn [bind acc_app acc_pp acc_uv app].
  rewrite !trim_pad16 by assumption. reflexivity.
Qed.
Lemma r_assoc_ac ver calling called apc pcs uvs :
  let p := AssocAC ver calling called apc pcs uvs in
  latin_pdu p = true -> fits_pdu p = true -> norm_pdu p = true ->
  r_assoc false (e_body p) = Ok p.
Proof.
  intros p Hl Hf Hn. subst p. unfold latin_pdu, fits_pdu, norm_pdu in *. cbn [e_body] in *.
  repeat match goal with H : _ && _ = true |- _ => apply andb_true_iff in H as [? ?] end.
  unfold r_assoc. rewrite len_app, len_assoc_head.
  replace (68 + _ <? 68) with false by lia.
  unfold e_assoc_head. norm_l. rewrite u16_be16 by lia.
  change (take 2 (0 :: 0 :: ?x)) with (take (len [0; 0]) ([0; 0] ++ x)). rewrite take_app.
  rewrite (take_app' 16 (pad16 called)) by (rewrite len_pad16; reflexivity).
  rewrite (take_app' 16 (pad16 calling)) by (rewrite len_pad16; reflexivity).
  rewrite (take_app' 32 (repeat 0 32)) by reflexivity.
  rewrite app_length, length_item. cbn [Nat.add].
  rewrite vars_loop_step by apply item_app_nonnil.
  rewrite r_var_app_context by assumption. cbn [ret acc0 acc_app acc_pp acc_pr acc_uv].
  rewrite vars_loop_pcr by (auto; lia). cbn [bind acc_app acc_pr acc_uv app].
  rewrite !trim_pad16 by assumption. reflexivity.
Qed.

(** ** P-DATA-TF *)
Lemma pdv_flags c l :
  N.testbit (b2n c + 2 * b2n l) 0 = c /\ N.testbit (b2n c + 2 * b2n l) 1 = l.
Proof. destruct c, l; split; reflexivity. Qed.
Lemma pdv_step fuel b :
  b <> [] ->
  r_pdv_loop (S fuel) b =
  if len b <? 6 then Err E_FieldLength else
  match u32 b with
  | Some (il, id :: h :: b) =>
      if il <? 2 then Err E_ItemLength
      else match take (il - 2) b with
           | None => Err E_FieldLength
           | Some (d, b) =>
               rest <- r_pdv_loop fuel b ;;
               Ok ({| pdv_id := id; pdv_command := N.testbit h 0; pdv_last := N.testbit h 1; pdv_data := d |} :: rest)
           end
  | _ => Panic 1
  end.
Proof. destruct b; [congruence|reflexivity]. Qed.
Lemma pdv_loop_step fuel v rest :
  fits_pdv v = true ->
  r_pdv_loop (S fuel) (e_pdv v ++ rest) = (r <- r_pdv_loop fuel rest ;; Ok (v :: r)).
Proof.
  intros H. unfold fits_pdv in H. destruct v as [id c l d]. unfold e_pdv. cbn [pdv_id pdv_command pdv_last pdv_data] in *.
  rewrite pdv_step by (rewrite be32_eq; discriminate).
  norm_l.
  replace (len _ <? 6) with false by (rewrite len_app, len_be32, !len_cons; lia).
  rewrite u32_be32 by lia.
  replace (2 + len d <? 2) with false by lia.
  rewrite take_app' by lia.
  destruct (pdv_flags c l) as [-> ->]. reflexivity.
Qed.
Lemma length_e_pdv v : (6 <= length (e_pdv v))%nat.
Proof. unfold e_pdv. rewrite app_length. unfold be32. rewrite be_bytes_length. cbn [length]. lia. Qed.
Lemma r_pdv_loop_rt vs : forall fuel,
  forallb fits_pdv vs = true -> (length (concat (map e_pdv vs)) <= fuel)%nat ->
  r_pdv_loop fuel (concat (map e_pdv vs)) = Ok vs.
Proof.
  induction vs as [|v vs IH]; intros fuel Hf Hl.
  - destruct fuel; reflexivity.
  - cbn [map concat forallb] in *. apply andb_true_iff in Hf as [Hf1 Hf2].
    rewrite app_length in Hl. pose proof (length_e_pdv v). destruct fuel as [|fuel]; [lia|].
    rewrite pdv_loop_step by exact Hf1. rewrite IH by (auto; lia). reflexivity.
Qed.

(** ** fixed PDUs *)
Lemma rj_result_of_code r : rj_result_of (rj_result_code r) = Some r.
Proof. destruct r; reflexivity. Qed.
Lemma rj_source_of_codes s :
  norm_rj_source s = true -> rj_source_of (fst (rj_source_codes s)) (snd (rj_source_codes s)) = Some s.
Proof.
  destruct s as [[| | | |x]|[|]|[| |x]]; cbn [norm_rj_source]; intros H; try reflexivity.
  - rewrite !orb_true_iff, !N.eqb_eq in H. destruct H as [[[[[->| ->]| ->]| ->]| ->]| ->]; reflexivity.
  - rewrite !orb_true_iff, !N.eqb_eq in H. destruct H as [[[[[->| ->]| ->]| ->]| ->]| ->]; reflexivity.
Qed.
Lemma abort_source_of_codes s : abort_source_of (fst (abort_codes s)) (snd (abort_codes s)) = Some s.
Proof. destruct s as [|[]|]; reflexivity. Qed.

(** ** every PDU body *)
Theorem r_body_rt p :
  latin_pdu p = true -> fits_pdu p = true -> norm_pdu p = true ->
  r_body (pdu_type p) (e_body p) = Ok p.
Proof.
  intros Hl Hf Hn.
  destruct p as [t d|ver calling called apc pcs uvs|ver calling called apc pcs uvs|r s|vs| | |s].
  - (* Unknown *)
    cbn [pdu_type e_body norm_pdu] in *. unfold known_pdu_type in Hn. unfold r_body.
    replace (t =? 1) with false by lia. replace (t =? 2) with false by lia.
    replace (t =? 3) with false by lia. replace (t =? 4) with false by lia.
    replace (t =? 5) with false by lia. replace (t =? 6) with false by lia.
    replace (t =? 7) with false by lia. reflexivity.
  - unfold r_body. cbn [pdu_type]. ev_eqb. cbv iota. apply r_assoc_rq; assumption.
  - unfold r_body. cbn [pdu_type]. ev_eqb. cbv iota. apply r_assoc_ac; assumption.
  - unfold r_body. cbn [pdu_type e_body norm_pdu] in *. ev_eqb. cbv iota.
    rewrite rj_result_of_code, rj_source_of_codes by exact Hn. reflexivity.
  - unfold r_body. cbn [pdu_type e_body fits_pdu] in *. ev_eqb. cbv iota.
    apply andb_true_iff in Hf as [Hf _]. rewrite r_pdv_loop_rt by (auto; lia). reflexivity.
  - reflexivity.
  - reflexivity.
  - unfold r_body. cbn [pdu_type e_body]. ev_eqb. cbv iota. rewrite abort_source_of_codes. reflexivity.
Qed.

(** * The round trip, and framing, on the written bytes *)
Lemma fits_pdu_body p : fits_pdu p = true -> len (e_body p) < 4294967296.
Proof. unfold fits_pdu, fits32. intros H. apply andb_true_iff in H as [_ H]. lia. Qed.

Theorem read_write_rt max strict p b rest :
  wf_pdu p = true -> max_ok max = true -> write_pdu p = Ok b ->
  (strict = false \/ len b - 6 <= max) ->
  read_pdu max strict (b ++ rest) = Ok (Some (p, rest)).
Proof.
  unfold wf_pdu. intros Hw Hm Hb Hs. apply andb_true_iff in Hw as [Hw Hn]. apply andb_true_iff in Hw as [Hl Hf].
  rewrite write_ok in Hb by assumption. injection Hb as <-.
  rewrite e_pdu_frame in *. pose proof (fits_pdu_body p Hf).
  rewrite read_frame; [rewrite r_body_rt by assumption; reflexivity|assumption|assumption|].
  destruct Hs as [Hs|Hs]; [left; exact Hs|right].
  unfold len in *. rewrite length_frame in Hs. lia.
Qed.

Theorem read_prefix_incomplete max strict p b k :
  max_ok max = true -> write_pdu p = Ok b ->
  (strict = false \/ len b - 6 <= max) ->
  (k < length b)%nat ->
  read_pdu max strict (firstn k b) = Ok None.
Proof.
  intros Hm Hb Hs Hk. apply write_inv in Hb as (-> & Hl & Hf).
  rewrite e_pdu_frame in *. pose proof (fits_pdu_body p Hf).
  apply read_frame_prefix; try assumption.
  destruct Hs as [Hs|Hs]; [left; exact Hs|right].
  unfold len in *. rewrite length_frame in Hs. lia.
Qed.

Theorem read_strict_rejects max p b rest :
  max_ok max = true -> write_pdu p = Ok b -> max < len b - 6 ->
  read_pdu max true (b ++ rest) = Err E_PduTooLarge.
Proof.
  intros Hm Hb Hs. apply write_inv in Hb as (-> & Hl & Hf).
  pose proof (fits_pdu_body p Hf). unfold e_pdu in *. cbn [app]. rewrite <- app_assoc.
  apply read_strict_too_large; try assumption.
  rewrite !len_cons, len_app, len_be32 in Hs. lia.
Qed.
