(** Lemmas about Model/DateTime.v (C12): no parser can panic, whatever the bytes.
    Every place of the Rust code that can panic on SOME input is an explicit [Panic] in the
    model (overflow of the digit fold of read_number in its target type, [u8::try_from(n).unwrap()],
    the u32 products of from_hmsf / earliest / latest, [6 - fp]); slice indexing is total in the
    model ([firstn]/[skipn]) and guarded in the code by the same length tests that the model has. *)
From DicomV Require Import Base.Prelude Model.DateTime Proofs.DateTimeP Proofs.DateTimeTP
  Proofs.DateTimeCalP Proofs.DateTimeCtorP.
From Coq Require Import ZifyBool ZifyNat ZifyN.
Ltac Zify.zify_post_hook ::= Z.div_mod_to_equations.
Local Open Scope N_scope.

(** * Numbers *)
Lemma digits_val_bound l acc :
  forallb is_digit l = true -> digits_val acc l < (acc + 1) * 10 ^ N.of_nat (length l).
Proof.
  revert acc; induction l as [|b l IH]; intros acc H; cbn [digits_val length].
  - cbn. lia.
  - cbn [forallb] in H. apply andb_true_iff in H as [Hb Hl]. apply is_digit_spec in Hb.
    specialize (IH (acc * 10 + (b - 48)) Hl).
    rewrite Nat2N.inj_succ, N.pow_succ_r'.
    assert (0 < 10 ^ N.of_nat (length l)) by (apply N.neq_0_lt_0, N.pow_nonzero; lia).
    nia.
Qed.

Lemma read_digits_bound t v : read_digits t = Ok v -> v < 10 ^ N.of_nat (length t).
Proof.
  unfold read_digits. destruct ((length t =? 0)%nat || (9 <? length t)%nat); [discriminate|].
  destruct (forallb is_digit t) eqn:E; [|discriminate]. intros H; inversion H; subst.
  pose proof (digits_val_bound t 0 E). lia.
Qed.

Lemma read_number_bound max t v : read_number max t = Ok v -> v < 10 ^ N.of_nat (length t).
Proof.
  unfold read_number. destruct (read_digits t) as [x| |] eqn:E; cbn [bind]; try discriminate.
  destruct (max <? x); [discriminate|]. intros H; inversion H; subst. eapply read_digits_bound, E.
Qed.

Lemma read_number_np max k b w :
  10 ^ N.of_nat k <= max + 1 -> read_number max (firstn k b) <> Panic w.
Proof.
  intros Hk. unfold read_number. destruct (read_digits (firstn k b)) as [x| |] eqn:E; cbn [bind]; try discriminate.
  2:{ exfalso. revert E. unfold read_digits.
      destruct ((length (firstn k b) =? 0)%nat || (9 <? length (firstn k b))%nat); [discriminate|].
      destruct (forallb is_digit (firstn k b)); discriminate. }
  apply read_digits_bound in E.
  assert (10 ^ N.of_nat (length (firstn k b)) <= 10 ^ N.of_nat k).
  { apply N.pow_le_mono_r; [lia|]. pose proof (firstn_le_length k b). lia. }
  assert (max <? x = false) as -> by lia. discriminate.
Qed.

Lemma rn_u8_2 b w : read_number 255 (firstn 2 b) <> Panic w.
Proof. apply read_number_np. cbn. lia. Qed.
Lemma rn_u16_4 b w : read_number 65535 (firstn 4 b) <> Panic w.
Proof. apply read_number_np. cbn. lia. Qed.
Lemma rn_i32_4 b w : read_number 2147483647 (firstn 4 b) <> Panic w.
Proof. apply read_number_np. cbn. lia. Qed.
Lemma rn_u32_2 b w : read_number 4294967295 (firstn 2 b) <> Panic w.
Proof. apply read_number_np. cbn. lia. Qed.
Lemma rn_u32_min6 x b w : read_number 4294967295 (firstn (Nat.min 6 x) b) <> Panic w.
Proof.
  apply read_number_np.
  assert (10 ^ N.of_nat (Nat.min 6 x) <= 10 ^ 6) by (apply N.pow_le_mono_r; lia).
  change (10 ^ 6) with 1000000 in *. lia.
Qed.

(** * Constructors *)
Lemma from_y_np y w : from_y y <> Panic w.
Proof. unfold from_y. destruct (ok_year y); discriminate. Qed.
Lemma from_ym_np y m w : from_ym y m <> Panic w.
Proof. unfold from_ym. destruct (ok_year y), (ok_month m); discriminate. Qed.
Lemma from_ymd_np y m d w : from_ymd y m d <> Panic w.
Proof. unfold from_ymd. destruct (ok_year y), (ok_month m), (ok_day d); discriminate. Qed.
Lemma from_h_np h w : from_h h <> Panic w.
Proof. unfold from_h. destruct (ok_hour h); discriminate. Qed.
Lemma from_hm_np h m w : from_hm h m <> Panic w.
Proof. unfold from_hm. destruct (ok_hour h), (ok_minute m); discriminate. Qed.
Lemma from_hms_np h m s w : from_hms h m s <> Panic w.
Proof. unfold from_hms. destruct (ok_hour h), (ok_minute m), (ok_second s); discriminate. Qed.
(* the u32 product fraction * 10^(6 - fp) is only computed after fraction <= 10^fp was checked *)
Lemma from_hmsf_np h m s f fp w : from_hmsf h m s f fp <> Panic w.
Proof.
  unfold from_hmsf. destruct (in_range 1 6 fp) eqn:Hfp; cbn [negb]; [|discriminate].
  destruct (10 ^ fp <? f) eqn:Hm; [discriminate|].
  assert (4294967295 <? f * 10 ^ (6 - fp) = false) as ->
    by (destruct (fp_cases fp Hfp) as [->|[->|[->|[->|[->| ->]]]]]; pow10; lia).
  destruct (ok_hour h), (ok_minute m), (ok_second s), (ok_fraction (f * 10 ^ (6 - fp))); discriminate.
Qed.

Lemma ctx_partial_np {A} (o : outcome A) w : (forall w', o <> Panic w') -> ctx_partial o <> Panic w.
Proof. intros H. destruct o; cbn; try discriminate. destruct (H why eq_refl). Qed.
Lemma ctx_partial_ok {A} (o : outcome A) a : ctx_partial o = Ok a -> o = Ok a.
Proof. destruct o; cbn; congruence. Qed.
Lemma ctx_parse_ok {A} (o : outcome A) a : ctx_parse o = Ok a -> o = Ok a.
Proof. destruct o; cbn; congruence. Qed.
Lemma ctx_parse_panic {A} (o : outcome A) w : ctx_parse o = Panic w -> o = Panic w.
Proof. destruct o; cbn; congruence. Qed.

Lemma guard_np b e w : guard b e <> Panic w.
Proof. destruct b; discriminate. Qed.
Lemma of_opt_np {A} (o : option A) e w : of_opt o e <> Panic w.
Proof. destruct o; discriminate. Qed.
Global Hint Resolve guard_np of_opt_np : np.

Global Hint Resolve rn_u8_2 rn_u16_4 rn_i32_4 rn_u32_2 rn_u32_min6 from_y_np from_ym_np from_ymd_np
  from_h_np from_hm_np from_hms_np from_hmsf_np : np.

(** * The crusher: case analysis on every [if]/[match]/[bind] of an unfolded parser in [H] *)
Ltac np_close :=
  exfalso;
  first
  [ lia
  | match goal with
    | E : ctx_partial ?o = Panic ?w |- _ =>
        apply (ctx_partial_np o w); [intros; auto with np|exact E]
    | E : ctx_parse ?o = Panic ?w |- _ =>
        apply ctx_parse_panic in E; apply (fun p : o <> Panic w => p E); solve [auto with np]
    | E : ?t = Panic ?w |- _ => apply (fun p : t <> Panic w => p E); solve [auto with np]
    | E : context [match ?x with _ => _ end] |- _ =>
        lazymatch type of E with _ = Panic _ => idtac end;
        destruct x eqn:?; try discriminate E; np_close
    end ].
Ltac np_step H :=
  cbn [bind map_err guard fst snd of_opt] in H;
  lazymatch type of H with
  | Ok _ = Panic _ => discriminate H
  | Err _ = Panic _ => discriminate H
  | Panic _ = Panic _ => np_close
  | context [bind ?o _] => destruct o eqn:?
  | context [match ?x with _ => _ end] => destruct x eqn:?
  | ?t = Panic ?w => exfalso; apply (fun p : t <> Panic w => p H); solve [auto with np]
  end.
Ltac np H := repeat np_step H.

Lemma parse_date_partial_np s w : parse_date_partial s <> Panic w.
Proof. unfold parse_date_partial. intros H. np H. Qed.
Global Hint Resolve parse_date_partial_np : np.

Lemma parse_time_partial_np s w : parse_time_partial s <> Panic w.
Proof. unfold parse_time_partial. intros H. np H. Qed.
Global Hint Resolve parse_time_partial_np : np.

Lemma fixed_offset_np z w : fixed_offset z <> Panic w.
Proof. unfold fixed_offset. destruct ((-86400 <? z) && (z <? 86400))%Z; discriminate. Qed.
Global Hint Resolve fixed_offset_np : np.

Lemma parse_zone_np s w : parse_zone s <> Panic w.
Proof. unfold parse_zone. intros H. np H. Qed.
Global Hint Resolve parse_zone_np : np.

Lemma from_date_and_time_np d t z w : map_err (fun _ => E_dt_partials) (from_date_and_time d t z) <> Panic w.
Proof. unfold from_date_and_time. destruct (date_precise d); discriminate. Qed.
Global Hint Resolve from_date_and_time_np : np.

Lemma parse_datetime_partial_np s w : parse_datetime_partial s <> Panic w.
Proof. unfold parse_datetime_partial. intros H. np H. Qed.
Global Hint Resolve parse_datetime_partial_np : np.

Lemma parse_date_np s w : parse_date s <> Panic w.
Proof. unfold parse_date. intros H. np H. Qed.

(* parse_time: the padding loop [fraction *= 10] stays below 10^6 *)
Lemma frac_pad_bound max x b v :
  read_number max (firstn (Nat.min 6 x) b) = Ok v ->
  v * 10 ^ (6 - N.of_nat (Nat.min 6 x)) < 1000000.
Proof.
  intros E. apply read_number_bound in E.
  assert (Hl : (length (firstn (Nat.min 6 x) b) <= Nat.min 6 x)%nat) by apply firstn_le_length.
  assert (Hv : v < 10 ^ N.of_nat (Nat.min 6 x)).
  { eapply N.lt_le_trans; [exact E|]. apply N.pow_le_mono_r; lia. }
  clear E Hl. remember (Nat.min 6 x) as n eqn:En.
  assert (n = 0 \/ n = 1 \/ n = 2 \/ n = 3 \/ n = 4 \/ n = 5 \/ n = 6)%nat as Hn by lia.
  clear En. destruct Hn as [->|[->|[->|[->|[->|[->| ->]]]]]]; cbn [N.of_nat Pos.of_succ_nat Pos.succ] in *; pow10; lia.
Qed.

Lemma parse_time_np s w : parse_time s <> Panic w.
Proof.
  unfold parse_time. intros H. np H.
  all: match goal with
       | E : read_number _ (firstn (Nat.min 6 ?x) ?b) = Ok ?v |- _ => pose proof (frac_pad_bound _ x b v E)
       end; lia.
Qed.

(** * Values that come out of the parsers are valid; their bounds cannot panic *)
Lemma from_h_valid h t : from_h h = Ok t -> valid_time t = true.
Proof. intros H. apply (constructed_time_valid h 0 0 0 0 t). auto. Qed.
Lemma from_hm_valid h m t : from_hm h m = Ok t -> valid_time t = true.
Proof. intros H. apply (constructed_time_valid h m 0 0 0 t). auto. Qed.
Lemma from_hms_valid h m s t : from_hms h m s = Ok t -> valid_time t = true.
Proof. intros H. apply (constructed_time_valid h m s 0 0 t). auto. Qed.
Lemma from_hmsf_valid h m s f fp t : from_hmsf h m s f fp = Ok t -> valid_time t = true.
Proof. intros H. apply (constructed_time_valid h m s f fp t). auto 10. Qed.

Ltac ok_step H :=
  cbn [bind map_err guard fst snd of_opt] in H;
  lazymatch type of H with
  | Err _ = Ok _ => discriminate H
  | Panic _ = Ok _ => discriminate H
  | Ok _ = Ok _ => fail
  | context [bind ?o _] => destruct o eqn:?
  | context [match ?x with _ => _ end] => destruct x eqn:?
  end.

Lemma parsed_time_valid s t r : parse_time_partial s = Ok (t, r) -> valid_time t = true.
Proof.
  unfold parse_time_partial. intros H. repeat ok_step H; inversion H; subst;
    repeat match goal with E : ctx_partial _ = Ok _ |- _ => apply ctx_partial_ok in E end;
    eauto using from_h_valid, from_hm_valid, from_hms_valid, from_hmsf_valid.
Qed.

Lemma time_earliest_np t w : valid_time t = true -> time_earliest t <> Panic w.
Proof. intros Hv. rewrite time_earliest_spec by exact Hv. destruct (no_leap_second t); discriminate. Qed.
Lemma time_latest_np t w : valid_time t = true -> time_latest t <> Panic w.
Proof. intros Hv. rewrite time_latest_spec by exact Hv. destruct (no_leap_second t); discriminate. Qed.

Lemma date_earliest_np v w : date_earliest v <> Panic w.
Proof. unfold date_earliest. intros H. np H. Qed.
Lemma date_latest_np v w : date_latest v <> Panic w.
Proof.
  unfold date_latest, from_ymd_opt. destruct v as [y|y m|y m d]; cbn [d_year d_month d_day odef bind];
    repeat match goal with |- context [if ?b then _ else _] => destruct b; cbn [of_opt bind] end; discriminate.
Qed.
Global Hint Resolve date_earliest_np date_latest_np : np.

Definition time_part_valid (v : dicom_dt) : Prop :=
  match dt_time v with Some t => valid_time t = true | None => True end.

Lemma parsed_dt_time_valid s v : parse_datetime_partial s = Ok v -> time_part_valid v.
Proof.
  unfold parse_datetime_partial, time_part_valid. intros H.
  destruct (parse_date_partial s) as [[d rest]| |]; cbn [bind] in H; try discriminate.
  destruct (parse_time_partial rest) as [[t b]| |] eqn:Et; cbn [bind] in H; try discriminate.
  - destruct (parse_zone b); cbn [bind] in H; try discriminate.
    unfold from_date_and_time in H. destruct (date_precise d); cbn in H; try discriminate.
    inversion H; subst. cbn [dt_time]. eapply parsed_time_valid, Et.
  - destruct (parse_zone rest); cbn [bind] in H; try discriminate. inversion H; subst. exact I.
Qed.

Lemma dt_earliest_np v w : time_part_valid v -> dt_earliest v <> Panic w.
Proof.
  unfold time_part_valid, dt_earliest. intros Hv H.
  destruct (date_earliest (dt_date v)) eqn:Ed; cbn [bind] in H; try discriminate.
  - destruct (dt_time v) as [t|]; cbn [bind] in H; [|discriminate].
    destruct (time_earliest t) eqn:Et; cbn [bind] in H; try discriminate.
    exact (time_earliest_np t _ Hv Et).
  - exact (date_earliest_np _ _ Ed).
Qed.
Lemma dt_latest_np v w : time_part_valid v -> dt_latest v <> Panic w.
Proof.
  unfold time_part_valid, dt_latest. intros Hv H.
  destruct (date_latest (dt_date v)) eqn:Ed; cbn [bind] in H; try discriminate.
  - destruct (dt_time v) as [t|]; cbn [bind] in H; [|discriminate].
    destruct (time_latest t) eqn:Et; cbn [bind] in H; try discriminate.
    exact (time_latest_np t _ Hv Et).
  - exact (date_latest_np _ _ Ed).
Qed.

Lemma combine_np mode lo hi w : combine mode lo hi <> Panic w.
Proof.
  destruct mode, lo, hi; cbn [combine amb_start amb_end]; unfold tz_from_start_to_end, naive_from_start_to_end;
    repeat match goal with |- context [if ?b then _ else _] => destruct b end; discriminate.
Qed.
Global Hint Resolve combine_np : np.

(** * Range parsers *)
Lemma parse_date_range_np s w : parse_date_range s <> Panic w.
Proof.
  unfold parse_date_range, date_from_start_to_end. intros H. np H.
Qed.

Lemma time_bounds_of_parsed_np s p w :
  ctx_parse (parse_time_partial s) = Ok p -> time_earliest (fst p) <> Panic w /\ time_latest (fst p) <> Panic w.
Proof.
  intros E. apply ctx_parse_ok in E. destruct p as [t r]. apply parsed_time_valid in E.
  split; [apply time_earliest_np|apply time_latest_np]; exact E.
Qed.

Lemma parse_time_range_np s w : parse_time_range s <> Panic w.
Proof.
  unfold parse_time_range, time_from_start_to_end. intros H.
  repeat (first
    [ match goal with
      | E : ctx_parse (parse_time_partial ?s') = Ok ?p, E2 : time_earliest (fst ?p) = Panic ?w' |- _ =>
          exfalso; exact (proj1 (time_bounds_of_parsed_np s' p w' E) E2)
      | E : ctx_parse (parse_time_partial ?s') = Ok ?p, E2 : time_latest (fst ?p) = Panic ?w' |- _ =>
          exfalso; exact (proj2 (time_bounds_of_parsed_np s' p w' E) E2)
      end
    | np_step H ]).
Qed.

Lemma dt_bounds_of_parsed_np s v w :
  parse_datetime_partial s = Ok v -> dt_earliest v <> Panic w /\ dt_latest v <> Panic w.
Proof.
  intros E. apply parsed_dt_time_valid in E. split; [apply dt_earliest_np|apply dt_latest_np]; exact E.
Qed.

Ltac dt_bounds_close :=
  match goal with
  | E : ctx_parse (parse_datetime_partial ?s') = Ok ?v, E2 : dt_earliest ?v = Panic ?w' |- _ =>
      exfalso; apply ctx_parse_ok in E; exact (proj1 (dt_bounds_of_parsed_np s' v w' E) E2)
  | E : ctx_parse (parse_datetime_partial ?s') = Ok ?v, E2 : dt_latest ?v = Panic ?w' |- _ =>
      exfalso; apply ctx_parse_ok in E; exact (proj2 (dt_bounds_of_parsed_np s' v w' E) E2)
  | E : parse_datetime_partial ?s' = Ok ?v, E2 : dt_earliest ?v = Panic ?w' |- _ =>
      exfalso; exact (proj1 (dt_bounds_of_parsed_np s' v w' E) E2)
  | E : parse_datetime_partial ?s' = Ok ?v, E2 : dt_latest ?v = Panic ?w' |- _ =>
      exfalso; exact (proj2 (dt_bounds_of_parsed_np s' v w' E) E2)
  end.

Lemma split_range_np mode s sep w : split_range mode s sep <> Panic w.
Proof.
  unfold split_range. intros H. repeat (first [dt_bounds_close | np_step H]).
Qed.
Global Hint Resolve split_range_np : np.

Lemma parse_datetime_range_np mode s w : parse_datetime_range mode s <> Panic w.
Proof.
  unfold parse_datetime_range. intros H. repeat (first [dt_bounds_close | np_step H]).
Qed.
