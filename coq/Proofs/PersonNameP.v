From DicomV Require Import Base.Str Proofs.StrP Model.PersonName.

Definition clean_str (s : str) : Prop :=
  no_char caret s /\ starts_ws s = false /\ ends_ws s = false.

Lemma caret_not_ws : is_ws caret = false.
Proof. reflexivity. Qed.

Lemma join_starts ts : Forall clean_str ts -> starts_ws (join caret ts) = false.
Proof.
  induction ts as [|p ts IH]; intros H; [reflexivity|].
  inversion H as [|? ? [_ [Hs _]] Hts]; subst.
  destruct ts as [|q ts]; [exact Hs|].
  change (join caret (p :: q :: ts)) with (p ++ caret :: join caret (q :: ts)).
  destruct p as [|c p]; [reflexivity|exact Hs].
Qed.

Lemma join_ends ts : Forall clean_str ts -> ends_ws (join caret ts) = false.
Proof.
  induction ts as [|p ts IH]; intros H; [reflexivity|].
  inversion H as [|? ? [_ [_ He]] Hts]; subst.
  destruct ts as [|q ts]; [exact He|].
  change (join caret (p :: q :: ts)) with (p ++ caret :: join caret (q :: ts)).
  specialize (IH Hts).
  destruct (join caret (q :: ts)) as [|c r] eqn:E.
  - rewrite ends_ws_app by discriminate. reflexivity.
  - replace (p ++ caret :: c :: r) with ((p ++ [caret]) ++ c :: r)
      by (rewrite <- app_assoc; reflexivity).
    rewrite ends_ws_app by discriminate. exact IH.
Qed.

Lemma clean_comp_text o : clean_comp o = true -> clean_str (comp_text o).
Proof.
  destruct o as [s|]; cbn.
  - rewrite !andb_true_iff, !negb_true_iff. intros [[H1 H2] H3]. repeat split; try assumption.
    unfold no_char. intros Hin. unfold no_charb in H1. rewrite negb_true_iff in H1.
    assert (existsb (N.eqb caret) s = true) as E by (apply existsb_exists; exists caret; split; [exact Hin|apply N.eqb_refl]).
    congruence.
  - intros _. repeat split. intros [].
Qed.

Lemma drop_trailing_none_incl l x : In x (drop_trailing_none l) -> In x l.
Proof.
  induction l as [|y l IH]; cbn; [tauto|].
  destruct (drop_trailing_none l) as [|z r] eqn:E.
  - destruct y; cbn; [|tauto]. intros [->|[]]; left; reflexivity.
  - intros [->|H]; [left; reflexivity|right; apply IH; exact H].
Qed.

Lemma parse_drop (a b c d e : option str) :
  parse_parts (map comp_text (drop_trailing_none [a; b; c; d; e])) =
  mk (map norm_comp [a; b; c; d; e]).
Proof.
  destruct a as [[|? ?]|], b as [[|? ?]|], c as [[|? ?]|], d as [[|? ?]|], e as [[|? ?]|];
    reflexivity.
Qed.

Theorem from_text_to_dicom_string p :
  clean p = true -> from_text (to_dicom_string p) = norm p.
Proof.
  intros Hc. unfold from_text, to_dicom_string.
  set (ts := map comp_text (drop_trailing_none (components p))).
  assert (Hall : Forall clean_str ts).
  { unfold ts. apply Forall_forall. intros s Hs. apply in_map_iff in Hs as [o [<- Ho]].
    apply clean_comp_text. apply drop_trailing_none_incl in Ho.
    unfold clean in Hc. rewrite forallb_forall in Hc. apply Hc; exact Ho. }
  rewrite trim_id by (apply join_starts || apply join_ends; exact Hall).
  destruct ts as [|t ts'] eqn:Ets.
  - (* every component absent *)
    unfold ts, components in Ets. destruct p as [a b c d e]; cbn in Ets |- *.
    destruct a as [?|], b as [?|], c as [?|], d as [?|], e as [?|]; cbn in Ets; try discriminate.
    reflexivity.
  - rewrite split_on_join; [|discriminate|].
    + rewrite <- Ets. unfold ts, components. destruct p as [a b c d e]. cbn [family given middle prefix suffix].
      rewrite parse_drop. reflexivity.
    + eapply Forall_impl; [|exact Hall]. intros s [H _]; exact H.
Qed.

(** Shape lemmas: trailing absent components are omitted, leading ones kept. *)
Lemma to_dicom_string_only_suffix s :
  to_dicom_string {| family := None; given := None; middle := None; prefix := None; suffix := Some s |}
  = [caret; caret; caret; caret] ++ s.
Proof. reflexivity. Qed.

Lemma to_dicom_string_only_family s :
  to_dicom_string {| family := Some s; given := None; middle := None; prefix := None; suffix := None |} = s.
Proof. reflexivity. Qed.

