(** Flat data sets: the writer's bytes are the canonical PS3.5 encoding of the
    padded values (W), hence structurally valid (C04). *)
From Coq Require Import ZifyBool ZifyNat ZifyN.
From DicomV Require Import Base.Endian Model.Vr Model.Header Model.Prim Model.Dataset Model.Writer Spec.Ps35
  Proofs.HeaderP Proofs.PrimP Proofs.WriterP Proofs.ValidP.
Open Scope N_scope.

(** Well-formed primitive element (decidable parts are boolean functions). *)
Definition elem_ok (c : codec) (is_sq : tag -> bool) (e : elem) : Prop :=
  match e with
  | EPrim t v l p =>
      plain e /\ typed v p = true /\ wf_prim p /\ blen (raw_value c v p) < 4294967295 /\
      wf_tag t /\ fst t <> 65534 /\ (c = ILE -> is_sq t = false)
  | _ => False
  end.

(** The canonical (spec-level) element of an in-memory primitive element:
    its value field is the raw value padded with the PS3.5 pad byte. *)
Definition to_c (c : codec) (e : elem) : celem :=
  match e with
  | EPrim t v _ p => CPrim t v (ps35_padded v (raw_value c v p))
  | ESeq t _ _ _ => CSeq t false []
  | EPix _ _ _ ot fr => CPix ot fr
  end.

Lemma elem_ok_plain c is_sq es : Forall (elem_ok c is_sq) es -> Forall plain es.
Proof.
  intros H. induction H as [|e es He Hes IH]; constructor; [|exact IH].
  destruct e; cbn [elem_ok] in He; try contradiction. exact (proj1 He).
Qed.

Lemma enc_flat_canon c is_sq es : forall b,
  Forall (elem_ok c is_sq) es -> enc_flat c es = Ok b ->
  b = canon_encode c (map (to_c c) es) /\ all_cprim_ok c is_sq (map (to_c c) es).
Proof.
  induction es as [|e es IH]; intros b H E.
  - cbn in E. inversion E. split; [reflexivity | exact I].
  - inversion H as [|? ? He Hes]; subst. destruct e as [t v l p| |]; cbn in He; try contradiction.
    destruct He as (Hpl & Hty & Hwf & Hlen & Htag & Hgrp & Hile).
    cbn [enc_flat] in E.
    destruct (enc_prim_element c t v p) as [b1|x|x] eqn:E1; try discriminate.
    destruct (enc_flat c es) as [b2|x|x] eqn:E2; try discriminate.
    inversion E; subst b.
    destruct (enc_prim_element_shape c t v p b1 Hty Hwf Hlen E1) as [S K].
    destruct (IH b2 Hes eq_refl) as [S2 A2].
    cbn [map to_c canon_encode canon_elem all_cprim_ok].
    split.
    + rewrite S, S2. unfold ps35_len, blen. reflexivity.
    + split; [|exact A2].
      unfold cprim_ok. change (ps35_len (ps35_padded v (raw_value c v p))) with (blen (ps35_padded v (raw_value c v p))).
      split; [exact Htag|]. split; [exact Hgrp|]. split; [apply ps35_padded_even|].
      split.
      { rewrite ps35_padded_len by exact Hlen. unfold even_len, clear_low_bit.
        rewrite N.mod_small by lia. pose proof (N.div_mod' (blen (raw_value c v p) + 1) 2).
        pose proof (N.mod_lt (blen (raw_value c v p) + 1) 2).
        destruct (N.eq_dec (blen (raw_value c v p)) 4294967294) as [Eq|Ne].
        - rewrite Eq. vm_compute. reflexivity.
        - lia. }
      split; [|exact Hile].
      intros Hc. split; [exact (proj1 Hpl)|]. intros Hs. apply K; assumption.
Qed.

(** C04 for flat data sets: what the writer produces is structurally valid per
    the independent validator, whatever the strategy and the charset flag. *)
Lemma write_flat_valid c nc inv is_sq es b :
  Forall (elem_ok c is_sq) es -> write_dataset c nc inv es = Ok b -> ps35_valid c is_sq b = true.
Proof.
  intros H E. rewrite write_dataset_flat in E by (apply (elem_ok_plain c is_sq); exact H).
  destruct (enc_flat_canon c is_sq es b H E) as [-> A]. apply ps35_valid_flat. exact A.
Qed.

(** ... and is byte for byte the reference encoding of the padded values. *)
Lemma write_flat_canon c nc inv is_sq es b :
  Forall (elem_ok c is_sq) es -> write_dataset c nc inv es = Ok b -> b = canon_encode c (map (to_c c) es).
Proof.
  intros H E. rewrite write_dataset_flat in E by (apply (elem_ok_plain c is_sq); exact H).
  apply (enc_flat_canon c is_sq es b H E).
Qed.
