(** Lemmas about Base/RustStr.v: UTF-8 structure, digits, integer
    print/parse round trips. *)
From DicomV Require Import Base.RustStr.
From Coq Require Import ZifyBool ZifyNat ZifyN.
(** lia with division/modulo by constants *)
Ltac dlia := zify; Z.div_mod_to_equations; lia.

(** destruct every N comparison in the goal *)
Ltac bdestr :=
  repeat match goal with
  | |- context [?a <=? ?b] => destruct (N.leb_spec a b)
  | |- context [?a <? ?b] => destruct (N.ltb_spec a b)
  | |- context [?a =? ?b] => destruct (N.eqb_spec a b)
  end.
Ltac bdestr_in H :=
  repeat match type of H with
  | context [?a <=? ?b] => destruct (N.leb_spec a b)
  | context [?a <? ?b] => destruct (N.ltb_spec a b)
  | context [?a =? ?b] => destruct (N.eqb_spec a b)
  end.

(** ---- list helpers *)
Lemma nth_error_app_at {A} (a : list A) b c : nth_error (a ++ b :: c) (length a) = Some b.
Proof. induction a; cbn; auto. Qed.

Lemma skipn_app_at {A} (a b : list A) : skipn (length a) (a ++ b) = b.
Proof. induction a; cbn; auto. Qed.

Lemma firstn_app_at {A} (a b : list A) : firstn (length a) (a ++ b) = a.
Proof. induction a; cbn; congruence. Qed.

Lemma nth_error_skipn {A} (s : list A) k i : nth_error (skipn k s) i = nth_error s (k + i).
Proof. revert s; induction k; intros [|x s]; cbn; auto. destruct i; reflexivity. Qed.

(** ---- UTF-8: an ASCII byte is a whole character, so the position after it
    is a character boundary. [ascii_sync] is what the slicing code relies on;
    it is closed under taking suffixes. *)
Definition ascii_sync (s : bytes) : Prop :=
  forall i b, nth_error s i = Some b -> b < 128 ->
    match nth_error s (S i) with Some b' => is_cont b' = false | None => True end.

Lemma utf8_char_shape c :
  (exists b, utf8_char c = [b] /\ b < 128) \/
  (exists l r, utf8_char c = l :: r /\ 192 <= l /\ Forall (fun b => 128 <= b) r).
Proof.
  unfold utf8_char.
  destruct (N.ltb_spec c 128); [left; eexists; split; [reflexivity|assumption]|].
  right. destruct (N.ltb_spec c 2048); [|destruct (N.ltb_spec c 65536)];
    eexists; eexists; (split; [reflexivity|]); (split; [lia|]); repeat constructor; lia.
Qed.

Lemma utf8_head_not_cont cps b rest : utf8 cps = b :: rest -> is_cont b = false.
Proof.
  destruct cps as [|c cps]; cbn; [discriminate|].
  destruct (utf8_char_shape c) as [[x [E Hx]]|[l [r [E [Hl _]]]]]; rewrite E; cbn; intros H; inversion H; subst;
    unfold is_cont; lia.
Qed.

Lemma ascii_sync_app_multibyte l s :
  Forall (fun b => 128 <= b) l -> ascii_sync s -> ascii_sync (l ++ s).
Proof.
  intros Hl Hs. induction l as [|x l IH]; [exact Hs|].
  inversion Hl as [|? ? Hx Hl']; subst. specialize (IH Hl').
  intros i b Hi Hb. destruct i as [|i]; cbn in Hi.
  - inversion Hi; subst. lia.
  - cbn. exact (IH i b Hi Hb).
Qed.

Theorem utf8_ascii_sync cps : ascii_sync (utf8 cps).
Proof.
  induction cps as [|c cps IH]; [intros [|i] b H; discriminate|].
  cbn [utf8 flat_map]. fold (utf8 cps).
  destruct (utf8_char_shape c) as [[x [E Hx]]|[l [r [E [Hl Hr]]]]]; rewrite E.
  - cbn [app]. intros i b Hi Hb. destruct i as [|i]; cbn in Hi |- *.
    + destruct (utf8 cps) as [|b' rest] eqn:U; [exact I|].
      cbn. eapply utf8_head_not_cont; exact U.
    + exact (IH i b Hi Hb).
  - apply (ascii_sync_app_multibyte (l :: r)); [constructor; [lia|exact Hr]|exact IH].
Qed.

Lemma ascii_sync_skipn s k : ascii_sync s -> ascii_sync (skipn k s).
Proof.
  intros H i b Hi Hb. rewrite nth_error_skipn in Hi |- *.
  replace (k + S i)%nat with (S (k + i)) by lia. exact (H _ _ Hi Hb).
Qed.

(** after an ASCII first byte, index 1 is a boundary *)
Lemma boundary_after_ascii s c :
  ascii_sync s -> starts_with c s = true -> c < 128 -> is_char_boundary s 1 = true.
Proof.
  intros Hs Hst Hc. destruct s as [|b s]; [discriminate|]. cbn in Hst. apply N.eqb_eq in Hst; subst b.
  unfold is_char_boundary. specialize (Hs 0%nat c eq_refl Hc). cbn in Hs |- *.
  destruct s as [|b' s]; [reflexivity|]. cbn in Hs |- *. rewrite Hs. reflexivity.
Qed.

(** ---- hexadecimal digits *)
Lemma hex_val_lt16 b : is_ascii_hexdigit b = true -> hex_val b < 16.
Proof. unfold is_ascii_hexdigit, hex_val, is_dec_digit. intros H. bdestr_in H; bdestr; cbn in *; try discriminate; lia. Qed.

Lemma hex_digit_is_hex upper d : d < 16 -> is_ascii_hexdigit (hex_digit upper d) = true.
Proof. intros H. unfold hex_digit. destruct (N.ltb_spec d 10); destruct upper; unfold is_ascii_hexdigit, is_dec_digit; bdestr; cbn; try reflexivity; lia. Qed.

Lemma hex_val_hex_digit upper d : d < 16 -> hex_val (hex_digit upper d) = d.
Proof. intros H. unfold hex_digit. destruct (N.ltb_spec d 10); destruct upper; unfold hex_val, is_dec_digit; bdestr; cbn; lia. Qed.

Lemma hex_digit_range upper d : d < 16 ->
  let b := hex_digit upper d in (48 <= b <= 57) \/ (65 <= b <= 70) \/ (97 <= b <= 102).
Proof. intros H. unfold hex_digit. destruct (N.ltb_spec d 10); destruct upper; cbn; lia. Qed.

Lemma digits_val_4 radix a b c d :
  digits_val radix [a; b; c; d] =
  ((digit_val radix a * radix + digit_val radix b) * radix + digit_val radix c) * radix + digit_val radix d.
Proof. unfold digits_val. cbn [fold_left]. lia. Qed.

Lemma hex4_length upper n : length (hex4 upper n) = 4%nat.
Proof. reflexivity. Qed.

Lemma hex4_all_hex upper n : forallb is_ascii_hexdigit (hex4 upper n) = true.
Proof.
  unfold hex4. cbn [forallb].
  rewrite !hex_digit_is_hex by (apply N.mod_lt; discriminate). reflexivity.
Qed.

Lemma hex4_value upper n : n < 65536 -> digits_val 16 (hex4 upper n) = n.
Proof.
  intros H. unfold hex4. rewrite digits_val_4. unfold digit_val. cbn [N.eqb].
  change (16 =? 16) with true. cbn iota.
  rewrite !hex_val_hex_digit by (apply N.mod_lt; discriminate). lia.
Qed.

(** four hexadecimal digits always fit a u16 and carry no sign *)
Lemma hex4_fits ds :
  length ds = 4%nat -> forallb is_ascii_hexdigit ds = true ->
  uint_from_str_radix 16 65535 ds = Some (digits_val 16 ds).
Proof.
  intros HL HH. destruct ds as [|a [|b [|c [|d [|? ?]]]]]; try discriminate. clear HL.
  cbn [forallb] in HH. apply andb_true_iff in HH as [Ha HH]. apply andb_true_iff in HH as [Hb HH].
  apply andb_true_iff in HH as [Hc HH]. apply andb_true_iff in HH as [Hd _].
  unfold uint_from_str_radix.
  assert (Hp : (a =? plus_sign) = false).
  { unfold plus_sign. destruct (N.eqb_spec a 43) as [->|]; [discriminate Ha|reflexivity]. }
  rewrite Hp. unfold digit_ok. change (16 =? 16) with true. cbn iota.
  cbn [forallb]. rewrite Ha, Hb, Hc, Hd. cbn [andb].
  rewrite digits_val_4. unfold digit_val. change (16 =? 16) with true. cbn iota.
  pose proof (hex_val_lt16 _ Ha). pose proof (hex_val_lt16 _ Hb).
  pose proof (hex_val_lt16 _ Hc). pose proof (hex_val_lt16 _ Hd).
  destruct (N.leb_spec (((hex_val a * 16 + hex_val b) * 16 + hex_val c) * 16 + hex_val d) 65535); [reflexivity|lia].
Qed.

(** ---- decimal printing and parsing *)
Fixpoint val_le (ds : list N) : N :=
  match ds with [] => 0 | d :: r => (d - 48) + 10 * val_le r end.

Lemma digits_val_10_app ds d :
  digits_val 10 (ds ++ [d]) = digits_val 10 ds * 10 + (d - 48).
Proof. unfold digits_val. rewrite fold_left_app. reflexivity. Qed.

Lemma digits_val_rev ds : digits_val 10 (rev ds) = val_le ds.
Proof.
  induction ds as [|d r IH]; [reflexivity|].
  cbn [rev val_le]. rewrite digits_val_10_app, IH. lia.
Qed.

Lemma dec_rev_S f n :
  dec_rev (S f) n = (48 + n mod 10) :: (if n / 10 =? 0 then [] else dec_rev f (n / 10)).
Proof. reflexivity. Qed.

Lemma dec_rev_spec f : forall n, n < 2 ^ N.of_nat f ->
  val_le (dec_rev (S f) n) = n /\ Forall (fun b => is_dec_digit b = true) (dec_rev (S f) n)
  /\ dec_rev (S f) n <> [].
Proof.
  induction f as [|f IH]; intros n H.
  - cbn in H. assert (n = 0) by lia. subst. cbn. repeat split; [repeat constructor|discriminate].
  - rewrite (dec_rev_S (S f) n).
    assert (Hd : is_dec_digit (48 + n mod 10) = true).
    { unfold is_dec_digit. pose proof (N.mod_lt n 10 ltac:(discriminate)). lia. }
    destruct (N.eqb_spec (n / 10) 0) as [E|E].
    + cbn [val_le]. repeat split; [lia|repeat constructor; exact Hd|discriminate].
    + assert (Hq : n / 10 < 2 ^ N.of_nat f).
      { rewrite Nat2N.inj_succ, N.pow_succ_r' in H. lia. }
      destruct (IH _ Hq) as [Hv [Hall Hne]].
      cbn [val_le]. rewrite Hv. repeat split; [lia|constructor; [exact Hd|exact Hall]|discriminate].
Qed.

Lemma print_dec_spec n :
  digits_val 10 (print_dec n) = n /\ forallb is_dec_digit (print_dec n) = true /\ print_dec n <> [].
Proof.
  unfold print_dec.
  assert (H : n < 2 ^ N.of_nat (N.to_nat (N.size n))).
  { rewrite N2Nat.id. apply N.size_gt. }
  destruct (dec_rev_spec _ _ H) as [Hv [Hall Hne]].
  rewrite digits_val_rev. repeat split.
  - exact Hv.
  - apply forallb_forall. intros x Hx. apply in_rev in Hx.
    rewrite Forall_forall in Hall. exact (Hall x Hx).
  - intros E. apply Hne. apply (f_equal (@rev N)) in E. rewrite rev_involutive in E. exact E.
Qed.

Lemma dec_digit_not_sign b : is_dec_digit b = true -> (b =? plus_sign) = false /\ (b =? minus_sign) = false.
Proof. unfold is_dec_digit, plus_sign, minus_sign. intros H. split; bdestr; try reflexivity; lia. Qed.

(** [n.to_string().parse::<uN>() == Ok(n)] for n within the type *)
Theorem uint_parse_print max n :
  n <= max -> uint_from_str_radix 10 max (print_dec n) = Some n.
Proof.
  intros H. destruct (print_dec_spec n) as [Hv [Hall Hne]].
  unfold uint_from_str_radix. destruct (print_dec n) as [|c r] eqn:E; [congruence|].
  assert (Hc : is_dec_digit c = true) by (cbn in Hall; apply andb_true_iff in Hall; tauto).
  destruct (dec_digit_not_sign _ Hc) as [Hp _]. rewrite Hp. cbv beta iota zeta.
  unfold digit_ok. change (10 =? 16) with false. cbv beta iota zeta.
  replace (forallb (fun b : N => is_dec_digit b) (c :: r)) with true by (symmetry; exact Hall). rewrite Hv.
  destruct (N.leb_spec n max); [reflexivity|lia].
Qed.

Lemma print_dec_chars n b : In b (print_dec n) -> 48 <= b <= 57.
Proof.
  destruct (print_dec_spec n) as [_ [Hall _]]. rewrite forallb_forall in Hall.
  intros Hin. specialize (Hall b Hin). unfold is_dec_digit in Hall. lia.
Qed.
