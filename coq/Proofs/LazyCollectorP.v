(** Lemmas about Model/LazyCollector.v (C06). *)
From DicomV Require Import Base.Prelude Base.Endian Model.Ops Model.LazyCollector Proofs.OpsP.
From Coq Require Import ZifyBool ZifyNat ZifyN.
Open Scope N_scope.

(** * Putting a tag-ordered list of elements into an object *)
Definition ub (m : N) (o : obj) : bool := forallb (fun x : elem => e_tag x <? m) o.

Lemma put_snoc o e : ub (e_tag e) o = true -> put o e = o ++ [e].
Proof.
  induction o as [|x o IH]; cbn [ub forallb put app]; [reflexivity|].
  rewrite andb_true_iff. intros [Hx Ho].
  replace (e_tag e <? e_tag x) with false by lia. replace (e_tag e =? e_tag x) with false by lia.
  rewrite IH by exact Ho. reflexivity.
Qed.

Lemma ub_snoc m o e : ub m o = true -> e_tag e < m -> ub m (o ++ [e]) = true.
Proof. intros Ho He. unfold ub in *. rewrite forallb_app, Ho. cbn. replace (e_tag e <? m) with true by lia. reflexivity. Qed.

Lemma lb_ub_trans m l acc : lb m l = true -> ub m acc = true \/ True -> True. Proof. auto. Qed.

Lemma fold_put_sorted l : forall acc, sortedb l = true -> (forall x, In x l -> ub (e_tag x) acc = true) ->
  fold_left put l acc = acc ++ l.
Proof.
  induction l as [|e l IH]; intros acc Hs Hub; cbn [fold_left]; [rewrite app_nil_r; reflexivity|].
  cbn [sortedb] in Hs. apply andb_true_iff in Hs. destruct Hs as [Hl Hs].
  rewrite put_snoc by (apply Hub; left; reflexivity).
  rewrite IH; [rewrite <- app_assoc; reflexivity|exact Hs|].
  intros x Hx. apply ub_snoc; [apply Hub; right; exact Hx|].
  unfold lb in Hl. rewrite forallb_forall in Hl. specialize (Hl x Hx). lia.
Qed.

Lemma fold_put_sorted_nil l : sortedb l = true -> fold_left put l [] = l.
Proof. intros H. rewrite fold_put_sorted; [reflexivity|exact H|intros; reflexivity]. Qed.

(** * The lazy stream is the eager stream, offset tables as item values *)
Section Streams.
Variable big : bool.
Variable ulen : N.
Variable plen : prim -> N.
Variable raw_of : prim -> bytes.
Notation toks := (tokens_of_value ulen plen raw_of).
Notation ltoks := (ltokens_of_value ulen plen raw_of big).
Notation etoks := (tokens_of_elem ulen plen raw_of).
Notation eltoks := (ltokens_of_elem ulen plen raw_of big).

Lemma own_flat {A} (f : A -> list token) (g : A -> list ltoken) l :
  Forall (fun a => map own (g a) = map (as_item_values big) (f a)) l ->
  map own (flat_map g l) = map (as_item_values big) (flat_map f l).
Proof.
  induction 1 as [|a l Ha Hl IH]; [reflexivity|]. cbn [flat_map]. rewrite !map_app, Ha, IH. reflexivity.
Qed.

Lemma own_ltoks v : forall t vr, map own (ltoks t vr v) = map (as_item_values big) (toks t vr v).
Proof.
  induction v as [p|items IH|b f] using value_ind'; intros t vr.
  - reflexivity.
  - cbn [tokens_of_value ltokens_of_value map]. f_equal. rewrite !map_app. f_equal.
    apply own_flat. rewrite Forall_forall in *. intros it Hit. specialize (IH it Hit).
    cbn [map]. f_equal. rewrite !map_app. f_equal.
    apply own_flat. rewrite Forall_forall in *. intros e He. apply IH, He.
  - cbn [tokens_of_value ltokens_of_value map]. f_equal. rewrite !map_app. cbn [map]. f_equal.
    + f_equal. destruct b; reflexivity.
    + f_equal. apply own_flat. apply Forall_forall. intros fr _. cbn [map]. f_equal. destruct fr; reflexivity.
Qed.

Lemma own_ltokens_of_obj o :
  map own (ltokens_of_obj ulen plen raw_of big o) = map (as_item_values big) (tokens_of_obj ulen plen raw_of o).
Proof.
  unfold ltokens_of_obj, tokens_of_obj. apply own_flat. apply Forall_forall. intros e _. apply own_ltoks.
Qed.

(* [lazy_view] of the eager stream of a data set is its lazy stream *)
Lemma lv_flat {A} (f : A -> list token) (g : A -> list ltoken) l :
  Forall (fun a => forall last rest, exists last', lazy_view big last (f a ++ rest) = g a ++ lazy_view big last' rest) l ->
  forall last rest, exists last', lazy_view big last (flat_map f l ++ rest) = flat_map g l ++ lazy_view big last' rest.
Proof.
  induction 1 as [|a l Ha Hl IH]; intros last rest; [exists last; reflexivity|].
  cbn [flat_map]. rewrite <- !app_assoc. destruct (Ha last (flat_map f l ++ rest)) as [l1 E1]. rewrite E1.
  destruct (IH l1 rest) as [l2 E2]. rewrite E2. exists l2. rewrite <- app_assoc. reflexivity.
Qed.

Lemma lv_toks v : forall t vr last rest,
  exists last', lazy_view big last (toks t vr v ++ rest) = ltoks t vr v ++ lazy_view big last' rest.
Proof.
  induction v as [p|items IH|b f] using value_ind'; intros t vr last rest.
  - exists (t, vr, plen p). reflexivity.
  - cbn [tokens_of_value ltokens_of_value app lazy_view]. rewrite <- !app_assoc.
    assert (H : forall last rest, exists last',
      lazy_view big last (flat_map (fun it : obj => TItemStart ulen :: flat_map (fun e : elem => toks (fst (fst e)) (snd (fst e)) (snd e)) it ++ [TItemEnd]) items ++ rest)
      = flat_map (fun it : obj => LItemStart ulen :: flat_map (fun e : elem => ltoks (fst (fst e)) (snd (fst e)) (snd e)) it ++ [LItemEnd]) items ++ lazy_view big last' rest).
    { apply lv_flat. rewrite Forall_forall in *. intros it Hit last0 rest0. specialize (IH it Hit).
      cbn [app lazy_view]. rewrite <- !app_assoc.
      destruct (lv_flat (fun e : elem => toks (fst (fst e)) (snd (fst e)) (snd e)) (fun e : elem => ltoks (fst (fst e)) (snd (fst e)) (snd e)) it) with (last := last0) (rest := [TItemEnd] ++ rest0) as [l1 E1].
      { rewrite Forall_forall in *. intros e He last1 rest1. apply IH, He. }
      rewrite E1. exists l1. cbn [app lazy_view]. rewrite <- app_assoc. reflexivity. }
    destruct (H last (TSeqEnd :: rest)) as [l1 E1]. cbn [app]. rewrite E1. exists l1. cbn [app lazy_view]. rewrite <- app_assoc. reflexivity.
  - cbn [tokens_of_value ltokens_of_value app lazy_view]. rewrite <- !app_assoc.
    assert (H : forall last rest, exists last',
      lazy_view big last (flat_map (fun f0 : bytes => TItemStart (N.of_nat (length f0)) :: match f0 with [] => [] | _ => [TItemValue f0] end ++ [TItemEnd]) f ++ rest)
      = flat_map (fun f0 : bytes => LItemStart (N.of_nat (length f0)) :: match f0 with [] => [] | _ => [LItemValue f0] end ++ [LItemEnd]) f ++ lazy_view big last' rest).
    { apply lv_flat. apply Forall_forall. intros fr _ last0 rest0. exists last0. destruct fr; reflexivity. }
    destruct (H last (TSeqEnd :: rest)) as [l1 E1]. exists l1.
    destruct b; cbn [app lazy_view]; rewrite <- ?app_assoc; cbn [app lazy_view]; rewrite E1; cbn [app lazy_view]; rewrite <- ?app_assoc; reflexivity.
Qed.

Lemma lazy_view_obj o last :
  lazy_view big last (tokens_of_obj ulen plen raw_of o) = ltokens_of_obj ulen plen raw_of big o.
Proof.
  destruct (lv_flat etoks eltoks o) with (last := last) (rest := @nil token) as [l1 E1].
  { apply Forall_forall. intros e _ last0 rest0. apply lv_toks. }
  unfold tokens_of_obj, ltokens_of_obj. rewrite app_nil_r in E1. rewrite E1. cbn. rewrite app_nil_r. reflexivity.
Qed.
End Streams.

(** * Opening the whole data set: build_object over the token stream of an object *)
Section Eager.
Variable big : bool.
Variable ulen : N.
Variable plen : prim -> N.
Variable raw_of : prim -> bytes.
Notation toks := (tokens_of_value ulen plen raw_of).
Notation etoks := (tokens_of_elem ulen plen raw_of).
Notation otoks := (tokens_of_obj ulen plen raw_of).

Definition frag_toks (f : bytes) : list token :=
  TItemStart (N.of_nat (length f)) :: match f with [] => [] | _ => [TItemValue f] end ++ [TItemEnd].

Lemma encaps_frags fs : forall hv b acc rest,
  build_encaps_e (flat_map frag_toks fs ++ TSeqEnd :: rest) false hv (Some b) acc = Ok (b, acc ++ fs, rest).
Proof.
  induction fs as [|f fs IH]; intros hv b acc rest; cbn [flat_map app build_encaps_e].
  - rewrite app_nil_r. reflexivity.
  - unfold frag_toks at 1. destruct f as [|x f]; cbn [app build_encaps_e].
    + rewrite IH. rewrite <- app_assoc. reflexivity.
    + rewrite IH. rewrite <- app_assoc. reflexivity.
Qed.

Lemma encaps_pix bot frags rest :
  build_encaps_e ((TItemStart (4 * N.of_nat (length bot)) :: match bot with [] => [] | _ => [TOffsets bot] end ++ [TItemEnd])
                  ++ flat_map frag_toks frags ++ TSeqEnd :: rest) true false None [] = Ok (bot, frags, rest).
Proof.
  destruct bot as [|x bot]; cbn [app build_encaps_e]; rewrite encaps_frags; reflexivity.
Qed.

Definition item_toks (it : obj) : list token :=
  TItemStart ulen :: flat_map (fun e : elem => toks (fst (fst e)) (snd (fst e)) (snd e)) it ++ [TItemEnd].

Definition elem_ok (e : elem) : bool := value_kind_ok (e_tag e) (e_vr e) (e_val e) && wfv (e_val e).

(* one element, followed by anything: the element is put, reading goes on *)
Definition bo_P (v : value) : Prop :=
  forall t vr, value_kind_ok t vr v = true -> wfv v = true ->
  forall fuel in_item until to rest o, stops until to t = false ->
  (length (toks t vr v ++ rest) < fuel)%nat ->
  build_object fuel in_item until to (toks t vr v ++ rest) o
  = build_object (fuel - 1) in_item until to rest (put o (t, vr, v)).

(* the elements of an item, then the item delimiter *)
Lemma bo_item it : Forall (fun e : elem => bo_P (snd e)) it -> forallb elem_ok it = true ->
  forall fuel rest o, (length (flat_map (fun e : elem => toks (fst (fst e)) (snd (fst e)) (snd e)) it ++ TItemEnd :: rest) < fuel)%nat ->
  build_object fuel true None None (flat_map (fun e : elem => toks (fst (fst e)) (snd (fst e)) (snd e)) it ++ TItemEnd :: rest) o
  = Ok (fold_left put it o, rest).
Proof.
  induction 1 as [|e it He Hit IH]; intros Hok fuel rest o Hf; cbn [flat_map app fold_left] in *.
  - destruct fuel as [|f]; [lia|]. reflexivity.
  - apply andb_true_iff in Hok. destruct Hok as [Hek Hok]. unfold elem_ok in Hek. apply andb_true_iff in Hek.
    destruct Hek as [Hk Hw]. rewrite <- app_assoc in *.
    destruct e as [[t vr] v]. cbn [fst snd e_tag e_vr e_val] in *.
    rewrite (He t vr Hk Hw) by (reflexivity || exact Hf).
    apply IH; [exact Hok|]. rewrite app_length in Hf. destruct v; cbn [tokens_of_value length] in Hf; lia.
Qed.

Lemma bo_items items : Forall (fun it : obj => Forall (fun e : elem => bo_P (snd e)) it) items ->
  forallb (fun it => wfo it && forallb elem_ok it) items = true ->
  forall fuel rest acc, (length (flat_map item_toks items ++ TSeqEnd :: rest) < fuel)%nat ->
  build_sequence fuel (flat_map item_toks items ++ TSeqEnd :: rest) acc = Ok (acc ++ items, rest).
Proof.
  induction 1 as [|it items Hit Hitems IH]; intros Hok fuel rest acc Hf; cbn [flat_map app forallb] in *.
  - destruct fuel as [|f]; [lia|]. cbn [build_sequence]. rewrite app_nil_r. reflexivity.
  - apply andb_true_iff in Hok. destruct Hok as [Hi Hok]. apply andb_true_iff in Hi. destruct Hi as [Hwf Hel].
    destruct fuel as [|f]; [cbn in Hf; lia|].
    unfold item_toks at 1. cbn [app build_sequence]. rewrite <- !app_assoc. cbn [app].
    unfold item_toks at 1 in Hf. cbn [app length] in Hf. rewrite <- !app_assoc in Hf. cbn [app] in Hf.
    rewrite (bo_item it Hit Hel) by lia. cbn [bind].
    rewrite fold_put_sorted_nil by (apply wfo_sorted, Hwf).
    rewrite IH; [rewrite <- app_assoc; reflexivity|exact Hok|].
    rewrite app_length in Hf. cbn [length] in Hf. lia.
Qed.

Lemma wfv_items items : wfv (VSeq items) = true -> forallb wfo items = true.
Proof. rewrite wfv_seq. tauto. Qed.

Lemma items_ok items : forallb kind_ok items = true -> forallb wfo items = true ->
  forallb (fun it => wfo it && forallb elem_ok it) items = true.
Proof.
  intros Hk Hw. rewrite forallb_forall in *. intros it Hit. rewrite (Hw it Hit). cbn [andb].
  specialize (Hk it Hit). specialize (Hw it Hit). rewrite kind_ok_unfold in Hk.
  unfold wfo in Hw. apply andb_true_iff in Hw. destruct Hw as [_ Hw].
  rewrite forallb_forall in *. intros e He. unfold elem_ok. rewrite (Hw e He). unfold ekind in Hk. rewrite (Hk e He). reflexivity.
Qed.

Lemma bo_value v : bo_P v.
Proof.
  induction v as [p|items IH|b f] using value_ind'; intros t vr Hk Hw fuel in_item until to rest o Hs Hf.
  - destruct fuel as [|fu]; [cbn in Hf; lia|]. cbn [tokens_of_value app build_object]. rewrite Hs.
    replace (S fu - 1)%nat with fu by lia. reflexivity.
  - destruct fuel as [|fu]; [cbn in Hf; lia|]. cbn [tokens_of_value app build_object]. rewrite Hs.
    rewrite kind_seq in Hk. apply andb_true_iff in Hk. destruct Hk as [Hvr Hki].
    cbn [tokens_of_value app length] in Hf. rewrite <- app_assoc in *. cbn [app] in *.
    change (flat_map (fun it : obj => TItemStart ulen :: flat_map (fun e : elem => toks (fst (fst e)) (snd (fst e)) (snd e)) it ++ [TItemEnd]) items)
      with (flat_map item_toks items) in *.
    rewrite (bo_items items IH (items_ok _ Hki (wfv_items _ Hw))) by lia. cbn [bind app].
    replace (S fu - 1)%nat with fu by lia. replace vr with VR_SQ by lia. reflexivity.
  - destruct fuel as [|fu]; [cbn in Hf; lia|]. cbn [value_kind_ok] in Hk. apply andb_true_iff in Hk. destruct Hk as [Hvr Ht].
    assert (t = T_PIXEL) by (unfold T_PIXEL, T_PIXEL_DATA in *; lia). subst t.
    cbn [tokens_of_value app build_object]. rewrite Hs.
    change (flat_map (fun f0 : bytes => TItemStart (N.of_nat (length f0)) :: match f0 with [] => [] | _ => [TItemValue f0] end ++ [TItemEnd]) f)
      with (flat_map frag_toks f).
    pose proof (encaps_pix b f rest) as He.
    destruct b as [|x b]; cbn [app] in *; rewrite <- ?app_assoc in *; cbn [app] in *; rewrite He; cbn [bind].
    all: replace (S fu - 1)%nat with fu by lia; replace vr with LazyCollector.VR_OB by (unfold LazyCollector.VR_OB, Ops.VR_OB in *; lia); reflexivity.
Qed.

(* a run of elements none of which stops the reading *)
Lemma bo_elems es : forallb elem_ok es = true ->
  forall fuel in_item until to rest o, forallb (fun e => negb (stops until to (e_tag e))) es = true ->
  (length (otoks es ++ rest) < fuel)%nat ->
  build_object fuel in_item until to (otoks es ++ rest) o
  = build_object (fuel - length es) in_item until to rest (fold_left put es o).
Proof.
  induction es as [|e es IH]; intros Hok fuel in_item until to rest o Hns Hf; cbn [tokens_of_obj flat_map app fold_left length] in *.
  - rewrite Nat.sub_0_r. reflexivity.
  - apply andb_true_iff in Hok. destruct Hok as [Hek Hok]. unfold elem_ok in Hek. apply andb_true_iff in Hek. destruct Hek as [Hk Hw].
    apply andb_true_iff in Hns. destruct Hns as [Hn Hns]. rewrite <- app_assoc in *.
    unfold tokens_of_elem at 1. rewrite (bo_value (e_val e) (e_tag e) (e_vr e) Hk Hw) by ((destruct (stops until to (e_tag e)); [discriminate|reflexivity]) || exact Hf).
    destruct e as [[t vr] v]. cbn [e_tag e_vr e_val fst snd].
    fold (otoks es). rewrite IH; try assumption.
    + f_equal. lia.
    + unfold tokens_of_obj, tokens_of_elem in *. cbn [e_tag e_vr e_val fst snd] in Hf. rewrite app_length in Hf. destruct v; cbn [tokens_of_value length] in Hf; lia.
Qed.

(* the first token of an element carries its tag: reading stops there *)
Lemma bo_stop e : elem_ok e = true -> forall fuel in_item until to rest o, stops until to (e_tag e) = true ->
  (0 < fuel)%nat -> exists r, build_object fuel in_item until to (etoks e ++ rest) o = Ok (o, r).
Proof.
  intros Hok fuel in_item until to rest o Hs Hf. destruct fuel as [|fu]; [lia|].
  destruct e as [[t vr] v]. unfold tokens_of_elem. cbn [e_tag e_vr e_val fst snd] in *.
  unfold elem_ok in Hok. cbn [e_tag e_vr e_val fst snd] in Hok. apply andb_true_iff in Hok. destruct Hok as [Hk _].
  destruct v as [p|items|b f]; cbn [tokens_of_value app build_object].
  - rewrite Hs. eexists. reflexivity.
  - rewrite Hs. eexists. reflexivity.
  - cbn [value_kind_ok] in Hk. apply andb_true_iff in Hk. destruct Hk as [_ Ht].
    assert (t = T_PIXEL) by (unfold T_PIXEL, T_PIXEL_DATA in *; lia). subst t. rewrite Hs. eexists. reflexivity.
Qed.
End Eager.

(** * read_until / read_to: exactly the top-level elements below (up to) the tag *)
Fixpoint take_while {A} (p : A -> bool) (l : list A) : list A :=
  match l with [] => [] | x :: l' => if p x then x :: take_while p l' else [] end.
Fixpoint drop_while {A} (p : A -> bool) (l : list A) : list A :=
  match l with [] => [] | x :: l' => if p x then drop_while p l' else l end.
Lemma take_drop {A} (p : A -> bool) l : take_while p l ++ drop_while p l = l.
Proof. induction l as [|x l IH]; cbn; [reflexivity|]. destruct (p x); cbn; [rewrite IH|]; reflexivity. Qed.
Lemma take_while_all {A} (p : A -> bool) l : forallb p (take_while p l) = true.
Proof. induction l as [|x l IH]; cbn; [reflexivity|]. destruct (p x) eqn:E; cbn; [rewrite E, IH|]; reflexivity. Qed.
Lemma forallb_take_while {A} (q p : A -> bool) l : forallb q l = true -> forallb q (take_while p l) = true.
Proof.
  induction l as [|x l IH]; cbn; [reflexivity|]. rewrite andb_true_iff. intros [Hx Hl].
  destruct (p x); cbn; [rewrite Hx, IH by exact Hl|]; reflexivity.
Qed.
Lemma forallb_drop_while {A} (q p : A -> bool) l : forallb q l = true -> forallb q (drop_while p l) = true.
Proof.
  induction l as [|x l IH]; cbn; [reflexivity|]. rewrite andb_true_iff. intros [Hx Hl].
  destruct (p x); [apply IH, Hl|]. cbn. rewrite Hx, Hl. reflexivity.
Qed.

Definition nostop (until to : option N) (e : elem) : bool := negb (stops until to (e_tag e)).

Lemma stops_mono until to t t' : stops until to t = true -> t <= t' -> stops until to t' = true.
Proof. unfold stops. destruct until, to; cbn; intros H Hle; lia. Qed.

Lemma sorted_take_filter until to es : sortedb es = true -> take_while (nostop until to) es = filter (nostop until to) es.
Proof.
  induction es as [|e es IH]; cbn [sortedb take_while filter]; [reflexivity|].
  rewrite andb_true_iff. intros [Hl Hs]. destruct (nostop until to e) eqn:E; [rewrite IH by exact Hs; reflexivity|].
  symmetry. clear IH. unfold lb in Hl. rewrite forallb_forall in Hl.
  assert (H : forall l, (forall x, In x l -> e_tag e < e_tag x) -> filter (nostop until to) l = []).
  { induction l as [|x l IHl]; intros Hx; cbn; [reflexivity|].
    unfold nostop in *. rewrite (stops_mono until to (e_tag e) (e_tag x)).
    - cbn. apply IHl. intros y Hy. apply Hx. right. exact Hy.
    - destruct (stops until to (e_tag e)); [reflexivity|discriminate].
    - specialize (Hx x (or_introl eq_refl)). lia. }
  apply H. intros x Hx. specialize (Hl x Hx). lia.
Qed.

Lemma sorted_take_while (p : elem -> bool) es : sortedb es = true -> sortedb (take_while p es) = true.
Proof.
  induction es as [|e es IH]; cbn [sortedb take_while]; [reflexivity|].
  rewrite andb_true_iff. intros [Hl Hs]. destruct (p e); [|reflexivity]. cbn [sortedb].
  rewrite IH by exact Hs. rewrite andb_true_r. unfold lb in *. apply forallb_take_while. exact Hl.
Qed.

Section Partial.
Variable ulen : N.
Variable plen : prim -> N.
Variable raw_of : prim -> bytes.
Notation otoks := (tokens_of_obj ulen plen raw_of).
Notation etoks := (tokens_of_elem ulen plen raw_of).

Lemma otoks_app a b : otoks (a ++ b) = otoks a ++ otoks b.
Proof. unfold tokens_of_obj. apply flat_map_app. Qed.

Lemma etoks_len e : (2 <= length (etoks e))%nat.
Proof. destruct e as [[t vr] v]. unfold tokens_of_elem. destruct v; cbn; try lia. rewrite app_length. cbn. lia. Qed.

Lemma otoks_len es : (length es <= length (otoks es))%nat.
Proof.
  induction es as [|e es IH]; cbn; [lia|]. rewrite app_length. pose proof (etoks_len e). fold (otoks es). lia.
Qed.

Lemma elems_ok es : wfo es = true -> kind_ok es = true -> forallb elem_ok es = true.
Proof.
  intros Hw Hk. unfold wfo in Hw. apply andb_true_iff in Hw. destruct Hw as [_ Hw]. rewrite kind_ok_unfold in Hk.
  rewrite forallb_forall in *. intros e He. unfold elem_ok. rewrite (Hw e He). unfold ekind in Hk. rewrite (Hk e He). reflexivity.
Qed.

Lemma open_prefix until to es : forallb elem_ok es = true ->
  open_whole until to (otoks es) = Ok (fold_left put (take_while (nostop until to) es) []).
Proof.
  intros Hok. unfold open_whole.
  set (a := take_while (nostop until to) es). set (b := drop_while (nostop until to) es).
  assert (Hes : es = a ++ b) by (symmetry; apply take_drop).
  assert (Ha : forallb elem_ok a = true) by (apply forallb_take_while, Hok).
  assert (Hb : forallb elem_ok b = true) by (apply forallb_drop_while, Hok).
  rewrite Hes at 1 2. rewrite otoks_app.
  pose proof (otoks_len a) as Hla. pose proof (otoks_len b) as Hlb.
  rewrite (bo_elems ulen plen raw_of a Ha) by (apply take_while_all || (rewrite app_length; lia)).
  remember (S (length (otoks a ++ otoks b)) - length a)%nat as fu.
  assert (Hfu : (0 < fu)%nat) by (rewrite app_length in Heqfu; lia).
  destruct b as [|e b'] eqn:Eb.
  - destruct fu; [lia|]. reflexivity.
  - assert (Hse : stops until to (e_tag e) = true).
    { subst b. clear - Eb. induction es as [|x es IH]; cbn in Eb; [discriminate|].
      destruct (nostop until to x) eqn:E; [apply IH, Eb|]. injection Eb as -> _. unfold nostop in E. destruct (stops until to (e_tag e)); [reflexivity|discriminate]. }
    cbn [forallb] in Hb. apply andb_true_iff in Hb. destruct Hb as [He _].
    cbn [tokens_of_obj flat_map]. destruct (bo_stop ulen plen raw_of e He fu false until to (flat_map etoks b') (fold_left put a []) Hse Hfu) as [r Hr].
    rewrite Hr. reflexivity.
Qed.

Lemma open_filter until to es : wfo es = true -> kind_ok es = true ->
  open_whole until to (otoks es) = Ok (filter (nostop until to) es).
Proof.
  intros Hw Hk. rewrite (open_prefix until to es (elems_ok es Hw Hk)).
  pose proof (wfo_sorted _ Hw) as Hs. rewrite fold_put_sorted_nil by (apply sorted_take_while, Hs).
  rewrite sorted_take_filter by exact Hs. reflexivity.
Qed.

Lemma open_all es : wfo es = true -> kind_ok es = true -> open_whole None None (otoks es) = Ok es.
Proof.
  intros Hw Hk. rewrite open_filter by assumption. f_equal.
  induction es as [|e es IH]; [reflexivity|]. cbn. f_equal.
  apply IH.
  - unfold wfo in *. cbn [sortedb forallb] in Hw. rewrite !andb_true_iff in *. tauto.
  - rewrite kind_ok_unfold in *. cbn [forallb] in Hk. rewrite andb_true_iff in Hk. tauto.
Qed.
End Partial.

(** * The collector over the lazy stream *)
Fixpoint words_okv (v : value) : bool :=
  match v with
  | VPix bot _ => forallb (fun x => x <? 4294967296) bot
  | VSeq items => forallb (fun it : obj => forallb (fun e : elem => words_okv (snd e)) it) items
  | VPrim _ => true
  end.
Definition words_ok (o : obj) : bool := forallb (fun e : elem => words_okv (e_val e)) o.

Section Collector.
Variable big : bool.
Variable ulen : N.
Variable plen : prim -> N.
Variable raw_of : prim -> bytes.
Notation ltoks := (ltokens_of_value ulen plen raw_of big).
Notation eltoks := (ltokens_of_elem ulen plen raw_of big).
Notation oltoks := (ltokens_of_obj ulen plen raw_of big).

Lemma enc32_4 x : exists b0 b1 b2 b3, enc32 big x = [b0; b1; b2; b3].
Proof. unfold enc32. destruct big; cbn; repeat eexists. Qed.

Lemma dec_enc32 x : x < 4294967296 -> dec32 big (enc32 big x) = x.
Proof.
  intros H. unfold dec32, enc32. destruct big.
  - apply (be_val_be_bytes_small 4). exact H.
  - apply (le_val_le_bytes_small 4). exact H.
Qed.

Lemma words_roundtrip l : forallb (fun x => x <? 4294967296) l = true ->
  forall fuel, (length l <= fuel)%nat -> bytes_words big fuel (words_bytes big l) = l.
Proof.
  induction l as [|x l IH]; intros Hok fuel Hf; cbn [words_bytes flat_map].
  - destruct fuel; reflexivity.
  - cbn [forallb] in Hok. apply andb_true_iff in Hok. destruct Hok as [Hx Hl].
    destruct fuel as [|fu]; [cbn in Hf; lia|].
    pose proof (dec_enc32 x ltac:(lia)) as Hd. destruct (enc32_4 x) as (b0 & b1 & b2 & b3 & E). rewrite E in *.
    cbn [app bytes_words]. rewrite Hd. f_equal. apply IH; [exact Hl|cbn in Hf; lia].
Qed.

Lemma words_of_bytes l : forallb (fun x => x <? 4294967296) l = true -> words_of big (words_bytes big l) = l.
Proof.
  intros H. unfold words_of. apply words_roundtrip; [exact H|].
  clear H. induction l as [|x l IH]; [cbn; lia|]. cbn [words_bytes flat_map]. rewrite app_length.
  destruct (enc32_4 x) as (b0 & b1 & b2 & b3 & E). rewrite E. cbn [length]. fold (words_bytes big l). lia.
Qed.

Definition frag_ltoks (f : bytes) : list ltoken :=
  LItemStart (N.of_nat (length f)) :: match f with [] => [] | _ => [LItemValue f] end ++ [LItemEnd].

Lemma lencaps_frags fs : forall hv b acc rest,
  build_encaps big (flat_map frag_ltoks fs ++ LSeqEnd :: rest) false hv (Some b) acc = Ok (b, acc ++ fs, rest).
Proof.
  induction fs as [|f fs IH]; intros hv b acc rest; cbn [flat_map app build_encaps].
  - rewrite app_nil_r. reflexivity.
  - unfold frag_ltoks at 1. destruct f as [|x f]; cbn [app build_encaps]; rewrite IH, <- app_assoc; reflexivity.
Qed.

Lemma lencaps_pix bot frags rest : forallb (fun x => x <? 4294967296) bot = true ->
  build_encaps big ((LItemStart (4 * N.of_nat (length bot)) :: match bot with [] => [] | _ => [LItemValue (words_bytes big bot)] end ++ [LItemEnd])
                    ++ flat_map frag_ltoks frags ++ LSeqEnd :: rest) true false None [] = Ok (bot, frags, rest).
Proof.
  intros Hb. destruct bot as [|x bot]; cbn [app build_encaps].
  - rewrite lencaps_frags. reflexivity.
  - rewrite lencaps_frags. rewrite words_of_bytes by exact Hb. reflexivity.
Qed.

Definition item_ltoks (it : obj) : list ltoken :=
  LItemStart ulen :: flat_map (fun e : elem => ltoks (fst (fst e)) (snd (fst e)) (snd e)) it ++ [LItemEnd].

(* unfolding lemmas (cbn would expose the body of the mutual fixpoint) *)
Lemma cs_item f st len r items :
  collect_sequence big (S f) st (LItemStart len :: r) items =
  (x <- collect_elements big f true None None st r [] ;;
   let '(es, r', st') := x in collect_sequence big f st' r' (items ++ [fold_left put es []])).
Proof. reflexivity. Qed.
Lemma cs_end f st r items : collect_sequence big (S f) st (LSeqEnd :: r) items = Ok (items, r, st).
Proof. reflexivity. Qed.
Lemma ce_nil f in_item until to st acc : collect_elements big (S f) in_item until to st [] acc = Ok (acc, [], st).
Proof. reflexivity. Qed.
Lemma ce_item_end f until to st r acc : collect_elements big (S f) true until to st (LItemEnd :: r) acc = Ok (acc, r, st).
Proof. reflexivity. Qed.
Lemma ce_header f in_item until to st t vr len t' vr' len' p raw r acc : stops until to t = false ->
  collect_elements big (S f) in_item until to st (LHeader t vr len :: LValue t' vr' len' p raw :: r) acc
  = collect_elements big f in_item until to SDataset r (acc ++ [(t, vr, VPrim p)]).
Proof. intros H. cbn. rewrite H. reflexivity. Qed.
Lemma ce_seq f in_item until to st t len r acc : stops until to t = false ->
  collect_elements big (S f) in_item until to st (LSeqStart t len :: r) acc
  = (x <- collect_sequence big f SDataset r [] ;;
     let '(items, r', st') := x in collect_elements big f in_item until to st' r' (acc ++ [(t, VR_SQ, VSeq items)])).
Proof. intros H. cbn. rewrite H. reflexivity. Qed.
Lemma ce_pix f in_item until to st r acc : stops until to T_PIXEL = false ->
  collect_elements big (S f) in_item until to st (LPixStart :: r) acc
  = (x <- build_encaps big r true false None [] ;;
     let '(bot, frags, r') := x in
     collect_elements big f in_item until to SPixel r' (acc ++ [(T_PIXEL, LazyCollector.VR_OB, VPix bot frags)])).
Proof. intros H. cbn. rewrite H. reflexivity. Qed.

Definition celem_ok (e : elem) : bool := elem_ok e && words_okv (e_val e).

Definition ce_P (v : value) : Prop :=
  forall t vr, value_kind_ok t vr v = true -> wfv v = true -> words_okv v = true ->
  forall fuel in_item until to st rest acc, stops until to t = false ->
  (length (ltoks t vr v ++ rest) < fuel)%nat ->
  exists st', collect_elements big fuel in_item until to st (ltoks t vr v ++ rest) acc
            = collect_elements big (fuel - 1) in_item until to st' rest (acc ++ [(t, vr, v)]).

Lemma ce_item it : Forall (fun e : elem => ce_P (snd e)) it -> forallb celem_ok it = true ->
  forall fuel st rest acc, (length (flat_map (fun e : elem => ltoks (fst (fst e)) (snd (fst e)) (snd e)) it ++ LItemEnd :: rest) < fuel)%nat ->
  exists st', collect_elements big fuel true None None st (flat_map (fun e : elem => ltoks (fst (fst e)) (snd (fst e)) (snd e)) it ++ LItemEnd :: rest) acc
            = Ok (acc ++ it, rest, st').
Proof.
  induction 1 as [|e it He Hit IH]; intros Hok fuel st rest acc Hf; cbn [flat_map app] in *.
  - destruct fuel as [|f]; [lia|]. exists st. rewrite ce_item_end, app_nil_r. reflexivity.
  - apply andb_true_iff in Hok. destruct Hok as [Hek Hok]. unfold celem_ok, elem_ok in Hek. rewrite !andb_true_iff in Hek.
    destruct Hek as [[Hk Hw] Hwo]. rewrite <- app_assoc in *.
    destruct e as [[t vr] v]. cbn [fst snd e_tag e_vr e_val] in *.
    destruct (He t vr Hk Hw Hwo fuel true None None st _ acc eq_refl Hf) as [st1 E1]. rewrite E1.
    destruct (IH Hok (fuel - 1)%nat st1 rest (acc ++ [(t, vr, v)])) as [st2 E2].
    { rewrite app_length in Hf. destruct v; cbn [ltokens_of_value length] in Hf; lia. }
    exists st2. rewrite E2. rewrite <- app_assoc. reflexivity.
Qed.

Lemma ce_items items : Forall (fun it : obj => Forall (fun e : elem => ce_P (snd e)) it) items ->
  forallb (fun it => wfo it && forallb celem_ok it) items = true ->
  forall fuel st rest acc, (length (flat_map item_ltoks items ++ LSeqEnd :: rest) < fuel)%nat ->
  exists st', collect_sequence big fuel st (flat_map item_ltoks items ++ LSeqEnd :: rest) acc = Ok (acc ++ items, rest, st').
Proof.
  induction 1 as [|it items Hit Hitems IH]; intros Hok fuel st rest acc Hf; cbn [flat_map app forallb] in *.
  - destruct fuel as [|f]; [lia|]. exists st. rewrite cs_end, app_nil_r. reflexivity.
  - apply andb_true_iff in Hok. destruct Hok as [Hi Hok]. apply andb_true_iff in Hi. destruct Hi as [Hwf Hel].
    destruct fuel as [|f]; [cbn in Hf; lia|].
    unfold item_ltoks at 1. cbn [app]. rewrite cs_item. rewrite <- !app_assoc. cbn [app].
    unfold item_ltoks at 1 in Hf. cbn [app length] in Hf. rewrite <- !app_assoc in Hf. cbn [app] in Hf.
    destruct (ce_item it Hit Hel f st (flat_map item_ltoks items ++ LSeqEnd :: rest) []) as [st1 E1]; [lia|].
    rewrite E1. cbn [bind app].
    rewrite fold_put_sorted_nil by (apply wfo_sorted, Hwf).
    destruct (IH Hok f st1 rest (acc ++ [it])) as [st2 E2]; [rewrite app_length in Hf; cbn [length] in Hf; lia|].
    exists st2. rewrite E2, <- app_assoc. reflexivity.
Qed.

Lemma citems_ok items : forallb kind_ok items = true -> forallb wfo items = true ->
  forallb (fun it : obj => forallb (fun e : elem => words_okv (snd e)) it) items = true ->
  forallb (fun it => wfo it && forallb celem_ok it) items = true.
Proof.
  intros Hk Hw Hwo. pose proof (items_ok items Hk Hw) as H.
  rewrite forallb_forall in *. intros it Hit. specialize (H it Hit). specialize (Hwo it Hit).
  apply andb_true_iff in H. destruct H as [H1 H2]. rewrite H1. cbn [andb].
  rewrite forallb_forall in *. intros e He. unfold celem_ok. rewrite (H2 e He). apply (Hwo e He).
Qed.

Lemma ce_value v : ce_P v.
Proof.
  induction v as [p|items IH|b f] using value_ind'; intros t vr Hk Hw Hwo fuel in_item until to st rest acc Hs Hf.
  - destruct fuel as [|fu]; [cbn in Hf; lia|]. exists SDataset. cbn [ltokens_of_value app]. rewrite ce_header by exact Hs.
    replace (S fu - 1)%nat with fu by lia. reflexivity.
  - destruct fuel as [|fu]; [cbn in Hf; lia|]. cbn [ltokens_of_value app]. rewrite ce_seq by exact Hs.
    rewrite kind_seq in Hk. apply andb_true_iff in Hk. destruct Hk as [Hvr Hki].
    cbn [ltokens_of_value app length] in Hf. rewrite <- app_assoc in *. cbn [app] in *.
    change (flat_map (fun it : obj => LItemStart ulen :: flat_map (fun e : elem => ltoks (fst (fst e)) (snd (fst e)) (snd e)) it ++ [LItemEnd]) items)
      with (flat_map item_ltoks items) in *.
    destruct (ce_items items IH (citems_ok _ Hki (wfv_items _ Hw) Hwo) fu SDataset rest []) as [st1 E1]; [lia|].
    rewrite E1. cbn [bind app]. exists st1.
    replace (S fu - 1)%nat with fu by lia. replace vr with VR_SQ by lia. reflexivity.
  - destruct fuel as [|fu]; [cbn in Hf; lia|]. cbn [value_kind_ok] in Hk. apply andb_true_iff in Hk. destruct Hk as [Hvr Ht].
    assert (t = T_PIXEL) by (unfold T_PIXEL, T_PIXEL_DATA in *; lia). subst t.
    cbn [ltokens_of_value app]. rewrite ce_pix by exact Hs.
    change (flat_map (fun f0 : bytes => LItemStart (N.of_nat (length f0)) :: match f0 with [] => [] | _ => [LItemValue f0] end ++ [LItemEnd]) f)
      with (flat_map frag_ltoks f).
    pose proof (lencaps_pix b f rest Hwo) as He. exists SPixel.
    destruct b as [|x b]; cbn [app] in *; rewrite <- ?app_assoc in *; cbn [app] in *; rewrite He; cbn [bind].
    all: replace (S fu - 1)%nat with fu by lia; replace vr with LazyCollector.VR_OB by (unfold LazyCollector.VR_OB, Ops.VR_OB in *; lia); reflexivity.
Qed.

Lemma ce_elems es : forallb celem_ok es = true ->
  forall fuel in_item until to st rest acc, forallb (nostop until to) es = true ->
  (length (oltoks es ++ rest) < fuel)%nat ->
  exists st', collect_elements big fuel in_item until to st (oltoks es ++ rest) acc
            = collect_elements big (fuel - length es) in_item until to st' rest (acc ++ es).
Proof.
  induction es as [|e es IH]; intros Hok fuel in_item until to st rest acc Hns Hf; cbn [ltokens_of_obj flat_map app length] in *.
  - exists st. rewrite Nat.sub_0_r, app_nil_r. reflexivity.
  - apply andb_true_iff in Hok. destruct Hok as [Hek Hok]. unfold celem_ok, elem_ok in Hek. rewrite !andb_true_iff in Hek. destruct Hek as [[Hk Hw] Hwo].
    apply andb_true_iff in Hns. destruct Hns as [Hn Hns]. rewrite <- app_assoc in *.
    unfold ltokens_of_elem at 1.
    destruct (ce_value (e_val e) (e_tag e) (e_vr e) Hk Hw Hwo fuel in_item until to st (flat_map eltoks es ++ rest) acc) as [st1 E1];
      [unfold nostop in Hn; destruct (stops until to (e_tag e)); [discriminate|reflexivity]|exact Hf|].
    rewrite E1. destruct e as [[t vr] v]. cbn [e_tag e_vr e_val fst snd] in *.
    fold (oltoks es). destruct (IH Hok (fuel - 1)%nat in_item until to st1 rest (acc ++ [(t, vr, v)]) Hns) as [st2 E2].
    + unfold ltokens_of_obj, ltokens_of_elem in *. cbn [e_tag e_vr e_val fst snd] in Hf. rewrite app_length in Hf. destruct v; cbn [ltokens_of_value length] in Hf; lia.
    + exists st2. rewrite E2. rewrite <- app_assoc. cbn [app]. f_equal. lia.
Qed.

Lemma ce_stop e : celem_ok e = true -> forall fuel in_item until to st rest acc, stops until to (e_tag e) = true ->
  (0 < fuel)%nat -> collect_elements big fuel in_item until to st (eltoks e ++ rest) acc = Ok (acc, eltoks e ++ rest, st).
Proof.
  intros Hok fuel in_item until to st rest acc Hs Hf. destruct fuel as [|fu]; [lia|].
  destruct e as [[t vr] v]. unfold ltokens_of_elem. cbn [e_tag e_vr e_val fst snd] in *.
  unfold celem_ok, elem_ok in Hok. cbn [e_tag e_vr e_val fst snd] in Hok. rewrite !andb_true_iff in Hok. destruct Hok as [[Hk _] _].
  destruct v as [p|items|b f]; cbn [ltokens_of_value app].
  - cbn. rewrite Hs. reflexivity.
  - cbn. rewrite Hs. reflexivity.
  - cbn [value_kind_ok] in Hk. apply andb_true_iff in Hk. destruct Hk as [_ Ht].
    assert (t = T_PIXEL) by (unfold T_PIXEL, T_PIXEL_DATA in *; lia). subst t. cbn. rewrite Hs. reflexivity.
Qed.

Lemma oltoks_app a b : oltoks (a ++ b) = oltoks a ++ oltoks b.
Proof. unfold ltokens_of_obj. apply flat_map_app. Qed.
Lemma eltoks_len e : (2 <= length (eltoks e))%nat.
Proof. destruct e as [[t vr] v]. unfold ltokens_of_elem. destruct v; cbn; try lia. rewrite app_length. cbn. lia. Qed.
Lemma oltoks_len es : (length es <= length (oltoks es))%nat.
Proof. induction es as [|e es IH]; cbn; [lia|]. rewrite app_length. pose proof (eltoks_len e). fold (oltoks es). lia. Qed.

(* one portion: the elements below the stop tag go into the object, the rest of the stream is the
   stream of the remaining elements *)
Lemma read_up_to_prefix stop es st o : forallb celem_ok es = true ->
  exists st', read_up_to big stop (st, oltoks es) o
            = Ok ((st', oltoks (drop_while (nostop stop None) es)), fold_left put (take_while (nostop stop None) es) o).
Proof.
  intros Hok. unfold read_up_to. cbn [fst snd].
  set (a := take_while (nostop stop None) es). set (b := drop_while (nostop stop None) es).
  assert (Hes : es = a ++ b) by (symmetry; apply take_drop).
  assert (Ha : forallb celem_ok a = true) by (apply forallb_take_while, Hok).
  assert (Hb : forallb celem_ok b = true) by (apply forallb_drop_while, Hok).
  rewrite Hes. rewrite oltoks_app.
  pose proof (oltoks_len a) as Hla.
  destruct (ce_elems a Ha (S (length (oltoks a ++ oltoks b))) false stop None st (oltoks b) []) as [st1 E1];
    [apply take_while_all|lia|].
  rewrite E1. cbn [app].
  remember (S (length (oltoks a ++ oltoks b)) - length a)%nat as fu.
  assert (Hfu : (0 < fu)%nat) by (rewrite app_length in Heqfu; lia).
  destruct b as [|e b'] eqn:Eb.
  - destruct fu; [lia|]. exists st1. cbn [ltokens_of_obj flat_map]. rewrite ce_nil. reflexivity.
  - assert (Hse : stops stop None (e_tag e) = true).
    { subst b. clear - Eb. induction es as [|x es IH]; cbn in Eb; [discriminate|].
      destruct (nostop stop None x) eqn:E; [apply IH, Eb|]. injection Eb as -> _. unfold nostop in E. destruct (stops stop None (e_tag e)); [reflexivity|discriminate]. }
    cbn [forallb] in Hb. apply andb_true_iff in Hb. destruct Hb as [He _].
    cbn [ltokens_of_obj flat_map]. rewrite (ce_stop e He fu false stop None st1 (flat_map eltoks b') a Hse Hfu).
    exists st1. reflexivity.
Qed.

Lemma celems_ok es : wfo es = true -> kind_ok es = true -> words_ok es = true -> forallb celem_ok es = true.
Proof.
  intros Hw Hk Hwo. pose proof (elems_ok es Hw Hk) as H. unfold words_ok in Hwo.
  rewrite forallb_forall in *. intros e He. unfold celem_ok. rewrite (H e He), (Hwo e He). reflexivity.
Qed.

(* any list of split tags, then to the end: the object holds all the elements *)
Lemma run_splits_all splits : forall es st o accp, forallb celem_ok es = true ->
  exists parts, run_splits big splits (st, oltoks es) o accp = Ok (parts, fold_left put es o).
Proof.
  induction splits as [|s splits IH]; intros es st o accp Hok; cbn [run_splits].
  - destruct (read_up_to_prefix None es st o Hok) as [st1 E1]. rewrite E1. cbn [bind snd].
    exists accp. f_equal. f_equal.
    assert (Ht : take_while (nostop None None) es = es).
    { clear. induction es as [|e es IH]; [reflexivity|]. cbn. rewrite IH. reflexivity. }
    rewrite Ht. reflexivity.
  - destruct (read_up_to_prefix (Some s) es st o Hok) as [st1 E1]. rewrite E1. cbn [bind fst snd].
    destruct (IH (drop_while (nostop (Some s) None) es) st1 (fold_left put (take_while (nostop (Some s) None) es) o)
                 (accp ++ [fold_left put (take_while (nostop (Some s) None) es) o])) as [parts E2].
    { apply forallb_drop_while, Hok. }
    exists parts. rewrite E2. f_equal. f_equal.
    rewrite <- fold_left_app, take_drop. reflexivity.
Qed.
End Collector.

(** * Fragments one by one, offset table separately *)
Section Fragments.
Variable big : bool.
Variable ulen : N.
Variable plen : prim -> N.
Variable raw_of : prim -> bytes.
Notation oltoks := (ltokens_of_obj ulen plen raw_of big).

Definition no_pixel_start (ts : list ltoken) : bool := forallb (fun t => negb (is_pixel_start t)) ts.

Lemma skip_until_app a t r : no_pixel_start a = true -> is_pixel_start t = true -> skip_until (a ++ t :: r) = r.
Proof.
  intros Ha Ht. induction a as [|x a IH]; cbn [app skip_until].
  - rewrite Ht. reflexivity.
  - cbn [no_pixel_start forallb] in Ha. apply andb_true_iff in Ha. destruct Ha as [Hx Ha].
    destruct (is_pixel_start x); [discriminate|]. apply IH, Ha.
Qed.

Definition frag_stream (fs : list bytes) : list ltoken := flat_map frag_ltoks fs ++ [LSeqEnd].

Lemma next_frag f fs :
  read_next_fragment (SPixel, frag_stream (f :: fs)) = ((SPixel, LItemEnd :: frag_stream fs), Some (blen f, f)).
Proof.
  unfold read_next_fragment, frag_stream. cbn [fst snd flat_map]. unfold frag_ltoks at 1.
  destruct f as [|x f]; cbn [app next_value length N.of_nat].
  - reflexivity.
  - replace (N.of_nat (S (length f)) =? 0) with false by lia. reflexivity.
Qed.

Lemma next_frag_skip_end r : read_next_fragment (SPixel, LItemEnd :: r) = read_next_fragment (SPixel, r).
Proof. reflexivity. Qed.

Lemma all_frags fs : forall fuel, (length fs < fuel)%nat ->
  all_fragments fuel (SPixel, LItemEnd :: frag_stream fs) = map (fun f => (blen f, f)) fs.
Proof.
  induction fs as [|f fs IH]; intros fuel Hf; (destruct fuel as [|fu]; [cbn in Hf; lia|]); cbn [all_fragments map].
  - reflexivity.
  - rewrite next_frag_skip_end, next_frag. f_equal. apply IH. cbn in Hf. lia.
Qed.

Lemma blen_words_bytes l : blen (words_bytes big l) = 4 * N.of_nat (length l).
Proof.
  induction l as [|x l IH]; [reflexivity|]. cbn [words_bytes flat_map]. unfold blen in *. rewrite app_length.
  destruct (enc32_4 big x) as (b0 & b1 & b2 & b3 & E). rewrite E. cbn [length]. fold (words_bytes big l). lia.
Qed.

Definition pix_elem (bot : list N) (frags : list bytes) : elem := (T_PIXEL, LazyCollector.VR_OB, VPix bot frags).

Lemma oltoks_pix before bot frags :
  oltoks (before ++ [pix_elem bot frags]) =
  oltoks before ++ LPixStart :: LItemStart (4 * N.of_nat (length bot)) ::
    (match bot with [] => [] | _ => [LItemValue (words_bytes big bot)] end ++ LItemEnd :: frag_stream frags).
Proof.
  rewrite oltoks_app. f_equal. unfold ltokens_of_obj. cbn [flat_map]. rewrite app_nil_r.
  unfold ltokens_of_elem, pix_elem. cbn [e_tag e_vr e_val fst snd ltokens_of_value]. unfold frag_stream.
  change (flat_map (fun f0 : bytes => LItemStart (N.of_nat (length f0)) :: match f0 with [] => [] | _ => [LItemValue f0] end ++ [LItemEnd]) frags)
    with (flat_map frag_ltoks frags).
  destruct bot; cbn [app]; rewrite <- ?app_assoc; reflexivity.
Qed.

Lemma frag_stream_len frags : (length frags <= length (frag_stream frags))%nat.
Proof.
  unfold frag_stream. rewrite app_length.
  assert (H : (length frags <= length (flat_map frag_ltoks frags))%nat).
  { induction frags as [|f fs IH]; cbn [flat_map length]; [lia|]. rewrite app_length. unfold frag_ltoks at 1. cbn [length]. lia. }
  lia.
Qed.
Ltac frag_fuel := repeat (rewrite app_length || cbn [length app]); match goal with |- context [frag_stream ?f] => pose proof (frag_stream_len f) end; lia.

Lemma fragments_bot_first before bot frags :
  no_pixel_start (oltoks before) = true -> forallb (fun x => x <? 4294967296) bot = true ->
  run_fragments big true (oltoks (before ++ [pix_elem bot frags]))
  = Ok (Some (Some (4 * N.of_nat (length bot), bot)), map (fun f => (blen f, f)) frags).
Proof.
  intros Hb Hw. unfold run_fragments, read_offset_table. cbn [fst snd].
  rewrite oltoks_pix. rewrite skip_until_app by (exact Hb || reflexivity).
  destruct bot as [|x bot]; cbn [app next_value].
  - change (4 * N.of_nat (length (@nil N)) =? 0) with true. cbn [bind fst snd]. rewrite all_frags by frag_fuel. reflexivity.
  - replace (4 * N.of_nat (length (x :: bot)) =? 0) with false by (cbn [length]; lia). cbn [bind fst snd].
    rewrite all_frags by frag_fuel. rewrite blen_words_bytes, words_of_bytes by exact Hw. reflexivity.
Qed.

Lemma fragments_plain before bot frags :
  no_pixel_start (oltoks before) = true ->
  run_fragments big false (oltoks (before ++ [pix_elem bot frags]))
  = Ok (None, (4 * N.of_nat (length bot), words_bytes big bot) :: map (fun f => (blen f, f)) frags).
Proof.
  intros Hb. unfold run_fragments.
  rewrite oltoks_pix. cbn [all_fragments]. unfold read_next_fragment at 1. cbn [fst snd].
  rewrite skip_until_app by (exact Hb || reflexivity).
  destruct bot as [|x bot]; cbn [app next_value].
  - change (4 * N.of_nat (length (@nil N)) =? 0) with true. cbv iota. rewrite all_frags by frag_fuel. reflexivity.
  - replace (4 * N.of_nat (length (x :: bot)) =? 0) with false by (cbn [length]; lia).
    rewrite all_frags by frag_fuel. rewrite blen_words_bytes. reflexivity.
Qed.

(* native pixel data: one fragment; asking for the offset table first consumes it *)
Lemma fragments_native before vr p : no_pixel_start (oltoks before) = true -> plen p <> 4294967295 ->
  run_fragments big false (oltoks (before ++ [(T_PIXEL, vr, VPrim p)])) = Ok (None, [(plen p, raw_of p)]) /\
  run_fragments big true (oltoks (before ++ [(T_PIXEL, vr, VPrim p)])) = Ok (Some None, []).
Proof.
  intros Hb Hl.
  assert (Hts : oltoks (before ++ [(T_PIXEL, vr, VPrim p)])
                = oltoks before ++ LHeader T_PIXEL vr (plen p) :: [LValue T_PIXEL vr (plen p) p (raw_of p)]).
  { rewrite oltoks_app. f_equal. }
  assert (Hp : is_pixel_start (LHeader T_PIXEL vr (plen p)) = true).
  { cbn. rewrite N.eqb_refl. cbn. replace (plen p =? 4294967295) with false by lia. reflexivity. }
  assert (He : forall n, all_fragments n (SPixel, []) = []) by (intros [|n]; reflexivity).
  unfold run_fragments, read_offset_table. cbn [fst snd]. rewrite Hts. split.
  - cbn [all_fragments]. unfold read_next_fragment at 1. cbn [fst snd]. rewrite skip_until_app by assumption.
    cbn [next_value]. rewrite He. reflexivity.
  - rewrite skip_until_app by assumption. cbn [next_value bind fst snd]. rewrite He. reflexivity.
Qed.
End Fragments.
