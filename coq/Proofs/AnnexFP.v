(** The serialiser model only produces documents that the Annex F validator accepts. *)
From DicomV Require Import Model.Json Spec.AnnexF Proofs.JsonBaseP Proofs.JsonP Proofs.StrP.
From Coq Require Import ZifyBool ZifyNat ZifyN.
From Coq Require String.
Import String.StringSyntax.
Delimit Scope string_scope with string.
Ltac Zify.zify_post_hook ::= Z.div_mod_to_equations.

(** * keys *)
Lemma is_upper_hex_hexd n : n < 16 -> is_upper_hex (hexd n) = true.
Proof. intros H. unfold hexd, is_upper_hex. destruct (n <? 10) eqn:E; lia. Qed.
Lemma upper_hex_val_hexd n : n < 16 -> upper_hex_val (hexd n) = n.
Proof. intros H. unfold hexd, upper_hex_val. destruct (n <? 10) eqn:E; split_ifs; lia. Qed.

Lemma is_hex8_hex8 t : is_hex8 (hex8 t) = true.
Proof.
  unfold is_hex8. change (length (hex8 t) =? 8)%nat with true. cbn [andb].
  unfold hex8, hex4. cbn [List.app forallb].
  rewrite !is_upper_hex_hexd by lia. reflexivity.
Qed.

Lemma key_num_hex8 t : t < 2 ^ 32 -> key_num (hex8 t) = t.
Proof.
  intros H. unfold key_num, hex8, hex4. cbn [List.app fold_left].
  rewrite !upper_hex_val_hexd by lia. lia.
Qed.

(** * base64 *)
Lemma b64_index_b64c i : i < 64 -> b64_index (b64c i) = Some i.
Proof.
  intros H. unfold b64c.
  destruct (i <? 26) eqn:E1; [|destruct (i <? 52) eqn:E2; [|destruct (i <? 62) eqn:E3; [|destruct (i =? 62) eqn:E4]]];
    unfold b64_index; split_ifs; try (f_equal; lia); try (exfalso; lia).
Qed.

Lemma is_base64_b64enc b : wf_bytes b -> is_base64 (b64enc b) = true.
Proof.
  assert (H : forall n b, (length b <= n)%nat -> wf_bytes b -> is_base64 (b64enc b) = true).
  { induction n as [|n IH]; intros c0 Hl Hw.
    - destruct c0; [reflexivity | cbn in Hl; lia].
    - destruct c0 as [|x [|y [|z r]]].
      + reflexivity.
      + inversion Hw as [|? ? Hx _]; subst.
        assert (I1 : x / 4 < 64) by lia. assert (I2 : (x mod 4) * 16 < 64) by lia.
        cbn [b64enc is_base64]. rewrite (b64_index_b64c _ I1), (b64_index_b64c _ I2).
        change (61 =? 61) with true. cbv iota. cbn [andb]. lia.
      + inversion Hw as [|? ? Hx Hw']; subst. inversion Hw' as [|? ? Hy _]; subst.
        assert (I1 : x / 4 < 64) by lia. assert (I2 : (x mod 4) * 16 + y / 16 < 64) by lia.
        assert (I3 : (y mod 16) * 4 < 64) by lia.
        cbn [b64enc is_base64]. rewrite (b64_index_b64c _ I1), (b64_index_b64c _ I2), (b64c_not_pad _ I3), (b64_index_b64c _ I3).
        change (61 =? 61) with true. cbv iota. lia.
      + inversion Hw as [|? ? Hx Hw1]; subst. inversion Hw1 as [|? ? Hy Hw2]; subst.
        inversion Hw2 as [|? ? Hz Hw3]; subst.
        destruct (b64_idx_lt x y z Hx Hy Hz) as (I1 & I2 & I3 & I4).
        assert (IHr : is_base64 (b64enc r) = true) by (apply IH; [cbn in Hl; lia | exact Hw3]).
        cbn [b64enc]. destruct (b64enc r) as [|q qs] eqn:Er.
        * cbn [is_base64]. rewrite (b64_index_b64c _ I1), (b64_index_b64c _ I2), (b64c_not_pad _ I3), (b64_index_b64c _ I3),
            (b64c_not_pad _ I4), (b64_index_b64c _ I4). reflexivity.
        * cbn [is_base64]. rewrite (b64_index_b64c _ I1), (b64_index_b64c _ I2), (b64_index_b64c _ I3), (b64_index_b64c _ I4).
          cbn [is_some andb]. exact IHr. }
  intros Hw. apply (H (length b)); auto.
Qed.

(** * attribute objects *)
Lemma lookup_vr_name vr : exists t, lookup_vr (vr_name vr) vr_table = Some t.
Proof. destruct vr; eexists; reflexivity. Qed.

Lemma ok_attr_none vr : ok_attr (JObj (MCons k_vr (JStr (vr_name vr)) MNil)) = true.
Proof. destruct vr; reflexivity. Qed.

Lemma ok_attr_obj m :
  ok_attr (JObj m) = match vr_of_members m with
                     | Some t => (value_member_count m <=? 1)%nat && ok_attr_members t m
                     | None => false end.
Proof. reflexivity. Qed.
Lemma ok_attr_members_nil t : ok_attr_members t MNil = true.
Proof. reflexivity. Qed.
Lemma ok_attr_members_cons t k j tl :
  ok_attr_members t (MCons k j tl) =
      (if str_eqb k (L"vr") then true
       else if str_eqb k (L"Value") then
         match j with
         | JArr JNil => false
         | JArr l => match t with
                     | TSeq => ok_seq_items l
                     | TBase64 => false
                     | _ => forallb (ok_item t) (jlist_list l)
                     end
         | _ => false
         end
       else if str_eqb k (L"InlineBinary") then
         match t, j with
         | TBase64, JStr s => negb (is_nil s) && is_base64 s
         | _, _ => false
         end
       else if str_eqb k (L"BulkDataURI") then match j with JStr _ => true | _ => false end
       else false)
      && ok_attr_members t tl.
Proof. reflexivity. Qed.

Lemma vr_of_members_2 n k j :
  str_eqb k (L"vr") = false -> vr_of_members (MCons k_vr (JStr n) (MCons k j MNil)) = lookup_vr n vr_table.
Proof.
  intros H. unfold vr_of_members. cbn [jmembers_list filter fst]. change (str_eqb k_vr (L"vr")) with true.
  rewrite H. reflexivity.
Qed.
Lemma value_member_count_2 n k j : (value_member_count (MCons k_vr (JStr n) (MCons k j MNil)) <=? 1)%nat = true.
Proof.
  unfold value_member_count. cbn [jmembers_list filter fst].
  change (existsb (str_eqb k_vr) value_keys) with false. cbv iota.
  destruct (existsb (str_eqb k) value_keys); reflexivity.
Qed.

(* "vr" and "Value": items of a non-sequence, non-binary VR *)
Lemma ok_attr_value vr t l :
  lookup_vr (vr_name vr) vr_table = Some t -> t <> TSeq -> t <> TBase64 ->
  l <> [] -> forallb (ok_item t) l = true ->
  ok_attr (JObj (MCons k_vr (JStr (vr_name vr)) (member_value l))) = true.
Proof.
  intros Ht Hs Hb Hl Hi. unfold member_value.
  rewrite ok_attr_obj, vr_of_members_2 by reflexivity. rewrite Ht, value_member_count_2. cbn [andb].
  rewrite !ok_attr_members_cons, ok_attr_members_nil.
  change (str_eqb k_vr (L"vr")) with true. change (str_eqb k_Value (L"vr")) with false.
  change (str_eqb k_Value (L"Value")) with true. cbv iota. cbn [andb]. unfold jarr.
  destruct l as [|j l]; [congruence|]. cbn [jarr_of].
  change (JCons j (jarr_of l)) with (jarr_of (j :: l)). rewrite jlist_list_of, Hi.
  destruct t; try reflexivity; congruence.
Qed.

Lemma ok_attr_seq l :
  l <> JNil -> ok_seq_items l = true ->
  ok_attr (JObj (MCons k_vr (JStr (vr_name V_SQ)) (MCons k_Value (JArr l) MNil))) = true.
Proof.
  intros Hl Hi.
  rewrite ok_attr_obj, vr_of_members_2 by reflexivity. change (lookup_vr (vr_name V_SQ) vr_table) with (Some TSeq).
  rewrite value_member_count_2. cbn [andb].
  rewrite !ok_attr_members_cons, ok_attr_members_nil.
  change (str_eqb k_vr (L"vr")) with true. change (str_eqb k_Value (L"vr")) with false.
  change (str_eqb k_Value (L"Value")) with true. cbv iota. cbn [andb].
  destruct l; [congruence|]. rewrite Hi. reflexivity.
Qed.

Lemma ok_attr_inline vr s :
  vr_class vr = CBin -> s <> [] -> is_base64 s = true ->
  ok_attr (JObj (MCons k_vr (JStr (vr_name vr)) (MCons k_InlineBinary (JStr s) MNil))) = true.
Proof.
  intros C Hs Hb.
  assert (E : lookup_vr (vr_name vr) vr_table = Some TBase64) by (destruct vr; try discriminate C; reflexivity).
  rewrite ok_attr_obj, vr_of_members_2 by reflexivity. rewrite E, value_member_count_2. cbn [andb].
  rewrite !ok_attr_members_cons, ok_attr_members_nil.
  change (str_eqb k_vr (L"vr")) with true. change (str_eqb k_InlineBinary (L"vr")) with false.
  change (str_eqb k_InlineBinary (L"Value")) with false. change (str_eqb k_InlineBinary (L"InlineBinary")) with true.
  cbv iota. rewrite Hb. destruct s; [congruence | reflexivity].
Qed.

(** * items *)
Lemma split_first_no c s a r : split_first c s = (a, r) -> ~ In c a.
Proof.
  revert a r. induction s as [|x s IH]; intros a r H; cbn [split_first] in H.
  - inversion H; subst. intros [].
  - destruct (x =? c) eqn:E.
    + inversion H; subst. intros [].
    + destruct (split_first c s) as [a' b'] eqn:E'. inversion H; subst.
      intros [Hx|Hin]; [lia|]. eapply IH; eauto.
Qed.

Lemma no_eq_sign_iff s : no_eq_sign s = true <-> ~ In 61 s.
Proof.
  unfold no_eq_sign. rewrite negb_true_iff. split.
  - intros H Hin. assert (existsb (N.eqb 61) s = true); [|congruence].
    apply existsb_exists. exists 61. split; [exact Hin | apply N.eqb_refl].
  - intros H. destruct (existsb (N.eqb 61) s) eqn:E; [|reflexivity].
    apply existsb_exists in E. destruct E as (x & Hin & Hx). apply N.eqb_eq in Hx. subst. contradiction.
Qed.

Lemma nonempty_some s t : nonempty s = Some t -> t = s.
Proof. destruct s; cbn; congruence. Qed.

Lemma ok_person_pn_json s : pn_three_groups s = true -> ok_person (pn_json s) = true.
Proof.
  unfold pn_three_groups, pn_json, pn_groups.
  destruct (split_first 61 s) as [a r] eqn:E1. pose proof (split_first_no _ _ _ _ E1) as Ha.
  apply no_eq_sign_iff in Ha. clear E1.
  destruct r as [r|].
  - destruct (split_first 61 r) as [i r2] eqn:E2. pose proof (split_first_no _ _ _ _ E2) as Hi.
    apply no_eq_sign_iff in Hi. clear E2.
    destruct (nonempty i) as [i'|] eqn:Ei; [apply nonempty_some in Ei; subst i'|];
      (destruct r2 as [p|]; [destruct (nonempty p) as [p'|] eqn:Ep; [apply nonempty_some in Ep; subst p'|]|]);
      intros Hp; try clear Ei; try clear Ep; cbv in Ha, Hi, Hp |- *; rewrite ?Ha, ?Hi, ?Hp; reflexivity.
  - intros _. cbv in Ha |- *. rewrite Ha. reflexivity.
Qed.

Lemma forallb_map {A B} (f : B -> bool) (g : A -> B) l : forallb f (map g l) = forallb (fun a => f (g a)) l.
Proof. induction l; cbn; [|rewrite IHl]; reflexivity. Qed.

Lemma ok_item_f32 t b : t = TNumber \/ t = TNumOrStr -> ok_item t (f32_json b) = true.
Proof. intros [-> | ->]; unfold f32_json; destruct (f32_finite b), (f32_is_nan b), (f32_neg b); reflexivity. Qed.
Lemma ok_item_f64 t b : t = TNumber \/ t = TNumOrStr -> ok_item t (f64_json b) = true.
Proof. intros [-> | ->]; unfold f64_json; destruct (f64_finite b), (f64_is_nan b), (f64_neg b); reflexivity. Qed.
Lemma ok_item_int_json t k z : t = TNumOrStr \/ t = TIntOrStr -> ok_item t (int_json k z) = true.
Proof. intros [-> | ->]; unfold int_json; destruct k; try reflexivity; destruct (fits_i32 z); reflexivity. Qed.

Lemma map_nonnil {A B} (f : A -> B) l n : length l = S n -> map f l <> [].
Proof. destruct l; cbn; [discriminate | discriminate]. Qed.

(** * one primitive value *)
Section Conf.
Variable X : ext.

Theorem conf_prim_ok vr p :
  conf_prim X vr p = true ->
  exists m, ser_prim X vr p = Ok m /\ ok_attr (JObj (MCons k_vr (JStr (vr_name vr)) m)) = true.
Proof.
  unfold conf_prim, wf_prim, ser_prim. destruct (multiplicity p) as [|n] eqn:Hm.
  { intros _. exists MNil. split; [reflexivity | apply ok_attr_none]. }
  intros W. apply andb_true_iff in W. destruct W as [W Wc].
  destruct (vr_class vr) eqn:C.
  - (* strings *)
    eexists. split; [reflexivity|].
    assert (Ht : lookup_vr (vr_name vr) vr_table = Some TString) by (destruct vr; try discriminate C; reflexivity).
    apply (ok_attr_value vr TString); [exact Ht | discriminate | discriminate | |].
    + intros E. apply map_eq_nil in E. revert E. apply (multi_str_nonempty X p n Hm).
    + rewrite forallb_map. apply forallb_forall. reflexivity.
  - (* PN *)
    destruct vr; try discriminate C. eexists. split; [reflexivity|].
    apply (ok_attr_value V_PN TPerson); [reflexivity | discriminate | discriminate | |].
    + intros E. apply map_eq_nil in E. revert E. apply (multi_str_nonempty X p n Hm).
    + rewrite forallb_map. apply forallb_forall. intros s Hin. cbn [ok_item].
      apply ok_person_pn_json. exact (forallb_In _ _ _ Wc Hin).
  - (* AT *)
    destruct vr; try discriminate C. destruct p; try discriminate W. eexists. split; [reflexivity|].
    apply (ok_attr_value V_AT TTag); [reflexivity | discriminate | discriminate | |].
    + apply (map_nonnil _ _ n). exact Hm.
    + rewrite forallb_map. apply forallb_forall. intros t _. cbn [ok_item]. apply is_hex8_hex8.
  - (* numbers *)
    destruct vr; try discriminate C; cbn [vr_ikind] in *.
    + (* DS *)
      destruct p; try discriminate W; cbn [ser_numbers bind multiplicity] in *; eexists; (split; [reflexivity|]);
        apply (ok_attr_value V_DS TNumOrStr); try reflexivity; try discriminate;
        try (apply (map_nonnil _ _ n); exact Hm); try (rewrite forallb_map; apply forallb_forall; intros x _).
      * reflexivity.
      * apply ok_item_int_json. left; reflexivity.
      * apply ok_item_f32. right; reflexivity.
      * apply ok_item_f64. right; reflexivity.
    + (* FL *)
      destruct p; try discriminate W. cbn [ser_numbers bind multiplicity] in *. eexists. split; [reflexivity|].
      apply (ok_attr_value V_FL TNumber); try reflexivity; try discriminate.
      * apply (map_nonnil _ _ n). exact Hm.
      * rewrite forallb_map. apply forallb_forall. intros x _. apply ok_item_f32. left; reflexivity.
    + (* FD *)
      destruct p; try discriminate W. cbn [ser_numbers bind multiplicity] in *. eexists. split; [reflexivity|].
      apply (ok_attr_value V_FD TNumber); try reflexivity; try discriminate.
      * apply (map_nonnil _ _ n). exact Hm.
      * rewrite forallb_map. apply forallb_forall. intros x _. apply ok_item_f64. left; reflexivity.
    + (* IS *)
      destruct p; try discriminate W; cbn [ser_numbers bind multiplicity] in *; eexists; (split; [reflexivity|]);
        apply (ok_attr_value V_IS TNumOrStr); try reflexivity; try discriminate;
        try (apply (map_nonnil _ _ n); exact Hm); try (rewrite forallb_map; apply forallb_forall; intros x _).
      * reflexivity.
      * apply ok_item_int_json. left; reflexivity.
      * apply ok_item_f32. right; reflexivity.
      * apply ok_item_f64. right; reflexivity.
    + (* SL *)
      destruct p; try discriminate W. cbn [ser_numbers bind multiplicity] in *. eexists. split; [reflexivity|].
      apply (ok_attr_value V_SL (TInt (-2147483648) 2147483647)); try reflexivity; try discriminate.
      * apply (map_nonnil _ _ n). exact Hm.
      * rewrite forallb_map. apply forallb_forall. intros z Hin. pose proof (forallb_In _ _ _ W Hin) as Hz.
        rewrite int_json_fits; [exact Hz|]. unfold in_kind, fits_i32 in *. cbn [ikind_lo ikind_hi] in Hz. lia.
    + (* SS *)
      destruct p; try discriminate W. cbn [ser_numbers bind multiplicity] in *. eexists. split; [reflexivity|].
      apply (ok_attr_value V_SS (TInt (-32768) 32767)); try reflexivity; try discriminate.
      * apply (map_nonnil _ _ n). exact Hm.
      * rewrite forallb_map. apply forallb_forall. intros z Hin. pose proof (forallb_In _ _ _ W Hin) as Hz.
        rewrite int_json_fits; [exact Hz|]. unfold in_kind, fits_i32 in *. cbn [ikind_lo ikind_hi] in Hz. lia.
    + (* SV *)
      destruct p; try discriminate W. cbn [ser_numbers bind multiplicity] in *. eexists. split; [reflexivity|].
      apply (ok_attr_value V_SV TIntOrStr); try reflexivity; try discriminate.
      * apply (map_nonnil _ _ n). exact Hm.
      * rewrite forallb_map. apply forallb_forall. intros z _. apply ok_item_int_json. right; reflexivity.
    + (* UL *)
      destruct p; try discriminate W. cbn [ser_numbers bind multiplicity] in *. eexists. split; [reflexivity|].
      apply (ok_attr_value V_UL (TInt 0 4294967295)); try reflexivity; try discriminate.
      * apply (map_nonnil _ _ n). exact Hm.
      * rewrite forallb_map. apply forallb_forall. intros z Hin. pose proof (forallb_In _ _ _ W Hin) as Hz.
        pose proof (forallb_In _ _ _ Wc Hin) as Hj. cbv beta in Hj.
        assert (E : int_json k z = JInt z).
        { unfold int_json in *. destruct k; try reflexivity; destruct (fits_i32 z); try reflexivity; discriminate Hj. }
        rewrite E. exact Hz.
    + (* US *)
      destruct p; try discriminate W. cbn [ser_numbers bind multiplicity] in *. eexists. split; [reflexivity|].
      apply (ok_attr_value V_US (TInt 0 65535)); try reflexivity; try discriminate.
      * apply (map_nonnil _ _ n). exact Hm.
      * rewrite forallb_map. apply forallb_forall. intros z Hin. pose proof (forallb_In _ _ _ W Hin) as Hz.
        rewrite int_json_fits; [exact Hz|]. unfold in_kind, fits_i32 in *. cbn [ikind_lo ikind_hi] in Hz. lia.
    + (* UV *)
      destruct p; try discriminate W. cbn [ser_numbers bind multiplicity] in *. eexists. split; [reflexivity|].
      apply (ok_attr_value V_UV TIntOrStr); try reflexivity; try discriminate.
      * apply (map_nonnil _ _ n). exact Hm.
      * rewrite forallb_map. apply forallb_forall. intros z _. apply ok_item_int_json. right; reflexivity.
  - (* binary *)
    pose proof (to_bytes_wf p) as Hw. destruct (to_bytes p) as [|x b] eqn:Eb.
    + exists MNil. split; [reflexivity | apply ok_attr_none].
    + eexists. split; [reflexivity|]. apply ok_attr_inline; [exact C | | apply is_base64_b64enc; exact Hw].
      intros E. apply (proj1 (b64enc_nil_iff _)) in E. discriminate E.
  - discriminate W.
Qed.

(** * data sets of any depth *)
Lemma ok_ds_members_cons k j tl prev :
  ok_ds_members (MCons k j tl) prev =
    is_hex8 k && tag_above prev (key_num k) && ok_attr j && ok_ds_members tl (Some (key_num k)).
Proof. reflexivity. Qed.
Lemma ok_seq_items_cons j tl : ok_seq_items (JCons j tl) = ok_ds j && ok_seq_items tl.
Proof. reflexivity. Qed.
Lemma ok_ds_obj m : ok_ds (JObj m) = ok_ds_members m None.
Proof. reflexivity. Qed.
Lemma conf_value_eq vr v :
  conf_value X vr v = match v with VPrim p => conf_prim X vr p | VSeq it => vr_eqb vr V_SQ && conf_items X it | VPix => false end.
Proof. destruct v; reflexivity. Qed.
Lemma conf_items_cons d tl : conf_items X (ICons d tl) = conf_dset_from X None d && conf_items X tl.
Proof. reflexivity. Qed.
Lemma conf_dset_from_cons lo t vr v tl :
  conf_dset_from X lo (DCons t vr v tl) =
    tag_above lo t && (t <? 2 ^ 32) && conf_value X vr v && conf_dset_from X (Some t) tl.
Proof. reflexivity. Qed.

Definition C_value (v : value) : Prop :=
  forall vr, conf_value X vr v = true ->
  exists m, ser_value X vr v = Ok m /\ ok_attr (JObj (MCons k_vr (JStr (vr_name vr)) m)) = true.
Definition C_items (it : items) : Prop :=
  conf_items X it = true -> exists l, ser_items X it = Ok l /\ ok_seq_items l = true.
Definition C_dset (d : dset) : Prop :=
  forall lo, conf_dset_from X lo d = true ->
  exists m, ser_dset X d = Ok m /\ ok_ds_members m lo = true.

Lemma conf_all : (forall v, C_value v) /\ (forall it, C_items it) /\ (forall d, C_dset d).
Proof.
  apply dset_mutind; unfold C_value, C_items, C_dset.
  - intros p vr W. rewrite conf_value_eq in W. rewrite ser_value_eq. apply conf_prim_ok. exact W.
  - intros it IH vr W. rewrite conf_value_eq in W. apply andb_true_iff in W. destruct W as [Wv Wi].
    apply vr_eqb_eq in Wv. subst vr. rewrite ser_value_eq. destruct it as [|d tl].
    + exists MNil. split; [reflexivity | apply ok_attr_none].
    + destruct (IH Wi) as (l & Hs & Hok). rewrite Hs. cbn [bind]. eexists. split; [reflexivity|].
      apply ok_attr_seq; [|exact Hok].
      rewrite ser_items_cons in Hs. destruct (ser_dset X d); try discriminate Hs. cbn [bind] in Hs.
      destruct (ser_items X tl); try discriminate Hs. cbn [bind] in Hs. inversion Hs. discriminate.
  - intros vr W. rewrite conf_value_eq in W. discriminate W.
  - intros _. exists JNil. split; reflexivity.
  - intros d IHd tl IHt W. rewrite conf_items_cons in W. apply andb_true_iff in W. destruct W as [Wd Wt].
    destruct (IHd None Wd) as (m & Hs & Hok). destruct (IHt Wt) as (l & Hs2 & Hok2).
    rewrite ser_items_cons, Hs, Hs2. cbn [bind]. eexists. split; [reflexivity|].
    rewrite ok_seq_items_cons, ok_ds_obj, Hok, Hok2. reflexivity.
  - intros lo _. exists MNil. split; reflexivity.
  - intros t vr v IHv tl IHt lo W. rewrite conf_dset_from_cons in W.
    apply andb_true_iff in W. destruct W as [W Wt]. apply andb_true_iff in W. destruct W as [W Wv].
    apply andb_true_iff in W. destruct W as [Wlo W32].
    destruct (IHv vr Wv) as (mv & Hsv & Hokv). destruct (IHt (Some t) Wt) as (m & Hst & Hokt).
    rewrite ser_dset_cons, Hsv, Hst. cbn [bind]. eexists. split; [reflexivity|].
    rewrite ok_ds_members_cons, is_hex8_hex8, key_num_hex8 by lia. rewrite Wlo, Hokv, Hokt. reflexivity.
Qed.

Theorem ser_conforms d : conf_dset X d = true -> exists j, ser X d = Ok j /\ annexf_ok j = true.
Proof.
  intros W. destruct conf_all as (_ & _ & H). destruct (H d None W) as (m & Hs & Hok).
  unfold ser. rewrite Hs. cbn [bind]. eexists. split; [reflexivity|]. exact Hok.
Qed.
End Conf.
