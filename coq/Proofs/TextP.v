(** Lemmas about Model/Text.v (property C10). *)
From Coq Require Import ZifyBool ZifyNat ZifyN.
From DicomV Require Import Base.Str Proofs.StrP Gen.GenCharsets Model.Text.
From DicomV Require Export Proofs.Utf8P.
Open Scope N_scope.

(* ------------------------------------------------------------------ generic helpers *)
Lemma assoc_In {A} k (l : list (N * A)) v : assoc k l = Some v -> In (k, v) l.
Proof.
  induction l as [|[k' v'] l IH]; cbn; [discriminate|].
  destruct (N.eqb_spec k' k) as [->|]; [intros [= ->]; left; reflexivity | intros H; right; auto].
Qed.

Fixpoint range (n : nat) : list N :=
  match n with O => [] | S n' => range n' ++ [N.of_nat n'] end.
Lemma range_In n b : (N.to_nat b < n)%nat -> In b (range n).
Proof.
  induction n as [|n IH]; intros H; [lia|]. cbn. apply in_or_app.
  destruct (Nat.eq_dec (N.to_nat b) n) as [E|E].
  - right. left. lia.
  - left. apply IH. lia.
Qed.

Lemma mapM_ok {A B} (f : A -> outcome B) l r :
  mapM f l = Ok r <-> Forall2 (fun a b => f a = Ok b) l r.
Proof.
  revert r. induction l as [|a l IH]; intros r; cbn.
  - split; [intros [= <-]; constructor | intros H; inversion H; reflexivity].
  - split.
    + destruct (f a) as [b| |] eqn:E; cbn; try discriminate.
      destruct (mapM f l) as [r'| |] eqn:E'; cbn; try discriminate.
      intros [= <-]. constructor; [exact E | apply IH; reflexivity].
    + intros H. inversion H as [|? b ? r' Hab Hr]; subst. rewrite Hab. cbn.
      apply IH in Hr. rewrite Hr. reflexivity.
Qed.

(* ------------------------------------------------------------------ the regenerated tables *)
Definition sb_sets : list charset := [CsDefault; IR100; IR101; IR109; IR110; IR126; IR127; IR138; IR144; IR166].

(** The sets the implementation exposes are the 16 of the model, with these names, and
    exactly the ten single-byte ones were found to be single-byte by the complete sweep. *)
Lemma gen_names_ok : gen_names = map name all_charsets.
Proof. vm_compute. reflexivity. Qed.
Lemma gen_sb_keys : map fst gen_sb = map cs_index sb_sets.
Proof. vm_compute. reflexivity. Qed.
Lemma gen_summary_single :
  map (fun r => let '(i, _, single) := r in (i, single)) gen_summary
  = map (fun cs => (cs_index cs, match kind_of cs with KSingle => true | _ => false end)) all_charsets.
Proof. vm_compute. reflexivity. Qed.

(** the complete sweep found, for each single-byte set, exactly the rows of its encode table (at most 256) *)
Definition summary_row_ok (r : N * N * bool) : bool :=
  let '(i, count, single) := r in
  negb single ||
  match assoc i gen_sb with
  | Some (_, enc) => (count =? N.of_nat (List.length enc)) && (count <=? 256)
  | None => false
  end.
Lemma gen_summary_counts : forallb summary_row_ok gen_summary = true.
Proof. vm_compute. reflexivity. Qed.

Lemma kind_single_In cs : kind_of cs = KSingle <-> In cs sb_sets.
Proof.
  split.
  - destruct cs; cbn; intros H; try discriminate; tauto.
  - cbn. intros H. repeat (destruct H as [<-|H]; [reflexivity|]). destruct H.
Qed.

(** every accepted defined term observed on the implementation is what the model's from_code says *)
Definition term_row_ok (r : list N * option N) : bool :=
  opt_eqb N.eqb (option_map cs_index (from_code (fst r))) (snd r).
Lemma gen_terms_ok : forallb term_row_ok gen_terms = true.
Proof. vm_compute. reflexivity. Qed.

(** Per single-byte set, one boolean that the kernel evaluates on the regenerated tables:
    256 decode rows; every (scalar, byte) the encoder accepts decodes back to that scalar;
    the ASCII half is the identity in both directions; every decode row is either one
    scalar that the encoder maps back into a byte decoding to the same scalar, or the
    octal escape of the trap. *)
Definition dec_at (cs : charset) (b : N) : list N := sb_decode_byte (sb_dec cs) b.
Definition enc_row_ok (cs : charset) (p : N * N) : bool :=
  (snd p <? 256) && list_eqb N.eqb (dec_at cs (snd p)) [fst p].
Definition ascii_row_ok (cs : charset) (b : N) : bool :=
  list_eqb N.eqb (dec_at cs b) [b] && opt_eqb N.eqb (assoc b (sb_enc cs)) (Some b).
Definition dec_row_ok (cs : charset) (b : N) : bool :=
  match dec_at cs b with
  | [c] => match assoc c (sb_enc cs) with Some b' => list_eqb N.eqb (dec_at cs b') [c] | None => false end
  | r => list_eqb N.eqb r (trap b)
  end.
Definition table_ok (cs : charset) : bool :=
  (N.of_nat (List.length (sb_dec cs)) =? 256)
  && forallb (enc_row_ok cs) (sb_enc cs)
  && forallb (ascii_row_ok cs) (range 128)
  && forallb (dec_row_ok cs) (range 256).

Lemma tables_ok : forallb table_ok sb_sets = true.
Proof. vm_compute. reflexivity. Qed.

Lemma table_ok_of cs : kind_of cs = KSingle -> table_ok cs = true.
Proof.
  intros H. apply kind_single_In in H.
  exact (proj1 (forallb_forall table_ok sb_sets) tables_ok cs H).
Qed.

Section SingleByte.
  Variable cs : charset.
  Hypothesis Hk : kind_of cs = KSingle.

  Lemma sb_dec_length : List.length (sb_dec cs) = 256%nat.
  Proof.
    pose proof (table_ok_of cs Hk) as H. unfold table_ok in H.
    repeat (apply andb_true_iff in H as [H ?]). apply N.eqb_eq in H. lia.
  Qed.

  Lemma enc_row c b : assoc c (sb_enc cs) = Some b -> b < 256 /\ dec_at cs b = [c].
  Proof.
    intros H. pose proof (table_ok_of cs Hk) as T. unfold table_ok in T.
    repeat (apply andb_true_iff in T as [T ?]).
    match goal with Hf : forallb (enc_row_ok cs) _ = true |- _ =>
      pose proof (proj1 (forallb_forall _ _) Hf (c, b) (assoc_In _ _ _ H)) as R end.
    unfold enc_row_ok in R. cbn [fst snd] in R. apply andb_true_iff in R as [R1 R2].
    split; [lia|]. apply (proj1 (list_eqb_spec N.eqb (fun x y => N.eqb_eq x y) _ _)) in R2. exact R2.
  Qed.

  Lemma ascii_row b : b < 128 -> dec_at cs b = [b] /\ assoc b (sb_enc cs) = Some b.
  Proof.
    intros Hb. pose proof (table_ok_of cs Hk) as T. unfold table_ok in T.
    repeat (apply andb_true_iff in T as [T ?]).
    match goal with Hf : forallb (ascii_row_ok cs) _ = true |- _ =>
      pose proof (proj1 (forallb_forall _ _) Hf b (range_In 128 b ltac:(lia))) as R end.
    unfold ascii_row_ok in R. apply andb_true_iff in R as [R1 R2].
    apply (proj1 (list_eqb_spec N.eqb (fun x y => N.eqb_eq x y) _ _)) in R1.
    split; [exact R1|]. destruct (assoc b (sb_enc cs)) as [x|]; cbn in R2; [apply N.eqb_eq in R2; subst x; reflexivity | discriminate].
  Qed.

  Lemma dec_row b : b < 256 ->
    (exists c b', dec_at cs b = [c] /\ assoc c (sb_enc cs) = Some b' /\ dec_at cs b' = [c]) \/ dec_at cs b = trap b.
  Proof.
    intros Hb. pose proof (table_ok_of cs Hk) as T. unfold table_ok in T.
    repeat (apply andb_true_iff in T as [T ?]).
    match goal with Hf : forallb (dec_row_ok cs) _ = true |- _ =>
      pose proof (proj1 (forallb_forall _ _) Hf b (range_In 256 b ltac:(lia))) as R end.
    unfold dec_row_ok in R.
    destruct (dec_at cs b) as [|c [|c' r]] eqn:E.
    - right. apply (proj1 (list_eqb_spec N.eqb (fun x y => N.eqb_eq x y) _ _)) in R. exact R.
    - left. destruct (assoc c (sb_enc cs)) as [b'|] eqn:E'; [|discriminate].
      apply (proj1 (list_eqb_spec N.eqb (fun x y => N.eqb_eq x y) _ _)) in R. eauto.
    - right. apply (proj1 (list_eqb_spec N.eqb (fun x y => N.eqb_eq x y) _ _)) in R. exact R.
  Qed.

  (** the repertoire is exactly what the decoder can produce from one byte *)
  Lemma in_rep_iff c : in_repb cs c = true <-> exists b, b < 256 /\ dec_at cs b = [c].
  Proof.
    unfold in_repb. rewrite Hk. split.
    - destruct (assoc c (sb_enc cs)) as [b|] eqn:E; [|discriminate]. intros _.
      exists b. apply enc_row. exact E.
    - intros [b [Hb Hd]]. destruct (dec_row b Hb) as [[c' [b' [H1 [H2 _]]]]|Ht].
      + rewrite Hd in H1. injection H1 as <-. rewrite H2. reflexivity.
      + rewrite Hd in Ht. unfold trap in Ht. discriminate.
  Qed.

  Lemma sb_encode_ok s b :
    sb_encode (sb_enc cs) s = Ok b <-> Forall2 (fun c x => assoc c (sb_enc cs) = Some x) s b.
  Proof.
    revert b. induction s as [|c s IH]; intros b; cbn.
    - split; [intros [= <-]; constructor | intros H; inversion H; reflexivity].
    - destruct (assoc c (sb_enc cs)) as [x|] eqn:E.
      + destruct (sb_encode (sb_enc cs) s) as [r| |] eqn:E'; cbn.
        * split; [intros [= <-]; constructor; [exact E | apply IH; reflexivity]|].
          intros H. inversion H as [|? x' ? r' Hx Hr]; subst. apply IH in Hr. injection Hr as <-.
          rewrite E in Hx. injection Hx as <-. reflexivity.
        * split; [discriminate|]. intros H. inversion H as [|? x' ? r' Hx Hr]; subst. apply IH in Hr. discriminate.
        * split; [discriminate|]. intros H. inversion H as [|? x' ? r' Hx Hr]; subst. apply IH in Hr. discriminate.
      + split; [discriminate|]. intros H. inversion H; congruence.
  Qed.

  Lemma sb_encode_total s : forallb (in_repb cs) s = true -> exists b, sb_encode (sb_enc cs) s = Ok b.
  Proof.
    induction s as [|c s IH]; cbn; [eauto|]. intros H. apply andb_true_iff in H as [Hc Hs].
    unfold in_repb in Hc. rewrite Hk in Hc. destruct (assoc c (sb_enc cs)) as [x|]; [|discriminate].
    destruct (IH Hs) as [r ->]. cbn. eauto.
  Qed.

  (** strict: a character outside the repertoire fails the call, wherever it is *)
  Lemma sb_encode_strict s1 c s2 : in_repb cs c = false -> sb_encode (sb_enc cs) (s1 ++ c :: s2) = Err err_encode.
  Proof.
    intros Hc. unfold in_repb in Hc. rewrite Hk in Hc.
    induction s1 as [|d s1 IH]; cbn.
    - destruct (assoc c (sb_enc cs)); [discriminate|reflexivity].
    - destruct (assoc d (sb_enc cs)); [|reflexivity]. rewrite IH. reflexivity.
  Qed.
  Lemma sb_encode_ok_or_err s : (exists b, sb_encode (sb_enc cs) s = Ok b) \/ sb_encode (sb_enc cs) s = Err err_encode.
  Proof.
    induction s as [|c s IH]; cbn; [eauto|]. destruct (assoc c (sb_enc cs)); [|auto].
    destruct IH as [[b ->]| ->]; cbn; eauto.
  Qed.

  Lemma sb_decode_enc s b :
    Forall2 (fun c x => assoc c (sb_enc cs) = Some x) s b -> flat_map (sb_decode_byte (sb_dec cs)) b = s.
  Proof.
    induction 1 as [|c x s b Hx _ IH]; cbn; [reflexivity|].
    destruct (enc_row c x Hx) as [_ Hd]. unfold dec_at in Hd. rewrite Hd, IH. reflexivity.
  Qed.

  Lemma sb_no92 s b :
    Forall2 (fun c x => assoc c (sb_enc cs) = Some x) s b -> ~ In 92 s -> ~ In 92 b.
  Proof.
    induction 1 as [|c x s b Hx _ IH]; cbn; [tauto|]. intros Hn [E|Hin].
    - subst x. destruct (enc_row c 92 Hx) as [_ Hd]. destruct (ascii_row 92 ltac:(lia)) as [Ha _].
      rewrite Ha in Hd. injection Hd as <-. apply Hn. left. reflexivity.
    - apply IH; [|exact Hin]. intros H. apply Hn. right. exact H.
  Qed.
End SingleByte.


(* ------------------------------------------------------------------ defined terms *)
Lemma from_code_name cs : from_code (name cs) = Some cs.
Proof. destruct cs; vm_compute; reflexivity. Qed.

Definition opt_cs_eqb (a b : option charset) : bool := opt_eqb cs_eqb a b.
Lemma code_table_ok :
  forallb (fun p => opt_cs_eqb (from_code (s2l (fst p))) (Some (snd p))) code_table = true.
Proof. vm_compute. reflexivity. Qed.

Lemma cs_eqb_eq a b : cs_eqb a b = true -> a = b.
Proof. destruct a, b; cbn; intros H; try reflexivity; discriminate. Qed.

Lemma from_code_alias t cs : In (t, cs) code_table -> from_code (s2l t) = Some cs.
Proof.
  intros H. pose proof (proj1 (forallb_forall _ _) code_table_ok (t, cs) H) as R. cbn [fst snd] in R.
  unfold opt_cs_eqb in R. destruct (from_code (s2l t)) as [c|]; cbn in R; [|discriminate].
  apply cs_eqb_eq in R. congruence.
Qed.

Lemma trim_end_space t : trim_end (t ++ [32]) = trim_end t.
Proof. unfold trim_end. rewrite rev_app_distr. cbn. reflexivity. Qed.
Lemma from_code_space t : from_code (t ++ [32]) = from_code t.
Proof. unfold from_code. rewrite trim_end_space. reflexivity. Qed.
Lemma from_code_nil : from_code [] = None.
Proof. vm_compute. reflexivity. Qed.

(* ------------------------------------------------------------------ codecs that read back what they wrote *)
Lemma forallb_Forall {A} (f : A -> bool) l : forallb f l = true <-> Forall (fun x => f x = true) l.
Proof.
  induction l as [|a l IH]; cbn; [split; constructor|].
  rewrite andb_true_iff, IH. split; [intros [? ?]; constructor; auto | intros H; inversion H; auto].
Qed.

Lemma sb_good mb cs : kind_of cs = KSingle ->
  good_codec pad_any (fun c => in_repb cs c = true) (codec_of mb cs).
Proof.
  intros Hk. unfold codec_of. rewrite Hk. split; cbn [c_enc c_dec]; [reflexivity|].
  intros t Ht. apply forallb_Forall in Ht.
  destruct (sb_encode_total cs Hk t Ht) as [b Hb]. exists b.
  pose proof (proj1 (sb_encode_ok cs t b) Hb) as HF.
  split; [exact Hb|]. split; [unfold sb_decode; rewrite (sb_decode_enc cs Hk t b HF); reflexivity|].
  split; [apply (sb_no92 cs Hk t b HF)|].
  intros p Hp. unfold sb_decode. rewrite flat_map_app, (sb_decode_enc cs Hk t b HF). cbn [flat_map].
  assert (Hp' : p < 128) by (destruct Hp; subst; lia).
  destruct (ascii_row cs Hk p Hp') as [Hd _]. unfold dec_at in Hd. rewrite Hd, app_nil_r. reflexivity.
Qed.

Lemma utf8_good mb : good_codec pad_any (fun c => is_scalar c = true) (codec_of mb IR192).
Proof.
  unfold codec_of. cbn [kind_of]. split; cbn [c_enc c_dec]; [reflexivity|].
  intros t Ht. apply forallb_Forall in Ht. exists (flat_map utf8_enc_char t).
  split; [unfold utf8_encode; rewrite Ht; reflexivity|].
  split; [destruct (utf8_roundtrip t Ht) as [b [Hb Hd]]; unfold utf8_encode in Hb; rewrite Ht in Hb; injection Hb as <-; exact Hd|].
  split; [apply utf8_no92; exact Ht|].
  intros p Hp. unfold utf8_decode. rewrite utf8_run_enc by exact Ht.
  rewrite utf8_ascii_byte by (destruct Hp; subst; lia). reflexivity.
Qed.

Lemma modelled_good mb mbrep cs : kind_of cs <> KMulti -> good_codec pad_any (rep mbrep cs) (codec_of mb cs).
Proof.
  intros Hk. destruct (kind_of cs) eqn:E; [| |congruence].
  - pose proof (sb_good mb cs E) as G. unfold rep. rewrite E. exact G.
  - assert (cs = IR192) by (destruct cs; cbn in E; congruence). subst cs.
    pose proof (utf8_good mb) as G. unfold rep, in_repb. cbn [kind_of]. exact G.
Qed.

Lemma good_weaken (pads pads' P : N -> Prop) k : (forall p, pads' p -> pads p) -> good_codec pads P k -> good_codec pads' P k.
Proof.
  intros Hp [Hn Hr]. split; [exact Hn|]. intros t Ht. destruct (Hr t Ht) as [b [H1 [H2 [H3 H4]]]].
  exists b. repeat split; auto.
Qed.

(* ------------------------------------------------------------------ data-set level *)
Lemma single_eff cur v : dec_single_vr v = true -> eff cur v = cur.
Proof. destruct v; cbn; intros H; try discriminate; reflexivity. Qed.
Lemma strs_eff cur v : dec_single_vr v = false ->
  (if dec_declared_vr false v then cur else CsDefault) = eff cur v.
Proof. destruct v; cbn; intros H; try discriminate; reflexivity. Qed.
Lemma pad_byte_cases v : pad_byte v = 32 \/ (pad_byte v = 0 /\ enc_default_vr v = true).
Proof. destruct v; cbn; auto. Qed.

Lemma pad_cases v x : pad v x = x \/ (pad v x = x ++ [pad_byte v] /\ x <> []).
Proof.
  unfold pad. destruct (N.odd (N.of_nat (List.length x))) eqn:E; [|left; reflexivity].
  right. split; [reflexivity|]. intros ->. cbn in E. discriminate.
Qed.
Lemma pad_nil_inv v x : pad v x = [] -> x = [].
Proof. destruct (pad_cases v x) as [->| [-> _]]; [auto|]. destruct x; discriminate. Qed.

Lemma join_nil_iff (l : list (list N)) : join 92 l = [] <-> l = [] \/ l = [[]].
Proof.
  destruct l as [|a [|b r]]; cbn.
  - tauto.
  - split; [intros ->; auto | intros [H|H]; [discriminate | congruence]].
  - split; [intros H; destruct a; discriminate | intros [H|H]; discriminate].
Qed.

Lemma shape_nonempty v t : t <> [] -> shape v t = if dec_single_vr v then VStr t else VStrs (split_on 92 t).
Proof. destruct t; [congruence|reflexivity]. Qed.

Section Elem.
  Variable k : codec.
  Variables pads P : N -> Prop.
  Hypothesis G : good_codec pads P k.

  Definition R (t : str) (b : bytes) : Prop :=
    c_enc k t = Ok b /\ c_dec k b = Ok t /\ ~ In 92 b /\ ~ In 92 t
    /\ (forall p, pads p -> c_dec k (b ++ [p]) = Ok (t ++ [p])).

  Lemma dec_nil : c_dec k [] = Ok [].
  Proof.
    destruct (gc_rt _ _ _ G [] (Forall_nil _)) as [b [H1 [H2 _]]].
    rewrite (gc_nil _ _ _ G) in H1. injection H1 as <-. exact H2.
  Qed.
  Lemma R_nil t b : R t b -> (b = [] <-> t = []).
  Proof.
    intros [H1 [H2 _]]. split; intros ->.
    - rewrite dec_nil in H2. congruence.
    - rewrite (gc_nil _ _ _ G) in H1. congruence.
  Qed.

  Lemma R_of t : Forall P t -> ~ In 92 t -> exists b, R t b.
  Proof.
    intros Ht Hn. destruct (gc_rt _ _ _ G t Ht) as [b [H1 [H2 [H3 H4]]]].
    exists b. repeat split; auto.
  Qed.

  Lemma mapM_enc ts : Forall (fun t => Forall P t /\ ~ In 92 t) ts ->
    exists bs, mapM (c_enc k) ts = Ok bs /\ Forall2 R ts bs.
  Proof.
    induction 1 as [|t ts [Ht Hn] _ [bs [IH1 IH2]]]; [exists []; split; [reflexivity|constructor]|].
    destruct (R_of t Ht Hn) as [b Hb]. exists (b :: bs). split.
    - cbn. destruct Hb as [-> _]. cbn. rewrite IH1. reflexivity.
    - constructor; assumption.
  Qed.

  Lemma join_R_nil ts bs : Forall2 R ts bs -> (join 92 bs = [] <-> join 92 ts = []).
  Proof.
    intros HF. rewrite !join_nil_iff. split; intros [H|H]; subst.
    - inversion HF. auto.
    - inversion HF as [|t b ts' bs' Hr Hrest]; subst. inversion Hrest; subst.
      right. f_equal. apply (R_nil t []); [exact Hr|reflexivity].
    - inversion HF. auto.
    - inversion HF as [|t b ts' bs' Hr Hrest]; subst. inversion Hrest; subst.
      right. f_equal. apply (R_nil [] b); [exact Hr|reflexivity].
  Qed.

  Lemma no92_app (a b : list N) : ~ In 92 a -> ~ In 92 b -> no_char 92 (a ++ b).
  Proof. unfold no_char. intros Ha Hb Hin. apply in_app_or in Hin. tauto. Qed.

  (** decoding the split of what was joined: each value separately, the pad on the last *)
  Lemma dec_split_join ts bs pp :
    ts <> [] -> Forall2 R ts bs ->
    (pp = [] \/ exists p, pads p /\ p <> 92 /\ pp = [p]) ->
    mapM (c_dec k) (split_on 92 (join 92 bs ++ pp)) = Ok (split_on 92 (join 92 ts ++ pp)).
  Proof.
    intros Hne HF Hpp. induction HF as [|t b ts bs Hr HF IH]; [congruence|].
    assert (Hpp92 : ~ In 92 pp).
    { destruct Hpp as [->|[p [_ [Hp ->]]]]; cbn; [tauto|]. intros [E|[]]. congruence. }
    destruct Hr as [He [Hd [Hb [Ht Hp]]]].
    destruct HF as [|t' b' ts' bs' Hr' HF'].
    - (* last value *)
      cbn [join]. rewrite (split_on_nosep 92 (b ++ pp)) by (apply no92_app; assumption).
      rewrite (split_on_nosep 92 (t ++ pp)) by (apply no92_app; assumption).
      cbn [mapM]. destruct Hpp as [->|[p [Hpads [_ ->]]]].
      + rewrite !app_nil_r, Hd. reflexivity.
      + rewrite (Hp p Hpads). reflexivity.
    - change (join 92 (b :: b' :: bs')) with (b ++ 92 :: join 92 (b' :: bs')).
      change (join 92 (t :: t' :: ts')) with (t ++ 92 :: join 92 (t' :: ts')).
      rewrite <- !app_assoc. cbn [app].
      rewrite (split_on_app 92 b) by exact Hb. rewrite (split_on_app 92 t) by exact Ht.
      cbn [mapM]. rewrite Hd. cbn [bind].
      rewrite IH by discriminate. reflexivity.
  Qed.
End Elem.

Section Element.
  Variable mb : charset -> codec.

  Lemma conv_eff cur v t : conv mb cur v t = c_enc (codec_of mb (eff cur v)) t.
  Proof. reflexivity. Qed.

  (** one element: what is written reads back as the same text plus at most one pad *)
  Lemma elem_roundtrip pads P cur v x :
    good_codec pads P (codec_of mb (eff cur v)) -> pads (pad_byte v) ->
    value_ok P v x ->
    exists b, write_value mb cur v x = Ok b /\
    exists pp, (pp = [] \/ pp = [pad_byte v]) /\ (flat x = [] -> pp = []) /\
               read_value mb false cur v b = Ok (shape v (flat x ++ pp)).
  Proof.
    intros G Hpad Hok.
    assert (Hpb : pad_byte v <> 92) by (destruct v; cbn; lia).
    set (k := codec_of mb (eff cur v)) in *.
    (* the multi-valued case, also used for a single value of a split VR *)
    assert (STRS : forall ts, dec_single_vr v = false -> Forall (fun t => Forall P t /\ ~ In 92 t) ts ->
      exists b, (bs <- mapM (conv mb cur v) ts ;; Ok (pad v (join 92 bs))) = Ok b /\
      exists pp, (pp = [] \/ pp = [pad_byte v]) /\ (join 92 ts = [] -> pp = []) /\
                 read_value mb false cur v b = Ok (shape v (join 92 ts ++ pp))).
    { intros ts Hs Hts. destruct (mapM_enc k pads P G ts Hts) as [bs [Hm HF]].
      exists (pad v (join 92 bs)). split.
      { replace (mapM (conv mb cur v) ts) with (mapM (c_enc k) ts); [rewrite Hm; reflexivity|].
        clear. induction ts as [|t ts IH]; [reflexivity|]. cbn [mapM]. rewrite IH. reflexivity. }
      pose proof (join_R_nil k pads P G ts bs HF) as Hnil.
      destruct (pad_cases v (join 92 bs)) as [E|[E Hne]].
      - (* no padding *)
        exists []. split; [auto|]. split; [auto|]. rewrite E, app_nil_r.
        destruct (join 92 bs) as [|b0 J] eqn:EJ.
        + rewrite (proj1 Hnil eq_refl). reflexivity.
        + assert (Hts' : join 92 ts <> []) by (intros H; apply Hnil in H; discriminate).
          assert (ts <> []) by (intros ->; apply Hts'; reflexivity).
          unfold read_value. rewrite Hs, (strs_eff cur v Hs). fold k.
          pose proof (dec_split_join k pads ts bs [] H HF (or_introl eq_refl)) as D.
          rewrite !app_nil_r, EJ in D. unfold decode. fold k. rewrite D. cbn [bind].
          rewrite shape_nonempty by exact Hts'. rewrite Hs. reflexivity.
      - exists [pad_byte v]. split; [auto|].
        assert (Hts' : join 92 ts <> []) by (intros H; apply Hnil in H; congruence).
        split; [intros H; congruence|].
        assert (ts <> []) by (intros ->; apply Hts'; reflexivity).
        rewrite E. unfold read_value. rewrite Hs, (strs_eff cur v Hs). fold k.
        pose proof (dec_split_join k pads ts bs [pad_byte v] H HF
                      (or_intror (ex_intro _ (pad_byte v) (conj Hpad (conj Hpb eq_refl))))) as D.
        destruct (join 92 bs ++ [pad_byte v]) as [|b0 J] eqn:EJ; [destruct (join 92 bs); discriminate|].
        unfold decode. fold k. rewrite D. cbn [bind].
        rewrite shape_nonempty by (destruct (join 92 ts); discriminate). rewrite Hs. reflexivity. }
    destruct x as [|t|ts]; cbn [value_ok flat] in *.
    - exists []. split; [reflexivity|]. exists []. repeat split; auto.
    - destruct Hok as [Ht Hn]. destruct (dec_single_vr v) eqn:Hs.
      + (* one string, no splitting *)
        destruct (gc_rt _ _ _ G t Ht) as [b [He [Hd [_ Hp]]]].
        exists (pad v b). split; [cbn [write_value]; rewrite conv_eff; fold k; rewrite He; reflexivity|].
        assert (Hnil : b = [] <-> t = []).
        { split; intros ->.
          - rewrite (dec_nil k pads P G) in Hd. congruence.
          - rewrite (gc_nil _ _ _ G) in He. congruence. }
        assert (Ecur : codec_of mb cur = k) by (unfold k; rewrite (single_eff cur v Hs); reflexivity).
        destruct (pad_cases v b) as [E|[E Hne]].
        * exists []. split; [auto|]. split; [auto|]. rewrite E, app_nil_r.
          destruct b as [|b0 b']; [rewrite (proj1 Hnil eq_refl); reflexivity|].
          assert (t <> []) by (intros H; apply Hnil in H; discriminate).
          unfold read_value. rewrite Hs. unfold decode. rewrite Ecur, Hd. cbn [bind].
          rewrite shape_nonempty by assumption. rewrite Hs. reflexivity.
        * exists [pad_byte v]. split; [auto|].
          assert (t <> []) by (intros H; apply Hnil in H; congruence).
          split; [intros H'; congruence|].
          rewrite E. unfold read_value.
          destruct (b ++ [pad_byte v]) as [|b0 J] eqn:EJ; [destruct b; discriminate|].
          rewrite Hs. unfold decode. rewrite Ecur, <- EJ, (Hp _ Hpad). cbn [bind].
          rewrite shape_nonempty by (destruct t; discriminate). rewrite Hs. reflexivity.
      + (* a single value of a VR whose values are split: same as [VStrs [t]] *)
        destruct (STRS [t] eq_refl) as [b [Hw [pp [H1 [H2 H3]]]]]; [constructor; [auto|constructor]|].
        exists b. split.
        { cbn [write_value]. cbn [mapM join] in Hw. destruct (conv mb cur v t); cbn in *; congruence. }
        exists pp. cbn [join] in *. auto.
    - destruct Hok as [Hs Hts]. destruct (STRS ts Hs Hts) as [b [Hw R']]. exists b. split; [exact Hw|exact R'].
  Qed.

  (** the reader ends up with the set the writer switched to *)
  Lemma switch_sync cur v x pp P :
    v = CS -> value_ok P v x -> (pp = [] \/ pp = [pad_byte v]) -> (flat x = [] -> pp = []) ->
    next_read_cs cur scs_tag v (shape v (flat x ++ pp)) = next_write_cs cur scs_tag x.
  Proof.
    intros -> Hok Hpp Hnil. unfold next_write_cs. rewrite N.eqb_refl.
    assert (ONE : forall t, ~ In 92 t ->
      (t = [] -> pp = []) -> next_read_cs cur scs_tag CS (shape CS (t ++ pp)) = switch cur t).
    { intros t Hn Hn0. destruct t as [|c t].
      - rewrite (Hn0 eq_refl). unfold switch. rewrite from_code_nil. reflexivity.
      - rewrite shape_nonempty by discriminate. cbn [dec_single_vr].
        assert (Hnp : no_char 92 ((c :: t) ++ pp)).
        { unfold no_char. intros Hin. apply in_app_or in Hin as [Hin|Hin]; [tauto|].
          destruct Hpp as [-> | ->]; cbn in Hin; [tauto|]. destruct Hin as [E|[]]. discriminate. }
        rewrite (split_on_nosep 92 _ Hnp). cbn [next_read_cs]. rewrite N.eqb_refl.
        destruct Hpp as [-> | ->]; [rewrite app_nil_r; reflexivity|].
        cbn [pad_byte]. unfold switch. rewrite from_code_space. reflexivity. }
    destruct x as [|t|ts]; cbn [value_ok flat first_term] in *.
    - rewrite (Hnil eq_refl). reflexivity.
    - destruct Hok as [_ Hn]. specialize (Hn eq_refl).
      rewrite (split_on_nosep 92 t Hn). cbn [hd]. apply ONE; assumption.
    - destruct Hok as [_ Hts]. destruct ts as [|t [|t' r]].
      + rewrite (Hnil eq_refl). reflexivity.
      + cbn [join] in *. inversion Hts as [|? ? [_ Hn] _]; subst. apply ONE; assumption.
      + inversion Hts as [|? ? [_ Hn] _]; subst.
        change (join 92 (t :: t' :: r)) with (t ++ 92 :: join 92 (t' :: r)).
        rewrite <- app_assoc. cbn [app].
        rewrite shape_nonempty by (destruct t; discriminate). cbn [dec_single_vr].
        rewrite (split_on_app 92 t) by exact Hn. cbn [next_read_cs]. rewrite N.eqb_refl. reflexivity.
  Qed.

  Lemma next_read_other cur tag v x : tag <> scs_tag -> next_read_cs cur tag v x = cur.
  Proof.
    intros H. apply N.eqb_neq in H. unfold next_read_cs. rewrite H.
    destruct v, x as [| |[|]]; reflexivity.
  Qed.
  Lemma next_write_other cur tag x : tag <> scs_tag -> next_write_cs cur tag x = cur.
  Proof. intros H. apply N.eqb_neq in H. unfold next_write_cs. rewrite H. reflexivity. Qed.
End Element.

Section DataSetTheorem.
  Variable mb : charset -> codec.
  Variable mbrep : charset -> N -> Prop.
  Variable good : charset -> Prop.
  (** the only thing assumed: the multi-byte codecs that are used behave on their repertoire *)
  Hypothesis Hmb : forall cs, kind_of cs = KMulti -> good cs -> good_codec pad_space (mbrep cs) (mb cs).

  Lemma eff_good cur v : usable good cur v ->
    exists pads, good_codec pads (rep mbrep (eff cur v)) (codec_of mb (eff cur v)) /\ pads (pad_byte v).
  Proof.
    intros U. unfold eff. destruct (enc_default_vr v) eqn:Ed.
    - exists pad_any. split; [apply modelled_good; cbn; discriminate|].
      unfold pad_any. destruct (pad_byte_cases v) as [->|[-> _]]; auto.
    - destruct U as [U|U]; [congruence|].
      assert (Hp : pad_byte v = 32) by (destruct (pad_byte_cases v) as [H|[_ H]]; [exact H|congruence]).
      destruct (kind_of cur) eqn:Ek.
      + exists pad_any. split; [apply modelled_good; congruence | rewrite Hp; right; reflexivity].
      + exists pad_any. split; [apply modelled_good; congruence | rewrite Hp; right; reflexivity].
      + destruct U as [U|U]; [congruence|]. exists pad_space. split; [|exact Hp].
        pose proof (Hmb cur Ek U) as Gm. unfold rep, codec_of. rewrite Ek. exact Gm.
  Qed.

  Theorem ds_roundtrip es : forall cur, ds_ok mbrep good cur es -> ds_rt mb cur es.
  Proof.
    induction es as [|[[tag v] x] r IH]; intros cur Hok.
    - exists []. split; [reflexivity|]. exists []. split; [reflexivity|constructor].
    - cbn [ds_ok] in Hok. destruct Hok as [U [Hv [Hscs Hr]]].
      destruct (eff_good cur v U) as [pads [G Hpad]].
      destruct (elem_roundtrip mb pads _ cur v x G Hpad Hv) as [b [Hw [pp [Hpp [Hnil Hrd]]]]].
      destruct (IH _ Hr) as [wire [Hws [xs [Hrs HF]]]].
      exists (b :: wire). split; [cbn [write_ds]; rewrite Hw; cbn [bind]; rewrite Hws; reflexivity|].
      exists (shape v (flat x ++ pp) :: xs). split.
      + cbn [wire_elems combine map read_ds]. rewrite Hrd. cbn [bind].
        replace (next_read_cs cur tag v (shape v (flat x ++ pp))) with (next_write_cs cur tag x).
        * fold (wire_elems r wire). rewrite Hrs. reflexivity.
        * destruct (N.eq_dec tag scs_tag) as [->|Hne].
          -- symmetry. apply (switch_sync mb cur v x pp _ (Hscs eq_refl) Hv Hpp Hnil).
          -- rewrite next_read_other, next_write_other by exact Hne. reflexivity.
      + constructor; [|exact HF]. exists pp. auto.
  Qed.
End DataSetTheorem.

(* ------------------------------------------------------------------ strictness *)
Lemma encode_strict mb cs s1 c s2 :
  kind_of cs <> KMulti -> in_repb cs c = false -> encode mb cs (s1 ++ c :: s2) = Err err_encode.
Proof.
  intros Hk Hc. unfold encode, codec_of. destruct (kind_of cs) eqn:E; [| |congruence]; cbn [c_enc].
  - apply sb_encode_strict; assumption.
  - unfold in_repb in Hc. rewrite E in Hc. apply utf8_strict. exact Hc.
Qed.

Lemma encode_ok_or_err mb cs s :
  kind_of cs <> KMulti -> (exists b, encode mb cs s = Ok b) \/ encode mb cs s = Err err_encode.
Proof.
  intros Hk. unfold encode, codec_of. destruct (kind_of cs) eqn:E; [| |congruence]; cbn [c_enc].
  - apply sb_encode_ok_or_err.
  - unfold utf8_encode. destruct (forallb is_scalar s); eauto.
Qed.

Lemma mapM_strict {A B} (f : A -> outcome B) e l :
  (forall a, (exists b, f a = Ok b) \/ f a = Err e) -> (exists a, In a l /\ f a = Err e) -> mapM f l = Err e.
Proof.
  intros Hf [a [Hin Ha]]. induction l as [|x l IH]; [destruct Hin|]. cbn [mapM].
  destruct Hin as [->|Hin].
  - rewrite Ha. reflexivity.
  - destruct (Hf x) as [[b ->]| ->]; [|reflexivity]. cbn [bind]. rewrite (IH Hin). reflexivity.
Qed.

(** an element with a character outside the repertoire in force is refused *)
Lemma write_value_strict mb cur v x :
  kind_of (eff cur v) <> KMulti ->
  (exists t c, In t (texts x) /\ In c t /\ in_repb (eff cur v) c = false) ->
  write_value mb cur v x = Err err_encode.
Proof.
  intros Hk [t [c [Ht [Hc Hrep]]]].
  assert (Hbad : conv mb cur v t = Err err_encode).
  { destruct (in_split c t Hc) as [s1 [s2 ->]]. unfold conv. fold (eff cur v). apply encode_strict; assumption. }
  destruct x as [|t'|ts]; cbn [texts] in Ht.
  - destruct Ht.
  - destruct Ht as [->|[]]. cbn [write_value]. rewrite Hbad. reflexivity.
  - cbn [write_value]. rewrite (mapM_strict (conv mb cur v) err_encode ts); [reflexivity| |eauto].
    intros a. unfold conv. fold (eff cur v). apply encode_ok_or_err. exact Hk.
Qed.

Lemma write_ds_strict mb pre : forall cur tag v x r,
  kind_of (eff (cs_after cur pre) v) <> KMulti ->
  (exists t c, In t (texts x) /\ In c t /\ in_repb (eff (cs_after cur pre) v) c = false) ->
  forall wire, write_ds mb cur (pre ++ (tag, v, x) :: r) <> Ok wire.
Proof.
  induction pre as [|[[tag0 v0] x0] pre IH]; intros cur tag v x r Hk Hbad wire; cbn [app write_ds cs_after] in *.
  - rewrite (write_value_strict mb cur v x Hk Hbad). discriminate.
  - destruct (write_value mb cur v0 x0); cbn [bind]; try discriminate.
    destruct (write_ds mb (next_write_cs cur tag0 x0) (pre ++ (tag, v, x) :: r)) as [w| |] eqn:E; cbn [bind]; try discriminate.
    exfalso. exact (IH _ tag v x r Hk Hbad w E).
Qed.

(* ------------------------------------------------------------------ default-repertoire VRs *)
Lemma mapM_ext {A B} (f g : A -> outcome B) l : (forall a, f a = g a) -> mapM f l = mapM g l.
Proof. intros H. induction l as [|a l IH]; [reflexivity|]. cbn [mapM]. rewrite H, IH. reflexivity. Qed.
Lemma default_vr_write mb cur cur' v x : enc_default_vr v = true -> write_value mb cur v x = write_value mb cur' v x.
Proof.
  intros H. assert (E : forall t, conv mb cur v t = conv mb cur' v t) by (intros t; unfold conv; rewrite H; reflexivity).
  destruct x as [|t|ts]; cbn [write_value]; [reflexivity | rewrite E; reflexivity |].
  rewrite (mapM_ext _ _ ts E). reflexivity.
Qed.
Lemma default_vr_read mb cur cur' v b : enc_default_vr v = true -> read_value mb false cur v b = read_value mb false cur' v b.
Proof. intros H. destruct v; try discriminate; reflexivity. Qed.

(* ------------------------------------------------------------------ known findings, from the model of the data-set layer *)
(** Any multi-byte codec that produces a 0x5C byte inside a character breaks the reader,
    which splits the value bytes on 0x5C BEFORE decoding (read_value_strs).
    Premise observed on the implementation: ISO_IR 13 (windows-31j) encodes U+30BD as 83 5C. *)
Lemma mb_backslash_refuted mb :
  c_enc (mb IR13) [12477] = Ok [131; 92] ->
  ~ ds_rt mb CsDefault [(scs_tag, CS, VStrs [name IR13]); (pn_tag, PN, VStrs [[12477]])].
Proof.
  intros He [wire [Hw [xs [Hr HF]]]].
  remember (name IR13 ++ [32]) as W1 eqn:EW.
  assert (E1 : write_value mb CsDefault CS (VStrs [name IR13]) = Ok W1) by (subst W1; vm_compute; reflexivity).
  assert (E2 : next_write_cs CsDefault scs_tag (VStrs [name IR13]) = IR13) by (vm_compute; reflexivity).
  assert (E3 : write_value mb IR13 PN (VStrs [[12477]]) = Ok [131; 92]).
  { cbn [write_value mapM]. unfold conv, encode, codec_of. cbn [enc_default_vr kind_of]. rewrite He. reflexivity. }
  cbn [write_ds] in Hw. rewrite E1 in Hw. cbn [bind] in Hw. rewrite E2, E3 in Hw. cbn [bind] in Hw.
  injection Hw as <-.
  unfold wire_elems in Hr. cbn [combine map read_ds] in Hr.
  assert (R1 : read_value mb false CsDefault CS W1 = Ok (VStrs [W1])) by (subst W1; vm_compute; reflexivity).
  rewrite R1 in Hr. cbn [bind] in Hr.
  assert (R2 : next_read_cs CsDefault scs_tag CS (VStrs [W1]) = IR13) by (subst W1; vm_compute; reflexivity).
  rewrite R2 in Hr.
  assert (R3 : read_value mb false IR13 PN [131; 92]
               = (vs <- mapM (c_dec (mb IR13)) [[131]; []] ;; Ok (VStrs vs))) by reflexivity.
  rewrite R3 in Hr. cbn [mapM] in Hr.
  destruct (c_dec (mb IR13) [131]) as [r1| |]; cbn [bind] in Hr; try discriminate.
  destruct (c_dec (mb IR13) []) as [r2| |]; cbn [bind] in Hr; try discriminate.
  injection Hr as <-.
  inversion HF as [|? ? ? ? _ HF2]; subst. inversion HF2 as [|? ? ? ? Hrb _]; subst.
  destruct Hrb as [pp [[-> | ->] Hx]]; vm_compute in Hx; discriminate.
Qed.

(** ISO 2022 IR 87: the encoder leaves the value in the two-byte (JIS X 0208) state, the
    padding space is appended in that state and the decoder traps it.
    Premises observed on the implementation. *)
Lemma iso2022_pad_refuted mb :
  c_enc (mb IR87) [23665] = Ok [27; 36; 66; 59; 51] ->
  c_dec (mb IR87) [27; 36; 66; 59; 51; 32] = Ok [23665; 92; 48; 52; 48] ->
  ~ ds_rt mb CsDefault [(scs_tag, CS, VStrs [name IR87]); (pn_tag, PN, VStrs [[23665]])].
Proof.
  intros He Hd [wire [Hw [xs [Hr HF]]]].
  remember (name IR87 ++ [32]) as W1 eqn:EW.
  assert (E1 : write_value mb CsDefault CS (VStrs [name IR87]) = Ok W1) by (subst W1; vm_compute; reflexivity).
  assert (E2 : next_write_cs CsDefault scs_tag (VStrs [name IR87]) = IR87) by (vm_compute; reflexivity).
  assert (E3 : write_value mb IR87 PN (VStrs [[23665]]) = Ok [27; 36; 66; 59; 51; 32]).
  { cbn [write_value mapM]. unfold conv, encode, codec_of. cbn [enc_default_vr kind_of]. rewrite He. reflexivity. }
  cbn [write_ds] in Hw. rewrite E1 in Hw. cbn [bind] in Hw. rewrite E2, E3 in Hw. cbn [bind] in Hw.
  injection Hw as <-.
  unfold wire_elems in Hr. cbn [combine map read_ds] in Hr.
  assert (R1 : read_value mb false CsDefault CS W1 = Ok (VStrs [W1])) by (subst W1; vm_compute; reflexivity).
  rewrite R1 in Hr. cbn [bind] in Hr.
  assert (R2 : next_read_cs CsDefault scs_tag CS (VStrs [W1]) = IR87) by (subst W1; vm_compute; reflexivity).
  rewrite R2 in Hr.
  assert (R3 : read_value mb false IR87 PN [27; 36; 66; 59; 51; 32]
               = (vs <- mapM (c_dec (mb IR87)) [[27; 36; 66; 59; 51; 32]] ;; Ok (VStrs vs))) by reflexivity.
  rewrite R3 in Hr. cbn [mapM] in Hr. rewrite Hd in Hr. cbn [bind] in Hr.
  injection Hr as <-.
  inversion HF as [|? ? ? ? _ HF2]; subst. inversion HF2 as [|? ? ? ? Hrb _]; subst.
  destruct Hrb as [pp [[-> | ->] Hx]]; vm_compute in Hx; discriminate.
Qed.

(* ------------------------------------------------------------------ statements as used by Properties/C10.v *)
Lemma undecodable_bytes : forall cs b, kind_of cs = KSingle -> b < 256 ->
  (exists c, sb_decode_byte (sb_dec cs) b = [c] /\ in_repb cs c = true) \/ sb_decode_byte (sb_dec cs) b = trap b.
Proof.
  intros cs b Hk Hb. destruct (dec_row cs Hk b Hb) as [[c [b' [H1 [H2 _]]]]|H]; [left|right; exact H].
  exists c. split; [exact H1|]. unfold in_repb. rewrite Hk, H2. reflexivity.
Qed.

Lemma roundtrip_modelled : forall mb cs s,
  kind_of cs <> KMulti -> forallb (in_repb cs) s = true ->
  (b <- encode mb cs s ;; decode mb cs b) = Ok s.
Proof.
  intros mb cs s Hk Hs.
  destruct (gc_rt _ _ _ (modelled_good mb (fun _ _ => False) cs Hk) s) as [b [He [Hd _]]].
  - apply forallb_Forall in Hs. unfold rep. destruct (kind_of cs); [exact Hs|exact Hs|congruence].
  - unfold encode, decode. rewrite He. exact Hd.
Qed.

Lemma dataset_modelled : forall mb cur es,
  ds_ok (fun _ _ => False) (fun _ => False) cur es -> ds_rt mb cur es.
Proof.
  intros mb cur es H. apply (ds_roundtrip mb (fun _ _ => False) (fun _ => False)); [|exact H].
  intros cs _ [].
Qed.

Lemma default_vrs_unaffected : forall mb cur cur' v,
  enc_default_vr v = true ->
  (forall x, write_value mb cur v x = write_value mb cur' v x)
  /\ (forall b, read_value mb false cur v b = read_value mb false cur' v b).
Proof.
  intros mb cur cur' v H. split; intros; [apply default_vr_write | apply default_vr_read]; exact H.
Qed.

Lemma multibyte_partial : forall mb mbrep,
  (forall cs, kind_of cs = KMulti -> good_codec pad_space (mbrep cs) (mb cs)) ->
  multibyte_stmt mb mbrep.
Proof.
  intros mb mbrep H. split.
  - intros cs s Hs.
    assert (G : good_codec pad_space (rep mbrep cs) (codec_of mb cs)).
    { destruct (kind_of cs) eqn:Ek.
      - apply (good_weaken pad_any); [intros p ->; right; reflexivity | apply modelled_good; congruence].
      - apply (good_weaken pad_any); [intros p ->; right; reflexivity | apply modelled_good; congruence].
      - unfold rep, codec_of. rewrite Ek. apply H. exact Ek. }
    destruct (gc_rt _ _ _ G s Hs) as [b [He [Hd _]]]. unfold encode, decode. rewrite He. exact Hd.
  - intros cur es Hok. apply (ds_roundtrip mb mbrep (fun _ => True)); [|exact Hok].
    intros cs Hk _. apply H. exact Hk.
Qed.

(** the premises of the two refutations are exactly the recorded facts *)
Lemma facts_are_premises :
  mb_enc_facts = [(cs_index IR13, [12477], Ok [131; 92]); (cs_index IR87, [23665], Ok [27; 36; 66; 59; 51])]
  /\ mb_dec_facts = [(cs_index IR87, [27; 36; 66; 59; 51; 32], Ok [23665; 92; 48; 52; 48])].
Proof. split; reflexivity. Qed.

(** "text written after a Specific Character Set element is encoded with that set" *)
Lemma next_write_scs cur cs rest : next_write_cs cur scs_tag (VStrs (name cs :: rest)) = cs.
Proof. unfold next_write_cs. rewrite N.eqb_refl. cbn [first_term]. unfold switch. rewrite from_code_name. reflexivity. Qed.

Lemma written_with_set mb pre : forall cur tag v t r wire,
  write_ds mb cur (pre ++ (tag, v, VStr t) :: r) = Ok wire ->
  exists b, encode mb (eff (cs_after cur pre) v) t = Ok b /\ nth (List.length pre) wire [] = pad v b.
Proof.
  induction pre as [|[[tag0 v0] x0] pre IH]; intros cur tag v t r wire H; cbn [app write_ds cs_after List.length] in *.
  - cbn [write_value] in H. unfold conv in H. fold (eff cur v) in H.
    destruct (encode mb (eff cur v) t) as [b| |]; cbn [bind] in H; try discriminate.
    destruct (write_ds mb (next_write_cs cur tag (VStr t)) r); cbn [bind] in H; try discriminate.
    injection H as <-. exists b. split; reflexivity.
  - destruct (write_value mb cur v0 x0); cbn [bind] in H; try discriminate.
    destruct (write_ds mb (next_write_cs cur tag0 x0) (pre ++ (tag, v, VStr t) :: r)) as [w| |] eqn:E; cbn [bind] in H; try discriminate.
    injection H as <-. cbn [nth]. exact (IH _ _ _ _ _ _ E).
Qed.
