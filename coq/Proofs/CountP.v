(** [StatefulEncoder::bytes_written] equals the number of bytes written, after
    every token (C04): the counter is computed from the counts the encoding
    layer reports. *)
From Coq Require Import ZifyBool ZifyNat ZifyN.
From DicomV Require Import Base.Endian Model.Vr Model.Header Model.Prim Model.Dataset Model.Writer Spec.Ps35
  Proofs.HeaderP Proofs.PrimP Proofs.WriterP.
Open Scope N_scope.

Lemma count_header_ok c t v len h : st_enc_header c t v len = Ok h -> count_header c t v len = Ok (blen h).
Proof.
  unfold st_enc_header, count_header.
  destruct (enc_header c t v (if len =? 4294967295 then len else even_len len)) as [[b n]|x|x] eqn:E; try discriminate.
  intros H. inversion H; subst h. apply enc_header_ok_inv in E. destruct E as (_ & -> & _). reflexivity.
Qed.

Lemma blen_pad_even pad b : blen (pad_even pad b) = if Nat.odd (length b) then blen b + 1 else blen b.
Proof. unfold pad_even. destruct (Nat.odd (length b)); [rewrite blen_app; reflexivity | reflexivity]. Qed.

Lemma count_text_value_ok c t v raw b : enc_text_value c t v raw = Ok b -> count_text_value c t v raw = Ok (blen b).
Proof.
  unfold enc_text_value, count_text_value.
  destruct (st_enc_header c t v (blen (pad_even (text_pad v) raw) mod 4294967296)) as [h|x|x] eqn:E; try discriminate.
  intros H. inversion H; subst b. rewrite (count_header_ok _ _ _ _ _ E), blen_app. reflexivity.
Qed.

Lemma count_binary_ok c t v p b : enc_binary c t v p = Ok b -> count_binary c t v p = Ok (blen b).
Proof.
  unfold enc_binary, count_binary. destruct (enc_prim c p) as [val count] eqn:EP. cbn [snd].
  pose proof (enc_prim_count c p) as K. rewrite EP in K. cbn [fst snd] in K.
  destruct (st_enc_header c t v (calc_byte_len p mod 4294967296)) as [h|x|x] eqn:E; try discriminate.
  intros H. inversion H; subst b. rewrite (count_header_ok _ _ _ _ _ E), !blen_app, K.
  destruct (N.odd (blen val)); cbn; f_equal; lia.
Qed.

(** one primitive element *)
Lemma count_prim_element_ok c t v p b :
  enc_prim_element c t v p = Ok b -> count_prim_element c t v p = Ok (blen b).
Proof.
  intros E. destruct p.
  - destruct v; cbn [enc_prim_element count_prim_element] in *;
      first [ apply count_binary_ok; exact E | apply count_header_ok; exact E ].
  - cbn [enc_prim_element count_prim_element] in *. destruct (latin1_enc s); try discriminate. apply count_text_value_ok; exact E.
  - cbn [enc_prim_element count_prim_element] in *. destruct (latin1_enc_all l); try discriminate. apply count_text_value_ok; exact E.
  - destruct v; cbn [enc_prim_element count_prim_element] in *; apply count_binary_ok; exact E.
  - destruct v; cbn [enc_prim_element count_prim_element int_text] in *;
      first [ apply count_binary_ok; exact E
            | destruct (st_enc_header c t _ _) as [h|x|x] eqn:EH; try discriminate; inversion E; subst b;
              rewrite (count_header_ok _ _ _ _ _ EH), blen_app, blen_pad_even; reflexivity ].
  - destruct v; cbn [enc_prim_element count_prim_element int_text] in *;
      first [ apply count_binary_ok; exact E
            | destruct (st_enc_header c t _ _) as [h|x|x] eqn:EH; try discriminate; inversion E; subst b;
              rewrite (count_header_ok _ _ _ _ _ EH), blen_app, blen_pad_even; reflexivity ].
  - destruct v; cbn [enc_prim_element count_prim_element int_text] in *;
      first [ apply count_binary_ok; exact E
            | destruct (st_enc_header c t _ _) as [h|x|x] eqn:EH; try discriminate; inversion E; subst b;
              rewrite (count_header_ok _ _ _ _ _ EH), blen_app, blen_pad_even; reflexivity ].
  - destruct v; cbn [enc_prim_element count_prim_element int_text] in *;
      first [ apply count_binary_ok; exact E
            | destruct (st_enc_header c t _ _) as [h|x|x] eqn:EH; try discriminate; inversion E; subst b;
              rewrite (count_header_ok _ _ _ _ _ EH), blen_app, blen_pad_even; reflexivity ].
  - destruct v; cbn [enc_prim_element count_prim_element int_text] in *;
      first [ apply count_binary_ok; exact E
            | destruct (st_enc_header c t _ _) as [h|x|x] eqn:EH; try discriminate; inversion E; subst b;
              rewrite (count_header_ok _ _ _ _ _ EH), blen_app, blen_pad_even; reflexivity ].
  - destruct v; cbn [enc_prim_element count_prim_element int_text] in *;
      first [ apply count_binary_ok; exact E
            | destruct (st_enc_header c t _ _) as [h|x|x] eqn:EH; try discriminate; inversion E; subst b;
              rewrite (count_header_ok _ _ _ _ _ EH), blen_app, blen_pad_even; reflexivity ].
  - destruct v; cbn [enc_prim_element count_prim_element int_text] in *;
      first [ apply count_binary_ok; exact E
            | destruct (st_enc_header c t _ _) as [h|x|x] eqn:EH; try discriminate; inversion E; subst b;
              rewrite (count_header_ok _ _ _ _ _ EH), blen_app, blen_pad_even; reflexivity ].
  - destruct v; cbn [enc_prim_element count_prim_element] in *; first [ apply count_binary_ok; exact E | discriminate ].
  - destruct v; cbn [enc_prim_element count_prim_element] in *; first [ apply count_binary_ok; exact E | discriminate ].
  - destruct v; cbn [enc_prim_element count_prim_element] in *; apply count_binary_ok; exact E.
  - destruct v; cbn [enc_prim_element count_prim_element] in *; apply count_binary_ok; exact E.
  - destruct v; cbn [enc_prim_element count_prim_element] in *; apply count_binary_ok; exact E.
Qed.

Lemma item_header_blen c len : blen (st_enc_item_header c len) = 8.
Proof. unfold st_enc_item_header, enc_item_header, blen. rewrite !app_length, !u16_length, u32_length. reflexivity. Qed.
Lemma item_delim_blen c : blen (enc_item_delim c) = 8.
Proof. unfold enc_item_delim, blen. rewrite !app_length, !u16_length. reflexivity. Qed.
Lemma seq_delim_blen c : blen (enc_seq_delim c) = 8.
Proof. unfold enc_seq_delim, blen. rewrite !app_length, !u16_length. reflexivity. Qed.

(** one token: the increment added to the counter is the number of bytes appended *)
Lemma count_token_ok c nc st tk st' :
  write_token c nc st tk = Ok st' ->
  exists k, count_token c nc st tk = Ok k /\ blen (w_out st') = blen (w_out st) + k.
Proof.
  intros W. destruct tk; cbn [write_token count_token] in *.
  - (* TElemHeader *) inversion W; subst st'. exists 0. split; [reflexivity|]. cbn [emit w_out]. rewrite blen_app. cbn. lia.
  - (* TSeqStart *)
    destruct (st_enc_header c t SQ (if nc then len else undef)) as [h|x|x] eqn:E; try discriminate.
    inversion W; subst st'. exists (blen h). split; [apply count_header_ok; exact E|]. cbn [emit w_out]. apply blen_app.
  - (* TPixStart *)
    destruct (st_enc_header c pixel_tag OB undef) as [h|x|x] eqn:E; try discriminate.
    inversion W; subst st'. exists (blen h). split; [apply count_header_ok; exact E|]. cbn [emit w_out]. apply blen_app.
  - (* TSeqEnd *)
    destruct (w_stack st) as [|[is_item len] rest].
    + inversion W; subst st'. exists 0. split; [reflexivity|]. cbn [emit w_out]. rewrite blen_app. cbn. lia.
    + inversion W; subst st'. eexists. split; [reflexivity|]. cbn [emit w_out]. rewrite blen_app.
      destruct (negb is_item && (len =? undef)); [rewrite seq_delim_blen | cbn]; lia.
  - (* TItemStart *)
    inversion W; subst st'. exists 8. split; [reflexivity|]. cbn [emit w_out]. rewrite blen_app, item_header_blen. reflexivity.
  - (* TItemEnd *)
    destruct (w_stack st) as [|[is_item len] rest].
    + inversion W; subst st'. exists 0. split; [reflexivity|]. lia.
    + inversion W; subst st'. eexists. split; [reflexivity|]. cbn [emit w_out]. rewrite blen_app.
      destruct (is_item && (len =? undef)); [rewrite item_delim_blen | cbn]; lia.
  - (* TPrim *)
    destruct (w_last st) as [[[t v] l]|]; try discriminate.
    destruct (enc_prim_element c t v p) as [b|x|x] eqn:E; try discriminate.
    inversion W; subst st'. exists (blen b). split; [apply count_prim_element_ok; exact E|]. cbn [emit w_out]. apply blen_app.
  - (* TItemValue *)
    inversion W; subst st'. eexists. split; [reflexivity|]. cbn [emit w_out]. rewrite blen_app. unfold st_write_bytes.
    rewrite blen_pad_even. destruct (Nat.odd (length b)); lia.
  - (* TOffsetTable *)
    inversion W; subst st'. eexists. split; [reflexivity|]. cbn [emit w_out]. rewrite blen_app. unfold st_enc_offset_table.
    rewrite enc_words_len. reflexivity.
Qed.

(** The invariant: starting with a counter equal to the bytes written so far,
    after every token (hence at the end of any token list) the counter equals
    the number of bytes written. *)
Lemma bytes_written_invariant c nc tks : forall st st',
  write_tokens c nc st tks = Ok st' ->
  write_tokens_counted c nc st (blen (w_out st)) tks = Ok (st', blen (w_out st')).
Proof.
  induction tks as [|tk tks IH]; intros st st' W.
  - cbn in *. inversion W; subst. reflexivity.
  - cbn [write_tokens write_tokens_counted] in *.
    destruct (write_token c nc st tk) as [st1|x|x] eqn:E; try discriminate.
    destruct (count_token_ok c nc st tk st1 E) as (k & Ck & Bk). rewrite Ck, <- Bk. apply IH. exact W.
Qed.
