(** Lemmas about Model/Transcode.v (C19). *)
From Coq Require Import ZifyBool ZifyNat ZifyN Lia NArith Ring.
From DicomV Require Import Base.Prelude Model.Transcode.

Ltac Zify.zify_post_hook ::= Z.div_mod_to_equations.

(** ** lists *)
Lemma blen_app a b : blen (a ++ b) = blen a + blen b.
Proof. unfold blen. rewrite app_length. lia. Qed.

Lemma blen_firstn n b : blen (firstn n b) = N.min (N.of_nat n) (blen b).
Proof. unfold blen. rewrite firstn_length. lia. Qed.

Lemma firstn_blen b : firstn (N.to_nat (blen b)) b = b.
Proof. unfold blen. rewrite Nat2N.id. apply firstn_all. Qed.

Lemma pad_even_even b : N.odd (blen (pad_even b)) = false.
Proof.
  unfold pad_even. destruct (N.odd (blen b)) eqn:E; [|exact E].
  rewrite blen_app. change (blen [0]) with 1. rewrite N.add_1_r, N.odd_succ.
  rewrite <- N.negb_odd, E. reflexivity.
Qed.

Lemma pad_even_idem b : N.odd (blen b) = false -> pad_even b = b.
Proof. unfold pad_even. intros ->. reflexivity. Qed.

Lemma pad_even_pad_even b : pad_even (pad_even b) = pad_even b.
Proof. apply pad_even_idem, pad_even_even. Qed.

(** a list cut into [n] consecutive frames of [fs] bytes *)
Fixpoint frames_of (fs : N) (b : bytes) (n : nat) : list bytes :=
  match n with
  | O => []
  | S k => firstn (N.to_nat fs) b :: frames_of fs (skipn (N.to_nat fs) b) k
  end.

Lemma frames_of_concat fs : forall n b, blen b = fs * N.of_nat n -> concat (frames_of fs b n) = b.
Proof.
  induction n as [|n IH]; intros b H; cbn [frames_of concat].
  - destruct b; [reflexivity | unfold blen in H; cbn in H; lia].
  - rewrite IH.
    + apply firstn_skipn.
    + unfold blen in *. rewrite skipn_length. lia.
Qed.

Lemma frames_of_len fs : forall n b, blen b = fs * N.of_nat n ->
  Forall (fun f => blen f = fs) (frames_of fs b n).
Proof.
  induction n as [|n IH]; intros b H; cbn [frames_of]; constructor.
  - rewrite blen_firstn. lia.
  - apply IH. unfold blen in *. rewrite skipn_length. lia.
Qed.

Lemma frames_of_length fs n b : length (frames_of fs b n) = n.
Proof. revert b; induction n; intros; cbn; [reflexivity | now rewrite IHn]. Qed.

(** ** slices *)
Lemma slice_frame fs b k n : blen b = fs * N.of_nat n -> (k < n)%nat ->
  slice b (fs * N.of_nat k) (fs * (N.of_nat k + 1)) =
  Some (firstn (N.to_nat fs) (skipn (N.to_nat (fs * N.of_nat k)) b)).
Proof.
  intros H Hk. unfold slice.
  replace ((fs * N.of_nat k <=? fs * (N.of_nat k + 1)) && (fs * (N.of_nat k + 1) <=? blen b)) with true.
  - f_equal. f_equal. lia.
  - symmetry. apply andb_true_iff. split; apply N.leb_le; [lia|]. rewrite H. apply N.mul_le_mono_l. lia.
Qed.

Lemma skipn_skipn {A} (a b : nat) (l : list A) : skipn a (skipn b l) = skipn (b + a) l.
Proof. revert l; induction b; intros l; [reflexivity|]. destruct l; [now rewrite !skipn_nil | apply IHb]. Qed.

Section Codec.
  Variable deflate : bytes -> bytes.
  Variable inflate : bytes -> option bytes.
  Notation encode_frames := (encode_frames deflate).
  Notation decode_pixel_data := (decode_pixel_data inflate).
  Notation decode_inline := (decode_inline inflate).
  Notation transcode := (transcode deflate inflate).

  (** *** the frame loop produces one (padded, possibly deflated) fragment per frame *)
  Definition enc1 (t : N) (d : bytes) : bytes := pad_even (if t =? TS_EU then d else deflate d).

  Lemma encode_frames_spec t o : forall n k raw,
    blen raw = frame_size o * N.of_nat (k + n) ->
    encode_frames t o raw (N.of_nat k) n =
    Ok (map (enc1 t) (frames_of (frame_size o) (skipn (N.to_nat (frame_size o * N.of_nat k)) raw) n)).
  Proof.
    induction n as [|n IH]; intros k raw H; cbn [Transcode.encode_frames frames_of map]; [reflexivity|].
    unfold encode_frame.
    rewrite (slice_frame (frame_size o) raw k (k + S n)) by (try exact H; lia).
    cbn [bind]. replace (N.of_nat k + 1) with (N.of_nat (S k)) by lia.
    rewrite IH by (rewrite H; f_equal; lia). cbn [bind]. unfold enc1. do 3 f_equal.
    rewrite skipn_skipn. f_equal. rewrite Nat2N.inj_succ, N.mul_succ_r, N2Nat.inj_add. reflexivity.
  Qed.

  (** *** decoding what was encoded *)
  Lemma strip_padding_pad fs d : blen d = fs -> strip_padding fs (pad_even d) = d.
  Proof.
    intros H. unfold strip_padding, pad_even. rewrite H.
    destruct (N.odd fs) eqn:E; cbn [andb].
    - rewrite blen_app, H. change (blen [0]) with 1. rewrite N.eqb_refl.
      rewrite <- H. unfold blen. rewrite Nat2N.id, firstn_app, Nat.sub_diag, firstn_all. cbn. apply app_nil_r.
    - reflexivity.
  Qed.

  (* and a fragment that went through a stream (padded again: no change) *)
  Lemma eu_decode_frames o fs : Forall (fun f => blen f = frame_size o) fs ->
    eu_decode o (map pad_even fs) = concat fs.
  Proof.
    unfold eu_decode. induction 1 as [|f fs Hf _ IH]; [reflexivity|].
    cbn [map concat]. rewrite strip_padding_pad by exact Hf. f_equal. exact IH.
  Qed.

  (** *** well-formed native images: 8 or 16 bits allocated, [n >= 1] frames,
      Number of Frames present (or absent for a single frame), and exactly
      rows * cols * samples * bytes * frames bytes of pixel data *)
  Definition wf_image (o : obj) (px : bytes) (n : nat) : Prop :=
    pixv o = PNative px /\ is_encaps (ts o) = false /\ (ba o = 8 \/ ba o = 16) /\
    ((0 < n)%nat /\ (Z.of_nat n < 2147483648)%Z) /\ (nframes o = Some (Z.of_nat n) \/ (n = 1%nat /\ nframes o = None)) /\
    blen px = frame_size o * N.of_nat n.

  Definition same_image (a b : obj) : Prop :=
    rows a = rows b /\ cols a = cols b /\ spp a = spp b /\ ba a = ba b.

  Lemma wf_decode_frames o px n : wf_image o px n ->
    match nframes o with None => Ok 1 | Some z => if (0 <? z)%Z then Ok (Z.to_N z) else Err 2 end
    = Ok (N.of_nat n).
  Proof.
    intros (_ & _ & _ & Hn & [E | [-> E]] & _); rewrite E; [|reflexivity].
    replace (0 <? Z.of_nat n)%Z with true by lia. f_equal. lia.
  Qed.

  Lemma wf_writer_frames o px n : wf_image o px n -> writer_frames o = N.of_nat n.
  Proof.
    intros (_ & _ & _ & Hn & [E | [-> E]] & _); unfold writer_frames; rewrite E; [|reflexivity].
    replace ((0 <=? Z.of_nat n)%Z && (Z.of_nat n <? 4294967296)%Z) with true by lia. lia.
  Qed.

  Lemma wf_even16 o px n : wf_image o px n -> ba o = 16 -> N.odd (blen px) = false.
  Proof.
    intros (_ & _ & _ & _ & _ & H) Hb. rewrite H. unfold frame_size. rewrite Hb.
    change (16 / 8) with 2.
    replace (cols o * rows o * spp o * 2 * N.of_nat n) with (2 * (cols o * rows o * spp o * N.of_nat n)) by lia.
    rewrite N.odd_mul. reflexivity.
  Qed.

  (* a native object decodes to its own pixel data, in any native transfer syntax *)
  Lemma wf_decode_native o px n : wf_image o px n -> decode_pixel_data o = Ok px.
  Proof.
    intros W. pose proof (wf_decode_frames o px n W) as Hnf.
    destruct W as (Hp & Hts & Hba & Hn & _ & Hlen).
    unfold Transcode.decode_pixel_data. rewrite Hnf. cbn [bind]. rewrite Hp.
    unfold is_encaps in Hts. apply orb_false_iff in Hts. destruct Hts as [-> ->].
    replace (rows o * cols o * spp o * ((ba o + 7) / 8) * N.of_nat n) with (blen px).
    - rewrite N.min_id, firstn_blen. reflexivity.
    - rewrite Hlen. unfold frame_size. destruct Hba as [-> | ->].
      + change ((8 + 7) / 8) with 1. change (8 / 8) with 1. ring.
      + change ((16 + 7) / 8) with 2. change (16 / 8) with 2. ring.
  Qed.

  Lemma wf_decode_inline o px n t : wf_image o px n ->
    decode_inline o t = Ok (set_ts o t).
  Proof.
    intros W. unfold Transcode.decode_inline. rewrite (wf_decode_native o px n W). cbn [bind].
    destruct W as (Hp & Hts & Hba & Hrest).
    assert (E : set_pix o (PNative px) = o) by (destruct o; cbn in *; subst; reflexivity).
    rewrite E. destruct Hba as [Hb | Hb]; rewrite Hb; cbn [N.eqb Pos.eqb]; [reflexivity|].
    rewrite (wf_even16 o px n); [reflexivity | repeat split; tauto | exact Hb].
  Qed.

  (** the encapsulated object made from a well-formed native image *)
  Definition encoded (o : obj) (px : bytes) (n : nat) (t : N) : obj :=
    let frs := map (enc1 t) (frames_of (frame_size o) px n) in
    {| ts := t; rows := rows o; cols := cols o; spp := spp o; ba := ba o;
       nframes := Some (Z.of_nat n); total := Some (sum_len frs); pixv := PFrags frs |}.

  Lemma wf_transcode_encaps o px n t : wf_image o px n -> is_encaps t = true ->
    transcode o t = Ok (encoded o px n t).
  Proof.
    intros W Ht. unfold Transcode.transcode.
    assert (Hne : (ts o =? t) = false).
    { destruct W as (_ & Hts & _). destruct (N.eqb_spec (ts o) t) as [E|]; [|reflexivity]. congruence. }
    rewrite Hne, Ht. replace (is_encaps (ts o)) with false by (symmetry; apply W).
    unfold Transcode.decode_and_encode. rewrite (wf_decode_inline o px n TS_ELE W). cbn [bind].
    assert (Hp : pixv (set_ts o TS_ELE) = PNative px) by (cbn; apply W). rewrite Hp.
    assert (Hw : writer_frames (set_ts o TS_ELE) = N.of_nat n) by (rewrite <- (wf_writer_frames o px n W); reflexivity).
    rewrite Hw, Nat2N.id.
    change (Transcode.encode_frames deflate t (set_ts o TS_ELE) px 0 n)
      with (Transcode.encode_frames deflate t (set_ts o TS_ELE) px (N.of_nat 0) n).
    rewrite (encode_frames_spec t (set_ts o TS_ELE) n 0 px) by (cbn [Nat.add]; apply W).
    cbn [bind]. unfold encoded. rewrite N.mul_0_r. cbn [N.to_nat skipn].
    rewrite map_length, frames_of_length. reflexivity.
  Qed.

  Lemma enc1_even t d : pad_even (enc1 t d) = enc1 t d.
  Proof. apply pad_even_pad_even. Qed.

  Lemma write_read_encoded o px n t : write_read (encoded o px n t) = encoded o px n t.
  Proof.
    unfold write_read, encoded, set_pix; cbn. f_equal. f_equal.
    rewrite map_map. apply map_ext. intros d. apply enc1_even.
  Qed.

  Lemma decode_encoded_eu o px n : wf_image o px n ->
    decode_pixel_data (encoded o px n TS_EU) = Ok px.
  Proof.
    intros W. unfold Transcode.decode_pixel_data. cbn [nframes encoded pixv ts].
    destruct W as (Hp & Hts & Hba & Hn & Hnf & Hlen).
    replace (0 <? Z.of_nat n)%Z with true by lia. cbn [bind].
    change (TS_EU =? TS_EU) with true. cbv iota.
    f_equal. unfold enc1. change (TS_EU =? TS_EU) with true. cbv iota.
    change (frame_size o) with (frame_size (encoded o px n TS_EU)) at 1.
    rewrite eu_decode_frames.
    - apply frames_of_concat. exact Hlen.
    - apply frames_of_len. exact Hlen.
  Qed.

  (** *** round trips *)
  Lemma roundtrip_from_decode o px n t (via : bool) : wf_image o px n -> is_encaps t = true ->
    decode_pixel_data (encoded o px n t) = Ok px ->
    exists o1 o2,
      transcode o t = Ok o1 /\
      transcode (if via then write_read o1 else o1) TS_ELE = Ok o2 /\
      pixv o2 = PNative px /\ ts o2 = TS_ELE /\ same_image o o2 /\ nframes o2 = Some (Z.of_nat n).
  Proof.
    intros W Ht Hdec. exists (encoded o px n t).
    eexists. split; [now apply wf_transcode_encaps|].
    replace (if via then write_read (encoded o px n t) else encoded o px n t) with (encoded o px n t)
      by (destruct via; [now rewrite write_read_encoded | reflexivity]).
    unfold Transcode.transcode. cbn [ts encoded].
    assert (Hne : (t =? TS_ELE) = false).
    { destruct (N.eqb_spec t TS_ELE) as [->|]; [discriminate | reflexivity]. }
    rewrite Hne, Ht. change (is_encaps TS_ELE) with false. cbv iota.
    unfold Transcode.decode_inline. rewrite Hdec. cbn [bind ba encoded].
    destruct W as (Hp & Hts & Hba & Hrest).
    destruct Hba as [Hb | Hb]; rewrite Hb.
    - change (8 =? 8) with true. cbv iota. split; [reflexivity|]. cbn. repeat split; reflexivity.
    - change (16 =? 8) with false. change (16 =? 16) with true. cbv iota.
      rewrite (wf_even16 o px n); [|repeat split; tauto | exact Hb].
      split; [reflexivity|]. cbn. repeat split; reflexivity.
  Qed.

  Lemma eu_roundtrip o px n (via : bool) : wf_image o px n ->
    exists o1 o2,
      transcode o TS_EU = Ok o1 /\
      transcode (if via then write_read o1 else o1) TS_ELE = Ok o2 /\
      pixv o2 = PNative px /\ ts o2 = TS_ELE /\ same_image o o2 /\ nframes o2 = Some (Z.of_nat n).
  Proof. intros W. apply roundtrip_from_decode; [exact W | reflexivity | now apply decode_encoded_eu]. Qed.

  (** the encapsulated state itself: one even-length fragment per frame, and the recorded
      total length is the sum of the fragment lengths *)
  Lemma encoded_state o px n t : wf_image o px n -> is_encaps t = true ->
    exists frs, transcode o t = Ok (encoded o px n t) /\ pixv (encoded o px n t) = PFrags frs /\
      length frs = n /\ Forall (fun f => N.odd (blen f) = false) frs /\
      total (encoded o px n t) = Some (sum_len frs) /\ nframes (encoded o px n t) = Some (Z.of_nat n).
  Proof.
    intros W Ht. eexists. split; [now apply wf_transcode_encaps|]. cbn [pixv encoded total nframes].
    split; [reflexivity|]. split; [now rewrite map_length, frames_of_length|].
    split; [|split; reflexivity].
    apply Forall_forall. intros f Hf. apply in_map_iff in Hf. destruct Hf as (d & <- & _).
    apply pad_even_even.
  Qed.

  Lemma native_native o t : is_encaps (ts o) = false -> is_encaps t = false ->
    exists o', transcode o t = Ok o' /\ pixv o' = pixv o /\ ts o' = t /\ same_image o o' /\ nframes o' = nframes o.
  Proof.
    intros Hs Ht. unfold Transcode.transcode. destruct (N.eqb_spec (ts o) t) as [E|E].
    - exists o. repeat split; auto.
    - rewrite Hs, Ht. exists (set_ts o t). repeat split; reflexivity.
  Qed.

  (** native -> other native -> (stream) -> Explicit VR LE: the value comes back with at most one
      padding byte (odd number of pixel bytes), which is not pixel data: decoding gives the pixels *)
  Lemma native_roundtrip o px n t (via : bool) : wf_image o px n -> is_encaps t = false ->
    exists o1 o2,
      transcode o t = Ok o1 /\
      transcode (if via then write_read o1 else o1) TS_ELE = Ok o2 /\
      ts o2 = TS_ELE /\ same_image o o2 /\ nframes o2 = nframes o /\
      pixv o2 = PNative (if via then pad_even px else px) /\ decode_pixel_data o2 = Ok px.
  Proof.
    intros W Ht. pose proof W as (Hp & Hts & Hba & Hn & Hnf & Hlen).
    destruct (native_native o t Hts Ht) as (o1 & E1 & Hp1 & Hts1 & Hsame1 & Hnf1).
    set (o1' := if via then write_read o1 else o1).
    assert (Hts1' : ts o1' = t) by (subst o1'; destruct via; [cbn|]; exact Hts1).
    assert (Hp1' : pixv o1' = PNative (if via then pad_even px else px)).
    { subst o1'. destruct via; [unfold write_read; cbn; rewrite Hp1, Hp; reflexivity | congruence]. }
    assert (Hsame1' : same_image o o1' /\ nframes o1' = nframes o).
    { subst o1'. destruct via; [unfold write_read, same_image in *; cbn; tauto | tauto]. }
    assert (He1' : is_encaps (ts o1') = false) by (rewrite Hts1'; exact Ht).
    destruct (native_native o1' TS_ELE He1' eq_refl) as (o2 & E2 & Hp2 & Hts2 & Hsame2 & Hnf2).
    exists o1, o2. split; [exact E1|]. split; [exact E2|].
    destruct Hsame1' as [(Hr & Hc & Hs & Hb) Hnf1']. destruct Hsame2 as (Hr2 & Hc2 & Hs2 & Hb2).
    split; [exact Hts2|]. split; [unfold same_image; repeat split; congruence|].
    split; [congruence|]. split; [congruence|].
    (* decoding ignores the padding byte *)
    unfold Transcode.decode_pixel_data.
    rewrite Hnf2, Hnf1', (wf_decode_frames o px n W). cbn [bind]. rewrite Hp2, Hp1', Hts2.
    change (TS_ELE =? TS_EU) with false. change (TS_ELE =? TS_DEFL) with false. cbv iota.
    replace (rows o2 * cols o2 * spp o2 * ((ba o2 + 7) / 8) * N.of_nat n) with (blen px).
    - f_equal. destruct via; [|rewrite N.min_id; apply firstn_blen].
      unfold pad_even. destruct (N.odd (blen px)); [|rewrite N.min_id; apply firstn_blen].
      rewrite blen_app. change (blen [0]) with 1.
      replace (N.min (blen px) (blen px + 1)) with (blen px) by lia.
      unfold blen. rewrite Nat2N.id, firstn_app, Nat.sub_diag, firstn_all. cbn. apply app_nil_r.
    - rewrite <- Hr2, <- Hc2, <- Hs2, <- Hb2, <- Hr, <- Hc, <- Hs, <- Hb, Hlen. unfold frame_size.
      destruct Hba as [-> | ->].
      + change ((8 + 7) / 8) with 1. change (8 / 8) with 1. ring.
      + change ((16 + 7) / 8) with 2. change (16 / 8) with 2. ring.
  Qed.
  Section WithInflate.
  (** the external assumption: a deflate stream inflates to the data it was made of,
      and a trailing padding byte after the stream is ignored *)
  Hypothesis inflate_deflate : forall b, inflate (deflate b) = Some b.
  Hypothesis inflate_deflate_pad : forall b, inflate (deflate b ++ [0]) = Some b.


  Lemma inflate_pad_even b : inflate (pad_even (deflate b)) = Some b.
  Proof. unfold pad_even. destruct (N.odd _); auto. Qed.

  Lemma defl_decode_frames fs :
    defl_decode inflate (map (fun d => pad_even (deflate d)) fs) = Ok (concat fs).
  Proof.
    induction fs as [|f fs IH]; [reflexivity|]. cbn [map defl_decode concat].
    rewrite inflate_pad_even, IH. reflexivity.
  Qed.

  Lemma decode_encoded_defl o px n : wf_image o px n ->
    decode_pixel_data (encoded o px n TS_DEFL) = Ok px.
  Proof.
    intros W. unfold Transcode.decode_pixel_data. cbn [nframes encoded pixv ts].
    destruct W as (Hp & Hts & Hba & Hn & Hnf & Hlen).
    replace (0 <? Z.of_nat n)%Z with true by lia. cbn [bind].
    change (TS_DEFL =? TS_EU) with false. change (TS_DEFL =? TS_DEFL) with true. cbv iota.
    unfold enc1. change (TS_DEFL =? TS_EU) with false. cbv iota.
    rewrite defl_decode_frames. f_equal. apply frames_of_concat. exact Hlen.
  Qed.

  Lemma defl_roundtrip o px n (via : bool) : wf_image o px n ->
    exists o1 o2,
      transcode o TS_DEFL = Ok o1 /\
      transcode (if via then write_read o1 else o1) TS_ELE = Ok o2 /\
      pixv o2 = PNative px /\ ts o2 = TS_ELE /\ same_image o o2 /\ nframes o2 = Some (Z.of_nat n).
  Proof. intros W. apply roundtrip_from_decode; [exact W | reflexivity | now apply decode_encoded_defl]. Qed.

  End WithInflate.
End Codec.

(** the attributes are consistent with the pixel data length *)
Lemma wf_length o px n : wf_image o px n ->
  blen px = rows o * cols o * spp o * (ba o / 8) * N.of_nat n.
Proof. intros (_ & _ & _ & _ & _ & H). rewrite H. unfold frame_size. ring. Qed.
