(** The independent structural validator accepts the writer's output for
    nested data sets (undefined-length sequences/items of any depth and
    encapsulated pixel data) — C04 for nesting. *)
From Coq Require Import ZifyBool ZifyNat ZifyN.
From DicomV Require Import Base.Endian Model.Vr Model.Header Model.Prim Model.Dataset Model.Writer Spec.Ps35
  Proofs.HeaderP Proofs.PrimP Proofs.WriterP Proofs.ValidP Proofs.FlatP Proofs.TotalP Proofs.NestedP.
Open Scope N_scope.

(** The item loop of the validator with the element validator as a parameter
    (convertible to the local fix inside [v_elems]). *)
Section VItems.
  Variable ve : bool -> bytes -> option bytes.
  Variable c : codec.
  Fixpoint v_items_g (g : nat) (undef_seq : bool) (b : bytes) : option bytes :=
    match g with
    | O => None
    | S g' =>
        match b with
        | [] => if undef_seq then None else Some []
        | _ =>
            match ps35_parse_item c b with
            | Some (57565, 0, r) => if undef_seq then Some r else None
            | Some (57344, ilen, r) =>
                if N.eqb ilen undefined_length then
                  match ve true r with
                  | Some r' => v_items_g g' undef_seq r'
                  | None => None
                  end
                else if negb (is_even ilen) then None
                else
                  match ps35_take (N.to_nat ilen) r with
                  | Some (chunk, r') =>
                      match ve false chunk with
                      | Some _ => v_items_g g' undef_seq r'
                      | None => None
                      end
                  | None => None
                  end
            | _ => None
            end
        end
    end.
End VItems.

(** * Item-level headers *)
Lemma ps35_parse_item_raw c e len rest :
  e < 65536 -> len < 4294967296 ->
  ps35_parse_item c (ps35_u16 c 65534 ++ ps35_u16 c e ++ ps35_u32 c len ++ rest) = Some (e, len, rest).
Proof.
  intros He Hl. unfold ps35_parse_item.
  set (h := ps35_u16 c 65534 ++ ps35_u16 c e ++ ps35_u32 c len).
  replace (ps35_u16 c 65534 ++ ps35_u16 c e ++ ps35_u32 c len ++ rest) with (h ++ rest)
    by (unfold h; rewrite <- !app_assoc; reflexivity).
  rewrite ps35_take_app by (unfold h; rewrite !app_length, !ps35_u16_length, ps35_u32_length; reflexivity).
  assert (F1 : firstn 2 h = ps35_u16 c 65534) by (unfold h; apply pfirstn_app_exact, ps35_u16_length).
  assert (F2 : skipn 2 h = ps35_u16 c e ++ ps35_u32 c len) by (unfold h; apply pskipn_app_exact, ps35_u16_length).
  assert (F3 : skipn 4 h = ps35_u32 c len).
  { unfold h. rewrite app_assoc. apply pskipn_app_exact. rewrite app_length, !ps35_u16_length. reflexivity. }
  rewrite F1, F2, F3, (pfirstn_app_exact (ps35_u16 c e)) by apply ps35_u16_length.
  rewrite !ps35_rd_u16, ps35_rd_u32 by (assumption || lia). reflexivity.
Qed.

Lemma ps35_parse_item_item c len rest :
  len < 4294967296 -> ps35_parse_item c (ps35_item_header c len ++ rest) = Some (57344, len, rest).
Proof. intros H. unfold ps35_item_header. rewrite <- !app_assoc. apply ps35_parse_item_raw; [lia | exact H]. Qed.
Lemma ps35_parse_item_idelim c rest : ps35_parse_item c (ps35_item_delim c ++ rest) = Some (57357, 0, rest).
Proof. unfold ps35_item_delim. rewrite <- !app_assoc. apply ps35_parse_item_raw; lia. Qed.
Lemma ps35_parse_item_sdelim c rest : ps35_parse_item c (ps35_seq_delim c ++ rest) = Some (57565, 0, rest).
Proof. unfold ps35_seq_delim. rewrite <- !app_assoc. apply ps35_parse_item_raw; lia. Qed.

Lemma ps35_item_nonnil c e len rest : ps35_u16 c 65534 ++ ps35_u16 c e ++ ps35_u32 c len ++ rest <> [].
Proof.
  intros H. apply (f_equal (@length N)) in H. rewrite !app_length, !ps35_u16_length in H. cbn in H. lia.
Qed.

(** * One step of [v_elems] on a sequence element with undefined length *)
Lemma v_elems_seq f c is_sq u t r0 :
  swf_tag t -> fst t <> 65534 -> (c = ILE -> is_sq t = true) ->
  v_elems (S f) c is_sq u (ps35_header c t SQ undefined_length ++ r0) =
  match v_items_g (v_elems f c is_sq) c (S f) true r0 with
  | Some r' => v_elems f c is_sq u r'
  | None => None
  end.
Proof.
  intros Ht Hg Hi. cbn [v_elems].
  destruct (ps35_header c t SQ undefined_length ++ r0) as [|x0 b0] eqn:EB.
  { exfalso. apply (ps35_header_nonnil _ _ _ _ _ EB). }
  rewrite <- EB. clear EB x0 b0.
  rewrite ps35_parse_item_elem by assumption.
  rewrite ps35_parse_header_layout; [| exact Ht | unfold undefined_length; lia | intros _ Hs; discriminate Hs].
  assert (Hsq : match c with ILE => is_sq t | _ => vr_eqb SQ SQ end = true)
    by (destruct c; [apply Hi; reflexivity | reflexivity | reflexivity]).
  rewrite Hsq. cbn [negb]. rewrite !andb_false_r. cbn [orb]. rewrite N.eqb_refl. reflexivity.
Qed.

(** * Pixel fragments *)
Lemma ps35_item_header_nonnil c len rest : ps35_item_header c len ++ rest <> [].
Proof. unfold ps35_item_header. rewrite <- !app_assoc. apply ps35_item_nonnil. Qed.

Lemma ps35_item_header_len c len : length (ps35_item_header c len) = 8%nat.
Proof. unfold ps35_item_header. rewrite !app_length, !ps35_u16_length, ps35_u32_length. reflexivity. Qed.

Definition chunk_item (c : codec) (v : bytes) : bytes := ps35_item_header c (blen v) ++ v.

Lemma v_frags_chunks c (l : list bytes) : forall g rest,
  Forall (fun v : bytes => blen v mod 2 = 0 /\ blen v < 4294967295) l -> (length l < g)%nat ->
  v_frags g c (flat_map (chunk_item c) l ++ ps35_seq_delim c ++ rest) = Some rest.
Proof.
  induction l as [|v l IH]; intros g rest H G.
  - destruct g; [lia|]. cbn [flat_map app v_frags]. rewrite ps35_parse_item_sdelim. reflexivity.
  - inversion H as [|? ? [Ev Lv] Hl]; subst. destruct g as [|g]; [cbn in G; lia|].
    cbn [flat_map]. unfold chunk_item at 1. rewrite <- !app_assoc. cbn [v_frags].
    rewrite ps35_parse_item_item by lia.
    replace (blen v =? undefined_length) with false by (symmetry; apply N.eqb_neq; unfold undefined_length; lia).
    unfold is_even. rewrite Ev. cbn [N.eqb negb orb].
    replace (N.to_nat (blen v)) with (length v) by (unfold blen; lia).
    rewrite ps35_take_app by reflexivity. apply IH; [exact Hl | cbn in G; lia].
Qed.

Definition pix_chunks (c : codec) (ot : list N) (frags : list bytes) : list bytes :=
  (match ot with [] => [] | _ => enc_words c 4 ot end) :: map (pad_even 0) frags.

Lemma st_item_header_even' c len :
  len < 4294967295 -> len mod 2 = 0 -> st_enc_item_header c len = ps35_item_header c len.
Proof.
  intros H E. unfold st_enc_item_header.
  replace (len =? 4294967295) with false by (symmetry; apply N.eqb_neq; lia).
  rewrite even_len_even by assumption. apply enc_item_header_ps35.
Qed.

Lemma frag_as_chunk c (f : bytes) :
  blen f < 4294967294 ->
  match f with
  | [] => st_enc_item_header c 0
  | _ => st_enc_item_header c (blen f mod 4294967296) ++ st_write_bytes f
  end = chunk_item c (pad_even 0 f).
Proof.
  intros H. destruct f as [|x f].
  - rewrite st_item_header_even' by (lia || reflexivity). unfold chunk_item. cbn. rewrite List.app_nil_r. reflexivity.
  - set (b := x :: f) in *. unfold chunk_item, st_write_bytes, st_enc_item_header.
    rewrite N.mod_small by lia.
    replace (blen b =? 4294967295) with false by (symmetry; apply N.eqb_neq; lia).
    change (pad_even 0 b) with (ps35_padded OB b). rewrite ps35_padded_len by lia.
    rewrite enc_item_header_ps35. reflexivity.
Qed.

Lemma pix_body_chunks c ot frags :
  nlen ot < 1073741824 -> Forall (fun f : bytes => blen f < 4294967294) frags ->
  (match ot with
   | [] => st_enc_item_header c 0
   | _ => st_enc_item_header c ((nlen ot mod 4294967296 * 4) mod 4294967296) ++ st_enc_offset_table c ot
   end)
  ++ flat_map (fun f => match f with
                        | [] => st_enc_item_header c 0
                        | _ => st_enc_item_header c (blen f mod 4294967296) ++ st_write_bytes f
                        end) frags
  = flat_map (chunk_item c) (pix_chunks c ot frags).
Proof.
  intros Hn Hf. unfold pix_chunks. cbn [flat_map]. f_equal.
  - destruct ot as [|x ot].
    + rewrite st_item_header_even' by (lia || reflexivity). unfold chunk_item. cbn. rewrite List.app_nil_r. reflexivity.
    + set (o := x :: ot) in *. unfold chunk_item, st_enc_offset_table.
      assert (L : (nlen o mod 4294967296 * 4) mod 4294967296 = blen (enc_words c 4 o)).
      { rewrite enc_words_len. rewrite (N.mod_small (nlen o)) by lia. rewrite N.mod_small by lia. reflexivity. }
      rewrite L. rewrite st_item_header_even'; [reflexivity | rewrite enc_words_len; lia |].
      rewrite enc_words_len. change (N.of_nat 4) with (2 * 2). rewrite N.mul_assoc, N.mod_mul by discriminate. reflexivity.
  - induction Hf as [|f frags Hf1 Hf2 IH]; [reflexivity|]. cbn [flat_map map]. rewrite IH, frag_as_chunk by exact Hf1. reflexivity.
Qed.

Lemma pix_chunks_ok c ot frags :
  nlen ot < 1073741824 -> Forall (fun f : bytes => blen f < 4294967294) frags ->
  Forall (fun v : bytes => blen v mod 2 = 0 /\ blen v < 4294967295) (pix_chunks c ot frags).
Proof.
  intros Hn Hf. unfold pix_chunks. constructor.
  - destruct ot as [|x ot]; [split; [reflexivity | cbn; lia]|]. rewrite enc_words_len. split; [|lia].
    change (N.of_nat 4) with (2 * 2). rewrite N.mul_assoc, N.mod_mul by discriminate. reflexivity.
  - apply Forall_forall. intros v Hv. apply in_map_iff in Hv. destruct Hv as [f [<- Hin]].
    rewrite Forall_forall in Hf. specialize (Hf f Hin). change (pad_even 0 f) with (ps35_padded OB f).
    split; [apply ps35_padded_even|]. pose proof (padded_lt OB f ltac:(lia)). pose proof (padded_ne_undef OB f). lia.
Qed.

(** one step of [v_elems] on an encapsulated pixel data element *)
Lemma v_elems_pix f c is_sq u chunks rest :
  (c = ILE -> is_sq pixel_tag = false) ->
  Forall (fun v : bytes => blen v mod 2 = 0 /\ blen v < 4294967295) chunks -> (length chunks <= f)%nat ->
  v_elems (S f) c is_sq u (ps35_header c pixel_tag OB undefined_length ++ flat_map (chunk_item c) chunks ++ ps35_seq_delim c ++ rest)
  = v_elems f c is_sq u rest.
Proof.
  intros Hi Hc Hl. cbn [v_elems].
  destruct (ps35_header c pixel_tag OB undefined_length ++ _) as [|x0 b0] eqn:EB.
  { exfalso. apply (ps35_header_nonnil _ _ _ _ _ EB). }
  rewrite <- EB. clear EB x0 b0.
  rewrite ps35_parse_item_elem by (try split; cbn; lia || discriminate).
  rewrite ps35_parse_header_layout; [| split; cbn; lia | unfold undefined_length; lia | intros _ Hs; discriminate Hs].
  assert (Hsq : match c with ILE => is_sq pixel_tag | _ => vr_eqb OB SQ end = false)
    by (destruct c; [apply Hi; reflexivity | reflexivity | reflexivity]).
  assert (Hob : match c with ILE => true | _ => vr_eqb OB OB end = true) by (destruct c; reflexivity).
  rewrite Hsq, Hob. change (fst pixel_tag =? 32736) with true. change (snd pixel_tag =? 16) with true.
  rewrite N.eqb_refl. cbn [andb negb].
  rewrite v_frags_chunks by (assumption || lia). reflexivity.
Qed.

(** * Data sets the nested validity theorem covers *)
Inductive vable (c : codec) (is_sq : tag -> bool) : elem -> Prop :=
| VPrim t v l p : elem_ok c is_sq (EPrim t v l p) -> vable c is_sq (EPrim t v l p)
| VSeq t l its :
    wf_tag t -> fst t <> 65534 -> (c = ILE -> is_sq t = true) ->
    Forall (fun it : item => Forall (vable c is_sq) (snd it)) its -> vable c is_sq (ESeq t SQ l its)
| VPix ot frags :
    (c = ILE -> is_sq pixel_tag = false) -> nlen ot < 1073741824 ->
    Forall (fun f : bytes => blen f < 4294967294) frags -> vable c is_sq (EPix pixel_tag OB undef ot frags).

Lemma obind_ok' a f b : obind a f = Ok b -> exists x, a = Ok x /\ f x = Ok b.
Proof. destruct a; cbn; intros H; try discriminate. eauto. Qed.

(* a written primitive element is a canonical primitive element *)
Lemma written_prim_ok c is_sq t v l p b :
  elem_ok c is_sq (EPrim t v l p) -> enc_prim_element c t v p = Ok b ->
  exists val, b = ps35_header c t v (ps35_len val) ++ val /\ cprim_ok c is_sq t v val.
Proof.
  intros (Hpl & Hty & Hwf & Hlen & Htag & Hgrp & Hile) E.
  destruct (enc_prim_element_shape c t v p b Hty Hwf Hlen E) as [S K].
  exists (ps35_padded v (raw_value c v p)). split; [exact S|].
  unfold cprim_ok. change (ps35_len (ps35_padded v (raw_value c v p))) with (blen (ps35_padded v (raw_value c v p))).
  split; [exact Htag|]. split; [exact Hgrp|]. split; [apply ps35_padded_even|].
  split; [pose proof (padded_lt v _ Hlen); pose proof (padded_ne_undef v (raw_value c v p)); lia|].
  split; [|exact Hile]. intros Hc. split; [exact (proj1 Hpl)|]. intros Hs. apply K; assumption.
Qed.

Definition valid_ok (c : codec) (is_sq : tag -> bool) (e : elem) : Prop :=
  forall f b, enc_tree f c e = Ok b ->
  (elem_size e <= length b)%nat /\
  forall fuel u rest, (elem_size e < fuel)%nat ->
    v_elems fuel c is_sq u (b ++ rest) = v_elems (fuel - 1) c is_sq u rest.

Lemma elems_size_ge es : (length es <= elems_size es)%nat.
Proof.
  induction es as [|e es IH]; [cbn; lia|]. cbn [elems_size length].
  assert (1 <= elem_size e)%nat by (destruct e; cbn; lia). lia.
Qed.

Lemma valid_elems c is_sq es : forall f b,
  Forall (valid_ok c is_sq) es -> enc_trees f c es = Ok b ->
  (elems_size es <= length b)%nat /\
  forall fuel u rest, (elems_size es < fuel)%nat ->
    v_elems fuel c is_sq u (b ++ rest) = v_elems (fuel - length es) c is_sq u rest.
Proof.
  induction es as [|e es IH]; intros f b H E.
  - cbn in E. inversion E; subst b. split; [cbn; lia|]. intros fuel u rest F. cbn. rewrite Nat.sub_0_r. reflexivity.
  - inversion H as [|? ? He Hes]; subst. cbn [enc_trees] in E.
    apply obind_ok' in E. destruct E as (b1 & E1 & E). apply obind_ok' in E. destruct E as (b2 & E2 & E).
    inversion E; subst b. destruct (He f b1 E1) as [L1 R1]. destruct (IH f b2 Hes E2) as [L2 R2].
    cbn [elems_size]. split; [rewrite app_length; lia|].
    intros fuel u rest F. rewrite <- app_assoc.
    assert (1 <= elem_size e)%nat by (destruct e; cbn; lia).
    rewrite R1 by lia. rewrite R2 by lia. cbn [length]. f_equal. lia.
Qed.

Lemma v_items_end ve c g tail : v_items_g ve c (S g) true (ps35_seq_delim c ++ tail) = Some tail.
Proof.
  cbn [v_items_g]. rewrite ps35_parse_item_sdelim.
  destruct (ps35_seq_delim c ++ tail) as [|x0 b0] eqn:EB; [|reflexivity].
  exfalso. unfold ps35_seq_delim in EB. rewrite <- !app_assoc in EB. apply (ps35_item_nonnil _ _ _ _ EB).
Qed.

Lemma v_elems_item_end f c is_sq tail : v_elems (S f) c is_sq true (ps35_item_delim c ++ tail) = Some tail.
Proof.
  cbn [v_elems]. rewrite ps35_parse_item_idelim.
  destruct (ps35_item_delim c ++ tail) as [|x0 b0] eqn:EB; [|reflexivity].
  exfalso. unfold ps35_item_delim in EB. rewrite <- !app_assoc in EB. apply (ps35_item_nonnil _ _ _ _ EB).
Qed.

Lemma v_items_item ve c g r :
  v_items_g ve c (S g) true (ps35_item_header c undefined_length ++ r) =
  match ve true r with Some r' => v_items_g ve c g true r' | None => None end.
Proof.
  cbn [v_items_g]. rewrite ps35_parse_item_item by (unfold undefined_length; lia). rewrite N.eqb_refl.
  destruct (ps35_item_header c undefined_length ++ r) as [|x0 b0] eqn:EB; [|reflexivity].
  exfalso. apply (ps35_item_header_nonnil _ _ _ EB).
Qed.

Lemma valid_items c is_sq its : forall f body fv g tail,
  Forall (fun it : item => Forall (valid_ok c is_sq) (snd it)) its -> enc_items f c its = Ok body ->
  (items_size its <= length body)%nat /\
  ((items_size its < fv)%nat -> (length its < g)%nat ->
   v_items_g (v_elems fv c is_sq) c g true (body ++ ps35_seq_delim c ++ tail) = Some tail).
Proof.
  induction its as [|[n es] its IH]; intros f body fv g tail H E.
  - cbn in E. inversion E; subst body. split; [cbn; lia|]. intros _ G. destruct g; [lia|].
    cbn [app]. apply v_items_end.
  - inversion H as [|? ? Hes Hits]; subst. cbn [snd] in Hes. cbn [enc_items] in E.
    apply obind_ok' in E. destruct E as (bd & E1 & E). apply obind_ok' in E. destruct E as (r & E2 & E).
    inversion E; subst body. clear E.
    destruct (valid_elems c is_sq es f bd Hes E1) as [L1 R1].
    destruct (IH f r fv (pred g) tail Hits E2) as [L2 R2].
    cbn [items_size]. split.
    { rewrite !app_length. unfold st_enc_item_header, enc_item_header, enc_item_delim.
      rewrite !app_length, !u16_length, u32_length. cbn [length]. lia. }
    intros Fv G. destruct g as [|g]; [cbn in G; lia|]. cbn [pred] in R2.
    assert (HU : st_enc_item_header c undef = ps35_item_header c undefined_length).
    { unfold st_enc_item_header. cbn [N.eqb undef]. rewrite N.eqb_refl. apply enc_item_header_ps35. }
    rewrite HU, enc_item_delim_ps35, <- !app_assoc.
    rewrite v_items_item.
    cbn [items_size] in Fv. rewrite R1 by lia.
    pose proof (elems_size_ge es) as Ge.
    destruct (fv - length es)%nat as [|fv'] eqn:Ef; [lia|].
    rewrite v_elems_item_end.
    apply R2; [lia | cbn in G; lia].
Qed.

Lemma vable_valid_ok c is_sq : forall e, vable c is_sq e -> valid_ok c is_sq e.
Proof.
  apply (elem_ind_nested (fun e => vable c is_sq e -> valid_ok c is_sq e)).
  - (* primitive *)
    intros t v l p V f b E. inversion V as [? ? ? ? Hok| |]; subst.
    destruct f as [|f]; [cbn in E; discriminate|]. cbn [enc_tree] in E.
    destruct (written_prim_ok c is_sq t v l p b Hok E) as (val & -> & Hc).
    split.
    { cbn [elem_size]. rewrite app_length. destruct (ps35_header_starts c t v (ps35_len val)) as [tl [Eh Lh]].
      rewrite Eh, app_length, ps35_u16_length. lia. }
    intros fuel u rest F. destruct fuel as [|fuel]; [lia|]. rewrite <- app_assoc.
    rewrite v_elems_prim by exact Hc. replace (S fuel - 1)%nat with fuel by lia. reflexivity.
  - (* encapsulated pixel data *)
    intros t v l ot fr V f b E. inversion V as [| |? ? Hi Hn Hfr]; subst.
    destruct f as [|f]; [cbn in E; discriminate|]. cbn [enc_tree] in E. unfold enc_pix in E.
    rewrite st_enc_header_undef_ob in E. cbn [obind] in E. inversion E; subst b. clear E.
    rewrite (app_assoc (match ot with [] => _ | _ => _ end)), pix_body_chunks, enc_seq_delim_ps35 by assumption.
    pose proof (pix_chunks_ok c ot fr Hn Hfr) as Hc.
    assert (Lc : length (pix_chunks c ot fr) = S (length fr)) by (unfold pix_chunks; cbn [length]; rewrite map_length; reflexivity).
    split.
    { cbn [elem_size]. rewrite !app_length.
      assert (B : (length (pix_chunks c ot fr) * 8 <= length (flat_map (chunk_item c) (pix_chunks c ot fr)))%nat).
      { generalize (pix_chunks c ot fr). intros l0. induction l0 as [|x l0 IHl]; [cbn; lia|].
        cbn [flat_map length]. unfold chunk_item at 1. rewrite !app_length, ps35_item_header_len. lia. }
      lia. }
    intros fuel u rest F. destruct fuel as [|fuel]; [lia|]. cbn [elem_size] in F. rewrite <- !app_assoc.
    change undef with undefined_length.
    rewrite v_elems_pix by (assumption || lia). replace (S fuel - 1)%nat with fuel by lia. reflexivity.
  - (* sequence *)
    intros t v l its IH V f b E. inversion V as [|? ? ? Htag Hgrp Hi Hits|]; subst.
    assert (A : Forall (fun it : item => Forall (valid_ok c is_sq) (snd it)) its).
    { clear V E. induction its as [|it its IHi]; [constructor|].
      inversion IH as [|? ? I1 I2]; inversion Hits as [|? ? J1 J2]; subst. constructor.
      - clear IHi I2 J2. induction (snd it) as [|x xs IHx]; [constructor|].
        inversion I1; inversion J1; subst. constructor; [auto | auto].
      - apply IHi; assumption. }
    destruct f as [|f]; [cbn in E; discriminate|]. rewrite enc_tree_seq, st_enc_header_undef_sq in E.
    cbn [obind] in E. apply obind_ok' in E. destruct E as (body & E1 & E). inversion E; subst b. clear E.
    rewrite elem_size_seq. split.
    { destruct (valid_items c is_sq its f body 0 0 [] A E1) as [L1 _].
      rewrite !app_length. destruct (ps35_header_starts c t SQ undef) as [tl [Eh Lh]].
      rewrite Eh, app_length, ps35_u16_length. lia. }
    intros fuel u rest F. destruct fuel as [|fuel]; [lia|].
    rewrite enc_seq_delim_ps35, <- !app_assoc. change undef with undefined_length.
    rewrite v_elems_seq by assumption.
    destruct (valid_items c is_sq its f body fuel (S fuel) rest A E1) as [L1 R1].
    assert (Li : (length its <= items_size its)%nat).
    { clear. induction its as [|[n es] its IHl]; [cbn; lia|]. cbn [items_size length]. lia. }
    rewrite R1 by lia. replace (S fuel - 1)%nat with fuel by lia. reflexivity.
Qed.

(** V (nested): the validator accepts what the writer produced. *)
Lemma write_tree_valid c is_sq es b :
  Forall (vable c is_sq) es -> Forall regular es ->
  write_dataset c false false es = Ok b -> ps35_valid c is_sq b = true.
Proof.
  intros V R W. rewrite write_dataset_nested in W by exact R.
  assert (A : Forall (valid_ok c is_sq) es) by (eapply Forall_impl; [apply vable_valid_ok | exact V]).
  destruct (valid_elems c is_sq es _ b A W) as [L Rv].
  unfold ps35_valid. rewrite <- (List.app_nil_r b) at 2. rewrite Rv by lia.
  pose proof (elems_size_ge es). destruct (S (length b) - length es)%nat eqn:E; [lia|]. reflexivity.
Qed.

Lemma vable_regular c is_sq : forall e, vable c is_sq e -> regular e.
Proof.
  apply (elem_ind_nested (fun e => vable c is_sq e -> regular e)).
  - intros t v l p V. inversion V as [? ? ? ? Hok| |]; subst. constructor. exact (proj1 Hok).
  - intros t v l ot fr V. inversion V as [| |? ? _ Hn Hfr]; subst. constructor; [|exact Hn].
    eapply Forall_impl; [|exact Hfr]. cbn. intros f Hf. lia.
  - intros t v l its IH V. inversion V as [|? ? ? _ _ _ Hits|]; subst. constructor.
    clear V. induction its as [|it its IHi]; [constructor|].
    inversion IH as [|? ? I1 I2]; inversion Hits as [|? ? J1 J2]; subst. constructor.
    + clear IHi I2 J2. induction (snd it) as [|x xs IHx]; [constructor|].
      inversion I1; inversion J1; subst. constructor; [auto | auto].
    + apply IHi; assumption.
Qed.
