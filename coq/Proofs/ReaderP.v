(** The reader on canonical flat streams (R, flat): tokens and object. *)
From Coq Require Import ZifyBool ZifyNat ZifyN Sorting.Sorted.
From DicomV Require Import Base.Endian Model.Vr Model.Header Model.Prim Model.Dataset Model.Reader Spec.Ps35
  Proofs.HeaderP Proofs.PrimP Proofs.ValidP.
Open Scope N_scope.

(** VR the reader assigns to an element. *)
Definition read_vr (c : codec) (d : dict_t) (t : tag) (v : vr) : vr :=
  match c with ILE => ile_vr (dict_vr d) t | _ => v end.

(** What the reader makes of one canonical primitive element. *)
Definition back_value (c : codec) (v : vr) (val : bytes) : outcome prim :=
  if N.eqb (blen val) 0 then Ok PEmpty else value_of_bytes c v val.

(** Conditions on one canonical primitive element for the reader. *)
Definition rprim_ok (c : codec) (d : dict_t) (t : tag) (v : vr) (val : bytes) (p : prim) : Prop :=
  wf_tag t /\ fst t <> 65534 /\ t <> (40, 259) /\ blen val < 4294967295 /\
  (c <> ILE -> ps35_len16 v = true -> blen val <= 65535) /\
  vr_eqb (read_vr c d t v) SQ = false /\
  back_value c (read_vr c d t v) val = Ok p.

(* reader states between elements at the top level of the data set *)
Definition top_state (st : rstate) (src : bytes) : Prop :=
  r_src st = src /\ r_in_seq st = false /\ r_stack st = [] /\ r_hard st = false /\
  r_last st = None /\ r_signed st = None.
Definition mid_state (st : rstate) (src : bytes) (h : tag * vr * N) : Prop :=
  r_src st = src /\ r_in_seq st = false /\ r_stack st = [] /\ r_hard st = false /\
  r_last st = Some h /\ r_signed st = None.

Lemma tag_eqb_neq a b : a <> b -> tag_eqb a b = false.
Proof.
  intros H. unfold tag_eqb. destruct a as [a1 a2], b as [b1 b2]. cbn [fst snd].
  destruct (N.eqb_spec a1 b1) as [->|]; [destruct (N.eqb_spec a2 b2) as [->|]; [congruence | reflexivity] | reflexivity].
Qed.

(** [next] at the top level with an empty delimiter stack: the pending check is a no-op. *)
Lemma next_top f c d st :
  r_hard st = false -> r_stack st = [] ->
  exists st', r_src st' = r_src st /\ r_in_seq st' = r_in_seq st /\ r_stack st' = [] /\ r_hard st' = false /\
              r_last st' = r_last st /\ r_signed st' = r_signed st /\ r_pos st' = r_pos st /\
    next (S f) c d st = match next_body c d st' with (RAgain, s) => next f c d s | r => r end.
Proof.
  intros Hh Hs. cbn [next]. rewrite Hh. destruct (r_pending st) eqn:P.
  - unfold update_delims. rewrite Hs.
    exists (upd st (r_in_seq st) (r_ot_next st) false [] (r_last st)). repeat split; try reflexivity; cbn; auto.
  - exists st. repeat split; auto.
Qed.

(** Step 1: the element header. *)
Lemma next_header f c d st t v val rest :
  top_state st (ps35_header c t v (blen val) ++ val ++ rest) ->
  wf_tag t -> fst t <> 65534 -> blen val < 4294967295 ->
  (c <> ILE -> ps35_len16 v = true -> blen val <= 65535) ->
  vr_eqb (read_vr c d t v) SQ = false ->
  exists st1, next (S f) c d st = (RTok (TElemHeader t (read_vr c d t v) (blen val)), st1)
              /\ mid_state st1 (val ++ rest) (t, read_vr c d t v, blen val).
Proof.
  intros (Hsrc & Hin & Hst & Hh & Hl & Hsg) Ht Hg Hlen H16 Hsq.
  destruct (next_top f c d st Hh Hst) as (st' & E1 & E2 & E3 & E4 & E5 & E6 & E7 & EN).
  rewrite EN. clear EN.
  unfold next_body. rewrite E2, Hin, E3, E5, Hl.
  unfold st_decode_header. rewrite E1, Hsrc.
  rewrite dec_header_layout; [| exact Ht | lia | intros _; exact Hg | exact H16].
  rewrite E6, Hsg. fold (read_vr c d t v). rewrite Hsq.
  replace (tag_eqb t (65534, 57357)) with false
    by (symmetry; unfold tag_eqb; cbn; replace (fst t =? 65534) with false by (symmetry; apply N.eqb_neq; exact Hg); reflexivity).
  assert (Hu : (blen val =? undef) = false) by (apply N.eqb_neq; unfold undef; lia).
  unfold is_encaps_header. rewrite Hu, andb_false_r.
  eexists. split; [reflexivity|].
  unfold mid_state, upd, set_src. cbn. repeat split; auto; congruence.
Qed.

(** Step 2: the value. *)
Lemma read_value_app c v val rest p :
  blen val < 4294967295 -> back_value c v val = Ok p ->
  read_value c v (blen val) (val ++ rest) = Ok (p, rest).
Proof.
  intros Hlen Hb. unfold read_value, back_value in *.
  destruct (blen val =? 0) eqn:Z.
  - inversion Hb; subst p. apply N.eqb_eq in Z.
    assert (val = []) by (destruct val; [reflexivity | unfold blen in Z; cbn in Z; lia]). subst val. reflexivity.
  - replace (blen val =? undef) with false by (symmetry; apply N.eqb_neq; unfold undef; lia).
    replace (N.to_nat (blen val)) with (length val) by (unfold blen; lia).
    rewrite take_app by reflexivity.
    destruct (value_of_bytes c v val) as [q|x|x] eqn:VB; try discriminate.
    inversion Hb; subst q. destruct v; try reflexivity. cbn in VB. discriminate.
Qed.

Lemma next_value f c d st t v val rest p :
  mid_state st (val ++ rest) (t, v, blen val) ->
  t <> (40, 259) -> blen val < 4294967295 -> back_value c v val = Ok p ->
  exists st2, next (S f) c d st = (RTok (TPrim p), st2) /\ top_state st2 rest.
Proof.
  intros (Hsrc & Hin & Hst & Hh & Hl & Hsg) Htag Hlen Hb.
  destruct (next_top f c d st Hh Hst) as (st' & E1 & E2 & E3 & E4 & E5 & E6 & E7 & EN).
  rewrite EN. clear EN.
  unfold next_body. rewrite E2, Hin, E3, E5, Hl.
  assert (Hu : (blen val =? undef) = false) by (apply N.eqb_neq; unfold undef; lia).
  unfold is_encaps_header. rewrite Hu, andb_false_r.
  rewrite E1, Hsrc, (read_value_app c v val rest p Hlen Hb).
  rewrite (tag_eqb_neq t (40, 259) Htag). cbn [andb].
  assert (X : (if vr_eqb v US || vr_eqb v OW then set_src st' rest (blen val) else set_src st' rest (blen val))
              = set_src st' rest (blen val)) by (destruct (vr_eqb v US || vr_eqb v OW); reflexivity).
  rewrite X. eexists. split; [reflexivity|].
  unfold top_state, upd, set_src. cbn. repeat split; auto; congruence.
Qed.

(** Step 3: end of input at the top level ends the stream gracefully. *)
Lemma next_end f c d st : top_state st [] -> exists st', next (S f) c d st = (REnd, st').
Proof.
  intros (Hsrc & Hin & Hst & Hh & Hl & Hsg).
  destruct (next_top f c d st Hh Hst) as (st' & E1 & E2 & E3 & E4 & E5 & E6 & E7 & EN).
  rewrite EN. clear EN.
  unfold next_body. rewrite E2, Hin, E3, E5, Hl.
  unfold st_decode_header. rewrite E1, Hsrc. destruct c; cbn; eexists; reflexivity.
Qed.

(** Canonical flat streams and the tokens the reader yields on them. *)
Fixpoint rflat_ok (c : codec) (d : dict_t) (es : list celem) (ps : list prim) : Prop :=
  match es, ps with
  | [], [] => True
  | CPrim t v val :: r, p :: ps' => rprim_ok c d t v val p /\ rflat_ok c d r ps'
  | _, _ => False
  end.
Fixpoint rflat_tokens (c : codec) (d : dict_t) (es : list celem) (ps : list prim) : list token :=
  match es, ps with
  | CPrim t v val :: r, p :: ps' => TElemHeader t (read_vr c d t v) (blen val) :: TPrim p :: rflat_tokens c d r ps'
  | _, _ => []
  end.

Lemma read_tokens_flat c d es : forall ps st fuel,
  rflat_ok c d es ps -> top_state st (canon_encode c es) -> (2 * length es < fuel)%nat ->
  read_tokens fuel c d st = (rflat_tokens c d es ps, None).
Proof.
  induction es as [|e es IH]; intros ps st fuel H T F.
  - destruct ps; cbn in H; try contradiction. destruct fuel as [|fuel]; [lia|].
    cbn [read_tokens canon_encode] in *. destruct (next_end (length (r_src st)) c d st T) as [st' E].
    rewrite E. reflexivity.
  - destruct e as [t v val| |]; cbn in H; try contradiction.
    destruct ps as [|p ps]; try contradiction. destruct H as [(Ht & Hg & Hpr & Hlen & H16 & Hsq & Hb) H2].
    destruct fuel as [|[|fuel]]; [cbn in F; lia | cbn in F; lia |].
    cbn [canon_encode canon_elem] in T. rewrite <- app_assoc in T.
    change (ps35_len val) with (blen val) in T.
    cbn [read_tokens].
    destruct (next_header (length (r_src st)) c d st t v val (canon_encode c es) T Ht Hg Hlen H16 Hsq) as (st1 & E1 & M1).
    rewrite E1.
    destruct (next_value (length (r_src st1)) c d st1 t (read_vr c d t v) val (canon_encode c es) p M1 Hpr Hlen Hb) as (st2 & E2 & T2).
    rewrite E2.
    rewrite (IH ps st2 fuel H2 T2) by (cbn in F; lia). reflexivity.
Qed.

(** * Building the object from the flat token stream *)
Fixpoint back_elems (c : codec) (d : dict_t) (es : list celem) (ps : list prim) : list elem :=
  match es, ps with
  | CPrim t v val :: r, p :: ps' => EPrim t (read_vr c d t v) (blen val) p :: back_elems c d r ps'
  | _, _ => []
  end.

Definition tag_lt (a b : tag) : Prop := tag_ltb a b = true.

Lemma tag_ltb_irrefl_eq a b : tag_ltb a b = true -> tag_eqb b a = false /\ tag_ltb b a = false.
Proof.
  unfold tag_ltb, tag_eqb. destruct a as [a1 a2], b as [b1 b2]. cbn [fst snd]. intros H.
  destruct (N.ltb_spec a1 b1); destruct (N.eqb_spec a1 b1); destruct (N.ltb_spec a2 b2); cbn in H; try discriminate;
    destruct (N.eqb_spec b1 a1); destruct (N.eqb_spec b2 a2); destruct (N.ltb_spec b1 a1); destruct (N.ltb_spec b2 a2);
    cbn; split; try reflexivity; lia.
Qed.

Lemma insert_at_end e l :
  Forall (fun x => tag_lt (elem_tag x) (elem_tag e)) l -> insert_elem e l = l ++ [e].
Proof.
  induction 1 as [|x l Hx Hl IH]; [reflexivity|].
  cbn [insert_elem app]. destruct (tag_ltb_irrefl_eq _ _ Hx) as [E1 E2].
  assert (E1' : tag_eqb (elem_tag x) (elem_tag e) = false).
  { unfold tag_eqb in *. rewrite (N.eqb_sym (fst (elem_tag x))), (N.eqb_sym (snd (elem_tag x))). exact E1. }
  rewrite E1', E2, IH. reflexivity.
Qed.

Definition ctag (e : celem) : tag := match e with CPrim t _ _ => t | CSeq t _ _ => t | CPix _ _ => (32736, 16) end.

Lemma back_elems_tags c d es ps t0 : rflat_ok c d es ps ->
  Forall (fun e => tag_lt t0 (ctag e)) es -> Forall (fun x => tag_lt t0 (elem_tag x)) (back_elems c d es ps).
Proof.
  revert ps. induction es as [|e es IH]; intros ps H F; [constructor|].
  destruct e as [t v val| |]; cbn in H; try contradiction. destruct ps as [|p ps]; try contradiction.
  inversion F; subst. cbn [back_elems]. constructor; [assumption|]. apply IH; tauto.
Qed.

Lemma build_flat c d es : forall ps acc fuel,
  rflat_ok c d es ps -> (length es < fuel)%nat ->
  StronglySorted tag_lt (map ctag es) ->
  Forall (fun x => Forall (fun e => tag_lt (elem_tag x) (ctag e)) es) acc ->
  build_obj fuel false (rflat_tokens c d es ps) None acc = Ok (acc ++ back_elems c d es ps, []).
Proof.
  induction es as [|e es IH]; intros ps acc fuel H F S A.
  - destruct ps; cbn in H; try contradiction. destruct fuel; [lia|]. cbn. rewrite List.app_nil_r. reflexivity.
  - destruct e as [t v val| |]; cbn in H; try contradiction. destruct ps as [|p ps]; try contradiction.
    destruct H as [_ H2]. destruct fuel as [|fuel]; [cbn in F; lia|].
    cbn [rflat_tokens build_obj back_elems].
    inversion S as [|? ? S1 S2]; subst.
    rewrite insert_at_end.
    + rewrite IH; [rewrite <- app_assoc; reflexivity | exact H2 | cbn in F; lia | exact S1 |].
      apply Forall_app. split.
      * eapply Forall_impl; [|exact A]. intros x Hx. inversion Hx; assumption.
      * constructor; [|constructor]. cbn [elem_tag]. rewrite Forall_map in S2. exact S2.
    + eapply Forall_impl; [|exact A]. intros x Hx. inversion Hx; assumption.
Qed.

Lemma canon_flat_length8 c es :
  (forall e, In e es -> exists t v val, e = CPrim t v val) -> (8 * length es <= length (canon_encode c es))%nat.
Proof.
  induction es as [|e es IH]; intros H; [cbn; lia|].
  destruct (H e (or_introl eq_refl)) as (t & v & val & ->).
  cbn [canon_encode canon_elem length]. rewrite !app_length.
  specialize (IH (fun e' He' => H e' (or_intror He'))).
  destruct (ps35_header_starts c t v (ps35_len val)) as [tail [E L]]. rewrite E, app_length, ps35_u16_length. lia.
Qed.

Lemma rflat_all_prim c d es ps : rflat_ok c d es ps -> forall e, In e es -> exists t v val, e = CPrim t v val.
Proof.
  revert ps. induction es as [|e es IH]; intros ps H x Hx; [contradiction|].
  destruct e as [t v val| |]; cbn in H; try contradiction. destruct ps as [|p ps]; try contradiction.
  destruct Hx as [<-|Hx]; [eauto | apply (IH ps (proj2 H) x Hx)].
Qed.

Lemma rflat_tokens_length c d es ps : rflat_ok c d es ps -> length (rflat_tokens c d es ps) = (2 * length es)%nat.
Proof.
  revert ps. induction es as [|e es IH]; intros ps H.
  - destruct ps; [reflexivity|contradiction].
  - destruct e as [t v val| |]; cbn in H; try contradiction. destruct ps as [|p ps]; try contradiction.
    cbn [rflat_tokens length]. rewrite (IH ps (proj2 H)). lia.
Qed.

(** R (flat): reading a canonical flat stream with ascending tags yields exactly its elements. *)
Lemma read_dataset_flat c d es ps :
  rflat_ok c d es ps -> StronglySorted tag_lt (map ctag es) ->
  read_dataset c d (canon_encode c es) = Ok (back_elems c d es ps).
Proof.
  intros H S. unfold read_dataset.
  pose proof (canon_flat_length8 c es (rflat_all_prim c d es ps H)) as L8.
  rewrite (read_tokens_flat c d es ps (r_init (canon_encode c es)) _ H).
  - rewrite (build_flat c d es ps [] _ H); [reflexivity | rewrite rflat_tokens_length by exact H; lia | exact S | constructor].
  - unfold top_state, r_init. cbn. repeat split; reflexivity.
  - lia.
Qed.
