(** Lemmas about Model/CommandLen.v (C31). *)
From DicomV Require Import Base.Prelude Base.Endian Model.CommandLen.
From Coq Require Import ZifyBool ZifyNat ZifyN Sorting.Permutation.
Ltac Zify.zify_post_hook ::= Z.div_mod_to_equations.

(** * Arithmetic of the padding *)
Lemma clear_bit0_even n : N.odd n = false -> clear_bit0 n = n.
Proof.
  unfold clear_bit0. intros H. rewrite <- N.negb_even in H.
  apply negb_false_iff in H. apply N.even_spec in H. destruct H as [k ->]. lia.
Qed.
Lemma clear_bit0_odd n : N.odd n = true -> clear_bit0 n = n - 1.
Proof.
  unfold clear_bit0. intros H. apply N.odd_spec in H. destruct H as [k ->]. lia.
Qed.
Lemma even_len_even n : N.odd n = false -> even_len n = n.
Proof.
  intros H. unfold even_len. rewrite clear_bit0_odd.
  - lia.
  - rewrite N.add_1_r, N.odd_succ. rewrite <- N.negb_odd, H. reflexivity.
Qed.
Lemma even_len_odd n : N.odd n = true -> even_len n = n + 1.
Proof.
  intros H. unfold even_len. apply clear_bit0_even.
  rewrite N.add_1_r, N.odd_succ. rewrite <- N.negb_odd, H. reflexivity.
Qed.
Lemma clear_bit0_is_even n : N.odd (clear_bit0 n) = false.
Proof. unfold clear_bit0. rewrite N.odd_mul. reflexivity. Qed.
Lemma even_len_is_even n : N.odd (even_len n) = false.
Proof. apply clear_bit0_is_even. Qed.

Lemma lenN_app {A} (a b : list A) : lenN (a ++ b) = lenN a + lenN b.
Proof. unfold lenN. rewrite app_length. lia. Qed.
Lemma lenN_cons {A} (x : A) l : lenN (x :: l) = lenN l + 1.
Proof. unfold lenN. cbn [length]. lia. Qed.

Lemma pad_even_len pad b : lenN (pad_even pad b) = even_len (lenN b).
Proof.
  unfold pad_even. destruct (N.odd (lenN b)) eqn:H.
  - rewrite lenN_app, even_len_odd by exact H. reflexivity.
  - rewrite even_len_even by exact H. reflexivity.
Qed.

(** * Length of the written value = the length calculate_byte_len announces *)
Lemma join_bs_len l : l <> [] -> lenN (join_bs l) + 1 = strs_sum l.
Proof.
  induction l as [|s r IH]; [congruence|]. intros _.
  destruct r as [|s2 r'].
  - cbn. lia.
  - change (join_bs (s :: s2 :: r')) with (s ++ 92 :: join_bs (s2 :: r')).
    change (strs_sum (s :: s2 :: r')) with (lenN s + 1 + strs_sum (s2 :: r')).
    rewrite lenN_app, lenN_cons. rewrite <- IH by congruence. lia.
Qed.

Lemma concat_fixed_len {A} (f : A -> bytes) k (l : list A) :
  (forall x, lenN (f x) = k) -> lenN (concat (map f l)) = lenN l * k.
Proof.
  intros H. induction l as [|x l IH]; cbn [map concat].
  - reflexivity.
  - rewrite lenN_app, IH, H, lenN_cons. lia.
Qed.

Lemma value_bytes_len vr v : lenN (value_bytes vr v) = even_len (calc_byte_len v).
Proof.
  destruct v as [|s|l|k vals|l]; cbn [value_bytes calc_byte_len].
  - reflexivity.
  - apply pad_even_len.
  - rewrite pad_even_len. destruct l as [|s r].
    + reflexivity.
    + pose proof (join_bs_len (s :: r) ltac:(congruence)) as H.
      rewrite (even_len_even (clear_bit0 _)) by apply clear_bit0_is_even.
      destruct (N.odd (lenN (join_bs (s :: r)))) eqn:Ho.
      * rewrite even_len_odd by exact Ho. rewrite clear_bit0_even; [lia|].
        rewrite <- H, N.add_1_r, N.odd_succ, <- N.negb_odd, Ho. reflexivity.
      * rewrite even_len_even by exact Ho. rewrite clear_bit0_odd; [lia|].
        rewrite <- H, N.add_1_r, N.odd_succ, <- N.negb_odd, Ho. reflexivity.
  - rewrite pad_even_len. f_equal. apply concat_fixed_len.
    intros x. unfold lenN. rewrite le_bytes_length. lia.
  - rewrite (concat_fixed_len _ 4).
    + rewrite even_len_even; [reflexivity|]. rewrite N.odd_mul. cbn. apply andb_false_r.
    + intros [g e]. rewrite lenN_app. unfold lenN, le16. rewrite !le_bytes_length. reflexivity.
Qed.

Lemma write_elem_len x : lenN (write_elem x) = 8 + even_len (calc_byte_len (e_val x)).
Proof.
  unfold write_elem, ile_header. rewrite !lenN_app, value_bytes_len.
  unfold lenN, le16, le32. rewrite !le_bytes_length. lia.
Qed.

Lemma elem_cost_written x :
  calc_byte_len (e_val x) < 4294967295 -> elem_cost x = lenN (write_elem x).
Proof.
  intros H. rewrite write_elem_len. unfold elem_cost, value_length.
  change (2 ^ 32) with 4294967296. rewrite N.mod_small by lia.
  destruct (N.eqb_spec (calc_byte_len (e_val x)) 4294967295); lia.
Qed.

Lemma write_ile_len m : lenN (write_ile m) = sumN (map (fun x => lenN (write_elem x)) m).
Proof.
  unfold write_ile. induction m as [|x m IH]; cbn [map concat sumN fold_right].
  - reflexivity.
  - rewrite lenN_app. unfold sumN in IH. rewrite IH. reflexivity.
Qed.

Lemma modelled_fits x : modelled x = true -> calc_byte_len (e_val x) < 4294967295.
Proof. unfold modelled. intros H. rewrite !andb_true_iff in H. lia. Qed.
Lemma modelled_wf x : modelled x = true -> e_group x < 65536 /\ e_elem x < 65536.
Proof. unfold modelled. intros H. rewrite !andb_true_iff in H. lia. Qed.

Lemma cost_sum_written m :
  Forall (fun x => modelled x = true) m ->
  sumN (map elem_cost m) = lenN (write_ile m).
Proof.
  intros H. rewrite write_ile_len. induction H as [|x m Hx _ IH]; cbn [map sumN fold_right].
  - reflexivity.
  - unfold sumN in IH. rewrite IH, elem_cost_written by (apply modelled_fits; exact Hx). reflexivity.
Qed.

(** * The map *)
Lemma in_insert x y m : In y (insert x m) -> y = x \/ In y m.
Proof.
  induction m as [|z r IH]; cbn [insert].
  - intros [<-|[]]. now left.
  - destruct (tagkey x <? tagkey z).
    + intros [<-|H]; [now left | now right].
    + destruct (tagkey x =? tagkey z).
      * intros [<-|H]; [now left | right; now right].
      * intros [<-|H]; [right; now left|]. destruct (IH H); [now left | right; now right].
Qed.

Lemma in_collect_gen es : forall m y, In y (fold_left (fun m e => insert e m) es m) -> In y es \/ In y m.
Proof.
  induction es as [|e es IH]; cbn [fold_left]; intros m y H.
  - now right.
  - destruct (IH _ _ H) as [H1|H1]; [left; now right|].
    destruct (in_insert _ _ _ H1) as [->|H2]; [left; now left | now right].
Qed.
Lemma in_collect es y : In y (collect es) -> In y es.
Proof. intros H. destruct (in_collect_gen es [] y H) as [H1|[]]. exact H1. Qed.

Lemma collect_modelled es :
  forallb modelled es = true -> Forall (fun x => modelled x = true) (collect es).
Proof.
  intros H. rewrite forallb_forall in H. apply Forall_forall. intros y Hy. apply H, in_collect, Hy.
Qed.

(** Strictly increasing keys. *)
Inductive sorted : list elem -> Prop :=
| sorted_nil : sorted []
| sorted_cons x m : Forall (fun y => tagkey x < tagkey y) m -> sorted m -> sorted (x :: m).

Lemma insert_lower x k m :
  k < tagkey x -> Forall (fun y => k < tagkey y) m -> Forall (fun y => k < tagkey y) (insert x m).
Proof.
  intros Hx H. apply Forall_forall. intros y Hy. destruct (in_insert _ _ _ Hy) as [->|Hi]; [exact Hx|].
  rewrite Forall_forall in H. apply H, Hi.
Qed.

Lemma insert_sorted x m : sorted m -> sorted (insert x m).
Proof.
  induction 1 as [|z r Hz Hs IH]; cbn [insert].
  - constructor; constructor.
  - destruct (N.ltb_spec (tagkey x) (tagkey z)).
    + constructor; [|constructor; assumption]. constructor; [assumption|].
      eapply Forall_impl; [|exact Hz]. cbn. intros; lia.
    + destruct (N.eqb_spec (tagkey x) (tagkey z)) as [E|E].
      * constructor; [|assumption]. rewrite E. exact Hz.
      * constructor; [|assumption]. apply insert_lower; [lia|exact Hz].
Qed.

Lemma collect_sorted_gen es : forall m, sorted m -> sorted (fold_left (fun m e => insert e m) es m).
Proof. induction es as [|e es IH]; cbn [fold_left]; intros m H; [exact H|]. apply IH, insert_sorted, H. Qed.
Lemma collect_sorted es : sorted (collect es).
Proof. apply collect_sorted_gen. constructor. Qed.

(** Inserting the group length element: it becomes the head, the command
    elements are unchanged. *)
Lemma tagkey0 y : tagkey y = 0 -> is_cmd y = false.
Proof.
  unfold tagkey, is_cmd. intros H. assert (e_group y = 0 /\ e_elem y = 0) as [-> ->] by lia. reflexivity.
Qed.

Lemma insert_gl gl m :
  exists r, insert (gl_elem gl) m = gl_elem gl :: r /\ filter is_cmd r = filter is_cmd m
            /\ (forall y, In y r -> In y m).
Proof.
  destruct m as [|y r]; cbn [insert].
  - exists []. repeat split; auto.
  - change (tagkey (gl_elem gl)) with 0.
    destruct (N.ltb_spec 0 (tagkey y)).
    + exists (y :: r). repeat split; auto.
    + destruct (N.eqb_spec 0 (tagkey y)) as [E|E]; [|lia].
      exists r. split; [reflexivity|]. split; [|intros; now right].
      cbn [filter]. rewrite tagkey0 by lia. reflexivity.
Qed.

(** * Main lemmas *)
Lemma group_length_correct es m :
  forallb modelled es = true ->
  command_from_iter es = Ok m ->
  exists gl, get 0 0 m = Some (gl_elem gl) /\ gl = lenN (write_ile (filter is_cmd m)) /\ gl < 2 ^ 32.
Proof.
  unfold command_from_iter, group_length. intros Hm H.
  destruct (N.ltb_spec (sumN (map elem_cost (filter is_cmd (collect es)))) (2 ^ 32)) as [Hlt|]; [|discriminate].
  cbn [bind] in H. injection H as <-.
  destruct (insert_gl (sumN (map elem_cost (filter is_cmd (collect es)))) (collect es)) as (r & -> & Hf & _).
  eexists. split; [reflexivity|]. split; [|exact Hlt].
  cbn [filter]. change (is_cmd (gl_elem _)) with false. cbv iota. rewrite Hf.
  apply cost_sum_written.
  pose proof (collect_modelled es Hm) as HF. rewrite Forall_forall in *.
  intros x Hx. apply filter_In in Hx. apply HF, Hx.
Qed.

(** Without overflow the construction succeeds. *)
Lemma command_from_iter_ok es :
  sumN (map elem_cost (filter is_cmd (collect es))) < 2 ^ 32 ->
  exists m, command_from_iter es = Ok m.
Proof.
  intros H. unfold command_from_iter, group_length.
  destruct (N.ltb_spec (sumN (map elem_cost (filter is_cmd (collect es)))) (2 ^ 32)); [|lia].
  eexists. reflexivity.
Qed.

(** Sorted list: the elements below a key bound come first. *)
Lemma sorted_split c m :
  sorted m -> m = filter (fun x => tagkey x <? c) m ++ filter (fun x => negb (tagkey x <? c)) m.
Proof.
  induction 1 as [|x m Hx Hs IH]; [reflexivity|]. cbn [filter].
  destruct (N.ltb_spec (tagkey x) c) as [Hl|Hl]; cbn [negb app].
  - f_equal. exact IH.
  - assert (filter (fun x => tagkey x <? c) m = []) as ->.
    { clear IH Hs. induction Hx as [|y m Hy _ IH]; [reflexivity|]. cbn [filter].
      destruct (N.ltb_spec (tagkey y) c); [lia|exact IH]. }
    cbn [app]. f_equal.
    clear IH Hs. induction Hx as [|y m Hy _ IH]; [reflexivity|]. cbn [filter].
    destruct (N.ltb_spec (tagkey y) c); [lia|]. cbn [negb]. f_equal. exact IH.
Qed.

Lemma filter_ext_in' {A} (f g : A -> bool) l : (forall x, In x l -> f x = g x) -> filter f l = filter g l.
Proof.
  induction l as [|x l IH]; intros H; [reflexivity|]. cbn [filter].
  rewrite (H x (or_introl eq_refl)), IH; [reflexivity|]. intros; apply H; now right.
Qed.

Definition other_group (x : elem) : bool := negb (e_group x =? 0).

(** The written command set: the 12 bytes of (0000,0000) UL, then exactly
    [gl] bytes holding the command elements, then whatever is not in group 0. *)
Lemma written_layout es m :
  forallb modelled es = true ->
  command_from_iter es = Ok m ->
  exists gl, gl < 2 ^ 32 /\
    write_ile m = (le16 0 ++ le16 0 ++ le32 4 ++ le32 gl)
                  ++ write_ile (filter is_cmd m) ++ write_ile (filter other_group m)
    /\ lenN (write_ile (filter is_cmd m)) = gl.
Proof.
  intros Hm H. destruct (group_length_correct es m Hm H) as (gl & Hget & Hgl & Hlt).
  exists gl. split; [exact Hlt|]. split; [|symmetry; exact Hgl]. clear Hgl.
  unfold command_from_iter, group_length in H.
  destruct (N.ltb_spec (sumN (map elem_cost (filter is_cmd (collect es)))) (2 ^ 32)) as [Hlt'|]; [|discriminate].
  cbn [bind] in H. injection H as <-.
  pose proof (insert_sorted (gl_elem (sumN (map elem_cost (filter is_cmd (collect es))))) _ (collect_sorted es)) as Hs.
  destruct (insert_gl (sumN (map elem_cost (filter is_cmd (collect es)))) (collect es)) as (r & Hr & Hf & Hin).
  rewrite Hr in *. inversion Hs as [|x0 r0 Hlow Hsr]; subst.
  unfold get in Hget. cbn [find] in Hget. change (tagkey (gl_elem _)) with 0 in Hget. cbn in Hget.
  injection Hget as Hget.
  cbn [filter]. change (is_cmd (gl_elem _)) with false. change (other_group (gl_elem _)) with false. cbv iota.
  unfold write_ile at 1. cbn [map concat]. fold (write_ile r).
  assert (Hw : write_elem (gl_elem (sumN (map elem_cost (filter is_cmd (collect es))))) = le16 0 ++ le16 0 ++ le32 4 ++ le32 gl).
  { rewrite Hget. unfold write_elem, ile_header, gl_elem. cbn [e_group e_elem e_vr e_val value_bytes map concat].
    rewrite app_nil_r. unfold pad_even. unfold lenN. rewrite le_bytes_length. cbn [N.odd N.of_nat Pos.of_succ_nat Pos.succ N.to_nat Pos.to_nat Pos.iter_op Nat.add].
    change (even_len 4 mod 2 ^ 32) with 4. rewrite <- !app_assoc. reflexivity. }
  rewrite Hw. f_equal.
  (* the rest splits into group 0 and the other groups *)
  pose proof (collect_modelled es Hm) as HF. rewrite Forall_forall in HF.
  assert (Hwf : forall y, In y r -> e_group y < 65536 /\ e_elem y < 65536 /\ 0 < tagkey y).
  { intros y Hy. destruct (modelled_wf y (HF y (Hin y Hy))). rewrite Forall_forall in Hlow.
    specialize (Hlow y Hy). change (tagkey (gl_elem _)) with 0 in Hlow. auto. }
  rewrite (sorted_split 65536 r Hsr) at 1. unfold write_ile. rewrite map_app, concat_app. f_equal; f_equal; f_equal.
  - apply filter_ext_in'. intros y Hy. destruct (Hwf y Hy) as (Hg & He & Hk). unfold is_cmd, tagkey in *.
    destruct (N.ltb_spec (e_group y * 65536 + e_elem y) 65536), (N.eqb_spec (e_group y) 0), (N.eqb_spec (e_elem y) 0); cbn; try reflexivity; lia.
  - apply filter_ext_in'. intros y Hy. destruct (Hwf y Hy) as (Hg & He & Hk). unfold other_group, tagkey in *.
    destruct (N.ltb_spec (e_group y * 65536 + e_elem y) 65536), (N.eqb_spec (e_group y) 0); cbn; try reflexivity; lia.
Qed.

(** * The computation before the fix *)
Lemma insert_perm x m :
  ~ In (tagkey x) (map tagkey m) -> Permutation (x :: m) (insert x m).
Proof.
  induction m as [|y r IH]; intros Hn; cbn [insert]; [reflexivity|].
  destruct (tagkey x <? tagkey y); [reflexivity|].
  destruct (N.eqb_spec (tagkey x) (tagkey y)) as [E|E].
  - exfalso. apply Hn. left. symmetry. exact E.
  - rewrite perm_swap. constructor. apply IH. intros Hi. apply Hn. now right.
Qed.

Lemma collect_perm_gen es : forall m,
  NoDup (map tagkey (es ++ m)) -> Permutation (rev es ++ m) (fold_left (fun m e => insert e m) es m).
Proof.
  induction es as [|e es IH]; intros m Hnd; cbn [fold_left rev]; [reflexivity|].
  change ((e :: es) ++ m) with (e :: es ++ m) in Hnd. cbn [map] in Hnd.
  inversion Hnd as [|k l Hni Hnd']; subst. rewrite map_app in Hni, Hnd'.
  assert (Hpi : Permutation (e :: m) (insert e m)).
  { apply insert_perm. intros Hi. apply Hni. rewrite in_app_iff. now right. }
  transitivity (rev es ++ insert e m).
  - rewrite <- app_assoc. apply (Permutation_app_head (rev es) Hpi).
  - apply IH. rewrite map_app.
    eapply Permutation_NoDup; [|exact Hnd]. rewrite map_app.
    etransitivity; [apply Permutation_middle|].
    apply Permutation_app_head.
    change (tagkey e :: map tagkey m) with (map tagkey (e :: m)).
    apply Permutation_map. exact Hpi.
Qed.

Lemma sumN_perm l l' : Permutation l l' -> sumN l = sumN l'.
Proof. induction 1; cbn [sumN fold_right] in *; unfold sumN in *; lia. Qed.

Lemma filter_perm {A} (f : A -> bool) l l' : Permutation l l' -> Permutation (filter f l) (filter f l').
Proof.
  induction 1; cbn [filter]; try reflexivity.
  - destruct (f x); [constructor|]; assumption.
  - destruct (f x), (f y); try reflexivity. apply perm_swap.
  - etransitivity; eassumption.
Qed.

(** With distinct tags the old count and the new count agree ... *)
Lemma old_count_nodup es :
  NoDup (map tagkey es) ->
  group_length_iter_old es = sumN (map elem_cost (filter is_cmd (collect es))).
Proof.
  intros H. unfold group_length_iter_old. apply sumN_perm, Permutation_map, filter_perm.
  unfold collect. rewrite <- collect_perm_gen by (rewrite app_nil_r; exact H).
  rewrite app_nil_r. apply Permutation_rev.
Qed.
