(** Lemmas about Model/Fragments.v and Model/Encaps.v (C18). *)
From DicomV Require Import Base.Prelude Spec.Encapsulation Model.Fragments Model.Encaps.
From Coq Require Import ZifyBool ZifyNat ZifyN.
Ltac Zify.zify_post_hook ::= Z.div_mod_to_equations.

(** * 1. Fragments::new *)
(* the effective fragment size: the frame length when 0 is given, rounded up to even *)
Definition eff_size (data : bytes) (fs : N) : N :=
  let fs0 := if fs =? 0 then len data else fs in fs0 + fs0 mod 2.

Lemma chunks_exact_spec n : (0 < n)%nat -> forall m fuel d,
  length d = (m * n)%nat -> (m <= fuel)%nat ->
  concat (chunks_exact fuel n d) = d /\
  Forall (fun c => length c = n) (chunks_exact fuel n d) /\
  length (chunks_exact fuel n d) = m.
Proof.
  intros Hn. induction m as [|m IH]; intros fuel d Hd Hf.
  - destruct d; [|discriminate]. destruct fuel; cbn; [auto|].
    destruct (n <=? 0)%nat eqn:E; [lia|]. auto.
  - destruct fuel as [|fuel]; [lia|]. cbn [chunks_exact].
    destruct (n <=? length d)%nat eqn:E; [|lia].
    destruct (IH fuel (skipn n d)) as (H1 & H2 & H3); [rewrite skipn_length; lia|lia|].
    cbn [concat length]. rewrite H1, H3, firstn_skipn. repeat split.
    constructor; [rewrite firstn_length; lia|exact H2].
Qed.

Definition small_frag (f : bytes) : Prop := len f < 2 ^ 32.

Lemma chunks_exact_lengths n fuel d : Forall (fun c => length c = n) (chunks_exact fuel n d).
Proof.
  revert d; induction fuel as [|fuel IH]; intros d; cbn [chunks_exact]; [constructor|].
  destruct (n <=? length d)%nat eqn:E; [|constructor].
  constructor; [rewrite firstn_length; lia|apply IH].
Qed.

(** evenness needs no hypothesis on the data at all *)
Lemma split_with_even data e frags :
  e mod 2 = 0 -> split_with data e = Ok frags -> Forall even_frag frags.
Proof.
  intros He. unfold split_with. destruct (e =? 0); [discriminate|].
  destruct (2 ^ 32 <=? _); [discriminate|]. intros H; injection H as <-.
  eapply Forall_impl; [|apply chunks_exact_lengths]. intros c Hc. unfold even_frag, len. cbn beta in Hc. lia.
Qed.

Lemma split_with_spec data e frags :
  len data < 2 ^ 32 -> split_with data e = Ok frags ->
  0 < e /\
  Forall (fun f => len f = e) frags /\ Forall small_frag frags /\
  N.of_nat (length frags) = div_ceil (len data) e /\
  exists k, concat frags = data ++ repeat 0 k /\ N.of_nat k < e.
Proof.
  intros Hl. unfold split_with, u32.
  destruct (e =? 0) eqn:Ez; [discriminate|].
  assert (Hq : div_ceil (len data) e < 2 ^ 32) by (unfold div_ceil; nia).
  rewrite (N.mod_small _ _ Hq).
  destruct (2 ^ 32 <=? e * div_ceil (len data) e) eqn:Eo; [discriminate|].
  intros H. injection H as <-.
  assert (Hge : len data <= e * div_ceil (len data) e /\ e * div_ceil (len data) e < len data + e)
    by (unfold div_ceil; nia).
  set (enc := e * div_ceil (len data) e) in *.
  set (data' := if len data <? enc then data ++ repeat 0 (N.to_nat (enc - len data)) else data).
  assert (Hd' : data' = data ++ repeat 0 (N.to_nat (enc - len data))).
  { unfold data'. destruct (len data <? enc) eqn:E; [reflexivity|].
    replace (enc - len data) with 0 by lia. cbn. now rewrite app_nil_r. }
  assert (Hlen : length data' = (N.to_nat (div_ceil (len data) e) * N.to_nat e)%nat).
  { rewrite Hd', app_length, repeat_length. clear - Hge. unfold enc in *. unfold len in *. lia. }
  destruct (chunks_exact_spec (N.to_nat e) ltac:(lia) _ (length data') data' Hlen) as (H1 & H2 & H3).
  { rewrite Hlen. clear - Ez. nia. }
  assert (Hall : Forall (fun f => len f = e) (chunks_exact (length data') (N.to_nat e) data')).
  { eapply Forall_impl; [|exact H2]. intros c Hc; cbn beta in *. unfold len. lia. }
  split; [lia|]. split; [exact Hall|]. split; [|split].
  - destruct (chunks_exact (length data') (N.to_nat e) data') as [|c cs] eqn:Ec; [constructor|].
    eapply Forall_impl; [|exact Hall]. intros f Hf. unfold small_frag. cbn beta in Hf.
    cbn [length] in H3. clear - Hf H3 Eo. unfold enc in *. nia.
  - rewrite H3. lia.
  - exists (N.to_nat (enc - len data)). rewrite H1, Hd'. split; [reflexivity|lia].
Qed.

Lemma fragments_new_split data fs frags :
  len data < 2 ^ 32 -> fragments_new data fs = Ok frags ->
  eff_size data fs mod 2 = 0 /\ split_with data (eff_size data fs) = Ok frags.
Proof.
  intros Hl. unfold fragments_new, eff_size, u32. rewrite (N.mod_small _ _ Hl).
  set (fs0 := if fs =? 0 then len data else fs).
  destruct (fs0 mod 2 =? 0) eqn:E0; cbn [bind].
  - replace (fs0 + fs0 mod 2) with fs0 by lia. intros H; split; [lia|exact H].
  - destruct (fs0 + 1 <? 2 ^ 32); [|discriminate]. cbn [bind].
    replace (fs0 + fs0 mod 2) with (fs0 + 1) by lia. intros H; split; [lia|exact H].
Qed.

Lemma fragments_new_even data fs frags :
  fragments_new data fs = Ok frags -> Forall even_frag frags.
Proof.
  unfold fragments_new, u32.
  set (fs0 := if fs =? 0 then len data mod 2 ^ 32 else fs).
  destruct (fs0 mod 2 =? 0) eqn:E0; cbn [bind].
  - apply split_with_even. lia.
  - destruct (fs0 + 1 <? 2 ^ 32); [|discriminate]. cbn [bind]. apply split_with_even. lia.
Qed.

Lemma fragments_new_spec data fs frags :
  len data < 2 ^ 32 -> fragments_new data fs = Ok frags ->
  let e := eff_size data fs in
  0 < e /\ e mod 2 = 0 /\
  Forall (fun f => len f = e) frags /\ Forall small_frag frags /\
  N.of_nat (length frags) = div_ceil (len data) e /\
  exists k, concat frags = data ++ repeat 0 k /\ N.of_nat k < e.
Proof.
  intros Hl H. destruct (fragments_new_split _ _ _ Hl H) as [He Hs].
  destruct (split_with_spec _ _ _ Hl Hs) as (H1 & H2 & H3 & H4 & H5). cbn zeta. auto 10.
Qed.

(** * 2. From<Vec<Fragments>> *)
Lemma wire_len_even f : even_frag f -> wire_len f = len f.
Proof. unfold even_frag, wire_len. lia. Qed.

Lemma frags_len_spec frags : forall acc off,
  Forall even_frag frags -> Forall small_frag frags ->
  frags_len acc frags = Ok off -> off = acc + frame_bytes frags.
Proof.
  induction frags as [|f rest IH]; intros acc off He Hs; cbn [frags_len].
  - intros H; injection H as <-. unfold frame_bytes. cbn. lia.
  - inversion He as [|? ? He1 He2]; inversion Hs as [|? ? Hs1 Hs2]; subst.
    unfold u32. rewrite (N.mod_small _ _ Hs1).
    destruct (2 ^ 32 <=? acc + len f); [discriminate|].
    destruct (2 ^ 32 <=? acc + len f + 8); [discriminate|].
    intros H. apply IH in H; [|assumption..].
    unfold frame_bytes in *. cbn [map sumN fold_right]. unfold item_size at 1.
    rewrite wire_len_even by exact He1. fold (sumN (map item_size rest)). lia.
Qed.

Lemma bot_spec_length s frames : length (bot_spec s frames) = length frames.
Proof. revert s; induction frames as [|f r IH]; intros s; cbn; [reflexivity|]. now rewrite IH. Qed.

Lemma from_loop_spec multi frames : forall cur bot acc b f,
  Forall (Forall even_frag) frames -> Forall (Forall small_frag) frames ->
  from_loop multi frames cur bot acc = Ok (b, f) ->
  b = rev bot ++ tl (bot_spec cur frames) /\ f = acc ++ concat frames.
Proof.
  induction frames as [|fr rest IH]; intros cur bot acc b f He Hs; cbn [from_loop].
  - intros H; injection H as <- <-. cbn. now rewrite !app_nil_r.
  - inversion He as [|? ? He1 He2]; inversion Hs as [|? ? Hs1 Hs2]; subst.
    destruct ((1 <? length fr)%nat && multi); [discriminate|].
    destruct rest as [|fr2 rest].
    + intros H. apply IH in H; [|assumption..]. destruct H as [-> ->].
      cbn. rewrite !app_nil_r. auto.
    + destruct (frags_len 0 fr) as [off| |] eqn:El; cbn [bind]; [|discriminate..].
      apply frags_len_spec in El; [|assumption..]. rewrite N.add_0_l in El. subst off.
      destruct (2 ^ 32 <=? cur + frame_bytes fr); [discriminate|].
      intros H. apply IH in H; [|assumption..]. destruct H as [-> ->].
      cbn [rev bot_spec tl concat]. rewrite <- !app_assoc. cbn [app]. auto.
Qed.

Lemma from_frames_spec frames b f :
  frames <> [] ->
  Forall (Forall even_frag) frames -> Forall (Forall small_frag) frames ->
  from_frames frames = Ok (b, f) ->
  b = bot_spec 0 frames /\ f = concat frames.
Proof.
  intros Hne He Hs. destruct frames as [|fr rest]; [congruence|].
  unfold from_frames. intros H. apply from_loop_spec in H; [|assumption..].
  destruct H as [-> ->]. cbn [rev app bot_spec tl]. auto.
Qed.

(** * 3. the helper functions end to end *)
Lemma all_ok_spec {A} (l : list (outcome A)) r :
  all_ok l = Ok r -> Forall2 (fun o a => o = Ok a) l r.
Proof.
  revert r; induction l as [|x l IH]; intros r; cbn [all_ok].
  - intros H; injection H as <-. constructor.
  - destruct x as [a| |]; cbn [bind]; [|discriminate..].
    destruct (all_ok l) as [b| |]; cbn [bind]; [|discriminate..].
    intros H; injection H as <-. constructor; [reflexivity|apply IH; reflexivity].
Qed.

Lemma helper_spec frames bot frags :
  frames <> [] -> Forall (fun df => len (fst df) < 2 ^ 32) frames ->
  helper frames = Ok (bot, frags) ->
  exists groups,
    Forall2 (fun df g => fragments_new (fst df) (snd df) = Ok g) frames groups /\
    bot = bot_spec 0 groups /\ frags = concat groups.
Proof.
  intros Hne Hl. unfold helper.
  destruct (all_ok (map (fun df => fragments_new (fst df) (snd df)) frames)) as [groups| |] eqn:Ea;
    cbn [bind]; [|discriminate..].
  apply all_ok_spec in Ea.
  assert (HF : Forall2 (fun df g => fragments_new (fst df) (snd df) = Ok g) frames groups).
  { clear -Ea. remember (map _ frames) as l eqn:El. revert frames El.
    induction Ea as [|o a l r Hoa _ IH]; intros frames El.
    - destruct frames; [constructor|discriminate].
    - destruct frames as [|df frames]; [discriminate|]. injection El as -> ->.
      constructor; [exact Hoa|apply IH; reflexivity]. }
  intros H. exists groups. split; [exact HF|].
  apply from_frames_spec; try exact H.
  - intros ->. inversion HF; subst. congruence.
  - clear -HF. induction HF as [|df g l r Hg _ IH]; constructor; [|exact IH].
    eapply fragments_new_even; exact Hg.
  - clear -HF Hl. induction HF as [|df g l r Hg _ IH]; constructor.
    + inversion Hl as [|? ? H1 H2]; subst.
      destruct (fragments_new_spec _ _ _ H1 Hg) as (_ & _ & _ & Hsm & _). exact Hsm.
    + inversion Hl; subst. apply IH. assumption.
Qed.

(** * 4. PixelDataWriter::encode (default) and the transcoder's bookkeeping *)
Definition singletons (frags : list bytes) : list (list bytes) := map (fun f => [f]) frags.

Lemma frame_bytes_single f : frame_bytes [f] = item_size f.
Proof. unfold frame_bytes. cbn. lia. Qed.

Lemma encode_loop_spec frags : forall offset bot b,
  Forall (fun f => len f + 1 < 2 ^ 32) frags ->
  encode_loop (map len frags) offset bot = Ok b ->
  b = rev bot ++ bot_spec offset (singletons frags).
Proof.
  induction frags as [|f rest IH]; intros offset bot b Hs; cbn [map encode_loop].
  - intros H; injection H as <-. cbn. now rewrite app_nil_r.
  - inversion Hs as [|? ? H1 H2]; subst.
    unfold u32. rewrite N.mod_small by lia.
    destruct (2 ^ 32 <=? offset + (8 + (len f + len f mod 2))); [discriminate|].
    intros H. apply IH in H; [|exact H2]. rewrite H.
    cbn [rev singletons map bot_spec]. rewrite <- app_assoc. cbn [app].
    rewrite frame_bytes_single. unfold item_size, wire_len. reflexivity.
Qed.

Lemma encode_bot_spec frags b :
  Forall (fun f => len f + 1 < 2 ^ 32) frags ->
  encode_bot (map len frags) = Ok b -> b = bot_spec 0 (singletons frags).
Proof. intros Hs H. apply encode_loop_spec in H; [exact H|exact Hs]. Qed.

Lemma singletons_length frags : length (singletons frags) = length frags.
Proof. apply map_length. Qed.

Lemma transcode_book_spec frags bot nf total :
  Forall (fun f => len f + 1 < 2 ^ 32) frags ->
  transcode_book (map len frags) = Ok (bot, nf, total) ->
  bot = bot_spec 0 (singletons frags) /\
  nf = N.of_nat (length frags) /\
  total = sumN (map len frags).
Proof.
  intros Hs. unfold transcode_book.
  destruct (encode_bot (map len frags)) as [b| |] eqn:E; cbn [bind]; [|discriminate..].
  intros H; injection H as <- <- <-. apply encode_bot_spec in E; [|exact Hs]. subst b.
  rewrite bot_spec_length, singletons_length. auto.
Qed.

Lemma sum_wire_even frags :
  Forall even_frag frags -> sumN (map len frags) = sumN (map wire_len frags).
Proof.
  induction 1 as [|f r Hf _ IH]; [reflexivity|]. cbn. rewrite wire_len_even by exact Hf.
  unfold sumN in IH. rewrite IH. reflexivity.
Qed.

Lemma bot_spec_hd s frames : frames <> [] -> hd 0 (bot_spec s frames) = s.
Proof. destruct frames; [congruence|reflexivity]. Qed.

(** * 5. frame extraction *)
Definition fsz (f : bytes) : N := len f + 8.
Definition gsz (g : list bytes) : N := sumN (map fsz g).

Lemma frame_bytes_even g : Forall even_frag g -> frame_bytes g = gsz g.
Proof.
  induction 1 as [|f r Hf _ IH]; [reflexivity|].
  unfold frame_bytes, gsz in *. cbn [map sumN fold_right]. unfold item_size at 1, fsz at 1.
  rewrite wire_len_even by exact Hf. unfold sumN in IH. rewrite IH. lia.
Qed.

Lemma sumN_cons x l : sumN (x :: l) = x + sumN l.
Proof. reflexivity. Qed.
Lemma sumN_app a b : sumN (a ++ b) = sumN a + sumN b.
Proof.
  induction a as [|x a IH]; [reflexivity|].
  cbn [app]. rewrite !sumN_cons, IH. lia.
Qed.
Lemma gsz_app a b : gsz (a ++ b) = gsz a + gsz b.
Proof. unfold gsz. rewrite map_app. apply sumN_app. Qed.

Lemma fpd_skip pre : forall rest off base next acc,
  off + gsz pre <= base ->
  (match next with Some nx => base < nx | None => True end) ->
  fpd_loop (pre ++ rest) off base next acc = fpd_loop rest (off + gsz pre) base next acc.
Proof.
  induction pre as [|x pre IH]; intros rest off base next acc H Hn.
  - cbn. unfold gsz. cbn. now rewrite N.add_0_r.
  - change (gsz (x :: pre)) with (fsz x + gsz pre) in *. unfold fsz in *.
    cbn [app fpd_loop].
    destruct (base <=? off) eqn:E; [lia|].
    destruct next as [nx|].
    + destruct (nx <=? off + len x + 8) eqn:E2; [lia|].
      rewrite IH by (try assumption; lia). f_equal. lia.
    + rewrite IH by (try assumption; lia). f_equal. lia.
Qed.

Lemma fpd_take_some g : forall rest off base nx acc,
  g <> [] -> base <= off -> off + gsz g = nx ->
  fpd_loop (g ++ rest) off base (Some nx) acc = acc ++ concat g.
Proof.
  induction g as [|x g IH]; intros rest off base nx acc Hne Hb Hs; [congruence|].
  change (gsz (x :: g)) with (fsz x + gsz g) in Hs. unfold fsz in Hs.
  cbn [app fpd_loop concat].
  destruct (base <=? off) eqn:E; [|lia].
  destruct g as [|y g].
  - unfold gsz in Hs. cbn in Hs. destruct (nx <=? off + len x + 8) eqn:E2; [|lia].
    cbn. now rewrite app_nil_r.
  - assert (0 < gsz (y :: g)) by (change (gsz (y :: g)) with (fsz y + gsz g); unfold fsz; lia).
    destruct (nx <=? off + len x + 8) eqn:E2; [lia|].
    rewrite IH by (try discriminate; lia). now rewrite app_assoc.
Qed.

Lemma fpd_take_none g : forall off base acc,
  base <= off -> fpd_loop g off base None acc = acc ++ concat g.
Proof.
  induction g as [|x g IH]; intros off base acc Hb; cbn [fpd_loop concat]; [now rewrite app_nil_r|].
  destruct (base <=? off) eqn:E; [|lia]. rewrite IH by lia. now rewrite app_assoc.
Qed.

Definition total_bytes (groups : list (list bytes)) : N := sumN (map frame_bytes groups).

Lemma bot_spec_app s A B :
  bot_spec s (A ++ B) = bot_spec s A ++ bot_spec (s + total_bytes A) B.
Proof.
  revert s; induction A as [|a A IH]; intros s.
  - cbn. unfold total_bytes. cbn. now rewrite N.add_0_r.
  - cbn [app bot_spec]. rewrite IH. do 3 f_equal. unfold total_bytes. cbn [map]. rewrite sumN_cons. lia.
Qed.

Lemma total_bytes_gsz groups :
  Forall (Forall even_frag) groups -> total_bytes groups = gsz (concat groups).
Proof.
  induction 1 as [|g r Hg _ IH]; [reflexivity|].
  unfold total_bytes in *. cbn [map concat]. rewrite sumN_cons, gsz_app, frame_bytes_even by exact Hg.
  rewrite IH. reflexivity.
Qed.

Lemma concat_length_ge (groups : list (list bytes)) :
  Forall (fun g => g <> []) groups -> (length groups <= length (concat groups))%nat.
Proof.
  induction 1 as [|g r Hg _ IH]; [cbn; lia|].
  cbn [concat length]. rewrite app_length. destruct g; [congruence|]. cbn [length]. lia.
Qed.

(** one fragment per frame: fragment f is frame f *)
Lemma singleton_groups (groups : list (list bytes)) : forall f g,
  Forall (fun g => g <> []) groups -> length (concat groups) = length groups ->
  nth_error groups f = Some g -> nth_error (concat groups) f = Some (concat g) /\ exists x, g = [x].
Proof.
  induction groups as [|g0 r IH]; intros f g Hne Hl Hn; [destruct f; discriminate|].
  inversion Hne as [|? ? Hg0 Hr]; subst.
  pose proof (concat_length_ge r Hr) as Hge.
  cbn [concat length] in Hl. rewrite app_length in Hl.
  destruct g0 as [|x [|y g0]]; [congruence| |cbn [length] in Hl; lia].
  destruct f as [|f].
  - injection Hn as <-. cbn. rewrite app_nil_r. split; [reflexivity|eauto].
  - cbn [nth_error] in Hn. cbn [concat app nth_error]. apply IH; [exact Hr|cbn [length] in Hl; lia|exact Hn].
Qed.

Lemma frame_extract groups f g :
  Forall (fun g => g <> []) groups -> Forall (Forall even_frag) groups ->
  nth_error groups (N.to_nat f) = Some g ->
  frame_pixel_data (Some (N.of_nat (length groups))) (bot_spec 0 groups) (concat groups) f
  = Some (concat g).
Proof.
  intros Hne He Hn. unfold frame_pixel_data.
  destruct (N.of_nat (length (concat groups)) =? N.of_nat (length groups)) eqn:Ec.
  - apply singleton_groups with (f := N.to_nat f) (g := g) in Hne; [|lia|exact Hn]. tauto.
  - destruct (nth_error_split _ _ Hn) as (G1 & G2 & EG & Hl1).
    assert (He1 : Forall (Forall even_frag) G1 /\ Forall even_frag g /\ Forall (Forall even_frag) G2).
    { rewrite EG in He. apply Forall_app in He as [H1 H2]. inversion H2; subst. auto. }
    destruct He1 as (He1 & Heg & He2).
    assert (Hg : g <> []).
    { rewrite EG in Hne. apply Forall_app in Hne as [_ H2]. inversion H2; subst. assumption. }
    assert (Hbase : nth_error (bot_spec 0 groups) (N.to_nat f) = Some (total_bytes G1)).
    { rewrite EG, bot_spec_app, nth_error_app2 by (rewrite bot_spec_length; lia).
      rewrite bot_spec_length, Hl1, Nat.sub_diag. reflexivity. }
    assert (Hnext : nth_error (bot_spec 0 groups) (N.to_nat f + 1)
                    = match G2 with [] => None | _ => Some (total_bytes G1 + gsz g) end).
    { rewrite EG, bot_spec_app, nth_error_app2 by (rewrite bot_spec_length; lia).
      rewrite bot_spec_length, Hl1. replace (N.to_nat f + 1 - N.to_nat f)%nat with 1%nat by lia.
      cbn [bot_spec nth_error]. rewrite frame_bytes_even by exact Heg.
      destruct G2; reflexivity. }
    rewrite Hbase, Hnext.
    replace (if f =? 0 then Some (total_bytes G1) else Some (total_bytes G1)) with (Some (total_bytes G1))
      by (destruct (f =? 0); reflexivity).
    f_equal. rewrite EG, concat_app. cbn [concat]. rewrite total_bytes_gsz by exact He1.
    destruct G2 as [|g2 G2].
    + cbn [concat]. rewrite fpd_skip by (cbn; lia). rewrite app_nil_r, fpd_take_none by lia. reflexivity.
    + assert (0 < gsz g) by (destruct g as [|x g]; [congruence|]; change (gsz (x :: g)) with (fsz x + gsz g); unfold fsz; lia).
      rewrite fpd_skip by (cbn; lia). rewrite fpd_take_some by (try assumption; lia). reflexivity.
Qed.

(** an object without Number of Frames holds one frame (number_of_frames().unwrap_or(1)),
    whatever the number of fragments of that frame *)
Lemma frame_extract_no_nframes (g : list bytes) :
  g <> [] ->
  frame_pixel_data None (bot_spec 0 [g]) (concat [g]) 0 = Some (concat g).
Proof.
  intros Hg. unfold frame_pixel_data. cbn [concat bot_spec]. rewrite app_nil_r.
  destruct (N.of_nat (length g) =? 1) eqn:E.
  - destruct g as [|x [|y g]]; [congruence| |cbn [length] in E; lia].
    cbn. now rewrite app_nil_r.
  - cbn [N.to_nat nth_error Nat.add]. change (0 =? 0) with true. cbv iota.
    change (nth_error [0] (Pos.to_nat 1)) with (@None N).
    rewrite fpd_take_none by lia. reflexivity.
Qed.
