(** Totality of the file meta reader model over ARBITRARY bytes (C09_read_total):
    no panic, no fuel exhaustion, and — for debug builds, where the u32 arithmetic of
    [calculate_information_group_length] is overflow-checked — no overflow for inputs below 512 MiB. *)
From DicomV Require Import Base.Prelude Base.Endian Base.Str Model.Meta Proofs.MetaP.
From Coq Require Import ZifyBool ZifyNat ZifyN.
Ltac Zify.zify_post_hook ::= Z.div_mod_to_equations.
Open Scope N_scope.

(** * 1. No panic, in any build, from the control flow of the reader *)
Lemma decode_header_no_panic b w : decode_header b <> Panic w.
Proof.
  unfold decode_header.
  repeat match goal with
  | |- context [match ?x with _ => _ end] => destruct x; try discriminate
  end.
Qed.

Lemma decode_header_shrinks b tag len hb r : decode_header b = Ok (tag, len, hb, r) -> (length r + 8 <= length b)%nat.
Proof.
  unfold decode_header.
  repeat match goal with
  | |- context [match ?x with _ => _ end] => destruct x; try discriminate
  end; intros H; injection H as <- <- <- <-; cbn [length]; lia.
Qed.

Lemma take_n_split n b v r : take_n n b = Some (v, r) -> (length v + length r = length b)%nat /\ blen v = n.
Proof.
  unfold take_n. destruct (blen b <? n) eqn:E; [discriminate|]. intros H; injection H as <- <-.
  unfold blen in *. assert (Hn : (N.to_nat n <= length b)%nat) by lia.
  rewrite firstn_length, skipn_length, Nat.min_l by exact Hn. split; lia.
Qed.

Lemma read_loop_total fuel : forall glen total bd b,
  (forall w, read_loop fuel glen total bd b <> Panic w) /\
  ((length b < fuel)%nat -> read_loop fuel glen total bd b <> Err 99).
Proof.
  induction fuel as [|f IH]; intros glen total bd b.
  - cbn [read_loop]. destruct (glen <=? total); split; try discriminate. intros; lia.
  - rewrite read_loop_S. destruct (glen <=? total); [split; discriminate|].
    destruct (decode_header b) as [[[[tag len] hb] r]|e|w] eqn:Eh; cbn [bind].
    + pose proof (decode_header_shrinks _ _ _ _ _ Eh) as Hs.
      destruct (len =? 4294967295); [split; discriminate|].
      destruct ((tag =? 131073) && negb (len =? 2)); [split; discriminate|].
      destruct (take_n len r) as [[v r']|] eqn:Et.
      * destruct (take_n_split _ _ _ _ Et) as [Hl _]. split.
        -- intros w. apply IH.
        -- intros Hf. apply IH. lia.
      * destruct ((tag =? 131073) || ((131074 <=? tag) && (tag <=? 131075)) || (tag =? 131088)
                  || ((131090 <=? tag) && (tag <=? 131091)) || ((131094 <=? tag) && (tag <=? 131096))
                  || (tag =? 131328) || (tag =? 131330)); split; discriminate.
    + split; [discriminate|]. intros _ H. injection H as H. unfold decode_header in Eh.
      repeat match type of Eh with
      | context [match ?x with _ => _ end] => destruct x; try discriminate
      end; injection Eh as <-; discriminate.
    + exfalso. eapply decode_header_no_panic. exact Eh.
Qed.

Lemma build_no_panic iu inm bd w : build iu inm bd <> Panic w.
Proof. unfold build. destruct (b_ts bd); [|discriminate]. destruct (b_impl_class bd); discriminate. Qed.
Lemma build_no_fuel iu inm bd : build iu inm bd <> Err 99.
Proof. unfold build. destruct (b_ts bd); [|discriminate]. destruct (b_impl_class bd); discriminate. Qed.

(* release semantics: never a panic, never out of fuel *)
Lemma read_meta_total iu inm b : (forall w, read_meta iu inm b <> Panic w) /\ read_meta iu inm b <> Err 99.
Proof.
  unfold read_meta. destruct (take_n 4 b) as [[magic r]|]; [|split; discriminate].
  destruct (negb (list_eqb N.eqb magic DICM)); [split; discriminate|].
  destruct (decode_header r) as [[[[tag len] hb] r1]|e|w] eqn:Eh; cbn [bind].
  - destruct (negb (tag =? 131072)); [split; discriminate|].
    destruct (negb (len =? 4)); [split; discriminate|].
    destruct (take_n 4 r1) as [[g r2]|]; [|split; discriminate].
    destruct (read_loop_total (S (length r2)) (le_val g) 0 empty_builder r2) as [Hp Hf].
    destruct (read_loop (S (length r2)) (le_val g) 0 empty_builder r2) as [[bd' r']|e|w] eqn:El; cbn [bind].
    + destruct (build iu inm (fst (bd', r'))) as [t|e|w] eqn:Eb; cbn [bind]; try (split; discriminate).
      * split; [discriminate|]. intros H; injection H as ->. eapply build_no_fuel; exact Eb.
      * exfalso. eapply build_no_panic; exact Eb.
    + split; [discriminate|]. intros H; injection H as ->. apply Hf; [lia|reflexivity].
    + exfalso. eapply Hp. reflexivity.
  - split; [discriminate|]. intros H; injection H as ->. unfold decode_header in Eh.
    repeat match type of Eh with
    | context [match ?x with _ => _ end] => destruct x; try discriminate
    end; injection Eh as H; discriminate.
  - exfalso. eapply decode_header_no_panic. exact Eh.
Qed.

(* preamble detection and both openers: total as well *)
Lemma detect_preamble_no_panic buf w : detect_preamble buf <> Panic w.
Proof. unfold detect_preamble. repeat match goal with |- context [if ?c then _ else _] => destruct c end; discriminate. Qed.

Lemma open_with_no_panic skip iu inm opt buf file w :
  (forall o b w', skip o b <> Panic w') -> open_with skip iu inm opt buf file <> Panic w.
Proof.
  intros Hs. unfold open_with. destruct (skip opt buf) as [n|e|w'] eqn:E; cbn [bind]; [|discriminate|exfalso; eapply Hs; exact E].
  destruct (take_n n file) as [[x r]|]; [|discriminate]. destruct (read_meta_total iu inm r) as [Hp _]. apply Hp.
Qed.

Lemma skip_no_panic :
  (forall o b w, skip_by_path o b <> Panic w) /\ (forall o b w, skip_by_reader o b <> Panic w).
Proof.
  split; intros o b w; unfold skip_by_path, skip_by_reader; destruct o; cbn [bind]; try discriminate;
    destruct (detect_preamble b) as [p|e|w'] eqn:E; cbn [bind]; try discriminate; exfalso; eapply detect_preamble_no_panic; exact E.
Qed.

(** * 2. Debug builds: the overflow checks cannot fire below 512 MiB of input *)
(* bytes held by the builder *)
Definition oblen (o : option bytes) : N := match o with Some v => blen v | None => 0 end.
Definition bsize (bd : builder) : N :=
  oblen (b_sop_class bd) + oblen (b_sop_inst bd) + oblen (b_ts bd) + oblen (b_impl_class bd) + oblen (b_impl_ver bd)
  + oblen (b_src_ae bd) + oblen (b_snd_ae bd) + oblen (b_rcv_ae bd) + oblen (b_priv_creator bd) + oblen (b_priv_info bd).

Lemma set_field_size tag v bd : bsize (set_field tag v bd) <= bsize bd + blen v.
Proof.
  unfold set_field.
  repeat match goal with |- context [if ?c then _ else _] => destruct c end;
    unfold bsize; cbn [b_sop_class b_sop_inst b_ts b_impl_class b_impl_ver b_src_ae b_snd_ae b_rcv_ae b_priv_creator b_priv_info oblen];
    repeat match goal with |- context [oblen ?o] => destruct o; cbn [oblen] end; lia.
Qed.
Lemma set_ver_size v bd : bsize (set_ver v bd) = bsize bd.
Proof. reflexivity. Qed.

Lemma blen_length (b : bytes) : blen b = N.of_nat (length b). Proof. reflexivity. Qed.

Lemma read_loop_size fuel : forall glen total bd b bd' r,
  read_loop fuel glen total bd b = Ok (bd', r) -> bsize bd' + blen r <= bsize bd + blen b.
Proof.
  induction fuel as [|f IH]; intros glen total bd b bd' r.
  - cbn [read_loop]. destruct (glen <=? total); [|discriminate]. intros H; injection H as <- <-. lia.
  - rewrite read_loop_S. destruct (glen <=? total); [intros H; injection H as <- <-; lia|].
    destruct (decode_header b) as [[[[tag len] hb] r0]|e|w] eqn:Eh; cbn [bind]; try discriminate.
    pose proof (decode_header_shrinks _ _ _ _ _ Eh) as Hs.
    destruct (len =? 4294967295); [discriminate|].
    destruct ((tag =? 131073) && negb (len =? 2)); [discriminate|].
    destruct (take_n len r0) as [[v r']|] eqn:Et.
    + destruct (take_n_split _ _ _ _ Et) as [Hl _]. intros H. apply IH in H.
      assert (Hb : bsize (if tag =? 131073 then set_ver (nth 0 v 0, nth 1 v 0) bd else set_field tag v bd) <= bsize bd + blen v).
      { destruct (tag =? 131073); [rewrite set_ver_size; lia|apply set_field_size]. }
      rewrite !blen_length in *. lia.
    + destruct ((tag =? 131073) || ((131074 <=? tag) && (tag <=? 131075)) || (tag =? 131088)
                || ((131090 <=? tag) && (tag <=? 131091)) || ((131094 <=? tag) && (tag <=? 131096))
                || (tag =? 131328) || (tag =? 131330)); discriminate.
Qed.

(* UTF-8 length of a decoded value *)
Lemma utf8_len1_le c : utf8_len1 c <= 4.
Proof. unfold utf8_len1. repeat match goal with |- context [if ?c then _ else _] => destruct c end; lia. Qed.
Lemma slen_le4 s : slen s <= 4 * blen s.
Proof.
  induction s as [|c s IH]; [cbn; lia|]. cbn [slen]. rewrite blen_cons. pose proof (utf8_len1_le c). lia.
Qed.
Lemma slen_app a b : slen (a ++ b) = slen a + slen b.
Proof. induction a as [|c a IH]; cbn [app slen]; [lia|]. rewrite IH. lia. Qed.
Lemma slen_padded s p : p < 128 -> slen (padded s p) <= slen s + 1.
Proof.
  intros Hp. unfold padded. destruct (N.odd (slen s)); [|lia]. rewrite slen_app. cbn [slen]. unfold utf8_len1.
  replace (p <? 128) with true by lia. lia.
Qed.

Definition oslen (o : option str) : N := match o with Some s => slen s | None => 0 end.
Definition tsize (t : meta) : N :=
  slen (m_sop_class t) + slen (m_sop_inst t) + slen (m_ts t) + slen (m_impl_class t) + oslen (m_impl_ver t)
  + oslen (m_src_ae t) + oslen (m_snd_ae t) + oslen (m_rcv_ae t) + oslen (m_priv_creator t) + oblen (m_priv_info t).

Lemma dicom_len_le s : slen s < 4294967295 -> dicom_len s <= slen s + 1.
Proof.
  intros H. unfold dicom_len. rewrite u32_small by (rewrite pow32; lia). rewrite even_len_small by (rewrite pow32; lia). lia.
Qed.
Lemma len_ovf_small n : n < 4294967295 -> len_ovf n = false.
Proof. intros H. unfold len_ovf. rewrite u32_small by (rewrite pow32; lia). lia. Qed.

Lemma no_overflow_small t : tsize t < 4294967000 -> calc_overflows t = false.
Proof.
  unfold tsize. intros H.
  assert (H1 : slen (m_sop_class t) < 4294967295) by lia. assert (H2 : slen (m_sop_inst t) < 4294967295) by lia.
  assert (H3 : slen (m_ts t) < 4294967295) by lia. assert (H4 : slen (m_impl_class t) < 4294967295) by lia.
  unfold calc_overflows, calc_total.
  rewrite !len_ovf_small by assumption. cbn [orb].
  pose proof (dicom_len_le _ H1). pose proof (dicom_len_le _ H2). pose proof (dicom_len_le _ H3). pose proof (dicom_len_le _ H4).
  assert (Ho : forall o, oslen o < 4294967295 -> opt_ovf o = false /\ opt_len o <= oslen o + 9).
  { intros [s|] Hs; cbn [oslen opt_ovf opt_len] in *; [|split; [reflexivity|lia]].
    split; [apply len_ovf_small, Hs|]. pose proof (dicom_len_le _ Hs). lia. }
  destruct (Ho (m_impl_ver t)) as [-> ?]; [lia|]. destruct (Ho (m_src_ae t)) as [-> ?]; [lia|].
  destruct (Ho (m_snd_ae t)) as [-> ?]; [lia|]. destruct (Ho (m_rcv_ae t)) as [-> ?]; [lia|].
  destruct (Ho (m_priv_creator t)) as [-> ?]; [lia|]. cbn [orb].
  destruct (m_priv_info t) as [x|]; cbn [oblen] in *.
  - rewrite len_ovf_small by lia. cbn [orb].
    assert (even_len (u32 (blen x)) <= blen x + 1).
    { rewrite u32_small by (rewrite pow32; lia). rewrite even_len_small by (rewrite pow32; lia). lia. }
    lia.
  - cbn [orb]. lia.
Qed.

Lemma build_size iu inm bd t : build iu inm bd = Ok t -> tsize t <= 4 * bsize bd + 9 + slen iu + slen inm.
Proof.
  unfold build. destruct (b_ts bd) as [ts|] eqn:Ets; [|discriminate].
  assert (Hp : forall s p, p < 128 -> slen (padded s p) <= 4 * blen s + 1).
  { intros s p Hp. pose proof (slen_padded s p Hp). pose proof (slen_le4 s). lia. }
  assert (Ho : forall (o : option str) p, p < 128 -> oslen (option_map (fun s => padded s p) o) <= 4 * oblen o + 1).
  { intros [s|] p Hp'; cbn [option_map oslen oblen]; [apply Hp, Hp'|lia]. }
  unfold bsize. rewrite Ets.
  destruct (b_impl_class bd) as [ic|] eqn:Eic; intros H; injection H as <-;
    unfold tsize, update_glen, set_glen; cbn [m_sop_class m_sop_inst m_ts m_impl_class m_impl_ver m_src_ae m_snd_ae m_rcv_ae m_priv_creator m_priv_info oblen oslen];
    unfold ui_padded, txt_padded.
  - pose proof (Hp ts 0 ltac:(lia)). pose proof (Hp ic 0 ltac:(lia)).
    pose proof (Ho (b_impl_ver bd) 32 ltac:(lia)). pose proof (Ho (b_src_ae bd) 32 ltac:(lia)).
    pose proof (Ho (b_snd_ae bd) 32 ltac:(lia)). pose proof (Ho (b_rcv_ae bd) 32 ltac:(lia)).
    pose proof (Ho (b_priv_creator bd) 0 ltac:(lia)).
    destruct (b_sop_class bd) as [s1|]; destruct (b_sop_inst bd) as [s2|]; cbn [oblen slen];
      try pose proof (Hp s1 0 ltac:(lia)); try pose proof (Hp s2 0 ltac:(lia)); lia.
  - pose proof (Hp ts 0 ltac:(lia)).
    pose proof (Ho (b_src_ae bd) 32 ltac:(lia)).
    pose proof (Ho (b_snd_ae bd) 32 ltac:(lia)). pose proof (Ho (b_rcv_ae bd) 32 ltac:(lia)).
    pose proof (Ho (b_priv_creator bd) 0 ltac:(lia)).
    destruct (b_sop_class bd) as [s1|]; destruct (b_sop_inst bd) as [s2|]; cbn [oblen slen];
      try pose proof (Hp s1 0 ltac:(lia)); try pose proof (Hp s2 0 ltac:(lia)); lia.
Qed.

Lemma read_meta_size iu inm b t r : read_meta iu inm b = Ok (t, r) -> tsize t <= 4 * blen b + 9 + slen iu + slen inm.
Proof.
  unfold read_meta. destruct (take_n 4 b) as [[magic r0]|] eqn:E0; [|discriminate].
  destruct (negb (list_eqb N.eqb magic DICM)); [discriminate|].
  destruct (decode_header r0) as [[[[tag len] hb] r1]|e|w] eqn:Eh; cbn [bind]; try discriminate.
  destruct (negb (tag =? 131072)); [discriminate|]. destruct (negb (len =? 4)); [discriminate|].
  destruct (take_n 4 r1) as [[g r2]|] eqn:E1; [|discriminate].
  destruct (read_loop (S (length r2)) (le_val g) 0 empty_builder r2) as [[bd' r']|e|w] eqn:El; cbn [bind fst snd]; try discriminate.
  destruct (build iu inm bd') as [t'|e|w] eqn:Eb; cbn [bind fst snd]; try discriminate.
  intros H; injection H as <- <-.
  pose proof (build_size _ _ _ _ Eb). pose proof (read_loop_size _ _ _ _ _ _ _ El) as Hl.
  change (bsize empty_builder) with 0 in Hl.
  destruct (take_n_split _ _ _ _ E0) as [H0 _]. destruct (take_n_split _ _ _ _ E1) as [H1 _].
  pose proof (decode_header_shrinks _ _ _ _ _ Eh). rewrite !blen_length in *. lia.
Qed.

(* debug builds: no panic for inputs below 512 MiB *)
Lemma read_meta_dbg_no_panic iu inm b w :
  blen b < 536870912 -> slen iu + slen inm < 1073741824 -> read_meta_dbg iu inm b <> Panic w.
Proof.
  intros Hb Hc. unfold read_meta_dbg. destruct (read_meta iu inm b) as [[t r]|e|w'] eqn:E; [|discriminate|].
  - pose proof (read_meta_size _ _ _ _ _ E). rewrite no_overflow_small by lia. discriminate.
  - exfalso. destruct (read_meta_total iu inm b) as [Hp _]. eapply Hp. exact E.
Qed.
