(** Writing a well-formed flat data set never fails and never panics (C01, flat). *)
From Coq Require Import ZifyBool ZifyNat ZifyN.
From DicomV Require Import Base.Endian Model.Vr Model.Header Model.Prim Model.Dataset Model.Writer Spec.Ps35
  Proofs.HeaderP Proofs.PrimP Proofs.WriterP Proofs.FlatP.
Open Scope N_scope.

Lemma st_enc_header_ok c t v len :
  len < 4294967295 -> hdr_ok c v (even_len len) ->
  st_enc_header c t v len = Ok (ps35_header c t v (even_len len)).
Proof.
  intros H K. unfold st_enc_header.
  replace (len =? 4294967295) with false by (symmetry; apply N.eqb_neq; lia).
  rewrite enc_header_layout by exact K. reflexivity.
Qed.

Lemma padded_lt v raw : blen raw < 4294967295 -> blen (ps35_padded v raw) < 4294967296.
Proof.
  intros H. rewrite ps35_padded_len by exact H. unfold even_len, clear_low_bit.
  rewrite N.mod_small by lia. pose proof (N.div_mod' (blen raw + 1) 2). pose proof (N.mod_lt (blen raw + 1) 2). lia.
Qed.
Lemma padded_ne_undef v raw : blen (ps35_padded v raw) <> 4294967295.
Proof. intros E. pose proof (ps35_padded_even v raw) as Ev. rewrite E in Ev. discriminate. Qed.

(** text in the ISO 8859-1 repertoire *)
Definition latin1_prim (p : prim) : Prop :=
  match p with
  | PStr s => wf_bytes s
  | PStrs l => Forall wf_bytes l
  | _ => True
  end.

Lemma latin1_enc_wf' s : wf_bytes s -> latin1_enc s = Ok s.
Proof.
  intros H. unfold latin1_enc. replace (forallb (fun c => c <? 256) s) with true; [reflexivity|].
  symmetry. apply forallb_forall. intros x Hx. unfold wf_bytes in H. rewrite Forall_forall in H.
  apply N.ltb_lt. apply H. exact Hx.
Qed.
Lemma latin1_enc_all_wf' l : Forall wf_bytes l -> latin1_enc_all l = Ok l.
Proof.
  induction 1 as [|s l Hs Hl IH]; [reflexivity|]. cbn [latin1_enc_all].
  rewrite latin1_enc_wf' by exact Hs. rewrite IH. reflexivity.
Qed.

Lemma enc_text_value_total c t v raw :
  text_pad v = ps35_pad v -> blen raw < 4294967295 -> hdr_ok c v (blen (ps35_padded v raw)) ->
  exists b, enc_text_value c t v raw = Ok b.
Proof.
  intros P H K. unfold enc_text_value. rewrite (pad_even_padded v raw _ P).
  rewrite N.mod_small by (apply padded_lt; exact H).
  pose proof (padded_lt v raw H). pose proof (padded_ne_undef v raw).
  rewrite st_enc_header_ok; [eauto | lia |].
  rewrite even_len_even by (lia || apply ps35_padded_even). exact K.
Qed.

(* length carried by the header on the regular path *)
Lemma binary_header_len c v p :
  (match p with PStr _ | PStrs _ => False | _ => True end) -> wf_prim p ->
  blen (fst (enc_prim c p)) < 4294967295 ->
  calc_byte_len p mod 4294967296 < 4294967295 /\
  even_len (calc_byte_len p mod 4294967296) = blen (ps35_padded v (fst (enc_prim c p))).
Proof.
  intros Hp W H. set (raw := fst (enc_prim c p)) in *.
  pose proof (calc_byte_len_ok c p W) as CB. fold raw in CB.
  rewrite (ps35_padded_len v raw H).
  assert (U : even_up (blen raw) <= blen raw + 1).
  { unfold even_up. pose proof (N.div_mod' (blen raw + 1) 2). lia. }
  assert (E4 : blen raw = 4294967294 -> even_up (blen raw) = 4294967294).
  { intros ->. vm_compute. reflexivity. }
  destruct p; try contradiction; rewrite CB;
    try (rewrite N.mod_small by lia; split; [lia | reflexivity]).
  all: rewrite N.mod_small by lia; split;
    [ destruct (N.eq_dec (blen raw) 4294967294) as [Eq|Ne]; [rewrite (E4 Eq); lia | lia]
    | rewrite <- even_len_even_up by exact H; apply even_len_idem; exact H ].
Qed.

Lemma enc_binary_total c t v p :
  (match p with PStr _ | PStrs _ => False | _ => True end) -> wf_prim p ->
  blen (fst (enc_prim c p)) < 4294967295 -> hdr_ok c v (blen (ps35_padded v (fst (enc_prim c p)))) ->
  exists b, enc_binary c t v p = Ok b.
Proof.
  intros Hp W H K. unfold enc_binary. destruct (binary_header_len c v p Hp W H) as [B1 B2].
  destruct (enc_prim c p) as [val count] eqn:EP. cbn [fst] in *.
  rewrite st_enc_header_ok; [eauto | exact B1 | rewrite B2; exact K].
Qed.

(** Writing one well-formed primitive element succeeds. *)
Lemma enc_prim_element_total c t v p :
  typed v p = true -> wf_prim p -> latin1_prim p ->
  (match p with PF32 _ | PF64 _ => match v with DS | IS => False | _ => True end | _ => True end) ->
  blen (raw_value c v p) < 4294967295 -> hdr_ok c v (blen (ps35_padded v (raw_value c v p))) ->
  exists b, enc_prim_element c t v p = Ok b.
Proof.
  intros T W L F H K.
  destruct p.
  - (* PEmpty *)
    replace (raw_value c v PEmpty) with ([] : bytes) in * by (destruct v; reflexivity).
    assert (G : enc_prim_element c t v PEmpty = st_enc_header c t v 0 \/
                enc_prim_element c t v PEmpty = enc_binary c t v PEmpty) by (destruct v; cbn; auto).
    destruct G as [G|G]; rewrite G.
    + rewrite st_enc_header_ok; [eauto | lia | exact K].
    + apply enc_binary_total; [exact I | exact W | exact H | exact K].
  - cbn [enc_prim_element]. cbn in L. rewrite latin1_enc_wf' by exact L. cbn [raw_value] in *.
    apply enc_text_value_total; [destruct v; try discriminate T; reflexivity | exact H | exact K].
  - cbn [enc_prim_element]. cbn in L. rewrite latin1_enc_all_wf' by exact L. cbn [raw_value] in *.
    apply enc_text_value_total; [destruct v; try discriminate T; reflexivity | exact H | exact K].
  - destruct v; try discriminate T; apply enc_binary_total; try assumption; exact I.
  - destruct v; try discriminate T; apply enc_binary_total; try assumption; exact I.
  - destruct v; try discriminate T; apply enc_binary_total; try assumption; exact I.
  - destruct v; try discriminate T; apply enc_binary_total; try assumption; exact I.
  - (* PI32 *)
    destruct v; try discriminate T; try (apply enc_binary_total; try assumption; exact I).
    all: cbn [enc_prim_element int_text raw_value] in *;
      set (txt := join_bs (map (signed_dec 32) l)) in *;
      rewrite (N.mod_small (blen txt)) by lia;
      (rewrite <- (ps35_padded_len DS txt H) || rewrite <- (ps35_padded_len IS txt H));
      (rewrite st_enc_header_ok;
       [ eauto
       | pose proof (padded_lt DS txt H); pose proof (padded_ne_undef DS txt);
         pose proof (padded_lt IS txt H); pose proof (padded_ne_undef IS txt); lia
       | rewrite even_len_even;
         [ exact K
         | pose proof (padded_lt DS txt H); pose proof (padded_ne_undef DS txt);
           pose proof (padded_lt IS txt H); pose proof (padded_ne_undef IS txt); lia
         | apply ps35_padded_even ] ]).
  - destruct v; try discriminate T; apply enc_binary_total; try assumption; exact I.
  - destruct v; try discriminate T; apply enc_binary_total; try assumption; exact I.
  - destruct v; try discriminate T; apply enc_binary_total; try assumption; exact I.
  - destruct v; try discriminate T; apply enc_binary_total; try assumption; exact I.
  - destruct v; try discriminate T; apply enc_binary_total; try assumption; exact I.
  - destruct v; try discriminate T; apply enc_binary_total; try assumption; exact I.
  - destruct v; try discriminate T; apply enc_binary_total; try assumption; exact I.
  - destruct v; try discriminate T; apply enc_binary_total; try assumption; exact I.
Qed.

(** A well-formed flat data set for writing. *)
Definition elem_writable (c : codec) (e : elem) : Prop :=
  match e with
  | EPrim t v l p =>
      plain e /\ typed v p = true /\ wf_prim p /\ latin1_prim p /\
      (match p with PF32 _ | PF64 _ => match v with DS | IS => False | _ => True end | _ => True end) /\
      blen (raw_value c v p) < 4294967295 /\ hdr_ok c v (blen (ps35_padded v (raw_value c v p)))
  | _ => False
  end.

Lemma write_flat_total c nc inv es :
  Forall (elem_writable c) es -> exists b, write_dataset c nc inv es = Ok b.
Proof.
  intros H.
  assert (P : Forall plain es).
  { induction H as [|e es He Hes IH]; constructor; [|exact IH]. destruct e; cbn [elem_writable] in He; try contradiction. exact (proj1 He). }
  rewrite write_dataset_flat by exact P. clear P.
  induction H as [|e es He Hes IH]; [exists []; reflexivity|].
  destruct e as [t v l p| |]; cbn [elem_writable] in He; try contradiction.
  destruct He as (_ & T & W & L & F & B & K).
  destruct (enc_prim_element_total c t v p T W L F B K) as [b1 E1]. destruct IH as [b2 E2].
  cbn [enc_flat]. rewrite E1, E2. eauto.
Qed.
