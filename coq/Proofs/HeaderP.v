(** Lemmas for C03: header layout, decode-after-encode, overflow, VR codes,
    agreement of the regenerated tables with the model. *)
From Coq Require Import ZifyBool ZifyNat ZifyN.
From DicomV Require Import Base.Endian Model.Vr Model.Header Spec.Ps35 Gen.GenVrCodes Gen.GenHeaderLayout.
Open Scope N_scope.

(** * Small list facts *)
Lemma firstn_app_exact {A} (a b : list A) k : length a = k -> firstn k (a ++ b) = a.
Proof.
  intros <-. rewrite firstn_app, Nat.sub_diag, firstn_all. cbn. apply app_nil_r.
Qed.
Lemma skipn_app_exact {A} (a b : list A) k : length a = k -> skipn k (a ++ b) = b.
Proof.
  intros <-. rewrite skipn_app, Nat.sub_diag, skipn_all. reflexivity.
Qed.
Lemma take_app a r k : length a = k -> take k (a ++ r) = Some (a, r).
Proof.
  intros H. unfold take. rewrite app_length, H.
  replace (Nat.ltb (k + length r) k) with false by (symmetry; apply Nat.ltb_ge; lia).
  rewrite firstn_app_exact, skipn_app_exact by exact H. reflexivity.
Qed.
Lemma take_short b k : (length b < k)%nat -> take k b = None.
Proof. intros H. unfold take. apply Nat.ltb_lt in H. rewrite H. reflexivity. Qed.
Lemma take_some b k h r : take k b = Some (h, r) -> b = h ++ r /\ length h = k.
Proof.
  unfold take. destruct (Nat.ltb (length b) k) eqn:E; [discriminate|].
  intros H; inversion H; subst. split; [symmetry; apply firstn_skipn|].
  apply Nat.ltb_ge in E. apply firstn_length_le; exact E.
Qed.

(** * Fixed-width fields *)
Lemma u16_length c n : length (u16 c n) = 2%nat.
Proof. destruct c; unfold u16, le16, be16; [apply le_bytes_length | apply le_bytes_length | apply be_bytes_length]. Qed.
Lemma u32_length c n : length (u32 c n) = 4%nat.
Proof. destruct c; unfold u32, le32, be32; [apply le_bytes_length | apply le_bytes_length | apply be_bytes_length]. Qed.
Lemma rd_u16 c n : n < 65536 -> rd c (u16 c n) = n.
Proof.
  intros H. destruct c; cbn [rd u16]; unfold le16, be16;
    [apply le_val_le_bytes_small | apply le_val_le_bytes_small | apply be_val_be_bytes_small]; exact H.
Qed.
Lemma rd_u32 c n : n < 4294967296 -> rd c (u32 c n) = n.
Proof.
  intros H. destruct c; cbn [rd u32]; unfold le32, be32;
    [apply le_val_le_bytes_small | apply le_val_le_bytes_small | apply be_val_be_bytes_small]; exact H.
Qed.
Lemma u16_wf c n : wf_bytes (u16 c n).
Proof. destruct c; unfold u16, le16, be16; [apply le_bytes_wf | apply le_bytes_wf | apply be_bytes_wf]. Qed.
Lemma u32_wf c n : wf_bytes (u32 c n).
Proof. destruct c; unfold u32, le32, be32; [apply le_bytes_wf | apply le_bytes_wf | apply be_bytes_wf]. Qed.
Lemma vr_bytes_length v : length (vr_bytes v) = 2%nat.
Proof. reflexivity. Qed.

(** * Model = standard, field by field *)
Lemma u16_ps35 c n : u16 c n = ps35_u16 c n.
Proof. destruct c; reflexivity. Qed.
Lemma u32_ps35 c n : u32 c n = ps35_u32 c n.
Proof. destruct c; reflexivity. Qed.
Lemma vr_bytes_ps35 v : vr_bytes v = ps35_vr_code v.
Proof. destruct v; reflexivity. Qed.
Lemma short_vr_ps35 v : short_vr v = ps35_len16 v.
Proof. destruct v; reflexivity. Qed.

Lemma ps35_header_length c t v len :
  length (ps35_header c t v len) =
  match c with ILE => 8%nat | _ => if ps35_len16 v then 8%nat else 12%nat end.
Proof.
  unfold ps35_header. rewrite <- !u16_ps35, <- !u32_ps35, <- vr_bytes_ps35.
  destruct c; [| destruct (ps35_len16 v) | destruct (ps35_len16 v)];
    rewrite !app_length, ?u16_length, ?u32_length, ?vr_bytes_length; reflexivity.
Qed.

(** Encoding: the bytes are the PS3.5 layout and the returned count is their number. *)
Lemma enc_header_layout c t v len :
  (c <> ILE -> ps35_len16 v = true -> len <= 65535) ->
  enc_header c t v len = Ok (ps35_header c t v len, N.of_nat (length (ps35_header c t v len))).
Proof.
  intros H. rewrite ps35_header_length. unfold enc_header, ps35_header.
  rewrite <- ?u16_ps35, <- ?u32_ps35, <- ?vr_bytes_ps35. rewrite <- short_vr_ps35 in *.
  destruct c; [reflexivity| |];
    (destruct (short_vr v) eqn:S;
     [ specialize (H ltac:(discriminate) eq_refl);
       replace (65535 <? len) with false by (symmetry; apply N.ltb_ge; exact H); reflexivity
     | reflexivity ]).
Qed.

Lemma enc_header_overflow c t v len :
  c <> ILE -> ps35_len16 v = true -> 65535 < len -> enc_header c t v len = Err E_TooLong.
Proof.
  intros Hc Hs Hl. unfold enc_header. rewrite short_vr_ps35, Hs.
  apply N.ltb_lt in Hl. rewrite Hl. destruct c; [congruence| |]; reflexivity.
Qed.

(** The encoder never writes a header whose length field differs from the
    requested length: success implies the exact layout. *)
Lemma enc_header_ok_inv c t v len b n :
  enc_header c t v len = Ok (b, n) ->
  b = ps35_header c t v len /\ n = N.of_nat (length b) /\ (c <> ILE -> ps35_len16 v = true -> len <= 65535).
Proof.
  intros H.
  assert (G : c <> ILE -> ps35_len16 v = true -> len <= 65535).
  { intros Hc Hs. destruct (N.leb_spec len 65535) as [L|L]; [exact L|].
    rewrite (enc_header_overflow c t v len Hc Hs L) in H. discriminate. }
  rewrite (enc_header_layout c t v len G) in H. inversion H; subst. auto.
Qed.

(** * Decoding a well-formed header *)
Lemma vr_of_bytes_chars v : vr_of_bytes (fst (vr_chars v)) (snd (vr_chars v)) = Some v.
Proof. destruct v; reflexivity. Qed.

Lemma dec_tag_app c e t r :
  fst t < 65536 -> snd t < 65536 ->
  dec_tag c e (u16 c (fst t) ++ u16 c (snd t) ++ r) = Ok (t, r).
Proof.
  intros Hg He. unfold dec_tag. rewrite app_assoc.
  rewrite take_app by (rewrite app_length, !u16_length; reflexivity).
  rewrite firstn_app_exact, skipn_app_exact by apply u16_length.
  rewrite !rd_u16 by assumption. destruct t; reflexivity.
Qed.

Definition wf_tag (t : tag) : Prop := fst t < 65536 /\ snd t < 65536.

Lemma dec_header_layout c dict t v len rest :
  wf_tag t -> len < 4294967296 ->
  (c <> ILE -> fst t <> 65534) ->
  (c <> ILE -> ps35_len16 v = true -> len <= 65535) ->
  dec_header c dict (ps35_header c t v len ++ rest) =
  Ok (t, match c with ILE => ile_vr dict t | _ => v end, len,
      N.of_nat (length (ps35_header c t v len)), rest).
Proof.
  intros [Hg He] Hl Hgrp Hshort. rewrite ps35_header_length.
  unfold dec_header, ps35_header.
  rewrite <- ?u16_ps35, <- ?u32_ps35, <- ?vr_bytes_ps35. rewrite <- short_vr_ps35 in *.
  destruct c.
  - rewrite <- !app_assoc. rewrite dec_tag_app by assumption.
    rewrite take_app by apply u32_length. rewrite rd_u32 by exact Hl. reflexivity.
  - specialize (Hgrp ltac:(discriminate)). specialize (Hshort ltac:(discriminate)).
    destruct (short_vr v) eqn:S; rewrite <- !app_assoc; rewrite dec_tag_app by assumption;
      (replace (fst t =? 65534) with false by (symmetry; apply N.eqb_neq; exact Hgrp));
      rewrite take_app by apply vr_bytes_length; cbn [vr_bytes nth];
      rewrite vr_of_bytes_chars, S.
    + rewrite take_app by apply u16_length. rewrite rd_u16 by (specialize (Hshort eq_refl); lia). reflexivity.
    + change ([0; 0] ++ u32 ELE len ++ rest) with (([0; 0] : bytes) ++ (u32 ELE len ++ rest)).
      rewrite take_app by reflexivity. rewrite take_app by apply u32_length.
      rewrite rd_u32 by exact Hl. reflexivity.
  - specialize (Hgrp ltac:(discriminate)). specialize (Hshort ltac:(discriminate)).
    destruct (short_vr v) eqn:S; rewrite <- !app_assoc; rewrite dec_tag_app by assumption;
      (replace (fst t =? 65534) with false by (symmetry; apply N.eqb_neq; exact Hgrp));
      rewrite take_app by apply vr_bytes_length; cbn [vr_bytes nth];
      rewrite vr_of_bytes_chars, S.
    + rewrite take_app by apply u16_length. rewrite rd_u16 by (specialize (Hshort eq_refl); lia). reflexivity.
    + change ([0; 0] ++ u32 EBE len ++ rest) with (([0; 0] : bytes) ++ (u32 EBE len ++ rest)).
      rewrite take_app by reflexivity. rewrite take_app by apply u32_length.
      rewrite rd_u32 by exact Hl. reflexivity.
Qed.

(** * Items and delimiters *)
Lemma enc_item_header_ps35 c len : enc_item_header c len = ps35_item_header c len.
Proof. destruct c; reflexivity. Qed.
Lemma enc_item_delim_ps35 c : enc_item_delim c = ps35_item_delim c.
Proof. destruct c; reflexivity. Qed.
Lemma enc_seq_delim_ps35 c : enc_seq_delim c = ps35_seq_delim c.
Proof. destruct c; reflexivity. Qed.

Lemma dec_item_explicit c e len rest :
  c <> ILE -> e < 65536 -> len < 4294967296 ->
  match take 8 (u16 c 65534 ++ u16 c e ++ u32 c len ++ rest) with
  | None => Err E_ReadItemHeader
  | Some (h, r) =>
      let t := (rd c (firstn 2 h), rd c (firstn 2 (skipn 2 h))) in
      match item_header_new t (rd c (skipn 4 h)) with
      | Ok x => Ok (x, r) | Err e => Err e | Panic w => Panic w
      end
  end =
  match item_header_new (65534, e) len with
  | Ok h => Ok (h, rest) | Err x => Err x | Panic w => Panic w end.
Proof.
  intros Hc He Hl.
  set (h := u16 c 65534 ++ u16 c e ++ u32 c len).
  replace (u16 c 65534 ++ u16 c e ++ u32 c len ++ rest) with (h ++ rest)
    by (unfold h; rewrite <- !app_assoc; reflexivity).
  rewrite take_app by (unfold h; rewrite !app_length, !u16_length, u32_length; reflexivity).
  cbv zeta.
  assert (F1 : firstn 2 h = u16 c 65534) by (unfold h; apply firstn_app_exact, u16_length).
  assert (F2 : skipn 2 h = u16 c e ++ u32 c len) by (unfold h; apply skipn_app_exact, u16_length).
  assert (F3 : skipn 4 h = u32 c len).
  { unfold h. rewrite app_assoc. apply skipn_app_exact. rewrite app_length, !u16_length. reflexivity. }
  rewrite F1, F2, F3, (firstn_app_exact (u16 c e)) by apply u16_length.
  rewrite !rd_u16, rd_u32 by (assumption || lia). reflexivity.
Qed.

Lemma dec_item_raw c e len rest :
  e < 65536 -> len < 4294967296 ->
  dec_item_header c (u16 c 65534 ++ u16 c e ++ u32 c len ++ rest) =
  match item_header_new (65534, e) len with
  | Ok h => Ok (h, rest) | Err x => Err x | Panic w => Panic w end.
Proof.
  intros He Hl. unfold dec_item_header. destruct c.
  - rewrite (dec_tag_app ILE E_ReadHeaderTag (65534, e)) by (cbn; lia || exact He).
    rewrite take_app by apply u32_length. rewrite rd_u32 by exact Hl. reflexivity.
  - apply dec_item_explicit; [discriminate|assumption|assumption].
  - apply dec_item_explicit; [discriminate|assumption|assumption].
Qed.

Lemma dec_item_header_item c len rest :
  len < 4294967296 -> dec_item_header c (ps35_item_header c len ++ rest) = Ok (Item len, rest).
Proof.
  intros Hl. unfold ps35_item_header. rewrite <- !u16_ps35, <- u32_ps35, <- !app_assoc.
  rewrite dec_item_raw by (lia || exact Hl). reflexivity.
Qed.
Lemma dec_item_header_item_delim c rest :
  dec_item_header c (ps35_item_delim c ++ rest) = Ok (ItemDelim, rest).
Proof.
  unfold ps35_item_delim. rewrite <- !u16_ps35, <- u32_ps35, <- !app_assoc.
  rewrite dec_item_raw by lia. reflexivity.
Qed.
Lemma dec_item_header_seq_delim c rest :
  dec_item_header c (ps35_seq_delim c ++ rest) = Ok (SeqDelim, rest).
Proof.
  unfold ps35_seq_delim. rewrite <- !u16_ps35, <- u32_ps35, <- !app_assoc.
  rewrite dec_item_raw by lia. reflexivity.
Qed.

(** In the explicit codecs [decode_header] also accepts item/delimiter headers
    (group FFFE): tag + 32-bit length, VR reported as UN, 8 bytes. *)
Lemma dec_header_item_tag c dict e len rest :
  c <> ILE -> e < 65536 -> len < 4294967296 ->
  dec_header c dict (u16 c 65534 ++ u16 c e ++ u32 c len ++ rest) = Ok ((65534, e), UN, len, 8, rest).
Proof.
  intros Hc He Hl. unfold dec_header.
  rewrite (dec_tag_app c E_ReadHeaderTag (65534, e)) by (cbn; lia || exact He).
  destruct c; [congruence| |]; cbn [fst N.eqb]; rewrite N.eqb_refl;
    rewrite take_app by apply u32_length; rewrite rd_u32 by exact Hl; reflexivity.
Qed.

(** * VR codes: finite sweep over all 65536 two-byte codes *)
Lemma in_n_range_from m : forall from k, from <= k -> k < from + N.of_nat m -> In k (n_range_from m from).
Proof.
  induction m as [|m IH]; intros from k H1 H2.
  - lia.
  - cbn [n_range_from]. destruct (N.eq_dec from k) as [->|Hne]; [left; reflexivity|].
    right. apply IH; lia.
Qed.
Lemma in_n_range n k : k < n -> In k (n_range n).
Proof.
  intros H. unfold n_range. apply in_n_range_from; [lia|]. rewrite N2Nat.id. lia.
Qed.

Definition code_defined_in (codes : list bytes) (c : N) : bool :=
  let key := [c / 256; c mod 256] in existsb (fun d => list_eqb N.eqb d key) codes.
Definition code_defined (c : N) : bool := code_defined_in ps35_defined_codes c.

(* complete sweep of the 65536 codes; the kernel evaluates it once, at Qed *)
Lemma vr_codes_sweep :
  (let codes := ps35_defined_codes in
   forallb (fun c => Bool.eqb (match vr_of_code c with Some _ => true | None => false end) (code_defined_in codes c))
           (n_range 65536)) = true.
Proof. vm_cast_no_check (eq_refl true). Qed.

Lemma code_defined_spec a b : code_defined (code_of a b) = true -> a < 256 -> b < 256 -> In [a; b] ps35_defined_codes.
Proof.
  intros H Ha Hb. unfold code_defined, code_defined_in in H. apply existsb_exists in H. destruct H as [d [Hin Hd]].
  apply (list_eqb_spec N.eqb) in Hd; [|intros; apply N.eqb_eq].
  unfold code_of in Hd.
  replace ((256 * a + b) / 256) with a in Hd by (symmetry; rewrite N.mul_comm, N.div_add_l by discriminate; rewrite N.div_small by exact Hb; lia).
  replace ((256 * a + b) mod 256) with b in Hd by (symmetry; rewrite N.add_comm, N.mul_comm, N.mod_add by discriminate; apply N.mod_small; exact Hb).
  subst d. exact Hin.
Qed.

Lemma vr_codes_iff a b :
  a < 256 -> b < 256 -> (vr_of_bytes a b <> None <-> In [a; b] ps35_defined_codes).
Proof.
  intros Ha Hb.
  assert (Hc : code_of a b < 65536) by (unfold code_of; lia).
  pose proof (proj1 (forallb_forall _ _) vr_codes_sweep _ (in_n_range _ _ Hc)) as S. cbn beta in S.
  fold (code_defined (code_of a b)) in S.
  assert (E : vr_of_code (code_of a b) = vr_of_bytes a b).
  { unfold vr_of_code, code_of.
    replace ((256 * a + b) / 256) with a by (symmetry; rewrite N.mul_comm, N.div_add_l by discriminate; rewrite N.div_small by exact Hb; lia).
    replace ((256 * a + b) mod 256) with b by (symmetry; rewrite N.add_comm, N.mul_comm, N.mod_add by discriminate; apply N.mod_small; exact Hb).
    reflexivity. }
  rewrite E in S. split.
  - intros Hn. apply code_defined_spec; try assumption.
    destruct (vr_of_bytes a b); [|congruence]. destruct (code_defined (code_of a b)); [reflexivity|discriminate].
  - intros Hin. destruct (vr_of_bytes a b) eqn:V; [discriminate|]. exfalso.
    assert (D : code_defined (code_of a b) = true).
    { unfold code_defined, code_defined_in. apply existsb_exists. exists [a; b]. split; [exact Hin|].
      unfold code_of.
      replace ((256 * a + b) / 256) with a by (symmetry; rewrite N.mul_comm, N.div_add_l by discriminate; rewrite N.div_small by exact Hb; lia).
      replace ((256 * a + b) mod 256) with b by (symmetry; rewrite N.add_comm, N.mul_comm, N.mod_add by discriminate; apply N.mod_small; exact Hb).
      cbn. rewrite !N.eqb_refl. reflexivity. }
    rewrite D in S. discriminate.
Qed.

(** Bytes >= 256 never occur in a byte source; for completeness the model rejects them too. *)

(** * The regenerated tables (behaviour of the real code) agree with the model *)
Lemma gen_vr_codes_tile : iv_tiles gen_vr_code_intervals 0 65536 = true.
Proof. vm_compute. reflexivity. Qed.

Lemma gen_vr_codes_agree_sweep :
  forallb (fun c => opt_eqb (opt_eqb N.eqb) (iv_lookup gen_vr_code_intervals c)
                      (Some (option_map vr_index (vr_of_code c)))) (n_range 65536) = true.
Proof. vm_cast_no_check (eq_refl true). Qed.

Lemma gen_vr_codes_agree c :
  c < 65536 -> iv_lookup gen_vr_code_intervals c = Some (option_map vr_index (vr_of_code c)).
Proof.
  intros H.
  pose proof (proj1 (forallb_forall _ _) gen_vr_codes_agree_sweep _ (in_n_range _ _ H)) as E. cbn beta in E.
  set (m := option_map vr_index (vr_of_code c)) in *. clearbody m.
  destruct (iv_lookup gen_vr_code_intervals c) as [x|]; [|discriminate]. unfold opt_eqb in E.
  destruct x as [x|], m as [y|]; try discriminate; try reflexivity.
  apply N.eqb_eq in E. subst. reflexivity.
Qed.

Lemma gen_vr_to_bytes_agree :
  gen_vr_to_bytes = map (fun v => (vr_index v, vr_chars v)) all_vrs.
Proof. vm_compute. reflexivity. Qed.

Lemma gen_vr_fromstr_ok : gen_vr_fromstr_tostring_consistent = true.
Proof. reflexivity. Qed.

(** Row of [gen_header_layout] predicted by the model for VR [v]:
    sizes at the six sites for a short length, then the three encoders at 0x10000. *)
Definition layout_row (v : vr) : N * list N :=
  let s := if short_vr v then 8 else 12 in
  (vr_index v, [s; s; 8; s; s; s; (if short_vr v then 1 else 12); (if short_vr v then 1 else 12); 8]).

Lemma gen_header_layout_agree : gen_header_layout = map layout_row all_vrs.
Proof. vm_compute. reflexivity. Qed.

(** ... and with the standard's list: every one of the seven places in the
    source that carries the 16-bit list uses exactly the PS3.5 list. *)
Lemma gen_header_layout_ps35 :
  forall i cols, In (i, cols) gen_header_layout ->
    exists v, vr_of_index i = Some v /\
      (forall k, (k < 6)%nat -> k <> 2%nat -> nth k cols 0 = if ps35_len16 v then 8 else 12) /\
      nth 2 cols 0 = 8 /\
      (forall k, k = 6%nat \/ k = 7%nat -> nth k cols 0 = if ps35_len16 v then 1 else 12) /\
      nth 8 cols 0 = 8.
Proof.
  rewrite gen_header_layout_agree. intros i cols Hin. apply in_map_iff in Hin.
  destruct Hin as [v [E _]]. unfold layout_row in E. inversion E; subst. exists v.
  rewrite <- short_vr_ps35. split; [destruct v; reflexivity|].
  split; [|split; [reflexivity|split; [|reflexivity]]].
  - intros k Hk Hk2. do 6 (destruct k as [|k]; [try reflexivity; congruence|]). lia.
  - intros k [-> | ->]; reflexivity.
Qed.
