(** The complete sweep over the regenerated keyword table (C14). *)
From DicomV Require Import Base.RustStr Proofs.RustStrP Model.TagText Model.TagTextStd Proofs.TagTextP.
From DicomV Require Import Gen.GenKeywords.

(** Complete sweep (vm_compute over every row of the regenerated table):
    each keyword contains no selector punctuation and [parse_tag] resolves it
    to the tag the dictionary holds for it (so no keyword is shadowed by a tag
    literal, and the table has no conflicting duplicate). *)
Lemma kw_sweep : forallb kw_row_ok kw_rows = true.
Proof. vm_compute. reflexivity. Qed.

(** the table is complete with respect to the source: every alias written in
    tags.rs was known to [by_name], and there is one row per distinct alias *)
Lemma kw_none_missing : kw_missing = 0.
Proof. reflexivity. Qed.
Lemma kw_rows_count : N.of_nat (length kw_rows) = kw_distinct_aliases.
Proof. vm_compute. reflexivity. Qed.
Lemma good_key_charsb_spec k : good_key_charsb k = true -> good_key_chars k.
Proof.
  unfold good_key_charsb, good_key_chars. rewrite negb_true_iff. intros H.
  assert (K : forall c, In c k -> (c =? dot) || (c =? lbracket) || (c =? rbracket) = false).
  { intros c Hin. destruct ((c =? dot) || (c =? lbracket) || (c =? rbracket)) eqn:E; [|reflexivity].
    assert (existsb (fun b => (b =? dot) || (b =? lbracket) || (b =? rbracket)) k = true)
      by (apply existsb_exists; exists c; split; assumption). congruence. }
  repeat split; intros Hin; specialize (K _ Hin); rewrite N.eqb_refl in K;
    rewrite ?orb_true_r in K; discriminate.
Qed.

Lemma tag_eqb_eq a b : tag_eqb a b = true -> a = b.
Proof.
  destruct a, b. unfold tag_eqb. cbn [fst snd]. rewrite andb_true_iff, !N.eqb_eq. intros [-> ->]. reflexivity.
Qed.

Lemma outcome_opt_tag_eq (a : outcome (option tag)) t :
  outcome_eqb (opt_eqb tag_eqb) a (Ok (Some t)) = true -> a = Ok (Some t).
Proof.
  destruct a as [[u|]| |]; cbn; try discriminate. intros H. apply tag_eqb_eq in H. subst. reflexivity.
Qed.

(** every keyword of the dictionary is a good selector key for its tag *)
Theorem keywords_good r :
  In r kw_rows -> good_key std_by_name (row_key r) (row_tag r).
Proof.
  intros Hin. pose proof kw_sweep as S. rewrite forallb_forall in S. specialize (S r Hin).
  unfold kw_row_ok in S. apply andb_true_iff in S as [Hc Hp]. split.
  - apply good_key_charsb_spec; exact Hc.
  - apply outcome_opt_tag_eq; exact Hp.
Qed.

(** a keyword is never a tag literal: [Tag::from_str] rejects every one of them *)
Definition not_literal (r : N * N) : bool :=
  match tag_from_str (row_key r) with Err _ => true | _ => false end.
Lemma kw_not_literal_sweep : forallb not_literal kw_rows = true.
Proof. vm_compute. reflexivity. Qed.

Theorem keywords_not_literals r :
  In r kw_rows -> exists e, tag_from_str (row_key r) = Err e.
Proof.
  intros Hin. pose proof kw_not_literal_sweep as S. rewrite forallb_forall in S. specialize (S r Hin).
  unfold not_literal in S. destruct (tag_from_str (row_key r)) as [|e|]; try discriminate. eauto.
Qed.
