(** C04 for whole files: the file meta group written by [Meta.write_meta]
    (model of the obj engineer, Model/Meta.v) is a canonical flat Explicit VR LE
    stream in the sense of Spec/Ps35.v, hence accepted by [ps35_valid]; the
    file is preamble ++ "DICM" ++ meta group ++ data set. *)
From Coq Require Import ZifyBool ZifyNat ZifyN.
From DicomV Require Import Base.Endian Model.Vr Model.Header Model.Prim Model.Dataset Model.Writer Model.File
  Spec.Ps35 Proofs.ValidP.
From DicomV Require Model.Meta Proofs.MetaP.
Open Scope N_scope.

(** the VR codes that occur in the meta group, with the header form the writer uses *)
Definition known_code (i : MetaP.item) : Prop :=
  (MetaP.i_v1 i = 79 /\ MetaP.i_v2 i = 66 /\ MetaP.i_long i = true) \/
  (MetaP.i_v1 i = 85 /\ MetaP.i_v2 i = 73 /\ MetaP.i_long i = false) \/
  (MetaP.i_v1 i = 83 /\ MetaP.i_v2 i = 72 /\ MetaP.i_long i = false) \/
  (MetaP.i_v1 i = 65 /\ MetaP.i_v2 i = 69 /\ MetaP.i_long i = false).

Definition item_vr (i : MetaP.item) : vr :=
  match ps35_vr_of_code [MetaP.i_v1 i; MetaP.i_v2 i] with Some v => v | None => UN end.
Definition item_celem (i : MetaP.item) : celem := CPrim (2, MetaP.i_el i) (item_vr i) (MetaP.i_val i).
Definition even_val (i : MetaP.item) : Prop := N.odd (Meta.blen (MetaP.i_val i)) = false.

Lemma odd_false_mod2 n : N.odd n = false -> n mod 2 = 0.
Proof.
  intros H. rewrite <- N.negb_even in H. apply Bool.negb_false_iff in H. apply N.even_spec in H.
  destruct H as [k ->]. rewrite N.mul_comm. apply N.mod_mul. discriminate.
Qed.

Lemma enc_item_canon is_sq i :
  known_code i -> MetaP.item_ok i -> even_val i ->
  MetaP.enc_item i = canon_elem ELE (item_celem i) /\
  cprim_ok ELE is_sq (2, MetaP.i_el i) (item_vr i) (MetaP.i_val i).
Proof.
  destruct i as [el v1 v2 long val]. unfold known_code, MetaP.item_ok, even_val, item_celem, item_vr, MetaP.enc_item.
  cbn [MetaP.i_el MetaP.i_v1 MetaP.i_v2 MetaP.i_long MetaP.i_val].
  intros K (Hel & _ & Hlen & _) Ev. apply odd_false_mod2 in Ev.
  change (Meta.blen val) with (ps35_len val) in *.
  destruct K as [(-> & -> & ->) | [(-> & -> & ->) | [(-> & -> & ->) | (-> & -> & ->)]]];
    (split; [reflexivity|]);
    (unfold cprim_ok, swf_tag; cbn [fst snd]; repeat split; try assumption; try lia; try discriminate;
     try (intros _; split; [reflexivity|]; cbn; intros; try discriminate; lia)).
Qed.

Lemma items_canon is_sq l :
  Forall known_code l -> Forall MetaP.item_ok l -> Forall even_val l ->
  concat (map MetaP.enc_item l) = canon_encode ELE (map item_celem l) /\
  all_cprim_ok ELE is_sq (map item_celem l).
Proof.
  induction l as [|i l IH]; intros K O E; [split; [reflexivity | exact I]|].
  inversion K; inversion O; inversion E; subst.
  destruct (enc_item_canon is_sq i) as [E1 C1]; try assumption.
  destruct IH as [E2 C2]; try assumption.
  cbn [map concat canon_encode]. rewrite E1, E2. split; [reflexivity|].
  unfold item_celem at 1. cbn [all_cprim_ok]. split; assumption.
Qed.

(** every element of the group has one of the four codes and an even value field *)
Lemma txt_known el v1 v2 pad s :
  (v1 = 85 /\ v2 = 73) \/ (v1 = 83 /\ v2 = 72) \/ (v1 = 65 /\ v2 = 69) ->
  known_code (MetaP.txt_item el v1 v2 pad s) /\ even_val (MetaP.txt_item el v1 v2 pad s).
Proof.
  intros H. split; [|apply MetaP.even_blen_pad_even].
  unfold known_code, MetaP.txt_item; cbn. destruct H as [[-> ->] | [[-> ->] | [-> ->]]]; auto 10.
Qed.
Lemma opt_known el v1 v2 pad o :
  (v1 = 85 /\ v2 = 73) \/ (v1 = 83 /\ v2 = 72) \/ (v1 = 65 /\ v2 = 69) ->
  Forall known_code (MetaP.opt_item el v1 v2 pad o) /\ Forall even_val (MetaP.opt_item el v1 v2 pad o).
Proof.
  intros H. destruct o as [s|]; cbn [MetaP.opt_item]; [|split; constructor].
  destruct (txt_known el v1 v2 pad s H). split; constructor; (assumption || constructor).
Qed.
Lemma ob_known el b : known_code (MetaP.ob_item el b) /\ even_val (MetaP.ob_item el b).
Proof. split; [left; repeat split | apply MetaP.even_blen_pad_even]. Qed.

Lemma items_of_known t : Forall known_code (MetaP.items_of t) /\ Forall even_val (MetaP.items_of t).
Proof.
  unfold MetaP.items_of.
  pose proof (ob_known 1 [fst (Meta.m_ver t); snd (Meta.m_ver t)]) as [A1 B1].
  pose proof (txt_known 2 85 73 0 (Meta.m_sop_class t)) as [A2 B2]; [auto|].
  pose proof (txt_known 3 85 73 0 (Meta.m_sop_inst t)) as [A3 B3]; [auto|].
  pose proof (txt_known 16 85 73 0 (Meta.m_ts t)) as [A4 B4]; [auto|].
  pose proof (txt_known 18 85 73 0 (Meta.m_impl_class t)) as [A5 B5]; [auto|].
  pose proof (opt_known 19 83 72 32 (Meta.m_impl_ver t)) as [A6 B6]; [auto|].
  pose proof (opt_known 22 65 69 32 (Meta.m_src_ae t)) as [A7 B7]; [auto|].
  pose proof (opt_known 23 65 69 32 (Meta.m_snd_ae t)) as [A8 B8]; [auto|].
  pose proof (opt_known 24 65 69 32 (Meta.m_rcv_ae t)) as [A9 B9]; [auto|].
  pose proof (opt_known 256 85 73 0 (Meta.m_priv_creator t)) as [A10 B10]; [auto|].
  assert (P : Forall known_code (match Meta.m_priv_info t with Some b => [MetaP.ob_item 258 b] | None => [] end)
              /\ Forall even_val (match Meta.m_priv_info t with Some b => [MetaP.ob_item 258 b] | None => [] end)).
  { destruct (Meta.m_priv_info t) as [b|]; [|split; constructor]. destruct (ob_known 258 b). split; constructor; (assumption || constructor). }
  destruct P as [A11 B11].
  split; repeat (apply Forall_app; split); try assumption; repeat (constructor; try assumption).
Qed.

(** the group length element *)
Definition glen_celem (g : N) : celem := CPrim (2, 0) UL (le32 g).
Lemma enc_ul_canon is_sq g h :
  Meta.enc_ul 0 g = Ok h -> h = canon_elem ELE (glen_celem g) /\ cprim_ok ELE is_sq (2, 0) UL (le32 g).
Proof.
  unfold Meta.enc_ul, Meta.hdr16. change (65535 <? Meta.even_len 4) with false. cbv iota. cbn [bind].
  intros H. inversion H; subst h. split; [reflexivity|].
  unfold cprim_ok, swf_tag, ps35_len, le32. rewrite le_bytes_length. cbn [fst snd].
  repeat split; try lia; try discriminate.
Qed.

(** The meta group as a canonical stream of the spec. *)
Definition meta_celems (t : Meta.meta) : list celem :=
  glen_celem (Meta.m_glen t) :: map item_celem (MetaP.items_of t).

Lemma write_meta_canon is_sq t m :
  Meta.ascii_table t = true -> MetaP.small t -> Meta.write_meta t = Ok m ->
  m = canon_encode ELE (meta_celems t) /\ all_cprim_ok ELE is_sq (meta_celems t).
Proof.
  intros Ha Hs W. unfold Meta.write_meta in W.
  destruct (Meta.enc_ul 0 (Meta.m_glen t)) as [g| |] eqn:Eg; cbn [bind] in W; try discriminate.
  destruct (Meta.write_body t) as [b| |] eqn:Eb; cbn [bind] in W; try discriminate.
  inversion W; subst m.
  destruct (MetaP.write_body_items t b Ha Hs Eb) as [-> Ok].
  destruct (items_of_known t) as [K E].
  destruct (items_canon is_sq _ K Ok E) as [E2 C2].
  destruct (enc_ul_canon is_sq _ _ Eg) as [-> C1].
  unfold meta_celems. cbn [canon_encode all_cprim_ok glen_celem]. rewrite E2. split; [reflexivity|]. split; assumption.
Qed.

(** V for the meta group: accepted by the PS3.5 structural validator in Explicit VR LE. *)
Lemma write_meta_valid is_sq t m :
  Meta.ascii_table t = true -> MetaP.small t -> Meta.write_meta t = Ok m -> ps35_valid ELE is_sq m = true.
Proof.
  intros Ha Hs W. destruct (write_meta_canon is_sq t m Ha Hs W) as [-> C]. apply ps35_valid_flat. exact C.
Qed.

(** Shape of a written file. *)
Lemma write_file_shape reg deflate t inv obj f :
  write_file reg deflate t inv obj = Ok f ->
  exists m ci kind c body,
    Meta.write_meta t = Ok m /\
    reg_get reg (Meta.trim_pad (Meta.m_ts t)) = Some (ci, kind) /\ kind <> 2 /\ enc_of_index ci = Some c /\
    write_dataset c false inv obj = Ok body /\
    f = file_preamble ++ file_magic ++ m ++ (if kind =? 1 then deflate body else body).
Proof.
  unfold write_file, write_file_meta, write_file_dataset. intros W.
  destruct (Meta.write_meta t) as [m| |] eqn:E1; try discriminate.
  destruct (reg_get reg (Meta.trim_pad (Meta.m_ts t))) as [[ci kind]|] eqn:E2; try discriminate.
  destruct (kind =? 2) eqn:K2; try discriminate.
  destruct (enc_of_index ci) as [c|] eqn:E3; try discriminate.
  destruct (write_dataset c false inv obj) as [body| |] eqn:E4; try discriminate.
  inversion W. exists m, ci, kind, c, body.
  split; [reflexivity|]. split; [reflexivity|]. split; [apply N.eqb_neq; exact K2|].
  split; [exact E3|]. split; [exact E4 | reflexivity].
Qed.
