(** Lemmas about Model/Client.v (C29). *)
From DicomV Require Import Model.Client Proofs.NegotiateP.
Require Import ZifyBool ZifyNat ZifyN.
Ltac Zify.zify_post_hook ::= Z.div_mod_to_equations.

(** * trim_uid is idempotent *)
Lemma drop_while_head p s :
  match drop_while p s with c :: _ => p c = false | [] => True end.
Proof.
  induction s as [|c s IH]; cbn; [exact I|]. destruct (p c) eqn:E; [exact IH | exact E].
Qed.

Lemma ends_with_nul_trim_uid s : ends_with_nul (trim_uid s) = false.
Proof.
  unfold trim_uid. destruct (ends_with_nul s) eqn:E; [|exact E].
  unfold ends_with_nul, trim_end_matches. rewrite rev_involutive.
  pose proof (drop_while_head ws_or_nul (rev s)) as H.
  destruct (drop_while ws_or_nul (rev s)) as [|c r]; [reflexivity|].
  unfold ws_or_nul in H. apply orb_false_iff in H. apply H.
Qed.

Lemma trim_uid_idem s : trim_uid (trim_uid s) = trim_uid s.
Proof.
  unfold trim_uid at 1. rewrite ends_with_nul_trim_uid. reflexivity.
Qed.

(** everything the builder stores is a fixed point of trim_uid *)
Lemma with_presentation_context_normal c a tss :
  cfg_normal c -> cfg_normal (with_presentation_context c a tss).
Proof.
  unfold cfg_normal. cbn. intros H. apply Forall_app. split; [exact H|].
  constructor; [cbn; apply trim_uid_idem | constructor].
Qed.

(** * Presentation context identifiers *)
Lemma propose_from_length i pcs : length (propose_from i pcs) = length pcs.
Proof. revert i. induction pcs as [|[a t] l IH]; intros i; cbn; [reflexivity | rewrite IH; reflexivity]. Qed.

Lemma propose_ids_bounds i pcs :
  i + N.of_nat (length pcs) <= 128 ->
  Forall (fun p => 2 * i + 1 <= pp_id p /\ pp_id p <= 255 /\ N.odd (pp_id p) = true) (propose_from i pcs).
Proof.
  revert i. induction pcs as [|[a t] l IH]; intros i H; cbn; [constructor|].
  cbn [length] in H. constructor.
  - cbn. assert (E : (2 * i + 1) mod 256 = 2 * i + 1) by (apply N.mod_small; lia).
    rewrite E. split; [lia|]. split; [lia|].
    rewrite N.add_comm. rewrite N.odd_add_mul_2. reflexivity.
  - assert (H' : i + 1 + N.of_nat (length l) <= 128) by lia.
    specialize (IH (i + 1) H'). eapply Forall_impl; [|exact IH].
    cbn. intros p [H1 H2]. split; [lia | exact H2].
Qed.

Lemma propose_ids_nodup i pcs :
  i + N.of_nat (length pcs) <= 128 -> NoDup (map pp_id (propose_from i pcs)).
Proof.
  revert i. induction pcs as [|[a t] l IH]; intros i H; cbn; [constructor|].
  cbn [length] in H.
  assert (H' : i + 1 + N.of_nat (length l) <= 128) by lia.
  constructor; [|apply IH; exact H'].
  intros Hin. apply in_map_iff in Hin. destruct Hin as [p [Hp Hin]].
  pose proof (propose_ids_bounds (i + 1) l H') as B. rewrite Forall_forall in B.
  destruct (B p Hin) as [B1 _].
  assert (E : (2 * i + 1) mod 256 = 2 * i + 1) by (apply N.mod_small; lia).
  rewrite E in Hp. lia.
Qed.

Lemma propose_ids_exact i pcs :
  i + N.of_nat (length pcs) <= 128 ->
  map pp_id (propose_from i pcs) = map (fun k => 2 * (i + N.of_nat k) + 1) (seq 0 (length pcs)).
Proof.
  revert i. induction pcs as [|[a t] l IH]; intros i H; cbn [propose_from length seq map]; [reflexivity|].
  cbn [length] in H. f_equal.
  - cbn. replace (i + 0) with i by lia. apply N.mod_small. lia.
  - rewrite IH by lia. rewrite <- seq_shift, map_map. apply map_ext. intros k. lia.
Qed.

Lemma create_rq_inv c ae proposed rq :
  create_rq c ae = Ok (proposed, rq) ->
  cc_pcs c <> [] /\ (length (cc_pcs c) <= MAX_CONTEXTS)%nat /\ proposed = propose_from 0 (cc_pcs c) /\
  rq_pcs rq = proposed /\ rq_proto rq = cc_proto c /\
  rq_uvars rq = UvMaxLength (cc_max_pdu c) :: UvOther :: UvOther :: repeat UvOther (cc_extra c).
Proof.
  unfold create_rq. destruct (cc_pcs c) as [|pc l] eqn:E; [discriminate|].
  destruct (Nat.ltb MAX_CONTEXTS (length (pc :: l))) eqn:L; [discriminate|].
  apply Nat.ltb_ge in L. intros H; inversion H; subst; cbn. repeat split; try reflexivity; [discriminate | exact L].
Qed.

Lemma create_rq_too_many c ae :
  (MAX_CONTEXTS < length (cc_pcs c))%nat -> create_rq c ae = Err E_TOO_MANY_CONTEXTS.
Proof.
  unfold create_rq. intros H. destruct (cc_pcs c) as [|pc l] eqn:E; [cbn in H; lia|].
  apply Nat.ltb_lt in H. rewrite H. reflexivity.
Qed.

Lemma create_rq_ids c ae proposed rq :
  create_rq c ae = Ok (proposed, rq) ->
  NoDup (map pp_id proposed) /\
  Forall (fun p => 1 <= pp_id p <= 255 /\ N.odd (pp_id p) = true) proposed /\
  map pp_id proposed = map (fun k => 2 * N.of_nat k + 1) (seq 0 (length proposed)) /\
  map pp_id (rq_pcs rq) = map pp_id proposed.
Proof.
  intros H. destruct (create_rq_inv _ _ _ _ H) as [_ [L [-> [E _]]]].
  assert (B : 0 + N.of_nat (length (cc_pcs c)) <= 128) by (unfold MAX_CONTEXTS in L; lia).
  split; [apply propose_ids_nodup; exact B|].
  split; [eapply Forall_impl; [|apply propose_ids_bounds; exact B]; cbn; intros p [H1 [H2 H3]];
          split; [lia | exact H3]|].
  split; [|rewrite E; reflexivity].
  rewrite propose_from_length. rewrite propose_ids_exact by exact B. apply map_ext. intros k. lia.
Qed.

(** * What the requestor makes of the answer *)
Lemma find_proposed_nodup proposed p :
  NoDup (map pp_id proposed) -> In p proposed -> find_proposed (pp_id p) proposed = Some p.
Proof.
  unfold find_proposed. induction proposed as [|q l IH]; intros ND Hin; [destruct Hin|].
  cbn in ND. inversion ND as [|? ? Hq NDl]; subst. cbn.
  destruct Hin as [->|Hin].
  - rewrite N.eqb_refl. reflexivity.
  - destruct (N.eqb_spec (pp_id q) (pp_id p)) as [E|_].
    + exfalso. apply Hq. rewrite E. apply in_map. exact Hin.
    + apply IH; assumption.
Qed.

Lemma accepted_contexts_all_accepted proposed rs :
  Forall (fun p => pn_reason p = R_ACCEPT) (accepted_contexts proposed rs).
Proof.
  induction rs as [|r rs IH]; cbn; [constructor|].
  destruct (N.eqb_spec (pr_reason r) R_ACCEPT) as [E|_]; [|exact IH].
  destruct (find_proposed (pr_id r) proposed); [|exact IH].
  constructor; [exact E | exact IH].
Qed.

Lemma accepted_contexts_none proposed rs :
  (forall r, In r rs -> pr_reason r <> R_ACCEPT) -> accepted_contexts proposed rs = [].
Proof.
  induction rs as [|r rs IH]; intros H; cbn; [reflexivity|].
  destruct (N.eqb_spec (pr_reason r) R_ACCEPT) as [E|_].
  - exfalso. exact (H r (or_introl eq_refl) E).
  - apply IH. intros r' Hr'. apply H. right; exact Hr'.
Qed.

Lemma process_resp_none c proposed ac :
  cc_proto c = ac_proto ac -> accepted_contexts proposed (ac_pcs ac) = [] ->
  process_resp c proposed (RespAC ac) = Err E_NONE_ACCEPTED.
Proof. intros E H. cbn. rewrite E, N.eqb_refl, H. reflexivity. Qed.

Lemma process_resp_ok_inv c proposed msg pcs m t :
  process_resp c proposed msg = Ok (pcs, m, t) ->
  exists ac, msg = RespAC ac /\ cc_proto c = ac_proto ac /\ pcs = accepted_contexts proposed (ac_pcs ac) /\
             pcs <> [] /\ m = acceptor_max (ac_uvars ac) /\ t = ac_called ac.
Proof.
  destruct msg as [ac| | |]; cbn; try discriminate.
  destruct (N.eqb_spec (cc_proto c) (ac_proto ac)) as [E|]; [|discriminate]. cbn.
  destruct (accepted_contexts proposed (ac_pcs ac)) as [|p l] eqn:A; [discriminate|].
  intros H; inversion H; subst. exists ac.
  split; [reflexivity|]. split; [exact E|]. split; [symmetry; exact A|].
  split; [discriminate|]. split; reflexivity.
Qed.

(** * Agreement of the two sides *)
Section Agree.
  Variable reg : str -> option bool.
  Variable sc : server_cfg.

  Lemma accepted_ts_in pc :
    pn_reason (negotiate_pc reg sc pc) = R_ACCEPT -> In (pn_ts (negotiate_pc reg sc pc)) (pp_ts pc).
  Proof.
    intros H. destruct (chosen_first reg sc pc H) as [l1 [l2 [E _]]]. rewrite E. apply in_elt.
  Qed.

  Definition pc_clean (p : pc_proposed) : Prop :=
    wire_clean (pp_abs p) /\ Forall wire_clean (pp_ts p) /\ trim_uid (pp_abs p) = pp_abs p.

  Lemma wire_pc_clean p : pc_clean p -> wire_pc p = p.
  Proof.
    intros [Ha [Ht _]]. destruct p as [i a t]; cbn in *. unfold wire_pc; cbn. f_equal; [exact Ha|].
    induction Ht as [|x l Hx _ IH]; cbn; [reflexivity|].
    unfold wire_clean in Hx. unfold wire_uid at 1. rewrite Hx, IH; reflexivity.
  Qed.

  Lemma views_agree proposed l :
    NoDup (map pp_id proposed) -> (forall p, In p l -> In p proposed) -> Forall pc_clean l ->
    map view (accepted_contexts proposed (map wire_result (map to_result (map (negotiate_pc reg sc) l))))
    = accepted_view (map (negotiate_pc reg sc) l).
  Proof.
    intros ND Hsub Hc. induction l as [|p l IH]; [reflexivity|].
    inversion Hc as [|? ? Hp Hl]; subst.
    assert (IH' := IH (fun q Hq => Hsub q (or_intror Hq)) Hl). clear IH.
    cbn [map accepted_contexts]. unfold accepted_view in *. cbn [map filter].
    cbn [wire_result to_result pr_reason pr_id pr_ts].
    destruct (N.eqb_spec (pn_reason (negotiate_pc reg sc p)) R_ACCEPT) as [E|_]; [|exact IH'].
    rewrite negotiate_pc_id. rewrite (find_proposed_nodup proposed p ND (Hsub p (or_introl eq_refl))).
    cbn [map]. rewrite IH'. f_equal. unfold view; cbn.
    destruct Hp as [_ [Ht Hn]].
    pose proof (accepted_ts_in p E) as Hin. rewrite Forall_forall in Ht.
    rewrite (Ht _ Hin : wire_uid _ = _).
    destruct (negotiate_pc_rule reg sc p) as [Hi [Ha _]]. rewrite Ha, Hn, Hi. reflexivity.
  Qed.
End Agree.

Lemma propose_from_clean i pcs :
  Forall (fun pc => wire_clean (fst pc) /\ Forall wire_clean (snd pc)) pcs ->
  Forall (fun pc => trim_uid (fst pc) = fst pc) pcs ->
  Forall pc_clean (propose_from i pcs).
Proof.
  revert i. induction pcs as [|[a t] l IH]; intros i H1 H2; cbn; [constructor|].
  inversion H1 as [|? ? [Ha Ht] H1']; inversion H2 as [|? ? Hn H2']; subst. cbn in *.
  constructor; [repeat split; assumption | apply IH; assumption].
Qed.

Lemma map_wire_pc_clean l : Forall pc_clean l -> map wire_pc l = l.
Proof.
  induction 1 as [|p l Hp _ IH]; cbn; [reflexivity|]. rewrite (wire_pc_clean p Hp), IH. reflexivity.
Qed.

Lemma last_max_repeat_other n : last_max (repeat UvOther n) = None.
Proof. induction n as [|n IH]; cbn; [reflexivity | rewrite IH; reflexivity]. Qed.

Lemma requestor_max_of_client m n :
  requestor_max (UvMaxLength m :: UvOther :: UvOther :: repeat UvOther n) = norm_max m.
Proof.
  unfold requestor_max. rewrite fold_max_last. cbn [last_max]. rewrite last_max_repeat_other. reflexivity.
Qed.

Lemma norm_max_valid m : valid_local_max m = true -> norm_max m = m.
Proof.
  unfold valid_local_max, norm_max, MINIMUM_PDU_SIZE, MAXIMUM_PDU_SIZE. intros H.
  destruct (N.eqb_spec m 0); lia.
Qed.

Lemma norm_max_bounds m : 0 < norm_max m /\ norm_max m <= MAXIMUM_PDU_SIZE.
Proof. unfold norm_max, MAXIMUM_PDU_SIZE. destruct (N.eqb_spec m 0); lia. Qed.

Theorem agree reg cc sc ae proposed rq pcs_s pm_s acs am x y z pcs_c pm_c peer :
  cfg_normal cc -> cfg_wire_clean cc ->
  create_rq cc ae = Ok (proposed, rq) ->
  process_rq reg sc (InRQ (wire_rq rq)) = OAccept pcs_s pm_s acs am x y z ->
  process_resp cc proposed (reply_of sc (OAccept pcs_s pm_s acs am x y z)) = Ok (pcs_c, pm_c, peer) ->
  map view pcs_c = accepted_view pcs_s /\
  Forall (fun p => pn_reason p = R_ACCEPT) pcs_c /\
  pm_s = norm_max (cc_max_pdu cc) /\ pm_c = norm_max (sc_max_pdu sc) /\
  (valid_local_max (cc_max_pdu cc) = true -> pm_s = cc_max_pdu cc) /\
  (valid_local_max (sc_max_pdu sc) = true -> pm_c = sc_max_pdu sc).
Proof.
  intros Hn Hw Hc Hs Hr.
  destruct (create_rq_ids _ _ _ _ Hc) as [ND _].
  destruct (create_rq_inv _ _ _ _ Hc) as [_ [_ [Ep [Eq [_ Eu]]]]].
  assert (Hclean : Forall pc_clean proposed) by (rewrite Ep; apply propose_from_clean; assumption).
  destruct (process_accept_inv _ _ _ _ _ _ _ _ _ _ Hs) as [Es [Ea [Em [Eam _]]]].
  cbn [wire_rq rq_pcs rq_uvars] in Es, Em. rewrite Eq, (map_wire_pc_clean _ Hclean) in Es.
  destruct (process_resp_ok_inv _ _ _ _ _ _ Hr) as [ac [Eac [_ [Epc [_ [Emc _]]]]]].
  cbn in Eac. inversion Eac; subst ac; clear Eac. cbn [ac_pcs ac_uvars] in Epc, Emc.
  assert (V : map view pcs_c = accepted_view pcs_s).
  { rewrite Epc, Ea, Es. apply views_agree; [exact ND | auto | exact Hclean]. }
  assert (Ms : pm_s = norm_max (cc_max_pdu cc)) by (rewrite Em, Eu; apply requestor_max_of_client).
  assert (Mc : pm_c = norm_max (sc_max_pdu sc)) by (rewrite Emc, Eam; reflexivity).
  split; [exact V|]. split; [rewrite Epc; apply accepted_contexts_all_accepted|].
  split; [exact Ms|]. split; [exact Mc|].
  split; intros Hv; [rewrite Ms | rewrite Mc]; apply norm_max_valid; exact Hv.
Qed.

(** nothing accepted by the acceptor => the requestor fails *)
Theorem none_accepted reg cc sc ae proposed rq pcs_s pm_s acs am x y z :
  create_rq cc ae = Ok (proposed, rq) ->
  process_rq reg sc (InRQ (wire_rq rq)) = OAccept pcs_s pm_s acs am x y z ->
  accepted_view pcs_s = [] ->
  process_resp cc proposed (reply_of sc (OAccept pcs_s pm_s acs am x y z)) = Err E_NONE_ACCEPTED
  \/ (cc_proto cc <> sc_proto sc /\
      process_resp cc proposed (reply_of sc (OAccept pcs_s pm_s acs am x y z)) = Err E_PROTO_MISMATCH).
Proof.
  intros Hc Hs Hv.
  destruct (process_accept_inv _ _ _ _ _ _ _ _ _ _ Hs) as [_ [Ea _]].
  cbn [reply_of process_resp ac_proto ac_pcs].
  destruct (N.eqb_spec (cc_proto cc) (sc_proto sc)) as [E|NE]; cbn [negb].
  - left. rewrite accepted_contexts_none; [reflexivity|].
    intros r Hr. apply in_map_iff in Hr. destruct Hr as [r0 [<- Hr0]]. cbn.
    rewrite Ea in Hr0. apply in_map_iff in Hr0. destruct Hr0 as [p [<- Hp]]. cbn.
    intros Hacc. unfold accepted_view in Hv.
    assert (Hin : In p (filter (fun p => pn_reason p =? R_ACCEPT) pcs_s)).
    { apply filter_In. split; [exact Hp | apply N.eqb_eq; exact Hacc]. }
    destruct (filter (fun p => pn_reason p =? R_ACCEPT) pcs_s); [destruct Hin | discriminate].
  - right. split; [exact NE | reflexivity].
Qed.

(** * Send-size limit *)
Lemma send_check_ok pm len : send_check pm len = Ok tt -> len <= pm + PDU_HEADER_SIZE /\ pm + PDU_HEADER_SIZE <= U32_MAX.
Proof.
  unfold send_check. destruct (N.ltb_spec U32_MAX (pm + PDU_HEADER_SIZE)); [discriminate|].
  destruct (N.ltb_spec (pm + PDU_HEADER_SIZE) len); [discriminate|]. intros _. split; assumption.
Qed.

Lemma send_check_total pm len : pm <= MAXIMUM_PDU_SIZE ->
  send_check pm len = if pm + PDU_HEADER_SIZE <? len then Err E_SEND_TOO_LONG else Ok tt.
Proof.
  unfold send_check, MAXIMUM_PDU_SIZE, PDU_HEADER_SIZE, U32_MAX. intros H.
  destruct (N.ltb_spec 4294967295 (pm + 6)); [lia | reflexivity].
Qed.
