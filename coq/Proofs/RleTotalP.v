(** Panic freedom of the RLE Lossless decoder model (after fix 52b40dc):
    for every object and every fragment bytes, decode / decode_frame return a
    value or an error. Used by C05. *)
From DicomV Require Import Model.Rle.

Lemma np_bind {A B} (o : outcome A) (f : A -> outcome B) :
  is_panic o = false -> (forall a, is_panic (f a) = false) -> is_panic (bind o f) = false.
Proof. destruct o; cbn; intros H Hf; [apply Hf|reflexivity|discriminate]. Qed.

Lemma unpack_fuel_np fuel : forall seg, is_panic (unpack_fuel fuel seg) = false.
Proof.
  induction fuel as [|fuel IH]; intros seg; [reflexivity|].
  cbn [unpack_fuel]. destruct seg as [|h rest]; [reflexivity|].
  destruct (h <=? 127).
  - apply np_bind; [apply IH|reflexivity].
  - destruct (h =? 128); [apply IH|].
    destruct rest as [|x rest']; [reflexivity|]. apply np_bind; [apply IH|reflexivity].
Qed.

Lemma unpack_np seg : is_panic (unpack seg) = false.
Proof. apply unpack_fuel_np. Qed.

Lemma read_rle_header_np frag : is_panic (read_rle_header frag) = false.
Proof.
  unfold read_rle_header. destruct (len frag <? 4); [reflexivity|].
  destruct (15 <? le_val (firstn 4 frag)); [reflexivity|].
  destruct (len frag <? 4 * (le_val (firstn 4 frag) + 1)); reflexivity.
Qed.

Lemma place_np seg : forall idx step endi dst, is_panic (place seg idx step endi dst) = false.
Proof.
  induction seg as [|x seg IH]; intros idx step endi dst; cbn [place];
    destruct (endi <=? idx)%nat; try reflexivity. apply IH.
Qed.

Lemma slice_range_np frag a b : is_panic (slice_range frag a b) = false.
Proof. unfold slice_range. destruct ((a <=? b) && (b <=? len frag)); reflexivity. Qed.

Lemma index_np l i : is_panic (index l i) = false.
Proof. unfold index. destruct (nth_error l i); reflexivity. Qed.

Lemma decoded_segment_np frag offsets npix bps sb :
  is_panic (decoded_segment frag offsets npix bps sb) = false.
Proof.
  destruct sb as [s b]. unfold decoded_segment.
  apply np_bind; [apply index_np|intros a].
  apply np_bind; [apply index_np|intros e].
  apply np_bind; [apply slice_range_np|intros seg].
  apply np_bind; [apply unpack_np|reflexivity].
Qed.

Lemma step_sb_np frag offsets npix bps spp fs fz acc sb :
  is_panic acc = false -> is_panic (step_sb frag offsets npix bps spp fs fz acc sb) = false.
Proof.
  intros H. unfold step_sb. apply np_bind; [exact H|intros dst].
  apply np_bind; [apply decoded_segment_np|intros ds]. apply place_np.
Qed.

Lemma fold_step_np frag offsets npix bps spp fs fz l : forall acc,
  is_panic acc = false ->
  is_panic (fold_left (step_sb frag offsets npix bps spp fs fz) l acc) = false.
Proof.
  induction l as [|sb l IH]; intros acc H; cbn [fold_left]; [exact H|].
  apply IH. apply step_sb_np; exact H.
Qed.

Lemma decode_into_np rows cols spp bps frag fs dst :
  is_panic (decode_into rows cols spp bps frag fs dst) = false.
Proof.
  unfold decode_into. apply np_bind; [apply read_rle_header_np|intros hdr].
  apply fold_step_np. reflexivity.
Qed.

Theorem decode_frame_np o frame : is_panic (decode_frame o frame) = false.
Proof.
  unfold decode_frame. destruct (negb (bits_ok (o_bits o))); [reflexivity|].
  destruct (N.of_nat (length (o_frags o)) <=? frame); [reflexivity|].
  destruct (nth_error (o_frags o) (N.to_nat frame)); [apply decode_into_np|reflexivity].
Qed.

Lemma decode_loop_np o frags : forall i acc,
  is_panic acc = false -> is_panic (decode_loop o frags i acc) = false.
Proof.
  induction frags as [|frag rest IH]; intros i acc H; cbn [decode_loop]; [exact H|].
  apply IH. apply np_bind; [exact H|intros dst]. apply decode_into_np.
Qed.

Theorem decode_np o : is_panic (decode o) = false.
Proof.
  unfold decode. destruct (negb (bits_ok (o_bits o))); [reflexivity|].
  apply decode_loop_np. reflexivity.
Qed.
