(** Value-level round trips (C01 layer 2): what [read_value_preserved] makes of
    the bytes the encoder wrote. *)
From Coq Require Import ZifyBool ZifyNat ZifyN.
From DicomV Require Import Base.Endian Model.Vr Model.Header Model.Prim Model.Dataset Model.Reader
  Proofs.HeaderP Proofs.PrimP.
Open Scope N_scope.

(** * Binary words *)
Definition word (c : codec) (k : nat) (n : N) : bytes := match c with EBE => be_bytes k n | _ => le_bytes k n end.
Lemma word_length c k n : length (word c k n) = k.
Proof. destruct c; cbn; rewrite ?le_bytes_length, ?be_bytes_length; reflexivity. Qed.
Lemma rd_word c k n : n < 2 ^ (8 * N.of_nat k) -> rd c (word c k n) = n.
Proof.
  intros H. destruct c; cbn [rd word];
    [apply le_val_le_bytes_small | apply le_val_le_bytes_small | apply be_val_be_bytes_small]; exact H.
Qed.

Lemma enc_words_cons c k x l : enc_words c k (x :: l) = word c k x ++ enc_words c k l.
Proof. reflexivity. Qed.

Lemma chunks_enc_words c k l rest :
  chunks k (length l) (enc_words c k l ++ rest) = map (word c k) l.
Proof.
  induction l as [|x l IH]; [reflexivity|].
  rewrite enc_words_cons, <- app_assoc. cbn [length chunks map].
  rewrite firstn_app_exact, skipn_app_exact by apply word_length. rewrite IH. reflexivity.
Qed.

(** Decoding the words that were encoded gives the same numbers (any trailing bytes ignored). *)
Lemma dec_words_enc_words c k l rest :
  Forall (fun n => n < 2 ^ (8 * N.of_nat k)) l ->
  dec_words c k (length l) (enc_words c k l ++ rest) = l.
Proof.
  intros H. unfold dec_words. rewrite chunks_enc_words, map_map.
  induction H as [|x l Hx Hl IH]; [reflexivity|]. cbn [map]. rewrite rd_word by exact Hx. rewrite IH. reflexivity.
Qed.

Lemma enc_words_length c k l : length (enc_words c k l) = (length l * k)%nat.
Proof.
  induction l as [|x l IH]; [reflexivity|]. rewrite enc_words_cons, app_length, word_length, IH. cbn. lia.
Qed.

(** * Backslash-separated text *)
Definition no_sep (s : bytes) : Prop := ~ In 92 s.

Lemma split_no_sep s : no_sep s -> split_on_byte 92 s = [s].
Proof.
  induction s as [|x s IH]; intros H; [reflexivity|].
  cbn [split_on_byte]. destruct (N.eqb_spec x 92) as [->|Hx]; [exfalso; apply H; left; reflexivity|].
  rewrite IH by (intros Hin; apply H; right; exact Hin). reflexivity.
Qed.

Lemma split_app_sep s rest : no_sep s ->
  split_on_byte 92 (s ++ 92 :: rest) = s :: split_on_byte 92 rest.
Proof.
  induction s as [|x s IH]; intros H.
  - cbn. reflexivity.
  - cbn [app split_on_byte]. destruct (N.eqb_spec x 92) as [->|Hx]; [exfalso; apply H; left; reflexivity|].
    rewrite IH by (intros Hin; apply H; right; exact Hin). reflexivity.
Qed.

(** Splitting the joined components gives the components back (none contains a backslash). *)
Lemma split_join l : l <> [] -> Forall no_sep l -> split_on_byte 92 (join_bs l) = l.
Proof.
  induction l as [|x l IH]; [congruence|]. intros _ H.
  inversion H as [|? ? Hx Hl]; subst.
  destruct l as [|y l]; [cbn; apply split_no_sep; exact Hx|].
  change (join_bs (x :: y :: l)) with (x ++ 92 :: join_bs (y :: l)).
  rewrite split_app_sep by exact Hx. rewrite IH by (discriminate || exact Hl). reflexivity.
Qed.

(** The pad byte (space or NUL, never a backslash) stays with the last component. *)
Fixpoint pad_last (pad : N) (l : list bytes) : list bytes :=
  match l with
  | [] => []
  | [x] => [x ++ [pad]]
  | x :: t => x :: pad_last pad t
  end.
Lemma join_pad_last pad l : l <> [] -> join_bs l ++ [pad] = join_bs (pad_last pad l).
Proof.
  induction l as [|x l IH]; [congruence|]. intros _.
  destruct l as [|y l]; [reflexivity|].
  change (join_bs (x :: y :: l)) with (x ++ 92 :: join_bs (y :: l)).
  change (pad_last pad (x :: y :: l)) with (x :: pad_last pad (y :: l)).
  assert (E : exists z t, pad_last pad (y :: l) = z :: t).
  { destruct l; cbn; eauto. }
  destruct E as [z [t E]]. 
  change (join_bs (x :: pad_last pad (y :: l))) with
    (match pad_last pad (y :: l) with [] => x | _ => x ++ [92] ++ join_bs (pad_last pad (y :: l)) end).
  rewrite E. rewrite <- E. rewrite <- IH by discriminate. rewrite <- app_assoc. reflexivity.
Qed.
Lemma pad_last_no_sep pad l : pad <> 92 -> Forall no_sep l -> Forall no_sep (pad_last pad l).
Proof.
  intros Hp H. induction H as [|x l Hx Hl IH]; [constructor|].
  destruct l as [|y l].
  - cbn. constructor; [|constructor]. intros Hin. apply in_app_or in Hin. destruct Hin as [Hin|[Hin|[]]]; [apply Hx; exact Hin | congruence].
  - change (pad_last pad (x :: y :: l)) with (x :: pad_last pad (y :: l)). constructor; assumption.
Qed.
Lemma pad_last_nonnil pad l : l <> [] -> pad_last pad l <> [].
Proof. destruct l as [|x [|y l]]; cbn; congruence. Qed.

(** Reading back a padded multi-valued text: the components, the last one carrying the pad byte. *)
Lemma split_join_padded pad l :
  l <> [] -> pad <> 92 -> Forall no_sep l ->
  split_on_byte 92 (pad_even pad (join_bs l)) =
  if Nat.odd (length (join_bs l)) then pad_last pad l else l.
Proof.
  intros Hl Hp H. unfold pad_even. destruct (Nat.odd (length (join_bs l))).
  - rewrite join_pad_last by exact Hl. apply split_join; [apply pad_last_nonnil; exact Hl | apply pad_last_no_sep; assumption].
  - apply split_join; assumption.
Qed.

(** * The other direction (C02): re-encoding what was read reproduces the bytes *)
Lemma split_nonnil b : split_on_byte 92 b <> [].
Proof.
  induction b as [|x b IH]; cbn; [discriminate|].
  destruct (x =? 92); [discriminate|]. destruct (split_on_byte 92 b); discriminate.
Qed.

Lemma join_split b : join_bs (split_on_byte 92 b) = b.
Proof.
  induction b as [|x b IH]; [reflexivity|].
  cbn [split_on_byte]. destruct (N.eqb_spec x 92) as [->|Hx].
  - pose proof (split_nonnil b) as Hn. destruct (split_on_byte 92 b) as [|h t] eqn:E; [congruence|].
    change (join_bs ([] :: h :: t)) with ([] ++ [92] ++ join_bs (h :: t)). rewrite IH. reflexivity.
  - pose proof (split_nonnil b) as Hn. destruct (split_on_byte 92 b) as [|h t] eqn:E; [congruence|].
    destruct t as [|h2 t].
    + cbn in IH. subst b. reflexivity.
    + change (join_bs ((x :: h) :: h2 :: t)) with ((x :: h) ++ [92] ++ join_bs (h2 :: t)).
      change (join_bs (h :: h2 :: t)) with (h ++ [92] ++ join_bs (h2 :: t)) in IH. rewrite <- IH. reflexivity.
Qed.

Lemma chunks_concat k n b : length b = (n * k)%nat -> concat (chunks k n b) = b.
Proof.
  revert b. induction n as [|n IH]; intros b H.
  - destruct b; [reflexivity|discriminate].
  - cbn [chunks concat]. rewrite IH.
    + apply firstn_skipn.
    + rewrite skipn_length. lia.
Qed.

Lemma word_rd c k w : length w = k -> wf_bytes w -> word c k (rd c w) = w.
Proof.
  intros <- H. destruct c; cbn [word rd];
    [apply le_bytes_le_val | apply le_bytes_le_val | apply be_bytes_be_val]; exact H.
Qed.

Lemma chunks_Forall k n b : length b = (n * k)%nat -> wf_bytes b ->
  Forall (fun w => length w = k /\ wf_bytes w) (chunks k n b).
Proof.
  revert b. induction n as [|n IH]; intros b H W; [constructor|].
  cbn [chunks]. constructor.
  - split; [apply firstn_length_le; lia|]. unfold wf_bytes in *. rewrite <- (firstn_skipn k b) in W.
    apply Forall_app in W. tauto.
  - apply IH; [rewrite skipn_length; lia|]. unfold wf_bytes in *. rewrite <- (firstn_skipn k b) in W.
    apply Forall_app in W. tauto.
Qed.

(** Re-encoding decoded words reproduces the value field (length a multiple of the word size). *)
Lemma enc_words_dec_words c k n b :
  length b = (n * k)%nat -> wf_bytes b -> enc_words c k (dec_words c k n b) = b.
Proof.
  intros H W. unfold enc_words, dec_words. rewrite flat_map_concat_map, map_map.
  rewrite <- (chunks_concat k n b H) at 2. f_equal.
  pose proof (chunks_Forall k n b H W) as F.
  induction F as [|w l [Hw1 Hw2] Hl IH]; [reflexivity|]. cbn [map].
  rewrite IH. f_equal. apply (word_rd c k w Hw1 Hw2).
Qed.
