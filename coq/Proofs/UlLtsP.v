(** Invariants of the two-peer transition system, for EVERY trace (induction
    over traces), and the simulation by the PS3.8 state machine (C30). *)
From DicomV Require Import Model.UlLts Model.UlProject.
Require Import Lia.
Local Open Scope nat_scope.

(** * Basics *)
Lemma other_other p : other (other p) = p.
Proof. destruct p; reflexivity. Qed.
Lemma peer_eqb_refl p : peer_eqb p p = true.
Proof. destruct p; reflexivity. Qed.
Lemma peer_eqb_other p : peer_eqb p (other p) = false.
Proof. destruct p; reflexivity. Qed.

Lemma run_app s t1 t2 :
  run s (t1 ++ t2) = match run s t1 with Some s' => run s' t2 | None => None end.
Proof.
  revert s. induction t1 as [|l t1 IH]; intros s; cbn; [reflexivity|].
  destruct (step s l); [apply IH | reflexivity].
Qed.

Lemma run_snoc s tr l s' :
  run s (tr ++ [l]) = Some s' <-> exists s1, run s tr = Some s1 /\ step s1 l = Some s'.
Proof.
  rewrite run_app. destruct (run s tr) as [s1|]; cbn.
  - destruct (step s1 l) as [s2|] eqn:E.
    + split; [intros H; exists s1; split; [reflexivity | congruence]
             | intros [s3 [H1 H2]]; inversion H1; subst; congruence].
    + split; [discriminate | intros [s3 [H1 H2]]; inversion H1; subst; congruence].
  - split; [discriminate | intros [s3 [H1 _]]; discriminate].
Qed.

(** number of PDUs of kind [k] in a channel *)
Fixpoint cnt (k : kind) (c : list item) : nat :=
  match c with
  | [] => 0
  | i :: c' => (if item_eqb (IPdu k) i then 1 else 0) + cnt k c'
  end.
Lemma cnt_app k a b : cnt k (a ++ b) = cnt k a + cnt k b.
Proof. induction a as [|i a IH]; cbn; [reflexivity | rewrite IH; lia]. Qed.

(** the peer has called release() *)
Definition rel2 (x : pstate) : bool :=
  match x with AwaitRp | Done ReleaseFailed => true | _ => false end.
Definition rel3 (x : pstate) : bool :=
  match x with AwaitRp | Done Released | Done ReleaseFailed => true | _ => false end.

Lemma rel2_rel3 x : rel2 x = true -> rel3 x = true.
Proof. destruct x as [| | |[]]; cbn; congruence. Qed.

Definition is_st (x y : pstate) : bool :=
  match x, y with
  | Est, Est | AwaitRp, AwaitRp | GotRq, GotRq => true
  | Done Released, Done Released | Done ReleaseFailed, Done ReleaseFailed
  | Done AnsweredRelease, Done AnsweredRelease | Done Aborted, Done Aborted
  | Done PeerAborted, Done PeerAborted | Done Closed, Done Closed => true
  | _, _ => false
  end.

(** invariant of one direction, as a decidable test: [sp] the state of the
    releasing side and [nq] the number of A-RELEASE-RQ it has in flight, [sq] the
    state of the answering side and [np] the number of A-RELEASE-RP it has in flight *)
Definition dirinv_b (sp sq : pstate) (nq np : nat) : bool :=
  (nq <=? 1) && (np <=? 1) &&
  implb (0 <? nq) (rel2 sp) &&
  implb (is_st sq GotRq) (rel2 sp && (nq =? 0)) &&
  implb (0 <? np) (is_st sq (Done AnsweredRelease) && rel2 sp) &&
  implb (is_st sq (Done AnsweredRelease)) (rel3 sp && (nq =? 0)) &&
  implb (is_st sp (Done Released)) (is_st sq (Done AnsweredRelease)) &&
  implb (is_st sp Est) (nq =? 0).

Definition Inv (s : state) : Prop :=
  dirinv_b (st_rq s) (st_ac s) (cnt KRq (ch_rq s)) (cnt KRp (ch_ac s)) &&
  dirinv_b (st_ac s) (st_rq s) (cnt KRq (ch_ac s)) (cnt KRp (ch_rq s)) = true.

(** the same, readable *)
Definition dirinv (sp sq : pstate) (nq np : nat) : Prop :=
  (0 < nq -> rel2 sp = true) /\
  (sq = GotRq -> rel2 sp = true /\ nq = 0) /\
  (0 < np -> sq = Done AnsweredRelease /\ rel2 sp = true) /\
  (sq = Done AnsweredRelease -> rel3 sp = true /\ nq = 0) /\
  (sp = Done Released -> sq = Done AnsweredRelease) /\
  (sp = Est -> nq = 0) /\
  nq <= 1 /\ np <= 1.

Lemma dirinv_b_spec sp sq nq np : dirinv_b sp sq nq np = true -> dirinv sp sq nq np.
Proof.
  unfold dirinv.
  destruct sp as [| | |[]], sq as [| | |[]], nq as [|[|nq]], np as [|[|np]]; cbn; intros H;
    try discriminate H; repeat split; intros; try discriminate; try reflexivity; try lia.
Qed.

Lemma Inv_init : Inv init.
Proof. reflexivity. Qed.

Ltac case_cnts :=
  repeat match goal with
         | |- context[cnt ?k ?c] => generalize (cnt k c)
         end;
  repeat match goal with
         | |- forall _ : nat, _ => let n := fresh "n" in intros n; destruct n as [|[|n]]
         end.

Ltac inv_crunch Hi :=
  cbn [st_rq st_ac ch_rq ch_ac set_pst set_chan push finish chan pst other] in *;
  rewrite ?cnt_app; cbn [cnt item_eqb kind_eqb app Nat.add] in *;
  revert Hi; case_cnts; cbn; intros Hi; first [discriminate Hi | reflexivity | exact Hi].

Lemma step_Inv s l s' : Inv s -> step s l = Some s' -> Inv s'.
Proof.
  destruct s as [a b ca cb]. unfold Inv. cbn [st_rq st_ac ch_rq ch_ac]. intros Hi Hs.
  destruct l as [p|p|p k|p|p|p i|p|p|p|p]; destruct p; cbn in Hs.
  (* LSendData *)
  - destruct a; try discriminate. inversion Hs; subst; clear Hs. destruct b as [| | |[]]; inv_crunch Hi.
  - destruct b; try discriminate. inversion Hs; subst; clear Hs. destruct a as [| | |[]]; inv_crunch Hi.
  (* LSendFail *)
  - destruct a; try discriminate. destruct (is_done b) eqn:D; try discriminate.
    inversion Hs; subst; clear Hs. destruct b as [| | |[]]; try discriminate; inv_crunch Hi.
  - destruct b; try discriminate. destruct (is_done a) eqn:D; try discriminate.
    inversion Hs; subst; clear Hs. destruct a as [| | |[]]; try discriminate; inv_crunch Hi.
  (* LRecv *)
  - destruct a; try discriminate. unfold take in Hs; cbn in Hs.
    destruct cb as [|j rest]; try discriminate.
    destruct k, j as [[]|]; cbn in Hs; try discriminate; inversion Hs; subst; clear Hs;
      destruct b as [| | |[]]; inv_crunch Hi.
  - destruct b; try discriminate. unfold take in Hs; cbn in Hs.
    destruct ca as [|j rest]; try discriminate.
    destruct k, j as [[]|]; cbn in Hs; try discriminate; inversion Hs; subst; clear Hs;
      destruct a as [| | |[]]; inv_crunch Hi.
  (* LRecvFin *)
  - destruct a; try discriminate. unfold take in Hs; cbn in Hs.
    destruct cb as [|j rest]; try discriminate.
    destruct j as [[]|]; cbn in Hs; try discriminate; inversion Hs; subst; clear Hs;
      destruct b as [| | |[]]; inv_crunch Hi.
  - destruct b; try discriminate. unfold take in Hs; cbn in Hs.
    destruct ca as [|j rest]; try discriminate.
    destruct j as [[]|]; cbn in Hs; try discriminate; inversion Hs; subst; clear Hs;
      destruct a as [| | |[]]; inv_crunch Hi.
  (* LRelease *)
  - destruct a; try discriminate. inversion Hs; subst; clear Hs. destruct b as [| | |[]]; inv_crunch Hi.
  - destruct b; try discriminate. inversion Hs; subst; clear Hs. destruct a as [| | |[]]; inv_crunch Hi.
  (* LAwait *)
  - destruct a; try discriminate. unfold take in Hs; cbn in Hs.
    destruct cb as [|j rest]; try discriminate.
    destruct i as [[]|], j as [[]|]; cbn in Hs; try discriminate; inversion Hs; subst; clear Hs;
      destruct b as [| | |[]]; inv_crunch Hi.
  - destruct b; try discriminate. unfold take in Hs; cbn in Hs.
    destruct ca as [|j rest]; try discriminate.
    destruct i as [[]|], j as [[]|]; cbn in Hs; try discriminate; inversion Hs; subst; clear Hs;
      destruct a as [| | |[]]; inv_crunch Hi.
  (* LSendRp *)
  - destruct a; try discriminate. inversion Hs; subst; clear Hs. destruct b as [| | |[]]; inv_crunch Hi.
  - destruct b; try discriminate. inversion Hs; subst; clear Hs. destruct a as [| | |[]]; inv_crunch Hi.
  (* LAbort *)
  - destruct a; try discriminate. inversion Hs; subst; clear Hs. destruct b as [| | |[]]; inv_crunch Hi.
  - destruct b; try discriminate. inversion Hs; subst; clear Hs. destruct a as [| | |[]]; inv_crunch Hi.
  (* LClose *)
  - destruct a; try discriminate. inversion Hs; subst; clear Hs. destruct b as [| | |[]]; inv_crunch Hi.
  - destruct b; try discriminate. inversion Hs; subst; clear Hs. destruct a as [| | |[]]; inv_crunch Hi.
  (* LLose *)
  - destruct (is_done a) eqn:D; try discriminate. inversion Hs; subst; clear Hs.
    destruct a as [| | |[]], b as [| | |[]]; try discriminate; inv_crunch Hi.
  - destruct (is_done b) eqn:D; try discriminate. inversion Hs; subst; clear Hs.
    destruct a as [| | |[]], b as [| | |[]]; try discriminate; inv_crunch Hi.
Qed.

Lemma run_Inv s tr s' : Inv s -> run s tr = Some s' -> Inv s'.
Proof.
  revert s. induction tr as [|l tr IH]; intros s Hi Hr; cbn in Hr.
  - inversion Hr; subst; exact Hi.
  - destruct (step s l) as [s1|] eqn:E; [|discriminate].
    apply (IH s1); [eapply step_Inv; eassumption | exact Hr].
Qed.

Theorem reachable_Inv tr s : run init tr = Some s -> Inv s.
Proof. apply run_Inv, Inv_init. Qed.

(** direction-independent access to the invariant *)
Lemma Inv_dir s p :
  Inv s -> dirinv (pst s p) (pst s (other p)) (cnt KRq (chan s p)) (cnt KRp (chan s (other p))).
Proof.
  unfold Inv. intros H. apply andb_true_iff in H. destruct H as [H1 H2].
  destruct p; apply dirinv_b_spec; assumption.
Qed.

(** * Ended peers stay ended and do nothing *)
Lemma pst_set_pst s q x p : pst (set_pst s q x) p = if peer_eqb p q then x else pst s p.
Proof. destruct s, p, q; reflexivity. Qed.
Lemma pst_set_chan s q c p : pst (set_chan s q c) p = pst s p.
Proof. destruct s, p, q; reflexivity. Qed.
Lemma pst_push s q l p : pst (push s q l) p = pst s p.
Proof. apply pst_set_chan. Qed.
Lemma pst_finish s q l e p : pst (finish s q l e) p = if peer_eqb p q then Done e else pst s p.
Proof. unfold finish. rewrite pst_set_pst, pst_push. reflexivity. Qed.
Lemma pst_take s q i s' p : take s q i = Some s' -> pst s' p = pst s p.
Proof.
  unfold take. destruct (chan s (other q)) as [|j rest]; [discriminate|].
  destruct (item_eqb i j); [|discriminate]. intros H; inversion H; subst. apply pst_set_chan.
Qed.

(** a step changes the protocol state of its actor only, and the actor was not ended *)
Lemma step_pst s l s' p :
  step s l = Some s' ->
  (actor l <> Some p -> pst s' p = pst s p) /\ (actor l = Some p -> is_done (pst s p) = false).
Proof.
  intros Hs.
  assert (NE : forall q : peer, Some q <> Some p -> peer_eqb p q = false).
  { intros q H. destruct p, q; try reflexivity; exfalso; apply H; reflexivity. }
  destruct l as [q|q|q k|q|q|q i|q|q|q|q]; cbn in Hs; cbn [actor].
  - destruct (pst s q) eqn:E; try discriminate. inversion Hs; subst.
    split; [intros _; apply pst_push | intros H; inversion H; subst; rewrite E; reflexivity].
  - destruct (pst s q) eqn:E; try discriminate. destruct (is_done (pst s (other q))); try discriminate.
    inversion Hs; subst.
    split; [intros H; rewrite pst_finish, (NE q H); reflexivity | intros H; inversion H; subst; rewrite E; reflexivity].
  - destruct (pst s q) eqn:E; try discriminate. destruct (take s q (IPdu k)) as [s1|] eqn:T; try discriminate.
    pose proof (pst_take _ _ _ _ p T) as P.
    split; [|intros H; inversion H; subst; rewrite E; reflexivity].
    intros H. destruct k; inversion Hs; subst; rewrite ?pst_set_pst, ?pst_finish, ?(NE q H); exact P.
  - destruct (pst s q) eqn:E; try discriminate. destruct (take s q Fin) as [s1|] eqn:T; try discriminate.
    pose proof (pst_take _ _ _ _ p T) as P. inversion Hs; subst.
    split; [intros H; rewrite pst_finish, (NE q H); exact P | intros H; inversion H; subst; rewrite E; reflexivity].
  - destruct (pst s q) eqn:E; try discriminate. inversion Hs; subst.
    split; [intros H; rewrite pst_set_pst, (NE q H); apply pst_push | intros H; inversion H; subst; rewrite E; reflexivity].
  - destruct (pst s q) eqn:E; try discriminate. destruct (take s q i) as [s1|] eqn:T; try discriminate.
    pose proof (pst_take _ _ _ _ p T) as P.
    split; [|intros H; inversion H; subst; rewrite E; reflexivity].
    intros H. destruct i as [[]|]; inversion Hs; subst; rewrite pst_finish, (NE q H); exact P.
  - destruct (pst s q) eqn:E; try discriminate. inversion Hs; subst.
    split; [intros H; rewrite pst_finish, (NE q H); reflexivity | intros H; inversion H; subst; rewrite E; reflexivity].
  - destruct (pst s q) eqn:E; try discriminate. inversion Hs; subst.
    split; [intros H; rewrite pst_finish, (NE q H); reflexivity | intros H; inversion H; subst; rewrite E; reflexivity].
  - destruct (pst s q) eqn:E; try discriminate. inversion Hs; subst.
    split; [intros H; rewrite pst_finish, (NE q H); reflexivity | intros H; inversion H; subst; rewrite E; reflexivity].
  - destruct (is_done (pst s q)); try discriminate. inversion Hs; subst.
    split; [intros _; apply pst_set_chan | discriminate].
Qed.

Lemma step_done_stable s l s' p :
  step s l = Some s' -> is_done (pst s p) = true -> pst s' p = pst s p /\ actor l <> Some p.
Proof.
  intros Hs Hd. destruct (step_pst s l s' p Hs) as [H1 H2].
  assert (N : actor l <> Some p) by (intros A; rewrite (H2 A) in Hd; discriminate).
  split; [apply H1; exact N | exact N].
Qed.

Lemma step_actor_not_done s l s' p : step s l = Some s' -> actor l = Some p -> is_done (pst s p) = false.
Proof.
  intros Hs Ha. destruct (is_done (pst s p)) eqn:D; [|reflexivity].
  destruct (step_done_stable _ _ _ _ Hs D) as [_ N]. contradiction.
Qed.

(** * History: order of the events of a release *)
Inductive subseq {A} : list A -> list A -> Prop :=
| sub_nil l : subseq [] l
| sub_skip x a l : subseq a l -> subseq a (x :: l)
| sub_take x a l : subseq a l -> subseq (x :: a) (x :: l).

Lemma subseq_snoc_skip {A} (a l : list A) x : subseq a l -> subseq a (l ++ [x]).
Proof. induction 1; cbn; constructor; assumption. Qed.
Lemma subseq_snoc_take {A} (a l : list A) x : subseq a l -> subseq (a ++ [x]) (l ++ [x]).
Proof.
  induction 1 as [l|y a l _ IH|y a l _ IH]; cbn.
  - induction l as [|y l IH]; cbn; [apply sub_take, sub_nil | apply sub_skip, IH].
  - apply sub_skip, IH.
  - apply sub_take, IH.
Qed.
Lemma subseq_in {A} (a l : list A) x : subseq a l -> In x a -> In x l.
Proof.
  induction 1 as [l|y a l _ IH|y a l _ IH]; intros Hin; [destruct Hin | right; auto |].
  destruct Hin as [->|Hin]; [left; reflexivity | right; auto].
Qed.
Lemma subseq_split {A} (a : list A) x l :
  subseq (a ++ [x]) l -> exists l1 l2, l = l1 ++ x :: l2 /\ subseq a l1.
Proof.
  remember (a ++ [x]) as ax eqn:E. intros H. revert a E.
  induction H as [l|y b l H IH|y b l H IH]; intros a E.
  - destruct a; discriminate.
  - destruct (IH a E) as [l1 [l2 [-> Hs]]]. exists (y :: l1), l2. split; [reflexivity | apply sub_skip, Hs].
  - destruct a as [|z a]; cbn in E; inversion E; subst.
    + exists [], l. split; [reflexivity | constructor].
    + destruct (IH a eq_refl) as [l1 [l2 [-> Hs]]]. exists (z :: l1), l2.
      split; [reflexivity | apply sub_take, Hs].
Qed.

(** what the history must contain, per direction ([p] releases, [q] answers) *)
Definition dirhist (tr : list label) (s : state) (p : peer) : Prop :=
  let q := other p in
  (rel3 (pst s p) = true -> subseq [LRelease p] tr) /\
  (pst s q = GotRq -> subseq [LRelease p; LRecv q KRq] tr) /\
  (pst s q = Done AnsweredRelease -> subseq [LRelease p; LRecv q KRq; LSendRp q] tr) /\
  (pst s p = Done Released -> subseq [LRelease p; LRecv q KRq; LSendRp q; LAwait p (IPdu KRp)] tr).
Definition Hist (tr : list label) (s : state) : Prop := dirhist tr s Requestor /\ dirhist tr s Acceptor.

Lemma Hist_init : Hist [] init.
Proof. split; unfold dirhist; cbn; repeat split; intros; discriminate. Qed.

Ltac hist_weaken :=
  repeat match goal with
         | H : ?a = ?a -> _ |- _ => specialize (H eq_refl)
         | H : _ /\ _ |- _ => destruct H
         end;
  try discriminate;
  try (apply subseq_snoc_skip; solve [auto]);
  try congruence.

Lemma step_Hist tr s l s' : Inv s -> Hist tr s -> step s l = Some s' -> Hist (tr ++ [l]) s'.
Proof.
  destruct s as [a b ca cb]. intros Hi [H1 H2] Hs.
  pose proof (Inv_dir _ Requestor Hi) as I1. pose proof (Inv_dir _ Acceptor Hi) as I2. clear Hi.
  unfold Hist, dirhist in *. cbn in *.
  destruct l as [p|p|p k|p|p|p i|p|p|p|p]; destruct p; cbn in Hs.
  (* LSendData *)
  - destruct a; try discriminate. inversion Hs; subst; clear Hs. cbn. repeat split; intros; hist_weaken.
  - destruct b; try discriminate. inversion Hs; subst; clear Hs. cbn. repeat split; intros; hist_weaken.
  (* LSendFail *)
  - destruct a; try discriminate. destruct (is_done b); try discriminate.
    inversion Hs; subst; clear Hs. cbn. repeat split; intros; hist_weaken.
  - destruct b; try discriminate. destruct (is_done a); try discriminate.
    inversion Hs; subst; clear Hs. cbn. repeat split; intros; hist_weaken.
  (* LRecv by the requestor *)
  - destruct a; try discriminate. unfold take in Hs; cbn in Hs.
    destruct cb as [|j rest]; try discriminate.
    destruct k, j as [[]|]; cbn in Hs; try discriminate; inversion Hs; subst; clear Hs; cbn;
      repeat split; intros; hist_weaken.
    (* requestor received A-RELEASE-RQ: the acceptor had released *)
    unfold dirinv in I2; cbn in I2. destruct I2 as [I2 _]. specialize (I2 (Nat.lt_0_succ _)).
    apply (subseq_snoc_take [LRelease Acceptor] tr (LRecv Requestor KRq)).
    auto using rel2_rel3.
  - destruct b; try discriminate. unfold take in Hs; cbn in Hs.
    destruct ca as [|j rest]; try discriminate.
    destruct k, j as [[]|]; cbn in Hs; try discriminate; inversion Hs; subst; clear Hs; cbn;
      repeat split; intros; hist_weaken.
    unfold dirinv in I1; cbn in I1. destruct I1 as [I1 _]. specialize (I1 (Nat.lt_0_succ _)).
    apply (subseq_snoc_take [LRelease Requestor] tr (LRecv Acceptor KRq)).
    auto using rel2_rel3.
  (* LRecvFin *)
  - destruct a; try discriminate. unfold take in Hs; cbn in Hs.
    destruct cb as [|j rest]; try discriminate.
    destruct j as [[]|]; cbn in Hs; try discriminate; inversion Hs; subst; clear Hs; cbn;
      repeat split; intros; hist_weaken.
  - destruct b; try discriminate. unfold take in Hs; cbn in Hs.
    destruct ca as [|j rest]; try discriminate.
    destruct j as [[]|]; cbn in Hs; try discriminate; inversion Hs; subst; clear Hs; cbn;
      repeat split; intros; hist_weaken.
  (* LRelease *)
  - destruct a; try discriminate. inversion Hs; subst; clear Hs. cbn. repeat split; intros; hist_weaken.
    apply (subseq_snoc_take [] tr (LRelease Requestor)). constructor.
  - destruct b; try discriminate. inversion Hs; subst; clear Hs. cbn. repeat split; intros; hist_weaken.
    apply (subseq_snoc_take [] tr (LRelease Acceptor)). constructor.
  (* LAwait *)
  - destruct a; try discriminate. unfold take in Hs; cbn in Hs.
    destruct cb as [|j rest]; try discriminate.
    destruct i as [[]|], j as [[]|]; cbn in Hs; try discriminate; inversion Hs; subst; clear Hs; cbn;
      repeat split; intros; hist_weaken.
    (* the requestor's release completed: A-RELEASE-RP was at the head of the acceptor's channel *)
    unfold dirinv in I1; cbn in I1. destruct I1 as [_ [_ [I1 _]]]. destruct (I1 (Nat.lt_0_succ _)) as [Eb _].
    apply (subseq_snoc_take [LRelease Requestor; LRecv Acceptor KRq; LSendRp Acceptor] tr (LAwait Requestor (IPdu KRp))).
    auto.
  - destruct b; try discriminate. unfold take in Hs; cbn in Hs.
    destruct ca as [|j rest]; try discriminate.
    destruct i as [[]|], j as [[]|]; cbn in Hs; try discriminate; inversion Hs; subst; clear Hs; cbn;
      repeat split; intros; hist_weaken.
    unfold dirinv in I2; cbn in I2. destruct I2 as [_ [_ [I2 _]]]. destruct (I2 (Nat.lt_0_succ _)) as [Ea _].
    apply (subseq_snoc_take [LRelease Acceptor; LRecv Requestor KRq; LSendRp Requestor] tr (LAwait Acceptor (IPdu KRp))).
    auto.
  (* LSendRp *)
  - destruct a; try discriminate. inversion Hs; subst; clear Hs. cbn. repeat split; intros; hist_weaken.
    apply (subseq_snoc_take [LRelease Acceptor; LRecv Requestor KRq] tr (LSendRp Requestor)). assumption.
  - destruct b; try discriminate. inversion Hs; subst; clear Hs. cbn. repeat split; intros; hist_weaken.
    apply (subseq_snoc_take [LRelease Requestor; LRecv Acceptor KRq] tr (LSendRp Acceptor)). assumption.
  (* LAbort *)
  - destruct a; try discriminate. inversion Hs; subst; clear Hs. cbn. repeat split; intros; hist_weaken.
  - destruct b; try discriminate. inversion Hs; subst; clear Hs. cbn. repeat split; intros; hist_weaken.
  (* LClose *)
  - destruct a; try discriminate. inversion Hs; subst; clear Hs. cbn. repeat split; intros; hist_weaken.
  - destruct b; try discriminate. inversion Hs; subst; clear Hs. cbn. repeat split; intros; hist_weaken.
  (* LLose *)
  - destruct (is_done a); try discriminate. inversion Hs; subst; clear Hs. cbn. repeat split; intros; hist_weaken.
  - destruct (is_done b); try discriminate. inversion Hs; subst; clear Hs. cbn. repeat split; intros; hist_weaken.
Qed.

Theorem reachable_Hist tr s : run init tr = Some s -> Inv s /\ Hist tr s.
Proof.
  revert s. induction tr as [|l tr IH] using rev_ind; intros s H.
  - cbn in H. inversion H; subst. split; [apply Inv_init | apply Hist_init].
  - apply run_snoc in H. destruct H as [s1 [H1 H2]]. destruct (IH s1 H1) as [Hi Hh].
    split; [eapply step_Inv; eassumption | eapply step_Hist; eassumption].
Qed.

(** * The four invariants of the property *)

(** a release completes only after a release reply is received, and that reply
    was sent by the peer after it received this release request *)
Theorem release_after_rp tr s p :
  run init tr = Some s -> pst s p = Done Released ->
  subseq [LRelease p; LRecv (other p) KRq; LSendRp (other p); LAwait p (IPdu KRp)] tr.
Proof.
  intros H Hp. destruct (reachable_Hist _ _ H) as [_ [H1 H2]].
  destruct p; [apply H1 | apply H2]; exact Hp.
Qed.

Lemma step_await_released s p i s' :
  step s (LAwait p i) = Some s' -> pst s' p = Done Released -> i = IPdu KRp.
Proof.
  destruct s as [a b ca cb]. destruct p; cbn; intros Hs Hp.
  - destruct a; try discriminate. unfold take in Hs; cbn in Hs. destruct cb as [|j rest]; try discriminate.
    destruct (item_eqb i j); try discriminate.
    destruct i as [[]|]; inversion Hs; subst; cbn in Hp; try discriminate; reflexivity.
  - destruct b; try discriminate. unfold take in Hs; cbn in Hs. destruct ca as [|j rest]; try discriminate.
    destruct (item_eqb i j); try discriminate.
    destruct i as [[]|]; inversion Hs; subst; cbn in Hp; try discriminate; reflexivity.
Qed.

Lemma both_done_only_loss s l s' :
  is_done (pst s Requestor) = true -> is_done (pst s Acceptor) = true -> step s l = Some s' ->
  actor l = None /\ is_done (pst s' Requestor) = true /\ is_done (pst s' Acceptor) = true.
Proof.
  intros D1 D2 Hs.
  destruct (step_done_stable _ _ _ _ Hs D1) as [E1 N1].
  destruct (step_done_stable _ _ _ _ Hs D2) as [E2 N2].
  rewrite E1, E2. split; [|split; assumption].
  destruct (actor l) as [[]|]; [exfalso; apply N1; reflexivity | exfalso; apply N2; reflexivity | reflexivity].
Qed.

Lemma both_done_run s tr s' :
  is_done (pst s Requestor) = true -> is_done (pst s Acceptor) = true -> run s tr = Some s' ->
  forall l, In l tr -> actor l = None.
Proof.
  revert s. induction tr as [|x tr IH]; intros s D1 D2 Hr l Hin; [destruct Hin|].
  cbn in Hr. destruct (step s x) as [s1|] eqn:E; [|discriminate].
  destruct (both_done_only_loss _ _ _ D1 D2 E) as [Ha [D1' D2']].
  destruct Hin as [<-|Hin]; [exact Ha | eapply IH; eassumption].
Qed.

(** no data transfer (no peer action at all) follows a completed release *)
Theorem nothing_after_release tr s p t1 t2 :
  run init tr = Some s -> tr = t1 ++ LAwait p (IPdu KRp) :: t2 ->
  forall l, In l t2 -> actor l = None.
Proof.
  intros H -> l Hin.
  replace (t1 ++ LAwait p (IPdu KRp) :: t2) with ((t1 ++ [LAwait p (IPdu KRp)]) ++ t2) in H
    by (rewrite <- app_assoc; reflexivity).
  rewrite run_app in H. destruct (run init (t1 ++ [LAwait p (IPdu KRp)])) as [s1|] eqn:E; [|discriminate].
  pose proof (reachable_Inv _ _ E) as Hi.
  apply run_snoc in E. destruct E as [s0 [_ Hstep]].
  assert (Hp : pst s1 p = Done Released).
  { destruct s0 as [a b ca cb]. destruct p; cbn in Hstep.
    - destruct a; try discriminate. unfold take in Hstep; cbn in Hstep. destruct cb as [|j rest]; try discriminate.
      destruct j as [[]|]; cbn in Hstep; try discriminate. inversion Hstep; reflexivity.
    - destruct b; try discriminate. unfold take in Hstep; cbn in Hstep. destruct ca as [|j rest]; try discriminate.
      destruct j as [[]|]; cbn in Hstep; try discriminate. inversion Hstep; reflexivity. }
  pose proof (Inv_dir s1 p Hi) as D. unfold dirinv in D. destruct D as [_ [_ [_ [_ [D _]]]]].
  specialize (D Hp).
  assert (D1 : is_done (pst s1 Requestor) = true) by (destruct p; cbn in *; rewrite ?Hp, ?D; reflexivity).
  assert (D2 : is_done (pst s1 Acceptor) = true) by (destruct p; cbn in *; rewrite ?Hp, ?D; reflexivity).
  eapply both_done_run; eassumption.
Qed.

(** an abort, an unexpected PDU or the end of the connection during release:
    error, and the connection is closed (the peer is ended for good) *)
Theorem release_failure_closes s p i s' :
  step s (LAwait p i) = Some s' -> i <> IPdu KRp ->
  pst s' p = Done ReleaseFailed /\ chan s' p = chan s p ++ [Fin].
Proof.
  destruct s as [a b ca cb]. destruct p; cbn; intros Hs Hi.
  - destruct a; try discriminate. unfold take in Hs; cbn in Hs. destruct cb as [|j rest]; try discriminate.
    destruct (item_eqb i j); try discriminate.
    destruct i as [[]|]; inversion Hs; subst; cbn; try (split; reflexivity). contradiction.
  - destruct b; try discriminate. unfold take in Hs; cbn in Hs. destruct ca as [|j rest]; try discriminate.
    destruct (item_eqb i j); try discriminate.
    destruct i as [[]|]; inversion Hs; subst; cbn; try (split; reflexivity). contradiction.
Qed.

(** receiving an A-ABORT while established ends the association and closes the connection *)
Theorem abort_received_closes s p s' :
  step s (LRecv p KAbort) = Some s' -> pst s' p = Done PeerAborted /\ chan s' p = chan s p ++ [Fin].
Proof.
  destruct s as [a b ca cb]. destruct p; cbn; intros Hs.
  - destruct a; try discriminate. unfold take in Hs; cbn in Hs. destruct cb as [|j rest]; try discriminate.
    destruct j as [[]|]; cbn in Hs; try discriminate. inversion Hs; subst; cbn. split; reflexivity.
  - destruct b; try discriminate. unfold take in Hs; cbn in Hs. destruct ca as [|j rest]; try discriminate.
    destruct j as [[]|]; cbn in Hs; try discriminate. inversion Hs; subst; cbn. split; reflexivity.
Qed.

(** calling abort() sends A-ABORT and closes *)
Theorem abort_closes s p s' :
  step s (LAbort p) = Some s' -> pst s' p = Done Aborted /\ chan s' p = chan s p ++ [IPdu KAbort; Fin].
Proof.
  destruct s as [a b ca cb]. destruct p; cbn; intros Hs.
  - destruct a; try discriminate. inversion Hs; subst; cbn. split; reflexivity.
  - destruct b; try discriminate. inversion Hs; subst; cbn. split; reflexivity.
Qed.

(** a peer that received a release request answers it with a release reply:
    that is its only possible action, it is always possible, and the reply is
    written before the connection is closed *)
Theorem got_rq_answers s p :
  pst s p = GotRq ->
  (forall l s', step s l = Some s' -> actor l = Some p -> l = LSendRp p) /\
  (exists s', step s (LSendRp p) = Some s' /\ pst s' p = Done AnsweredRelease /\
              chan s' p = chan s p ++ [IPdu KRp; Fin]).
Proof.
  destruct s as [a b ca cb]. destruct p; cbn; intros Hp; subst.
  - split.
    + intros l s' Hs Ha. destruct l as [q|q|q k|q|q|q i|q|q|q|q]; cbn in Ha; inversion Ha; subst;
        cbn in Hs; try discriminate. reflexivity.
    + eexists. cbn. repeat split.
  - split.
    + intros l s' Hs Ha. destruct l as [q|q|q k|q|q|q i|q|q|q|q]; cbn in Ha; inversion Ha; subst;
        cbn in Hs; try discriminate. reflexivity.
    + eexists. cbn. repeat split.
Qed.

(** and a release reply is only ever sent in answer to the peer's release request *)
Theorem rp_only_in_answer tr s p :
  run init tr = Some s -> In (LSendRp p) tr ->
  subseq [LRelease (other p); LRecv p KRq; LSendRp p] tr.
Proof.
  intros H Hin. apply in_split in Hin. destruct Hin as [t1 [t2 ->]].
  replace (t1 ++ LSendRp p :: t2) with ((t1 ++ [LSendRp p]) ++ t2) in * by (rewrite <- app_assoc; reflexivity).
  rewrite run_app in H. destruct (run init (t1 ++ [LSendRp p])) as [s1|] eqn:E; [|discriminate].
  assert (S1 : subseq [LRelease (other p); LRecv p KRq; LSendRp p] (t1 ++ [LSendRp p])).
  { destruct (reachable_Hist _ _ E) as [_ [H1 H2]].
    apply run_snoc in E. destruct E as [s0 [_ Hstep]].
    assert (Hp : pst s1 p = Done AnsweredRelease).
    { destruct s0 as [a b ca cb]. destruct p; cbn in Hstep.
      - destruct a; try discriminate. inversion Hstep; reflexivity.
      - destruct b; try discriminate. inversion Hstep; reflexivity. }
    destruct p; cbn in *; [apply H2 | apply H1]; exact Hp. }
  clear H E. induction t2 as [|x t2 IH] using rev_ind; [rewrite app_nil_r; exact S1|].
  rewrite app_assoc. apply subseq_snoc_skip. exact IH.
Qed.

(** a release reply never reaches a peer that is not releasing *)
Theorem no_stray_rp tr s p :
  run init tr = Some s -> 0 < cnt KRp (chan s (other p)) -> rel2 (pst s p) = true.
Proof.
  intros H Hc. pose proof (Inv_dir s p (reachable_Inv _ _ H)) as D.
  unfold dirinv in D. destruct D as [_ [_ [D _]]]. apply D. exact Hc.
Qed.

(** * Simulation by the PS3.8 state machine *)
Lemma ps38_run_app r x o1 o2 :
  ps38_run r x (o1 ++ o2) = match ps38_run r x o1 with Some y => ps38_run r y o2 | None => None end.
Proof.
  revert x. induction o1 as [|[e sent] o1 IH]; intros x; cbn; [reflexivity|].
  destruct (ps38_step r x e) as [[y out]|]; [|reflexivity].
  destruct (opdu_eqb out sent); [apply IH | reflexivity].
Qed.

Lemma item_eqb_eq i j : item_eqb i j = true -> i = j.
Proof. destruct i as [[]|], j as [[]|]; cbn; intros H; try discriminate; reflexivity. Qed.

Lemma take_head s p i s' : take s p i = Some s' -> exists rest, chan s (other p) = i :: rest.
Proof.
  unfold take. destruct (chan s (other p)) as [|j rest]; [discriminate|].
  destruct (item_eqb i j) eqn:E; [|discriminate]. intros _. apply item_eqb_eq in E. subst. exists rest. reflexivity.
Qed.

Lemma step_simulated s l s' p :
  Inv s -> step s l = Some s' ->
  ps38_run (role_of p) (sta_of (pst s p)) (project1 p l) = Some (sta_of (pst s' p)).
Proof.
  intros Hi Hs. unfold project1.
  destruct (actor l) as [q|] eqn:A.
  2: { cbn. destruct (step_pst s l s' p Hs) as [H _]. rewrite H; [reflexivity | rewrite A; discriminate]. }
  destruct (peer_eqb p q) eqn:Epq.
  2: { cbn. destruct (step_pst s l s' p Hs) as [H _]. rewrite H; [reflexivity|].
       rewrite A. intros X; inversion X; subst. rewrite peer_eqb_refl in Epq. discriminate. }
  assert (p = q) by (destruct p, q; try discriminate; reflexivity). subst q.
  destruct l as [q|q|q k|q|q|q i|q|q|q|q]; cbn in A; inversion A; subst; cbn in Hs; cbn [own_events].
  - destruct (pst s p) eqn:E; try discriminate. inversion Hs; subst. rewrite pst_push, E. destruct p; reflexivity.
  - destruct (pst s p) eqn:E; try discriminate. destruct (is_done (pst s (other p))); try discriminate.
    inversion Hs; subst. rewrite pst_finish, peer_eqb_refl. destruct p; reflexivity.
  - destruct (pst s p) eqn:E; try discriminate. destruct (take s p (IPdu k)) as [s1|] eqn:T; try discriminate.
    pose proof (pst_take _ _ _ _ p T) as P.
    destruct k; inversion Hs; subst; rewrite ?pst_set_pst, ?pst_finish, ?peer_eqb_refl, ?P, ?E;
      try (destruct p; reflexivity).
    (* A-RELEASE-RP received while established: excluded by the invariant *)
    exfalso. destruct (take_head _ _ _ _ T) as [rest Hc].
    pose proof (Inv_dir s p Hi) as D. unfold dirinv in D. destruct D as [_ [_ [D _]]].
    rewrite Hc in D. cbn in D. destruct (D (Nat.lt_0_succ _)) as [_ R]. rewrite E in R. discriminate.
  - destruct (pst s p) eqn:E; try discriminate. destruct (take s p Fin) as [s1|] eqn:T; try discriminate.
    inversion Hs; subst. rewrite pst_finish, peer_eqb_refl. destruct p; reflexivity.
  - destruct (pst s p) eqn:E; try discriminate. inversion Hs; subst.
    rewrite pst_set_pst, peer_eqb_refl. destruct p; reflexivity.
  - destruct (pst s p) eqn:E; try discriminate. destruct (take s p i) as [s1|] eqn:T; try discriminate.
    destruct i as [[]|]; inversion Hs; subst; rewrite pst_finish, peer_eqb_refl; destruct p; reflexivity.
  - destruct (pst s p) eqn:E; try discriminate. inversion Hs; subst.
    rewrite pst_finish, peer_eqb_refl. destruct p; reflexivity.
  - destruct (pst s p) eqn:E; try discriminate. inversion Hs; subst.
    rewrite pst_finish, peer_eqb_refl. destruct p; reflexivity.
  - destruct (pst s p) eqn:E; try discriminate. inversion Hs; subst.
    rewrite pst_finish, peer_eqb_refl. destruct p; reflexivity.
Qed.

Theorem refines_ps38_from s tr s' p :
  Inv s -> run s tr = Some s' ->
  ps38_run (role_of p) (sta_of (pst s p)) (project p tr) = Some (sta_of (pst s' p)).
Proof.
  revert s. induction tr as [|l tr IH]; intros s Hi Hr; cbn in Hr.
  - inversion Hr; subst. reflexivity.
  - destruct (step s l) as [s1|] eqn:E; [|discriminate].
    unfold project. cbn [flat_map]. rewrite ps38_run_app.
    rewrite (step_simulated s l s1 p Hi E). apply IH; [eapply step_Inv; eassumption | exact Hr].
Qed.

Theorem refines_ps38 tr s p :
  run init tr = Some s ->
  ps38_run (role_of p) Sta6 (project p tr) = Some (sta_of (pst s p)).
Proof.
  intros H. pose proof (refines_ps38_from init tr s p Inv_init H) as R.
  destruct p; exact R.
Qed.

Corollary accepted_by_ps38 tr p :
  lts_accepts tr = true -> ps38_accepts (role_of p) (project p tr) = true.
Proof.
  unfold lts_accepts, ps38_accepts. destruct (run init tr) as [s|] eqn:E; [|discriminate].
  intros _. rewrite (refines_ps38 tr s p E). reflexivity.
Qed.

(** what the recorder sees in a direction is what the peer wrote: every PDU on
    the wire was put there by a send/release/reply/abort event of that peer *)
Lemma wire_of_app p t1 t2 : wire_of p (t1 ++ t2) = wire_of p t1 ++ wire_of p t2.
Proof. unfold wire_of. apply flat_map_app. Qed.
