(** The reader on the writer's output for nested data sets under EITHER
    strategy: sequences and items whose written length is undefined (closed by
    delimiters) or defined (recorded lengths kept by NoChange and equal to the
    actual content length; ends synthesised by the delimiter check, cascades
    included). Generalises Proofs/ReadTreeP.v; position accounting throughout. *)
From Coq Require Import ZifyBool ZifyNat ZifyN Sorting.Sorted.
From DicomV Require Import Base.Endian Model.Vr Model.Header Model.Prim Model.Dataset Model.Writer Model.Reader
  Spec.Ps35 Proofs.HeaderP Proofs.PrimP Proofs.WriterP Proofs.ValidP Proofs.FlatP Proofs.ValueP Proofs.ReaderP
  Proofs.RoundTripP Proofs.TotalP Proofs.NestedP Proofs.NestedGP Proofs.ReadStepsP Proofs.ReadPixP Proofs.ReadTreeP
  Proofs.ReadStepsGP Proofs.ReadPixGP.
Open Scope N_scope.

(** * Expected tokens (with the written lengths) *)
Fixpoint rtoks_g (c : codec) (d : dict_t) (nc : bool) (e : elem) : list token :=
  match e with
  | EPrim t v _ p =>
      let val := ps35_padded v (raw_value c v p) in
      [TElemHeader t (read_vr c d t v) (blen val); TPrim (readback_prim c (read_vr c d t v) val)]
  | ESeq t _ l its =>
      [TSeqStart t (wl nc l)]
        ++ flat_map (fun it : item => [TItemStart (wl nc (fst it))] ++ flat_map (rtoks_g c d nc) (snd it) ++ [TItemEnd]) its
        ++ [TSeqEnd]
  | EPix _ _ _ ot frags => [TPixStart] ++ ot_rtoks ot ++ flat_map frag_rtoks frags ++ [TSeqEnd]
  end.
Definition rtoks_list_g c d nc (es : list elem) : list token := flat_map (rtoks_g c d nc) es.
Definition rtoks_items_g c d nc (its : list item) : list token :=
  flat_map (fun it : item => [TItemStart (wl nc (fst it))] ++ rtoks_list_g c d nc (snd it) ++ [TItemEnd]) its.

(** * Data sets covered *)
Definition len_ok (L : N) : Prop := L = undef \/ (L < 4294967295 /\ L mod 2 = 0).

Inductive readable_g (c : codec) (d : dict_t) (nc : bool) : elem -> Prop :=
| RgPrim t v l p :
    elem_ok c (fun _ => false) (EPrim t v l p) -> rt_ok c d (EPrim t v l p) -> readable_g c d nc (EPrim t v l p)
| RgSeq t l its :
    wf_tag t -> fst t <> 65534 -> t <> pixel_tag ->
    len_ok (wl nc l) -> (wl nc l = undef \/ vr_eqb (read_vr c d t SQ) SQ = true) ->
    (* a defined written length is the actual length of the items *)
    (forall f body, enc_items_g f c nc its = Ok body -> wl nc l = undef \/ wl nc l = blen body) ->
    Forall (fun it : item =>
              len_ok (wl nc (fst it)) /\
              (forall f body, enc_trees_g f c nc (snd it) = Ok body -> wl nc (fst it) = undef \/ wl nc (fst it) = blen body) /\
              Forall (readable_g c d nc) (snd it) /\ StronglySorted tag_lt (map elem_tag (snd it))) its ->
    readable_g c d nc (ESeq t SQ l its)
| RgPix ot frags :
    Forall (fun x => x < 4294967296) ot -> nlen ot < 1073741824 ->
    Forall (fun f : bytes => blen f < 4294967294) frags ->
    readable_g c d nc (EPix pixel_tag OB undef ot frags).

(** * Room bookkeeping *)
Lemma room_le st m n : m <= n -> room st n -> room st m.
Proof.
  unfold room. intros H R. destruct (r_stack st) as [|s r]; [exact I|].
  destruct R as [R | [R1 R2]]; [left; exact R | right; split; [exact R1 | lia]].
Qed.
Lemma room_advance st st1 k m :
  r_stack st1 = r_stack st -> r_pos st1 = r_pos st + k -> room st (k + m) -> room st1 m.
Proof.
  unfold room. intros Hs Hp R. rewrite Hs, Hp. destruct (r_stack st) as [|s r]; [exact I|].
  destruct R as [R | [R1 R2]]; [left; exact R | right; split; [exact R1 | lia]].
Qed.
Lemma room_new_frame st s stk n :
  r_stack st = s :: stk -> sq_base s = r_pos st -> (sq_len s = undef \/ sq_len s = n) -> room st n.
Proof.
  unfold room. intros Hs Hb H. rewrite Hs. destruct (N.eq_dec (sq_len s) undef) as [E|E]; [left; exact E|].
  right. split; [exact E|]. destruct H as [H|H]; [congruence|]. rewrite Hb, H. lia.
Qed.

Lemma gstate_stack st src stk : gstate st src stk -> r_stack st = stk.
Proof. intros (_ & _ & H & _). exact H. Qed.
Lemma gseq_state_stack st src stk : gseq_state st src stk -> r_stack st = stk.
Proof. intros (_ & _ & H & _). exact H. Qed.

(** * Pixel data (general stack, with positions) *)
Lemma read_fragments_g c d frags : forall st more stk,
  Forall (fun f : bytes => blen f < 4294967294) frags ->
  pixseq_state_g st (flat_map (frag_part c) frags ++ more) stk ->
  exists st', yields c d st (flat_map frag_rtoks frags) st' /\ pixseq_state_g st' more stk
              /\ r_pos st' = r_pos st + blen (flat_map (frag_part c) frags).
Proof.
  induction frags as [|fr frags IH]; intros st more stk H S.
  - exists st. split; [constructor|]. split; [exact S|]. cbn. lia.
  - inversion H as [|? ? Hf Hr]; subst. cbn [flat_map] in S |- *. rewrite <- app_assoc in S.
    destruct fr as [|x fr].
    + cbn [frag_part] in S |- *. rewrite st_item_header_even in S by (lia || reflexivity).
      destruct (step_pix_item_g (length (r_src st)) c d st stk 0 _ S ltac:(lia)) as (st1 & N1 & S1 & P1).
      pose proof (pixitem_zero_done_g st1 _ stk false S1 eq_refl) as D1.
      destruct (step_pix_item_end_g (length (r_src st1)) c d st1 _ stk D1) as (st2 & N2 & S2 & P2).
      destruct (IH st2 more stk Hr S2) as (st3 & Y3 & S3 & P3).
      exists st3. split; [|split; [exact S3|]].
      * cbn [frag_rtoks app]. econstructor; [exact N1|]. econstructor; [exact N2 | exact Y3].
      * rewrite P3, P2, P1, blen_app. unfold blen at 2. rewrite item_header_len8. lia.
    + unfold frag_part at 1 in S. set (b := x :: fr) in *.
      rewrite st_item_header_frag in S by exact Hf. rewrite <- app_assoc in S.
      assert (Lb : blen (pad_even 0 b) < 4294967295).
      { change (pad_even 0 b) with (ps35_padded OB b). pose proof (padded_lt OB b ltac:(lia)). pose proof (padded_ne_undef OB b). lia. }
      destruct (step_pix_item_g (length (r_src st)) c d st stk _ _ S Lb) as (st1 & N1 & S1 & P1).
      unfold st_write_bytes in S1.
      assert (Pos : 0 < blen (pad_even 0 b)).
      { unfold pad_even, blen, b. destruct (Nat.odd _); [rewrite app_length|]; cbn [length]; lia. }
      destruct (step_pix_value_g (length (r_src st1)) c d st1 stk _ _ S1 Pos) as (st2 & N2 & S2 & P2).
      destruct (step_pix_item_end_g (length (r_src st2)) c d st2 _ stk S2) as (st3 & N3 & S3 & P3).
      destruct (IH st3 more stk Hr S3) as (st4 & Y4 & S4 & P4).
      exists st4. split; [|split; [exact S4|]].
      * unfold frag_rtoks at 1. fold b. cbn [app].
        econstructor; [exact N1|]. econstructor; [exact N2|]. econstructor; [exact N3 | exact Y4].
      * rewrite P4, P3, P2, P1, blen_app.
        assert (FP : blen (frag_part c b) = 8 + blen (pad_even 0 b)).
        { unfold b, frag_part. rewrite blen_app. unfold blen at 1. rewrite item_header_len8. reflexivity. }
        rewrite FP. lia.
Qed.

Definition ot_part (c : codec) (ot : list N) : bytes :=
  match ot with
  | [] => st_enc_item_header c 0
  | _ => st_enc_item_header c ((nlen ot mod 4294967296 * 4) mod 4294967296) ++ st_enc_offset_table c ot
  end.

Lemma read_offset_table_g c d ot st more stk v :
  Forall (fun x => x < 4294967296) ot -> nlen ot < 1073741824 ->
  gval_state st (ot_part c ot ++ more) stk (pixel_tag, v, undef) ->
  exists st', yields c d st (ot_rtoks ot) st' /\ pixseq_state_g st' more stk
              /\ r_pos st' = r_pos st + blen (ot_part c ot).
Proof.
  intros Hw Hn S. destruct ot as [|x ot].
  - cbn [ot_part] in S |- *. rewrite st_item_header_even in S by (lia || reflexivity).
    destruct (step_pix_first_item_g (length (r_src st)) c d st stk v 0 more S ltac:(lia)) as (st1 & N1 & S1 & P1).
    pose proof (pixitem_zero_done_g st1 _ stk _ S1 eq_refl) as D1.
    destruct (step_pix_item_end_g (length (r_src st1)) c d st1 _ stk D1) as (st2 & N2 & S2 & P2).
    exists st2. split; [|split; [exact S2|]].
    + cbn [ot_rtoks]. econstructor; [exact N1|]. apply yields_one. exact N2.
    + rewrite P2, P1. unfold blen. rewrite item_header_len8. reflexivity.
  - unfold ot_part in S |- *. set (o := x :: ot) in *.
    assert (L : (nlen o mod 4294967296 * 4) mod 4294967296 = 4 * N.of_nat (length o)).
    { unfold nlen in *. rewrite (N.mod_small (N.of_nat (length o))) by lia. rewrite N.mod_small by lia. lia. }
    rewrite L in S |- *. rewrite st_item_header_even in S; [| unfold nlen in Hn; lia | replace (4 * N.of_nat (length o)) with (0 + (2 * N.of_nat (length o)) * 2) by lia; rewrite N.mod_add by discriminate; reflexivity ].
    rewrite <- app_assoc in S.
    destruct (step_pix_first_item_g (length (r_src st)) c d st stk v _ _ S ltac:(unfold nlen in Hn; lia)) as (st1 & N1 & S1 & P1).
    replace (negb (4 * N.of_nat (length o) =? 0)) with true in S1
      by (symmetry; apply negb_true_iff, N.eqb_neq; unfold o; cbn [length]; lia).
    unfold st_enc_offset_table in S1.
    assert (Lraw : length (enc_words c 4 o) = (4 * length o)%nat) by (rewrite enc_words_length; lia).
    destruct (step_pix_offset_table_g (length (r_src st1)) c d st1 stk (length o) _ more S1 Lraw ltac:(unfold o; cbn; lia))
      as (st2 & N2 & S2 & P2).
    destruct (step_pix_item_end_g (length (r_src st2)) c d st2 _ stk S2) as (st3 & N3 & S3 & P3).
    exists st3. split; [|split; [exact S3|]].
    + unfold ot_rtoks. fold o. unfold nlen.
      econstructor; [exact N1|]. econstructor.
      * rewrite N2. f_equal. f_equal. f_equal.
        rewrite <- (List.app_nil_r (enc_words c 4 o)). apply dec_words_enc_words. exact Hw.
      * apply yields_one. exact N3.
    + rewrite P3, P2, P1, blen_app.
      assert (B8 : blen (st_enc_item_header c (4 * N.of_nat (length o))) = 8) by (unfold blen; rewrite item_header_len8; reflexivity).
      rewrite B8. unfold st_enc_offset_table. rewrite enc_words_len. unfold nlen. lia.
Qed.

(** * The main induction *)
Definition reads_ok_g (c : codec) (d : dict_t) (nc : bool) (e : elem) : Prop :=
  forall f b, enc_tree_g f c nc e = Ok b ->
  (length (rtoks_g c d nc e) <= length b)%nat /\ 0 < blen b /\
  forall st rest stk, gstate st (b ++ rest) stk -> room st (blen b) ->
    exists st', yields c d st (rtoks_g c d nc e) st' /\ gstate st' rest stk
                /\ r_pos st' = r_pos st + blen b /\ r_pending st' = true.

Lemma read_elems_g c d nc es : forall f b,
  Forall (reads_ok_g c d nc) es -> enc_trees_g f c nc es = Ok b ->
  (length (rtoks_list_g c d nc es) <= length b)%nat /\ (es = [] -> b = []) /\
  forall st rest stk, gstate st (b ++ rest) stk -> room st (blen b) ->
    exists st', yields c d st (rtoks_list_g c d nc es) st' /\ gstate st' rest stk
                /\ r_pos st' = r_pos st + blen b /\ (es <> [] -> r_pending st' = true) /\ (es = [] -> st' = st).
Proof.
  induction es as [|e es IH]; intros f b H E.
  - cbn in E. inversion E; subst b. split; [cbn; lia|]. split; [reflexivity|].
    intros st rest stk S R. exists st. split; [constructor|]. split; [exact S|]. split; [cbn; lia|]. split; [congruence | reflexivity].
  - inversion H as [|? ? He Hes]; subst. cbn [enc_trees_g] in E.
    apply obind_ok in E. destruct E as (b1 & E1 & E). apply obind_ok in E. destruct E as (b2 & E2 & E).
    inversion E; subst b. destruct (He f b1 E1) as (L1 & Pos1 & R1). destruct (IH f b2 Hes E2) as (L2 & _ & R2).
    unfold rtoks_list_g in *. cbn [flat_map]. split; [rewrite !app_length; lia|]. split; [discriminate|].
    intros st rest stk S R. rewrite <- app_assoc in S. rewrite blen_app in R.
    destruct (R1 st (b2 ++ rest) stk S (room_le st (blen b1) (blen b1 + blen b2) ltac:(lia) R)) as (st1 & Y1 & S1 & P1 & Pe1).
    assert (Rm : room st1 (blen b2)).
    { apply (room_advance st st1 (blen b1)); [rewrite (gstate_stack _ _ _ S1), (gstate_stack _ _ _ S); reflexivity | exact P1 | exact R]. }
    destruct (R2 st1 rest stk S1 Rm) as (st2 & Y2 & S2 & P2 & Pe2 & Pn2).
    exists st2. split; [eapply yields_app; eassumption|]. split; [exact S2|].
    split; [rewrite P2, P1, blen_app; lia|]. split; [|discriminate].
    intros _. destruct es as [|e' es']; [rewrite (Pn2 eq_refl); exact Pe1 | apply Pe2; discriminate].
Qed.

Definition item_cond (c : codec) (d : dict_t) (nc : bool) (it : item) : Prop :=
  len_ok (wl nc (fst it)) /\
  (forall f body, enc_trees_g f c nc (snd it) = Ok body -> wl nc (fst it) = undef \/ wl nc (fst it) = blen body) /\
  Forall (reads_ok_g c d nc) (snd it).

Lemma st_item_header_ok c L : len_ok L -> st_enc_item_header c L = ps35_item_header c L.
Proof.
  intros [-> | [H E]]; [apply st_item_header_undef | apply st_item_header_even; assumption].
Qed.

Lemma item_delim_blen' c : blen (enc_item_delim c) = 8.
Proof. unfold enc_item_delim, blen. rewrite !app_length, !u16_length. reflexivity. Qed.
Lemma seq_delim_blen' c : blen (enc_seq_delim c) = 8.
Proof. unfold enc_seq_delim, blen. rewrite !app_length, !u16_length. reflexivity. Qed.
Lemma item_header_blen' c L : blen (st_enc_item_header c L) = 8.
Proof. unfold blen. rewrite item_header_len8. reflexivity. Qed.

Lemma read_items_g c d nc (Hd : delim_ok c d) its : forall f b,
  Forall (item_cond c d nc) its -> enc_items_g f c nc its = Ok b ->
  (length (rtoks_items_g c d nc its) <= length b)%nat /\ (its = [] -> b = []) /\
  forall st rest stk, gseq_state st (b ++ rest) stk -> room st (blen b) ->
    exists st', yields c d st (rtoks_items_g c d nc its) st' /\ gseq_state st' rest stk
                /\ r_pos st' = r_pos st + blen b /\ (its <> [] -> r_pending st' = true) /\ (its = [] -> st' = st).
Proof.
  induction its as [|[n es] its IH]; intros f b H E.
  - cbn in E. inversion E; subst b. split; [cbn; lia|]. split; [reflexivity|].
    intros st rest stk S R. exists st. split; [constructor|]. split; [exact S|]. split; [cbn; lia|]. split; [congruence | reflexivity].
  - inversion H as [|? ? (Hlen & Hcorr & Hes) Hits]; subst. cbn [fst snd] in *. cbn [enc_items_g] in E.
    apply obind_ok in E. destruct E as (body & E1 & E). apply obind_ok in E. destruct E as (r & E2 & E).
    inversion E; subst b. clear E.
    destruct (read_elems_g c d nc es f body Hes E1) as (L1 & Nil1 & R1). destruct (IH f r Hits E2) as (L2 & _ & R2).
    set (N' := wl nc n) in *.
    unfold rtoks_items_g in *. cbn [flat_map fst snd]. fold N'. split.
    { rewrite !app_length, item_header_len8. cbn [length]. lia. }
    split; [discriminate|].
    intros st rest stk S R. rewrite (st_item_header_ok c N' Hlen), <- !app_assoc in S.
    rewrite !blen_app, item_header_blen' in R.
    assert (HN : N' < 4294967296) by (destruct Hlen as [-> | [Hl _]]; [unfold undef|]; lia).
    assert (R8 : room st 8) by (eapply room_le; [|exact R]; lia).
    destruct (step_item_start_g (length (r_src st)) c d st stk N' _ 8 S ltac:(lia) R8 HN)
      as (st1 & N1 & S1 & P1 & Pz1).
    assert (Hne : stk <> []) by (destruct S as (_ & _ & _ & Hne & _); exact Hne).
    set (top := {| sq_item := true; sq_len := N'; sq_pixel := false; sq_base := r_pos st1 |}) in *.
    assert (Rm1 : room st1 (blen body)).
    { apply (room_new_frame st1 top stk); [exact (gstate_stack _ _ _ S1) | reflexivity | exact (Hcorr f body E1)]. }
    destruct (R1 st1 _ (top :: stk) S1 Rm1) as (st2 & Y2 & S2 & P2 & Pe2 & Pn2).
    destruct (N.eq_dec N' undef) as [EU | NU].
    + (* undefined length: item delimiter *)
      rewrite EU in *. change (undef =? undef) with true in S2, R |- *. cbv iota in S2, R.
      rewrite enc_item_delim_ps35 in S2.
      destruct (step_item_end_g (length (r_src st2)) c d st2 stk top _ S2 EU Hne Hd) as (st3 & N3 & S3 & P3 & Pe3).
      rewrite ?blen_app, item_delim_blen' in R.
      assert (Rm3 : room st3 (blen r)).
      { apply (room_advance st st3 (8 + blen body + 8)); [rewrite (gseq_state_stack _ _ _ S3), (gseq_state_stack _ _ _ S); reflexivity | lia |].
        eapply room_le; [|exact R]. lia. }
      destruct (R2 st3 rest stk S3 Rm3) as (st4 & Y4 & S4 & P4 & Pe4 & Pn4).
      exists st4. split; [|split; [exact S4|]].
      * cbn [app]. econstructor; [exact N1|]. rewrite <- app_assoc. eapply yields_app; [exact Y2|].
        cbn [app]. econstructor; [exact N3 | exact Y4].
      * split; [rewrite !blen_app, item_header_blen', item_delim_blen'; lia|]. split; [|discriminate].
        intros _. destruct its as [|i its']; [rewrite (Pn4 eq_refl); exact Pe3 | apply Pe4; discriminate].
    + (* defined length: the end is synthesised when the content is exhausted *)
      replace (N' =? undef) with false in S2, R |- * by (symmetry; apply N.eqb_neq; exact NU). cbv iota in S2, R. cbn [app] in S2.
      assert (HNb : N' = blen body) by (destruct (Hcorr f body E1); [congruence | assumption]).
      assert (Pend2 : r_pending st2 = true).
      { destruct es as [|e0 es0]; [|apply Pe2; discriminate].
        rewrite (Pn2 eq_refl). apply Pz1. rewrite HNb, (Nil1 eq_refl). reflexivity. }
      pose proof (step_end_defined (length (r_src st2)) c d st2 top stk
                    ltac:(destruct S2 as (_ & _ & _ & _ & Hh & _); exact Hh) Pend2 (gstate_stack _ _ _ S2) NU
                    ltac:(cbn [top sq_base sq_len]; lia)) as N3.
      cbn [top sq_item] in N3.
      set (st3 := upd st2 true (r_ot_next st2) true stk (r_last st2)) in *.
      assert (S3 : gseq_state st3 (r ++ rest) stk).
      { destruct S2 as (A1 & A2 & A3 & A4 & A5 & A6 & A7 & A8). unfold gseq_state, st3, upd. cbn.
        inversion A4; subst. repeat split; auto. }
      assert (Rm3 : room st3 (blen r)).
      { apply (room_advance st st3 (8 + blen body)); [unfold st3, upd; cbn; rewrite (gseq_state_stack _ _ _ S); reflexivity | unfold st3, upd; cbn; lia |].
        eapply room_le; [|exact R]. rewrite blen_nil. lia. }
      destruct (R2 st3 rest stk S3 Rm3) as (st4 & Y4 & S4 & P4 & Pe4 & Pn4).
      exists st4. split; [|split; [exact S4|]].
      * cbn [app]. econstructor; [exact N1|]. rewrite <- app_assoc. eapply yields_app; [exact Y2|].
        cbn [app]. econstructor; [exact N3 | exact Y4].
      * split; [rewrite P4; unfold st3, upd; cbn [r_pos]; rewrite !blen_app, item_header_blen', blen_nil; lia|].
        split; [|discriminate].
        intros _. destruct its as [|i its']; [rewrite (Pn4 eq_refl); reflexivity | apply Pe4; discriminate].
Qed.

Lemma st_seq_header_ok c t L : len_ok L -> st_enc_header c t SQ L = Ok (ps35_header c t SQ L).
Proof.
  intros [-> | [H E]]; [apply st_enc_header_undef_sq|].
  apply st_enc_header_defined; [exact H | exact E | intros _ Hs; discriminate Hs].
Qed.

Lemma header_len_ge8 c t v L : (8 <= length (ps35_header c t v L))%nat.
Proof.
  destruct (ps35_header_starts c t v L) as [tl [Eh Lh]]. rewrite Eh, app_length, ps35_u16_length. lia.
Qed.
Lemma header_blen_ge8 c t v L : 8 <= blen (ps35_header c t v L).
Proof. unfold blen. pose proof (header_len_ge8 c t v L). lia. Qed.

Lemma readable_reads_ok_g c d nc (Hd : delim_ok c d) : forall e, readable_g c d nc e -> reads_ok_g c d nc e.
Proof.
  apply (elem_ind_nested (fun e => readable_g c d nc e -> reads_ok_g c d nc e)).
  - (* primitive *)
    intros t v l p R f b E. inversion R as [? ? ? ? Hok Hrt| |]; subst.
    destruct f as [|f]; [cbn in E; discriminate|]. cbn [enc_tree_g] in E.
    destruct Hok as (Hpl & Hty & Hwf & Hlen & Htag & Hgrp & _). destruct Hrt as [Hpr Hsq].
    destruct (enc_prim_element_shape c t v p b Hty Hwf Hlen E) as [Sh K].
    set (val := ps35_padded v (raw_value c v p)) in *.
    destruct (back_value_not_sq c (read_vr c d t v) val Hsq) as [q Hq].
    assert (Q : readback_prim c (read_vr c d t v) val = q) by (unfold readback_prim; rewrite Hq; reflexivity).
    assert (Lv : blen val < 4294967295).
    { unfold val. pose proof (padded_lt v (raw_value c v p) Hlen). pose proof (padded_ne_undef v (raw_value c v p)). lia. }
    pose proof (header_blen_ge8 c t v (blen val)) as Hh8. pose proof (header_len_ge8 c t v (blen val)) as Hn8.
    cbn [rtoks_g]. fold val. rewrite Q. split; [|split].
    { rewrite Sh, app_length. cbn [length]. lia. }
    { rewrite Sh, blen_app. lia. }
    intros st rest stk S Rm. rewrite Sh, <- app_assoc in S. rewrite Sh, blen_app in Rm.
    destruct (step_header_g (length (r_src st)) c d st stk t v val rest (blen (ps35_header c t v (blen val)) + blen val) S ltac:(lia) Rm Htag Hgrp Lv K Hsq) as (st1 & N1 & S1 & P1).
    destruct (step_value_g (length (r_src st1)) c d st1 stk t _ val rest q S1 Hpr Lv Hq) as (st2 & N2 & S2 & P2 & Pe2).
    exists st2. split; [econstructor; [exact N1|]; apply yields_one; exact N2|].
    split; [exact S2|]. split; [rewrite P2, P1, Sh, blen_app; lia | exact Pe2].
  - (* encapsulated pixel data *)
    intros t v l ot fr R f b E. inversion R as [| |? ? Hot Hn Hfr]; subst.
    destruct f as [|f]; [cbn in E; discriminate|]. cbn [enc_tree_g] in E. unfold enc_pix in E.
    rewrite st_enc_header_undef_ob in E. cbn [obind] in E. inversion E; subst b. clear E.
    change (match ot with [] => st_enc_item_header c 0 | _ => st_enc_item_header c ((nlen ot mod 4294967296 * 4) mod 4294967296) ++ st_enc_offset_table c ot end)
      with (ot_part c ot).
    change (flat_map (fun f0 : bytes => match f0 with [] => st_enc_item_header c 0 | _ => st_enc_item_header c (blen f0 mod 4294967296) ++ st_write_bytes f0 end) fr)
      with (flat_map (frag_part c) fr).
    pose proof (header_blen_ge8 c pixel_tag OB undef) as Hh8. pose proof (header_len_ge8 c pixel_tag OB undef) as Hn8.
    cbn [rtoks_g]. split; [|split].
    { rewrite !app_length.
      pose proof (frag_tokens_bound c fr) as FB.
      assert (OB' : (length (ot_rtoks ot) <= length (ot_part c ot))%nat).
      { destruct ot; cbn [ot_rtoks ot_part]; rewrite ?app_length, item_header_len8; cbn [length]; lia. }
      cbn [length].
      match goal with |- context [(length ?X + (length (flat_map ?F fr) + _))%nat] =>
        assert (OB2 : (length (ot_rtoks ot) <= length X)%nat) by exact OB';
        assert (FB2 : (length (flat_map frag_rtoks fr) <= length (flat_map F fr))%nat) by exact FB end.
      lia. }
    { rewrite blen_app. lia. }
    intros st rest stk S Rm. rewrite <- !app_assoc in S. rewrite !blen_app in Rm.
    match type of Rm with room st ?n => destruct (step_pix_start_g (length (r_src st)) c d st stk _ n S ltac:(lia) Rm) as (st1 & N1 & S1 & P1) end.
    destruct (read_offset_table_g c d ot st1 _ stk _ Hot Hn S1) as (st2 & Y2 & S2 & P2).
    destruct (read_fragments_g c d fr st2 _ stk Hfr S2) as (st3 & Y3 & S3 & P3).
    rewrite enc_seq_delim_ps35 in S3.
    destruct (step_pix_end_g (length (r_src st3)) c d st3 stk rest S3) as (st4 & N4 & S4 & P4 & Pe4).
    exists st4. split; [|split; [exact S4|split; [|exact Pe4]]].
    + cbn [app]. econstructor; [exact N1|]. eapply yields_app; [exact Y2|]. eapply yields_app; [exact Y3|].
      apply yields_one. exact N4.
    + rewrite P4, P3, P2, P1, !blen_app, seq_delim_blen'.
      match goal with |- _ = _ + (_ + (blen ?X + (blen (flat_map ?F fr) + _))) =>
        assert (EO : blen X = blen (ot_part c ot)) by reflexivity;
        assert (EF : blen (flat_map F fr) = blen (flat_map (frag_part c) fr)) by reflexivity end.
      lia.
  - (* sequence *)
    intros t v l its IH R f b E. inversion R as [|? ? ? Htag Hgrp Hpx HL Hvr Hcorr Hits|]; subst.
    assert (A : Forall (item_cond c d nc) its).
    { clear R E Hcorr. induction its as [|it its IHi]; [constructor|].
      inversion IH as [|? ? I1 I2]; inversion Hits as [|? ? (J0 & Jc & J1 & J3) J2]; subst. constructor.
      - split; [exact J0|]. split; [exact Jc|]. clear IHi I2 J2 J3 Jc J0. induction (snd it) as [|x xs IHx]; [constructor|].
        inversion I1; inversion J1; subst. constructor; [auto | auto].
      - apply IHi; assumption. }
    destruct f as [|f]; [cbn in E; discriminate|]. rewrite enc_tree_g_seq, (st_seq_header_ok c t _ HL) in E.
    cbn [obind] in E. apply obind_ok in E. destruct E as (body & E1 & E). inversion E; subst b. clear E.
    set (L := wl nc l) in *.
    destruct (read_items_g c d nc Hd its f body A E1) as (L1 & Nil1 & R1).
    pose proof (header_blen_ge8 c t SQ L) as Hh8. pose proof (header_len_ge8 c t SQ L) as Hn8.
    cbn [rtoks_g]. fold L. split; [|split].
    { rewrite !app_length. cbn [length].
      match goal with |- context [length (flat_map ?F its)] =>
        assert (L1' : (length (flat_map F its) <= length body)%nat) by exact L1 end. lia. }
    { rewrite blen_app. lia. }
    intros st rest stk S Rm. rewrite <- !app_assoc in S. rewrite !blen_app in Rm.
    assert (HLt : L < 4294967296) by (destruct HL as [-> | [Hl _]]; [unfold undef|]; lia).
    match type of Rm with room st ?n => destruct (step_seq_start_g (length (r_src st)) c d st stk t L _ n S ltac:(lia) Rm Htag Hgrp Hpx HLt Hvr)
      as (st1 & N1 & S1 & P1 & Pz1) end.
    set (top := {| sq_item := false; sq_len := L; sq_pixel := false; sq_base := r_pos st1 |}) in *.
    assert (Rm1 : room st1 (blen body)).
    { apply (room_new_frame st1 top stk); [exact (gseq_state_stack _ _ _ S1) | reflexivity | exact (Hcorr f body E1)]. }
    destruct (R1 st1 _ (top :: stk) S1 Rm1) as (st2 & Y2 & S2 & P2 & Pe2 & Pn2).
    destruct (N.eq_dec L undef) as [EU | NU].
    + rewrite EU in S2 |- *. change (undef =? undef) with true in S2 |- *. cbv iota in S2 |- *.
      rewrite enc_seq_delim_ps35 in S2.
      destruct (step_seq_end_g (length (r_src st2)) c d st2 stk top rest S2 EU) as (st3 & N3 & S3 & P3 & Pe3).
      exists st3. split; [|split; [exact S3|split; [|exact Pe3]]].
      * cbn [app]. econstructor; [rewrite <- EU; exact N1|].
        eapply yields_app; [exact Y2|]. apply yields_one. exact N3.
      * rewrite P3, P2, P1, !blen_app, seq_delim_blen'. rewrite <- EU. lia.
    + replace (L =? undef) with false in S2 |- * by (symmetry; apply N.eqb_neq; exact NU). cbv iota in S2 |- *. cbn [app] in S2.
      assert (HLb : L = blen body) by (destruct (Hcorr f body E1); [congruence | assumption]).
      assert (Pend2 : r_pending st2 = true).
      { destruct its as [|i0 its0]; [|apply Pe2; discriminate].
        rewrite (Pn2 eq_refl). apply Pz1. rewrite HLb, (Nil1 eq_refl). reflexivity. }
      pose proof (step_end_defined (length (r_src st2)) c d st2 top stk
                    ltac:(destruct S2 as (_ & _ & _ & _ & _ & Hh & _); exact Hh) Pend2 (gseq_state_stack _ _ _ S2) NU
                    ltac:(cbn [top sq_base sq_len]; lia)) as N3.
      cbn [top sq_item] in N3.
      set (st3 := upd st2 false (r_ot_next st2) true stk (r_last st2)) in *.
      assert (S3 : gstate st3 rest stk).
      { destruct S2 as (A1 & A2 & A3 & A4 & A5 & A6 & A7 & A8 & A9). unfold gstate, st3, upd. cbn.
        try rewrite List.app_nil_r in A1. inversion A5 as [|? ? _ A5']; subst. repeat split; auto. }
      exists st3. split; [|split; [exact S3|split; [|reflexivity]]].
      * cbn [app]. econstructor; [exact N1|]. eapply yields_app; [exact Y2|]. apply yields_one. exact N3.
      * unfold st3, upd. cbn [r_pos]. rewrite P2, P1, !blen_app, blen_nil. lia.
Qed.

(** R (tokens), general: the reader on the writer's output for either strategy. *)
Lemma read_tokens_tree_g c d nc (Hd : delim_ok c d) es b :
  Forall (readable_g c d nc) es -> enc_trees_g (elems_size es) c nc es = Ok b ->
  read_tokens (S (length b)) c d (r_init b) = (rtoks_list_g c d nc es, None).
Proof.
  intros H E.
  assert (A : Forall (reads_ok_g c d nc) es) by (eapply Forall_impl; [apply readable_reads_ok_g; exact Hd | exact H]).
  destruct (read_elems_g c d nc es _ b A E) as (L & _ & R).
  assert (S0 : gstate (r_init b) (b ++ []) []).
  { rewrite List.app_nil_r. unfold gstate, r_init, nopix. cbn. repeat split; auto. }
  destruct (R (r_init b) [] [] S0 I) as (st' & Y & S' & _).
  destruct (step_eof_g (length (r_src st')) c d st' [] S' (gstate_stack _ _ _ S')) as [st'' En].
  assert (RT : read_tokens (S (length b - length (rtoks_list_g c d nc es))) c d st' = ([], None)).
  { cbn [read_tokens]. rewrite En. reflexivity. }
  pose proof (yields_read c d _ _ _ Y _ _ _ RT) as Q. rewrite List.app_nil_r in Q.
  replace (length (rtoks_list_g c d nc es) + S (length b - length (rtoks_list_g c d nc es)))%nat with (S (length b)) in Q by lia.
  exact Q.
Qed.
