(** Lemmas about Model/ValueRead.v (C07). *)
From DicomV Require Import Base.Prelude Base.Endian Model.ValueRead.
From Coq Require Import ZifyBool ZifyNat ZifyN.

(** * The source *)
Lemma blen_app a b : blen (a ++ b) = blen a + blen b.
Proof. unfold blen. rewrite app_length. lia. Qed.

Lemma take_spec n s d r : take n s = Some (d, r) -> s = d ++ r /\ blen d = n.
Proof.
  unfold take. destruct (N.leb_spec n (blen s)) as [H|H]; [|discriminate].
  intros E. injection E as <- <-. split.
  - symmetry. apply firstn_skipn.
  - unfold blen in *. rewrite firstn_length. lia.
Qed.

Lemma take_len n s d r : take n s = Some (d, r) -> blen s = n + blen r.
Proof. intros H. apply take_spec in H. destruct H as [-> <-]. apply blen_app. Qed.

Lemma take_some n s : n <= blen s -> exists d r, take n s = Some (d, r).
Proof. intros H. unfold take. destruct (N.leb_spec n (blen s)); [eauto|lia]. Qed.

Lemma take_nil n d r : take n [] = Some (d, r) -> n = 0.
Proof. intros H. apply take_len in H. cbn in H. lia. Qed.

Ltac takes :=
  repeat match goal with
  | H : take _ _ = Some (_, _) |- _ => apply take_len in H
  end.

Ltac break_match H :=
  match type of H with
  | context [match ?x with _ => _ end] => destruct x eqn:?
  end.
Ltac break_goal :=
  match goal with
  | |- context [match ?x with _ => _ end] =>
      lazymatch x with
      | context [match _ with _ => _ end] => fail
      | _ => destruct x eqn:?
      end
  end.

Section WithDict.
Variable dict : N -> option vvr.
Variable rejects : N -> bytes -> bool.

(** * Header decoders report exactly the bytes they took *)
Lemma explicit_length_len be g e vr vrst r1 h n v rest :
  explicit_length be g e vr vrst r1 = HOk h n v rest -> blen r1 + 6 = n + blen rest /\ v = vrst.
Proof using. clear dict rejects.
  unfold explicit_length. intros H. repeat break_match H; try discriminate; injection H as <- <- <- <-; takes; lia.
Qed.

Lemma explicit_tail_len be g e vrst r h n v rest :
  explicit_tail be g e vrst r = HOk h n v rest -> blen r + 4 = n + blen rest /\ v = vrst.
Proof using. clear dict rejects.
  unfold explicit_tail. intros H. destruct (take 2 r) as [[v' r1]|] eqn:E; [|discriminate].
  apply explicit_length_len in H. takes. lia.
Qed.

Lemma implicit_tail_len g e vrst r h n v rest :
  implicit_tail dict g e vrst r = HOk h n v rest -> blen r + 4 = n + blen rest /\ v = vrst.
Proof using dict. clear rejects.
  unfold implicit_tail. intros H. repeat break_match H; try discriminate. injection H as <- <- <- <-. takes. lia.
Qed.

Lemma delim_tail_len be g e vrst r h n v rest :
  delim_tail be g e vrst r = HOk h n v rest -> blen r + 4 = n + blen rest /\ v = vrst.
Proof using. clear dict rejects.
  unfold delim_tail. intros H. repeat break_match H; try discriminate. injection H as <- <- <- <-. takes. lia.
Qed.

Lemma adaptive_implicit_rest_len g e lo r1 h n v rest :
  adaptive_implicit_rest dict g e lo r1 = HOk h n v rest -> blen r1 + 6 = n + blen rest /\ v = 2.
Proof using dict. clear rejects.
  unfold adaptive_implicit_rest. intros H. repeat break_match H; try discriminate. injection H as <- <- <- <-. takes. lia.
Qed.

Lemma adaptive_tail_len g e vrst r h n v rest :
  adaptive_tail dict g e vrst r = HOk h n v rest -> blen r + 4 = n + blen rest.
Proof using dict. clear rejects.
  unfold adaptive_tail. intros H. repeat break_match H; try discriminate.
  - apply explicit_tail_len in H. lia.
  - apply implicit_tail_len in H. lia.
  - apply adaptive_implicit_rest_len in H. takes. lia.
  - apply explicit_length_len in H. takes. lia.
  - apply adaptive_implicit_rest_len in H. takes. lia.
Qed.

Lemma decode_header_raw_len kind vrst s h n v rest :
  decode_header_raw dict kind vrst s = HOk h n v rest -> blen s = n + blen rest.
Proof using dict. clear rejects.
  unfold decode_header_raw, dec_tag. intros H.
  destruct (take 4 s) as [[t r]|] eqn:ET; [|discriminate].
  destruct (kind =? ILE); [apply implicit_tail_len in H; takes; lia|].
  destruct (_ =? 65534); [apply delim_tail_len in H; takes; lia|].
  destruct (kind =? ADA); [apply adaptive_tail_len in H; takes; lia|].
  apply explicit_tail_len in H. takes. lia.
Qed.

Lemma decode_header_raw_n kind vrst s h n v rest :
  decode_header_raw dict kind vrst s = HOk h n v rest -> n = 8 \/ n = 12.
Proof using dict. clear rejects.
  assert (EL : forall be g e vr vrst r1 h n v rest,
             explicit_length be g e vr vrst r1 = HOk h n v rest -> n = 8 \/ n = 12).
  { unfold explicit_length. intros. repeat break_match H; try discriminate; injection H as <- <- <- <-; auto. }
  unfold decode_header_raw, dec_tag, implicit_tail, delim_tail, adaptive_tail, explicit_tail, implicit_tail,
    adaptive_implicit_rest.
  intros H. destruct (take 4 s) as [[t r]|] eqn:ET; [|discriminate].
  repeat break_match H; try discriminate;
    try (injection H as <- <- <- <-; auto); try (apply EL in H; exact H).
Qed.

Lemma decode_item_raw_len kind s w len rest :
  decode_item_raw kind s = IOk w len rest -> blen s = 8 + blen rest.
Proof using. clear dict rejects.
  unfold decode_item_raw. intros H. repeat break_match H; try discriminate; injection H as <- <- <-; takes; lia.
Qed.

(** * The position invariant of the stateful decoder *)
Definition Inv (total base : N) (d : dstate) : Prop :=
  d_position d + blen (d_src d) = base + total + d_short d
  /\ blen (d_src d) <= total
  /\ (0 < d_short d -> d_src d = []).

Lemma Inv_init base b : Inv (blen b) base (init_dec base b).
Proof using. clear dict rejects.
  unfold Inv, init_dec; cbn [d_position d_src d_short].
  split; [rewrite N.add_0_r; reflexivity|]. split; [apply N.le_refl|].
  intros H. exfalso. revert H. apply N.lt_irrefl.
Qed.

Lemma Inv_consume total base d rest n sg vs :
  Inv total base d -> blen (d_src d) = n + blen rest -> 0 < n ->
  Inv total base (mkD rest (d_position d + n) sg vs (d_short d)).
Proof using. clear dict rejects.
  intros (H1 & H2 & H3) E Hn. unfold Inv. cbn. repeat split; try lia.
  intros Hs. specialize (H3 Hs). rewrite H3 in E. cbn in E. lia.
Qed.

Lemma dec_header_inv total base kind d h d' :
  Inv total base d -> dec_header dict kind d = DOk h d' -> Inv total base d'.
Proof using dict. clear rejects.
  unfold dec_header. intros HI H. destruct (decode_header_raw dict kind (d_vrst d) (d_src d)) eqn:E; try discriminate.
  injection H as <- <-. pose proof (decode_header_raw_n _ _ _ _ _ _ _ E).
  apply decode_header_raw_len in E. apply Inv_consume; [exact HI|exact E|lia].
Qed.

Lemma dec_item_inv total base kind d w len d' :
  Inv total base d -> dec_item kind d = DIOk w len d' -> Inv total base d'.
Proof using. clear dict rejects.
  unfold dec_item. intros HI H. destruct (decode_item_raw kind (d_src d)) eqn:E; try discriminate.
  injection H as <- <- <-. apply decode_item_raw_len in E. apply Inv_consume; [exact HI|exact E|lia].
Qed.

(** ** Every value reader takes exactly the declared number of bytes *)
Lemma read_value_consumes kind strat h d v d' :
  read_value rejects kind strat h d = VOk v d' ->
  exists data, d_src d = data ++ d_src d' /\ blen data = h_len h
               /\ d_position d' = d_position d + h_len h /\ d_short d' = d_short d /\ d_vrst d' = d_vrst d.
Proof using rejects. clear dict.
  unfold read_value. intros H.
  destruct (N.eqb_spec (h_len h) 0) as [E0|E0].
  { injection H as <- <-. exists []. rewrite E0. cbn. repeat split; lia. }
  destruct (read_class strat (h_vr h)) eqn:EC; try discriminate;
  (destruct (h_len h =? UNDEF); [discriminate|]);
  (destruct (take (h_len h) (d_src d)) as [[data rest]|] eqn:ET; [|discriminate]);
  apply take_spec in ET; destruct ET as [ES EL]; exists data.
  all: try (injection H as <- <-; cbn; rewrite ES; repeat split; auto).
  (* interpreted *)
  destruct (trim_trail data); [injection H as <- <-; cbn; rewrite ES; repeat split; auto|].
  destruct (rejects (h_vr h) data); [discriminate|].
  injection H as <- <-; cbn; rewrite ES; repeat split; auto.
Qed.

Lemma read_value_inv total base kind strat h d v d' :
  Inv total base d -> read_value rejects kind strat h d = VOk v d' -> Inv total base d'.
Proof using rejects. clear dict.
  intros HI H. apply read_value_consumes in H. destruct H as (data & ES & EL & EP & ESh & _).
  destruct HI as (H1 & H2 & H3). unfold Inv. rewrite EP, ESh. rewrite ES, blen_app in H1, H2.
  repeat split; try lia.
  intros Hs. specialize (H3 Hs). rewrite H3 in ES. symmetry in ES. apply app_eq_nil in ES. tauto.
Qed.

(** A value reader only fails for a sequence VR, an undefined length, a source
    that is too short, or (interpreted strategy) a text the parser refuses. *)
Lemma read_value_total kind strat h d :
  read_class strat (h_vr h) <> RErr -> h_len h <> UNDEF -> h_len h <= blen (d_src d) ->
  (forall data, rejects (h_vr h) data = false) ->
  exists v d', read_value rejects kind strat h d = VOk v d'.
Proof using rejects. clear dict.
  intros HC HU HL HR. unfold read_value.
  destruct (h_len h =? 0); [eauto|].
  destruct (N.eqb_spec (h_len h) UNDEF); [contradiction|].
  destruct (take_some _ _ HL) as (data & rest & ->).
  destruct (read_class strat (h_vr h)); try contradiction; eauto.
  destruct (trim_trail data); [eauto|]. rewrite HR. eauto.
Qed.

Lemma read_to_vec_inv total base len d data d' :
  Inv total base d -> read_to_vec len d = (data, d') -> Inv total base d'.
Proof using. clear dict rejects.
  unfold read_to_vec. intros (H1 & H2 & H3) H. injection H as <- <-. unfold Inv. cbn [d_src d_position d_short].
  set (n := N.to_nat (N.min len (blen (d_src d)))).
  assert (Hf : blen (firstn n (d_src d)) = N.min len (blen (d_src d))).
  { unfold blen, n. rewrite firstn_length. unfold blen. lia. }
  assert (Hs : blen (skipn n (d_src d)) = blen (d_src d) - N.min len (blen (d_src d))).
  { unfold blen, n. rewrite skipn_length. unfold blen. lia. }
  rewrite Hf, Hs. repeat split; try lia.
  intros Hp. destruct (N.ltb_spec 0 (d_short d)) as [Hd|Hd].
  - rewrite (H3 Hd). destruct n; reflexivity.
  - assert (blen (skipn n (d_src d)) = 0) by lia.
    unfold blen in H. destruct (skipn n (d_src d)); [reflexivity|cbn in H; lia].
Qed.

Lemma read_u32_to_vec_inv total base kind len d l d' :
  Inv total base d -> read_u32_to_vec kind len d = Some (l, d') -> Inv total base d'.
Proof using. clear dict rejects.
  unfold read_u32_to_vec. intros HI H. destruct (take len (d_src d)) as [[data rest]|] eqn:ET; [|discriminate].
  injection H as <- <-. apply take_len in ET.
  destruct (N.eqb_spec len 0) as [->|Hn].
  - destruct HI as (H1 & H2 & H3). unfold Inv. cbn. repeat split; try lia.
    intros Hs. specialize (H3 Hs). rewrite H3 in ET. cbn in ET. destruct rest; [reflexivity|unfold blen in ET; cbn in ET; lia].
  - apply Inv_consume; [exact HI|exact ET|lia].
Qed.

(** * The reader preserves the invariant *)
Definition RInv (total base : N) (st : rstate) : Prop := Inv total base (r_dec st).

Lemma update_dec st :
  match update_seq_delimiters st with
  | UErr => True
  | UTok _ st' => r_dec st' = r_dec st
  | UNone st' => r_dec st' = r_dec st
  end.
Proof using. clear dict rejects.
  unfold update_seq_delimiters. destruct (r_stack st) as [|sd rest]; [reflexivity|].
  destruct (s_len sd =? UNDEF); [reflexivity|].
  destruct (s_base sd + s_len sd =? d_position (r_dec st)); [destruct (s_item sd); reflexivity|].
  destruct (s_base sd + s_len sd <? d_position (r_dec st)); [exact I|reflexivity].
Qed.

Lemma next_in_seq_inv total base kind odd st t st' :
  RInv total base st -> next_in_seq kind odd st = NTok t st' -> RInv total base st'.
Proof using. clear dict rejects.
  unfold RInv, next_in_seq. intros HI H.
  destruct (dec_item kind (r_dec st)) eqn:E; repeat break_match H; try discriminate;
    injection H as <- <-; cbn; eapply dec_item_inv; eauto.
Qed.

Lemma next_pixel_item_inv total base kind len st t st' :
  RInv total base st -> next_pixel_item kind len st = NTok t st' -> RInv total base st'.
Proof using. clear dict rejects.
  unfold RInv, next_pixel_item. intros HI H. repeat break_match H; try discriminate; injection H as <- <-; cbn.
  - eapply read_u32_to_vec_inv; eauto.
  - eapply read_to_vec_inv; eauto.
Qed.

Lemma next_after_header_inv total base kind strat odd h st t st' :
  RInv total base st -> next_after_header rejects kind strat odd h st = NTok t st' -> RInv total base st'.
Proof using rejects. clear dict.
  unfold RInv, next_after_header. intros HI H.
  destruct (encapsulated h).
  - destruct (dec_item kind (r_dec st)) eqn:E; repeat break_match H; try discriminate;
      injection H as <- <-; cbn; eapply dec_item_inv; eauto.
  - destruct (read_value rejects kind strat h (r_dec st)) eqn:E; [discriminate|].
    injection H as <- <-. cbn. eapply read_value_inv; eauto.
Qed.

Lemma next_header_inv total base kind odd st :
  RInv total base st ->
  match next_header dict kind odd st with
  | HR (NTok _ st') => RInv total base st'
  | HR _ => True
  | HCont d => Inv total base d
  end.
Proof using dict. clear rejects.
  unfold RInv, next_header. intros HI.
  destruct (dec_header dict kind (r_dec st)) eqn:E; auto.
  pose proof (dec_header_inv _ _ _ _ _ _ HI E) as HI'.
  repeat break_goal; cbn; auto.
Qed.

Lemma next_go_inv total base kind strat odd k st t st' :
  (forall s t st', RInv total base s -> k s = NTok t st' -> RInv total base st') ->
  RInv total base st -> next_go dict rejects k kind strat odd st = NTok t st' -> RInv total base st'.
Proof.
  intros Hk Hs Hg. unfold next_go in Hg.
  destruct (r_in_seq st); [eapply next_in_seq_inv; eauto|].
  match type of Hg with context [match ?x with Some len => _ | None => _ end] => destruct x end;
    [eapply next_pixel_item_inv; eauto|].
  destruct (r_last st); [eapply next_after_header_inv; eauto|].
  pose proof (next_header_inv total base kind odd st Hs) as Hh.
  destruct (next_header dict kind odd st) as [r|d].
  - subst r. exact Hh.
  - eapply Hk; [|exact Hg]. unfold RInv. cbn. exact Hh.
Qed.

Lemma next_inv total base kind strat odd fuel : forall st t st',
  RInv total base st -> next dict rejects fuel kind strat odd st = NTok t st' -> RInv total base st'.
Proof.
  induction fuel as [|f IH]; intros st t st' HI H; [discriminate|].
  cbn [next] in H. unfold next_step in H.
  destruct (r_pending st).
  - pose proof (update_dec st) as Hu. destruct (update_seq_delimiters st) eqn:EU; try discriminate.
    + injection H as <- <-. unfold RInv in *. rewrite Hu. exact HI.
    + eapply next_go_inv; [exact IH| |exact H]. unfold RInv in *. rewrite Hu. exact HI.
  - eapply next_go_inv; [exact IH|exact HI|exact H].
Qed.

(** * The fuel of [next] suffices: every `continue` has consumed a header *)
Lemma next_header_cont kind odd st d :
  next_header dict kind odd st = HCont d -> blen (d_src (r_dec st)) = 8 + blen (d_src d) \/ blen (d_src (r_dec st)) = 12 + blen (d_src d).
Proof using dict. clear rejects.
  unfold next_header, dec_header. intros H.
  destruct (decode_header_raw dict kind (d_vrst (r_dec st)) (d_src (r_dec st))) eqn:E; try discriminate.
  pose proof (decode_header_raw_n _ _ _ _ _ _ _ E) as Hn. apply decode_header_raw_len in E.
  repeat break_match H; try discriminate; injection H as <-; cbn; lia.
Qed.

Lemma next_no_fuel kind strat odd : forall fuel st,
  (length (d_src (r_dec st)) < fuel)%nat -> next dict rejects fuel kind strat odd st <> NFuel.
Proof.
  assert (Sub : forall kind odd st, next_in_seq kind odd st <> NFuel).
  { intros. unfold next_in_seq. repeat break_goal; discriminate. }
  assert (Sub2 : forall kind len st, next_pixel_item kind len st <> NFuel).
  { intros. unfold next_pixel_item. repeat break_goal; discriminate. }
  assert (Sub3 : forall kind strat odd h st, next_after_header rejects kind strat odd h st <> NFuel).
  { intros. unfold next_after_header. repeat break_goal; discriminate. }
  assert (Sub4 : forall kind odd st, next_header dict kind odd st <> HR NFuel).
  { intros. unfold next_header. repeat break_goal; discriminate. }
  induction fuel as [|f IH]; intros st Hl; [lia|].
  cbn [next]. unfold next_step.
  assert (Hgo : forall s, r_dec s = r_dec st -> next_go dict rejects (next dict rejects f kind strat odd) kind strat odd s <> NFuel).
  { intros s Hs. unfold next_go. destruct (r_in_seq s); [apply Sub|].
    match goal with |- context [match ?x with Some len => _ | None => _ end] => destruct x end; [apply Sub2|].
    destruct (r_last s); [apply Sub3|].
    destruct (next_header dict kind odd s) as [r|d] eqn:EH.
    - intros ->. eapply Sub4. exact EH.
    - apply IH. cbn. apply next_header_cont in EH. rewrite Hs in EH. unfold blen in EH. lia. }
  destruct (r_pending st); [|apply Hgo; reflexivity].
  pose proof (update_dec st) as Hu. destruct (update_seq_delimiters st); try discriminate.
  apply Hgo. exact Hu.
Qed.

(** * Runs *)
Lemma run_steps total base kind strat odd : forall fuel st s,
  RInv total base st ->
  In s (fst (run dict rejects fuel kind strat odd total st)) ->
  st_pos s = base + st_cons s + st_short s /\ (0 < st_short s -> st_cons s = total).
Proof.
  induction fuel as [|f IH]; intros st s HI Hin; [contradiction|].
  cbn [run] in Hin.
  destruct (next dict rejects (next_fuel st) kind strat odd st) as [t st'| | |] eqn:EN; try contradiction.
  pose proof (next_inv _ _ _ _ _ _ _ _ _ HI EN) as HI'.
  destruct (run dict rejects f kind strat odd total st') as [l c] eqn:ER.
  cbn [fst] in Hin. destruct Hin as [<-|Hin].
  - cbn. destruct HI' as (H1 & H2 & H3). split; [lia|].
    intros Hs. rewrite (H3 Hs). cbn. lia.
  - apply (IH st' s HI'). rewrite ER. exact Hin.
Qed.

(** * Odd lengths *)
Lemma sanitize_accept len : sanitize 0 len = Some len.
Proof using. clear dict rejects. unfold sanitize. destruct (negb (len =? UNDEF) && N.odd len); reflexivity. Qed.

Lemma sanitize_even odd len : N.odd len = false -> sanitize odd len = Some len.
Proof using. clear dict rejects. unfold sanitize. intros ->. rewrite andb_false_r. reflexivity. Qed.

Lemma sanitize_undef odd : sanitize odd UNDEF = Some UNDEF.
Proof using. clear dict rejects. reflexivity. Qed.

Lemma sanitize_next_even len :
  N.odd len = true -> len <> UNDEF -> sanitize 1 len = Some (len + 1).
Proof using. clear dict rejects.
  unfold sanitize. intros -> H. destruct (N.eqb_spec len UNDEF); [contradiction|]. reflexivity.
Qed.

Lemma sanitize_fail len :
  N.odd len = true -> len <> UNDEF -> sanitize 2 len = None.
Proof using. clear dict rejects.
  unfold sanitize. intros -> H. destruct (N.eqb_spec len UNDEF); [contradiction|]. reflexivity.
Qed.

(** the next-even length never reaches the undefined marker and stays in 32 bits *)
Lemma next_even_bound len : N.odd len = true -> len < UNDEF -> len + 1 < UNDEF.
Proof using. clear dict rejects.
  intros Ho Hl. assert (len <> 4294967294).
  { intros ->. discriminate. }
  unfold UNDEF in *. lia.
Qed.

(** ** Reader steps *)
Definition ready (st : rstate) : Prop :=
  r_pending st = false /\ r_in_seq st = false /\ r_last st = None
  /\ match r_stack st with t :: _ => s_item t && s_pix t = false | [] => True end.

Definition plain (h : hdr) : Prop :=
  h_vr h <> SQ /\ ~ (h_g h = 65534 /\ h_e h = 57357) /\ h_len h <> UNDEF.

Lemma plain_branches h : plain h ->
  (h_vr h =? SQ) = false /\ ((h_g h =? 65534) && (h_e h =? 57357)) = false
  /\ encapsulated h = false /\ (h_len h =? UNDEF) = false.
Proof using. clear dict rejects.
  intros (H1 & H2 & H3). unfold encapsulated.
  destruct (N.eqb_spec (h_vr h) SQ); [contradiction|].
  destruct (N.eqb_spec (h_len h) UNDEF); [contradiction|].
  destruct (N.eqb_spec (h_g h) 65534), (N.eqb_spec (h_e h) 57357); try tauto; cbn;
    repeat split; auto; rewrite ?andb_false_r; auto.
Qed.

Lemma next_ready fuel kind strat odd st :
  ready st ->
  next dict rejects (S fuel) kind strat odd st =
  match next_header dict kind odd st with
  | HR r => r
  | HCont d => next dict rejects fuel kind strat odd (set_dec st d)
  end.
Proof.
  intros (Hp & Hs & Hl & Ht). cbn [next]. unfold next_step, next_go. rewrite Hp, Hs, Hl.
  destruct (r_stack st) as [|t rest]; [reflexivity|]. rewrite Ht. reflexivity.
Qed.

(** Element header step: the token carries the sanitized length, which is
    also what the following value step will read. *)
Lemma header_step fuel kind strat odd st h d L :
  ready st -> dec_header dict kind (r_dec st) = DOk h d -> plain h -> sanitize odd (h_len h) = Some L ->
  next dict rejects (S fuel) kind strat odd st =
  NTok (TElem (h_g h) (h_e h) (h_vr h) L)
       (mkR d false (r_ot_next st) false (r_stack st) (Some (mkH (h_g h) (h_e h) (h_vr h) L))).
Proof.
  intros Hr Hd Hp HS. rewrite next_ready by exact Hr. unfold next_header. rewrite Hd.
  destruct (plain_branches h Hp) as (-> & -> & -> & ->). rewrite HS.
  destruct Hr as (-> & -> & _ & _). reflexivity.
Qed.

Lemma header_step_fail fuel kind strat st h d :
  ready st -> dec_header dict kind (r_dec st) = DOk h d -> ~ (h_g h = 65534 /\ h_e h = 57357) ->
  N.odd (h_len h) = true -> h_len h <> UNDEF ->
  next dict rejects (S fuel) kind strat 2 st = NErr 1.
Proof.
  intros Hr Hd Hn Ho Hu. rewrite next_ready by exact Hr. unfold next_header. rewrite Hd.
  rewrite (sanitize_fail _ Ho Hu).
  destruct (h_vr h =? SQ); [reflexivity|].
  assert (((h_g h =? 65534) && (h_e h =? 57357)) = false) as ->.
  { destruct (N.eqb_spec (h_g h) 65534), (N.eqb_spec (h_e h) 57357); try tauto; reflexivity. }
  unfold encapsulated. destruct (N.eqb_spec (h_len h) UNDEF); [contradiction|].
  rewrite andb_false_r. reflexivity.
Qed.

Lemma item_step_fail kind st len d :
  dec_item kind (r_dec st) = DIOk 0 len d -> N.odd len = true -> len <> UNDEF ->
  next_in_seq kind 2 st = NErr 2.
Proof using. clear dict rejects.
  intros Hd Ho Hu. unfold next_in_seq. rewrite Hd. cbn. rewrite (sanitize_fail _ Ho Hu). reflexivity.
Qed.

(** Value step after an element header: exactly [h_len] bytes are taken, so
    the source is positioned at the next element. *)
Lemma value_step fuel kind strat odd st h v d' :
  r_pending st = false -> r_in_seq st = false -> r_last st = Some h -> encapsulated h = false ->
  match r_stack st with t :: _ => s_item t && s_pix t = false | [] => True end ->
  read_value rejects kind strat h (r_dec st) = VOk v d' ->
  next dict rejects (S fuel) kind strat odd st =
  NTok (TValue v) (mkR d' false (r_ot_next st) true (r_stack st) None).
Proof.
  intros Hp Hs Hl He Ht Hv. cbn [next]. unfold next_step, next_go. rewrite Hp, Hs, Hl.
  assert (match r_stack st with
          | t :: _ => if s_item t && s_pix t then Some (s_len t) else None
          | [] => None end = None) as ->.
  { destruct (r_stack st); [reflexivity|]. rewrite Ht. reflexivity. }
  unfold next_after_header. rewrite He, Hv, Hs. reflexivity.
Qed.

(** Header then value, in one statement ("realignment"): after the two
    tokens the source is exactly the stream behind the L value bytes. *)
Lemma element_realign fuel1 fuel2 kind strat odd st h d L data rest :
  ready st -> dec_header dict kind (r_dec st) = DOk h d -> plain h ->
  sanitize odd (h_len h) = Some L -> L <> UNDEF ->
  take L (d_src d) = Some (data, rest) ->
  read_class strat (h_vr h) <> RErr -> (forall b, rejects (h_vr h) b = false) ->
  exists st1 v st2,
    next dict rejects (S fuel1) kind strat odd st = NTok (TElem (h_g h) (h_e h) (h_vr h) L) st1
    /\ next dict rejects (S fuel2) kind strat odd st1 = NTok (TValue v) st2
    /\ d_src (r_dec st2) = rest
    /\ d_position (r_dec st2) = d_position d + L.
Proof.
  intros Hr Hd Hp HS HL HT HC HR.
  pose proof (header_step fuel1 kind strat odd st h d L Hr Hd Hp HS) as H1.
  set (h' := mkH (h_g h) (h_e h) (h_vr h) L) in *.
  assert (Hlen : L <= blen (d_src d)) by (apply take_len in HT; lia).
  destruct (read_value_total kind strat h' d) as (v & d' & Hv); cbn; auto.
  eexists _, v, _. split; [exact H1|]. split.
  - apply value_step with (h := h'); cbn [r_pending r_in_seq r_last r_stack r_dec]; try reflexivity.
    + unfold encapsulated. cbn. destruct (N.eqb_spec L UNDEF); [contradiction|]. apply andb_false_r.
    + destruct Hr as (_ & _ & _ & Ht). exact Ht.
    + exact Hv.
  - cbn. apply read_value_consumes in Hv. destruct Hv as (data' & ES & EL & EP & _). cbn in EL, EP.
    apply take_spec in HT. destruct HT as [ES' EL']. split; [|exact EP].
    rewrite ES' in ES. assert (length data = length data') by (unfold blen in *; lia).
    apply app_inv_head_iff with (l := data). rewrite ES.
    f_equal. apply (f_equal (firstn (length data))) in ES.
    rewrite firstn_app, Nat.sub_diag, firstn_all, firstn_O, app_nil_r in ES.
    rewrite H, firstn_app, Nat.sub_diag, firstn_all, firstn_O, app_nil_r in ES. exact ES.
Qed.

End WithDict.
