(** The independent structural validator accepts canonical flat streams (C04). *)
From Coq Require Import ZifyBool ZifyNat ZifyN.
From DicomV Require Import Base.Endian Model.Vr Spec.Ps35.
Open Scope N_scope.

Lemma pfirstn_app_exact {A} (a b : list A) k : length a = k -> firstn k (a ++ b) = a.
Proof. intros <-. rewrite firstn_app, Nat.sub_diag, firstn_all. cbn. apply List.app_nil_r. Qed.
Lemma pskipn_app_exact {A} (a b : list A) k : length a = k -> skipn k (a ++ b) = b.
Proof. intros <-. rewrite skipn_app, Nat.sub_diag, skipn_all. reflexivity. Qed.
Lemma ps35_take_app a r k : length a = k -> ps35_take k (a ++ r) = Some (a, r).
Proof.
  intros H. unfold ps35_take. rewrite app_length, H.
  replace (Nat.ltb (k + length r) k) with false by (symmetry; apply Nat.ltb_ge; lia).
  rewrite pfirstn_app_exact, pskipn_app_exact by exact H. reflexivity.
Qed.

Lemma ps35_u16_length c n : length (ps35_u16 c n) = 2%nat.
Proof. destruct c; unfold ps35_u16; rewrite ?le_bytes_length, ?be_bytes_length; reflexivity. Qed.
Lemma ps35_u32_length c n : length (ps35_u32 c n) = 4%nat.
Proof. destruct c; unfold ps35_u32; rewrite ?le_bytes_length, ?be_bytes_length; reflexivity. Qed.
Lemma ps35_rd_u16 c n : n < 65536 -> ps35_rd c (ps35_u16 c n) = n.
Proof.
  intros H. destruct c; cbn [ps35_rd ps35_u16];
    [apply le_val_le_bytes_small | apply le_val_le_bytes_small | apply be_val_be_bytes_small]; exact H.
Qed.
Lemma ps35_rd_u32 c n : n < 4294967296 -> ps35_rd c (ps35_u32 c n) = n.
Proof.
  intros H. destruct c; cbn [ps35_rd ps35_u32];
    [apply le_val_le_bytes_small | apply le_val_le_bytes_small | apply be_val_be_bytes_small]; exact H.
Qed.
Lemma ps35_vr_code_length v : length (ps35_vr_code v) = 2%nat.
Proof. destruct v; reflexivity. Qed.
Lemma ps35_vr_of_code_code v : ps35_vr_of_code (ps35_vr_code v) = Some v.
Proof. destruct v; reflexivity. Qed.

Definition swf_tag (t : N * N) : Prop := fst t < 65536 /\ snd t < 65536.

(** Parsing a header laid out per section 7.1 returns its fields. *)
Lemma ps35_parse_header_layout c is_sq t v len rest :
  swf_tag t -> len < 4294967296 -> (c <> ILE -> ps35_len16 v = true -> len <= 65535) ->
  ps35_parse_header c is_sq (ps35_header c t v len ++ rest) =
  Some (t, match c with ILE => is_sq t | _ => vr_eqb v SQ end,
           match c with ILE => true | _ => vr_eqb v OB end, len, rest).
Proof.
  intros [Hg He] Hl Hs. unfold ps35_parse_header, ps35_header.
  assert (T : forall tail, ps35_take 4 (ps35_u16 c (fst t) ++ ps35_u16 c (snd t) ++ tail)
                           = Some (ps35_u16 c (fst t) ++ ps35_u16 c (snd t), tail)).
  { intros tail. rewrite app_assoc. apply ps35_take_app. rewrite app_length, !ps35_u16_length. reflexivity. }
  assert (R : (ps35_rd c (firstn 2 (ps35_u16 c (fst t) ++ ps35_u16 c (snd t))),
               ps35_rd c (skipn 2 (ps35_u16 c (fst t) ++ ps35_u16 c (snd t)))) = t).
  { rewrite pfirstn_app_exact, pskipn_app_exact by apply ps35_u16_length.
    rewrite !ps35_rd_u16 by assumption. destruct t; reflexivity. }
  destruct c.
  - rewrite <- !app_assoc, T, R. rewrite ps35_take_app by apply ps35_u32_length.
    rewrite ps35_rd_u32 by exact Hl. reflexivity.
  - specialize (Hs ltac:(discriminate)).
    destruct (ps35_len16 v) eqn:S; rewrite <- !app_assoc, T, R;
      rewrite ps35_take_app by apply ps35_vr_code_length; rewrite ps35_vr_of_code_code, S.
    + rewrite ps35_take_app by apply ps35_u16_length. rewrite ps35_rd_u16 by (specialize (Hs eq_refl); lia). reflexivity.
    + change ([0; 0] ++ ps35_u32 ELE len ++ rest) with (([0; 0] : bytes) ++ (ps35_u32 ELE len ++ rest)).
      rewrite ps35_take_app by reflexivity. rewrite ps35_take_app by apply ps35_u32_length.
      rewrite ps35_rd_u32 by exact Hl. reflexivity.
  - specialize (Hs ltac:(discriminate)).
    destruct (ps35_len16 v) eqn:S; rewrite <- !app_assoc, T, R;
      rewrite ps35_take_app by apply ps35_vr_code_length; rewrite ps35_vr_of_code_code, S.
    + rewrite ps35_take_app by apply ps35_u16_length. rewrite ps35_rd_u16 by (specialize (Hs eq_refl); lia). reflexivity.
    + change ([0; 0] ++ ps35_u32 EBE len ++ rest) with (([0; 0] : bytes) ++ (ps35_u32 EBE len ++ rest)).
      rewrite ps35_take_app by reflexivity. rewrite ps35_take_app by apply ps35_u32_length.
      rewrite ps35_rd_u32 by exact Hl. reflexivity.
Qed.

Lemma ps35_header_starts c t v len :
  exists tail, ps35_header c t v len = ps35_u16 c (fst t) ++ tail /\ (6 <= length tail)%nat.
Proof.
  unfold ps35_header. destruct c; [| destruct (ps35_len16 v) | destruct (ps35_len16 v)];
    eexists; (split; [reflexivity|]);
    rewrite !app_length, ?ps35_u16_length, ?ps35_u32_length, ?ps35_vr_code_length; cbn; lia.
Qed.

(** A data element header is not an item/delimiter header. *)
Lemma ps35_parse_item_elem c t v len rest :
  swf_tag t -> fst t <> 65534 -> ps35_parse_item c (ps35_header c t v len ++ rest) = None.
Proof.
  intros [Hg He] Hne. destruct (ps35_header_starts c t v len) as [tail [E L]]. rewrite E.
  unfold ps35_parse_item, ps35_take. rewrite <- app_assoc.
  destruct (Nat.ltb _ 8) eqn:Lt.
  - reflexivity.
  - assert (F : firstn 2 (firstn 8 (ps35_u16 c (fst t) ++ tail ++ rest)) = ps35_u16 c (fst t)).
    { rewrite firstn_firstn. replace (Nat.min 2 8) with 2%nat by reflexivity.
      apply pfirstn_app_exact, ps35_u16_length. }
    rewrite F, ps35_rd_u16 by exact Hg.
    replace (fst t =? 65534) with false by (symmetry; apply N.eqb_neq; exact Hne). reflexivity.
Qed.

Lemma ps35_header_nonnil c t v len rest : ps35_header c t v len ++ rest <> [].
Proof.
  destruct (ps35_header_starts c t v len) as [tail [E L]]. rewrite E.
  intros H. apply (f_equal (@length N)) in H. rewrite !app_length, ps35_u16_length in H. cbn in H. lia.
Qed.

(** Canonical primitive element: conditions under which the validator steps over it. *)
Definition cprim_ok (c : codec) (is_sq : N * N -> bool) (t : N * N) (v : vr) (val : bytes) : Prop :=
  swf_tag t /\ fst t <> 65534 /\ ps35_len val mod 2 = 0 /\ ps35_len val < 4294967295 /\
  (c <> ILE -> vr_eqb v SQ = false /\ (ps35_len16 v = true -> ps35_len val <= 65535)) /\
  (c = ILE -> is_sq t = false).

Lemma v_elems_prim f c is_sq u t v val rest :
  cprim_ok c is_sq t v val ->
  v_elems (S f) c is_sq u (ps35_header c t v (ps35_len val) ++ val ++ rest) = v_elems f c is_sq u rest.
Proof.
  intros (Ht & Hg & Hev & Hlt & Hex & Him).
  cbn [v_elems].
  destruct (ps35_header c t v (ps35_len val) ++ val ++ rest) as [|x0 b0] eqn:EB.
  { exfalso. apply (ps35_header_nonnil _ _ _ _ _ EB). }
  rewrite <- EB. clear EB x0 b0.
  rewrite ps35_parse_item_elem by assumption.
  rewrite ps35_parse_header_layout; [| exact Ht | lia | intros Hc Hs; apply (proj2 (Hex Hc)); exact Hs].
  set (sq := match c with ILE => is_sq t | _ => vr_eqb v SQ end).
  assert (Hsq : sq = false).
  { unfold sq. destruct c; [apply Him; reflexivity | apply Hex; discriminate | apply Hex; discriminate]. }
  rewrite Hsq.
  replace (ps35_len val =? undefined_length) with false
    by (symmetry; apply N.eqb_neq; unfold undefined_length; lia).
  rewrite !andb_false_r. cbn [orb].
  unfold is_even. rewrite Hev. cbn [N.eqb negb].
  replace (N.to_nat (ps35_len val)) with (length val) by (unfold ps35_len; lia).
  rewrite ps35_take_app by reflexivity. reflexivity.
Qed.

Fixpoint all_cprim_ok (c : codec) (is_sq : N * N -> bool) (es : list celem) : Prop :=
  match es with
  | [] => True
  | CPrim t v val :: r => cprim_ok c is_sq t v val /\ all_cprim_ok c is_sq r
  | _ :: _ => False
  end.

Lemma v_elems_flat c is_sq es : forall fuel,
  all_cprim_ok c is_sq es -> (length es < fuel)%nat ->
  v_elems fuel c is_sq false (canon_encode c es) = Some [].
Proof.
  induction es as [|e es IH]; intros fuel H F.
  - destruct fuel; [lia|]. reflexivity.
  - destruct e as [t v val| |]; cbn in H; try contradiction. destruct H as [H1 H2].
    destruct fuel as [|f]; [cbn in F; lia|].
    cbn [canon_encode canon_elem]. rewrite <- app_assoc.
    rewrite v_elems_prim by exact H1. apply IH; [exact H2 | cbn in F; lia].
Qed.

Lemma canon_encode_length_ge c es : all_cprim_ok c (fun _ => false) es -> True.
Proof. trivial. Qed.

Lemma canon_flat_length c is_sq es : all_cprim_ok c is_sq es -> (length es <= length (canon_encode c es))%nat.
Proof.
  induction es as [|e es IH]; intros H; [cbn; lia|].
  destruct e as [t v val| |]; cbn in H; try contradiction. destruct H as [H1 H2].
  cbn [canon_encode canon_elem]. rewrite !app_length. specialize (IH H2).
  destruct (ps35_header_starts c t v (ps35_len val)) as [tail [E L]]. rewrite E, app_length, ps35_u16_length.
  cbn [length]. lia.
Qed.

(** V (flat): canonical flat streams are structurally valid. *)
Lemma ps35_valid_flat c is_sq es : all_cprim_ok c is_sq es -> ps35_valid c is_sq (canon_encode c es) = true.
Proof.
  intros H. unfold ps35_valid. rewrite v_elems_flat; [reflexivity | exact H |].
  pose proof (canon_flat_length c is_sq es H). lia.
Qed.
