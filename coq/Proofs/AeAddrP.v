(** Lemmas about Model/AeAddr.v (C36). *)
From DicomV Require Import Base.Str Model.AeAddr.

Lemma escape_at_no_at t : no_at t -> escape_at t = t.
Proof.
  unfold no_at, escape_at. induction t as [|c t IH]; cbn [flat_map In]; intros H; [reflexivity|].
  destruct (c =? at_sign) eqn:E.
  - apply N.eqb_eq in E. exfalso; apply H; left; exact E.
  - cbn [app]. f_equal. apply IH. intros Hin; apply H; right; exact Hin.
Qed.

Lemma split_once_app sep a b :
  ~ In sep a -> split_once sep (a ++ sep :: b) = Some (a, b).
Proof.
  induction a as [|c a IH]; cbn [app split_once In]; intros H.
  - rewrite N.eqb_refl. reflexivity.
  - destruct (c =? sep) eqn:E.
    + apply N.eqb_eq in E. exfalso; apply H; left; exact E.
    + rewrite IH; [reflexivity|]. intros Hin; apply H; right; exact Hin.
Qed.

Lemma split_once_none sep s : ~ In sep s -> split_once sep s = None.
Proof.
  induction s as [|c s IH]; cbn [split_once In]; intros H; [reflexivity|].
  destruct (c =? sep) eqn:E.
  - apply N.eqb_eq in E. exfalso; apply H; left; exact E.
  - rewrite IH; [reflexivity|]. intros Hin; apply H; right; exact Hin.
Qed.

(** Converse directions: [split_once] finds the first separator and nothing else. *)
Lemma split_once_some sep s a b :
  split_once sep s = Some (a, b) -> s = a ++ sep :: b /\ ~ In sep a.
Proof.
  revert a b; induction s as [|c s IH]; cbn [split_once]; intros a b H; [discriminate|].
  destruct (c =? sep) eqn:E.
  - apply N.eqb_eq in E. inversion H; subst. split; [reflexivity | intros []].
  - destruct (split_once sep s) as [[a' b']|] eqn:S; [|discriminate].
    inversion H; subst. destruct (IH a' b eq_refl) as [-> Hn]. split; [reflexivity|].
    cbn [In]. intros [Hc|Hin]; [|exact (Hn Hin)]. subst. rewrite N.eqb_refl in E; discriminate.
Qed.

Lemma contains_true c s : contains c s = true <-> In c s.
Proof.
  unfold contains. rewrite existsb_exists. split.
  - intros [x [Hin E]]. apply N.eqb_eq in E. subst; exact Hin.
  - intros H. exists c. split; [exact H | apply N.eqb_refl].
Qed.

Lemma contains_false c s : contains c s = false <-> ~ In c s.
Proof.
  rewrite <- contains_true. destruct (contains c s); split; intros; congruence.
Qed.

Lemma no_atb_spec t : no_atb t = true <-> no_at t.
Proof.
  unfold no_atb, no_at. rewrite negb_true_iff. apply contains_false.
Qed.

Lemma is_empty_false t : t <> [] -> is_empty t = false.
Proof. destruct t; [congruence | reflexivity]. Qed.

Section Addr.
  Variable A : Type.
  Variable print_addr : A -> str.
  Variable parse_addr : str -> outcome A.
  Hypothesis parse_print : forall a, parse_addr (print_addr a) = Ok a.

  Lemma full_rt t a :
    no_at t -> t <> [] ->
    full_parse A parse_addr (full_print A print_addr (t, a)) = Ok (t, a).
  Proof.
    intros Hn Hne. unfold full_print, full_parse. cbn [fst snd app].
    rewrite escape_at_no_at by exact Hn.
    rewrite split_once_app by exact Hn.
    rewrite is_empty_false by exact Hne. rewrite parse_print. reflexivity.
  Qed.

  Lemma ae_rt_titled t a :
    no_at t -> t <> [] ->
    ae_parse A parse_addr (ae_print A print_addr (Some t, a)) = Ok (Some t, a).
  Proof.
    intros Hn Hne. unfold ae_print, ae_parse. cbn [fst snd].
    rewrite escape_at_no_at by exact Hn. rewrite <- app_assoc. cbn [app].
    rewrite split_once_app by exact Hn.
    rewrite is_empty_false by exact Hne. rewrite parse_print. reflexivity.
  Qed.

  (** No hypothesis on the address text: when it contains '@' the printer
      emits a leading '@' precisely so that the parser splits there. *)
  Lemma ae_rt_untitled a :
    ae_parse A parse_addr (ae_print A print_addr (None, a)) = Ok (None, a).
  Proof.
    unfold ae_print, ae_parse. cbn [fst snd].
    destruct (contains at_sign (print_addr a)) eqn:C.
    - cbn [app split_once]. rewrite N.eqb_refl. rewrite parse_print. reflexivity.
    - cbn [app]. apply contains_false in C. rewrite split_once_none by exact C.
      rewrite parse_print. reflexivity.
  Qed.

  (** The empty title: what the code does. *)
  Lemma full_empty_title a :
    full_parse A parse_addr (full_print A print_addr ([], a)) = Err E_missing_part.
  Proof.
    unfold full_print, full_parse. cbn [fst snd escape_at flat_map app split_once].
    rewrite N.eqb_refl. reflexivity.
  Qed.

  Lemma ae_empty_title a :
    ae_parse A parse_addr (ae_print A print_addr (Some [], a)) = Ok (None, a).
  Proof.
    unfold ae_print, ae_parse. cbn [fst snd escape_at flat_map app split_once].
    rewrite N.eqb_refl. rewrite parse_print. reflexivity.
  Qed.

  (** Parsing accepts only texts with the documented shape. *)
  Lemma full_parse_ok_shape s t a :
    full_parse A parse_addr s = Ok (t, a) ->
    exists rest, s = t ++ at_sign :: rest /\ no_at t /\ t <> [] /\ parse_addr rest = Ok a.
  Proof.
    unfold full_parse. destruct (split_once at_sign s) as [[t' rest]|] eqn:S; [|discriminate].
    destruct (is_empty t') eqn:E; [discriminate|].
    destruct (parse_addr rest) as [a'| |] eqn:P; try discriminate.
    intros H; inversion H; subst. apply split_once_some in S. destruct S as [-> Hn].
    exists rest. repeat split; try assumption. intros ->; discriminate.
  Qed.
End Addr.
