(** Building the object from the token stream of a nested data set
    ([build_object] / [build_sequence] / [build_encapsulated_data]). *)
From Coq Require Import ZifyBool ZifyNat ZifyN Sorting.Sorted.
From DicomV Require Import Base.Endian Model.Vr Model.Header Model.Prim Model.Dataset Model.Writer Model.Reader
  Spec.Ps35 Proofs.HeaderP Proofs.PrimP Proofs.WriterP Proofs.ValidP Proofs.FlatP Proofs.ValueP Proofs.ReaderP
  Proofs.RoundTripP Proofs.TotalP Proofs.NestedP Proofs.ReadStepsP Proofs.ReadPixP Proofs.ReadTreeP.
Open Scope N_scope.

(** The data set read back after writing with the default strategy: primitive
    elements normalised as in the flat case, recorded sequence and item lengths
    replaced by "undefined", pixel fragments padded to even length. *)
Fixpoint norm_tree (c : codec) (d : dict_t) (e : elem) : elem :=
  match e with
  | EPrim _ _ _ _ => norm_elem c d e
  | ESeq t _ _ its => ESeq t SQ undef (map (fun it : item => (undef, map (norm_tree c d) (snd it))) its)
  | EPix _ _ _ ot frags => EPix pixel_tag OB undef ot (map (pad_even 0) frags)
  end.

(** [build_sequence] with the item builder as a parameter (convertible to the local fix of [build_obj]). *)
Section BuildSeq.
  Variable bo : list token -> outcome (list elem * list token).
  Variable e : option N.
  Fixpoint build_seq_g (g : nat) (tks : list token) (items : list item) : outcome (list item * list token) :=
    match g with
    | O => Err 0
    | S g' =>
        match tks with
        | [] => Err (end_error e E_PrematureEnd)
        | TItemStart ilen :: rest1 =>
            match bo rest1 with
            | Ok (es, rest2) => build_seq_g g' rest2 ((ilen, es) :: items)
            | Err x => Err x | Panic w => Panic w
            end
        | TSeqEnd :: rest1 => Ok (rev items, rest1)
        | _ => Err E_BuildUnexpected
        end
    end.
End BuildSeq.

Lemma build_obj_seq f in_item t len rest e acc :
  build_obj (S f) in_item (TSeqStart t len :: rest) e acc =
  match build_seq_g (fun r => build_obj f true r e []) e (S f) rest [] with
  | Ok (items, rest') => build_obj f in_item rest' e (insert_elem (ESeq t SQ len items) acc)
  | Err x => Err x | Panic w => Panic w
  end.
Proof. reflexivity. Qed.

(** * Pixel data tokens *)
Lemma build_pix_frags frags : forall tail ot acc hasv,
  build_pix (flat_map frag_rtoks frags ++ TSeqEnd :: tail) None (Some ot) acc false hasv =
  Ok (ot, rev acc ++ map (pad_even 0) frags, tail).
Proof.
  induction frags as [|f frags IH]; intros tail ot acc hasv.
  - cbn. rewrite List.app_nil_r. reflexivity.
  - cbn [flat_map]. rewrite <- app_assoc. destruct f as [|x f].
    + cbn [frag_rtoks app build_pix]. rewrite IH. cbn [rev map]. rewrite <- app_assoc. reflexivity.
    + cbn [frag_rtoks app build_pix]. rewrite IH. cbn [rev map]. rewrite <- app_assoc. reflexivity.
Qed.

Lemma build_pix_tokens ot frags tail :
  build_pix (ot_rtoks ot ++ flat_map frag_rtoks frags ++ TSeqEnd :: tail) None None [] true false =
  Ok (ot, map (pad_even 0) frags, tail).
Proof.
  destruct ot as [|x ot]; cbn [ot_rtoks app build_pix]; rewrite build_pix_frags; reflexivity.
Qed.

(** * Elements *)
Definition builds_ok (c : codec) (d : dict_t) (e : elem) : Prop :=
  (1 <= length (rtoks c d e))%nat /\
  forall fuel in_item acc tail, (length (rtoks c d e) < fuel)%nat ->
    build_obj fuel in_item (rtoks c d e ++ tail) None acc =
    build_obj (fuel - 1) in_item tail None (insert_elem (norm_tree c d e) acc).

Lemma norm_tree_tag c d e : readable c d e -> elem_tag (norm_tree c d e) = elem_tag e.
Proof. intros R. inversion R; subst; reflexivity. Qed.

Lemma rtoks_list_ge c d es : Forall (builds_ok c d) es -> (length es <= length (rtoks_list c d es))%nat.
Proof.
  induction 1 as [|e es [He _] Hes IH]; [cbn; lia|]. unfold rtoks_list in *. cbn [flat_map length]. rewrite app_length. lia.
Qed.

Lemma build_list c d es : forall fuel in_item acc tail,
  Forall (builds_ok c d) es -> Forall (readable c d) es ->
  StronglySorted tag_lt (map elem_tag es) ->
  Forall (fun x => Forall (fun e => tag_lt (elem_tag x) (elem_tag e)) es) acc ->
  (length (rtoks_list c d es) < fuel)%nat ->
  build_obj fuel in_item (rtoks_list c d es ++ tail) None acc =
  build_obj (fuel - length es) in_item tail None (acc ++ map (norm_tree c d) es).
Proof.
  induction es as [|e es IH]; intros fuel in_item acc tail H R S A F.
  - cbn. rewrite Nat.sub_0_r, List.app_nil_r. reflexivity.
  - inversion H as [|? ? [He1 He2] Hes]; inversion R as [|? ? Re Res]; inversion S as [|? ? S1 S2]; subst.
    unfold rtoks_list in *. cbn [flat_map] in F |- *. rewrite app_length in F. rewrite <- app_assoc.
    rewrite He2 by lia.
    rewrite insert_at_end.
    + rewrite IH; [| exact Hes | exact Res | exact S1 | | lia].
      * cbn [map length]. rewrite <- app_assoc. f_equal. lia.
      * apply Forall_app. split.
        -- eapply Forall_impl; [|exact A]. intros x Hx. inversion Hx; assumption.
        -- constructor; [|constructor]. rewrite norm_tree_tag by exact Re. rewrite Forall_map in S2. exact S2.
    + rewrite norm_tree_tag by exact Re. eapply Forall_impl; [|exact A]. intros x Hx. inversion Hx; assumption.
Qed.

(** items of a sequence *)
Lemma build_items c d its : forall f g tail acc,
  Forall (fun it : item => Forall (builds_ok c d) (snd it) /\ Forall (readable c d) (snd it)
                           /\ StronglySorted tag_lt (map elem_tag (snd it))) its ->
  (length (rtoks_items c d its) < f)%nat -> (length its < g)%nat ->
  build_seq_g (fun r => build_obj f true r None []) None g (rtoks_items c d its ++ TSeqEnd :: tail) acc =
  Ok (rev acc ++ map (fun it : item => (undef, map (norm_tree c d) (snd it))) its, tail).
Proof.
  induction its as [|[n es] its IH]; intros f g tail acc H F G.
  - destruct g; [cbn in G; lia|]. cbn. rewrite List.app_nil_r. reflexivity.
  - inversion H as [|? ? (Hb & Hr & Hs) Hits]; subst. cbn [snd] in *.
    destruct g as [|g]; [cbn in G; lia|].
    unfold rtoks_items in *. cbn [flat_map snd] in F |- *. rewrite !app_length in F. cbn [length] in F.
    cbn [app build_seq_g]. rewrite <- !app_assoc.
    rewrite (build_list c d es f true [] _ Hb Hr Hs (Forall_nil _)) by lia.
    pose proof (rtoks_list_ge c d es Hb) as Ge.
    destruct (f - length es)%nat as [|f'] eqn:Ef; [lia|].
    cbn [app build_obj].
    rewrite IH; [| exact Hits | lia | cbn in G; lia].
    cbn [rev map snd]. rewrite <- app_assoc. reflexivity.
Qed.

Lemma readable_builds_ok c d : forall e, readable c d e -> builds_ok c d e.
Proof.
  apply (elem_ind_nested (fun e => readable c d e -> builds_ok c d e)).
  - intros t v l p R. split; [cbn; lia|]. intros fuel in_item acc tail F.
    destruct fuel as [|fuel]; [lia|]. replace (S fuel - 1)%nat with fuel by lia. cbn [rtoks app build_obj norm_tree norm_elem]. reflexivity.
  - intros t v l ot fr R. inversion R; subst. split; [cbn; lia|]. intros fuel in_item acc tail F.
    destruct fuel as [|fuel]; [lia|]. replace (S fuel - 1)%nat with fuel by lia. cbn [rtoks app build_obj]. rewrite <- !app_assoc. cbn [app].
    rewrite build_pix_tokens. cbn [norm_tree]. reflexivity.
  - intros t v l its IH R. inversion R as [|? ? ? Htag Hgrp Hpx Hits|]; subst.
    assert (A : Forall (fun it : item => Forall (builds_ok c d) (snd it) /\ Forall (readable c d) (snd it)
                                         /\ StronglySorted tag_lt (map elem_tag (snd it))) its).
    { clear R. induction its as [|it its IHi]; [constructor|].
      inversion IH as [|? ? I1 I2]; inversion Hits as [|? ? [J1 J3] J2]; subst. constructor.
      - split; [|split; assumption]. clear IHi I2 J2 J3. induction (snd it) as [|x xs IHx]; [constructor|].
        inversion I1; inversion J1; subst. constructor; [auto | auto].
      - apply IHi; assumption. }
    split; [cbn; lia|]. intros fuel in_item acc tail F.
    destruct fuel as [|f]; [lia|]. replace (S f - 1)%nat with f by lia.
    change (length (rtoks c d (ESeq t SQ l its))) with (length ([TSeqStart t undef] ++ rtoks_items c d its ++ [TSeqEnd])) in F.
    rewrite !app_length in F. cbn [length] in F. cbn [rtoks].
    cbn [app]. rewrite build_obj_seq. rewrite <- app_assoc. cbn [app].
    assert (Li : (length its <= length (rtoks_items c d its))%nat).
    { clear. unfold rtoks_items. induction its as [|it its IHl]; [cbn; lia|]. cbn [flat_map length]. rewrite !app_length. cbn [length]. lia. }
    match goal with |- context [build_seq_g _ None (S f) (?X ++ TSeqEnd :: tail) []] =>
      change X with (rtoks_items c d its) end.
    rewrite (build_items c d its f (S f) tail [] A) by lia.
    cbn [rev app norm_tree]. reflexivity.
Qed.

(** B: the object built from the tokens of a nested data set. *)
Lemma build_tree c d es :
  Forall (readable c d) es -> StronglySorted tag_lt (map elem_tag es) ->
  build_obj (S (S (length (rtoks_list c d es)))) false (rtoks_list c d es) None [] =
  Ok (map (norm_tree c d) es, []).
Proof.
  intros R Hs.
  assert (B : Forall (builds_ok c d) es) by (eapply Forall_impl; [apply readable_builds_ok | exact R]).
  rewrite <- (List.app_nil_r (rtoks_list c d es)) at 2.
  rewrite (build_list c d es _ false [] [] B R Hs (Forall_nil _)) by lia.
  pose proof (rtoks_list_ge c d es B).
  destruct (S (S (length (rtoks_list c d es))) - length es)%nat eqn:E; [lia|]. reflexivity.
Qed.
