(** Lemmas about the scalar layer of the DICOM JSON model (Model/JsonBase.v):
    base64, hexadecimal tags, decimal integers, float conversions, padding. *)
From DicomV Require Import Model.JsonBase.
From Coq Require Import ZifyBool ZifyNat ZifyN.
From Coq Require DecimalN DecimalPos Decimal.
Ltac Zify.zify_post_hook ::= Z.div_mod_to_equations.

(** * base64 *)
Ltac split_ifs :=
  repeat match goal with |- context [if ?c then _ else _] => destruct c eqn:? end.

Lemma b64v_b64c i : i < 64 -> b64v (b64c i) = Some i.
Proof.
  intros H. unfold b64c.
  destruct (i <? 26) eqn:E1; [|destruct (i <? 52) eqn:E2; [|destruct (i <? 62) eqn:E3; [|destruct (i =? 62) eqn:E4]]];
    unfold b64v; split_ifs; try (f_equal; lia); try (exfalso; lia).
Qed.

Lemma b64c_not_pad i : i < 64 -> b64c i =? 61 = false.
Proof.
  intros H. unfold b64c.
  destruct (i <? 26) eqn:E1; [|destruct (i <? 52) eqn:E2; [|destruct (i <? 62) eqn:E3; [|destruct (i =? 62) eqn:E4]]]; lia.
Qed.

Lemma b64_step (x y z : N) :
  x < 256 -> y < 256 -> z < 256 ->
  (x / 4) * 4 + ((x mod 4) * 16 + y / 16) / 16 = x /\
  (((x mod 4) * 16 + y / 16) mod 16) * 16 + ((y mod 16) * 4 + z / 64) / 4 = y /\
  (((y mod 16) * 4 + z / 64) mod 4) * 64 + z mod 64 = z.
Proof. intros. lia. Qed.

Lemma b64_idx_lt (x y z : N) :
  x < 256 -> y < 256 -> z < 256 ->
  x / 4 < 64 /\ (x mod 4) * 16 + y / 16 < 64 /\ (y mod 16) * 4 + z / 64 < 64 /\ z mod 64 < 64.
Proof. intros. lia. Qed.

Lemma b64dec_enc3 x y z r t :
  x < 256 -> y < 256 -> z < 256 -> b64dec (b64enc r) = Some t ->
  b64dec (b64enc (x :: y :: z :: r)) = Some (x :: y :: z :: t).
Proof.
  intros Hx Hy Hz IH.
  destruct (b64_idx_lt x y z Hx Hy Hz) as (I1 & I2 & I3 & I4).
  destruct (b64_step x y z Hx Hy Hz) as (S1 & S2 & S3).
  cbn [b64enc b64dec].
  rewrite (b64v_b64c _ I1), (b64v_b64c _ I2), (b64c_not_pad _ I3), (b64v_b64c _ I3),
    (b64c_not_pad _ I4), (b64v_b64c _ I4), IH, S1, S2, S3.
  reflexivity.
Qed.

Theorem b64dec_enc b : wf_bytes b -> b64dec (b64enc b) = Some b.
Proof.
  assert (H : forall n b, (length b <= n)%nat -> wf_bytes b -> b64dec (b64enc b) = Some b).
  { induction n as [|n IH]; intros b0 Hl Hw; rename b0 into c0.
    - destruct c0; [reflexivity | cbn in Hl; lia].
    - destruct c0 as [|x [|y [|z r]]].
      + reflexivity.
      + inversion Hw as [|? ? Hx _]; subst.
        assert (I1 : x / 4 < 64) by lia. assert (I2 : (x mod 4) * 16 < 64) by lia.
        cbn [b64enc b64dec]. rewrite (b64v_b64c _ I1), (b64v_b64c _ I2). cbn [N.eqb is_nil andb].
        replace (61 =? 61) with true by reflexivity. cbn [andb].
        replace (((x mod 4) * 16) mod 16 =? 0) with true by lia. cbn [andb].
        f_equal. f_equal. lia.
      + inversion Hw as [|? ? Hx Hw']; subst. inversion Hw' as [|? ? Hy _]; subst.
        assert (I1 : x / 4 < 64) by lia. assert (I2 : (x mod 4) * 16 + y / 16 < 64) by lia.
        assert (I3 : (y mod 16) * 4 < 64) by lia.
        cbn [b64enc b64dec]. rewrite (b64v_b64c _ I1), (b64v_b64c _ I2), (b64c_not_pad _ I3), (b64v_b64c _ I3).
        replace (61 =? 61) with true by reflexivity. cbn [is_nil andb].
        replace (((y mod 16) * 4) mod 4 =? 0) with true by lia.
        f_equal. f_equal; [lia|]. f_equal. lia.
      + inversion Hw as [|? ? Hx Hw1]; subst. inversion Hw1 as [|? ? Hy Hw2]; subst.
        inversion Hw2 as [|? ? Hz Hw3]; subst.
        apply b64dec_enc3; auto. apply IH; [cbn in Hl; lia | exact Hw3]. }
  intros Hw. apply (H (length b)); auto.
Qed.

Lemma b64enc_nil_iff b : b64enc b = [] <-> b = [].
Proof. split; [|intros ->; reflexivity]. destruct b as [|x [|y [|z r]]]; cbn; congruence. Qed.

(** * UTF-8 of ASCII text *)
Lemma utf8_ascii s : Forall (fun c => c < 128) s -> utf8 s = s.
Proof.
  induction 1 as [|c s Hc _ IH]; [reflexivity|].
  unfold utf8 in *. cbn [flat_map]. rewrite IH. unfold utf8_char.
  replace (c <? 128) with true by lia. reflexivity.
Qed.

(** * hexadecimal tags *)
Lemma hexd_ascii n : n < 16 -> hexd n < 128.
Proof. unfold hexd. intros. destruct (n <? 10) eqn:?; lia. Qed.
Lemma hexval_hexd n : n < 16 -> hexval (hexd n) = Some n.
Proof.
  intros H. unfold hexd. destruct (n <? 10) eqn:E; unfold hexval; split_ifs; try (f_equal; lia); try (exfalso; lia).
Qed.

Lemma take4hex_hex4 v r : v < 65536 -> take4hex (hex4 v ++ r) = Some (v, r).
Proof.
  intros H. unfold hex4. cbn [List.app take4hex].
  rewrite (hexval_hexd ((v / 4096) mod 16)) by lia. rewrite (hexval_hexd ((v / 256) mod 16)) by lia.
  rewrite (hexval_hexd ((v / 16) mod 16)) by lia. rewrite (hexval_hexd (v mod 16)) by lia.
  f_equal. f_equal. lia.
Qed.

Lemma hex4_ascii v : Forall (fun c => c < 128) (hex4 v).
Proof. unfold hex4. repeat constructor; apply hexd_ascii; lia. Qed.

Lemma hex8_length t : length (hex8 t) = 8%nat.
Proof. reflexivity. Qed.

Theorem tag_from_str_hex8 t : t < 2 ^ 32 -> tag_from_str (hex8 t) = Some t.
Proof.
  intros H. unfold tag_from_str.
  assert (Hlen : utf8_len (hex8 t) = 8).
  { unfold utf8_len. rewrite utf8_ascii; [reflexivity|].
    unfold hex8. apply Forall_app; split; apply hex4_ascii. }
  rewrite Hlen. cbn [N.eqb]. replace (8 =? 8) with true by reflexivity.
  unfold hex8. rewrite take4hex_hex4 by lia.
  rewrite <- (app_nil_r (hex4 (t mod 65536))). rewrite take4hex_hex4 by lia.
  f_equal. lia.
Qed.

(** * decimal integers *)
Lemma chars_uint_chars u : chars_uint (uint_chars u) = Some u.
Proof. induction u; cbn [uint_chars chars_uint]; try rewrite IHu; reflexivity. Qed.

Lemma dec_N_shape n : exists c r, dec_N n = c :: r /\ 48 <= c <= 57.
Proof.
  unfold dec_N. destruct n as [|p]; cbn [N.to_uint].
  - exists 48, []. split; [reflexivity | lia].
  - pose proof (DecimalPos.Unsigned.to_uint_nonnil p) as Hn.
    destruct (Pos.to_uint p) as [|u|u|u|u|u|u|u|u|u|u]; [congruence| | | | | | | | | | ]; cbn [uint_chars];
      eexists _, _; (split; [reflexivity | lia]).
Qed.

Lemma parse_dec_dec_N n : parse_dec (dec_N n) = Some n.
Proof.
  destruct (dec_N_shape n) as (c & r & E & _). unfold parse_dec. rewrite E. rewrite <- E.
  unfold dec_N. rewrite chars_uint_chars. cbn [option_map]. f_equal. apply DecimalN.Unsigned.of_to.
Qed.

Theorem parse_int_dec_Z signed lo hi z :
  (lo <= z <= hi)%Z -> (z < 0 -> signed = true)%Z -> parse_int signed lo hi (dec_Z z) = Some z.
Proof.
  intros Hr Hs. unfold dec_Z. destruct (z <? 0)%Z eqn:Hz.
  - rewrite Hs by lia. unfold parse_int. rewrite parse_dec_dec_N.
    replace (- Z.of_N (Z.abs_N z))%Z with z by lia.
    replace (lo <=? z)%Z with true by lia. reflexivity.
  - destruct (dec_N_shape (Z.to_N z)) as (c & r & E & Hc). unfold parse_int. rewrite E.
    assert (c <> 43 /\ c <> 45) as [H1 H2] by lia.
    destruct c as [|p]; [lia|].
    do 7 (destruct p as [p|p|]; try lia; try (rewrite <- E, parse_dec_dec_N;
       replace (Z.of_N (Z.to_N z) <=? hi)%Z with true by lia; f_equal; lia)).
Qed.

(** * floats: widening a finite binary32 and narrowing it again is the identity *)
Lemma rne_exact x sh : rne (x * 2 ^ sh) sh = x.
Proof.
  unfold rne. destruct (sh =? 0) eqn:E.
  - apply N.eqb_eq in E. subst. rewrite N.pow_0_r. lia.
  - assert (2 ^ sh <> 0) by (apply N.pow_nonzero; lia).
    rewrite N.div_mul by assumption. rewrite N.mod_mul by assumption.
    assert (0 < 2 ^ (sh - 1)) by (apply N.neq_0_lt_0, N.pow_nonzero; lia).
    replace (2 ^ (sh - 1) <? 0) with false by lia.
    replace (0 =? 2 ^ (sh - 1)) with false by lia. reflexivity.
Qed.

Lemma log2_scaled m k : 0 < m -> N.log2 (m * 2 ^ k) = N.log2 m + k.
Proof. intros H. rewrite N.log2_mul_pow2 by lia. lia. Qed.

Lemma f32_fields b : b < 2 ^ 32 ->
  b = (if f32_neg b then 2 ^ 31 else 0) + f32_exp b * 2 ^ 23 + f32_man b /\ f32_exp b < 256 /\ f32_man b < 2 ^ 23.
Proof.
  intros H. unfold f32_neg, f32_exp, f32_man.
  change (2 ^ 32) with 4294967296 in H. change (2 ^ 31) with 2147483648. change (2 ^ 23) with 8388608.
  destruct (2147483648 <=? b) eqn:E; lia.
Qed.

(* normal numbers *)
Lemma narrow_normal e m : 1 <= e -> e <= 254 -> m < 2 ^ 23 ->
  fp_round 23 8 (2 ^ 52 + m * 2 ^ 29) (Z.of_N (e + 896) - 1075) = e * 2 ^ 23 + m.
Proof.
  intros He1 He2 Hm. unfold fp_round.
  assert (Hsig : 2 ^ 52 + m * 2 ^ 29 = (2 ^ 23 + m) * 2 ^ 29) by (change (2 ^ 52) with (2 ^ 23 * 2 ^ 29); lia).
  assert (Hlog : N.log2 (2 ^ 52 + m * 2 ^ 29) = 52).
  { rewrite Hsig, log2_scaled by lia.
    assert (N.log2 (2 ^ 23 + m) = 23); [|lia].
    apply (N.log2_unique' _ 23 m); [lia | split; [lia | exact Hm] | reflexivity]. }
  replace (2 ^ 52 + m * 2 ^ 29 =? 0) with false by (symmetry; apply N.eqb_neq; change (2 ^ 52) with 4503599627370496; lia).
  rewrite Hlog.
  change (Z.of_N (2 ^ (8 - 1) - 1)) with 127%Z.
  set (ex := (Z.of_N 52 + (Z.of_N (e + 896) - 1075))%Z).
  assert (Hex : ex = (Z.of_N e - 127)%Z) by (unfold ex; lia).
  rewrite Hex.
  replace (Z.max (Z.of_N e - 127) (1 - 127)) with (Z.of_N e - 127)%Z by lia.
  replace (Z.of_N e - 127 - Z.of_N 23 <=? Z.of_N (e + 896) - 1075)%Z with false by lia.
  replace (Z.to_N (Z.of_N e - 127 - Z.of_N 23 - (Z.of_N (e + 896) - 1075))) with 29 by lia.
  rewrite Hsig, rne_exact.
  replace (1 - 127 <=? Z.of_N e - 127)%Z with true by lia.
  replace (Z.to_N (Z.of_N e - 127 + 127 - 1)) with (e - 1) by lia.
  change (2 ^ 23 * (2 ^ 8 - 1)) with 2139095040. change (2 ^ 23) with 8388608 in *.
  replace (2139095040 <=? (e - 1) * 8388608 + (8388608 + m)) with false by lia.
  lia.
Qed.

(* subnormal numbers *)
Lemma narrow_subnormal m : 0 < m -> m < 2 ^ 23 ->
  let k := N.log2 m in
  fp_round 23 8 (2 ^ 52 + (m - 2 ^ k) * 2 ^ (52 - k)) (Z.of_N (k + 874) - 1075) = m.
Proof.
  intros Hm0 Hm k.
  assert (Hk : 2 ^ k <= m < 2 ^ N.succ k) by (apply N.log2_spec; lia).
  assert (Hk22 : k <= 22).
  { assert (k < 23); [|lia]. apply N.log2_lt_pow2; lia. }
  assert (Hsig : 2 ^ 52 + (m - 2 ^ k) * 2 ^ (52 - k) = m * 2 ^ (52 - k)).
  { replace (2 ^ 52) with (2 ^ k * 2 ^ (52 - k)) by (rewrite <- N.pow_add_r; f_equal; lia).
    rewrite <- N.mul_add_distr_r. f_equal. lia. }
  rewrite Hsig. unfold fp_round.
  assert (Hp : 0 < 2 ^ (52 - k)) by (apply N.neq_0_lt_0, N.pow_nonzero; lia).
  replace (m * 2 ^ (52 - k) =? 0) with false by (symmetry; apply N.eqb_neq; lia).
  rewrite log2_scaled by lia. fold k.
  change (Z.of_N (2 ^ (8 - 1) - 1)) with 127%Z.
  replace (Z.of_N (k + (52 - k)) + (Z.of_N (k + 874) - 1075))%Z with (Z.of_N k - 149)%Z by lia.
  replace (Z.max (Z.of_N k - 149) (1 - 127)) with (-126)%Z by lia.
  replace (-126 - Z.of_N 23 <=? Z.of_N (k + 874) - 1075)%Z with false by lia.
  replace (Z.to_N (-126 - Z.of_N 23 - (Z.of_N (k + 874) - 1075))) with (52 - k) by lia.
  rewrite rne_exact.
  replace (1 - 127 <=? Z.of_N k - 149)%Z with false by lia.
  change (2 ^ 23 * (2 ^ 8 - 1)) with 2139095040. change (2 ^ 23) with 8388608 in *.
  replace (2139095040 <=? 0 + m) with false by lia. lia.
Qed.

Lemma f64_fields_of s e m : s <= 1 -> e < 2048 -> m < 2 ^ 52 ->
  let b := s * 2 ^ 63 + e * 2 ^ 52 + m in
  f64_exp b = e /\ f64_man b = m /\ f64_neg b = (s =? 1).
Proof.
  intros Hs He Hm b. unfold b, f64_exp, f64_man, f64_neg.
  change (2 ^ 63) with 9223372036854775808. change (2 ^ 52) with 4503599627370496 in *.
  repeat split; lia.
Qed.

Theorem narrow_widen b : b < 2 ^ 32 -> f32_finite b = true -> f64_to_f32 (f32_to_f64 b) = b.
Proof.
  intros Hb Hf. destruct (f32_fields b Hb) as (Eb & He & Hm).
  unfold f32_finite in Hf. apply negb_true_iff, N.eqb_neq in Hf.
  set (s := if f32_neg b then 1 else 0).
  assert (Hs : s <= 1) by (unfold s; destruct (f32_neg b); lia).
  assert (Hsign : forall q, (if f32_neg b then 2 ^ q else 0) = s * 2 ^ q)
    by (intros q; unfold s; destruct (f32_neg b); lia).
  etransitivity; [|symmetry; exact Eb].
  unfold f32_to_f64. rewrite Hsign.
  replace (f32_exp b =? 255) with false by lia.
  destruct (f32_exp b =? 0) eqn:E0.
  - apply N.eqb_eq in E0. destruct (f32_man b =? 0) eqn:M0.
    + apply N.eqb_eq in M0.
      destruct (f64_fields_of s 0 0) as (F1 & F2 & F3); [lia| lia | reflexivity |].
      replace (s * 2 ^ 63 + 0) with (s * 2 ^ 63 + 0 * 2 ^ 52 + 0) by lia.
      unfold f64_to_f32. rewrite F1, F2, F3. cbn [N.eqb].
      replace (0 =? 2047) with false by reflexivity. replace (0 =? 0) with true by reflexivity.
      unfold fp_round. replace (0 =? 0) with true by reflexivity.
      rewrite E0, M0. unfold s. destruct (f32_neg b); [change (1 =? 1) with true | change (0 =? 1) with false]; cbv iota; lia.
    + apply N.eqb_neq in M0. set (m := f32_man b) in *. set (k := N.log2 m).
      assert (Hk : 2 ^ k <= m < 2 ^ N.succ k) by (apply N.log2_spec; lia).
      assert (Hk22 : k <= 22). { assert (k < 23); [|lia]. apply N.log2_lt_pow2; lia. }
      assert (Hman : (m - 2 ^ k) * 2 ^ (52 - k) < 2 ^ 52).
      { replace (2 ^ 52) with (2 ^ k * 2 ^ (52 - k)) by (rewrite <- N.pow_add_r; f_equal; lia).
        apply N.mul_lt_mono_pos_r; [apply N.neq_0_lt_0, N.pow_nonzero; lia|].
        rewrite N.pow_succ_r' in Hk. lia. }
      destruct (f64_fields_of s (k + 874) ((m - 2 ^ k) * 2 ^ (52 - k))) as (F1 & F2 & F3); [lia | lia | exact Hman |].
      rewrite <- N.add_assoc in F1, F2, F3. rewrite N.add_assoc in F1, F2, F3.
      replace (s * 2 ^ 63 + ((k + 874) * 2 ^ 52 + (m - 2 ^ k) * 2 ^ (52 - k)))
        with (s * 2 ^ 63 + (k + 874) * 2 ^ 52 + (m - 2 ^ k) * 2 ^ (52 - k)) by lia.
      unfold f64_to_f32. rewrite F1, F2, F3.
      replace (k + 874 =? 2047) with false by lia. replace (k + 874 =? 0) with false by lia.
      pose proof (narrow_subnormal m ltac:(lia) Hm) as Hn. cbv zeta in Hn. fold k in Hn. rewrite Hn.
      rewrite E0. fold m. unfold s. destruct (f32_neg b); [change (1 =? 1) with true | change (0 =? 1) with false]; cbv iota; lia.
  - apply N.eqb_neq in E0. set (e := f32_exp b) in *. set (m := f32_man b) in *.
    assert (Hman : m * 2 ^ 29 < 2 ^ 52) by (change (2 ^ 52) with (2 ^ 23 * 2 ^ 29); apply N.mul_lt_mono_pos_r; [reflexivity | exact Hm]).
    destruct (f64_fields_of s (e + 896) (m * 2 ^ 29)) as (F1 & F2 & F3); [lia | lia | exact Hman |].
    replace (s * 2 ^ 63 + ((e + 896) * 2 ^ 52 + m * 2 ^ 29)) with (s * 2 ^ 63 + (e + 896) * 2 ^ 52 + m * 2 ^ 29) by lia.
    unfold f64_to_f32. rewrite F1, F2, F3.
    replace (e + 896 =? 2047) with false by lia. replace (e + 896 =? 0) with false by lia.
    rewrite narrow_normal by lia.
    fold e m. unfold s. destruct (f32_neg b); [change (1 =? 1) with true | change (0 =? 1) with false]; cbv iota; lia.
Qed.

(** * padding *)
Lemma trim_pad_idem s : trim_pad (trim_pad s) = trim_pad s.
Proof.
  induction s as [|c r IH]; [reflexivity|].
  cbn [trim_pad]. destruct (is_pad c && is_nil (trim_pad r)) eqn:E; [reflexivity|].
  cbn [trim_pad]. rewrite IH, E. reflexivity.
Qed.

Lemma split_first_none c s : ~ In c s -> split_first c s = (s, None).
Proof.
  induction s as [|x r IH]; intros H; [reflexivity|].
  cbn [split_first]. destruct (x =? c) eqn:E.
  - apply N.eqb_eq in E. subst. exfalso. apply H. left. reflexivity.
  - rewrite IH; [reflexivity|]. intros Hin. apply H. right. exact Hin.
Qed.
