(** Single steps of the reader state machine for arbitrary delimiter stacks
    (frames of defined or undefined length), with position accounting:
    each lemma also says how far [position] advanced and what became of
    [delimiter_check_pending]. Generalises Proofs/ReadStepsP.v. *)
From Coq Require Import ZifyBool ZifyNat ZifyN.
From DicomV Require Import Base.Endian Model.Vr Model.Header Model.Prim Model.Dataset Model.Reader Spec.Ps35
  Proofs.HeaderP Proofs.PrimP Proofs.ValidP Proofs.ValueP Proofs.ReaderP Proofs.ReadStepsP.
Open Scope N_scope.

Definition nopix (stk : list seqtok) : Prop := Forall (fun s => sq_pixel s = false) stk.

(* the top frame, if of defined length, has at least [n] bytes left *)
Definition room (st : rstate) (n : N) : Prop :=
  match r_stack st with
  | [] => True
  | s :: _ => sq_len s = undef \/ (sq_len s <> undef /\ r_pos st + n <= sq_base s + sq_len s)
  end.

Definition gstate (st : rstate) (src : bytes) (stk : list seqtok) : Prop :=
  r_src st = src /\ r_in_seq st = false /\ r_stack st = stk /\ nopix stk /\ r_hard st = false /\
  r_last st = None /\ r_signed st = None /\ r_ot_next st = false.
Definition gval_state (st : rstate) (src : bytes) (stk : list seqtok) (h : tag * vr * N) : Prop :=
  r_src st = src /\ r_in_seq st = false /\ r_stack st = stk /\ nopix stk /\ r_hard st = false /\
  r_last st = Some h /\ r_signed st = None /\ r_ot_next st = false /\ r_pending st = false.
Definition gseq_state (st : rstate) (src : bytes) (stk : list seqtok) : Prop :=
  r_src st = src /\ r_in_seq st = true /\ r_stack st = stk /\ stk <> [] /\ nopix stk /\ r_hard st = false /\
  r_last st = None /\ r_signed st = None /\ r_ot_next st = false.

Lemma room_noop st n : 0 < n -> room st n -> noop_delims st.
Proof.
  unfold room, noop_delims. intros Hn H. destruct (r_stack st) as [|s r]; [exact I|].
  destruct H as [H | [H1 H2]]; [left; exact H | right; split; [exact H1 | lia]].
Qed.

(* as [next_via_body], and the state handed to [next_body] has no check pending *)
Lemma next_via_body_g f c d st :
  r_hard st = false -> noop_delims st ->
  exists st', same st' st /\ r_pending st' = false /\
    next (S f) c d st = match next_body c d st' with (RAgain, s) => next f c d s | r => r end.
Proof.
  intros Hh Hn. cbn [next]. rewrite Hh. destruct (r_pending st) eqn:P.
  - unfold update_delims. unfold noop_delims in Hn. destruct (r_stack st) as [|sd rest] eqn:S.
    + exists (upd st (r_in_seq st) (r_ot_next st) false [] (r_last st)). split; [|split; reflexivity].
      unfold same, upd. cbn. rewrite S. repeat split; reflexivity.
    + destruct Hn as [Hu | [Hu Hlt]].
      * rewrite Hu. cbn [N.eqb undef]. rewrite N.eqb_refl.
        exists (upd st (r_in_seq st) (r_ot_next st) false (sd :: rest) (r_last st)). split; [|split; reflexivity].
        unfold same, upd. cbn. rewrite S. repeat split; reflexivity.
      * replace (sq_len sd =? undef) with false by (symmetry; apply N.eqb_neq; exact Hu).
        replace (sq_base sd + sq_len sd =? r_pos st) with false by (symmetry; apply N.eqb_neq; lia).
        replace (sq_base sd + sq_len sd <? r_pos st) with false by (symmetry; apply N.ltb_ge; lia).
        exists (upd st (r_in_seq st) (r_ot_next st) false (sd :: rest) (r_last st)). split; [|split; reflexivity].
        unfold same, upd. cbn. rewrite S. repeat split; reflexivity.
  - exists st. split; [unfold same; repeat split; reflexivity | split; [exact P | reflexivity]].
Qed.

Lemma next_nopending f c d st :
  r_hard st = false -> r_pending st = false ->
  next (S f) c d st = match next_body c d st with (RAgain, s) => next f c d s | r => r end.
Proof. intros Hh Hp. cbn [next]. rewrite Hh, Hp. reflexivity. Qed.

Lemma not_pixel_item_g {A} (stk : list seqtok) (X : N -> A) (Y : A) :
  nopix stk ->
  match stk with
  | {| sq_item := true; sq_len := len; sq_pixel := true |} :: _ => X len
  | _ => Y
  end = Y.
Proof.
  intros H. destruct stk as [|[i l p b] rest]; [reflexivity|].
  inversion H as [|? ? Hp _]; subst. cbn in Hp. subst p. destruct i; reflexivity.
Qed.

Ltac fin_state := repeat split; auto; try congruence.

(** * Primitive element *)
Lemma step_header_g f c d st stk t v val rest n :
  gstate st (ps35_header c t v (blen val) ++ val ++ rest) stk -> 0 < n -> room st n ->
  wf_tag t -> fst t <> 65534 -> blen val < 4294967295 ->
  (c <> ILE -> ps35_len16 v = true -> blen val <= 65535) ->
  vr_eqb (read_vr c d t v) SQ = false ->
  exists st1, next (S f) c d st = (RTok (TElemHeader t (read_vr c d t v) (blen val)), st1)
              /\ gval_state st1 (val ++ rest) stk (t, read_vr c d t v, blen val)
              /\ r_pos st1 = r_pos st + blen (ps35_header c t v (blen val)).
Proof.
  intros (Hsrc & Hin & Hst & Hb & Hh & Hl & Hsg & Hot) Hn0 Hroom Ht Hg Hlen H16 Hsq.
  destruct (next_via_body_g f c d st Hh (room_noop st n Hn0 Hroom)) as (st' & (E1 & E2 & E3 & E4 & E5 & E6 & E7 & E8) & EP & EN).
  rewrite EN. clear EN.
  unfold next_body. rewrite E3, Hin, E5, Hst, (not_pixel_item_g stk _ _ Hb), E7, Hl.
  unfold st_decode_header. rewrite E1, Hsrc.
  rewrite dec_header_layout; [| exact Ht | lia | intros _; exact Hg | exact H16].
  rewrite E8, Hsg. fold (read_vr c d t v). rewrite Hsq.
  replace (tag_eqb t (65534, 57357)) with false
    by (symmetry; unfold tag_eqb; cbn; replace (fst t =? 65534) with false by (symmetry; apply N.eqb_neq; exact Hg); reflexivity).
  assert (Hu : (blen val =? undef) = false) by (apply N.eqb_neq; unfold undef; lia).
  unfold is_encaps_header. rewrite Hu, andb_false_r.
  eexists. split; [reflexivity|].
  unfold gval_state, upd, set_src, blen. cbn. rewrite ?E2, ?E4, ?E5, ?E6, ?E8, ?Hst, ?EP. fin_state.
Qed.

Lemma step_value_g f c d st stk t v val rest p :
  gval_state st (val ++ rest) stk (t, v, blen val) ->
  t <> (40, 259) -> blen val < 4294967295 -> back_value c v val = Ok p ->
  exists st2, next (S f) c d st = (RTok (TPrim p), st2) /\ gstate st2 rest stk
              /\ r_pos st2 = r_pos st + blen val /\ r_pending st2 = true.
Proof.
  intros (Hsrc & Hin & Hst & Hb & Hh & Hl & Hsg & Hot & Hp) Htag Hlen Hbv.
  rewrite (next_nopending f c d st Hh Hp).
  unfold next_body. rewrite Hin, Hst, (not_pixel_item_g stk _ _ Hb), Hl.
  assert (Hu : (blen val =? undef) = false) by (apply N.eqb_neq; unfold undef; lia).
  unfold is_encaps_header. rewrite Hu, andb_false_r.
  rewrite Hsrc, (read_value_app c v val rest p Hlen Hbv).
  rewrite (tag_eqb_neq t (40, 259) Htag). cbn [andb].
  assert (X : (if vr_eqb v US || vr_eqb v OW then set_src st rest (blen val) else set_src st rest (blen val))
              = set_src st rest (blen val)) by (destruct (vr_eqb v US || vr_eqb v OW); reflexivity).
  rewrite X. eexists. split; [reflexivity|].
  unfold gstate, upd, set_src. cbn. rewrite ?Hst. fin_state.
Qed.

(** * Sequences and items, defined or undefined length *)
Lemma step_seq_start_g f c d st stk t len rest n :
  gstate st (ps35_header c t SQ len ++ rest) stk -> 0 < n -> room st n ->
  wf_tag t -> fst t <> 65534 -> t <> pixel_tag -> len < 4294967296 ->
  (len = undef \/ vr_eqb (read_vr c d t SQ) SQ = true) ->
  exists st1, next (S f) c d st = (RTok (TSeqStart t len), st1)
              /\ gseq_state st1 rest ({| sq_item := false; sq_len := len; sq_pixel := false; sq_base := r_pos st1 |} :: stk)
              /\ r_pos st1 = r_pos st + blen (ps35_header c t SQ len)
              /\ (len = 0 -> r_pending st1 = true).
Proof.
  intros (Hsrc & Hin & Hst & Hb & Hh & Hl & Hsg & Hot) Hn0 Hroom Ht Hg Hpx Hlen Hv.
  destruct (next_via_body_g f c d st Hh (room_noop st n Hn0 Hroom)) as (st' & (E1 & E2 & E3 & E4 & E5 & E6 & E7 & E8) & EP & EN).
  rewrite EN. clear EN.
  unfold next_body. rewrite E3, Hin, E5, Hst, (not_pixel_item_g stk _ _ Hb), E7, Hl.
  unfold st_decode_header. rewrite E1, Hsrc.
  rewrite dec_header_layout; [| exact Ht | exact Hlen | intros _; exact Hg | intros _ Hs; discriminate Hs].
  rewrite E8, Hsg. fold (read_vr c d t SQ).
  assert (Htd : tag_eqb t (65534, 57357) = false).
  { unfold tag_eqb; cbn. replace (fst t =? 65534) with false by (symmetry; apply N.eqb_neq; exact Hg). reflexivity. }
  assert (Hen : is_encaps_header t len = false).
  { unfold is_encaps_header. rewrite (tag_eqb_neq t pixel_tag Hpx). reflexivity. }
  destruct (vr_eqb (read_vr c d t SQ) SQ) eqn:V.
  - eexists. split; [reflexivity|].
    unfold gseq_state, upd, set_src, push, blen. cbn. rewrite ?E2, ?E4, ?E5, ?E6, ?E8, ?Hst.
    split; [|split; [reflexivity|]].
    + fin_state; try discriminate. constructor; [reflexivity | exact Hb].
    + intros ->. reflexivity.
  - destruct Hv as [-> | Hv]; [|discriminate].
    rewrite Htd, Hen. cbn [N.eqb undef]. rewrite N.eqb_refl.
    eexists. split; [reflexivity|].
    unfold gseq_state, upd, set_src, push, blen. cbn. rewrite ?E2, ?E4, ?E5, ?E6, ?E8, ?Hst.
    split; [|split; [reflexivity|]].
    + fin_state; try discriminate. constructor; [reflexivity | exact Hb].
    + unfold undef. intros H0. discriminate H0.
Qed.

Lemma step_item_start_g f c d st stk len rest n :
  gseq_state st (ps35_item_header c len ++ rest) stk -> 0 < n -> room st n -> len < 4294967296 ->
  exists st1, next (S f) c d st = (RTok (TItemStart len), st1)
              /\ gstate st1 rest ({| sq_item := true; sq_len := len; sq_pixel := false; sq_base := r_pos st1 |} :: stk)
              /\ r_pos st1 = r_pos st + 8
              /\ (len = 0 -> r_pending st1 = true).
Proof.
  intros (Hsrc & Hin & Hst & Hne & Hb & Hh & Hl & Hsg & Hot) Hn0 Hroom Hlen.
  destruct (next_via_body_g f c d st Hh (room_noop st n Hn0 Hroom)) as (st' & (E1 & E2 & E3 & E4 & E5 & E6 & E7 & E8) & EP & EN).
  rewrite EN. clear EN.
  unfold next_body. rewrite E3, Hin, E1, Hsrc.
  rewrite dec_item_header_item by exact Hlen.
  unfold set_src at 1. cbn [r_stack]. rewrite E5, Hst.
  destruct stk as [|top0 stk0]; [congruence|].
  inversion Hb as [|? ? Hp0 _]; subst.
  unfold push, upd, set_src. cbn [r_stack r_pos r_src r_in_seq r_ot_next r_pending r_hard r_last r_signed].
  rewrite E5, Hst, Hp0.
  eexists. split; [reflexivity|].
  unfold gstate. cbn. rewrite ?E2, ?E4, ?E6, ?E7, ?E8.
  split; [|split; [reflexivity|]].
  - fin_state. constructor; [reflexivity | exact Hb].
  - intros ->. reflexivity.
Qed.

(** item delimiter (the item on top has undefined length) *)
Lemma step_item_end_g f c d st stk top rest :
  gstate st (ps35_item_delim c ++ rest) (top :: stk) -> sq_len top = undef -> stk <> [] -> delim_ok c d ->
  exists st1, next (S f) c d st = (RTok TItemEnd, st1) /\ gseq_state st1 rest stk
              /\ r_pos st1 = r_pos st + 8 /\ r_pending st1 = true.
Proof.
  intros (Hsrc & Hin & Hst & Hb & Hh & Hl & Hsg & Hot) Hu Hne Hd.
  assert (Hn : noop_delims st) by (unfold noop_delims; rewrite Hst; left; exact Hu).
  destruct (next_via_body_g f c d st Hh Hn) as (st' & (E1 & E2 & E3 & E4 & E5 & E6 & E7 & E8) & EP & EN).
  rewrite EN. clear EN.
  unfold next_body. rewrite E3, Hin, E5, Hst, (not_pixel_item_g (top :: stk) _ _ Hb), E7, Hl.
  unfold st_decode_header. rewrite E1, Hsrc.
  assert (DH : dec_header c (dict_vr d) (ps35_item_delim c ++ rest)
               = Ok ((65534, 57357), read_vr c d (65534, 57357) UN, 0, 8, rest)).
  { unfold ps35_item_delim. rewrite <- !u16_ps35, <- u32_ps35, <- !app_assoc. destruct c.
    - pose proof (dec_header_layout ILE (dict_vr d) (65534, 57357) UN 0 rest) as L.
      unfold ps35_header in L. rewrite <- !u16_ps35, <- u32_ps35, <- !app_assoc in L. cbn [fst snd] in L.
      rewrite L; [reflexivity | split; cbn; lia | lia | congruence | congruence].
    - rewrite dec_header_item_tag by (try discriminate; lia). reflexivity.
    - rewrite dec_header_item_tag by (try discriminate; lia). reflexivity. }
  rewrite DH. rewrite E8, Hsg. unfold delim_ok in Hd. rewrite Hd.
  change (tag_eqb (65534, 57357) (65534, 57357)) with true. cbn [set_src r_stack]. rewrite E5, Hst.
  eexists. split; [reflexivity|].
  inversion Hb as [|? ? _ Hb']; subst.
  unfold gseq_state, upd, set_src. cbn. rewrite ?E2, ?E4, ?E6, ?E8. fin_state.
Qed.

(** sequence delimiter (the sequence on top has undefined length) *)
Lemma step_seq_end_g f c d st stk top rest :
  gseq_state st (ps35_seq_delim c ++ rest) (top :: stk) -> sq_len top = undef ->
  exists st1, next (S f) c d st = (RTok TSeqEnd, st1) /\ gstate st1 rest stk
              /\ r_pos st1 = r_pos st + 8 /\ r_pending st1 = true.
Proof.
  intros (Hsrc & Hin & Hst & Hne & Hb & Hh & Hl & Hsg & Hot) Hu.
  assert (Hn : noop_delims st) by (unfold noop_delims; rewrite Hst; left; exact Hu).
  destruct (next_via_body_g f c d st Hh Hn) as (st' & (E1 & E2 & E3 & E4 & E5 & E6 & E7 & E8) & EP & EN).
  rewrite EN. clear EN.
  unfold next_body. rewrite E3, Hin, E1, Hsrc.
  rewrite dec_item_header_seq_delim.
  unfold set_src at 1. cbn [r_stack]. rewrite E5, Hst. cbn [tl].
  eexists. split; [reflexivity|].
  inversion Hb as [|? ? _ Hb']; subst.
  unfold gstate, upd, set_src. cbn. rewrite ?E2, ?E4, ?E5, ?E6, ?E7, ?E8, ?Hst. fin_state.
Qed.

(** the end of a frame of defined length, synthesised by the pending delimiter check *)
Lemma step_end_defined f c d st top stk :
  r_hard st = false -> r_pending st = true -> r_stack st = top :: stk ->
  sq_len top <> undef -> sq_base top + sq_len top = r_pos st ->
  next (S f) c d st =
  (RTok (if sq_item top then TItemEnd else TSeqEnd),
   upd st (sq_item top) (r_ot_next st) true stk (r_last st)).
Proof.
  intros Hh Hp Hst Hu Hpos. cbn [next]. rewrite Hh, Hp. unfold update_delims. rewrite Hst.
  replace (sq_len top =? undef) with false by (symmetry; apply N.eqb_neq; exact Hu).
  replace (sq_base top + sq_len top =? r_pos st) with true by (symmetry; apply N.eqb_eq; exact Hpos).
  rewrite Hp. destruct (sq_item top); reflexivity.
Qed.

Lemma step_eof_g f c d st stk : gstate st [] stk -> r_stack st = [] -> exists st', next (S f) c d st = (REnd, st').
Proof.
  intros (Hsrc & Hin & Hst & Hb & Hh & Hl & Hsg & Hot) Hs.
  assert (Hn : noop_delims st) by (unfold noop_delims; rewrite Hs; exact I).
  destruct (next_via_body_g f c d st Hh Hn) as (st' & (E1 & E2 & E3 & E4 & E5 & E6 & E7 & E8) & EP & EN).
  rewrite EN. clear EN.
  unfold next_body. rewrite E3, Hin, E5, Hs, E7, Hl.
  unfold st_decode_header. rewrite E1, Hsrc. destruct c; cbn; eexists; reflexivity.
Qed.
