(** Building the object from the token stream of a nested data set written with
    either strategy (the tokens carry the written lengths). Generalises
    Proofs/BuildTreeP.v. *)
From Coq Require Import ZifyBool ZifyNat ZifyN Sorting.Sorted.
From DicomV Require Import Base.Endian Model.Vr Model.Header Model.Prim Model.Dataset Model.Writer Model.Reader
  Spec.Ps35 Proofs.HeaderP Proofs.PrimP Proofs.WriterP Proofs.ValidP Proofs.FlatP Proofs.ValueP Proofs.ReaderP
  Proofs.RoundTripP Proofs.TotalP Proofs.NestedP Proofs.NestedGP Proofs.ReadStepsP Proofs.ReadPixP Proofs.ReadTreeP
  Proofs.BuildTreeP Proofs.ReadStepsGP Proofs.ReadPixGP Proofs.ReadTreeGP.
Open Scope N_scope.

(** The data set read back: recorded sequence/item lengths become the written lengths. *)
Fixpoint norm_tree_g (c : codec) (d : dict_t) (nc : bool) (e : elem) : elem :=
  match e with
  | EPrim _ _ _ _ => norm_elem c d e
  | ESeq t _ l its => ESeq t SQ (wl nc l) (map (fun it : item => (wl nc (fst it), map (norm_tree_g c d nc) (snd it))) its)
  | EPix _ _ _ ot frags => EPix pixel_tag OB undef ot (map (pad_even 0) frags)
  end.

(** * Elements *)
Definition builds_ok_g (c : codec) (d : dict_t) (nc : bool) (e : elem) : Prop :=
  (1 <= length (rtoks_g c d nc e))%nat /\
  forall fuel in_item acc tail, (length (rtoks_g c d nc e) < fuel)%nat ->
    build_obj fuel in_item (rtoks_g c d nc e ++ tail) None acc =
    build_obj (fuel - 1) in_item tail None (insert_elem (norm_tree_g c d nc e) acc).

Lemma norm_tree_tag_g c d nc e : readable_g c d nc e -> elem_tag (norm_tree_g c d nc e) = elem_tag e.
Proof. intros R. inversion R; subst; reflexivity. Qed.

Lemma rtoks_list_ge_g c d nc es : Forall (builds_ok_g c d nc) es -> (length es <= length (rtoks_list_g c d nc es))%nat.
Proof.
  induction 1 as [|e es [He _] Hes IH]; [cbn; lia|]. unfold rtoks_list_g in *. cbn [flat_map length]. rewrite app_length. lia.
Qed.

Lemma build_list_g c d nc es : forall fuel in_item acc tail,
  Forall (builds_ok_g c d nc) es -> Forall (readable_g c d nc) es ->
  StronglySorted tag_lt (map elem_tag es) ->
  Forall (fun x => Forall (fun e => tag_lt (elem_tag x) (elem_tag e)) es) acc ->
  (length (rtoks_list_g c d nc es) < fuel)%nat ->
  build_obj fuel in_item (rtoks_list_g c d nc es ++ tail) None acc =
  build_obj (fuel - length es) in_item tail None (acc ++ map (norm_tree_g c d nc) es).
Proof.
  induction es as [|e es IH]; intros fuel in_item acc tail H R S A F.
  - cbn. rewrite Nat.sub_0_r, List.app_nil_r. reflexivity.
  - inversion H as [|? ? [He1 He2] Hes]; inversion R as [|? ? Re Res]; inversion S as [|? ? S1 S2]; subst.
    unfold rtoks_list_g in *. cbn [flat_map] in F |- *. rewrite app_length in F. rewrite <- app_assoc.
    rewrite He2 by lia.
    rewrite insert_at_end.
    + rewrite IH; [| exact Hes | exact Res | exact S1 | | lia].
      * cbn [map length]. rewrite <- app_assoc. f_equal. lia.
      * apply Forall_app. split.
        -- eapply Forall_impl; [|exact A]. intros x Hx. inversion Hx; assumption.
        -- constructor; [|constructor]. rewrite norm_tree_tag_g by exact Re. rewrite Forall_map in S2. exact S2.
    + rewrite norm_tree_tag_g by exact Re. eapply Forall_impl; [|exact A]. intros x Hx. inversion Hx; assumption.
Qed.

(** items of a sequence *)
Lemma build_items_g c d nc its : forall f g tail acc,
  Forall (fun it : item => Forall (builds_ok_g c d nc) (snd it) /\ Forall (readable_g c d nc) (snd it)
                           /\ StronglySorted tag_lt (map elem_tag (snd it))) its ->
  (length (rtoks_items_g c d nc its) < f)%nat -> (length its < g)%nat ->
  build_seq_g (fun r => build_obj f true r None []) None g (rtoks_items_g c d nc its ++ TSeqEnd :: tail) acc =
  Ok (rev acc ++ map (fun it : item => (wl nc (fst it), map (norm_tree_g c d nc) (snd it))) its, tail).
Proof.
  induction its as [|[n es] its IH]; intros f g tail acc H F G.
  - destruct g; [cbn in G; lia|]. cbn. rewrite List.app_nil_r. reflexivity.
  - inversion H as [|? ? (Hb & Hr & Hs) Hits]; subst. cbn [snd] in *.
    destruct g as [|g]; [cbn in G; lia|].
    unfold rtoks_items_g in *. cbn [flat_map snd] in F |- *. rewrite !app_length in F. cbn [length] in F.
    cbn [app build_seq_g]. rewrite <- !app_assoc.
    rewrite (build_list_g c d nc es f true [] _ Hb Hr Hs (Forall_nil _)) by lia.
    pose proof (rtoks_list_ge_g c d nc es Hb) as Ge.
    destruct (f - length es)%nat as [|f'] eqn:Ef; [lia|].
    cbn [app build_obj].
    rewrite IH; [| exact Hits | lia | cbn in G; lia].
    cbn [rev map snd]. rewrite <- app_assoc. reflexivity.
Qed.

Lemma readable_builds_ok_g c d nc : forall e, readable_g c d nc e -> builds_ok_g c d nc e.
Proof.
  apply (elem_ind_nested (fun e => readable_g c d nc e -> builds_ok_g c d nc e)).
  - intros t v l p R. split; [cbn; lia|]. intros fuel in_item acc tail F.
    destruct fuel as [|fuel]; [lia|]. replace (S fuel - 1)%nat with fuel by lia. cbn [rtoks_g app build_obj norm_tree_g norm_elem]. reflexivity.
  - intros t v l ot fr R. inversion R; subst. split; [cbn; lia|]. intros fuel in_item acc tail F.
    destruct fuel as [|fuel]; [lia|]. replace (S fuel - 1)%nat with fuel by lia. cbn [rtoks_g app build_obj]. rewrite <- !app_assoc. cbn [app].
    rewrite build_pix_tokens. cbn [norm_tree_g]. reflexivity.
  - intros t v l its IH R. inversion R as [|? ? ? Htag Hgrp Hpx HL Hvr Hcorr Hits|]; subst.
    assert (A : Forall (fun it : item => Forall (builds_ok_g c d nc) (snd it) /\ Forall (readable_g c d nc) (snd it)
                                         /\ StronglySorted tag_lt (map elem_tag (snd it))) its).
    { clear R Hcorr. induction its as [|it its IHi]; [constructor|].
      inversion IH as [|? ? I1 I2]; inversion Hits as [|? ? (J0 & Jc & J1 & J3) J2]; subst. constructor.
      - split; [|split; assumption]. clear IHi I2 J2 J3 J0 Jc. induction (snd it) as [|x xs IHx]; [constructor|].
        inversion I1; inversion J1; subst. constructor; [auto | auto].
      - apply IHi; assumption. }
    split; [cbn; lia|]. intros fuel in_item acc tail F.
    destruct fuel as [|f]; [lia|]. replace (S f - 1)%nat with f by lia.
    change (length (rtoks_g c d nc (ESeq t SQ l its))) with (length ([TSeqStart t (wl nc l)] ++ rtoks_items_g c d nc its ++ [TSeqEnd])) in F.
    rewrite !app_length in F. cbn [length] in F. cbn [rtoks_g].
    cbn [app]. rewrite build_obj_seq. rewrite <- app_assoc. cbn [app].
    assert (Li : (length its <= length (rtoks_items_g c d nc its))%nat).
    { clear. unfold rtoks_items_g. induction its as [|it its IHl]; [cbn; lia|]. cbn [flat_map length]. rewrite !app_length. cbn [length]. lia. }
    match goal with |- context [build_seq_g _ None (S f) (?X ++ TSeqEnd :: tail) []] =>
      change X with (rtoks_items_g c d nc its) end.
    rewrite (build_items_g c d nc its f (S f) tail [] A) by lia.
    cbn [rev app norm_tree_g]. reflexivity.
Qed.

(** B: the object built from the tokens of a nested data set. *)
Lemma build_tree_g c d nc es :
  Forall (readable_g c d nc) es -> StronglySorted tag_lt (map elem_tag es) ->
  build_obj (S (S (length (rtoks_list_g c d nc es)))) false (rtoks_list_g c d nc es) None [] =
  Ok (map (norm_tree_g c d nc) es, []).
Proof.
  intros R Hs.
  assert (B : Forall (builds_ok_g c d nc) es) by (eapply Forall_impl; [apply readable_builds_ok_g | exact R]).
  rewrite <- (List.app_nil_r (rtoks_list_g c d nc es)) at 2.
  rewrite (build_list_g c d nc es _ false [] [] B R Hs (Forall_nil _)) by lia.
  pose proof (rtoks_list_ge_g c d nc es B).
  destruct (S (S (length (rtoks_list_g c d nc es))) - length es)%nat eqn:E; [lia|]. reflexivity.
Qed.
