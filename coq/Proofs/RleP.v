(** Lemmas about Model/Rle.v against Spec/AnnexG.v (C20). *)
From DicomV Require Import Base.Prelude Base.Endian Model.Rle Spec.AnnexG.
From Coq Require Import ZifyBool ZifyNat ZifyN.
Ltac Zify.zify_post_hook ::= Z.div_mod_to_equations.

Definition omap {A B} (f : A -> B) (o : outcome A) : outcome B :=
  match o with Ok a => Ok (f a) | Err e => Err e | Panic w => Panic w end.

(** * 1. PackBits *)
Lemma unpack_fuel_nil f : unpack_fuel f [] = Ok [].
Proof. destruct f; reflexivity. Qed.

Lemma firstn_app_exact {A} (l r : list A) : firstn (length l) (l ++ r) = l.
Proof. rewrite firstn_app, Nat.sub_diag, firstn_all. cbn. apply app_nil_r. Qed.
Lemma skipn_app_exact {A} (l r : list A) : skipn (length l) (l ++ r) = r.
Proof. rewrite skipn_app, Nat.sub_diag, skipn_all. reflexivity. Qed.

Lemma unpack_fuel_app d b :
  packbits_enc d b ->
  forall t dt fuel,
    (forall f, (length t <= f)%nat -> unpack_fuel f t = Ok dt) ->
    (length (b ++ t) <= fuel)%nat ->
    unpack_fuel fuel (b ++ t) = Ok (d ++ dt).
Proof.
  induction 1 as [| l d b Hl _ IH | x n d b Hn _ IH | d b _ IH]; intros t dt fuel Ht Hf.
  - cbn. apply Ht. exact Hf.
  - cbn [app] in *. destruct fuel as [|fuel]; [cbn in Hf; lia|].
    cbn [unpack_fuel]. destruct (N.of_nat (length l - 1) <=? 127) eqn:E; [|lia].
    replace (S (N.to_nat (N.of_nat (length l - 1)))) with (length l) by lia.
    rewrite <- app_assoc, skipn_app_exact, firstn_app_exact.
    rewrite (IH t dt fuel Ht) by (cbn in Hf; rewrite !app_length in *; lia).
    cbn. rewrite app_assoc. reflexivity.
  - cbn [app] in *. destruct fuel as [|fuel]; [cbn in Hf; lia|].
    cbn [unpack_fuel]. destruct (257 - N.of_nat n <=? 127) eqn:E1; [lia|].
    destruct (257 - N.of_nat n =? 128) eqn:E2; [lia|].
    replace (N.to_nat (257 - (257 - N.of_nat n))) with n by lia.
    rewrite (IH t dt fuel Ht) by (cbn in Hf; lia).
    cbn. rewrite app_assoc. reflexivity.
  - cbn [app] in *. destruct fuel as [|fuel]; [cbn in Hf; lia|].
    cbn [unpack_fuel]. change (128 <=? 127) with false. change (128 =? 128) with true. cbv iota.
    apply IH; [exact Ht|cbn in Hf; lia].
Qed.

Lemma unpack_enc d b : packbits_enc d b -> unpack b = Ok d.
Proof.
  intros H. unfold unpack. rewrite <- (app_nil_r b) at 2. rewrite <- (app_nil_r d).
  apply (unpack_fuel_app d b H [] []); [intros; apply unpack_fuel_nil|rewrite app_nil_r; lia].
Qed.

Lemma unpack_pad_even d b : packbits_enc d b -> unpack (pad_even b) = Ok d.
Proof.
  intros H. unfold pad_even. destruct (Nat.even (length b)); [apply unpack_enc; exact H|].
  unfold unpack. rewrite <- (app_nil_r d).
  apply (unpack_fuel_app d b H [0] []); [|lia].
  intros f Hf. destruct f as [|f]; [cbn in Hf; lia|]. cbn. rewrite unpack_fuel_nil. reflexivity.
Qed.

Lemma pad_even_even b : Nat.even (length (pad_even b)) = true.
Proof.
  unfold pad_even. destruct (Nat.even (length b)) eqn:E; [exact E|].
  rewrite app_length. cbn [length]. rewrite Nat.add_1_r, Nat.even_succ, <- Nat.negb_even, E. reflexivity.
Qed.

(** * 2. the RLE header *)
Lemma seg_offsets_length start segs : length (seg_offsets start segs) = length segs.
Proof. revert start; induction segs as [|s r IH]; intros start; cbn; [reflexivity|]. now rewrite IH. Qed.

Lemma flat_map_le32_length l : length (flat_map le32 l) = (4 * length l)%nat.
Proof.
  induction l as [|x l IH]; [reflexivity|].
  cbn [flat_map]. rewrite app_length, IH. unfold le32. rewrite le_bytes_length. cbn [length]. lia.
Qed.

Lemma rle_header_length segs : (length segs <= 15)%nat -> length (rle_header segs) = 64%nat.
Proof.
  intros H. unfold rle_header. rewrite !app_length, flat_map_le32_length, seg_offsets_length, repeat_length.
  unfold le32. rewrite le_bytes_length. lia.
Qed.

Lemma read_u32s_flat offs rest :
  Forall (fun x => x < 2 ^ 32) offs ->
  read_u32s (length offs) (flat_map le32 offs ++ rest) = offs.
Proof.
  unfold le32. induction 1 as [|x offs Hx _ IH]; [reflexivity|].
  cbn [length read_u32s flat_map]. rewrite <- app_assoc.
  rewrite firstn_le_bytes_app, skipn_le_bytes_app, IH.
  rewrite le_val_le_bytes_small by exact Hx. reflexivity.
Qed.

Lemma seg_offsets_bound start segs :
  Forall (fun x => x <= start + len (concat segs)) (seg_offsets start segs).
Proof.
  revert start; induction segs as [|s r IH]; intros start; cbn [seg_offsets]; constructor.
  - unfold len. lia.
  - specialize (IH (start + N.of_nat (length s))). eapply Forall_impl; [|exact IH].
    cbn [concat]. unfold len. rewrite app_length. intros; cbn beta in *. lia.
Qed.

Lemma firstn_skipn_hdr segs :
  firstn 4 (rle_fragment segs) = le_bytes 4 (N.of_nat (length segs)) /\
  skipn 4 (rle_fragment segs)
  = flat_map le32 (seg_offsets 64 segs) ++ (repeat 0 (4 * (15 - length segs)) ++ concat segs).
Proof.
  unfold rle_fragment, rle_header, le32. rewrite <- !app_assoc.
  rewrite firstn_le_bytes_app, skipn_le_bytes_app. split; reflexivity.
Qed.

Lemma read_rle_header_fragment segs :
  (length segs <= 15)%nat -> len (rle_fragment segs) < 2 ^ 32 ->
  read_rle_header (rle_fragment segs) = Ok (seg_offsets 64 segs).
Proof.
  intros Hn Hl. pose proof (rle_header_length segs Hn) as Hh.
  assert (Hlen : len (rle_fragment segs) = 64 + len (concat segs)).
  { unfold rle_fragment, len. rewrite app_length, Hh. lia. }
  unfold read_rle_header.
  destruct (len (rle_fragment segs) <? 4) eqn:E1; [lia|].
  destruct (firstn_skipn_hdr segs) as [-> ->].
  rewrite le_val_le_bytes_small by (change (8 * N.of_nat 4) with 32; lia).
  destruct (15 <? N.of_nat (length segs)) eqn:E2; [lia|].
  destruct (len (rle_fragment segs) <? 4 * (N.of_nat (length segs) + 1)) eqn:E3; [lia|].
  rewrite Nat2N.id. rewrite <- (seg_offsets_length 64 segs) at 1.
  rewrite read_u32s_flat; [reflexivity|].
  eapply Forall_impl; [|apply seg_offsets_bound]. intros; cbn beta in *. lia.
Qed.

(** * 3. slicing a segment out of the fragment *)
Lemma index_app_l l r i x : nth_error l i = Some x -> index (l ++ r) i = Ok x.
Proof.
  intros H. unfold index. rewrite nth_error_app1 by (apply nth_error_Some; congruence). now rewrite H.
Qed.

Lemma segment_slice segs : forall pre start ii seg,
  N.of_nat (length pre) = start -> nth_error segs ii = Some seg ->
  exists a,
    index (seg_offsets start segs ++ [start + len (concat segs)]) ii = Ok a /\
    index (seg_offsets start segs ++ [start + len (concat segs)]) (S ii) = Ok (a + len seg) /\
    slice_range (pre ++ concat segs) a (a + len seg) = Ok seg.
Proof.
  induction segs as [|s r IH]; intros pre start ii seg Hp Hn; [destruct ii; discriminate|].
  destruct ii as [|ii].
  - injection Hn as ->. exists start. cbn [seg_offsets concat app]. split; [reflexivity|]. split.
    + destruct r as [|s2 r]; cbn; unfold index; cbn; unfold len; rewrite ?app_nil_r; reflexivity.
    + unfold slice_range, len. rewrite !app_length.
      destruct ((start <=? start + N.of_nat (length seg)) &&
                (start + N.of_nat (length seg) <=? N.of_nat (length pre + (length seg + length (concat r))))) eqn:E; [|lia].
      replace (N.to_nat (start + N.of_nat (length seg) - start)) with (length seg) by lia.
      replace (N.to_nat start) with (length pre) by lia.
      rewrite skipn_app_exact, firstn_app_exact. reflexivity.
  - cbn [nth_error] in Hn.
    destruct (IH (pre ++ s) (start + N.of_nat (length s)) ii seg) as (a & H1 & H2 & H3);
      [rewrite app_length; lia|exact Hn|].
    exists a. cbn [seg_offsets concat].
    replace (start + len (s ++ concat r)) with (start + N.of_nat (length s) + len (concat r))
      by (unfold len; rewrite app_length; lia).
    split; [exact H1|]. split; [exact H2|]. rewrite app_assoc. exact H3.
Qed.

(** * 4. strided placement *)
Lemma upd_length l i x : (i < length l)%nat -> length (upd l i x) = length l.
Proof.
  intros H. unfold upd. rewrite app_length, firstn_length. cbn [length]. rewrite skipn_length. lia.
Qed.

Lemma upd_app_l l r i x : (i < length l)%nat -> upd (l ++ r) i x = upd l i x ++ r.
Proof.
  intros H. unfold upd. rewrite firstn_app, skipn_app.
  replace (i - length l)%nat with 0%nat by lia. replace (S i - length l)%nat with 0%nat by lia.
  cbn [firstn skipn]. rewrite app_nil_r, <- app_assoc. reflexivity.
Qed.

Lemma upd_app_r l r i x : upd (l ++ r) (length l + i) x = l ++ upd r i x.
Proof.
  unfold upd. rewrite firstn_app_2. rewrite <- app_assoc. do 2 f_equal.
  replace (S (length l + i)) with (length l + S i)%nat by lia.
  rewrite skipn_app, skipn_all2 by lia. cbn [app].
  replace (length l + S i - length l)%nat with (S i) by lia. reflexivity.
Qed.

Lemma nth_upd_eq l i x d : (i < length l)%nat -> nth i (upd l i x) d = x.
Proof.
  intros H. unfold upd. rewrite app_nth2 by (rewrite firstn_length; lia).
  rewrite firstn_length. replace (i - Init.Nat.min i (length l))%nat with 0%nat by lia. reflexivity.
Qed.

Lemma nth_upd_neq l i j x d : (i < length l)%nat -> i <> j -> nth j (upd l i x) d = nth j l d.
Proof.
  intros Hi H. unfold upd.
  destruct (Nat.lt_ge_cases j i) as [Hj|Hj].
  - rewrite app_nth1 by (rewrite firstn_length; lia).
    rewrite <- (firstn_skipn i l) at 2. rewrite app_nth1 by (rewrite firstn_length; lia). reflexivity.
  - rewrite app_nth2 by (rewrite firstn_length; lia). rewrite firstn_length.
    replace (Init.Nat.min i (length l)) with i by lia.
    destruct (j - i)%nat as [|k] eqn:E; [lia|]. cbn [nth].
    rewrite <- (firstn_skipn (S i) l) at 2. rewrite app_nth2 by (rewrite firstn_length; lia).
    rewrite firstn_length. f_equal. lia.
Qed.

Lemma place_shift seg : forall A B idx step endi,
  place seg (length A + idx) step (length A + endi) (A ++ B) = omap (app A) (place seg idx step endi B).
Proof.
  induction seg as [|x seg IH]; intros A B idx step endi; cbn [place].
  - destruct (endi <=? idx)%nat eqn:E1, (length A + endi <=? length A + idx)%nat eqn:E2;
      try reflexivity; lia.
  - destruct (endi <=? idx)%nat eqn:E1, (length A + endi <=? length A + idx)%nat eqn:E2;
      try reflexivity; try lia.
    rewrite upd_app_r. rewrite <- Nat.add_assoc. apply IH.
Qed.

Lemma place_suffix seg : forall B C idx step endi,
  (endi <= length B)%nat ->
  place seg idx step endi (B ++ C) = omap (fun b => b ++ C) (place seg idx step endi B).
Proof.
  induction seg as [|x seg IH]; intros B C idx step endi H; cbn [place].
  - destruct (endi <=? idx)%nat; reflexivity.
  - destruct (endi <=? idx)%nat eqn:E; [reflexivity|].
    rewrite upd_app_l by lia. apply IH. rewrite upd_length by lia. exact H.
Qed.

Lemma place_length seg : forall idx step endi dst r,
  (endi <= length dst)%nat -> place seg idx step endi dst = Ok r -> length r = length dst.
Proof.
  induction seg as [|x seg IH]; intros idx step endi dst r H; cbn [place].
  - destruct (endi <=? idx)%nat; [intros E; injection E as <-; reflexivity|discriminate].
  - destruct (endi <=? idx)%nat eqn:E; [intros E'; injection E' as <-; reflexivity|].
    intros Hp. apply IH in Hp; [|rewrite upd_length by lia; exact H].
    rewrite Hp. apply upd_length. lia.
Qed.

(** a sequence of placements (the body of the two nested loops once the
    segments have been decoded) *)
Definition run (steps : list (nat * bytes)) (step endi : nat) (dst : bytes) : outcome bytes :=
  fold_left (fun acc ps => d <- acc ;; place (snd ps) (fst ps) step endi d) steps (Ok dst).

Lemma fold_fail {S} (f : bytes -> S -> outcome bytes) (l : list S) (o : outcome bytes) :
  is_ok o = false -> fold_left (fun acc x => d <- acc ;; f d x) l o = o.
Proof.
  revert o; induction l as [|x l IH]; intros o H; [reflexivity|].
  cbn [fold_left]. destruct o; [discriminate| |]; cbn [bind]; apply IH; reflexivity.
Qed.

Definition heads_tails (steps : list (nat * bytes)) : list (nat * bytes) :=
  map (fun ps => (fst ps, tl (snd ps))) steps.

(** the first pixel chunk of the destination only sees the heads of the segments *)
Lemma run_cons steps : forall c rest n r' step,
  length c = step ->
  Forall (fun ps => (fst ps < step)%nat /\ snd ps <> []) steps ->
  run (heads_tails steps) step (n * step) rest = Ok r' ->
  run steps step (step + n * step) (c ++ rest)
  = Ok (fold_left (fun c ps => upd c (fst ps) (hd 0 (snd ps))) steps c ++ r').
Proof.
  induction steps as [|[pos seg] steps IH]; intros c rest n r' step Hc Hs Hr.
  - cbn in *. injection Hr as <-. reflexivity.
  - inversion Hs as [|? ? [Hpos Hne] Hs']; subst. cbn [fst snd] in *.
    destruct seg as [|x seg]; [congruence|].
    unfold run in *. cbn [heads_tails map fold_left fst snd tl hd bind] in *.
    destruct (place seg pos (length c) (n * length c) rest) as [rest1| |] eqn:Ep;
      [|rewrite fold_fail in Hr by reflexivity; discriminate..].
    cbn [place]. destruct (length c + n * length c <=? pos)%nat eqn:E; [lia|].
    rewrite upd_app_l by lia.
    assert (Hl : length (upd c pos x) = length c) by (apply upd_length; lia).
    replace (pos + length c)%nat with (length (upd c pos x) + pos)%nat by lia.
    replace (length c + n * length c)%nat with (length (upd c pos x) + n * length c)%nat by lia.
    rewrite place_shift, Ep. cbn [omap].
    rewrite Hl. exact (IH (upd c pos x) rest1 n r' (length c) Hl Hs' Hr).
Qed.

Lemma run_empty steps step dst :
  run steps step 0 dst = Ok dst.
Proof.
  unfold run. induction steps as [|[pos seg] steps IH]; [reflexivity|].
  cbn [fold_left bind fst snd]. destruct seg; cbn [place]; exact IH.
Qed.

(** updating every position of a chunk with the value the target has there *)
Lemma fold_upd_target (target : bytes) (ups : list (nat * N)) : forall l,
  length l = length target ->
  (forall p v, In (p, v) ups -> (p < length target)%nat /\ v = nth p target 0) ->
  (forall j, (j < length target)%nat -> In j (map fst ups) \/ nth j l 0 = nth j target 0) ->
  fold_left (fun c pv => upd c (fst pv) (snd pv)) ups l = target.
Proof.
  induction ups as [|[p v] ups IH]; intros l Hl Hin Hcov.
  - cbn. apply nth_ext with (d := 0) (d' := 0); [exact Hl|].
    intros j Hj. destruct (Hcov j) as [[]|H]; [lia|exact H].
  - cbn [fold_left fst snd]. destruct (Hin p v (or_introl eq_refl)) as [Hp Hv].
    apply IH.
    + rewrite upd_length by lia. exact Hl.
    + intros p' v' H. apply Hin. right. exact H.
    + intros j Hj. destruct (Nat.eq_dec p j) as [->|Hne].
      * right. rewrite nth_upd_eq by lia. exact Hv.
      * rewrite nth_upd_neq by (lia || exact Hne).
        destruct (Hcov j Hj) as [[H|H]|H]; [cbn in H; lia|left; exact H|right; exact H].
Qed.

(** * 5. one fragment: the decoder inverts the Annex G encoder *)
Lemma Forall2_nth_error {A B} (R : A -> B -> Prop) l1 l2 :
  Forall2 R l1 l2 -> forall i a, nth_error l1 i = Some a ->
  exists b, nth_error l2 i = Some b /\ R a b.
Proof.
  induction 1 as [|x y l1 l2 Hxy _ IH]; intros i a Hi; [destruct i; discriminate|].
  destruct i as [|i]; cbn in *; [injection Hi as <-; eauto|eauto].
Qed.

Lemma Forall2_length' {A B} (R : A -> B -> Prop) l1 l2 : Forall2 R l1 l2 -> length l1 = length l2.
Proof. induction 1; cbn; congruence. Qed.

Lemma byte_segments_nth bps spp pixels k :
  (k < spp * bps)%nat -> nth_error (byte_segments bps spp pixels) k = Some (byte_segment bps pixels k).
Proof.
  intros H. unfold byte_segments. rewrite nth_error_map.
  rewrite (nth_error_nth' _ 0%nat) by (rewrite seq_length; exact H).
  rewrite seq_nth by exact H. reflexivity.
Qed.

Lemma byte_segment_length bps pixels k : length (byte_segment bps pixels k) = length pixels.
Proof. apply map_length. Qed.

Lemma in_sb_list spp bps s b : In (s, b) (sb_list spp bps) <-> (s < spp /\ b < bps)%nat.
Proof.
  unfold sb_list. rewrite in_flat_map. split.
  - intros (s' & Hs & Hb). apply in_seq in Hs. apply in_map_iff in Hb as (b' & E & Hb).
    injection E as <- <-. apply in_rev, in_seq in Hb. lia.
  - intros [Hs Hb]. exists s. split; [apply in_seq; lia|].
    apply in_map_iff. exists b. split; [reflexivity|]. apply in_rev. rewrite rev_involutive. apply in_seq. lia.
Qed.

Section OneFragment.
  Variables (bps spp : nat) (pixels : list (list N)) (encs : list bytes).
  Hypothesis Hcount : (1 <= spp * bps <= 15)%nat.
  Hypothesis Henc : Forall2 packbits_enc (byte_segments bps spp pixels) encs.
  Let segs := map pad_even encs.
  Let frag := rle_fragment segs.
  Hypothesis Hlen : len frag < 2 ^ 32.

  Lemma segs_length : length segs = (spp * bps)%nat.
  Proof.
    unfold segs. rewrite map_length, <- (Forall2_length' _ _ _ Henc).
    unfold byte_segments. rewrite map_length, seq_length. reflexivity.
  Qed.

  Lemma frag_len : len frag = 64 + len (concat segs).
  Proof.
    unfold frag, rle_fragment, len. rewrite app_length, rle_header_length by (rewrite segs_length; lia). lia.
  Qed.

  Lemma decoded_segment_ok s b :
    (s < spp)%nat -> (b < bps)%nat ->
    decoded_segment frag (seg_offsets 64 segs ++ [len frag mod 2 ^ 32]) (length pixels) bps (s, b)
    = Ok (byte_segment bps pixels (s * bps + b)).
  Proof.
    intros Hs Hb. assert (Hii : (s * bps + b < spp * bps)%nat) by nia.
    destruct (Forall2_nth_error _ _ _ Henc _ _ (byte_segments_nth bps spp pixels _ Hii)) as (enc & Hn & Hpb).
    assert (Hseg : nth_error segs (s * bps + b) = Some (pad_even enc)).
    { unfold segs. rewrite nth_error_map, Hn. reflexivity. }
    destruct (segment_slice segs (rle_header segs) 64 _ _
                (f_equal N.of_nat (rle_header_length segs ltac:(rewrite segs_length; lia))) Hseg)
      as (a & H1 & H2 & H3).
    rewrite N.mod_small by exact Hlen. rewrite frag_len.
    unfold decoded_segment. rewrite H1. cbn [bind]. rewrite H2. cbn [bind].
    fold (rle_fragment segs) in H3. fold frag in H3. rewrite H3. cbn [bind].
    rewrite (unpack_pad_even _ _ Hpb). cbn [bind].
    rewrite firstn_all2 by (rewrite byte_segment_length; lia). reflexivity.
  Qed.

  Definition steps_of (pxs : list (list N)) (sbs : list (nat * nat)) : list (nat * bytes) :=
    map (fun sb => (seg_pos bps sb, byte_segment bps pxs (fst sb * bps + snd sb)%nat)) sbs.

  Lemma fold_step_sb fsize sbs : forall acc,
    (forall s b, In (s, b) sbs -> (s < spp /\ b < bps)%nat) ->
    fold_left (step_sb frag (seg_offsets 64 segs ++ [len frag mod 2 ^ 32]) (length pixels) bps spp 0 fsize) sbs acc
    = fold_left (fun acc ps => d <- acc ;; place (snd ps) (fst ps) (bps * spp) fsize d) (steps_of pixels sbs) acc.
  Proof.
    induction sbs as [|[s b] sbs IH]; intros acc Hin; [reflexivity|].
    cbn [fold_left steps_of map]. rewrite <- IH by (intros; apply Hin; right; assumption).
    f_equal. unfold step_sb. destruct acc as [d| |]; [|reflexivity..]. cbn [bind].
    destruct (Hin s b (or_introl eq_refl)) as [Hs Hb].
    rewrite decoded_segment_ok by assumption. reflexivity.
  Qed.
End OneFragment.

Lemma nth_flat_block (f : N -> bytes) (k : nat) (px : list N) :
  (forall v, length (f v) = k) ->
  forall s m, (s < length px)%nat -> (m < k)%nat ->
  nth (s * k + m) (flat_map f px) 0 = nth m (f (nth s px 0)) 0.
Proof.
  intros Hf. induction px as [|v px IH]; intros s m Hs Hm; [cbn in Hs; lia|].
  cbn [flat_map]. destruct s as [|s].
  - cbn [Nat.mul Nat.add nth]. apply app_nth1. rewrite Hf. exact Hm.
  - rewrite app_nth2 by (rewrite Hf; nia). rewrite Hf.
    replace (S s * k + m - k)%nat with (s * k + m)%nat by nia.
    cbn [nth]. apply IH; [cbn in Hs; lia|exact Hm].
Qed.

Lemma flat_map_block_length (f : N -> bytes) (k : nat) (px : list N) :
  (forall v, length (f v) = k) -> length (flat_map f px) = (length px * k)%nat.
Proof.
  intros Hf. induction px as [|v px IH]; [reflexivity|].
  cbn [flat_map length]. rewrite app_length, Hf, IH. lia.
Qed.

Lemma fold_left_map {A B C} (g : A -> B) (f : C -> B -> C) l c :
  fold_left f (map g l) c = fold_left (fun c a => f c (g a)) l c.
Proof. revert c; induction l as [|a l IH]; intros c; [reflexivity|]. cbn. apply IH. Qed.

(** the chunk of one pixel after all segments have been placed *)
Lemma chunk_final bps spp px :
  (1 <= bps)%nat -> length px = spp ->
  fold_left (fun c ps => upd c (fst ps) (hd 0 (snd ps)))
            (steps_of bps [px] (sb_list spp bps)) (repeat 0 (bps * spp))
  = native_pixel bps px.
Proof.
  intros Hb Hpx. unfold steps_of. rewrite fold_left_map. cbn [fst snd byte_segment map hd].
  rewrite <- (fold_left_map (fun sb => (seg_pos bps sb, nth (fst sb * bps + snd sb) (composite bps px) 0))
                (fun c pv => upd c (fst pv) (snd pv))).
  assert (Hlt : length (native_pixel bps px) = (spp * bps)%nat).
  { unfold native_pixel. rewrite (flat_map_block_length _ bps) by (intros; apply le_bytes_length). lia. }
  apply fold_upd_target.
  - rewrite repeat_length, Hlt. lia.
  - intros p v Hin. apply in_map_iff in Hin as ([s b] & E & Hsb). injection E as <- <-.
    apply in_sb_list in Hsb as [Hs Hbb]. unfold seg_pos. cbn [fst snd]. rewrite Hlt. split; [nia|].
    unfold composite, native_pixel.
    rewrite (nth_flat_block _ bps) by (intros; try apply be_bytes_length; lia).
    rewrite (nth_flat_block _ bps) by (intros; try apply le_bytes_length; lia).
    unfold be_bytes. rewrite rev_nth by (rewrite le_bytes_length; lia).
    rewrite le_bytes_length. f_equal. lia.
  - intros j Hj. left. rewrite Hlt in Hj. apply in_map_iff.
    exists (seg_pos bps ((j / bps)%nat, (bps - 1 - j mod bps)%nat), nth ((j / bps) * bps + (bps - 1 - j mod bps)) (composite bps px) 0).
    split.
    + unfold seg_pos. cbn [fst snd].
      pose proof (Nat.div_mod j bps ltac:(lia)). pose proof (Nat.mod_upper_bound j bps ltac:(lia)). nia.
    + apply in_map_iff. exists ((j / bps)%nat, (bps - 1 - j mod bps)%nat). split; [reflexivity|].
      apply in_sb_list. split; [apply Nat.div_lt_upper_bound; nia|].
      pose proof (Nat.mod_upper_bound j bps ltac:(lia)). lia.
Qed.

Lemma steps_of_cons bps px pxs sbs :
  heads_tails (steps_of bps (px :: pxs) sbs) = steps_of bps pxs sbs.
Proof. unfold heads_tails, steps_of. rewrite map_map. reflexivity. Qed.

Lemma steps_of_heads bps px pxs sbs c :
  fold_left (fun c ps => upd c (fst ps) (hd 0 (snd ps))) (steps_of bps (px :: pxs) sbs) c
  = fold_left (fun c ps => upd c (fst ps) (hd 0 (snd ps))) (steps_of bps [px] sbs) c.
Proof. unfold steps_of. rewrite !fold_left_map. reflexivity. Qed.

Lemma run_frame bps spp pixels :
  (1 <= bps)%nat -> wf_frame spp pixels ->
  run (steps_of bps pixels (sb_list spp bps)) (bps * spp) (length pixels * (bps * spp))
      (repeat 0 (length pixels * (bps * spp)))
  = Ok (native_frame bps pixels).
Proof.
  intros Hb. induction 1 as [|px pxs Hpx _ IH].
  - cbn [length Nat.mul repeat]. apply run_empty.
  - cbn [length Nat.mul]. rewrite repeat_app.
    rewrite (run_cons _ (repeat 0 (bps * spp)) _ (length pxs) (native_frame bps pxs)).
    + rewrite steps_of_heads, chunk_final by assumption. reflexivity.
    + apply repeat_length.
    + unfold steps_of. apply Forall_forall. intros ps Hin.
      apply in_map_iff in Hin as ([s b] & <- & Hsb). apply in_sb_list in Hsb as [Hs Hbb].
      unfold seg_pos. cbn [fst snd byte_segment map]. split; [nia|discriminate].
    + rewrite steps_of_cons. exact IH.
Qed.

Lemma decode_into_annexg rows cols bps spp pixels frag :
  (1 <= bps)%nat -> (1 <= spp * bps <= 15)%nat -> (rows * cols)%nat = length pixels ->
  wf_frame spp pixels -> annexg_enc bps spp pixels frag -> len frag < 2 ^ 32 ->
  decode_into rows cols spp bps frag 0 (repeat 0 (bps * cols * rows * spp)) = Ok (native_frame bps pixels).
Proof.
  intros Hb Hc Hrc Hwf Henc Hlen. destruct Henc as [encs Henc].
  unfold decode_into. rewrite read_rle_header_fragment;
    [|rewrite (segs_length bps spp pixels encs Henc); lia|exact Hlen]. cbn [bind].
  rewrite Hrc. cbn [Nat.add].
  rewrite (fold_step_sb bps spp pixels encs Hc Henc Hlen) by (intros s b H; apply in_sb_list; exact H).
  replace (bps * cols * rows * spp)%nat with (length pixels * (bps * spp))%nat by (rewrite <- Hrc; nia).
  apply run_frame; assumption.
Qed.

(** * 6. object level: decode_frame, and decode = concatenation of frames *)
Lemma decode_frame_annexg o f bps spp pixels frag :
  o_bits o = 8 * N.of_nat bps -> (bps = 1 \/ bps = 2)%nat -> o_spp o = N.of_nat spp ->
  (1 <= spp * bps <= 15)%nat ->
  (N.to_nat (o_rows o) * N.to_nat (o_cols o))%nat = length pixels -> wf_frame spp pixels ->
  nth_error (o_frags o) (N.to_nat f) = Some frag ->
  annexg_enc bps spp pixels frag -> len frag < 2 ^ 32 ->
  decode_frame o f = Ok (native_frame bps pixels).
Proof.
  intros Hbits Hb Hspp Hc Hrc Hwf Hn Henc Hlen.
  unfold decode_frame, frame_size_of.
  assert (Hok : bits_ok (o_bits o) = true) by (rewrite Hbits; destruct Hb as [-> | ->]; reflexivity).
  rewrite Hok. cbn [negb].
  assert (Hf : (N.to_nat f < length (o_frags o))%nat) by (apply nth_error_Some; congruence).
  destruct (N.of_nat (length (o_frags o)) <=? f) eqn:E; [lia|].
  rewrite Hn.
  replace (N.to_nat (o_bits o / 8)) with bps by (rewrite Hbits; destruct Hb as [-> | ->]; reflexivity).
  rewrite Hspp, Nat2N.id.
  apply decode_into_annexg; try assumption. lia.
Qed.

Lemma fold_step_sb_local frag offs npix bps spp fs A C sbs : forall acc,
  (forall z, acc = Ok z -> length z = fs) ->
  fold_left (step_sb frag offs npix bps spp (length A) fs) sbs (omap (fun z => A ++ z ++ C) acc)
  = omap (fun z => A ++ z ++ C) (fold_left (step_sb frag offs npix bps spp 0 fs) sbs acc)
  /\ (forall z, fold_left (step_sb frag offs npix bps spp 0 fs) sbs acc = Ok z -> length z = fs).
Proof.
  induction sbs as [|sb sbs IH]; intros acc Hacc; [split; [reflexivity|exact Hacc]|].
  cbn [fold_left].
  assert (E : step_sb frag offs npix bps spp (length A) fs (omap (fun z => A ++ z ++ C) acc) sb
              = omap (fun z => A ++ z ++ C) (step_sb frag offs npix bps spp 0 fs acc sb)).
  { unfold step_sb. destruct acc as [z| |]; [|reflexivity..]. cbn [omap bind].
    destruct (decoded_segment frag offs npix bps sb) as [ds| |]; [|reflexivity..]. cbn [bind Nat.add].
    rewrite place_shift, place_suffix by (rewrite (Hacc z eq_refl); lia).
    destruct (place ds (seg_pos bps sb) (bps * spp) fs z); reflexivity. }
  rewrite E. apply IH.
  intros z' Hz'. unfold step_sb in Hz'. destruct acc as [z| |]; [|discriminate..]. cbn [bind Nat.add] in Hz'.
  destruct (decoded_segment frag offs npix bps sb) as [ds| |]; [|discriminate..]. cbn [bind] in Hz'.
  apply place_length in Hz'; [|rewrite (Hacc z eq_refl); lia]. rewrite Hz'. apply Hacc. reflexivity.
Qed.

Lemma decode_into_local rows cols spp bps frag A Z C :
  length Z = (bps * cols * rows * spp)%nat ->
  decode_into rows cols spp bps frag (length A) (A ++ Z ++ C)
  = omap (fun z => A ++ z ++ C) (decode_into rows cols spp bps frag 0 Z)
  /\ (forall z, decode_into rows cols spp bps frag 0 Z = Ok z -> length z = length Z).
Proof.
  intros HZ. unfold decode_into. destruct (read_rle_header frag) as [hdr| |]; [|split; [reflexivity|discriminate]..].
  cbn [bind]. rewrite HZ.
  apply (fold_step_sb_local frag _ (rows * cols) bps spp _ A C (sb_list spp bps) (Ok Z)).
  intros z E; injection E as <-. exact HZ.
Qed.

Definition dims_into (o : rle_obj) (frag : bytes) : outcome bytes :=
  decode_into (N.to_nat (o_rows o)) (N.to_nat (o_cols o)) (N.to_nat (o_spp o)) (N.to_nat (o_bits o / 8))
              frag 0 (repeat 0 (frame_size_of o)).

Lemma decode_loop_fail o frags : forall i acc, is_ok acc = false -> decode_loop o frags i acc = acc.
Proof.
  induction frags as [|frag rest IH]; intros i acc H; [reflexivity|].
  cbn [decode_loop]. destruct acc; [discriminate|..]; cbn [bind]; apply IH; reflexivity.
Qed.

Lemma decode_loop_spec o frags : forall i A,
  length A = (i * frame_size_of o)%nat ->
  decode_loop o frags i (Ok (A ++ repeat 0 (frame_size_of o * length frags)))
  = r <- concat_frames (map (dims_into o) frags) ;; Ok (A ++ r).
Proof.
  induction frags as [|frag rest IH]; intros i A HA.
  - cbn [length]. rewrite Nat.mul_0_r. reflexivity.
  - cbn [decode_loop length map concat_frames bind].
    replace (frame_size_of o * S (length rest))%nat with (frame_size_of o + frame_size_of o * length rest)%nat by lia.
    rewrite repeat_app, <- HA.
    destruct (decode_into_local (N.to_nat (o_rows o)) (N.to_nat (o_cols o)) (N.to_nat (o_spp o))
                (N.to_nat (o_bits o / 8)) frag A (repeat 0 (frame_size_of o))
                (repeat 0 (frame_size_of o * length rest))) as [E Hl];
      [rewrite repeat_length; reflexivity|].
    rewrite E. fold (dims_into o frag) in *.
    destruct (dims_into o frag) as [z| |] eqn:Ez; cbn [omap bind].
    + specialize (Hl z eq_refl). rewrite repeat_length in Hl.
      rewrite app_assoc. rewrite (IH (S i) (A ++ z)) by (rewrite app_length, Hl, HA; lia).
      destruct (concat_frames (map (dims_into o) rest)); cbn [bind]; [rewrite app_assoc|..]; reflexivity.
    + apply decode_loop_fail. reflexivity.
    + apply decode_loop_fail. reflexivity.
Qed.

Lemma map_seq_nth_error {A B} (l : list A) : forall (F : nat -> B) (G : A -> B),
  (forall j a, nth_error l j = Some a -> F j = G a) ->
  map F (seq 0 (length l)) = map G l.
Proof.
  induction l as [|x l IH]; intros F G H; [reflexivity|].
  cbn [length seq map]. rewrite (H 0%nat x eq_refl). f_equal.
  rewrite <- seq_shift, map_map. apply IH. intros j a Hj. apply (H (S j) a). exact Hj.
Qed.

Lemma decode_concat o :
  bits_ok (o_bits o) = true ->
  decode o = concat_frames (map (decode_frame o) (frame_indices o)).
Proof.
  intros Hok. unfold decode, frame_indices. rewrite Hok. cbn [negb].
  rewrite map_map.
  rewrite (map_seq_nth_error (o_frags o) (fun j => decode_frame o (N.of_nat j)) (dims_into o)).
  - pose proof (decode_loop_spec o (o_frags o) 0 [] eq_refl) as E. cbn [app] in E. rewrite E.
    destruct (concat_frames (map (dims_into o) (o_frags o))); reflexivity.
  - intros j a Hj. unfold decode_frame. rewrite Hok. cbn [negb].
    assert ((j < length (o_frags o))%nat) by (apply nth_error_Some; congruence).
    destruct (N.of_nat (length (o_frags o)) <=? N.of_nat j) eqn:E; [lia|].
    rewrite Nat2N.id, Hj. reflexivity.
Qed.

Lemma concat_frames_ok {A} (g : A -> bytes) l :
  concat_frames (map (fun x => Ok (g x)) l) = Ok (concat (map g l)).
Proof. induction l as [|x l IH]; [reflexivity|]. cbn [map concat_frames bind concat]. rewrite IH. reflexivity. Qed.

(** every fragment is an Annex G encoding of the corresponding frame *)
Definition encodes (o : rle_obj) (bps spp : nat) (pixels : list (list N)) (frag : bytes) : Prop :=
  (N.to_nat (o_rows o) * N.to_nat (o_cols o))%nat = length pixels /\ wf_frame spp pixels /\
  annexg_enc bps spp pixels frag /\ len frag < 2 ^ 32.

Lemma decode_whole_annexg o bps spp frames :
  o_bits o = 8 * N.of_nat bps -> (bps = 1 \/ bps = 2)%nat -> o_spp o = N.of_nat spp ->
  (1 <= spp * bps <= 15)%nat ->
  Forall2 (encodes o bps spp) frames (o_frags o) ->
  decode o = Ok (concat (map (native_frame bps) frames)).
Proof.
  intros Hbits Hb Hspp Hc HF.
  rewrite decode_concat by (rewrite Hbits; destruct Hb as [-> | ->]; reflexivity).
  unfold frame_indices. rewrite map_map, <- (Forall2_length' _ _ _ HF).
  rewrite (map_seq_nth_error frames (fun j => decode_frame o (N.of_nat j)) (fun px => Ok (native_frame bps px))).
  - apply concat_frames_ok.
  - intros j px Hj. destruct (Forall2_nth_error _ _ _ HF j px Hj) as (frag & Hn & H1 & H2 & H3 & H4).
    apply (decode_frame_annexg o (N.of_nat j) bps spp px frag); try assumption.
    rewrite Nat2N.id. exact Hn.
Qed.
