(** The independent structural validator accepts the writer's output for
    nested data sets under EITHER strategy (defined lengths kept by NoChange
    included). Generalises Proofs/ValidTreeP.v. *)
From Coq Require Import ZifyBool ZifyNat ZifyN.
From DicomV Require Import Base.Endian Model.Vr Model.Header Model.Prim Model.Dataset Model.Writer Spec.Ps35
  Proofs.HeaderP Proofs.PrimP Proofs.WriterP Proofs.ValidP Proofs.FlatP Proofs.TotalP Proofs.NestedP Proofs.NestedGP
  Proofs.ValidTreeP.
Open Scope N_scope.

Definition vlen_ok (L : N) : Prop := L = undef \/ (L < 4294967295 /\ L mod 2 = 0).

Inductive vable_g (c : codec) (is_sq : tag -> bool) (nc : bool) : elem -> Prop :=
| VgPrim t v l p : elem_ok c is_sq (EPrim t v l p) -> vable_g c is_sq nc (EPrim t v l p)
| VgSeq t l its :
    wf_tag t -> fst t <> 65534 -> (c = ILE -> is_sq t = true) -> vlen_ok (wl nc l) ->
    (forall f body, enc_items_g f c nc its = Ok body -> wl nc l = undef \/ wl nc l = blen body) ->
    Forall (fun it : item =>
              vlen_ok (wl nc (fst it)) /\
              (forall f body, enc_trees_g f c nc (snd it) = Ok body -> wl nc (fst it) = undef \/ wl nc (fst it) = blen body) /\
              Forall (vable_g c is_sq nc) (snd it)) its ->
    vable_g c is_sq nc (ESeq t SQ l its)
| VgPix ot frags :
    (c = ILE -> is_sq pixel_tag = false) -> nlen ot < 1073741824 ->
    Forall (fun f : bytes => blen f < 4294967294) frags -> vable_g c is_sq nc (EPix pixel_tag OB undef ot frags).

(** one step of [v_elems] on a sequence element with a defined (even) length *)
Lemma v_elems_seq_def f c is_sq u t L body rest :
  swf_tag t -> fst t <> 65534 -> (c = ILE -> is_sq t = true) ->
  L < 4294967295 -> L mod 2 = 0 -> L = blen body ->
  v_elems (S f) c is_sq u (ps35_header c t SQ L ++ body ++ rest) =
  match v_items_g (v_elems f c is_sq) c (S f) false body with
  | Some _ => v_elems f c is_sq u rest
  | None => None
  end.
Proof.
  intros Ht Hg Hi HL Ev Hb. cbn [v_elems].
  destruct (ps35_header c t SQ L ++ body ++ rest) as [|x0 b0] eqn:EB.
  { exfalso. apply (ps35_header_nonnil _ _ _ _ _ EB). }
  rewrite <- EB. clear EB x0 b0.
  rewrite ps35_parse_item_elem by assumption.
  rewrite ps35_parse_header_layout; [| exact Ht | lia | intros _ Hs; discriminate Hs].
  assert (Hsq : match c with ILE => is_sq t | _ => vr_eqb SQ SQ end = true)
    by (destruct c; [apply Hi; reflexivity | reflexivity | reflexivity]).
  rewrite Hsq. cbn [negb]. rewrite !andb_false_r. cbn [orb].
  replace (L =? undefined_length) with false by (symmetry; apply N.eqb_neq; unfold undefined_length; lia).
  unfold is_even. rewrite Ev. cbn [N.eqb negb].
  replace (N.to_nat L) with (length body) by (rewrite Hb; unfold blen; lia).
  rewrite ps35_take_app by reflexivity. reflexivity.
Qed.

Lemma v_items_item_def ve c g n bd r :
  n < 4294967295 -> n mod 2 = 0 -> n = blen bd ->
  v_items_g ve c (S g) false (ps35_item_header c n ++ bd ++ r) =
  match ve false bd with Some _ => v_items_g ve c g false r | None => None end.
Proof.
  intros Hn Ev Hb. cbn [v_items_g]. rewrite ps35_parse_item_item by lia.
  replace (n =? undefined_length) with false by (symmetry; apply N.eqb_neq; unfold undefined_length; lia).
  unfold is_even. rewrite Ev. cbn [N.eqb negb].
  replace (N.to_nat n) with (length bd) by (rewrite Hb; unfold blen; lia).
  rewrite ps35_take_app by reflexivity.
  destruct (ps35_item_header c n ++ bd ++ r) as [|x0 b0] eqn:EB; [|reflexivity].
  exfalso. apply (ps35_item_header_nonnil _ _ _ EB).
Qed.
Lemma v_items_item_def_u ve c g n bd r :
  n < 4294967295 -> n mod 2 = 0 -> n = blen bd ->
  v_items_g ve c (S g) true (ps35_item_header c n ++ bd ++ r) =
  match ve false bd with Some _ => v_items_g ve c g true r | None => None end.
Proof.
  intros Hn Ev Hb. cbn [v_items_g]. rewrite ps35_parse_item_item by lia.
  replace (n =? undefined_length) with false by (symmetry; apply N.eqb_neq; unfold undefined_length; lia).
  unfold is_even. rewrite Ev. cbn [N.eqb negb].
  replace (N.to_nat n) with (length bd) by (rewrite Hb; unfold blen; lia).
  rewrite ps35_take_app by reflexivity.
  destruct (ps35_item_header c n ++ bd ++ r) as [|x0 b0] eqn:EB; [|reflexivity].
  exfalso. apply (ps35_item_header_nonnil _ _ _ EB).
Qed.
Lemma v_items_item_u_f ve c g r :
  v_items_g ve c (S g) false (ps35_item_header c undefined_length ++ r) =
  match ve true r with Some r' => v_items_g ve c g false r' | None => None end.
Proof.
  cbn [v_items_g]. rewrite ps35_parse_item_item by (unfold undefined_length; lia). rewrite N.eqb_refl.
  destruct (ps35_item_header c undefined_length ++ r) as [|x0 b0] eqn:EB; [|reflexivity].
  exfalso. apply (ps35_item_header_nonnil _ _ _ EB).
Qed.
Lemma v_items_end_def ve c g : v_items_g ve c (S g) false [] = Some [].
Proof. reflexivity. Qed.

Definition valid_ok_g (c : codec) (is_sq : tag -> bool) (nc : bool) (e : elem) : Prop :=
  forall f b, enc_tree_g f c nc e = Ok b ->
  (elem_size e <= length b)%nat /\
  forall fuel u rest, (elem_size e < fuel)%nat ->
    v_elems fuel c is_sq u (b ++ rest) = v_elems (fuel - 1) c is_sq u rest.

Lemma valid_elems_g c is_sq nc es : forall f b,
  Forall (valid_ok_g c is_sq nc) es -> enc_trees_g f c nc es = Ok b ->
  (elems_size es <= length b)%nat /\
  forall fuel u rest, (elems_size es < fuel)%nat ->
    v_elems fuel c is_sq u (b ++ rest) = v_elems (fuel - length es) c is_sq u rest.
Proof.
  induction es as [|e es IH]; intros f b H E.
  - cbn in E. inversion E; subst b. split; [cbn; lia|]. intros fuel u rest F. cbn. rewrite Nat.sub_0_r. reflexivity.
  - inversion H as [|? ? He Hes]; subst. cbn [enc_trees_g] in E.
    apply obind_ok' in E. destruct E as (b1 & E1 & E). apply obind_ok' in E. destruct E as (b2 & E2 & E).
    inversion E; subst b. destruct (He f b1 E1) as [L1 R1]. destruct (IH f b2 Hes E2) as [L2 R2].
    cbn [elems_size]. split; [rewrite app_length; lia|].
    intros fuel u rest F. rewrite <- app_assoc.
    assert (1 <= elem_size e)%nat by (destruct e; cbn; lia).
    rewrite R1 by lia. rewrite R2 by lia. cbn [length]. f_equal. lia.
Qed.

Definition vitem_cond (c : codec) (is_sq : tag -> bool) (nc : bool) (it : item) : Prop :=
  vlen_ok (wl nc (fst it)) /\
  (forall f body, enc_trees_g f c nc (snd it) = Ok body -> wl nc (fst it) = undef \/ wl nc (fst it) = blen body) /\
  Forall (valid_ok_g c is_sq nc) (snd it).

Lemma st_item_header_ok' c L : vlen_ok L -> st_enc_item_header c L = ps35_item_header c L.
Proof.
  intros [-> | [H E]]; [|apply st_item_header_even'; assumption].
  unfold st_enc_item_header. cbn [N.eqb undef]. rewrite N.eqb_refl. apply enc_item_header_ps35.
Qed.

(* the item loop on the items of a sequence: [useq] = the sequence has undefined length *)
Lemma valid_items_g c is_sq nc its : forall f body fv g (useq : bool) tail,
  Forall (vitem_cond c is_sq nc) its -> enc_items_g f c nc its = Ok body ->
  (items_size its <= length body)%nat /\
  ((items_size its < fv)%nat -> (length its < g)%nat ->
   v_items_g (v_elems fv c is_sq) c g useq (body ++ (if useq then ps35_seq_delim c ++ tail else []))
   = Some (if useq then tail else [])).
Proof.
  induction its as [|[n es] its IH]; intros f body fv g useq tail H E.
  - cbn in E. inversion E; subst body. split; [cbn; lia|]. intros _ G. destruct g; [lia|].
    cbn [app]. destruct useq; [apply v_items_end | reflexivity].
  - inversion H as [|? ? (Hlen & Hcorr & Hes) Hits]; subst. cbn [fst snd] in *. cbn [enc_items_g] in E.
    apply obind_ok' in E. destruct E as (bd & E1 & E). apply obind_ok' in E. destruct E as (r & E2 & E).
    inversion E; subst body. clear E.
    destruct (valid_elems_g c is_sq nc es f bd Hes E1) as [L1 R1].
    destruct (IH f r fv (pred g) useq tail Hits E2) as [L2 R2].
    set (N' := wl nc n) in *.
    cbn [items_size]. split.
    { rewrite !app_length. unfold st_enc_item_header, enc_item_header.
      rewrite !app_length, !u16_length, u32_length. cbn [length]. lia. }
    intros Fv G. destruct g as [|g]; [cbn in G; lia|]. cbn [pred] in R2. cbn [items_size] in Fv.
    rewrite (st_item_header_ok' c N' Hlen). rewrite <- !List.app_assoc.
    pose proof (elems_size_ge es) as Ge.
    destruct (N.eq_dec N' undef) as [EU | NU].
    + rewrite EU. change (undef =? undef) with true. cbv iota. rewrite enc_item_delim_ps35, <- ?app_assoc.
      change undef with undefined_length.
      assert (Step : v_items_g (v_elems fv c is_sq) c (S g) useq
                       (ps35_item_header c undefined_length ++ bd ++ ps35_item_delim c ++ r ++ (if useq then ps35_seq_delim c ++ tail else []))
                     = match v_elems fv c is_sq true (bd ++ ps35_item_delim c ++ r ++ (if useq then ps35_seq_delim c ++ tail else [])) with
                       | Some r' => v_items_g (v_elems fv c is_sq) c g useq r' | None => None end)
        by (destruct useq; [apply v_items_item | apply v_items_item_u_f]).
      rewrite Step, R1 by lia.
      destruct (fv - length es)%nat as [|fv'] eqn:Ef; [lia|].
      rewrite v_elems_item_end. apply R2; [lia | cbn in G; lia].
    + replace (N' =? undef) with false by (symmetry; apply N.eqb_neq; exact NU). cbv iota. cbn [app].
      assert (HNb : N' = blen bd) by (destruct (Hcorr f bd E1); [congruence | assumption]).
      destruct Hlen as [Hl | [Hl Ev]]; [congruence|].
      assert (Step : v_items_g (v_elems fv c is_sq) c (S g) useq
                       (ps35_item_header c N' ++ bd ++ r ++ (if useq then ps35_seq_delim c ++ tail else []))
                     = match v_elems fv c is_sq false bd with
                       | Some _ => v_items_g (v_elems fv c is_sq) c g useq (r ++ (if useq then ps35_seq_delim c ++ tail else []))
                       | None => None end)
        by (destruct useq; [apply v_items_item_def_u | apply v_items_item_def]; assumption).
      rewrite Step. rewrite <- (List.app_nil_r bd) at 1. rewrite R1 by lia.
      destruct (fv - length es)%nat as [|fv'] eqn:Ef; [lia|]. cbn [v_elems].
      apply R2; [lia | cbn in G; lia].
Qed.

Lemma st_seq_header_ok' c t L : vlen_ok L -> st_enc_header c t SQ L = Ok (ps35_header c t SQ L).
Proof.
  intros [-> | [H E]]; [apply st_enc_header_undef_sq|].
  apply st_enc_header_defined; [exact H | exact E | intros _ Hs; discriminate Hs].
Qed.

Lemma vable_valid_ok_g c is_sq nc : forall e, vable_g c is_sq nc e -> valid_ok_g c is_sq nc e.
Proof.
  apply (elem_ind_nested (fun e => vable_g c is_sq nc e -> valid_ok_g c is_sq nc e)).
  - intros t v l p V f b E. inversion V as [? ? ? ? Hok| |]; subst.
    destruct f as [|f]; [cbn in E; discriminate|]. cbn [enc_tree_g] in E.
    destruct (written_prim_ok c is_sq t v l p b Hok E) as (val & -> & Hc).
    split.
    { cbn [elem_size]. rewrite app_length. destruct (ps35_header_starts c t v (ps35_len val)) as [tl [Eh Lh]].
      rewrite Eh, app_length, ps35_u16_length. lia. }
    intros fuel u rest F. destruct fuel as [|fuel]; [lia|]. rewrite <- app_assoc.
    rewrite v_elems_prim by exact Hc. replace (S fuel - 1)%nat with fuel by lia. reflexivity.
  - intros t v l ot fr V f b E. inversion V as [| |? ? Hi Hn Hfr]; subst.
    destruct f as [|f]; [cbn in E; discriminate|]. cbn [enc_tree_g] in E. unfold enc_pix in E.
    rewrite st_enc_header_undef_ob in E. cbn [obind] in E. inversion E; subst b. clear E.
    rewrite (app_assoc (match ot with [] => _ | _ => _ end)), pix_body_chunks, enc_seq_delim_ps35 by assumption.
    pose proof (pix_chunks_ok c ot fr Hn Hfr) as Hc.
    assert (Lc : length (pix_chunks c ot fr) = S (length fr)) by (unfold pix_chunks; cbn [length]; rewrite map_length; reflexivity).
    split.
    { cbn [elem_size]. rewrite !app_length.
      assert (B : (length (pix_chunks c ot fr) * 8 <= length (flat_map (chunk_item c) (pix_chunks c ot fr)))%nat).
      { generalize (pix_chunks c ot fr). intros l0. induction l0 as [|x l0 IHl]; [cbn; lia|].
        cbn [flat_map length]. unfold chunk_item at 1. rewrite !app_length, ps35_item_header_len. lia. }
      lia. }
    intros fuel u rest F. destruct fuel as [|fuel]; [lia|]. cbn [elem_size] in F. rewrite <- !app_assoc.
    change undef with undefined_length.
    rewrite v_elems_pix by (assumption || lia). replace (S fuel - 1)%nat with fuel by lia. reflexivity.
  - intros t v l its IH V f b E. inversion V as [|? ? ? Htag Hgrp Hi HL Hcorr Hits|]; subst.
    assert (A : Forall (vitem_cond c is_sq nc) its).
    { clear V E Hcorr. induction its as [|it its IHi]; [constructor|].
      inversion IH as [|? ? I1 I2]; inversion Hits as [|? ? (J0 & Jc & J1) J2]; subst. constructor.
      - split; [exact J0|]. split; [exact Jc|]. clear IHi I2 J2 J0 Jc. induction (snd it) as [|x xs IHx]; [constructor|].
        inversion I1; inversion J1; subst. constructor; [auto | auto].
      - apply IHi; assumption. }
    destruct f as [|f]; [cbn in E; discriminate|]. rewrite enc_tree_g_seq, (st_seq_header_ok' c t _ HL) in E.
    cbn [obind] in E. apply obind_ok' in E. destruct E as (body & E1 & E). inversion E; subst b. clear E.
    set (L := wl nc l) in *.
    assert (Li : (length its <= items_size its)%nat).
    { clear. induction its as [|[n es] its IHl]; [cbn; lia|]. cbn [items_size length]. lia. }
    rewrite elem_size_seq. split.
    { destruct (valid_items_g c is_sq nc its f body 0 0 true [] A E1) as [L1 _].
      rewrite !app_length. destruct (ps35_header_starts c t SQ L) as [tl [Eh Lh]].
      rewrite Eh, app_length, ps35_u16_length. lia. }
    intros fuel u rest F. destruct fuel as [|fuel]; [lia|]. rewrite <- !app_assoc.
    replace (S fuel - 1)%nat with fuel by lia.
    destruct (N.eq_dec L undef) as [EU | NU].
    + rewrite EU. change (undef =? undef) with true. cbv iota. rewrite enc_seq_delim_ps35. change undef with undefined_length.
      rewrite v_elems_seq by assumption.
      destruct (valid_items_g c is_sq nc its f body fuel (S fuel) true rest A E1) as [L1 R1].
      cbv iota in R1. rewrite R1 by lia. reflexivity.
    + replace (L =? undef) with false by (symmetry; apply N.eqb_neq; exact NU). cbv iota. cbn [app].
      assert (HLb : L = blen body) by (destruct (Hcorr f body E1); [congruence | assumption]).
      destruct HL as [Hl | [Hl Ev]]; [congruence|].
      rewrite (v_elems_seq_def fuel c is_sq u t L body rest Htag Hgrp Hi Hl Ev HLb).
      destruct (valid_items_g c is_sq nc its f body fuel (S fuel) false [] A E1) as [L1 R1].
      cbv iota in R1. rewrite List.app_nil_r in R1. rewrite R1 by lia. reflexivity.
Qed.

Lemma vable_g_regular c is_sq nc : forall e, vable_g c is_sq nc e -> regular e.
Proof.
  apply (elem_ind_nested (fun e => vable_g c is_sq nc e -> regular e)).
  - intros t v l p V. inversion V as [? ? ? ? Hok| |]; subst. constructor. exact (proj1 Hok).
  - intros t v l ot fr V. inversion V as [| |? ? _ Hn Hfr]; subst. constructor; [|exact Hn].
    eapply Forall_impl; [|exact Hfr]. cbn. intros f Hf. lia.
  - intros t v l its IH V. inversion V as [|? ? ? _ _ _ _ _ Hits|]; subst. constructor.
    clear V. induction its as [|it its IHi]; [constructor|].
    inversion IH as [|? ? I1 I2]; inversion Hits as [|? ? (_ & _ & J1) J2]; subst. constructor.
    + clear IHi I2 J2. induction (snd it) as [|x xs IHx]; [constructor|].
      inversion I1; inversion J1; subst. constructor; [auto | auto].
    + apply IHi; assumption.
Qed.

(** V (general): the validator accepts what the writer produced, either strategy. *)
Lemma write_tree_valid_g c is_sq nc es b :
  Forall (vable_g c is_sq nc) es ->
  write_dataset c nc false es = Ok b -> ps35_valid c is_sq b = true.
Proof.
  intros V W.
  rewrite write_dataset_nested_g in W by (eapply Forall_impl; [apply (vable_g_regular c is_sq nc) | exact V]).
  assert (A : Forall (valid_ok_g c is_sq nc) es) by (eapply Forall_impl; [apply vable_valid_ok_g | exact V]).
  destruct (valid_elems_g c is_sq nc es _ b A W) as [L Rv].
  unfold ps35_valid. rewrite <- (List.app_nil_r b) at 2. rewrite Rv by lia.
  pose proof (elems_size_ge es). destruct (S (length b) - length es)%nat eqn:E; [lia|]. reflexivity.
Qed.
