(** Lemmas about the binary64 arithmetic of Model/Lut.v (C22, float part).

    Primitive floats are related to Flocq's [binary_float prec emax] by
    [Prim2B] (Flocq.IEEE754.PrimFloat; this is where the axioms of
    Coq.Floats.FloatAxioms enter) and from there to the reals by [B2R].
    All reasoning is by monotonicity of rounding to nearest even: a rounded
    result lies between any two representable bounds of the exact result. *)
From Coq Require Import Reals Floats ZArith Lia Lra.
From Flocq Require Import Core.Core IEEE754.BinarySingleNaN IEEE754.PrimFloat.
From DicomV Require Import Base.Prelude Model.Lut.

Local Open Scope R_scope.

Notation pfloat := Floats.PrimFloat.float.
Local Existing Instance Hprec.
Local Existing Instance Hmax.

Definition fR (x : pfloat) : R := B2R (Prim2B x).
Definition ffin (x : pfloat) : Prop := is_finite (Prim2B x) = true.
Notation fexp64 := (FLT_exp (3 - emax - prec) prec).
Notation rnd := (round radix2 fexp64 ZnearestE).
Notation fmt := (generic_format radix2 fexp64).
Notation MAXP := (bpow radix2 emax).

(** ** primitive operations in terms of the reals *)
Lemma fR_format x : fmt (fR x).
Proof. apply generic_format_B2R. Qed.

Lemma fR_lt_emax x : Rabs (fR x) < MAXP.
Proof. apply abs_B2R_lt_emax. Qed.

Lemma overflow_not_finite (z : binary_float prec emax) s :
  B2SF z = binary_overflow prec emax mode_NE s -> is_finite z = false.
Proof. unfold binary_overflow; cbn. destruct z; cbn; intros H; try reflexivity; discriminate. Qed.

Lemma add_bounded x y : ffin x -> ffin y -> Rabs (rnd (fR x + fR y)) < MAXP ->
  ffin (x + y) /\ fR (x + y) = rnd (fR x + fR y).
Proof.
  intros Fx Fy Hb. unfold ffin, fR. rewrite add_equiv.
  generalize (Bplus_correct prec emax Hprec Hmax mode_NE (Prim2B x) (Prim2B y) Fx Fy).
  cbn [round_mode]. rewrite Rlt_bool_true by exact Hb. intros (H1 & H2 & _). split; assumption.
Qed.

Lemma sub_bounded x y : ffin x -> ffin y -> Rabs (rnd (fR x - fR y)) < MAXP ->
  ffin (x - y) /\ fR (x - y) = rnd (fR x - fR y).
Proof.
  intros Fx Fy Hb. unfold ffin, fR. rewrite sub_equiv.
  generalize (Bminus_correct prec emax Hprec Hmax mode_NE (Prim2B x) (Prim2B y) Fx Fy).
  cbn [round_mode]. rewrite Rlt_bool_true by exact Hb. intros (H1 & H2 & _). split; assumption.
Qed.

Lemma mul_bounded x y : ffin x -> ffin y -> Rabs (rnd (fR x * fR y)) < MAXP ->
  ffin (x * y) /\ fR (x * y) = rnd (fR x * fR y).
Proof.
  intros Fx Fy Hb. unfold ffin, fR in *. rewrite mul_equiv.
  generalize (Bmult_correct prec emax Hprec Hmax mode_NE (Prim2B x) (Prim2B y)).
  cbn [round_mode]. rewrite Rlt_bool_true by exact Hb. intros (H1 & H2 & _).
  rewrite H2, Fx, Fy. split; [reflexivity | exact H1].
Qed.

Lemma div_bounded x y : ffin x -> fR y <> 0 -> Rabs (rnd (fR x / fR y)) < MAXP ->
  ffin (x / y) /\ fR (x / y) = rnd (fR x / fR y).
Proof.
  intros Fx Ny Hb. unfold ffin, fR in *. rewrite div_equiv.
  generalize (Bdiv_correct prec emax Hprec Hmax mode_NE (Prim2B x) (Prim2B y) Ny).
  cbn [round_mode]. rewrite Rlt_bool_true by exact Hb. intros (H1 & H2 & _).
  rewrite H2. split; [exact Fx | exact H1].
Qed.

(** when the result is known to be finite (no overflow happened) *)
Lemma add_fin x y : ffin x -> ffin y -> ffin (x + y) -> fR (x + y) = rnd (fR x + fR y).
Proof.
  intros Fx Fy Fr. unfold ffin, fR in *. rewrite add_equiv in *.
  generalize (Bplus_correct prec emax Hprec Hmax mode_NE (Prim2B x) (Prim2B y) Fx Fy).
  cbn [round_mode]. destruct (Rlt_bool _ _).
  - intros (H1 & _). exact H1.
  - intros (H & _). apply overflow_not_finite in H. congruence.
Qed.

Lemma mul_fin x y : ffin (x * y) -> fR (x * y) = rnd (fR x * fR y) /\ ffin x /\ ffin y.
Proof.
  intros Fr. unfold ffin, fR in *. rewrite mul_equiv in *.
  generalize (Bmult_correct prec emax Hprec Hmax mode_NE (Prim2B x) (Prim2B y)).
  cbn [round_mode]. destruct (Rlt_bool _ _).
  - intros (H1 & H2 & _). rewrite Fr in H2. symmetry in H2. apply andb_prop in H2. tauto.
  - intros H. apply overflow_not_finite in H. congruence.
Qed.

Lemma add_fin_args x y : ffin (x + y) -> ffin x /\ ffin y.
Proof.
  unfold ffin. rewrite add_equiv.
  destruct (Prim2B x) as [sx|sx| |sx mx ex Hx], (Prim2B y) as [sy|sy| |sy my ey Hy]; cbn; try tauto;
    try discriminate; destruct sx, sy; cbn; intros; try tauto; discriminate.
Qed.

Lemma leb_R x y : ffin x -> ffin y -> (x <=? y)%float = Rle_bool (fR x) (fR y).
Proof. intros Fx Fy. rewrite leb_equiv. now apply Bleb_correct. Qed.

Lemma ltb_R x y : ffin x -> ffin y -> (x <? y)%float = Rlt_bool (fR x) (fR y).
Proof. intros Fx Fy. rewrite ltb_equiv. now apply Bltb_correct. Qed.

(** ** values of literals, through [Prim2SF] *)
Lemma fR_SF x : fR x = SF2R radix2 (Prim2SF x).
Proof. unfold fR, Prim2B. apply B2R_SF2B. Qed.

Lemma ffin_SF x : is_finite_SF (Prim2SF x) = true -> ffin x.
Proof. unfold ffin, Prim2B. rewrite is_finite_SF2B. auto. Qed.

Lemma fR_zero : fR 0%float = 0. Proof. rewrite fR_SF. reflexivity. Qed.
Lemma fR_half : fR 0.5%float = / 2.
Proof.
  rewrite fR_SF. change (Prim2SF 0.5) with (S754_finite false 4503599627370496 (-53)).
  unfold SF2R, F2R; cbn. lra.
Qed.
Lemma fR_one : fR 1%float = 1.
Proof.
  rewrite fR_SF. change (Prim2SF 1) with (S754_finite false 4503599627370496 (-52)).
  unfold SF2R, F2R; cbn. lra.
Qed.
Lemma fR_two : fR 2%float = 2.
Proof.
  rewrite fR_SF. change (Prim2SF 2) with (S754_finite false 4503599627370496 (-51)).
  unfold SF2R, F2R; cbn. lra.
Qed.
Lemma ffin_zero : ffin 0%float. Proof. apply ffin_SF. reflexivity. Qed.
Lemma ffin_half : ffin 0.5%float. Proof. apply ffin_SF. reflexivity. Qed.
Lemma ffin_one : ffin 1%float. Proof. apply ffin_SF. reflexivity. Qed.
Lemma ffin_two : ffin 2%float. Proof. apply ffin_SF. reflexivity. Qed.

(** ** rounding between representable bounds *)
Lemma rnd_between A B r : fmt A -> fmt B -> A <= r <= B -> A <= rnd r <= B.
Proof.
  intros FA FB [H1 H2]. split.
  - rewrite <- (round_generic radix2 fexp64 ZnearestE A FA). apply round_le; auto with typeclass_instances.
  - rewrite <- (round_generic radix2 fexp64 ZnearestE B FB). apply round_le; auto with typeclass_instances.
Qed.

Lemma between_lt_emax A B r : Rabs A < MAXP -> Rabs B < MAXP -> A <= r <= B -> Rabs r < MAXP.
Proof.
  intros HA HB [H1 H2]. apply Rabs_def1.
  - apply Rle_lt_trans with (1 := H2). apply Rle_lt_trans with (2 := HB). apply Rle_abs.
  - apply Rlt_le_trans with (2 := H1). apply Rabs_def2 in HA. tauto.
Qed.

Lemma rnd_le a b : a <= b -> rnd a <= rnd b.
Proof. apply round_le; auto with typeclass_instances. Qed.

Lemma fmt_opp A : fmt A -> fmt (- A).
Proof. apply generic_format_opp. Qed.
Lemma fmt_0 : fmt 0. Proof. apply generic_format_0. Qed.
Lemma fmt_half : fmt (/ 2). Proof. rewrite <- fR_half. apply fR_format. Qed.
Lemma fmt_1 : fmt 1. Proof. rewrite <- fR_one. apply fR_format. Qed.
Lemma lt_0 : Rabs 0 < MAXP. Proof. rewrite <- fR_zero. apply fR_lt_emax. Qed.
Lemma lt_half : Rabs (/ 2) < MAXP. Proof. rewrite <- fR_half. apply fR_lt_emax. Qed.
Lemma lt_1 : Rabs 1 < MAXP. Proof. rewrite <- fR_one. apply fR_lt_emax. Qed.
Lemma lt_opp A : Rabs A < MAXP -> Rabs (- A) < MAXP. Proof. now rewrite Rabs_Ropp. Qed.

(** the workhorses: an operation whose exact result lies between two representable,
    finite bounds gives a finite float between the same bounds *)
Section Between.
  Variables (A B : R).
  Hypotheses (FA : fmt A) (FB : fmt B) (LA : Rabs A < MAXP) (LB : Rabs B < MAXP).

  Lemma sub_between x y : ffin x -> ffin y -> A <= fR x - fR y <= B ->
    ffin (x - y) /\ A <= fR (x - y) <= B /\ fR (x - y) = rnd (fR x - fR y).
  Proof.
    intros Fx Fy H. pose proof (rnd_between A B _ FA FB H) as Hr.
    destruct (sub_bounded x y Fx Fy (between_lt_emax A B _ LA LB Hr)) as [F E].
    split; [exact F|]. rewrite E. split; [exact Hr | reflexivity].
  Qed.

  Lemma add_between x y : ffin x -> ffin y -> A <= fR x + fR y <= B ->
    ffin (x + y) /\ A <= fR (x + y) <= B /\ fR (x + y) = rnd (fR x + fR y).
  Proof.
    intros Fx Fy H. pose proof (rnd_between A B _ FA FB H) as Hr.
    destruct (add_bounded x y Fx Fy (between_lt_emax A B _ LA LB Hr)) as [F E].
    split; [exact F|]. rewrite E. split; [exact Hr | reflexivity].
  Qed.

  Lemma mul_between x y : ffin x -> ffin y -> A <= fR x * fR y <= B ->
    ffin (x * y) /\ A <= fR (x * y) <= B /\ fR (x * y) = rnd (fR x * fR y).
  Proof.
    intros Fx Fy H. pose proof (rnd_between A B _ FA FB H) as Hr.
    destruct (mul_bounded x y Fx Fy (between_lt_emax A B _ LA LB Hr)) as [F E].
    split; [exact F|]. rewrite E. split; [exact Hr | reflexivity].
  Qed.

  Lemma div_between x y : ffin x -> fR y <> 0 -> A <= fR x / fR y <= B ->
    ffin (x / y) /\ A <= fR (x / y) <= B /\ fR (x / y) = rnd (fR x / fR y).
  Proof.
    intros Fx Ny H. pose proof (rnd_between A B _ FA FB H) as Hr.
    destruct (div_bounded x y Fx Ny (between_lt_emax A B _ LA LB Hr)) as [F E].
    split; [exact F|]. rewrite E. split; [exact Hr | reflexivity].
  Qed.
End Between.

(** ** the ramp shared by the LINEAR and LINEAR_EXACT functions
    [y v = if v <= lo then 0 else if hi < v then ymax else ((v - c) / w + 0.5) * ymax]
    where [lo], [hi] are the computed window bounds and [h] the computed half width. *)
Definition ramp (c w lo hi ymax v : pfloat) : pfloat :=
  (if v <=? lo then 0 else if hi <? v then ymax else ((v - c) / w + 0.5) * ymax)%float.

(** the window bounds did not round away from the window, and [h] is at most half of [w] *)
Record ramp_ok (c w h lo hi : pfloat) : Prop := {
  ok_c : ffin c; ok_w : ffin w; ok_h : ffin h; ok_lo : ffin lo; ok_hi : ffin hi;
  ok_lo_in : fR c - fR h <= fR lo;
  ok_hi_in : fR hi <= fR c + fR h;
  ok_h_half : 2 * fR h <= fR w }.

Section Ramp.
  Variables (c w h lo hi ymax : pfloat).
  Hypothesis OK : ramp_ok c w h lo hi.
  Hypothesis Fy : ffin ymax.
  Hypothesis Py : 0 <= fR ymax.

  (* inside the window *)
  Lemma ramp_inside v : ffin v -> fR lo < fR v <= fR hi ->
    let d := (v - c)%float in let q := (d / w)%float in let s := (q + 0.5)%float in let y := (s * ymax)%float in
    0 < fR h /\ 0 < fR w /\
    (ffin d /\ fR d = rnd (fR v - fR c)) /\
    (ffin q /\ fR q = rnd (fR d / fR w)) /\
    (ffin s /\ fR s = rnd (fR q + / 2)) /\
    (ffin y /\ fR y = rnd (fR s * fR ymax)) /\ 0 <= fR y <= fR ymax.
  Proof.
    intros Fv [Hlo Hhi] d q s y. destruct OK as [Fc Fw Fh Flo Fhi Hl Hh Hhalf].
    assert (Hpos : 0 < fR h) by lra.
    assert (Wpos : 0 < fR w) by lra.
    (* d = v - c in [-h, h] *)
    destruct (sub_between (- fR h) (fR h) (fmt_opp _ (fR_format h)) (fR_format h)
                (lt_opp _ (fR_lt_emax h)) (fR_lt_emax h) v c Fv Fc) as (Fd & Bd & Ed); [lra|].
    (* q = d / w in [-1/2, 1/2] *)
    assert (Hq : - / 2 <= fR d / fR w <= / 2).
    { fold d in Bd. split.
      - apply Rmult_le_reg_r with (fR w); [exact Wpos|]. unfold Rdiv. rewrite Rmult_assoc, Rinv_l by lra. lra.
      - apply Rmult_le_reg_r with (fR w); [exact Wpos|]. unfold Rdiv. rewrite Rmult_assoc, Rinv_l by lra. lra. }
    destruct (div_between (- / 2) (/ 2) (fmt_opp _ fmt_half) fmt_half (lt_opp _ lt_half) lt_half d w Fd) as (Fq & Bq & Eq);
      [lra | exact Hq |].
    (* s = q + 0.5 in [0, 1] *)
    destruct (add_between 0 1 fmt_0 fmt_1 lt_0 lt_1 q 0.5%float Fq ffin_half) as (Fs & Bs & Es);
      [rewrite fR_half; fold q in Bq; lra|].
    (* y = s * ymax in [0, ymax] *)
    assert (Hy : 0 <= fR s * fR ymax <= fR ymax).
    { fold s in Bs. split; [apply Rmult_le_pos; lra|].
      rewrite <- (Rmult_1_l (fR ymax)) at 2. apply Rmult_le_compat_r; lra. }
    destruct (mul_between 0 (fR ymax) fmt_0 (fR_format ymax) lt_0 (fR_lt_emax ymax) s ymax Fs Fy Hy) as (Fyy & Byy & Eyy).
    rewrite fR_half in Es.
    split; [exact Hpos|]. split; [exact Wpos|]. split; [split; [exact Fd | exact Ed]|].
    split; [split; [exact Fq | exact Eq]|]. split; [split; [exact Fs | exact Es]|].
    split; [split; [exact Fyy | exact Eyy]|]. exact Byy.
  Qed.

  (** range: every output is finite and within [0, ymax] *)
  Lemma ramp_range v : ffin v -> ffin (ramp c w lo hi ymax v) /\ 0 <= fR (ramp c w lo hi ymax v) <= fR ymax.
  Proof.
    intros Fv. unfold ramp. destruct OK as [Fc Fw Fh Flo Fhi Hl Hh Hhalf].
    rewrite (leb_R v lo Fv Flo). destruct (Rle_bool_spec (fR v) (fR lo)) as [H1|H1].
    - split; [exact ffin_zero | rewrite fR_zero; lra].
    - rewrite (ltb_R hi v Fhi Fv). destruct (Rlt_bool_spec (fR hi) (fR v)) as [H2|H2].
      + split; [exact Fy | lra].
      + destruct (ramp_inside v Fv (conj H1 H2)) as (_ & _ & _ & _ & _ & (F & _) & B). split; assumption.
  Qed.

  (** monotonicity: the output never decreases when the input increases *)
  Lemma ramp_mono v1 v2 : ffin v1 -> ffin v2 -> fR v1 <= fR v2 ->
    fR (ramp c w lo hi ymax v1) <= fR (ramp c w lo hi ymax v2).
  Proof.
    intros F1 F2 Hv.
    pose proof (ramp_range v1 F1) as [_ R1]. pose proof (ramp_range v2 F2) as [_ R2].
    revert R1 R2. unfold ramp. destruct OK as [Fc Fw Fh Flo Fhi Hl Hh Hhalf].
    rewrite (leb_R v1 lo F1 Flo), (leb_R v2 lo F2 Flo), (ltb_R hi v1 Fhi F1), (ltb_R hi v2 Fhi F2).
    destruct (Rle_bool_spec (fR v1) (fR lo)) as [A1|A1].
    { rewrite fR_zero. intros _ R2. lra. }
    destruct (Rle_bool_spec (fR v2) (fR lo)) as [A2|A2]; [lra|].
    destruct (Rlt_bool_spec (fR hi) (fR v2)) as [B2|B2].
    { intros R1 _. lra. }
    destruct (Rlt_bool_spec (fR hi) (fR v1)) as [B1|B1]; [lra|].
    intros _ _.
    destruct (ramp_inside v1 F1 (conj A1 B1)) as (_ & Wpos & (_ & Ed1) & (_ & Eq1) & (_ & Es1) & (_ & Ey1) & _).
    destruct (ramp_inside v2 F2 (conj A2 B2)) as (_ & _ & (_ & Ed2) & (_ & Eq2) & (_ & Es2) & (_ & Ey2) & By2).
    cbv zeta in *.
    assert (Hd : fR (v1 - c) <= fR (v2 - c)) by (rewrite Ed1, Ed2; apply rnd_le; lra).
    assert (Hq : fR ((v1 - c) / w) <= fR ((v2 - c) / w)).
    { rewrite Eq1, Eq2. apply rnd_le. unfold Rdiv. apply Rmult_le_compat_r; [|exact Hd].
      apply Rlt_le, Rinv_0_lt_compat, Wpos. }
    assert (Hs : fR ((v1 - c) / w + 0.5) <= fR ((v2 - c) / w + 0.5)) by (rewrite Es1, Es2; apply rnd_le; lra).
    rewrite Ey1, Ey2. apply rnd_le. apply Rmult_le_compat_r; [exact Py | exact Hs].
  Qed.
End Ramp.

(** ** integer conversions *)
Lemma fmt_IZR z : (Z.abs z < 2 ^ 53)%Z -> fmt (IZR z).
Proof.
  intros H. apply generic_format_FLT. apply (FLT_spec _ _ _ _ (Float radix2 z 0)).
  - unfold F2R; cbn. lra.
  - exact H.
  - cbn. lia.
Qed.

Lemma IZR_lt_emax z : (Z.abs z < 2 ^ 53)%Z -> Rabs (IZR z) < MAXP.
Proof.
  intros H. rewrite <- abs_IZR. apply Rlt_le_trans with (IZR (2 ^ 53)); [now apply IZR_lt|].
  change (2 ^ 53)%Z with (Zpower radix2 53). rewrite IZR_Zpower by lia. apply bpow_le. change (53 <= 1024)%Z. lia.
Qed.

Lemma n2f_exact n : (n < 2 ^ 53)%N -> ffin (n2f n) /\ fR (n2f n) = IZR (Z.of_N n).
Proof.
  intros H. unfold n2f, ffin, fR. rewrite of_int63_equiv.
  assert (Hz : Uint63.to_Z (Uint63.of_Z (Z.of_N n)) = Z.of_N n).
  { rewrite Uint63.of_Z_spec. apply Z.mod_small. change Uint63.wB with (2 ^ 63)%Z. lia. }
  rewrite Hz.
  generalize (binary_normalize_correct prec emax Hprec Hmax mode_NE (Z.of_N n) 0 false).
  cbv zeta. cbn [round_mode].
  assert (E : F2R (Float radix2 (Z.of_N n) 0) = IZR (Z.of_N n)) by (unfold F2R; cbn; lra).
  rewrite E.
  assert (Hs : (Z.abs (Z.of_N n) < 2 ^ 53)%Z) by lia.
  set (r := round radix2 _ _ _).
  assert (Er : r = IZR (Z.of_N n)) by (subst r; apply (round_generic radix2 fexp64 ZnearestE _ (fmt_IZR _ Hs))).
  rewrite Er.
  rewrite Rlt_bool_true by (now apply IZR_lt_emax).
  intros (H1 & H2 & _). split; assumption.
Qed.

Lemma opp_R x : fR (- x)%float = - fR x /\ (ffin x -> ffin (- x)%float).
Proof.
  unfold fR, ffin. rewrite opp_equiv. rewrite B2R_Bopp, is_finite_Bopp. auto.
Qed.

Lemma z2f_exact z : (Z.abs z < 2 ^ 53)%Z -> ffin (z2f z) /\ fR (z2f z) = IZR z.
Proof.
  intros H. destruct z as [|p|p]; cbn [z2f].
  - split; [exact ffin_zero | exact fR_zero].
  - destruct (n2f_exact (Npos p)) as [F E]; [lia|]. split; [exact F | exact E].
  - destruct (n2f_exact (Npos p)) as [F E]; [lia|].
    destruct (opp_R (n2f (N.pos p))) as [E' F']. split; [now apply F'|].
    rewrite E', E. cbn [Z.of_N]. rewrite <- opp_IZR. reflexivity.
Qed.

Lemma z2f_mono a b : (Z.abs a < 2 ^ 53)%Z -> (Z.abs b < 2 ^ 53)%Z -> (a <= b)%Z -> fR (z2f a) <= fR (z2f b).
Proof.
  intros Ha Hb H. destruct (z2f_exact a Ha) as [_ ->]. destruct (z2f_exact b Hb) as [_ ->]. now apply IZR_le.
Qed.

(** ** truncation toward zero *)
Lemma Ztrunc_scaled M ex : (0 <= M)%Z ->
  Ztrunc (IZR M * bpow radix2 ex) =
  match ex with Z0 => M | Zpos p => Z.shiftl M (Zpos p) | Zneg p => Z.shiftr M (Zpos p) end.
Proof.
  intros HM. destruct ex as [|p|p].
  - cbn [bpow]. rewrite Rmult_1_r. apply Ztrunc_IZR.
  - rewrite Z.shiftl_mul_pow2 by lia. rewrite <- IZR_Zpower by lia. rewrite <- mult_IZR. apply Ztrunc_IZR.
  - rewrite Z.shiftr_div_pow2 by lia.
    assert (Hp : (0 < 2 ^ Z.pos p)%Z) by (apply Z.pow_pos_nonneg; lia).
    rewrite Ztrunc_floor.
    + change (bpow radix2 (Z.neg p)) with (/ IZR (2 ^ Z.pos p)). apply Zfloor_div. lia.
    + apply Rmult_le_pos; [now apply IZR_le | apply bpow_ge_0].
Qed.

Local Opaque Uint63.to_Z.
Lemma trunc_pos_spec y : ffin y -> 0 <= fR y -> trunc_pos y = Ztrunc (fR y).
Proof.
  unfold trunc_pos, ffin, fR. intros Fy Py.
  generalize (frshiftexp_equiv y). destruct (frshiftexp y) as [m e].
  generalize (normfr_mantissa_equiv m). intros Hm Heq.
  destruct (Prim2B y) as [s|s| |s my ey Hy] eqn:Ey; try discriminate.
  - (* zero *)
    pose proof (f_equal fst Heq) as Hz. cbn [fst Bfrexp] in Hz. rewrite Hz in Hm.
    change (Z.of_N (Bnormfr_mantissa (B754_zero s))) with 0%Z in Hm. rewrite Hm.
    replace (Ztrunc (B2R (B754_zero s : binary_float prec emax))) with 0%Z by (symmetry; apply (Ztrunc_IZR 0)).
    destruct (_ - _ - _)%Z; [reflexivity | apply Z.shiftl_0_l | apply Z.shiftr_0_l].
  - (* finite *)
    generalize (Bfrexp_correct prec emax Hprec (B754_finite s my ey Hy) eq_refl).
    rewrite <- Heq. intros [H1 H2]. destruct (H2 eq_refl) as [Hb _]. clear H2.
    generalize (Bnormfr_mantissa_correct prec emax Hprec (Prim2B m) Hb).
    destruct (Prim2B m) as [sz|sz| |sz mz ez Hz] eqn:Em; try tauto. intros (Hn & _ & Hez).
    rewrite Hn in Hm. cbn [Z.of_N] in Hm. rewrite Hm.
    assert (Hsz : sz = false).
    { destruct sz; [|reflexivity]. exfalso.
      assert (B2R (B754_finite true mz ez Hz) < 0).
      { cbn [B2R]. apply F2R_lt_0. cbn. lia. }
      assert (0 < bpow radix2 (Uint63.to_Z e - FloatOps.shift)) by apply bpow_gt_0.
      rewrite H1 in Py. nra. }
    subst sz ez. rewrite H1. cbn [B2R cond_Zopp]. unfold F2R; cbn [Fnum Fexp].
    rewrite Rmult_assoc, <- bpow_plus.
    replace (- prec + (Uint63.to_Z e - FloatOps.shift))%Z with (Uint63.to_Z e - FloatOps.shift - 53)%Z by (change prec with 53%Z; lia).
    symmetry. apply Ztrunc_scaled. lia.
Qed.

Lemma trunc_spec y : ffin y -> trunc y = Ztrunc (fR y).
Proof.
  intros Fy. unfold trunc. rewrite (ltb_R y 0 Fy ffin_zero), fR_zero.
  destruct (Rlt_bool_spec (fR y) 0) as [H|H].
  - destruct (opp_R y) as [E F]. rewrite trunc_pos_spec; [|now apply F | rewrite E; lra].
    rewrite E, Ztrunc_opp. lia.
  - now apply trunc_pos_spec.
Qed.

(** ** NumCast *)
Lemma between_finite lo hi y : ffin lo -> ffin hi ->
  (lo <? y)%float = true -> (y <? hi)%float = true -> ffin y.
Proof.
  unfold ffin. rewrite !ltb_equiv. unfold Bltb.
  destruct (Prim2B y) as [sy|sy| |sy my ey Hy]; try reflexivity.
  - destruct sy.
    + intros Fl _ H _. destruct (Prim2B lo) as [s|s| |s m e H0]; try discriminate; cbn in H; discriminate.
    + intros _ Fh _ H. destruct (Prim2B hi) as [s|s| |s m e H0]; try discriminate; cbn in H; discriminate.
  - intros Fl _ H _. destruct (Prim2B lo) as [s|s| |s m e H0]; try discriminate; cbn in H; discriminate.
Qed.

Lemma tgt_bounds_small t : (Z.abs (tgt_min t - 1) < 2 ^ 53)%Z /\ (Z.abs (tgt_max t + 1) < 2 ^ 53)%Z.
Proof. destruct t; cbn; lia. Qed.

Lemma cast_spec t y e : cast t y = Some e -> ffin y /\ e = Ztrunc (fR y).
Proof.
  unfold cast, cast_between.
  destruct (tgt_bounds_small t) as [Hlo Hhi].
  destruct (z2f_exact _ Hlo) as [Flo _]. destruct (z2f_exact _ Hhi) as [Fhi _].
  destruct (z2f (tgt_min t - 1) <? y)%float eqn:E1; [|discriminate].
  destruct (y <? z2f (tgt_max t + 1))%float eqn:E2; [|discriminate].
  cbn [andb]. intros H. inversion H; subst e.
  assert (Fy : ffin y) by (apply (between_finite _ _ y Flo Fhi E1 E2)).
  split; [exact Fy | now apply trunc_spec].
Qed.

Lemma cast_mono t y1 y2 e1 e2 : cast t y1 = Some e1 -> cast t y2 = Some e2 -> fR y1 <= fR y2 -> (e1 <= e2)%Z.
Proof.
  intros H1 H2 H. destruct (cast_spec _ _ _ H1) as [_ ->]. destruct (cast_spec _ _ _ H2) as [_ ->].
  now apply Ztrunc_le.
Qed.

Lemma cast_range t y e M : cast t y = Some e -> 0 <= fR y <= IZR M -> (0 <= e <= M)%Z.
Proof.
  intros H [H0 HM]. destruct (cast_spec _ _ _ H) as [_ ->]. split.
  - rewrite <- (Ztrunc_IZR 0). now apply Ztrunc_le.
  - rewrite <- (Ztrunc_IZR M). now apply Ztrunc_le.
Qed.

(** ** the model's functions *)
Definition lin_ok (ww wc : pfloat) : Prop :=
  ramp_ok (wc - 0.5) (ww - 1) ((ww - 1) / 2) (wc - 0.5 - (ww - 1) / 2) (wc - 0.5 + (ww - 1) / 2).
Definition exact_ok (ww wc : pfloat) : Prop :=
  ramp_ok wc ww (ww / 2) (wc - ww / 2) (wc + ww / 2).
(** the window bounds of a LINEAR / LINEAR_EXACT transform are usable *)
Definition voi_ok (t : wl_transform) : Prop :=
  match wl_fun t with
  | Linear => lin_ok (wl_width t) (wl_center t)
  | LinearExact => exact_ok (wl_width t) (wl_center t)
  | Sigmoid => False
  end.

Lemma linear_is_ramp v ww wc ymax :
  window_level_linear v ww wc ymax =
  ramp (wc - 0.5) (ww - 1) (wc - 0.5 - (ww - 1) / 2) (wc - 0.5 + (ww - 1) / 2) ymax v.
Proof. reflexivity. Qed.

Lemma linear_exact_is_ramp v ww wc ymax :
  window_level_linear_exact v ww wc ymax = ramp wc ww (wc - ww / 2) (wc + ww / 2) ymax v.
Proof. reflexivity. Qed.

Section Window.
  Variable fexp : pfloat -> pfloat.
  Variables (t : wl_transform) (ymax : pfloat).
  Hypothesis OK : voi_ok t.
  Hypothesis Fy : ffin ymax.
  Hypothesis Py : 0 <= fR ymax.

  Lemma window_range v : ffin v ->
    ffin (wl_apply fexp t v ymax) /\ 0 <= fR (wl_apply fexp t v ymax) <= fR ymax.
  Proof.
    intros Fv. unfold wl_apply, voi_ok in *. destruct (wl_fun t); [| |contradiction].
    - rewrite linear_is_ramp. now apply ramp_range with (h := ((wl_width t - 1) / 2)%float).
    - rewrite linear_exact_is_ramp. now apply ramp_range with (h := (wl_width t / 2)%float).
  Qed.

  Lemma window_mono v1 v2 : ffin v1 -> ffin v2 -> fR v1 <= fR v2 ->
    fR (wl_apply fexp t v1 ymax) <= fR (wl_apply fexp t v2 ymax).
  Proof.
    intros F1 F2 H. unfold wl_apply, voi_ok in *. destruct (wl_fun t); [| |contradiction].
    - rewrite !linear_is_ramp. now apply ramp_mono with (h := ((wl_width t - 1) / 2)%float).
    - rewrite !linear_exact_is_ramp. now apply ramp_mono with (h := (wl_width t / 2)%float).
  Qed.
End Window.

(** Rescale::apply is monotone for a non-negative slope (as long as nothing overflows) *)
Lemma rescale_value r x : ffin (rescale_apply r x) ->
  fR (rescale_apply r x) = rnd (rnd (fR (slope r) * fR x) + fR (intercept r)) /\ ffin (slope r) /\ ffin x.
Proof.
  unfold rescale_apply. intros F. destruct (add_fin_args _ _ F) as [Fm Fi].
  destruct (mul_fin _ _ Fm) as (Em & Fs & Fx).
  rewrite (add_fin _ _ Fm Fi F), Em. auto.
Qed.

Lemma rescale_mono r x1 x2 : 0 <= fR (slope r) ->
  ffin (rescale_apply r x1) -> ffin (rescale_apply r x2) -> fR x1 <= fR x2 ->
  fR (rescale_apply r x1) <= fR (rescale_apply r x2).
Proof.
  intros Hs F1 F2 Hx. destruct (rescale_value r x1 F1) as [-> _]. destruct (rescale_value r x2 F2) as [-> _].
  apply rnd_le. apply Rplus_le_compat_r. apply rnd_le. now apply Rmult_le_compat_l.
Qed.

(** a width of 1 (what LINEAR degenerate widths are clamped to): a step at c - 0.5 *)
Lemma fmax_clamp w b : PrimFloat.is_nan b = false ->
  PrimFloat.is_nan w = true \/ (w <? b)%float = true -> fmax w b = b.
Proof.
  intros Hb H. unfold fmax. destruct (PrimFloat.is_nan w); [reflexivity|].
  rewrite Hb. destruct H as [H|H]; [discriminate | now rewrite H].
Qed.

Lemma sub_self_zero x : ffin x -> ffin (x - x) /\ fR (x - x) = 0.
Proof.
  intros F. destruct (sub_between 0 0 fmt_0 fmt_0 lt_0 lt_0 x x F F) as (F' & B & _); [lra|].
  split; [exact F' | lra].
Qed.

Lemma lin_ok_width1 wc : ffin (wc - 0.5) -> lin_ok 1 wc.
Proof.
  intros Fc. unfold lin_ok.
  destruct (sub_self_zero 1 ffin_one) as [Fw Ew].
  destruct (div_between 0 0 fmt_0 fmt_0 lt_0 lt_0 (1 - 1) 2 Fw) as (Fh & Bh & _);
    [rewrite fR_two; lra | rewrite Ew, fR_two; lra |].
  assert (Eh : fR ((1 - 1) / 2) = 0) by lra.
  destruct (sub_between (fR (wc - 0.5)) (fR (wc - 0.5)) (fR_format _) (fR_format _) (fR_lt_emax _) (fR_lt_emax _)
              (wc - 0.5) ((1 - 1) / 2) Fc Fh) as (Flo & Blo & _); [rewrite Eh; lra|].
  destruct (add_between (fR (wc - 0.5)) (fR (wc - 0.5)) (fR_format _) (fR_format _) (fR_lt_emax _) (fR_lt_emax _)
              (wc - 0.5) ((1 - 1) / 2) Fc Fh) as (Fhi & Bhi & _); [rewrite Eh; lra|].
  constructor; try assumption; rewrite ?Eh, ?Ew; lra.
Qed.

(** the step: with width 1 the output is 0 up to c - 0.5 and y_max above *)
Lemma linear_width1_step v wc ymax : ffin v -> ffin (wc - 0.5) ->
  window_level_linear v 1 wc ymax = if Rle_bool (fR v) (fR (wc - 0.5)) then 0%float else ymax.
Proof.
  intros Fv Fc. pose proof (lin_ok_width1 wc Fc) as [_ _ _ Flo Fhi Hl Hh _].
  destruct (sub_self_zero 1 ffin_one) as [Fw Ew].
  assert (Eh : fR ((1 - 1) / 2) = 0).
  { destruct (div_between 0 0 fmt_0 fmt_0 lt_0 lt_0 (1 - 1) 2 Fw) as (_ & Bh & _);
      [rewrite fR_two; lra | rewrite Ew, fR_two; lra | lra]. }
  rewrite Eh in *.
  assert (Elo : fR (wc - 0.5 - (1 - 1) / 2) = fR (wc - 0.5)).
  { destruct (sub_bounded (wc - 0.5) ((1 - 1) / 2) Fc) as [_ E].
    - destruct (div_between 0 0 fmt_0 fmt_0 lt_0 lt_0 (1 - 1) 2 Fw) as (Fh & _ & _);
        [rewrite fR_two; lra | rewrite Ew, fR_two; lra | exact Fh].
    - rewrite Eh, Rminus_0_r, (round_generic radix2 fexp64 ZnearestE _ (fR_format _)). apply fR_lt_emax.
    - rewrite E, Eh, Rminus_0_r. apply round_generic; [auto with typeclass_instances | apply fR_format]. }
  assert (Ehi : fR (wc - 0.5 + (1 - 1) / 2) = fR (wc - 0.5)).
  { destruct (add_bounded (wc - 0.5) ((1 - 1) / 2) Fc) as [_ E].
    - destruct (div_between 0 0 fmt_0 fmt_0 lt_0 lt_0 (1 - 1) 2 Fw) as (Fh & _ & _);
        [rewrite fR_two; lra | rewrite Ew, fR_two; lra | exact Fh].
    - rewrite Eh, Rplus_0_r, (round_generic radix2 fexp64 ZnearestE _ (fR_format _)). apply fR_lt_emax.
    - rewrite E, Eh, Rplus_0_r. apply round_generic; [auto with typeclass_instances | apply fR_format]. }
  unfold window_level_linear. rewrite (leb_R v _ Fv Flo), (ltb_R _ v Fhi Fv), Elo, Ehi.
  destruct (Rle_bool_spec (fR v) (fR (wc - 0.5))) as [H|H]; [reflexivity|].
  rewrite Rlt_bool_true by exact H. reflexivity.
Qed.

(** ** more finite-result lemmas *)
Lemma sub_fin x y : ffin x -> ffin y -> ffin (x - y) -> fR (x - y) = rnd (fR x - fR y).
Proof.
  intros Fx Fy Fr. unfold ffin, fR in *. rewrite sub_equiv in *.
  generalize (Bminus_correct prec emax Hprec Hmax mode_NE (Prim2B x) (Prim2B y) Fx Fy).
  cbn [round_mode]. destruct (Rlt_bool _ _).
  - intros (H1 & _). exact H1.
  - intros (H & _). apply overflow_not_finite in H. congruence.
Qed.

Lemma div_fin x y : fR y <> 0 -> ffin (x / y) -> fR (x / y) = rnd (fR x / fR y) /\ ffin x.
Proof.
  intros Ny Fr. unfold ffin, fR in *. rewrite div_equiv in *.
  generalize (Bdiv_correct prec emax Hprec Hmax mode_NE (Prim2B x) (Prim2B y) Ny).
  cbn [round_mode]. destruct (Rlt_bool _ _).
  - intros (H1 & H2 & _). rewrite Fr in H2. auto.
  - intros H. apply overflow_not_finite in H. congruence.
Qed.

(** ** a sufficient condition for the rescaled values to be finite *)
Lemma fmt_bpow e : (-1074 <= e <= 1023)%Z -> fmt (bpow radix2 e) /\ Rabs (bpow radix2 e) < MAXP.
Proof.
  intros H. split.
  - apply generic_format_bpow. unfold FLT_exp. change prec with 53%Z. change emax with 1024%Z. lia.
  - rewrite Rabs_pos_eq by apply bpow_ge_0. apply bpow_lt. change emax with 1024%Z. lia.
Qed.

Lemma rescale_finite r x : ffin (slope r) -> ffin (intercept r) -> ffin x ->
  Rabs (fR (slope r)) <= bpow radix2 1000 -> Rabs (fR (intercept r)) <= bpow radix2 1000 ->
  Rabs (fR x) <= bpow radix2 16 ->
  ffin (rescale_apply r x).
Proof.
  intros Fs Fi Fx Hs Hi Hx. unfold rescale_apply.
  destruct (fmt_bpow 1016) as [F16 L16]; [lia|]. destruct (fmt_bpow 1017) as [F17 L17]; [lia|].
  assert (Hp : Rabs (fR (slope r) * fR x) <= bpow radix2 1016).
  { rewrite Rabs_mult. change 1016%Z with (1000 + 16)%Z. rewrite bpow_plus.
    apply Rmult_le_compat; try apply Rabs_pos; assumption. }
  destruct (mul_between (- bpow radix2 1016) (bpow radix2 1016) (fmt_opp _ F16) F16 (lt_opp _ L16) L16 _ _ Fs Fx) as (Fm & Bm & _).
  { apply Rabs_le_inv. exact Hp. }
  assert (H17 : bpow radix2 1017 = 2 * bpow radix2 1016).
  { change 1017%Z with (1 + 1016)%Z. rewrite bpow_plus. reflexivity. }
  assert (H1000 : bpow radix2 1000 <= bpow radix2 1016) by (apply bpow_le; lia).
  apply Rabs_le_inv in Hi.
  destruct (add_between (- bpow radix2 1017) (bpow radix2 1017) (fmt_opp _ F17) F17 (lt_opp _ L17) L17 _ _ Fm Fi) as (Fa & _); [lra|].
  exact Fa.
Qed.

(** ** SIGMOID, with [exp] abstract *)
Lemma fR_m4 : fR (-4)%float = -4 /\ ffin (-4)%float.
Proof.
  split; [|apply ffin_SF; reflexivity].
  rewrite fR_SF. change (Prim2SF (-4)) with (S754_finite true 4503599627370496 (-50)).
  unfold SF2R, F2R; cbn. lra.
Qed.

Lemma Prim2B_infinity : Prim2B infinity = B754_infinity false.
Proof. rewrite infinity_equiv. apply Prim2B_B2Prim. Qed.

Lemma div_by_infinity y : ffin y -> ffin (y / infinity) /\ fR (y / infinity) = 0.
Proof.
  unfold ffin, fR. rewrite div_equiv, Prim2B_infinity.
  destruct (Prim2B y) as [s|s| |s m e H]; try discriminate; intros _; cbn; auto.
Qed.

Section SigmoidP.
  Variable fexp : pfloat -> pfloat.
  (** what is assumed of f64::exp: on finite arguments the result is +infinity (overflow) or a
      finite non-negative number, and it is monotone (also across the overflow threshold) *)
  Hypothesis exp_cases : forall a, ffin a -> fexp a = infinity \/ (ffin (fexp a) /\ 0 <= fR (fexp a)).
  Hypothesis exp_mono : forall a b, ffin a -> ffin b -> ffin (fexp a) -> ffin (fexp b) ->
    fR a <= fR b -> fR (fexp a) <= fR (fexp b).
  Hypothesis exp_mono_inf : forall a b, ffin a -> ffin b -> fR a <= fR b -> fexp a = infinity -> fexp b = infinity.

  Variables (ww wc ymax : pfloat).
  Hypothesis Fy : ffin ymax.
  Hypothesis Py : 0 <= fR ymax.

  Definition sig_arg (v : pfloat) : pfloat := (-4 * (v - wc) / ww)%float.

  Lemma sigmoid_unfold v : window_level_sigmoid fexp v ww wc ymax = (ymax / (1 + fexp (sig_arg v)))%float.
  Proof. reflexivity. Qed.

  (* the denominator, when exp did not overflow *)
  Lemma denom v : ffin (fexp (sig_arg v)) -> 0 <= fR (fexp (sig_arg v)) -> ffin (1 + fexp (sig_arg v)) ->
    1 <= fR (1 + fexp (sig_arg v)) /\ fR (1 + fexp (sig_arg v)) = rnd (1 + fR (fexp (sig_arg v))).
  Proof.
    intros Fe Pe Fd. rewrite (add_fin _ _ ffin_one Fe Fd), fR_one. split; [|reflexivity].
    rewrite <- (round_generic radix2 fexp64 ZnearestE 1 fmt_1) at 1. apply rnd_le. lra.
  Qed.

  Lemma sigmoid_range v : ffin (sig_arg v) ->
    (ffin (fexp (sig_arg v)) -> ffin (1 + fexp (sig_arg v))) ->
    ffin (window_level_sigmoid fexp v ww wc ymax) /\ 0 <= fR (window_level_sigmoid fexp v ww wc ymax) <= fR ymax.
  Proof.
    intros Ft Fd. rewrite sigmoid_unfold. destruct (exp_cases _ Ft) as [Hinf | [Fe Pe]].
    - rewrite Hinf. change (1 + infinity)%float with infinity.
      destruct (div_by_infinity ymax Fy) as [F E]. split; [exact F | rewrite E; lra].
    - destruct (denom v Fe Pe (Fd Fe)) as [Hd _].
      destruct (div_between 0 (fR ymax) fmt_0 (fR_format _) lt_0 (fR_lt_emax _) ymax (1 + fexp (sig_arg v)) Fy) as (F & B & _).
      + lra.
      + split.
        * apply Rmult_le_pos; [exact Py | apply Rlt_le, Rinv_0_lt_compat; lra].
        * apply Rmult_le_reg_r with (fR (1 + fexp (sig_arg v))); [lra|].
          unfold Rdiv. rewrite Rmult_assoc, Rinv_l by lra. nra.
      + split; assumption.
  Qed.

  (* the argument of exp decreases when the input increases (positive width) *)
  Lemma sig_arg_anti v1 v2 : ffin v1 -> ffin v2 -> ffin wc -> 0 < fR ww ->
    ffin (sig_arg v1) -> ffin (sig_arg v2) -> fR v1 <= fR v2 -> fR (sig_arg v2) <= fR (sig_arg v1).
  Proof.
    intros F1 F2 Fc Hw Ft1 Ft2 Hv. unfold sig_arg in *.
    destruct (div_fin _ _ (Rgt_not_eq _ _ Hw) Ft1) as [E1 Fm1].
    destruct (div_fin _ _ (Rgt_not_eq _ _ Hw) Ft2) as [E2 Fm2].
    destruct (mul_fin _ _ Fm1) as (M1 & _ & Fd1). destruct (mul_fin _ _ Fm2) as (M2 & _ & Fd2).
    rewrite E1, E2, M1, M2, (sub_fin _ _ F1 Fc Fd1), (sub_fin _ _ F2 Fc Fd2).
    destruct fR_m4 as [-> _].
    apply rnd_le. unfold Rdiv. apply Rmult_le_compat_r; [apply Rlt_le, Rinv_0_lt_compat, Hw|].
    apply rnd_le.
    assert (rnd (fR v1 - fR wc) <= rnd (fR v2 - fR wc)) by (apply rnd_le; lra). lra.
  Qed.

  Lemma sigmoid_mono v1 v2 : ffin v1 -> ffin v2 -> ffin wc -> 0 < fR ww ->
    ffin (sig_arg v1) -> ffin (sig_arg v2) ->
    (ffin (fexp (sig_arg v1)) -> ffin (1 + fexp (sig_arg v1))) ->
    (ffin (fexp (sig_arg v2)) -> ffin (1 + fexp (sig_arg v2))) ->
    fR v1 <= fR v2 ->
    fR (window_level_sigmoid fexp v1 ww wc ymax) <= fR (window_level_sigmoid fexp v2 ww wc ymax).
  Proof.
    intros F1 F2 Fc Hw Ft1 Ft2 Fd1 Fd2 Hv.
    pose proof (sig_arg_anti v1 v2 F1 F2 Fc Hw Ft1 Ft2 Hv) as Ht.
    pose proof (sigmoid_range v1 Ft1 Fd1) as [_ R1]. pose proof (sigmoid_range v2 Ft2 Fd2) as [_ R2].
    revert R1 R2. rewrite !sigmoid_unfold.
    destruct (exp_cases _ Ft1) as [Hinf1 | [Fe1 Pe1]].
    { rewrite Hinf1. change (1 + infinity)%float with infinity.
      destruct (div_by_infinity ymax Fy) as [_ ->]. intros _ R2. lra. }
    destruct (exp_cases _ Ft2) as [Hinf2 | [Fe2 Pe2]].
    { (* exp overflowed at the smaller argument: then also at the larger one *)
      rewrite (exp_mono_inf _ _ Ft2 Ft1 Ht Hinf2) in Fe1.
      unfold ffin in Fe1. rewrite Prim2B_infinity in Fe1. discriminate. }
    intros _ _.
    destruct (denom v1 Fe1 Pe1 (Fd1 Fe1)) as [Hd1 Ed1]. destruct (denom v2 Fe2 Pe2 (Fd2 Fe2)) as [Hd2 Ed2].
    assert (Hdd : fR (1 + fexp (sig_arg v2)) <= fR (1 + fexp (sig_arg v1))).
    { rewrite Ed1, Ed2. apply rnd_le. apply Rplus_le_compat_l. now apply exp_mono. }
    destruct (div_bounded ymax (1 + fexp (sig_arg v1)) Fy) as [_ Y1]; [lra | |].
    { pose proof (sigmoid_range v1 Ft1 Fd1) as [Ff _]. rewrite sigmoid_unfold in Ff.
      destruct (div_fin _ _ (Rgt_not_eq _ _ (Rlt_le_trans _ _ _ Rlt_0_1 Hd1)) Ff) as [<- _]. apply fR_lt_emax. }
    destruct (div_bounded ymax (1 + fexp (sig_arg v2)) Fy) as [_ Y2]; [lra | |].
    { pose proof (sigmoid_range v2 Ft2 Fd2) as [Ff _]. rewrite sigmoid_unfold in Ff.
      destruct (div_fin _ _ (Rgt_not_eq _ _ (Rlt_le_trans _ _ _ Rlt_0_1 Hd2)) Ff) as [<- _]. apply fR_lt_emax. }
    rewrite Y1, Y2. apply rnd_le. unfold Rdiv. apply Rmult_le_compat_l; [exact Py|].
    apply Rinv_le_contravar; lra.
  Qed.
End SigmoidP.

(** ** a decidable, sound test for [ramp_ok] (exact arithmetic on mantissas/exponents)
    every finite binary64 number is an integer multiple of 2^-1074 *)
Definition sfZ (x : spec_float) : option Z :=
  match x with
  | S754_zero _ => Some 0%Z
  | S754_finite s m e => if (-1074 <=? e)%Z then Some (cond_Zopp s (Zpos m) * 2 ^ (e + 1074))%Z else None
  | _ => None
  end.

Lemma sfZ_spec x z : sfZ (Prim2SF x) = Some z -> ffin x /\ fR x = IZR z * bpow radix2 (-1074).
Proof.
  intros H. rewrite fR_SF. split.
  - apply ffin_SF. destruct (Prim2SF x); try discriminate; reflexivity.
  - destruct (Prim2SF x) as [s|s| |s m e]; try discriminate; cbn [sfZ] in H.
    + inversion H. cbn. lra.
    + destruct (Z.leb_spec (-1074) e) as [He|He]; [|discriminate]. inversion H; subst z. clear H.
      unfold SF2R, F2R; cbn [Fnum Fexp]. rewrite mult_IZR, Rmult_assoc. f_equal.
      change (2 ^ (e + 1074))%Z with (Zpower radix2 (e + 1074)).
      rewrite IZR_Zpower by lia. rewrite <- bpow_plus. f_equal. lia.
Qed.

Definition ramp_okb (c w h lo hi : pfloat) : bool :=
  match sfZ (Prim2SF c), sfZ (Prim2SF w), sfZ (Prim2SF h), sfZ (Prim2SF lo), sfZ (Prim2SF hi) with
  | Some zc, Some zw, Some zh, Some zlo, Some zhi =>
      (zc - zh <=? zlo)%Z && (zhi <=? zc + zh)%Z && (2 * zh <=? zw)%Z
  | _, _, _, _, _ => false
  end.

Lemma ramp_okb_sound c w h lo hi : ramp_okb c w h lo hi = true -> ramp_ok c w h lo hi.
Proof.
  unfold ramp_okb.
  destruct (sfZ (Prim2SF c)) as [zc|] eqn:Ec; [|discriminate].
  destruct (sfZ (Prim2SF w)) as [zw|] eqn:Ew; [|discriminate].
  destruct (sfZ (Prim2SF h)) as [zh|] eqn:Eh; [|discriminate].
  destruct (sfZ (Prim2SF lo)) as [zlo|] eqn:Elo; [|discriminate].
  destruct (sfZ (Prim2SF hi)) as [zhi|] eqn:Ehi; [|discriminate].
  intros H. apply andb_prop in H. destruct H as [H H3]. apply andb_prop in H. destruct H as [H1 H2].
  apply Z.leb_le in H1, H2, H3.
  destruct (sfZ_spec _ _ Ec) as [Fc Rc]. destruct (sfZ_spec _ _ Ew) as [Fw Rw]. destruct (sfZ_spec _ _ Eh) as [Fh Rh].
  destruct (sfZ_spec _ _ Elo) as [Flo Rlo]. destruct (sfZ_spec _ _ Ehi) as [Fhi Rhi].
  assert (P : 0 < bpow radix2 (-1074)) by apply bpow_gt_0.
  constructor; try assumption; rewrite ?Rc, ?Rw, ?Rh, ?Rlo, ?Rhi.
  - rewrite <- Rmult_minus_distr_r. apply Rmult_le_compat_r; [lra|]. rewrite <- minus_IZR. now apply IZR_le.
  - rewrite <- Rmult_plus_distr_r. apply Rmult_le_compat_r; [lra|]. rewrite <- plus_IZR. now apply IZR_le.
  - rewrite <- Rmult_assoc. apply Rmult_le_compat_r; [lra|]. rewrite <- (mult_IZR 2). now apply IZR_le.
Qed.

Definition voi_okb (t : wl_transform) : bool :=
  let ww := wl_width t in let wc := wl_center t in
  match wl_fun t with
  | Linear => ramp_okb (wc - 0.5) (ww - 1) ((ww - 1) / 2) (wc - 0.5 - (ww - 1) / 2) (wc - 0.5 + (ww - 1) / 2)
  | LinearExact => ramp_okb wc ww (ww / 2) (wc - ww / 2) (wc + ww / 2)
  | Sigmoid => false
  end.

Lemma voi_okb_sound t : voi_okb t = true -> voi_ok t.
Proof.
  unfold voi_okb, voi_ok, lin_ok, exact_ok. destruct (wl_fun t); [apply ramp_okb_sound | apply ramp_okb_sound | discriminate].
Qed.

(** a width of 0 (what LINEAR_EXACT degenerate widths are clamped to): a step at c *)
Lemma exact_ok_width0 wc : ffin wc -> exact_ok 0 wc.
Proof.
  intros Fc. unfold exact_ok.
  destruct (div_between 0 0 fmt_0 fmt_0 lt_0 lt_0 0 2 ffin_zero) as (Fh & Bh & _);
    [rewrite fR_two; lra | rewrite fR_zero, fR_two; lra |].
  assert (Eh : fR (0 / 2) = 0) by lra.
  destruct (sub_between (fR wc) (fR wc) (fR_format _) (fR_format _) (fR_lt_emax _) (fR_lt_emax _)
              wc (0 / 2) Fc Fh) as (Flo & Blo & _); [rewrite Eh; lra|].
  destruct (add_between (fR wc) (fR wc) (fR_format _) (fR_format _) (fR_lt_emax _) (fR_lt_emax _)
              wc (0 / 2) Fc Fh) as (Fhi & Bhi & _); [rewrite Eh; lra|].
  constructor; try assumption; try exact ffin_zero; rewrite ?Eh, ?fR_zero; lra.
Qed.
