(** Lemmas about the adaptive decoder (C08): lock-in, and simulation of the
    explicit / implicit decoder by the adaptive one once it is locked. *)
From DicomV Require Import Base.Prelude Base.Endian Model.ValueRead Model.Adaptive Proofs.ValueReadP.
From Coq Require Import ZifyBool ZifyNat ZifyN.

Lemma big_ada : big ADA = false. Proof. reflexivity. Qed.
Lemma big_ele : big ELE = false. Proof. reflexivity. Qed.
Lemma big_ile : big ILE = false. Proof. reflexivity. Qed.

Definition map_h (x : N) (r : hres) : hres :=
  match r with HOk h n _ rest => HOk h n x rest | y => y end.
Definition map_d (x : N) (r : dres) : dres :=
  match r with DOk h d => DOk h (dwith x d) | y => y end.
Definition map_di (x : N) (r : dires) : dires :=
  match r with DIOk w l d => DIOk w l (dwith x d) | y => y end.
Definition map_v (x : N) (r : vres) : vres :=
  match r with VOk v d => VOk v (dwith x d) | y => y end.
Definition map_hn (x : N) (r : hnres) : hnres :=
  match r with HR r => HR (map_n (with_vr x) r) | HCont d => HCont (dwith x d) end.
Definition map_u (x : N) (r : ures) : ures :=
  match r with UErr => UErr | UTok t st => UTok t (with_vr x st) | UNone st => UNone (with_vr x st) end.

Section WithDict.
Variable dict : N -> option vvr.
Variable rejects : N -> bytes -> bool.

(** * Header decoders: the state is only threaded through, except by the probe *)
Lemma explicit_length_vr be g e vr v1 v2 r :
  explicit_length be g e vr v1 r = map_h v1 (explicit_length be g e vr v2 r).
Proof. unfold explicit_length. repeat break_goal; reflexivity. Qed.

Lemma explicit_tail_vr be g e v1 v2 r :
  explicit_tail be g e v1 r = map_h v1 (explicit_tail be g e v2 r).
Proof. unfold explicit_tail. destruct (take 2 r) as [[v r1]|]; [|reflexivity]. apply explicit_length_vr. Qed.

Lemma implicit_tail_vr g e v1 v2 r :
  implicit_tail dict g e v1 r = map_h v1 (implicit_tail dict g e v2 r).
Proof. unfold implicit_tail. destruct (take 4 r) as [[l r1]|]; reflexivity. Qed.

Lemma delim_tail_vr be g e v1 v2 r :
  delim_tail be g e v1 r = map_h v1 (delim_tail be g e v2 r).
Proof. unfold delim_tail. destruct (take 4 r) as [[l r1]|]; reflexivity. Qed.

(** Locked to explicit: the adaptive decoder IS the explicit VR LE decoder. *)
Lemma raw_locked_explicit v s :
  decode_header_raw dict ADA 1 s = map_h 1 (decode_header_raw dict ELE v s).
Proof using dict. clear rejects.
  unfold decode_header_raw. rewrite big_ada, big_ele.
  destruct (dec_tag false s) as [[[g e] r]|]; [|reflexivity].
  change (ADA =? ILE) with false. change (ELE =? ILE) with false.
  change (ADA =? ADA) with true. change (ELE =? ADA) with false. cbv iota.
  destruct (g =? 65534); [apply delim_tail_vr|].
  unfold adaptive_tail. change (1 =? 1) with true. cbv iota. apply explicit_tail_vr.
Qed.

(** Locked to implicit: it is the implicit VR LE decoder, provided the
    dictionary has nothing in group FFFE (the implicit decoder asks the
    dictionary even for delimiters). *)
Lemma raw_locked_implicit v s :
  dict_no_fffe dict ->
  decode_header_raw dict ADA 2 s = map_h 2 (decode_header_raw dict ILE v s).
Proof using dict. clear rejects.
  intros Hd. unfold decode_header_raw. rewrite big_ada, big_ile.
  destruct (dec_tag false s) as [[[g e] r]|]; [|reflexivity].
  change (ADA =? ILE) with false. change (ILE =? ILE) with true.
  change (ADA =? ADA) with true. cbv iota.
  destruct (N.eqb_spec g 65534) as [->|Hg].
  - unfold delim_tail, implicit_tail, resolve_vr. rewrite Hd.
    change (65534 =? 32736) with false. change (65534 / 256 =? 96) with false. cbn [andb orb].
    destruct (take 4 r) as [[l r1]|]; reflexivity.
  - unfold adaptive_tail. change (2 =? 1) with false. change (2 =? 2) with true. cbv iota.
    apply implicit_tail_vr.
Qed.

(** Lock-in at the decoder: a locked state is never left. *)
Lemma raw_lock_in v s h n v' rest :
  v = 1 \/ v = 2 -> decode_header_raw dict ADA v s = HOk h n v' rest -> v' = v.
Proof using dict. clear rejects.
  intros Hv H. unfold decode_header_raw in H. rewrite big_ada in H.
  destruct (dec_tag false s) as [[[g e] r]|]; [|discriminate].
  change (ADA =? ILE) with false in H. change (ADA =? ADA) with true in H. cbv iota in H.
  destruct (g =? 65534).
  - apply delim_tail_len in H. tauto.
  - unfold adaptive_tail in H. destruct Hv as [-> | ->].
    + change (1 =? 1) with true in H. cbv iota in H. apply explicit_tail_len in H. tauto.
    + change (2 =? 1) with false in H. change (2 =? 2) with true in H. cbv iota in H.
      apply (implicit_tail_len dict) in H. tauto.
Qed.

(** * StatefulDecoder operations under a decoder whose headers agree *)
Lemma dec_header_map k1 k2 y x d :
  decode_header_raw dict k1 y (d_src d) = map_h x (decode_header_raw dict k2 (d_vrst d) (d_src d)) ->
  dec_header dict k1 (dwith y d) = map_d x (dec_header dict k2 d).
Proof.
  intros H. unfold dec_header. cbn [dwith d_src d_vrst d_position d_signed d_short]. rewrite H.
  destruct (decode_header_raw dict k2 (d_vrst d) (d_src d)); reflexivity.
Qed.

Lemma dec_item_map k1 k2 y d :
  big k1 = big k2 -> dec_item k1 (dwith y d) = map_di y (dec_item k2 d).
Proof.
  intros Hb. unfold dec_item, decode_item_raw. cbn [dwith d_src d_vrst d_position d_signed d_short]. rewrite Hb.
  destruct (take 8 (d_src d)) as [[b r]|]; [|reflexivity].
  repeat break_goal; reflexivity.
Qed.

Lemma read_value_map k1 k2 y strat h d :
  big k1 = big k2 -> read_value rejects k1 strat h (dwith y d) = map_v y (read_value rejects k2 strat h d).
Proof.
  intros Hb. unfold read_value. cbn [dwith d_src d_vrst d_position d_signed d_short]. rewrite Hb.
  repeat break_goal; reflexivity.
Qed.

Lemma read_to_vec_map y len d :
  read_to_vec len (dwith y d) = (fst (read_to_vec len d), dwith y (snd (read_to_vec len d))).
Proof. reflexivity. Qed.

Lemma read_u32_map k1 k2 y len d :
  big k1 = big k2 ->
  read_u32_to_vec k1 len (dwith y d) =
  match read_u32_to_vec k2 len d with Some (l, d') => Some (l, dwith y d') | None => None end.
Proof.
  intros Hb. unfold read_u32_to_vec. cbn [dwith d_src d_vrst d_position d_signed d_short]. rewrite Hb.
  destruct (take len (d_src d)) as [[data rest]|]; reflexivity.
Qed.

(** * Reader functions *)
Lemma update_map y st :
  update_seq_delimiters (with_vr y st) = map_u y (update_seq_delimiters st).
Proof.
  unfold update_seq_delimiters. cbn [with_vr r_dec r_in_seq r_ot_next r_pending r_stack r_last dwith d_position].
  repeat break_goal; reflexivity.
Qed.

Ltac rd := cbn [with_vr dwith r_dec r_in_seq r_ot_next r_pending r_stack r_last d_position d_src d_vrst d_signed d_short
                map_n map_di map_v map_d map_hn push top_pix set_dec tl fst snd].

Lemma next_in_seq_map k1 k2 y odd st :
  big k1 = big k2 -> (k1 =? ILE) = (k2 =? ILE) ->
  next_in_seq k1 odd (with_vr y st) = map_n (with_vr y) (next_in_seq k2 odd st).
Proof.
  intros Hb Hi. unfold next_in_seq, push, top_pix. rd. rewrite (dec_item_map k1 k2 y _ Hb), Hi.
  destruct (dec_item k2 (r_dec st)); rd; repeat (break_goal; rd); reflexivity.
Qed.

(** the only difference between the implicit decoder and the adaptive one
    locked to implicit: end of input at an item header inside pixel data *)
Lemma next_in_seq_map_ile y odd st :
  next_in_seq ADA odd (with_vr y st) = map_n (with_vr y) (next_in_seq ILE odd st)
  \/ (next_in_seq ILE odd st = NErr 4 /\ next_in_seq ADA odd (with_vr y st) = NEnd).
Proof.
  unfold next_in_seq, push, top_pix. rd. rewrite (dec_item_map ADA ILE y _ eq_refl).
  destruct (dec_item ILE (r_dec st)); rd.
  - change (ADA =? ILE) with false. change (ILE =? ILE) with true. cbn [negb andb].
    destruct (match r_stack st with t :: _ => s_pix t | [] => false end); [right|left]; split; reflexivity.
  - left. reflexivity.
  - left. repeat (break_goal; rd); reflexivity.
Qed.

Lemma next_pixel_item_map k1 k2 y len st :
  big k1 = big k2 ->
  next_pixel_item k1 len (with_vr y st) = map_n (with_vr y) (next_pixel_item k2 len st).
Proof.
  intros Hb. unfold next_pixel_item. rd. rewrite (read_u32_map k1 k2 y _ _ Hb), read_to_vec_map.
  destruct (len =? UNDEF); [reflexivity|]. destruct (r_ot_next st).
  - destruct (read_u32_to_vec k2 len (r_dec st)) as [[l d]|]; reflexivity.
  - destruct (read_to_vec len (r_dec st)) as [data d]. reflexivity.
Qed.

Lemma next_after_header_map k1 k2 y strat odd h st :
  big k1 = big k2 ->
  next_after_header rejects k1 strat odd h (with_vr y st)
  = map_n (with_vr y) (next_after_header rejects k2 strat odd h st).
Proof.
  intros Hb. unfold next_after_header, push, top_pix. rd.
  rewrite (dec_item_map k1 k2 y _ Hb), (read_value_map k1 k2 y _ _ _ Hb).
  destruct (encapsulated h).
  - destruct (dec_item k2 (r_dec st)); rd; repeat (break_goal; rd); reflexivity.
  - destruct (read_value rejects k2 strat h (r_dec st)); reflexivity.
Qed.

Lemma next_header_map k1 k2 y x odd st :
  dec_header dict k1 (dwith y (r_dec st)) = map_d x (dec_header dict k2 (r_dec st)) ->
  next_header dict k1 odd (with_vr y st) = map_hn x (next_header dict k2 odd st).
Proof.
  intros H. unfold next_header, push, top_pix. rd. rewrite H.
  destruct (dec_header dict k2 (r_dec st)); rd; try reflexivity.
  repeat (break_goal; rd); reflexivity.
Qed.

(** * The explicit direction *)
Lemma dec_header_locked_explicit d :
  dec_header dict ADA (dwith 1 d) = map_d 1 (dec_header dict ELE d).
Proof. apply dec_header_map. apply raw_locked_explicit. Qed.

Lemma next_go_sim1 ka ke strat odd st :
  (forall s, ka (with_vr 1 s) = map_n (with_vr 1) (ke s)) ->
  next_go dict rejects ka ADA strat odd (with_vr 1 st)
  = map_n (with_vr 1) (next_go dict rejects ke ELE strat odd st).
Proof.
  intros Hk. unfold next_go. rd.
  destruct (r_in_seq st); [apply next_in_seq_map; reflexivity|].
  match goal with |- context [match ?x with Some len => _ | None => _ end] => destruct x end;
    [apply next_pixel_item_map; reflexivity|].
  destruct (r_last st); [apply next_after_header_map; reflexivity|].
  rewrite (next_header_map ADA ELE 1 1 odd st (dec_header_locked_explicit _)).
  destruct (next_header dict ELE odd st) as [r|d]; rd; [reflexivity|].
  apply (Hk (set_dec st d)).
Qed.

Lemma next_sim1 strat odd : forall fuel st,
  next dict rejects fuel ADA strat odd (with_vr 1 st)
  = map_n (with_vr 1) (next dict rejects fuel ELE strat odd st).
Proof.
  induction fuel as [|f IH]; intros st; [reflexivity|].
  cbn [next]. unfold next_step. rd. rewrite update_map.
  destruct (r_pending st).
  - destruct (update_seq_delimiters st); cbn [map_u]; try reflexivity. apply next_go_sim1. exact IH.
  - apply next_go_sim1. exact IH.
Qed.

Lemma run_sim1 strat odd total : forall fuel st,
  run dict rejects fuel ADA strat odd total (with_vr 1 st) = run dict rejects fuel ELE strat odd total st.
Proof.
  induction fuel as [|f IH]; intros st; [reflexivity|].
  cbn [run]. change (next_fuel (with_vr 1 st)) with (next_fuel st). rewrite next_sim1.
  destruct (next dict rejects (next_fuel st) ELE strat odd st) as [t st'| | |]; cbn [map_n]; try reflexivity.
  rewrite IH. reflexivity.
Qed.

(** Lock-in at the reader: locked states stay locked with the same value. *)
Lemma with_vr_id st : with_vr (d_vrst (r_dec st)) st = st.
Proof. destruct st as [[s p sg v sh] a b c e f]. reflexivity. Qed.

Lemma reader_lock_in_explicit fuel strat odd st t st' :
  d_vrst (r_dec st) = 1 ->
  next dict rejects fuel ADA strat odd st = NTok t st' -> d_vrst (r_dec st') = 1.
Proof.
  intros Hv H. rewrite <- (with_vr_id st), Hv, next_sim1 in H.
  destruct (next dict rejects fuel ELE strat odd st); try discriminate. injection H as <- <-. reflexivity.
Qed.

(** * The first header *)
Lemma first_probe_some b g e c :
  first_probe b = Some (g, e, c) ->
  exists r v r1, dec_tag false b = Some (g, e, r) /\ take 2 r = Some (v, r1) /\ c = be_val v.
Proof.
  unfold first_probe. destruct (dec_tag false b) as [[[g' e'] r]|]; [|discriminate].
  destruct (take 2 r) as [[v r1]|] eqn:E; [|discriminate]. intros H. injection H as <- <- <-. eauto 8.
Qed.

Lemma raw_first_explicit b :
  explicit_first_ok dict b = true ->
  decode_header_raw dict ADA 0 b = map_h 1 (decode_header_raw dict ELE 0 b).
Proof.
  unfold explicit_first_ok, spells_compatible_vr. intros H.
  destruct (first_probe b) as [[[g e] c]|] eqn:EP; [|discriminate].
  destruct (first_probe_some _ _ _ _ EP) as (r & v & r1 & Ht & E2 & ->).
  rewrite !andb_true_iff, negb_true_iff in H. destruct H as (Hg & Hk & Hc).
  unfold decode_header_raw. rewrite big_ada, big_ele, Ht.
  change (ADA =? ILE) with false. change (ELE =? ILE) with false.
  change (ADA =? ADA) with true. change (ELE =? ADA) with false. cbv iota. rewrite Hg.
  unfold adaptive_tail, explicit_tail. change (0 =? 1) with false. change (0 =? 2) with false. cbv iota.
  rewrite E2, Hk.
  assert (match dict (tkey g e) with Some vv => negb (vr_compat (be_val v) vv) | None => false end = false) as ->.
  { destruct (dict (tkey g e)); [rewrite Hc|]; reflexivity. }
  apply explicit_length_vr.
Qed.

Lemma take_take s a r1 hi r2 :
  take 2 s = Some (a, r1) -> take 2 r1 = Some (hi, r2) -> take 4 s = Some (a ++ hi, r2).
Proof.
  intros H1 H2. apply take_spec in H1, H2. destruct H1 as [-> L1], H2 as [-> L2].
  destruct a as [|a0 [|a1 [|a2 a']]]; try (unfold blen in L1; cbn in L1; lia).
  destruct hi as [|h0 [|h1 [|h2 h']]]; try (unfold blen in L2; cbn in L2; lia).
  unfold take. destruct (N.leb_spec 4 (blen ([a0; a1] ++ [h0; h1] ++ r2))) as [_|Hl].
  - reflexivity.
  - unfold blen in Hl. cbn in Hl. lia.
Qed.

Lemma take_take_none s a r1 :
  take 2 s = Some (a, r1) -> take 2 r1 = None -> take 4 s = None.
Proof.
  intros H1 H2. apply take_len in H1. unfold take in *.
  destruct (N.leb_spec 2 (blen r1)); [discriminate|]. destruct (N.leb_spec 4 (blen s)); [lia|reflexivity].
Qed.

Lemma raw_first_implicit b :
  implicit_first_ok dict b = true ->
  decode_header_raw dict ADA 0 b = map_h 2 (decode_header_raw dict ILE 0 b).
Proof.
  unfold implicit_first_ok, spells_compatible_vr. intros H.
  destruct (first_probe b) as [[[g e] c]|] eqn:EP; [|discriminate].
  destruct (first_probe_some _ _ _ _ EP) as (r & v & r1 & Ht & E2 & ->).
  rewrite andb_true_iff, !negb_true_iff in H. destruct H as (Hg & Hc).
  unfold decode_header_raw. rewrite big_ada, big_ile, Ht.
  change (ADA =? ILE) with false. change (ILE =? ILE) with true.
  change (ADA =? ADA) with true. cbv iota. rewrite Hg.
  unfold adaptive_tail, implicit_tail, adaptive_implicit_rest. change (0 =? 1) with false. change (0 =? 2) with false. cbv iota.
  rewrite E2.
  assert (Hgoal : match take 2 r1 with
                  | Some (hi, r2) => HOk (mkH g e (resolve_vr dict g e) (le_val (v ++ hi))) 8 2 r2
                  | None => HErr end
                  = map_h 2 match take 4 r with
                            | Some (l, r2) => HOk (mkH g e (resolve_vr dict g e) (le_val l)) 8 0 r2
                            | None => HErr end).
  { destruct (take 2 r1) as [[hi r2]|] eqn:E3.
    - rewrite (take_take _ _ _ _ _ E2 E3). reflexivity.
    - rewrite (take_take_none _ _ _ E2 E3). reflexivity. }
  destruct (known_vr (be_val v)); [|exact Hgoal].
  destruct (dict (tkey g e)) as [vv|]; [|discriminate].
  cbn in Hc. rewrite Hc. exact Hgoal.
Qed.

(** first step of the reader on a fresh stream *)
Lemma init_with_vr base b : init base b = with_vr 0 (init base b).
Proof. reflexivity. Qed.

Lemma next_first1 strat odd base b fuel :
  explicit_first_ok dict b = true ->
  next dict rejects fuel ADA strat odd (init base b)
  = map_n (with_vr 1) (next dict rejects fuel ELE strat odd (init base b)).
Proof.
  intros H. destruct fuel as [|f]; [reflexivity|].
  cbn [next]. unfold next_step, next_go. cbn [init r_pending r_in_seq r_stack r_last].
  rewrite (init_with_vr base b) at 1.
  rewrite (next_header_map ADA ELE 0 1 odd (init base b)).
  - destruct (next_header dict ELE odd (init base b)) as [r|d]; cbn [map_hn]; [reflexivity|].
    exact (next_sim1 strat odd f (set_dec (init base b) d)).
  - apply dec_header_map. cbn [init r_dec init_dec d_src d_vrst]. apply raw_first_explicit. exact H.
Qed.

Lemma run_explicit strat odd base b fuel :
  explicit_first_ok dict b = true ->
  run dict rejects fuel ADA strat odd (blen b) (init base b)
  = run dict rejects fuel ELE strat odd (blen b) (init base b).
Proof.
  intros H. destruct fuel as [|f]; [reflexivity|]. cbn [run].
  rewrite (next_first1 strat odd base b _ H).
  destruct (next dict rejects (next_fuel (init base b)) ELE strat odd (init base b)) as [t st'| | |];
    cbn [map_n]; try reflexivity.
  rewrite run_sim1. reflexivity.
Qed.

(** * The implicit direction *)
Definition rel2 (ra ri : nres) : Prop :=
  ra = map_n (with_vr 2) ri \/ (ri = NErr 4 /\ ra = NEnd).

Lemma dec_header_locked_implicit d :
  dict_no_fffe dict -> dec_header dict ADA (dwith 2 d) = map_d 2 (dec_header dict ILE d).
Proof. intros Hd. apply dec_header_map. apply raw_locked_implicit. exact Hd. Qed.

Lemma next_go_sim2 ka ki strat odd st :
  dict_no_fffe dict ->
  (forall s, rel2 (ka (with_vr 2 s)) (ki s)) ->
  rel2 (next_go dict rejects ka ADA strat odd (with_vr 2 st)) (next_go dict rejects ki ILE strat odd st).
Proof.
  intros Hd Hk. unfold next_go. rd.
  destruct (r_in_seq st); [apply next_in_seq_map_ile|].
  match goal with |- context [match ?x with Some len => _ | None => _ end] => destruct x end;
    [left; apply next_pixel_item_map; reflexivity|].
  destruct (r_last st); [left; apply next_after_header_map; reflexivity|].
  rewrite (next_header_map ADA ILE 2 2 odd st (dec_header_locked_implicit _ Hd)).
  destruct (next_header dict ILE odd st) as [r|d]; rd; [left; reflexivity|].
  apply (Hk (set_dec st d)).
Qed.

Lemma next_sim2 strat odd : dict_no_fffe dict -> forall fuel st,
  rel2 (next dict rejects fuel ADA strat odd (with_vr 2 st)) (next dict rejects fuel ILE strat odd st).
Proof.
  intros Hd. induction fuel as [|f IH]; intros st; [left; reflexivity|].
  cbn [next]. unfold next_step. rd. rewrite update_map.
  destruct (r_pending st).
  - destruct (update_seq_delimiters st); cbn [map_u]; try (left; reflexivity). apply next_go_sim2; assumption.
  - apply next_go_sim2; assumption.
Qed.

(** runs: same observations; same final status, except that the implicit
    decoder reports ReadItemHeader (4) where the adaptive one ends quietly *)
Definition run_rel2 (a i : list step * N) : Prop :=
  fst a = fst i /\ (snd a = snd i \/ (snd i = 4 /\ snd a = 0)).

Lemma run_sim2 strat odd total : dict_no_fffe dict -> forall fuel st,
  run_rel2 (run dict rejects fuel ADA strat odd total (with_vr 2 st))
           (run dict rejects fuel ILE strat odd total st).
Proof.
  intros Hd. induction fuel as [|f IH]; intros st; [split; [reflexivity|left; reflexivity]|].
  cbn [run]. change (next_fuel (with_vr 2 st)) with (next_fuel st).
  destruct (next_sim2 strat odd Hd (next_fuel st) st) as [E|[E1 E2]].
  - rewrite E. destruct (next dict rejects (next_fuel st) ILE strat odd st) as [t st'| | |]; cbn [map_n];
      try (split; [reflexivity|left; reflexivity]).
    specialize (IH st'). destruct (run dict rejects f ADA strat odd total (with_vr 2 st')) as [la sa].
    destruct (run dict rejects f ILE strat odd total st') as [li si].
    destruct IH as [IH1 IH2]. cbn [fst snd] in *. subst la. split; [reflexivity|exact IH2].
  - rewrite E1, E2. split; [reflexivity|right; split; reflexivity].
Qed.

Lemma next_first2 strat odd base b fuel :
  dict_no_fffe dict -> implicit_first_ok dict b = true ->
  rel2 (next dict rejects fuel ADA strat odd (init base b)) (next dict rejects fuel ILE strat odd (init base b)).
Proof.
  intros Hd H. destruct fuel as [|f]; [left; reflexivity|].
  cbn [next]. unfold next_step, next_go. cbn [init r_pending r_in_seq r_stack r_last].
  rewrite (init_with_vr base b) at 1.
  rewrite (next_header_map ADA ILE 0 2 odd (init base b)).
  - destruct (next_header dict ILE odd (init base b)) as [r|d]; cbn [map_hn]; [left; reflexivity|].
    exact (next_sim2 strat odd Hd f (set_dec (init base b) d)).
  - apply dec_header_map. cbn [init r_dec init_dec d_src d_vrst]. apply raw_first_implicit. exact H.
Qed.

Lemma run_implicit strat odd base b fuel :
  dict_no_fffe dict -> implicit_first_ok dict b = true ->
  run_rel2 (run dict rejects fuel ADA strat odd (blen b) (init base b))
           (run dict rejects fuel ILE strat odd (blen b) (init base b)).
Proof.
  intros Hd H. destruct fuel as [|f]; [split; [reflexivity|left; reflexivity]|]. cbn [run].
  destruct (next_first2 strat odd base b (next_fuel (init base b)) Hd H) as [E|[E1 E2]].
  - rewrite E. destruct (next dict rejects (next_fuel (init base b)) ILE strat odd (init base b)) as [t st'| | |];
      cbn [map_n]; try (split; [reflexivity|left; reflexivity]).
    pose proof (run_sim2 strat odd (blen b) Hd f st') as IH.
    destruct (run dict rejects f ADA strat odd (blen b) (with_vr 2 st')) as [la sa].
    destruct (run dict rejects f ILE strat odd (blen b) st') as [li si].
    destruct IH as [IH1 IH2]. cbn [fst snd] in *. subst la. split; [reflexivity|exact IH2].
  - rewrite E1, E2. split; [reflexivity|right; split; reflexivity].
Qed.

End WithDict.
