(** Lemmas about Model/Lut.v. Part 1: the integer / index logic (C22_index). *)
From Coq Require Import Floats Uint63 ZifyBool ZifyNat ZifyN Lia.
From DicomV Require Import Base.Prelude Model.Lut Spec.Ps33Lut.

(** ** [nseq] *)
Lemma nseq_from_length fuel i : length (nseq_from fuel i) = fuel.
Proof. revert i; induction fuel; intros; cbn; [reflexivity | now rewrite IHfuel]. Qed.

Lemma nseq_from_nth fuel : forall i k d, (k < fuel)%nat ->
  nth k (nseq_from fuel i) d = (i + N.of_nat k)%N.
Proof.
  induction fuel; intros i k d H; [lia|].
  destruct k; cbn [nseq_from nth]; [lia|].
  rewrite IHfuel by lia. lia.
Qed.

Lemma nseq_nth n k d : (k < n)%N -> nth (N.to_nat k) (nseq n) d = k.
Proof. intros H. unfold nseq. rewrite nseq_from_nth by lia. lia. Qed.

Lemma nseq_in n k : In k (nseq n) <-> (k < n)%N.
Proof.
  unfold nseq. split.
  - intros H. apply (In_nth _ _ 0%N) in H. destruct H as (j & Hj & <-).
    rewrite nseq_from_length in Hj. rewrite nseq_from_nth by exact Hj. lia.
  - intros H. rewrite <- (nseq_nth n k 0%N H). apply nth_In. unfold nseq. rewrite nseq_from_length. lia.
Qed.

(** ** [collect]: all entries present, same positions *)
Lemma collect_nth {A} (g : A -> option Z) : forall (l : list A) tb,
  collect (map g l) = Some tb ->
  length tb = length l /\ forall k d d', (k < length l)%nat -> g (nth k l d) = Some (nth k tb d').
Proof.
  induction l as [|a l IH]; cbn [map collect]; intros tb H.
  - inversion H; subst. split; [reflexivity | cbn; lia].
  - destruct (g a) as [z|] eqn:Ea; [|discriminate].
    destruct (collect (map g l)) as [r|] eqn:Er; [|discriminate].
    inversion H; subst. destruct (IH r eq_refl) as [Hl Hn]. split; [cbn; now rewrite Hl|].
    intros [|k] d d' Hk; cbn [nth]; [exact Ea | apply Hn; cbn in Hk; lia].
Qed.

Lemma collect_none {A} (g : A -> option Z) : forall (l : list A),
  collect (map g l) = None -> exists a, In a l /\ g a = None.
Proof.
  induction l as [|a l IH]; cbn [map collect]; [discriminate|].
  destruct (g a) as [z|] eqn:Ea.
  - destruct (collect (map g l)) eqn:Er; [discriminate|]. intros _.
    destruct (IH eq_refl) as (b & Hb & Eb). exists b. split; [now right | exact Eb].
  - intros _. exists a. split; [now left | exact Ea].
Qed.

(** ** the mask *)
Lemma lut_size_pos bits : (0 < lut_size bits)%N.
Proof. unfold lut_size. apply N.neq_0_lt_0, N.pow_nonzero. discriminate. Qed.

Lemma mask_is_ones bits : (lut_size bits - 1)%N = N.ones bits.
Proof. unfold lut_size. rewrite N.ones_equiv, N.sub_1_r. reflexivity. Qed.

Lemma land_mask_lt bits s : (N.land s (lut_size bits - 1) < lut_size bits)%N.
Proof. rewrite mask_is_ones, N.land_ones. apply N.mod_lt. pose proof (lut_size_pos bits). unfold lut_size in *. lia. Qed.

(** ** table index -> pixel value is the two's complement reading of the stored bits *)
Lemma testbit_top bits v : (0 < bits)%N -> (v < 2 ^ bits)%N ->
  N.testbit v (bits - 1) = (2 ^ bits / 2 <=? v)%N.
Proof.
  intros Hb Hv.
  assert (E : (2 ^ bits = 2 * 2 ^ (bits - 1))%N).
  { rewrite <- N.pow_succ_r'. f_equal. lia. }
  rewrite E, N.mul_comm, N.div_mul by discriminate.
  rewrite N.testbit_eqb.
  assert (Hq : (v / 2 ^ (bits - 1) < 2)%N).
  { apply N.div_lt_upper_bound; [apply N.pow_nonzero; discriminate | lia]. }
  destruct (N.leb_spec (2 ^ (bits - 1)) v) as [Hle|Hlt].
  - assert (1 <= v / 2 ^ (bits - 1))%N.
    { apply N.div_le_lower_bound; [apply N.pow_nonzero; discriminate | lia]. }
    replace (v / 2 ^ (bits - 1))%N with 1%N by lia. reflexivity.
  - rewrite N.div_small by exact Hlt. reflexivity.
Qed.

Lemma index_value_stored bits signed s : (0 < bits)%N ->
  index_value bits signed (N.land s (lut_size bits - 1)) = stored_value bits signed s.
Proof.
  intros Hb. unfold index_value, stored_value. rewrite mask_is_ones.
  set (v := N.land s (N.ones bits)).
  assert (Hv : (v < 2 ^ bits)%N).
  { subst v. rewrite N.land_ones. apply N.mod_lt, N.pow_nonzero. discriminate. }
  rewrite (testbit_top bits v Hb Hv). unfold lut_size.
  destruct (signed && (2 ^ bits / 2 <=? v)%N); [|reflexivity].
  rewrite N2Z.inj_pow. reflexivity.
Qed.

(** ** [new_with_fn] / [get] *)
Lemma x_of_index_at bits signed i :
  x_at (lut_size bits / 2) (n2f (lut_size bits)) signed i = x_of_index bits signed i.
Proof. reflexivity. Qed.

Lemma new_with_fn_get bits signed f t l s :
  new_with_fn bits signed f t = Ok l ->
  cast t (f (x_of_index bits signed (N.land s (lut_size bits - 1)))) = Some (lut_get l s).
Proof.
  unfold new_with_fn. destruct ((bits =? 0)%N || (32 <? bits)%N); [discriminate|].
  unfold lut_entries.
  set (g := fun i => cast_between _ _ (f (x_at _ _ signed i))).
  destruct (collect (map g (nseq (lut_size bits)))) as [tb|] eqn:Ec; [|discriminate].
  intros H; inversion H; subst l; clear H. unfold lut_get; cbn [table sample_mask].
  destruct (collect_nth g _ _ Ec) as [_ Hn].
  set (k := N.land s (lut_size bits - 1)).
  assert (Hk : (k < lut_size bits)%N) by apply land_mask_lt.
  specialize (Hn (N.to_nat k) 0%N 0%Z).
  rewrite nseq_nth in Hn by exact Hk.
  rewrite <- Hn; [reflexivity|]. unfold nseq. rewrite nseq_from_length. lia.
Qed.

Lemma new_with_fn_err bits signed f t :
  new_with_fn bits signed f t = Err 1%N ->
  exists i, (i < lut_size bits)%N /\ cast t (f (x_of_index bits signed i)) = None.
Proof.
  unfold new_with_fn. destruct ((bits =? 0)%N || (32 <? bits)%N); [discriminate|].
  unfold lut_entries.
  set (g := fun i => cast_between _ _ (f (x_at _ _ signed i))).
  destruct (collect (map g (nseq (lut_size bits)))) as [tb|] eqn:Ec; [discriminate|]. intros _.
  destruct (collect_none g _ Ec) as (i & Hi & Ei). exists i. split; [now apply nseq_in | exact Ei].
Qed.

Lemma new_with_fn_panic bits signed f t :
  (exists w, new_with_fn bits signed f t = Panic w) <-> (bits = 0 \/ 32 < bits)%N.
Proof.
  unfold new_with_fn. split.
  - intros [w H]. destruct ((bits =? 0)%N || (32 <? bits)%N) eqn:E; [lia|].
    destruct (collect _); discriminate.
  - intros H. replace ((bits =? 0)%N || (32 <? bits)%N) with true by lia. now exists 1%N.
Qed.

(** ** `i as f64 - size as f64` is the exact pixel value: complete sweep, bits 1..16 *)
Definition x_sweep_ok (bits : N) : bool :=
  forallb (fun signed =>
    forallb (fun i => PrimFloat.Leibniz.eqb (x_of_index bits signed i) (z2f (index_value bits signed i)))
            (nseq (lut_size bits))) [false; true].

Lemma x_sweep : forallb x_sweep_ok [1;2;3;4;5;6;7;8;9;10;11;12;13;14;15;16]%N = true.
Proof. vm_compute. reflexivity. Qed.

Lemma x_of_index_exact bits signed i : (1 <= bits <= 16)%N -> (i < lut_size bits)%N ->
  x_of_index bits signed i = z2f (index_value bits signed i).
Proof.
  intros Hb Hi. pose proof x_sweep as H. rewrite forallb_forall in H.
  assert (Hin : In bits [1;2;3;4;5;6;7;8;9;10;11;12;13;14;15;16]%N).
  { assert (bits = 1 \/ bits = 2 \/ bits = 3 \/ bits = 4 \/ bits = 5 \/ bits = 6 \/ bits = 7 \/ bits = 8 \/
            bits = 9 \/ bits = 10 \/ bits = 11 \/ bits = 12 \/ bits = 13 \/ bits = 14 \/ bits = 15 \/ bits = 16)%N as Hc by lia.
    cbn. intuition auto. }
  specialize (H bits Hin). unfold x_sweep_ok in H. rewrite forallb_forall in H.
  assert (Hs : In signed [false; true]) by (destruct signed; cbn; auto).
  specialize (H signed Hs). rewrite forallb_forall in H.
  apply FloatAxioms.Leibniz.eqb_spec. apply H. now apply nseq_in.
Qed.

Lemma C22_index_lemma bits signed f t l s :
  (1 <= bits <= 16)%N ->
  new_with_fn bits signed f t = Ok l ->
  cast t (f (z2f (stored_value bits signed s))) = Some (lut_get l s).
Proof.
  intros Hb H.
  rewrite <- (index_value_stored bits signed s) by lia.
  rewrite <- x_of_index_exact; [now apply new_with_fn_get | exact Hb | apply land_mask_lt].
Qed.
