(** Common definitions shared by every model: bytes and strings as [list N],
    outcomes with explicit panics, and the case-checking combinators used by
    the correspondence shards. No proofs of properties live here. *)
From Coq Require Export List NArith ZArith Bool Lia.
Export ListNotations.
Open Scope N_scope.

Arguments N.add : simpl never.
Arguments N.sub : simpl never.
Arguments N.mul : simpl never.
Arguments N.div : simpl never.
Arguments N.modulo : simpl never.
Arguments N.eqb : simpl never.
Arguments N.ltb : simpl never.
Arguments N.leb : simpl never.
Arguments N.pow : simpl never.

Definition bytes := list N.
Definition str := list N.   (* Unicode scalar values, or bytes, per model *)

(** Outcome of a Rust call: value, error (class), or panic. *)
Inductive outcome (A : Type) : Type :=
| Ok (a : A)
| Err (e : N)      (* error class, small enum per model *)
| Panic (why : N). (* panic class *)
Arguments Ok {A} a.
Arguments Err {A} e.
Arguments Panic {A} why.

Definition bind {A B} (o : outcome A) (f : A -> outcome B) : outcome B :=
  match o with Ok a => f a | Err e => Err e | Panic w => Panic w end.
Notation "x <- o ;; f" := (bind o (fun x => f)) (at level 61, o at next level, right associativity).

Definition is_ok {A} (o : outcome A) : bool := match o with Ok _ => true | _ => false end.
Definition is_panic {A} (o : outcome A) : bool := match o with Panic _ => true | _ => false end.

(** Equality tests on lists of numbers (used by the shards). *)
Fixpoint list_eqb {A} (eqb : A -> A -> bool) (a b : list A) : bool :=
  match a, b with
  | [], [] => true
  | x :: a', y :: b' => eqb x y && list_eqb eqb a' b'
  | _, _ => false
  end.
Definition str_eqb : str -> str -> bool := list_eqb N.eqb.
Definition opt_eqb {A} (eqb : A -> A -> bool) (a b : option A) : bool :=
  match a, b with
  | None, None => true
  | Some x, Some y => eqb x y
  | _, _ => false
  end.

Lemma list_eqb_spec {A} (eqb : A -> A -> bool) :
  (forall x y, eqb x y = true <-> x = y) ->
  forall a b, list_eqb eqb a b = true <-> a = b.
Proof.
  intros H a; induction a as [|x a IH]; intros [|y b]; cbn; try (split; congruence).
  rewrite andb_true_iff, H, IH. split; [intros [-> ->]; reflexivity | intros E; inversion E; auto].
Qed.

Lemma str_eqb_spec a b : str_eqb a b = true <-> a = b.
Proof. apply list_eqb_spec. intros; apply N.eqb_eq. Qed.

(** Correspondence shards: a shard is a list of (index, case); the shard
    prints the indices on which the model disagrees with the implementation. *)
Definition bad_cases {C} (check : C -> bool) (cases : list (N * C)) : list N :=
  map fst (filter (fun ic => negb (check (snd ic))) cases).
