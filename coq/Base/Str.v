(** Rust [str] operations over code-point lists: split, join, trim. *)
From DicomV Require Export Base.Prelude.

(** Unicode White_Space property (what [char::is_whitespace] tests). *)
Definition is_ws (c : N) : bool :=
  ((9 <=? c) && (c <=? 13)) || (c =? 32) || (c =? 133) || (c =? 160) || (c =? 5760)
  || ((8192 <=? c) && (c <=? 8202)) || (c =? 8232) || (c =? 8233) || (c =? 8239)
  || (c =? 8287) || (c =? 12288).

Fixpoint trim_start (s : str) : str :=
  match s with
  | c :: s' => if is_ws c then trim_start s' else s
  | [] => []
  end.
Definition trim_end (s : str) : str := rev (trim_start (rev s)).
Definition trim (s : str) : str := trim_end (trim_start s).

(** [s.split(sep)]: always yields at least one (possibly empty) part. *)
Fixpoint split_on (sep : N) (s : str) : list str :=
  match s with
  | [] => [[]]
  | c :: s' =>
      if c =? sep then [] :: split_on sep s'
      else match split_on sep s' with
           | p :: ps => (c :: p) :: ps
           | [] => [[c]]   (* unreachable: split_on is never empty *)
           end
  end.

Fixpoint join (sep : N) (parts : list str) : str :=
  match parts with
  | [] => []
  | [p] => p
  | p :: ps => p ++ sep :: join sep ps
  end.

Definition no_char (c : N) (s : str) : Prop := ~ In c s.
Definition no_charb (c : N) (s : str) : bool := negb (existsb (N.eqb c) s).

Definition starts_ws (s : str) : bool := match s with c :: _ => is_ws c | [] => false end.
Definition ends_ws (s : str) : bool := starts_ws (rev s).
