(** Byte-exact Rust [str] semantics: a [&str] is the UTF-8 encoding (a byte
    list) of a list of scalar values. Only what the modelled code relies on:
    [len] (bytes), [is_char_boundary], [split_at] / range slicing (which PANIC
    off a character boundary), ASCII [starts_with]/[ends_with]/[find],
    [char::is_ascii_hexdigit], integer parsing ([from_str_radix], [FromStr]
    for the primitive integers) and decimal printing. No proofs here. *)
From DicomV Require Export Base.Str.

(** ---- UTF-8 encoder of one scalar value (total on N; values >= 2^21 are
    reduced, they are not scalar values anyway). *)
Definition utf8_char (c : N) : bytes :=
  if c <? 128 then [c]
  else if c <? 2048 then [192 + (c / 64) mod 32; 128 + c mod 64]
  else if c <? 65536 then [224 + (c / 4096) mod 16; 128 + (c / 64) mod 64; 128 + c mod 64]
  else [240 + (c / 262144) mod 8; 128 + (c / 4096) mod 64; 128 + (c / 64) mod 64; 128 + c mod 64].

Definition utf8 (s : str) : bytes := flat_map utf8_char s.

(** continuation byte 0b10xxxxxx *)
Definition is_cont (b : N) : bool := (128 <=? b) && (b <? 192).

(** [str::is_char_boundary]: 0 and len are boundaries, beyond len is not,
    otherwise the byte at the index must not be a continuation byte. *)
Definition is_char_boundary (s : bytes) (i : nat) : bool :=
  match i with
  | O => true
  | _ => match nth_error s i with
         | Some b => negb (is_cont b)
         | None => Nat.eqb i (length s)
         end
  end.

Definition P_char_boundary : N := 2.   (* panic class of slicing off a boundary / out of range *)

(** [s.split_at(mid)] *)
Definition split_at (s : bytes) (mid : nat) : outcome (bytes * bytes) :=
  if is_char_boundary s mid then Ok (firstn mid s, skipn mid s) else Panic P_char_boundary.

(** [&s[a..]] *)
Definition slice_from (s : bytes) (a : nat) : outcome bytes :=
  if is_char_boundary s a then Ok (skipn a s) else Panic P_char_boundary.

(** [&s[a..b]] *)
Definition slice (s : bytes) (a b : nat) : outcome bytes :=
  if Nat.leb a b && is_char_boundary s a && is_char_boundary s b
  then Ok (firstn (b - a) (skipn a s)) else Panic P_char_boundary.

(** [s.starts_with(c)], [s.ends_with(c)], [s.find(c)] for an ASCII char [c]
    (on valid UTF-8 an ASCII byte is always a whole character). *)
Definition starts_with (c : N) (s : bytes) : bool :=
  match s with b :: _ => b =? c | [] => false end.
Definition ends_with (c : N) (s : bytes) : bool := starts_with c (rev s).
Fixpoint find_byte (c : N) (s : bytes) : option nat :=
  match s with
  | [] => None
  | b :: s' => if b =? c then Some O else option_map S (find_byte c s')
  end.

(** ---- digits *)
Definition is_dec_digit (b : N) : bool := (48 <=? b) && (b <=? 57).
Definition is_ascii_hexdigit (b : N) : bool :=
  is_dec_digit b || ((65 <=? b) && (b <=? 70)) || ((97 <=? b) && (b <=? 102)).
(** value of a hexadecimal digit (0 for a non-digit; always guarded) *)
Definition hex_val (b : N) : N :=
  if is_dec_digit b then b - 48 else if (65 <=? b) && (b <=? 70) then b - 55 else b - 87.
Definition digit_ok (radix : N) (b : N) : bool :=
  if radix =? 16 then is_ascii_hexdigit b else is_dec_digit b.   (* radix 10 or 16 only *)
Definition digit_val (radix : N) (b : N) : N := if radix =? 16 then hex_val b else b - 48.

(** most-significant-first digits to number *)
Definition digits_val (radix : N) (ds : list N) : N :=
  fold_left (fun acc d => acc * radix + digit_val radix d) ds 0.

Definition plus_sign : N := 43.
Definition minus_sign : N := 45.

(** [uN::from_str_radix(s, radix)] for an unsigned type with maximum [max]:
    optional '+', at least one digit, no overflow (the running value is
    monotone, so checking the final value is the same as checking each step). *)
Definition uint_from_str_radix (radix max : N) (s : list N) : option N :=
  let ds := match s with c :: r => if c =? plus_sign then r else s | [] => [] end in
  match ds with
  | [] => None
  | _ => if forallb (digit_ok radix) ds
         then let v := digits_val radix ds in if v <=? max then Some v else None
         else None
  end.

(** The integer a decimal text denotes under Rust's integer syntax: optional
    '+', or '-' when the target type is [signed]; at least one digit; nothing
    else. Unbounded (no target range yet). *)
Definition text_int (signed : bool) (s : list N) : option Z :=
  let '(neg, ds) :=
    match s with
    | c :: r => if c =? plus_sign then (false, r)
                else if signed && (c =? minus_sign) then (true, r) else (false, s)
    | [] => (false, [])
    end in
  match ds with
  | [] => None
  | _ => if forallb is_dec_digit ds
         then let m := Z.of_N (digits_val 10 ds) in Some (if neg then (- m)%Z else m)
         else None
  end.

(** [iN::from_str] / [uN::from_str] (radix 10) with the target range [lo, hi]
    over Z: the number denoted, or failure when it is outside the range (the
    running value is monotone, so the per-digit overflow checks of std are
    equivalent to checking the final value). *)
Definition int_from_str (signed : bool) (lo hi : Z) (s : list N) : option Z :=
  match text_int signed s with
  | Some v => if (lo <=? v)%Z && (v <=? hi)%Z then Some v else None
  | None => None
  end.

(** ---- decimal printing ([Display] of the primitive integers) *)
Fixpoint dec_rev (fuel : nat) (n : N) : list N :=
  match fuel with
  | O => []
  | S f => (48 + n mod 10) :: (if n / 10 =? 0 then [] else dec_rev f (n / 10))
  end.
(** fuel: a number below 2^k has at most k decimal digits (k >= 1) *)
Definition print_dec (n : N) : list N := rev (dec_rev (S (N.to_nat (N.size n))) n).
Definition print_dec_z (z : Z) : list N :=
  match z with
  | Zneg p => minus_sign :: print_dec (Npos p)
  | _ => print_dec (Z.to_N z)
  end.

(** ---- hexadecimal printing, fixed width 4 ([{:04X}] / [{:04x}] of a u16) *)
Definition hex_digit (upper : bool) (d : N) : N :=
  if d <? 10 then 48 + d else (if upper then 55 else 87) + d.
Definition hex4 (upper : bool) (n : N) : list N :=
  [hex_digit upper ((n / 4096) mod 16); hex_digit upper ((n / 256) mod 16);
   hex_digit upper ((n / 16) mod 16); hex_digit upper (n mod 16)].

Definition bytes_eqb : bytes -> bytes -> bool := list_eqb N.eqb.
