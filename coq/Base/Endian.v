(** Fixed-width little/big-endian integer encodings over byte lists, with the
    lemmas every codec proof needs (proved by arithmetic, not bit twiddling). *)
From DicomV Require Export Base.Prelude.

Definition wf_bytes (b : bytes) : Prop := Forall (fun x => x < 256) b.
Definition wf_bytesb (b : bytes) : bool := forallb (fun x => x <? 256) b.

Fixpoint le_bytes (k : nat) (n : N) : bytes :=
  match k with
  | O => []
  | S k' => (n mod 256) :: le_bytes k' (n / 256)
  end.

Fixpoint le_val (b : bytes) : N :=
  match b with
  | [] => 0
  | x :: b' => x + 256 * le_val b'
  end.

Definition be_bytes (k : nat) (n : N) : bytes := rev (le_bytes k n).
Definition be_val (b : bytes) : N := le_val (rev b).

Definition le16 := le_bytes 2. Definition le32 := le_bytes 4. Definition le64 := le_bytes 8.
Definition be16 := be_bytes 2. Definition be32 := be_bytes 4. Definition be64 := be_bytes 8.

Lemma wf_bytesb_spec b : wf_bytesb b = true <-> wf_bytes b.
Proof.
  unfold wf_bytesb, wf_bytes. rewrite forallb_forall, Forall_forall.
  split; intros H x Hx; specialize (H x Hx); [apply N.ltb_lt in H|apply N.ltb_lt]; exact H.
Qed.

Lemma le_bytes_length k n : length (le_bytes k n) = k.
Proof. revert n; induction k as [|k IH]; intros n; cbn; [reflexivity|]. rewrite IH; reflexivity. Qed.

Lemma le_bytes_wf k n : wf_bytes (le_bytes k n).
Proof.
  revert n; induction k as [|k IH]; intros n; cbn; constructor.
  - apply N.mod_lt. discriminate.
  - apply IH.
Qed.

Lemma pow256_succ k : 2 ^ (8 * N.of_nat (S k)) = 256 * 2 ^ (8 * N.of_nat k).
Proof.
  rewrite Nat2N.inj_succ, N.mul_succ_r, N.pow_add_r. rewrite N.mul_comm. reflexivity.
Qed.

Lemma le_val_le_bytes k n : le_val (le_bytes k n) = n mod 2 ^ (8 * N.of_nat k).
Proof.
  revert n; induction k as [|k IH]; intros n.
  - cbn. rewrite N.mod_1_r. reflexivity.
  - cbn [le_bytes le_val]. rewrite IH, pow256_succ.
    rewrite N.mod_mul_r by (try discriminate; apply N.pow_nonzero; discriminate).
    reflexivity.
Qed.

Lemma le_val_le_bytes_small k n : n < 2 ^ (8 * N.of_nat k) -> le_val (le_bytes k n) = n.
Proof. intros H. rewrite le_val_le_bytes. apply N.mod_small; exact H. Qed.

Lemma le_val_bound b : wf_bytes b -> le_val b < 2 ^ (8 * N.of_nat (length b)).
Proof.
  induction b as [|x b IH]; intros H.
  - cbn. lia.
  - inversion H as [|? ? Hx Hb]; subst. specialize (IH Hb).
    cbn [le_val length]. rewrite pow256_succ. lia.
Qed.

Lemma le_bytes_le_val b : wf_bytes b -> le_bytes (length b) (le_val b) = b.
Proof.
  induction b as [|x b IH]; intros H; [reflexivity|].
  inversion H as [|? ? Hx Hb]; subst. cbn [length le_bytes le_val].
  assert (E1 : (x + 256 * le_val b) mod 256 = x).
  { rewrite N.mul_comm, N.mod_add by discriminate. apply N.mod_small; exact Hx. }
  assert (E2 : (x + 256 * le_val b) / 256 = le_val b).
  { rewrite N.mul_comm, N.div_add by discriminate. rewrite N.div_small by exact Hx. reflexivity. }
  rewrite E1, E2, IH by exact Hb. reflexivity.
Qed.

Lemma le_bytes_inj k a b :
  a < 2 ^ (8 * N.of_nat k) -> b < 2 ^ (8 * N.of_nat k) -> le_bytes k a = le_bytes k b -> a = b.
Proof.
  intros Ha Hb E. rewrite <- (le_val_le_bytes_small k a Ha), <- (le_val_le_bytes_small k b Hb), E.
  reflexivity.
Qed.

Lemma be_bytes_length k n : length (be_bytes k n) = k.
Proof. unfold be_bytes. rewrite rev_length. apply le_bytes_length. Qed.

Lemma be_bytes_wf k n : wf_bytes (be_bytes k n).
Proof. unfold be_bytes, wf_bytes. apply Forall_rev. apply le_bytes_wf. Qed.

Lemma be_val_be_bytes_small k n : n < 2 ^ (8 * N.of_nat k) -> be_val (be_bytes k n) = n.
Proof. intros H. unfold be_val, be_bytes. rewrite rev_involutive. apply le_val_le_bytes_small; exact H. Qed.

Lemma be_bytes_be_val b : wf_bytes b -> be_bytes (length b) (be_val b) = b.
Proof.
  intros H. unfold be_bytes, be_val. rewrite <- (rev_length b).
  rewrite le_bytes_le_val by (apply Forall_rev; exact H). apply rev_involutive.
Qed.

(** Splitting a stream after a fixed-width field. *)
Lemma firstn_le_bytes_app k n rest : firstn k (le_bytes k n ++ rest) = le_bytes k n.
Proof.
  rewrite firstn_app, le_bytes_length, Nat.sub_diag. cbn. rewrite app_nil_r.
  rewrite <- (le_bytes_length k n) at 1. apply firstn_all.
Qed.
Lemma skipn_le_bytes_app k n rest : skipn k (le_bytes k n ++ rest) = rest.
Proof.
  rewrite skipn_app, le_bytes_length, Nat.sub_diag. cbn.
  rewrite <- (le_bytes_length k n) at 1. rewrite skipn_all. reflexivity.
Qed.
Lemma firstn_be_bytes_app k n rest : firstn k (be_bytes k n ++ rest) = be_bytes k n.
Proof.
  rewrite firstn_app, be_bytes_length, Nat.sub_diag. cbn. rewrite app_nil_r.
  rewrite <- (be_bytes_length k n) at 1. apply firstn_all.
Qed.
Lemma skipn_be_bytes_app k n rest : skipn k (be_bytes k n ++ rest) = rest.
Proof.
  rewrite skipn_app, be_bytes_length, Nat.sub_diag. cbn.
  rewrite <- (be_bytes_length k n) at 1. rewrite skipn_all. reflexivity.
Qed.
