(** Compact notation for the byte lists printed by the harnesses into the
    correspondence shards: coqc needs ~50 us per constructor of a literal, so a
    byte list is printed as primitive 63-bit integers holding 7 bytes each
    (big-endian), [pk len [w1; w2; ...]%uint63], and long runs as [rep x n].
    Only used to transport test data; no theorem depends on this file. *)
From Coq Require Import Uint63.
From DicomV Require Export Base.Prelude Base.Endian.

Definition word_bytes (k : nat) (w : int) : bytes := be_bytes k (Z.to_N (Uint63.to_Z w)).
(* [len] = total number of bytes; every word holds 7 bytes except the last one *)
Fixpoint pk (len : N) (l : list int) : bytes :=
  match l with
  | [] => []
  | [w] => word_bytes (N.to_nat len) w
  | w :: r => word_bytes 7 w ++ pk (len - 7) r
  end.
Definition rep (x n : N) : list N := repeat x (N.to_nat n).
