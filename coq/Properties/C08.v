(** C08 — Flexible VR decoding agrees with the correct decoder.
    Statements only; models Model/ValueRead.v (decoders, reader) and
    Model/Adaptive.v (side conditions), proofs Proofs/AdaptiveP.v.

    [run dict rejects fuel kind strat odd total st] is the whole token stream
    of the data set reader (tokens with values, position(), bytes consumed)
    plus its final status; kind ADA = the reader built with
    flexible_decoding(true), ELE / ILE = the plain readers. Streams are
    arbitrary byte lists whose first header is not in group FFFE (the first
    element is the first thing in the stream). [dict] is any dictionary. *)
From DicomV Require Import Base.Prelude Base.Endian Model.ValueRead Model.Adaptive
  Proofs.ValueReadP Proofs.AdaptiveP.

(** ** Explicit VR Little Endian. Hypothesis (proof-forced, see
    C08_explicit_refuted): the VR written in the first element is a VR code the
    decoder knows AND is compatible with the dictionary entry of that
    attribute (or the attribute is unknown to the dictionary). Then the
    flexible reader produces exactly what the explicit reader produces, for
    the whole stream, every strategy, valid or not. *)
Theorem C08_explicit : forall dict rejects strat odd base b fuel,
  explicit_first_ok dict b = true ->
  run dict rejects fuel ADA strat odd (blen b) (init base b)
  = run dict rejects fuel ELE strat odd (blen b) (init base b).
Proof. exact run_explicit. Qed.

(** ** Implicit VR Little Endian, under exactly the property's side condition:
    the first two length bytes of the first element do not spell a VR
    compatible with the attribute's dictionary entry. Same tokens, positions
    and byte counts; same final status except that at the end of input on an
    item header inside encapsulated pixel data the implicit reader reports
    ReadItemHeader (class 4) where the flexible one stops quietly (0). *)
Theorem C08_implicit : forall dict rejects strat odd base b fuel,
  dict_no_fffe dict -> implicit_first_ok dict b = true ->
  let a := run dict rejects fuel ADA strat odd (blen b) (init base b) in
  let i := run dict rejects fuel ILE strat odd (blen b) (init base b) in
  fst a = fst i /\ (snd a = snd i \/ (snd i = 4 /\ snd a = 0)).
Proof. exact run_implicit. Qed.

(** The two side conditions are complementary: a first header outside group
    FFFE satisfies exactly one of them. *)
Theorem C08_conditions_complementary : forall dict b g e c,
  first_probe b = Some (g, e, c) -> g <> 65534 ->
  explicit_first_ok dict b = negb (implicit_first_ok dict b).
Proof.
  intros dict b g e c H Hg. unfold explicit_first_ok, implicit_first_ok. rewrite H.
  destruct (N.eqb_spec g 65534); [contradiction|]. cbn [negb andb].
  destruct (spells_compatible_vr dict g e c); reflexivity.
Qed.

(** ** Lock-in: once the state has left Unknown it never changes. *)
Theorem C08_lock_in : forall dict v s h n v' rest,
  v = 1 \/ v = 2 -> decode_header_raw dict ADA v s = HOk h n v' rest -> v' = v.
Proof. exact raw_lock_in. Qed.

Theorem C08_lock_in_reader : forall dict rejects fuel strat odd st t st',
  d_vrst (r_dec st) = 1 ->
  next dict rejects fuel ADA strat odd st = NTok t st' -> d_vrst (r_dec st') = 1.
Proof. exact reader_lock_in_explicit. Qed.

(** Locked, the adaptive decoder is the explicit resp. implicit header decoder. *)
Theorem C08_locked_explicit : forall dict v s,
  decode_header_raw dict ADA 1 s = map_h 1 (decode_header_raw dict ELE v s).
Proof. exact raw_locked_explicit. Qed.

Theorem C08_locked_implicit : forall dict v s,
  dict_no_fffe dict ->
  decode_header_raw dict ADA 2 s = map_h 2 (decode_header_raw dict ILE v s).
Proof. exact raw_locked_implicit. Qed.

(** ** The explicit hypothesis cannot be dropped (known finding
    ExplicitFirstVrIncompatible): (0008,0008) Image Type — CS in the dictionary —
    legally written with VR UN and 4 bytes of value. The explicit reader
    returns the element; the flexible reader takes "UN\0\0" for a 4-byte
    implicit length (20053) and fails to read the value. *)
Definition un_dict : N -> option vvr := fun k => if k =? 524296 then Some (VExact CS) else None.
Definition un_stream : bytes := [8;0;8;0; 85;78;0;0; 4;0;0;0; 65;66;67;68].
Theorem C08_explicit_refuted :
  explicit_first_ok un_dict un_stream = false /\
  run un_dict (fun _ _ => false) 10 ELE 1 0 (blen un_stream) (init 0 un_stream)
    = ([mkStep (TElem 8 8 UN 4) 12 12 0; mkStep (TValue (PU8 [65;66;67;68])) 16 16 0], 0) /\
  run un_dict (fun _ _ => false) 10 ADA 1 0 (blen un_stream) (init 0 un_stream)
    = ([mkStep (TElem 8 8 CS 20053) 8 8 0], 5).
Proof. repeat split; vm_compute; reflexivity. Qed.

(** Non-vacuity: an explicit stream (Image Type CS "AB", then Patient ID LO)
    and an implicit stream (Image Type, length 2) meet the hypotheses. *)
Definition ex_explicit : bytes := [8;0;8;0; 67;83;2;0; 65;66;  16;0;32;0; 76;79;2;0; 73;68].
Definition ex_implicit : bytes := [8;0;8;0; 2;0;0;0; 65;66].
Lemma un_dict_no_fffe : dict_no_fffe un_dict.
Proof.
  intros e. unfold un_dict, tkey. destruct (N.eqb_spec (65534 * 65536 + e) 524296) as [E|E]; [|reflexivity].
  exfalso. assert (H : 4294836224 <= 65534 * 65536 + e) by apply N.le_add_r.
  rewrite E in H. revert H. apply N.lt_nge. reflexivity.
Qed.
Example C08_nonvacuous :
  explicit_first_ok un_dict ex_explicit = true /\ implicit_first_ok un_dict ex_implicit = true
  /\ dict_no_fffe un_dict
  /\ snd (run un_dict (fun _ _ => false) 10 ADA 1 0 (blen ex_explicit) (init 0 ex_explicit)) = 0
  /\ length (fst (run un_dict (fun _ _ => false) 10 ADA 1 0 (blen ex_explicit) (init 0 ex_explicit))) = 4%nat.
Proof.
  split; [vm_compute; reflexivity|]. split; [vm_compute; reflexivity|].
  split; [exact un_dict_no_fffe|]. split; vm_compute; reflexivity.
Qed.

Check C08_explicit : forall dict rejects strat odd base b fuel,
  explicit_first_ok dict b = true ->
  run dict rejects fuel ADA strat odd (blen b) (init base b)
  = run dict rejects fuel ELE strat odd (blen b) (init base b).
Check C08_implicit : forall dict rejects strat odd base b fuel,
  dict_no_fffe dict -> implicit_first_ok dict b = true ->
  let a := run dict rejects fuel ADA strat odd (blen b) (init base b) in
  let i := run dict rejects fuel ILE strat odd (blen b) (init base b) in
  fst a = fst i /\ (snd a = snd i \/ (snd i = 4 /\ snd a = 0)).
Print Assumptions C08_explicit.
Print Assumptions C08_implicit.
Print Assumptions C08_conditions_complementary.
Print Assumptions C08_lock_in.
Print Assumptions C08_lock_in_reader.
Print Assumptions C08_locked_explicit.
Print Assumptions C08_locked_implicit.
Print Assumptions C08_explicit_refuted.
