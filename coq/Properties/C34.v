(** C34 — I/O failures are always reported. Statements only; proofs are in
    Proofs/FailIoP.v (generic fallible sinks/sources) and Proofs/PDataP.v
    (the faithful P-DATA writer model over arbitrary fault schedules).

    Generic part (Model/FailIo.v): a public write operation is abstracted as
    the sequence of write_all calls it performs on the sink, [checked] (result
    propagated) then [at_drop] (made when an adapter is dropped, result
    ignored). The theorems hold for EVERY such sequence, every chunking
    behaviour of the sink, every fail offset and both failure kinds (error,
    zero-length write). That the real writers are instances of this
    composition — with an empty drop phase for every writer except the
    deflated ones — is what the per-offset exhaustive comparison of the check
    establishes (see level_note: that part is tested, not proved). *)
From DicomV Require Import Base.Prelude Base.Endian Model.PData Model.FailIo Proofs.PDataP Proofs.PDataAsyncP Proofs.FailIoP.

(** A sink that fails before all bytes of the operation have been accepted
    makes the operation return an error (never Ok, never a panic). *)
Theorem C34_write_reports : forall sk op f,
  at_drop op = [] -> o_fail sk = Some f -> f < len (wop_bytes op) ->
  fst (run_wop sk op) = Err (fault_class (o_kind sk)).
Proof. exact write_reports. Qed.

(** Success implies the sink received every byte. *)
Theorem C34_no_partial_success : forall sk op,
  at_drop op = [] -> fst (run_wop sk op) = Ok tt -> snd (run_wop sk op) = wop_bytes op.
Proof. exact no_partial_success. Qed.

Theorem C34_never_panics : forall sk op, is_panic (fst (run_wop sk op)) = false.
Proof. exact never_panics. Qed.

(** In every case the sink holds exactly the prefix of the output up to the fail offset. *)
Theorem C34_received_prefix : forall sk op,
  snd (run_wop sk op) = take (room sk 0 (len (wop_bytes op))) (wop_bytes op).
Proof. exact run_wop_received. Qed.

(** Known finding DeflateFinalBlockAtDrop: with a drop phase the full statement
    is false — the sink fails inside the drop phase, the operation says Ok. *)
Theorem C34_deflate_refuted : exists sk op,
  fst (run_wop sk op) = Ok tt /\ snd (run_wop sk op) <> wop_bytes op.
Proof.
  exists (mk_osink 0 (Some 3) KErr), (mk_wop [[1; 2; 3]] [[3; 0]]).
  vm_compute. split; [reflexivity|discriminate].
Qed.

(** ... and it is the only way to fail: outside the known class both halves hold
    for operations with a drop phase too. *)
Theorem C34_outside_known : forall sk op, ~ fails_in_drop_phase sk op ->
  (fst (run_wop sk op) = Ok tt -> snd (run_wop sk op) = wop_bytes op) /\
  (forall f, o_fail sk = Some f -> f < len (wop_bytes op) -> fst (run_wop sk op) = Err (fault_class (o_kind sk))).
Proof. exact outside_known. Qed.

(** Readers: a source that fails before the operation has obtained all the
    bytes it asks for (or at its end-of-data probe) makes it return an error;
    success implies everything was consumed; no panic. *)
Theorem C34_read_reports : forall sr total op f,
  i_fail sr = Some f -> sumN (demands op) <= total ->
  f < sumN (demands op) \/ (probes_eof op = true /\ f = sumN (demands op)) ->
  fst (run_rop sr total op) = Err E_INJECTED.
Proof. exact read_reports. Qed.

(** A source that ENDS early (every call after [total] bytes is a zero-length
    read: connection closed, truncated file) before the operation has all the
    bytes it asks for makes it return an error, never success. *)
Theorem C34_read_reports_early_end : forall sr total op,
  i_fail sr = None -> total < sumN (demands op) ->
  fst (run_rop sr total op) = Err E_UNEXPECTED_EOF.
Proof. exact read_reports_early_end. Qed.

Theorem C34_read_no_partial_success : forall sr total op,
  sumN (demands op) <= total -> fst (run_rop sr total op) = Ok tt -> snd (run_rop sr total op) = sumN (demands op).
Proof. exact read_ok_all. Qed.

Theorem C34_read_never_panics : forall sr total op,
  sumN (demands op) <= total -> is_panic (fst (run_rop sr total op)) = false.
Proof. exact read_never_panics. Qed.

(** P-DATA writer (faithful model, explicit finish), ANY transport schedule
    with errors and zero-length writes at any call: no operation panics, and
    if every write_all and finish returned Ok then the wire holds the complete
    message and the transport never delivered a fault (the [u] delivered
    events are a fault-free prefix of the schedule). Contrapositive: a
    delivered fault makes some operation return an error. *)
Definition max_ok (max : N) : Prop := 6 < max <= MAXIMUM_PDU_SIZE.

Theorem C34_pdata_reports : forall ctx max chunks s results wire_bytes u,
  max_ok max ->
  run_sync ctx max (map OpWrite chunks) s true = (results, wire_bytes, u) ->
  Forall (fun r => is_panic r = false) results /\
  (Forall (fun r => is_okb r = true) results ->
     results = all_ok (S (length chunks))
     /\ wire_bytes = enc_all ctx (fragments (max - 6) (concat chunks))
     /\ exists delivered rest, s = delivered ++ rest /\ no_fault delivered /\ u = len delivered).
Proof.
  intros ctx max chunks s rs w u Hm. unfold max_ok, MAXIMUM_PDU_SIZE in Hm.
  apply run_sync_gen; [lia|change (2 ^ 32) with 4294967296; lia].
Qed.

(** The same for the async writer (poll_write state machine, tokio write_all,
    any pattern of Pending / partial writes / errors / zero-length writes). *)
Theorem C34_pdata_async_reports : forall ctx max chunks s results wire_bytes u,
  max_ok max ->
  run_async ctx max (map OpWrite chunks) s true = (results, wire_bytes, u) ->
  Forall (fun r => is_panic r = false) results /\
  (Forall (fun r => is_okb r = true) results ->
     results = all_ok (S (length chunks))
     /\ wire_bytes = enc_all ctx (fragments (max - 6) (concat chunks))).
Proof.
  intros ctx max chunks s rs w u Hm. unfold max_ok, MAXIMUM_PDU_SIZE in Hm.
  apply run_async_gen; [lia|change (2 ^ 32) with 4294967296; lia].
Qed.

(** Drop-time finish swallows errors (documented: "done automatically once the
    writer is dropped"): without the explicit finish the last PDU is lost
    silently; with it the error is reported. *)
Example C34_pdata_drop_swallows :
  run_sync 1 8 [OpWrite [7]] [Fail] false = ([Ok tt], [], 1) /\
  run_sync 1 8 [OpWrite [7]] [Fail; Fail] true = ([Ok tt; Err E_INJECTED], [], 2).
Proof. vm_compute. split; reflexivity. Qed.

(** Non-vacuity *)
Example C34_nonvacuous :
  let op := mk_wop [[1; 2]; [3; 4; 5]] [] in
  let sk := mk_osink 1 (Some 4) KZero in
  at_drop op = [] /\ o_fail sk = Some 4 /\ 4 < len (wop_bytes op)
  /\ run_wop sk op = (Err E_WRITE_ZERO, [1; 2; 3; 4]).
Proof. vm_compute. repeat split; reflexivity. Qed.

Check C34_write_reports : forall sk op f,
  at_drop op = [] -> o_fail sk = Some f -> f < len (wop_bytes op) ->
  fst (run_wop sk op) = Err (fault_class (o_kind sk)).
Check C34_no_partial_success : forall sk op,
  at_drop op = [] -> fst (run_wop sk op) = Ok tt -> snd (run_wop sk op) = wop_bytes op.
Check C34_outside_known : forall sk op, ~ fails_in_drop_phase sk op ->
  (fst (run_wop sk op) = Ok tt -> snd (run_wop sk op) = wop_bytes op) /\
  (forall f, o_fail sk = Some f -> f < len (wop_bytes op) -> fst (run_wop sk op) = Err (fault_class (o_kind sk))).
Check C34_read_reports : forall sr total op f,
  i_fail sr = Some f -> sumN (demands op) <= total ->
  f < sumN (demands op) \/ (probes_eof op = true /\ f = sumN (demands op)) ->
  fst (run_rop sr total op) = Err E_INJECTED.
Check C34_pdata_reports : forall ctx max chunks s results wire_bytes u,
  max_ok max ->
  run_sync ctx max (map OpWrite chunks) s true = (results, wire_bytes, u) ->
  Forall (fun r => is_panic r = false) results /\
  (Forall (fun r => is_okb r = true) results ->
     results = all_ok (S (length chunks))
     /\ wire_bytes = enc_all ctx (fragments (max - 6) (concat chunks))
     /\ exists delivered rest, s = delivered ++ rest /\ no_fault delivered /\ u = len delivered).
Check C34_pdata_async_reports : forall ctx max chunks s results wire_bytes u,
  max_ok max ->
  run_async ctx max (map OpWrite chunks) s true = (results, wire_bytes, u) ->
  Forall (fun r => is_panic r = false) results /\
  (Forall (fun r => is_okb r = true) results ->
     results = all_ok (S (length chunks))
     /\ wire_bytes = enc_all ctx (fragments (max - 6) (concat chunks))).
Check C34_read_reports_early_end : forall sr total op,
  i_fail sr = None -> total < sumN (demands op) ->
  fst (run_rop sr total op) = Err E_UNEXPECTED_EOF.
Print Assumptions C34_write_reports.
Print Assumptions C34_no_partial_success.
Print Assumptions C34_never_panics.
Print Assumptions C34_received_prefix.
Print Assumptions C34_deflate_refuted.
Print Assumptions C34_outside_known.
Print Assumptions C34_read_reports.
Print Assumptions C34_read_reports_early_end.
Print Assumptions C34_read_no_partial_success.
Print Assumptions C34_read_never_panics.
Print Assumptions C34_pdata_reports.
Print Assumptions C34_pdata_async_reports.
