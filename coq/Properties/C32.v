(** C32 — the storage SCP stores exactly what it receives, only directly inside
    its output directory, with a matching file meta group.
    Statements only; proofs are in Proofs/StorePathP.v.

    Level: partial.  The theorems are about the path function
    ([instance_file_name] + [PathBuf::push] + the lexical walk of the result)
    and about the P-DATA loop of [inner] (buffer reassembly, choice of the
    transfer syntax, file meta fields).  The binary, its sockets, the command
    and data set decoders, [write_to_file] and the file system (symbolic links,
    name length limits) are outside the model and are covered only by the
    correspondence run against the real [dicom-storescp] binary. *)
From DicomV Require Import Base.Str Model.StorePath Proofs.StorePathP.

(** Where a file lands.  For EVERY output directory text, EVERY working
    directory and EVERY SOP Instance UID text (any code points: separators,
    "..", absolute paths, NUL, ...), walking the path given to
    [write_to_file] arrives in the output directory itself and then takes one
    normal entry name: never a separator, never "." or "..", never empty.  So
    the parent of the stored file is the output directory (all strings). *)
Theorem C32_inside : forall cwd out uid,
  resolve cwd (store_path out uid) = resolve cwd out ++ [file_name uid]
  /\ normal_name (file_name uid).
Proof. intros. split; [apply store_path_inside|apply file_name_normal]. Qed.

Corollary C32_parent : forall cwd out uid,
  removelast (resolve cwd (store_path out uid)) = resolve cwd out.
Proof. intros. rewrite store_path_inside. apply removelast_last. Qed.

(** The code before the repair (commit 73af5f2) did not have this property:
    the same walk for "../x" leaves the output directory, and for an absolute
    UID text it ignores the output directory altogether. *)
Theorem C32_inside_refuted_before_fix :
  (exists cwd out uid, removelast (resolve cwd (old_store_path out uid)) <> resolve cwd out)
  /\ (exists cwd out uid, resolve cwd (old_store_path out uid) = [[116; 109; 112]; [120; 46; 100; 99; 109]]).
Proof.
  split.
  - exists [[119]], [111; 117; 116], [46; 46; 47; 120]. vm_compute. discriminate.
  - exists [[119]], [111; 117; 116], [47; 116; 109; 112; 47; 120]. vm_compute. reflexivity.
Qed.

(** Whatever P-DATA values a peer sends, in whatever order (ANY list), every
    file the loop writes is written through [store_path out _]; with
    [C32_inside] every file created is directly inside the output directory. *)
Theorem C32_all_files_inside : forall out pcs parse_ds name_max cwd vs s,
  Forall (fun f => removelast (resolve cwd (s_path f)) = resolve cwd out)
         (files_of (fst (run out pcs parse_ds name_max s vs))).
Proof.
  intros. eapply Forall_impl; [|apply run_files_from_store_path].
  intros f [uid ->]. apply C32_parent.
Qed.

(** Stores what it receives: for any sequence of complete C-STORE messages
    (command, then the data set cut in ANY number of fragments, empty ones
    included), from any state, the loop stores one file per message, built
    from the concatenation of the fragments ([expected] feeds exactly
    [m_data m] to the decoder), answers each message, and never fails —
    provided each message is storable: its presentation context was accepted,
    its reassembled data set is readable with a SOP class and instance UID,
    and the file name fits the file system's limit. *)
Theorem C32_stores_exact : forall out pcs parse_ds name_max msgs,
  Forall (storable pcs parse_ds name_max) msgs -> forall s,
  run out pcs parse_ds name_max s (flat_map pdvs_of msgs)
  = (flat_map (expected out pcs parse_ds) msgs, None).
Proof. exact run_messages. Qed.

(** File meta group and content of what is stored for a message: transfer
    syntax = the one negotiated for the presentation context the data arrived
    on; media storage SOP class / instance UID = those of the data set (not of
    the command); location = [store_path] of the command's Affected SOP
    Instance UID; content = the reassembled data set decoded and encoded again
    ([wr]).  The tool never writes the received bytes themselves, so "exactly
    what it receives" holds where decoding then encoding is the identity
    ([wr = m_data m], canonical encodings: C01/C02); the data set codec is
    outside this model. *)
Theorem C32_meta : forall out pcs parse_ds m ts cl ins wr,
  find_pc pcs (m_pc m) = Some ts -> parse_ds ts (concat (m_chunks m) ++ m_last m) = Some (cl, ins, wr) ->
  files_of (expected out pcs parse_ds m)
  = [mk_stored (store_path out (m_inst m)) ts cl ins wr].
Proof. intros. apply expected_files; assumption. Qed.

Corollary C32_content_exact : forall out pcs parse_ds m ts cl ins,
  find_pc pcs (m_pc m) = Some ts ->
  parse_ds ts (m_data m) = Some (cl, ins, m_data m) ->      (* re-encoding is the identity on this data set *)
  map s_data (files_of (expected out pcs parse_ds m)) = [concat (m_chunks m) ++ m_last m].
Proof. intros. erewrite expected_files by eassumption. reflexivity. Qed.

(** Non-vacuity: a storable two-fragment message on an accepted context, with
    a hostile UID, is stored inside "out". *)
Example C32_nonvacuous :
  let pcs := [(1, [49; 46; 50])] in
  let parse := fun (_ : str) (b : bytes) => if (length b =? 3)%nat then Some ([55], [56], b) else None in
  let m := mk_message 1 7 [67] [46; 46; 47; 120] [[1]; []; [2]] [3] in
  storable pcs parse 255 m
  /\ run [111; 117; 116] pcs parse 255 init_state (pdvs_of m)
     = ([Stored (mk_stored [111; 117; 116; 47; 46; 46; 95; 120; 46; 100; 99; 109] [49; 46; 50] [55] [56] [1; 2; 3]);
         StoreRsp 1 7 [67] [46; 46; 47; 120]], None).
Proof.
  cbn zeta. split.
  - split; [exists [49; 46; 50]; split; [reflexivity|discriminate]|vm_compute; discriminate].
  - vm_compute. reflexivity.
Qed.

Check C32_inside : forall cwd out uid,
  resolve cwd (store_path out uid) = resolve cwd out ++ [file_name uid]
  /\ normal_name (file_name uid).
Check C32_all_files_inside : forall out pcs parse_ds name_max cwd vs s,
  Forall (fun f => removelast (resolve cwd (s_path f)) = resolve cwd out)
         (files_of (fst (run out pcs parse_ds name_max s vs))).
Check C32_stores_exact : forall out pcs parse_ds name_max msgs,
  Forall (storable pcs parse_ds name_max) msgs -> forall s,
  run out pcs parse_ds name_max s (flat_map pdvs_of msgs)
  = (flat_map (expected out pcs parse_ds) msgs, None).
Check C32_meta : forall out pcs parse_ds m ts cl ins wr,
  find_pc pcs (m_pc m) = Some ts -> parse_ds ts (concat (m_chunks m) ++ m_last m) = Some (cl, ins, wr) ->
  files_of (expected out pcs parse_ds m)
  = [mk_stored (store_path out (m_inst m)) ts cl ins wr].
Print Assumptions C32_inside.
Print Assumptions C32_parent.
Print Assumptions C32_inside_refuted_before_fix.
Print Assumptions C32_all_files_inside.
Print Assumptions C32_stores_exact.
Print Assumptions C32_meta.
Print Assumptions C32_content_exact.
