(** C02 — Reading and rewriting a canonical stream reproduces it byte for byte.
    Statements only. [canon_encode] is the independent reference encoder of
    Spec/Ps35.v (written from PS3.5, lengths computed by the spec itself);
    [read_dataset]/[write_dataset] are the models of the dicom-rs reader/writer. *)
From Coq Require Import Sorting.Sorted.
From DicomV Require Import Base.Endian Model.Vr Model.Header Model.Prim Model.Dataset Model.Writer Model.Reader
  Spec.Ps35 Proofs.HeaderP Proofs.PrimP Proofs.WriterP Proofs.ValidP Proofs.FlatP Proofs.ValueP Proofs.ReaderP
  Proofs.RoundTripP Proofs.RewriteP Proofs.ReadStepsP Proofs.CanonTreeP Proofs.CanonTreeGP.
Open Scope N_scope.

(** The property's FIRST sentence: for every canonical data set [es] (nested
    sequences and items of any depth, each flagged EXPLICIT or undefined length
    independently, encapsulated pixel data), reading the reference stream and
    writing the object back keeping recorded lengths (NoChange) reproduces the
    stream exactly. [canonical_g] (Proofs/CanonTreeGP.v): canonical value
    fields, ascending tags in every element list, sequence tags outside group
    FFFE and not Pixel Data, no Pixel Representation element, explicit contents
    even and shorter than 2^32-1 bytes, and for an explicit-length sequence the
    reader must see VR SQ (always in explicit VR; by dictionary in implicit VR).
    Proof: the reference encoding, whose lengths the SPEC computed, equals the
    NoChange writer's direct encoding of the object [of_c_g] that records those
    lengths; every successful encoding of a sub-tree is the reference encoding,
    so the recorded lengths are the actual ones, which is what the reader's
    position-based end detection needs (C01's general round trip). *)
Theorem C02_nesting : forall c d es,
  delim_ok c d -> Forall (canonical_g c d) es -> StronglySorted tag_lt (map ctag es) ->
  exists obj, read_dataset c d (canon_encode c es) = Ok obj /\
              write_dataset c true false obj = Ok (canon_encode c es).
Proof. intros c d es. exact (read_rewrite_tree_g c d es). Qed.

(** Non-vacuity: explicit-length sequence holding an explicit item (with a nested
    undefined sequence) and an undefined item; the theorem's conclusion computed. *)
Example C02_explicit_nonvacuous :
  let d : dict_t := fun _ => None in
  let es := [ CPrim (16, 16) PN [68; 111; 101; 32];
              CSeq (64, 629) true [ (true, [CPrim (8, 256) SH [65; 32]; CSeq (8, 4416) false [(true, [])]]); (false, []) ] ] in
  delim_ok ELE d /\ Forall (canonical_g ELE d) es /\ StronglySorted tag_lt (map ctag es) /\
  match read_dataset ELE d (canon_encode ELE es) with
  | Ok obj => write_dataset ELE true false obj = Ok (canon_encode ELE es)
              /\ write_dataset ELE false false obj <> Ok (canon_encode ELE es)
  | _ => False
  end.
Proof.
  cbv zeta. split; [reflexivity|]. split; [|split].
  - repeat constructor; unfold canon_val, wf_tag, wf_bytes, size_ok; cbn;
      repeat (split || constructor); cbn; try reflexivity; try discriminate; try lia; try (intros; discriminate);
      try (intros; congruence); try (intros H; exfalso; apply H; reflexivity);
      try (unfold tag_lt, tag_ltb; reflexivity).
  - repeat constructor; unfold tag_lt, tag_ltb; reflexivity.
  - vm_compute. split; [reflexivity | discriminate].
Qed.

(** Proved part (flat canonical streams, any codec): reading the reference
    stream and writing the object back, with either strategy, reproduces the
    stream exactly (all 33 non-SQ VRs, AT included). Nesting is not in this part. *)
Theorem C02_flat_partial : forall c d nochange es,
  canon_flat c d es -> StronglySorted tag_lt (map ctag es) ->
  exists obj, read_dataset c d (canon_encode c es) = Ok obj /\
              write_dataset c nochange false obj = Ok (canon_encode c es).
Proof. intros c d nc es. exact (read_rewrite_flat c d nc es). Qed.

(** Proved part 2: NESTED canonical streams in which every sequence and item
    has UNDEFINED length (any depth), incl. encapsulated pixel data with offset
    table and even-length fragments: reading the reference stream and writing
    the object back reproduces the stream exactly, with the default writer
    settings (this is the second sentence of the property) and also with
    NoChange (all recorded lengths are undefined, the two strategies coincide).
    Proof (Proofs/CanonTreeP.v): the reference encoding equals the writer's
    encoding of the object [of_c] (structural induction over the spec-level
    data set, value level by [C02_element]); that object is readable and its
    own normal form; the nested round trip of C01 does the rest. *)
Theorem C02_undefined_nesting : forall c d nochange es,
  delim_ok c d -> Forall (canonical c d) es -> StronglySorted tag_lt (map ctag es) ->
  exists obj, read_dataset c d (canon_encode c es) = Ok obj /\
              write_dataset c nochange false obj = Ok (canon_encode c es).
Proof. intros c d nc es. exact (read_rewrite_tree c d nc es). Qed.

Example C02_nested_nonvacuous :
  let d : dict_t := fun _ => None in
  let es := [ CPrim (16, 16) PN [68; 111; 101; 32];
              CSeq (64, 629) false [ (false, [CPrim (8, 256) SH [65; 32]; CSeq (8, 4416) false [(false, [])]]); (false, []) ];
              CPix [] [[1; 2]; []] ] in
  delim_ok ELE d /\ Forall (canonical ELE d) es /\ StronglySorted tag_lt (map ctag es).
Proof.
  cbv zeta. split; [reflexivity|]. split.
  - repeat constructor; unfold canon_val, wf_tag, wf_bytes; cbn;
      repeat (split || constructor); cbn; try reflexivity; try discriminate; try lia; try (intros; discriminate);
      try (intros; congruence); try (intros H; exfalso; apply H; reflexivity);
      try (unfold tag_lt, tag_ltb; reflexivity).
  - repeat constructor; unfold tag_lt, tag_ltb; reflexivity.
Qed.

(** Element level: what was read from a canonical value field re-encodes to the same bytes. *)
Theorem C02_element : forall c t v val p,
  canon_val c v val -> back_value c v val = Ok p ->
  enc_prim_element c t v p = Ok (ps35_header c t v (blen val) ++ val).
Proof. exact rewrite_element. Qed.

(** The two value facts behind it: the default text codec and the splitting
    on backslash are byte preserving; words re-encode to themselves. *)
Theorem C02_text_identity : forall b, join_bs (split_on_byte 92 b) = b.
Proof. exact join_split. Qed.
Theorem C02_words_identity : forall c k n b,
  length b = (n * k)%nat -> wf_bytes b -> enc_words c k (dec_words c k n b) = b.
Proof. exact enc_words_dec_words. Qed.

(** Non-vacuity: a canonical flat stream (explicit VR big endian). *)
Example C02_nonvacuous :
  let es := [CPrim (16, 16) PN [68; 111; 101; 32]; CPrim (40, 16) US [2; 0; 0; 7]] in
  canon_flat EBE (fun _ => None) es /\
  match read_dataset EBE (fun _ => None) (canon_encode EBE es) with
  | Ok obj => write_dataset EBE true false obj = Ok (canon_encode EBE es)
  | _ => False
  end.
Proof.
  split.
  - cbn [canon_flat]. unfold canon_val, wf_tag, wf_bytes. cbn.
    repeat split; try (intros; discriminate); try lia; try (repeat constructor; lia); try (intros; cbn; lia);
      try (intros _; exists 2%nat; reflexivity).
  - vm_compute. reflexivity.
Qed.

Check C02_nesting : forall c d es,
  delim_ok c d -> Forall (canonical_g c d) es -> StronglySorted tag_lt (map ctag es) ->
  exists obj, read_dataset c d (canon_encode c es) = Ok obj /\
              write_dataset c true false obj = Ok (canon_encode c es).
Check C02_undefined_nesting : forall c d nochange es,
  delim_ok c d -> Forall (canonical c d) es -> StronglySorted tag_lt (map ctag es) ->
  exists obj, read_dataset c d (canon_encode c es) = Ok obj /\
              write_dataset c nochange false obj = Ok (canon_encode c es).
Check C02_flat_partial : forall c d nochange es,
  canon_flat c d es -> StronglySorted tag_lt (map ctag es) ->
  exists obj, read_dataset c d (canon_encode c es) = Ok obj /\
              write_dataset c nochange false obj = Ok (canon_encode c es).
Print Assumptions C02_nesting.
Print Assumptions C02_undefined_nesting.
Print Assumptions C02_flat_partial.
Print Assumptions C02_element.
Print Assumptions C02_text_identity.
Print Assumptions C02_words_identity.
