(** C30 — Association release and abort follow the upper-layer protocol.
    Statements only; proofs are in Proofs/UlLtsP.v.

    Model/UlLts.v is a labelled transition system of the two peers of an
    established association and the two directions of the connection; the
    peers are the dicom-rs behaviours (ul/src/association/mod.rs send, receive,
    release, abort; dropping the association; the storescp acceptor loop).
    Spec/Ps38Fsm.v is the PS3.8 state machine (Table 9-10, Sta6..Sta13), written
    from the standard.  Every theorem below quantifies over ALL traces of the
    transition system, i.e. all interleavings of the two peers' actions and of
    connection resets, of any length (induction over traces; nothing is bounded).

    The property text speaks of a TLA+ model being model-checked; here the same
    two-peer machine is a Coq definition and its invariants are proved for every
    trace.  The executable acceptor [lts_accepts] (same [step] function) validates
    the traces captured from the real requestor/acceptor on every run. *)
From DicomV Require Import Model.UlLts Model.UlProject Proofs.UlLtsP.

(** A release completes only after a release reply is received — and that reply
    was sent by the peer after it received this very release request: the four
    events occur in this order in the trace. *)
Theorem C30_release_after_rp :
  forall tr s p,
    run init tr = Some s -> pst s p = Done Released ->
    subseq [LRelease p; LRecv (other p) KRq; LSendRp (other p); LAwait p (IPdu KRp)] tr.
Proof. exact release_after_rp. Qed.

(** No data transfer follows a completed release: after the event that
    completes a release, no peer does anything any more (only connection resets
    remain possible); in particular no P-DATA-TF is sent. *)
Theorem C30_no_pdata_after_release :
  forall tr s p t1 t2,
    run init tr = Some s -> tr = t1 ++ LAwait p (IPdu KRp) :: t2 ->
    forall l, In l t2 -> actor l = None.
Proof. exact nothing_after_release. Qed.

(** An abort or an unexpected PDU (or the end of the connection) during
    release ends the association with an error and closes the connection; an
    A-ABORT received while established ends it too; abort() sends A-ABORT and
    closes; and an ended peer never acts again. *)
Theorem C30_abort_or_unexpected_closes :
  (forall s p i s', step s (LAwait p i) = Some s' -> i <> IPdu KRp ->
     pst s' p = Done ReleaseFailed /\ chan s' p = chan s p ++ [Fin]) /\
  (forall s p s', step s (LRecv p KAbort) = Some s' ->
     pst s' p = Done PeerAborted /\ chan s' p = chan s p ++ [Fin]) /\
  (forall s p s', step s (LAbort p) = Some s' ->
     pst s' p = Done Aborted /\ chan s' p = chan s p ++ [IPdu KAbort; Fin]) /\
  (forall s l s' p, step s l = Some s' -> is_done (pst s p) = true ->
     pst s' p = pst s p /\ actor l <> Some p).
Proof.
  split; [exact release_failure_closes|]. split; [exact abort_received_closes|].
  split; [exact abort_closes | exact step_done_stable].
Qed.

(** An acceptor (any peer) that received a release request answers it with a
    release reply: it is its only possible action, always possible, the reply
    is written before the connection is closed; and a release reply is only
    ever sent in answer to a release request. *)
Theorem C30_scp_answers_release :
  (forall s p, pst s p = GotRq ->
     (forall l s', step s l = Some s' -> actor l = Some p -> l = LSendRp p) /\
     (exists s', step s (LSendRp p) = Some s' /\ pst s' p = Done AnsweredRelease /\
                 chan s' p = chan s p ++ [IPdu KRp; Fin])) /\
  (forall tr s p, run init tr = Some s -> In (LSendRp p) tr ->
     subseq [LRelease (other p); LRecv p KRq; LSendRp p] tr).
Proof. split; [exact got_rq_answers | exact rp_only_in_answer]. Qed.

(** A release reply never reaches a peer that is not releasing (so the branch
    of the acceptor loop that ignores unknown PDUs is never taken for it). *)
Theorem C30_no_stray_rp :
  forall tr s p, run init tr = Some s -> (0 < cnt KRp (chan s (other p)))%nat -> rel2 (pst s p) = true.
Proof. exact no_stray_rp. Qed.

(** Every behaviour of the two dicom-rs peers is a behaviour of the PS3.8 state
    machine: for every trace and each peer, the peer's events (with the PDU it
    put on the wire at each of them) are a run of the PS3.8 machine from Sta6,
    ending in the state that corresponds to the peer's state.  (Reading of the
    dicom-rs closes in PS3.8 terms: Model/UlProject.v.) *)
Theorem C30_refines_ps38 :
  forall tr s p,
    run init tr = Some s ->
    ps38_run (role_of p) Sta6 (project p tr) = Some (sta_of (pst s p)).
Proof. exact refines_ps38. Qed.
Theorem C30_accepted_traces_are_ps38 :
  forall tr p, lts_accepts tr = true -> ps38_accepts (role_of p) (project p tr) = true.
Proof. exact accepted_by_ps38. Qed.

(** Non-vacuity: data both ways, a release collision seen from the acceptor,
    and the ordinary release, are traces of the system. *)
Example C30_nonvacuous_release :
  run init [LSendData Requestor; LRecv Acceptor KData; LSendData Acceptor; LRecv Requestor KData;
            LRelease Requestor; LRecv Acceptor KRq; LSendRp Acceptor; LAwait Requestor (IPdu KRp)]
  = Some {| st_rq := Done Released; st_ac := Done AnsweredRelease; ch_rq := [Fin]; ch_ac := [Fin] |}.
Proof. reflexivity. Qed.
Example C30_nonvacuous_collision :
  lts_accepts [LRelease Requestor; LRelease Acceptor; LAwait Acceptor (IPdu KRq); LAwait Requestor (IPdu KRq)] = true
  /\ lts_accepts [LRelease Requestor; LRelease Acceptor; LAwait Requestor (IPdu KRp)] = false
  /\ lts_accepts [LRelease Requestor; LSendData Acceptor; LAwait Requestor (IPdu KData); LRecv Acceptor KRq;
                  LSendRp Acceptor; LLose Requestor] = true.
Proof. repeat split; reflexivity. Qed.

Check C30_release_after_rp :
  forall tr s p,
    run init tr = Some s -> pst s p = Done Released ->
    subseq [LRelease p; LRecv (other p) KRq; LSendRp (other p); LAwait p (IPdu KRp)] tr.
Check C30_no_pdata_after_release :
  forall tr s p t1 t2,
    run init tr = Some s -> tr = t1 ++ LAwait p (IPdu KRp) :: t2 ->
    forall l, In l t2 -> actor l = None.
Check C30_refines_ps38 :
  forall tr s p,
    run init tr = Some s ->
    ps38_run (role_of p) Sta6 (project p tr) = Some (sta_of (pst s p)).
Print Assumptions C30_release_after_rp.
Print Assumptions C30_no_pdata_after_release.
Print Assumptions C30_abort_or_unexpected_closes.
Print Assumptions C30_scp_answers_release.
Print Assumptions C30_no_stray_rp.
Print Assumptions C30_refines_ps38.
Print Assumptions C30_accepted_traces_are_ps38.
