(** C23 - under construction *)
From DicomV Require Import Model.Json.
