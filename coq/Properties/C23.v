(** C23 - DICOM JSON serialisation round-trips; deserialising never panics.
    Statements only; proofs are in Proofs/JsonBaseP.v, JsonP.v, JsonTotalP.v.

    [ser] is dicom_json::to_value, [de] is dicom_json::from_value, [de_text] is
    dicom_json::from_str on syntactically valid text (Model/Json.v). [X : ext]
    holds the trusted float <-> decimal text functions of Rust's std; every
    theorem holds for all of them. *)
From DicomV Require Import Model.Json Proofs.JsonBaseP Proofs.JsonP Proofs.JsonTotalP Proofs.JsonCanonP.

(** Round trip, any nesting depth: a well-formed data set (ascending tags, no
    encapsulated pixel data, value kinds that fit the VR) serialises, and the
    result deserialises to the data set normalised as documented ([norm_dset]:
    padding trimmed, IS/DS as numeric strings, binary VRs as bytes, numbers in
    the VR's native type, NaN payloads dropped, empty trailing PN groups dropped). *)
Theorem C23_rt : forall X d,
  wf_dset d = true -> exists j, ser X d = Ok j /\ de X j = Ok (norm_dset X d).
Proof. exact de_ser_roundtrip. Qed.

(** On canonical data sets (the form the deserialiser itself produces: strings
    without trailing padding, numbers in the VR's native type, IS/DS as strings,
    binary VRs as bytes, no NaN payloads, no empty trailing PN group) the
    normalisation is the identity: the round trip returns the data set itself. *)
Theorem C23_rt_exact : forall X d,
  wf_dset d = true -> canon_dset d = true -> exists j, ser X d = Ok j /\ de X j = Ok d.
Proof. exact de_ser_exact. Qed.

(** Deserialising any JSON value returns a data set or an error: the
    [unreachable!()] of DataElementVisitor::visit_map and every other panic of
    the model cannot be reached (after fix 0bd6776). *)
Theorem C23_total : forall X j w, de X j <> Panic w.
Proof. exact de_never_panics. Qed.

(** ... also through from_str, where documents may repeat keys. *)
Theorem C23_total_text : forall X j w, de_text X j <> Panic w.
Proof. exact de_text_never_panics. Qed.

(** The scalar round trips the theorem rests on, for all inputs. *)
Theorem C23_base64 : forall b, wf_bytes b -> b64dec (b64enc b) = Some b.
Proof. exact b64dec_enc. Qed.
Theorem C23_float32 : forall b, b < 2 ^ 32 -> f32_finite b = true -> f64_to_f32 (f32_to_f64 b) = b.
Proof. exact narrow_widen. Qed.
Theorem C23_int_text : forall signed lo hi z,
  (lo <= z <= hi)%Z -> (z < 0 -> signed = true)%Z -> parse_int signed lo hi (dec_Z z) = Some z.
Proof. exact parse_int_dec_Z. Qed.
Theorem C23_tag_key : forall t, t < 2 ^ 32 -> tag_from_str (hex8 t) = Some t.
Proof. exact tag_from_str_hex8. Qed.

(** Non-vacuity: a data set with a nested sequence, a person name with component
    groups, non-finite floats, a 64-bit integer and binary data is well-formed. *)
Definition C23_example : dset :=
  dset_of [ (524309, V_SQ, vseq [dset_of [(1048608, V_LO, VPrim (PStrs [[73; 68; 32]]))]; dset_of []]);
            (1048592, V_PN, VPrim (PStrs [[65; 61; 66; 61; 67]]));
            (1572944, V_FL, VPrim (PF32 [2143289345; 4286578688; 1069547520]));
            (1572945, V_UV, VPrim (PInt KU64 [18446744073709551615%Z]));
            (2145386512, V_OW, VPrim (PInt KU16 [1%Z; 65534%Z])) ].
Example C23_nonvacuous : wf_dset C23_example = true.
Proof. reflexivity. Qed.

Definition C23_example_canonical : dset :=
  dset_of [ (524309, V_SQ, vseq [dset_of [(1048608, V_LO, VPrim (PStrs [[73; 68]]))]; dset_of []]);
            (1048592, V_PN, VPrim (PStrs [[65; 61; 66; 61; 67]]));
            (1572944, V_FL, VPrim (PF32 [2143289344; 4286578688; 1069547520]));
            (1572945, V_UV, VPrim (PInt KU64 [18446744073709551615%Z]));
            (2145386512, V_OW, VPrim (PInt KU8 [1%Z; 0%Z; 254%Z; 255%Z])) ].
Example C23_nonvacuous_exact : wf_dset C23_example_canonical = true /\ canon_dset C23_example_canonical = true.
Proof. split; reflexivity. Qed.

Check C23_rt : forall X d, wf_dset d = true -> exists j, ser X d = Ok j /\ de X j = Ok (norm_dset X d).
Check C23_rt_exact : forall X d,
  wf_dset d = true -> canon_dset d = true -> exists j, ser X d = Ok j /\ de X j = Ok d.
Check C23_total : forall X j w, de X j <> Panic w.
Check C23_total_text : forall X j w, de_text X j <> Panic w.
Print Assumptions C23_rt.
Print Assumptions C23_rt_exact.
Print Assumptions C23_total.
Print Assumptions C23_total_text.
Print Assumptions C23_base64.
Print Assumptions C23_float32.
Print Assumptions C23_int_text.
Print Assumptions C23_tag_key.
