(** C10 — Text is encoded and decoded faithfully in every supported character set.
    Statements only; proofs are in Proofs/TextP.v and Proofs/Utf8P.v.

    [mb : charset -> codec] stands for the five multi-byte codecs of the external
    `encoding` crate (ISO_IR 13, ISO_IR 87, ISO_IR 149, GB18030, GBK), which are not
    modelled. Every theorem below quantifies over ALL [mb]; only
    [C10_multibyte_partial] assumes something about them. *)
From DicomV Require Import Base.Str Gen.GenCharsets Model.Text Proofs.TextP.
Open Scope N_scope.

(* ------------------------------------------------------------------ the sets and their tables *)

(** The implementation exposes exactly the 16 sets of the model, under these names
    (regenerated table), and the complete sweep of all scalar values found exactly the
    ten sets the model treats as single-byte to be single-byte. *)
Theorem C10_sets :
  List.length all_charsets = 16%nat /\ gen_names = map name all_charsets
  /\ map (fun r => let '(i, _, single) := r in (i, single)) gen_summary
     = map (fun cs => (cs_index cs, match kind_of cs with KSingle => true | _ => false end)) all_charsets.
Proof. split; [reflexivity|]. split; [exact gen_names_ok | exact gen_summary_single]. Qed.

(** The encode tables are complete: the sweep of ALL scalar values (0 .. 0x10FFFF, done by the
    table generator) found exactly the rows listed, at most 256 per single-byte set. *)
Theorem C10_encode_tables_complete : forallb summary_row_ok gen_summary = true.
Proof. exact gen_summary_counts. Qed.

(** Every regenerated decode table is complete: 256 rows. *)
Theorem C10_tables_complete : forall cs, kind_of cs = KSingle -> List.length (sb_dec cs) = 256%nat.
Proof. exact sb_dec_length. Qed.

(** The repertoire of a single-byte set (what [encode] accepts) is exactly the set of
    characters its decoder produces from one byte; every other byte decodes to the octal
    escape of [decode_text_trap]. *)
Theorem C10_repertoire : forall cs c, kind_of cs = KSingle ->
  (in_repb cs c = true <-> exists b, b < 256 /\ sb_decode_byte (sb_dec cs) b = [c]).
Proof. intros cs c Hk. exact (in_rep_iff cs Hk c). Qed.
Theorem C10_undecodable_bytes : forall cs b, kind_of cs = KSingle -> b < 256 ->
  (exists c, sb_decode_byte (sb_dec cs) b = [c] /\ in_repb cs c = true) \/ sb_decode_byte (sb_dec cs) b = trap b.
Proof. exact undecodable_bytes. Qed.

(* ------------------------------------------------------------------ codec level *)

(** Round trip for ALL strings over the repertoire, for the ten single-byte sets and UTF-8
    (for UTF-8 the repertoire is every Unicode scalar value; the per-character fact is a
    complete sweep of 0 .. 0x10FFFF, lifted to strings by induction). *)
Theorem C10_roundtrip : forall mb cs s,
  kind_of cs <> KMulti -> forallb (in_repb cs) s = true ->
  (b <- encode mb cs s ;; decode mb cs b) = Ok s.
Proof. exact roundtrip_modelled. Qed.
Theorem C10_single_byte : forall mb cs s,
  kind_of cs = KSingle -> forallb (in_repb cs) s = true -> (b <- encode mb cs s ;; decode mb cs b) = Ok s.
Proof. intros mb cs s Hk. apply C10_roundtrip. congruence. Qed.
Theorem C10_utf8 : forall mb s,
  forallb is_scalar s = true -> (b <- encode mb IR192 s ;; decode mb IR192 b) = Ok s.
Proof. intros mb s. apply (C10_roundtrip mb IR192 s). discriminate. Qed.

(** Strict: a character outside the repertoire makes [encode] fail, wherever it stands. *)
Theorem C10_strict : forall mb cs s1 c s2,
  kind_of cs <> KMulti -> in_repb cs c = false -> encode mb cs (s1 ++ c :: s2) = Err err_encode.
Proof. exact encode_strict. Qed.

(** Defined terms: the name of each of the 16 sets maps back to it, every accepted alias
    maps to the set the code lists it under, and the implementation's answer on every
    candidate term (regenerated table, includes unsupported terms and near misses) is the
    model's. *)
Theorem C10_terms : forall cs, from_code (name cs) = Some cs.
Proof. exact from_code_name. Qed.
Theorem C10_aliases : forall t cs, In (t, cs) code_table -> from_code (s2l t) = Some cs.
Proof. exact from_code_alias. Qed.
Theorem C10_terms_observed : forallb term_row_ok gen_terms = true.
Proof. exact gen_terms_ok. Qed.

(* ------------------------------------------------------------------ data-set level *)

(** In a stream of text elements, as long as no multi-byte set is needed ([ds_ok] with no
    assumed multi-byte codec: every element either has a default-repertoire VR or is
    written while a single-byte set or UTF-8 is in force), every value is made of
    characters of the repertoire in force, values of a multi-valued VR contain no
    backslash, and (0008,0005) has VR CS: writing succeeds and reading the written bytes
    back gives, element by element, the text written plus at most one padding character,
    with the codec switched at every Specific Character Set element. *)
Theorem C10_dataset : forall mb cur es,
  ds_ok (fun _ _ => False) (fun _ => False) cur es -> ds_rt mb cur es.
Proof. exact dataset_modelled. Qed.

(** "Encoded with that set": after an element (0008,0005) naming a supported set, that set
    is in force ([cs_after] folds this over a prefix), and the value bytes of a text element
    are the padded [encode] of the set in force there (the default set for the
    default-repertoire VRs). *)
Theorem C10_switch : forall cur cs rest, next_write_cs cur scs_tag (VStrs (name cs :: rest)) = cs.
Proof. exact next_write_scs. Qed.
Theorem C10_written_with_set : forall mb pre cur tag v t r wire,
  write_ds mb cur (pre ++ (tag, v, VStr t) :: r) = Ok wire ->
  exists b, encode mb (eff (cs_after cur pre) v) t = Ok b /\ nth (List.length pre) wire [] = pad v b.
Proof. exact written_with_set. Qed.

(** An element holding a character the set in force cannot represent makes the whole
    write fail (never a silent substitution), whatever precedes or follows it. *)
Theorem C10_dataset_strict : forall mb pre cur tag v x r,
  kind_of (eff (cs_after cur pre) v) <> KMulti ->
  (exists t c, In t (texts x) /\ In c t /\ in_repb (eff (cs_after cur pre) v) c = false) ->
  forall wire, write_ds mb cur (pre ++ (tag, v, x) :: r) <> Ok wire.
Proof. exact write_ds_strict. Qed.

(** VRs restricted to the default repertoire (AE AS CS DA DS DT IS TM UI) are unaffected by
    the set in force, when written and when read. *)
Theorem C10_default_vrs_unaffected : forall mb cur cur' v,
  enc_default_vr v = true ->
  (forall x, write_value mb cur v x = write_value mb cur' v x)
  /\ (forall b, read_value mb false cur v b = read_value mb false cur' v b).
Proof. exact default_vrs_unaffected. Qed.

(* ------------------------------------------------------------------ multi-byte sets: partial *)

(** Full statement for the five multi-byte sets (NOT proved: their codecs live in the
    external `encoding` crate and are not modelled; they are covered differentially by the
    harness only, and the known findings below show where it fails):
      for every repertoire string s of such a set, decode (encode s) = Ok s, and data sets
      under such a set read back unchanged. *)
Definition C10_multibyte_stmt := multibyte_stmt.
(* = fun mb mbrep =>
     (forall cs s, Forall (rep mbrep cs) s -> (b <- encode mb cs s ;; decode mb cs b) = Ok s)
     /\ (forall cur es, ds_ok mbrep (fun _ => True) cur es -> ds_rt mb cur es)           (Model/Text.v) *)

(** What is proved: the statement follows for ANY multi-byte codecs that, on their
    repertoire, decode what they encode, keep byte 0x5C for the backslash only and decode
    a trailing padding space as a space (hypothesis [good_codec], trusted base). The
    data-set layer (switching, splitting, padding, default-repertoire VRs) is proved. *)
Theorem C10_multibyte_partial : forall mb mbrep,
  (forall cs, kind_of cs = KMulti -> good_codec pad_space (mbrep cs) (mb cs)) ->
  C10_multibyte_stmt mb mbrep.
Proof. exact multibyte_partial. Qed.

(** Known findings: the hypothesis is false of the real multi-byte codecs in two ways the
    data-set layer does not cope with (premises are facts observed on the implementation,
    re-observed by the corpus cases of every run). *)
Theorem C10_mb_backslash_refuted : forall mb,
  c_enc (mb IR13) [12477] = Ok [131; 92] ->
  ~ ds_rt mb CsDefault [(scs_tag, CS, VStrs [name IR13]); (pn_tag, PN, VStrs [[12477]])].
Proof. exact mb_backslash_refuted. Qed.
Theorem C10_iso2022_pad_refuted : forall mb,
  c_enc (mb IR87) [23665] = Ok [27; 36; 66; 59; 51] ->
  c_dec (mb IR87) [27; 36; 66; 59; 51; 32] = Ok [23665; 92; 48; 52; 48] ->
  ~ ds_rt mb CsDefault [(scs_tag, CS, VStrs [name IR87]); (pn_tag, PN, VStrs [[23665]])].
Proof. exact iso2022_pad_refuted. Qed.

(* ------------------------------------------------------------------ non-vacuity *)

(** Greek text is in the repertoire of ISO_IR 126 but not of ISO_IR 100. *)
Example C10_nonvacuous_codec :
  forallb (in_repb IR126) [916; 953; 959; 957; 965; 963; 953; 959; 962] = true
  /\ in_repb IR100 916 = false /\ kind_of IR126 = KSingle.
Proof. vm_compute. repeat split. Qed.

(** A data set that switches twice (ISO_IR 144 at top level, then UTF-8) with Cyrillic, a
    multi-valued LO, a UI, an LT and CJK + emoji text meets the hypotheses of [C10_dataset]. *)
Definition example_ds : list (N * vr * value) :=
  [(524289, LO, VStr [74; 233]);                               (* (0008,0001) before the switch: Latin-1 *)
   (scs_tag, CS, VStrs [name IR144]);
   (pn_tag, PN, VStrs [[1048; 1074; 1072; 1085; 94; 1040]]);
   (1048608, LO, VStrs [[1046]; [65; 66]; []]);
   (2097165, UI, VStr [49; 46; 50; 46; 51]);
   (scs_tag, CS, VStr (name IR192 ++ [32]));
   (1064960, LT, VStr [29579; 92; 128512])].
Example C10_nonvacuous_dataset : ds_ok (fun _ _ => False) (fun _ => False) CsDefault example_ds.
Proof.
  cbn [ds_ok example_ds].
  repeat match goal with
  | |- _ /\ _ => split
  | |- usable _ _ _ => unfold usable; vm_compute; first [left; reflexivity | right; left; discriminate]
  | |- value_ok _ _ _ => cbn [value_ok]
  | |- Forall _ [] => constructor
  | |- Forall _ (_ :: _) => constructor
  | |- Forall _ _ => apply Forall_forall; let c := fresh in let Hc := fresh in
                     intros c Hc; vm_compute in Hc;
                     repeat (destruct Hc as [<-|Hc]; [vm_compute; reflexivity|]); destruct Hc
  | |- rep _ _ _ => vm_compute; reflexivity
  | |- ~ In _ _ => vm_compute; intuition discriminate
  | |- _ = _ -> _ => let H := fresh in intros H; vm_compute in H; first [discriminate H | clear H]
  | |- _ = _ => reflexivity
  | |- True => exact I
  end.
Qed.

Check C10_roundtrip : forall mb cs s,
  kind_of cs <> KMulti -> forallb (in_repb cs) s = true ->
  (b <- encode mb cs s ;; decode mb cs b) = Ok s.
Check C10_strict : forall mb cs s1 c s2,
  kind_of cs <> KMulti -> in_repb cs c = false -> encode mb cs (s1 ++ c :: s2) = Err err_encode.
Check C10_terms : forall cs, from_code (name cs) = Some cs.
Check C10_dataset : forall mb cur es,
  ds_ok (fun _ _ => False) (fun _ => False) cur es -> ds_rt mb cur es.
Check C10_multibyte_partial : forall mb mbrep,
  (forall cs, kind_of cs = KMulti -> good_codec pad_space (mbrep cs) (mb cs)) ->
  C10_multibyte_stmt mb mbrep.

Print Assumptions C10_sets.
Print Assumptions C10_encode_tables_complete.
Print Assumptions C10_tables_complete.
Print Assumptions C10_repertoire.
Print Assumptions C10_undecodable_bytes.
Print Assumptions C10_roundtrip.
Print Assumptions C10_single_byte.
Print Assumptions C10_utf8.
Print Assumptions C10_strict.
Print Assumptions C10_terms.
Print Assumptions C10_aliases.
Print Assumptions C10_terms_observed.
Print Assumptions C10_dataset.
Print Assumptions C10_switch.
Print Assumptions C10_written_with_set.
Print Assumptions C10_dataset_strict.
Print Assumptions C10_default_vrs_unaffected.
Print Assumptions C10_multibyte_partial.
Print Assumptions C10_mb_backslash_refuted.
Print Assumptions C10_iso2022_pad_refuted.
