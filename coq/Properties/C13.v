(** C13 — Attribute operations follow their documented semantics.
    Statements only; model in Model/Ops.v, reference semantics in Spec/OpsSpec.v,
    proofs in Proofs/OpsP.v.  [dict] (the data dictionary: tag -> exact VR) is universally
    quantified in every statement. *)
From DicomV Require Import Base.Prelude Model.Ops Spec.OpsSpec Proofs.OpsP.
From DicomV Require Model.Vr Model.Dataset Model.Writer Model.Reader Proofs.ReadStepsP Proofs.BuildTreeP Proofs.OpsRoundTripP.
Open Scope N_scope.

(** Refinement, one operation: on every well-formed object (tag order at every depth, which is the
    BTreeMap invariant) the implementation model returns what the reference semantics prescribes:
    same new object on success, same error class on failure. *)
Theorem C13_refines : forall dict o x, wfo o = true ->
  match spec_op dict o x with
  | Ok o' => apply dict o x = (Ok tt, o')
  | Err e => fst (apply dict o x) = Err e
  | Panic _ => False
  end.
Proof. exact refines. Qed.

(** Lifted to histories by fold_left: the object after ANY list of operations (failing ones included)
    is the one the reference semantics yields. *)
Theorem C13_refines_history : forall dict ops o, wfo o = true ->
  apply_all dict ops o = spec_all dict ops o.
Proof. exact history_refines. Qed.

(** Well-formedness is an invariant (so the hypothesis above holds along any history from [[]]). *)
Theorem C13_wf_invariant : forall dict ops o, wfo o = true -> wfo (apply_all dict ops o) = true.
Proof. exact wfo_apply_all. Qed.

(** Failure => unchanged, for EVERY operation (constructive or not, at any depth): "an error is
    returned and no changes to the receiver are made". In particular non-constructive actions on
    missing paths fail without side effects. *)
Theorem C13_fail_no_effect : forall dict o x, wfo o = true ->
  fst (apply dict o x) <> Ok tt -> snd (apply dict o x) = o.
Proof. exact fail_apply. Qed.

(** Frame: every attribute of the root data set other than the one the selector starts with is
    untouched, whatever the outcome. *)
Theorem C13_frame : forall dict o x t, t <> root_tag x -> get (snd (apply dict o x)) t = get o t.
Proof. exact frame. Qed.

(** The operation never panics (the `expect` in `apply` is unreachable). *)
Theorem C13_no_panic : forall dict o steps leaf a w, fst (apply dict o (steps, leaf, a)) <> Panic w.
Proof.
  intros dict o steps leaf a w. cbn [apply]. destruct (constructive a); [|apply no_panic_sel].
  destruct (check_path dict steps o) eqn:E; [apply no_panic_sel|discriminate|].
  exfalso. eapply check_no_panic. exact E.
Qed.

(** Writing, part 1 (proved): in every object reachable by ANY history from an object whose
    values agree in kind with their VRs (sequence <-> SQ, pixel fragments <-> OB Pixel Data; the
    empty object is one), the token generator never reaches unreachable!(), including with private
    or unknown attributes. *)
Theorem C13_writable_no_panic : forall dict ops o, kind_ok o = true ->
  kind_ok (apply_all dict ops o) = true /\ tokens_panic (apply_all dict ops o) = false.
Proof. intros dict ops o H. pose proof (kind_apply_all dict ops o H) as Hk. split; [exact Hk|apply kind_no_panic, Hk]. Qed.

(** Writing, part 2: the object stays well-shaped (and then encodes as what it is) unless it
    contains a primitive value under the VR SQ — the known class PrimitiveUnderSqVr. *)
Theorem C13_shape_outside_known : forall dict ops o, kind_ok o = true ->
  sq_prim_free (apply_all dict ops o) = true -> shape_ok (apply_all dict ops o) = true.
Proof. intros dict ops o H Hs. rewrite shape_ok_split, Hs, (kind_apply_all dict ops o H). reflexivity. Qed.
Theorem C13_shape_refuted :
  exists dict o x, shape_ok o = true /\ fst (apply dict o x) = Ok tt /\ shape_ok (snd (apply dict o x)) = false.
Proof.
  exists w_dict, w_seq_obj, w_set_on_sq. destruct primitive_under_sq_witness as (H1 & H2 & _ & H4 & _). auto.
Qed.
(** Writing, part 3: the last sentence of the property, by composition with the data set round trip
    proved for C01 ([Proofs/RoundTripTreeP.v]: [write_dataset], [read_dataset], [norm_tree] are the C01
    owner's models of write_dataset_with_ts / read_dataset_with_ts and of the documented normalisations).
    [tr_obj o' es]: [es] is the object [o'] in C01's representation (Proofs/OpsRoundTripP.v; recorded
    lengths are arbitrary; Date/DateTime/Time values have no translation).
    C13 supplies the STRUCTURE the round trip needs for every reachable object: tags ascending at every
    depth, sequences under SQ, pixel fragments as (7FE0,0010) OB (the [wfo] and [kind_ok] invariants).
    What remains a hypothesis, because attribute operations do not guarantee it: [values_ok] on the
    result — every primitive value fits its VR, is ISO 8859-1 and fits the length field (C01's [elem_ok],
    [rt_ok], [elem_writable]; this excludes the known class PrimitiveUnderSqVr), every sequence tag is an
    ordinary tag other than Pixel Data (excludes SequenceUnderNonSqTag), offset-table entries and
    fragments fit 32 bits; and [delim_ok] (the dictionary does not call the item delimiter a sequence).
    Transfer syntaxes: [c] ranges over Implicit VR LE, Explicit VR LE, Explicit VR BE (Deflated Explicit
    VR LE reduces to ELE in C01 under the compressor's round-trip hypothesis); default length strategy. *)
Theorem C13_readback : forall dict ops o c d es,
  wfo o = true -> kind_ok o = true ->
  OpsRoundTripP.tr_obj (apply_all dict ops o) es ->
  ReadStepsP.delim_ok c d -> Forall (OpsRoundTripP.values_ok c d) es ->
  exists b, Writer.write_dataset c false false es = Ok b /\
            Reader.read_dataset c d b = Ok (map (BuildTreeP.norm_tree c d) es).
Proof. exact OpsRoundTripP.ops_readback. Qed.

(** Non-vacuity of [C13_readback]: (0008,1140)[0].(0010,0010) SetStr "A^B" on the empty object gives a
    nested object whose translation meets every hypothesis in Explicit VR LE. *)
Example C13_readback_nonvacuous :
  wfo [] = true /\ kind_ok [] = true /\
  OpsRoundTripP.tr_obj (apply_all OpsRoundTripP.ex_dict OpsRoundTripP.ex_ops []) OpsRoundTripP.ex_es /\
  ReadStepsP.delim_ok Vr.ELE (fun _ => None) /\ Forall (OpsRoundTripP.values_ok Vr.ELE (fun _ => None)) OpsRoundTripP.ex_es.
Proof.
  split; [reflexivity|]. split; [reflexivity|]. split; [exact OpsRoundTripP.ex_reachable|]. split; [reflexivity|exact OpsRoundTripP.ex_values_ok].
Qed.

(** Non-vacuity: a history from the empty object with nested creation, private and unknown tags. *)
Definition ex_ops : list op :=
  [([(593921, 0)], 1048592, ASet (PStr [65; 94; 66]));            (* (0009,1001)[0].(0010,0010) SetStr *)
   ([(593921, 1)], 1048608, APushStr [49]);                        (* next item *)
   ([], 1210231, APushNum 2 [7; 7; 7; 7; 7; 7; 7; 1088421888; 4619567317775286272] [55]);  (* unknown tag, PushU16 7 *)
   ([(593921, 5)], 1048608, ARemove);                              (* fails: missing item *)
   ([(593921, 0); (1048592, 0)], 1048608, ASet (PStr [120]));      (* fails: (0010,0010) is not a sequence; nothing is created *)
   ([], 593921, ATruncate 1)].
Example C13_nonvacuous :
  wfo [] = true /\
  apply_all w_dict ex_ops [] =
    [(593921, VR_SQ, VSeq [[(1048592, 20558, VPrim (PStr [65; 94; 66]))]]); (1210231, 21843, VPrim (PNum 2 [7]))].
Proof.
  split; [reflexivity|]. vm_compute. reflexivity.
Qed.

Check C13_refines : forall dict o x, wfo o = true ->
  match spec_op dict o x with
  | Ok o' => apply dict o x = (Ok tt, o')
  | Err e => fst (apply dict o x) = Err e
  | Panic _ => False
  end.
Check C13_refines_history : forall dict ops o, wfo o = true ->
  apply_all dict ops o = spec_all dict ops o.
Check C13_fail_no_effect : forall dict o x, wfo o = true ->
  fst (apply dict o x) <> Ok tt -> snd (apply dict o x) = o.
Check C13_readback : forall dict ops o c d es,
  wfo o = true -> kind_ok o = true ->
  OpsRoundTripP.tr_obj (apply_all dict ops o) es ->
  ReadStepsP.delim_ok c d -> Forall (OpsRoundTripP.values_ok c d) es ->
  exists b, Writer.write_dataset c false false es = Ok b /\
            Reader.read_dataset c d b = Ok (map (BuildTreeP.norm_tree c d) es).
Check C13_frame : forall dict o x t, t <> root_tag x -> get (snd (apply dict o x)) t = get o t.
Check C13_writable_no_panic : forall dict ops o, kind_ok o = true ->
  kind_ok (apply_all dict ops o) = true /\ tokens_panic (apply_all dict ops o) = false.
Print Assumptions C13_refines.
Print Assumptions C13_refines_history.
Print Assumptions C13_wf_invariant.
Print Assumptions C13_fail_no_effect.
Print Assumptions C13_frame.
Print Assumptions C13_no_panic.
Print Assumptions C13_writable_no_panic.
Print Assumptions C13_shape_outside_known.
Print Assumptions C13_shape_refuted.
Print Assumptions C13_readback.
