(** C24 - under construction *)
From DicomV Require Import Model.Json Spec.AnnexF.
