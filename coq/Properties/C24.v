(** C24 - DICOM JSON output conforms to PS3.18 Annex F.
    Statements only; proofs are in Proofs/AnnexFP.v.

    [annexf_ok] (Spec/AnnexF.v) is a validator written from the standard; [ser]
    is the model of dicom_json::to_value (Model/Json.v). *)
From DicomV Require Import Model.Json Spec.AnnexF Proofs.JsonBaseP Proofs.AnnexFP.

(** Every data set within the hypotheses ([conf_dset]: well-formed as in C23,
    person names with at most three component groups, UL values held as 64-bit
    integers below 2^31) serialises to a document the Annex F validator accepts:
    keys are eight upper-case hex digits in ascending order, one "vr" per
    attribute, AT as eight hex digits, PN as component-group objects, numbers
    for FL/FD/SL/SS/UL/US (documented strings for non-finite floats), base64
    InlineBinary for binary VRs, arrays of data sets for SQ, no "Value" for empty
    values; at any nesting depth. *)
Theorem C24_conforms : forall X d,
  conf_dset X d = true -> exists j, ser X d = Ok j /\ annexf_ok j = true.
Proof. exact ser_conforms. Qed.

(** InlineBinary is the base64 text of the value's bytes ([to_bytes]: little-endian
    for the numeric kinds), and what is written is canonical base64. *)
Theorem C24_inline_binary : forall X vr p,
  vr_class vr = CBin -> to_bytes p <> [] -> multiplicity p <> O ->
  ser_prim X vr p = Ok (MCons k_InlineBinary (JStr (b64enc (to_bytes p))) MNil)
  /\ is_base64 (b64enc (to_bytes p)) = true.
Proof.
  intros X vr p C Hb Hm. split.
  - unfold ser_prim. rewrite C. destruct (multiplicity p); [congruence|].
    destruct (to_bytes p); [congruence | reflexivity].
  - apply is_base64_b64enc, JsonP.to_bytes_wf.
Qed.
Theorem C24_bytes_little_endian : forall k l,
  to_bytes (PInt k l) = flat_map (fun z => le_bytes (ikind_size k) (Z.to_N (z mod 2 ^ (8 * Z.of_nat (ikind_size k))))) l.
Proof. reflexivity. Qed.

(** Non-vacuity: the C23 example (nested sequence, PN groups, non-finite floats,
    64-bit integer, binary data) plus an AT element meets the hypotheses. *)
Definition C24_example : dset :=
  dset_of [ (524309, V_SQ, vseq [dset_of [(1048608, V_LO, VPrim (PStrs [[73; 68; 32]]))]; dset_of []]);
            (1048592, V_PN, VPrim (PStrs [[65; 61; 66; 61; 67]]));
            (1572944, V_FL, VPrim (PF32 [2143289345; 4286578688; 1069547520]));
            (1572945, V_UV, VPrim (PInt KU64 [18446744073709551615%Z]));
            (2117632, V_AT, VPrim (PTags [1048608; 2882400001]));
            (2145386512, V_OW, VPrim (PInt KU16 [1%Z; 65534%Z])) ].
Example C24_nonvacuous : forall X, conf_dset X C24_example = true.
Proof. reflexivity. Qed.

Check C24_conforms : forall X d, conf_dset X d = true -> exists j, ser X d = Ok j /\ annexf_ok j = true.
Print Assumptions C24_conforms.
Print Assumptions C24_inline_binary.
Print Assumptions C24_bytes_little_endian.
