(** C35 — image import (fromimage) and export (toimage) round-trip dimensions
    and pixel values.  Statements only; proofs are in Proofs/ImageP.v.

    Level: partial.  The theorems are about the attribute and byte mapping of
    [update_from_img]/[inject_image] and of the two export paths ([--unwrap];
    decoded colour images, which get no intensity transform).  The binaries,
    the PNG codec and colour-type detection of the [image] crate, the DICOM
    file writer/reader in between and the CLI are outside the model and
    covered only by the correspondence run of the real binaries. *)
From DicomV Require Import Base.Endian Model.Image Proofs.ImageP.

(** Any 8- or 16-bit grayscale or RGB image whose width and height fit the
    16-bit Rows/Columns attributes comes back from the unwrapped export with
    the same dimensions, channels, depth and samples.  The bound is forced by
    [width as u16] / [height as u16] in [update_from_img] (see [C35_beyond_u16]). *)
Theorem C35_rt_unwrap : forall im,
  wf_image im -> i_w im < 65536 -> i_h im < 65536 -> read_back_unwrap (inject im) = Some im.
Proof. exact read_back_unwrap_inject. Qed.

(** The raw bytes written by [--unwrap] are exactly the image's samples in
    little-endian order. *)
Theorem C35_unwrap_bytes : forall im,
  wf_image im -> i_w im < 65536 -> i_h im < 65536 ->
  export_unwrap (inject im) = Some (into_bytes (i_depth im) (i_samples im)).
Proof. exact export_unwrap_inject. Qed.

(** RGB images also come back unchanged from the decoded export (no Modality /
    VOI LUT is applied to colour images). *)
Theorem C35_rt_decoded_rgb : forall im,
  wf_image im -> i_chans im = 3 -> i_w im < 65536 -> i_h im < 65536 ->
  export_decoded_rgb (inject im) = Some im.
Proof. exact export_decoded_rgb_inject. Qed.

(** What is stored is a well-formed even-length byte string. *)
Theorem C35_pixels_wf : forall im,
  wf_image im -> wf_bytes (d_pixels (inject im)) /\ N.even (N.of_nat (length (d_pixels (inject im)))) = true.
Proof. intros im H. split; [apply inject_pixels_wf; exact H|apply pad_even_even]. Qed.

(** Beyond the bound the casts wrap silently: a 65536 x 1 image is stored with
    Columns = 0 and does not come back. *)
Theorem C35_beyond_u16 :
  exists im, wf_image im /\ i_w im = 65536 /\ d_cols (inject im) = 0 /\ read_back_unwrap (inject im) <> Some im.
Proof.
  exists (mk_image 65536 1 1 8 (repeat 7 (N.to_nat 65536))).
  split; [|split; [reflexivity|split; [reflexivity|]]].
  - unfold wf_image. cbn [i_chans i_depth i_w i_h i_samples]. rewrite repeat_length, N2Nat.id.
    split; [left; reflexivity|split; [left; reflexivity|split; [reflexivity|]]].
    apply Forall_forall. intros x Hx. apply repeat_spec in Hx. subst x. reflexivity.
  - unfold read_back_unwrap, export_unwrap, frame_size, inject, u16.
    cbn [d_rows d_cols d_spp d_alloc d_pixels i_w i_h i_chans i_depth].
    change (65536 mod 65536) with 0. change (1 mod 65536) with 1. change (1 * 0 * 1 * ((8 + 7) / 8)) with 0.
    cbn [N.leb]. change (0 <=? ?x) with true. cbn iota. cbn [N.to_nat firstn image_of d_cols]. intros H. inversion H.
Qed.

(** Non-vacuity: a 3 x 2 RGB16 image with extreme sample values. *)
Example C35_nonvacuous :
  let im := mk_image 3 2 3 16 [0; 65535; 256; 255; 1; 2; 3; 4; 5; 6; 7; 8; 9; 10; 11; 12; 13; 14] in
  wf_image im /\ read_back_unwrap (inject im) = Some im /\ export_decoded_rgb (inject im) = Some im.
Proof.
  cbn zeta. split; [|split; vm_compute; reflexivity].
  unfold wf_image. cbn. repeat split; auto. repeat constructor.
Qed.

Check C35_rt_unwrap : forall im,
  wf_image im -> i_w im < 65536 -> i_h im < 65536 -> read_back_unwrap (inject im) = Some im.
Check C35_rt_decoded_rgb : forall im,
  wf_image im -> i_chans im = 3 -> i_w im < 65536 -> i_h im < 65536 ->
  export_decoded_rgb (inject im) = Some im.
Print Assumptions C35_rt_unwrap.
Print Assumptions C35_unwrap_bytes.
Print Assumptions C35_rt_decoded_rgb.
Print Assumptions C35_pixels_wf.
Print Assumptions C35_beyond_u16.
