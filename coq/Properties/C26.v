(** C26 — P-DATA fragmentation and reassembly preserve the message under any
    schedule. Statements only; proofs are in Proofs/PDataP.v.

    Model (Model/PData.v): PDataWriter / AsyncPDataWriter / PDataReader of
    ul/src/association/pdata.rs over scripted transports. A schedule is a
    list of transport events [Rdy n] (at most n bytes accepted / supplied),
    [Pend] (Poll::Pending, resp. ErrorKind::Interrupted for the blocking
    API) and [Fail]; after the script the transport accepts everything.
    [no_fault s] excludes [Fail] and the zero-length write [Rdy 0]; it allows
    ANY pattern of partial writes and not-ready results.
    [enc_pdu ctx (d, last)] is the PS3.8 layout of a P-DATA-TF PDU with exactly
    one presentation data value for context [ctx]. *)
From DicomV Require Import Base.Prelude Base.Endian Model.PData Proofs.PDataP.

Definition max_ok (max : N) : Prop := 6 < max <= MAXIMUM_PDU_SIZE.

Lemma max_ok_32 max : max_ok max -> 6 < max /\ max + 6 < 2 ^ 32.
Proof. unfold max_ok, MAXIMUM_PDU_SIZE. change (2 ^ 32) with 4294967296. lia. Qed.

(** what the property asks of the PDUs on the wire *)
Definition pdus_ok (max : N) (payload : bytes) (pdus : list (bytes * bool)) : Prop :=
  Forall (fun p => pdu_length p <= max) pdus           (* PDU length never exceeds the maximum *)
  /\ concat (map fst pdus) = payload                   (* payloads concatenate to the input *)
  /\ only_last_is_last pdus.                           (* only the final one is marked last *)

Lemma fragments_pdus_ok max payload : max_ok max -> pdus_ok max payload (fragments (max - 6) payload).
Proof.
  intros H. apply max_ok_32 in H. destruct H as (H6 & H32). unfold pdus_ok, fragments. repeat split.
  - eapply Forall_impl; [|apply (frag_sizes (max - 6)); [lia|apply le_n]].
    intros [d l] (H1 & _). unfold pdu_length. cbn [fst] in *. lia.
  - apply frag_concat.
  - apply frag_last.
Qed.

(** Sync writer: for every payload, maximum length, chunking and fault-free
    transport schedule every write_all and finish succeed, and the wire holds
    a sequence of single-value PDUs for [ctx] satisfying [pdus_ok]. *)
Theorem C26_sync : forall ctx max payload chunks s,
  max_ok max -> concat chunks = payload -> no_fault s ->
  exists pdus u,
    run_sync ctx max (map OpWrite chunks) s true = (all_ok (S (length chunks)), enc_all ctx pdus, u)
    /\ pdus_ok max payload pdus.
Proof.
  intros ctx max payload chunks s Hm <- Hs. pose proof (max_ok_32 _ Hm) as (H6 & H32).
  destruct (run_sync_ok ctx max H6 H32 chunks s Hs) as (u & E).
  exists (fragments (max - 6) (concat chunks)), u. split; [exact E|apply fragments_pdus_ok, Hm].
Qed.

(** Async writer: the same, for every pattern of partial writes and Pending results. *)
Theorem C26_async : forall ctx max payload chunks s,
  max_ok max -> concat chunks = payload -> no_fault s ->
  exists pdus u,
    run_async ctx max (map OpWrite chunks) s true = (all_ok (S (length chunks)), enc_all ctx pdus, u)
    /\ pdus_ok max payload pdus.
Proof.
  intros ctx max payload chunks s Hm <- Hs. pose proof (max_ok_32 _ Hm) as (H6 & H32).
  destruct (run_async_ok ctx max H6 H32 chunks s Hs) as (u & E).
  exists (fragments (max - 6) (concat chunks)), u. split; [exact E|apply fragments_pdus_ok, Hm].
Qed.

(** The async writer under any fault-free schedule puts the same bytes on the
    wire (and returns the same results) as the sync writer under any other. *)
Theorem C26_async_refines_sync : forall ctx max chunks s_async s_sync,
  max_ok max -> no_fault s_async -> no_fault s_sync ->
  exists results wire_bytes u1 u2,
    run_async ctx max (map OpWrite chunks) s_async true = (results, wire_bytes, u1)
    /\ run_sync ctx max (map OpWrite chunks) s_sync true = (results, wire_bytes, u2).
Proof.
  intros ctx max chunks sa ss Hm Ha Hs. pose proof (max_ok_32 _ Hm) as (H6 & H32).
  destruct (run_async_ok ctx max H6 H32 chunks sa Ha) as (u1 & E1).
  destruct (run_sync_ok ctx max H6 H32 chunks ss Hs) as (u2 & E2).
  do 4 eexists. split; [exact E1|exact E2].
Qed.

(** The wire bytes do not depend on the chunking, only on the payload; all
    PDUs but the final one are full. *)
Theorem C26_wire_is_fragments : forall ctx max chunks s,
  max_ok max -> no_fault s ->
  exists u, run_sync ctx max (map OpWrite chunks) s true
            = (all_ok (S (length chunks)), enc_all ctx (fragments (max - 6) (concat chunks)), u).
Proof. intros ctx max chunks s Hm Hs. pose proof (max_ok_32 _ Hm) as (H6 & H32). exact (run_sync_ok ctx max H6 H32 chunks s Hs). Qed.

Theorem C26_nonfinal_full : forall max payload,
  max_ok max -> Forall (fun p => snd p = false -> pdu_length p = max) (fragments (max - 6) payload).
Proof.
  intros max payload Hm. pose proof (max_ok_32 _ Hm) as (H6 & H32). unfold fragments.
  eapply Forall_impl; [|apply (frag_sizes (max - 6)); [lia|apply le_n]].
  intros [d l] (_ & H2) Hl. unfold pdu_length. cbn [fst snd] in *. specialize (H2 Hl). lia.
Qed.

(** Reader: for any segmentation (script of chunk sizes and Pending results,
    default chunk size, part of the stream already in the read buffer) of a
    stream that starts with the writer's PDUs, reading with any positive
    buffer sizes returns exactly the payload, then end-of-data, and the bytes
    that follow the message are left (read buffer ++ not yet received). *)
Theorem C26_reader : forall ctx wmax rmax dflt payload following pre rest s sizes reads,
  max_ok wmax -> valid_max rmax -> 0 < dflt ->
  sizes <> [] -> Forall (fun z => 0 < z) sizes -> no_fault s ->
  pre ++ rest = enc_all ctx (fragments (wmax - 6) payload) ++ following ->
  (length payload < reads)%nat ->
  exists bs st',
    rd_run reads 0 rmax dflt sizes (mk_rs [] false pre (mk_src s rest 0 0)) = (map Ok bs ++ [Ok []], st')
    /\ concat bs = payload /\ r_rb st' ++ s_data (r_src st') = following.
Proof.
  intros ctx wmax rmax dflt payload following pre rest s sizes reads Hm. pose proof (max_ok_32 _ Hm) as (H6 & H32).
  intros. eapply reader_ok; eassumption.
Qed.

(** End to end: what either writer emitted for [chunks], followed by anything,
    is read back as the concatenated chunks under any segmentation. *)
Theorem C26_end_to_end : forall ctx wmax rmax dflt chunks sw results w u following pre rest s sizes reads,
  max_ok wmax -> valid_max rmax -> 0 < dflt ->
  sizes <> [] -> Forall (fun z => 0 < z) sizes -> no_fault s -> no_fault sw ->
  run_async ctx wmax (map OpWrite chunks) sw true = (results, w, u) ->
  pre ++ rest = w ++ following ->
  (length (concat chunks) < reads)%nat ->
  exists bs st',
    rd_run reads 0 rmax dflt sizes (mk_rs [] false pre (mk_src s rest 0 0)) = (map Ok bs ++ [Ok []], st')
    /\ concat bs = concat chunks /\ r_rb st' ++ s_data (r_src st') = following.
Proof.
  intros ctx wmax rmax dflt chunks sw results w u following pre rest s sizes reads Hm Hr Hd Hne Hpos Hs Hsw Hrun E Hreads.
  pose proof (max_ok_32 _ Hm) as (H6 & H32).
  destruct (run_async_ok ctx wmax H6 H32 chunks sw Hsw) as (u' & E'). rewrite E' in Hrun.
  injection Hrun as _ <- _.
  eapply reader_ok; eassumption.
Qed.

(** Regression witness of the defect fixed by /repo commit 340c6a1 (DESIGN
    section 9): max = 1018, a write of 1012 bytes fills the buffer exactly,
    the next one-byte write used to return Ok(0) => WriteZero. *)
Example C26_exact_fill :
  let '(results, w, _) := run_sync 1 1018 [OpWrite (repeat 7 1012); OpWrite [9]] [] true in
  results = all_ok 3 /\ len w = 1024 + 13.
Proof. vm_compute. split; reflexivity. Qed.

(** Non-vacuity: the hypotheses are met by a non-trivial instance, and the
    async writer really goes through Pending and partial writes on it. *)
Example C26_nonvacuous :
  max_ok 1018 /\ valid_max 16378
  /\ no_fault [Pend; Rdy 5; Pend; Pend; Rdy 1; Rdy 2000]
  /\ run_async 3 7 [OpWrite [1; 2]; OpWrite [3]] [Pend; Rdy 5; Pend; Pend; Rdy 1; Rdy 2000] true
     = (all_ok 3, enc_all 3 [([1], false); ([2], false); ([3], true)], 6).
Proof.
  split; [unfold max_ok, MAXIMUM_PDU_SIZE; lia|].
  split; [unfold valid_max, MINIMUM_PDU_SIZE, MAXIMUM_PDU_SIZE; lia|].
  split; [repeat constructor; discriminate|vm_compute; reflexivity].
Qed.

Check C26_sync : forall ctx max payload chunks s,
  max_ok max -> concat chunks = payload -> no_fault s ->
  exists pdus u,
    run_sync ctx max (map OpWrite chunks) s true = (all_ok (S (length chunks)), enc_all ctx pdus, u)
    /\ pdus_ok max payload pdus.
Check C26_async : forall ctx max payload chunks s,
  max_ok max -> concat chunks = payload -> no_fault s ->
  exists pdus u,
    run_async ctx max (map OpWrite chunks) s true = (all_ok (S (length chunks)), enc_all ctx pdus, u)
    /\ pdus_ok max payload pdus.
Check C26_async_refines_sync : forall ctx max chunks s_async s_sync,
  max_ok max -> no_fault s_async -> no_fault s_sync ->
  exists results wire_bytes u1 u2,
    run_async ctx max (map OpWrite chunks) s_async true = (results, wire_bytes, u1)
    /\ run_sync ctx max (map OpWrite chunks) s_sync true = (results, wire_bytes, u2).
Check C26_reader : forall ctx wmax rmax dflt payload following pre rest s sizes reads,
  max_ok wmax -> valid_max rmax -> 0 < dflt ->
  sizes <> [] -> Forall (fun z => 0 < z) sizes -> no_fault s ->
  pre ++ rest = enc_all ctx (fragments (wmax - 6) payload) ++ following ->
  (length payload < reads)%nat ->
  exists bs st',
    rd_run reads 0 rmax dflt sizes (mk_rs [] false pre (mk_src s rest 0 0)) = (map Ok bs ++ [Ok []], st')
    /\ concat bs = payload /\ r_rb st' ++ s_data (r_src st') = following.
Print Assumptions C26_sync.
Print Assumptions C26_async.
Print Assumptions C26_async_refines_sync.
Print Assumptions C26_wire_is_fragments.
Print Assumptions C26_nonfinal_full.
Print Assumptions C26_reader.
Print Assumptions C26_end_to_end.
