(** C18 — Encapsulated pixel data has a correct offset table, fragments and total length.
    Statements only; proofs are in Proofs/EncapsP.v. Spec/Encapsulation.v
    renders PS3.5 A.4: [bot_spec start frames] is the Basic Offset Table of
    [frames] (each a list of fragments): the offset of each frame's first item
    tag from the first item after the table, items being 8 bytes of header plus
    the fragment at its (even) written length. *)
From DicomV Require Import Base.Prelude Spec.Encapsulation Model.Fragments Model.Encaps Proofs.EncapsP.

(** Fragments::new: every fragment has even length - for ANY data and fragment size. *)
Theorem C18_fragments_even : forall data fs frags,
  fragments_new data fs = Ok frags -> Forall even_frag frags.
Proof. exact fragments_new_even. Qed.

(** Fragments::new preserves the data: the fragments all have the effective
    size e (the given size, or the frame length when 0, rounded up to even),
    there are ceil(len/e) of them, and their concatenation is the data followed
    by fewer than e zero bytes. (len < 2^32: a frame that fits a DICOM item.) *)
Theorem C18_fragments_preserve : forall data fs frags,
  len data < 2 ^ 32 -> fragments_new data fs = Ok frags ->
  let e := eff_size data fs in
  0 < e /\ e mod 2 = 0 /\
  Forall (fun f => len f = e) frags /\ Forall small_frag frags /\
  N.of_nat (length frags) = div_ceil (len data) e /\
  exists k, concat frags = data ++ repeat 0 k /\ N.of_nat k < e.
Proof. exact fragments_new_spec. Qed.

(** The helper functions (encapsulate = all fragment sizes 0, encapsulate_single_frame
    = one frame; any list of (frame, fragment size) through Fragments::new and
    into()): the offset table is the specified one for the groups of fragments
    produced frame by frame, and the fragment list is their concatenation. *)
Theorem C18_bot_helper : forall frames bot frags,
  frames <> [] -> Forall (fun df => len (fst df) < 2 ^ 32) frames ->
  helper frames = Ok (bot, frags) ->
  exists groups,
    Forall2 (fun df g => fragments_new (fst df) (snd df) = Ok g) frames groups /\
    bot = bot_spec 0 groups /\ frags = concat groups.
Proof. exact helper_spec. Qed.

(** shape of a specified table: one entry per frame, the first is the start offset (0) *)
Theorem C18_bot_shape : forall s frames,
  length (bot_spec s frames) = length frames /\ (frames <> [] -> hd 0 (bot_spec s frames) = s).
Proof. intros; split; [apply bot_spec_length|apply bot_spec_hd]. Qed.

(** PixelDataWriter::encode (default method): one fragment per frame, whatever
    bytes the encoder produced: the table is cumulative written item sizes from 0. *)
Theorem C18_bot_encode : forall frags bot,
  Forall (fun f => len f + 1 < 2 ^ 32) frags ->
  encode_bot (map len frags) = Ok bot -> bot = bot_spec 0 (singletons frags).
Proof. exact encode_bot_spec. Qed.

(** decode_and_encode: Number of Frames = number of fragments produced, Encapsulated
    Pixel Data Value Total Length = sum of the fragment lengths (= the written
    lengths when the fragments are even). *)
Theorem C18_total_length : forall frags bot nf total,
  Forall (fun f => len f + 1 < 2 ^ 32) frags ->
  transcode_book (map len frags) = Ok (bot, nf, total) ->
  bot = bot_spec 0 (singletons frags) /\ nf = N.of_nat (length frags) /\
  total = sumN (map len frags) /\
  (Forall even_frag frags -> total = sumN (map wire_len frags)).
Proof.
  intros frags bot nf total Hs H. destruct (transcode_book_spec _ _ _ _ Hs H) as (H1 & H2 & H3).
  repeat split; try assumption. intros He. rewrite H3. apply sum_wire_even. exact He.
Qed.

(** frame_pixel_data: for an object whose fragments are the concatenation of
    non-empty groups of even fragments (one group per frame), whose offset
    table is the specified one and whose Number of Frames is the number of
    groups, frame f is exactly the bytes of the fragments of group f. *)
Theorem C18_frame_extract : forall groups f g,
  Forall (fun g => g <> []) groups -> Forall (Forall even_frag) groups ->
  nth_error groups (N.to_nat f) = Some g ->
  frame_pixel_data (Some (N.of_nat (length groups))) (bot_spec 0 groups) (concat groups) f
  = Some (concat g).
Proof. exact frame_extract. Qed.

(** Number of Frames is optional for single-frame images: without it the object holds ONE frame,
    over however many fragments (encapsulate_single_frame with a fragment size) it is split. *)
Theorem C18_frame_extract_single : forall g,
  g <> [] ->
  frame_pixel_data None (bot_spec 0 [g]) (concat [g]) 0 = Some (concat g).
Proof. exact frame_extract_no_nframes. Qed.

(** Non-vacuity: encapsulate(vec![vec![20,30,40], vec![50,60,70,80]]) (the crate's own test input) *)
Example C18_nonvacuous :
  encapsulate [[20; 30; 40]; [50; 60; 70; 80]] = Ok ([0; 12], [[20; 30; 40; 0]; [50; 60; 70; 80]]) /\
  encapsulate_single_frame [20; 30; 40] 1 = Ok ([0], [[20; 30]; [40; 0]]) /\
  frame_pixel_data (Some 1) [0] [[20; 30]; [40; 0]] 0 = Some [20; 30; 40; 0] /\
  transcode_book [9; 9] = Ok ([0; 18], 2, 18).
Proof. repeat split; vm_compute; reflexivity. Qed.

(** Historical remark (behaviour before /repo commit 1044874, reproduced on the real
    code: 2^24+1 bytes in, 2^24 bytes out): the fragment count was
    [(len as f32 / size as f32).ceil()]. For integers below 2^25 the conversion to
    binary32 is exact up to 2^24 and rounds to the nearest multiple of 2 (ties to an
    even significand, i.e. to a multiple of 4) above; the quotient by 2.0 is exact. *)
Definition f32_of_int25 (n : N) : N :=
  if n <=? 2 ^ 24 then n
  else let r := n mod 4 in if r =? 1 then n - 1 else if r =? 3 then n + 1 else n.
Definition old_count_size2 (n : N) : N := div_ceil (f32_of_int25 n) 2.
Example C18_old_f32_undercount :
  old_count_size2 (2 ^ 24 + 1) = 2 ^ 23 /\ div_ceil (2 ^ 24 + 1) 2 = 2 ^ 23 + 1.
Proof. split; vm_compute; reflexivity. Qed.

Check C18_fragments_even : forall data fs frags,
  fragments_new data fs = Ok frags -> Forall even_frag frags.
Check C18_fragments_preserve : forall data fs frags,
  len data < 2 ^ 32 -> fragments_new data fs = Ok frags ->
  let e := eff_size data fs in
  0 < e /\ e mod 2 = 0 /\
  Forall (fun f => len f = e) frags /\ Forall small_frag frags /\
  N.of_nat (length frags) = div_ceil (len data) e /\
  exists k, concat frags = data ++ repeat 0 k /\ N.of_nat k < e.
Check C18_bot_helper : forall frames bot frags,
  frames <> [] -> Forall (fun df => len (fst df) < 2 ^ 32) frames ->
  helper frames = Ok (bot, frags) ->
  exists groups,
    Forall2 (fun df g => fragments_new (fst df) (snd df) = Ok g) frames groups /\
    bot = bot_spec 0 groups /\ frags = concat groups.
Check C18_bot_encode : forall frags bot,
  Forall (fun f => len f + 1 < 2 ^ 32) frags ->
  encode_bot (map len frags) = Ok bot -> bot = bot_spec 0 (singletons frags).
Check C18_total_length : forall frags bot nf total,
  Forall (fun f => len f + 1 < 2 ^ 32) frags ->
  transcode_book (map len frags) = Ok (bot, nf, total) ->
  bot = bot_spec 0 (singletons frags) /\ nf = N.of_nat (length frags) /\
  total = sumN (map len frags) /\
  (Forall even_frag frags -> total = sumN (map wire_len frags)).
Check C18_frame_extract : forall groups f g,
  Forall (fun g => g <> []) groups -> Forall (Forall even_frag) groups ->
  nth_error groups (N.to_nat f) = Some g ->
  frame_pixel_data (Some (N.of_nat (length groups))) (bot_spec 0 groups) (concat groups) f
  = Some (concat g).
Print Assumptions C18_fragments_even.
Print Assumptions C18_fragments_preserve.
Print Assumptions C18_bot_helper.
Print Assumptions C18_bot_shape.
Print Assumptions C18_bot_encode.
Print Assumptions C18_total_length.
Print Assumptions C18_frame_extract.
Print Assumptions C18_frame_extract_single.
