(** C12 — Partial dates, times and date-times round-trip through text, report their
    byte length, and bound the instants they denote; range texts [A-B].
    Statements only; proofs are in Proofs/DateTime{P,TP,CalP,RangeP,CtorP,TotalP}.v.
    Text = list of bytes; instants = microseconds ([Z]); all values, all precisions. *)
From DicomV Require Import Base.Prelude Model.DateTime.
From DicomV Require Import Proofs.DateTimeP Proofs.DateTimeTP Proofs.DateTimeCalP Proofs.DateTimeRangeP Proofs.DateTimeCtorP Proofs.DateTimeTotalP.
Local Open Scope N_scope.

(** ** 1. Text round trip: [parse (to_encoded v) = Ok (v, "")] *)
Theorem C12_date_rt : forall d, valid_date d = true -> parse_date_partial (date_enc d) = Ok (d, []).
Proof. exact parse_date_rt. Qed.

(** every precision, fractions of 1..6 digits, second = 60 *)
Theorem C12_time_rt : forall t, valid_time t = true -> parse_time_partial (time_enc t) = Ok (t, []).
Proof. exact parse_time_rt. Qed.

(** with or without time, with or without an offset of whole minutes in -12:00..+14:00 *)
Theorem C12_datetime_rt : forall v, valid_dt v = true -> parse_datetime_partial (dt_enc v) = Ok v.
Proof. exact parse_dt_rt. Qed.

(** whatever a constructor (incl. from_hms_milli / from_hms_micro after fix a5809c2, and the
    parser's from_hmsf) returns is valid, hence round-trips *)
Theorem C12_constructed_time_valid : forall h m s f fp v,
  from_h h = Ok v \/ from_hm h m = Ok v \/ from_hms h m s = Ok v
  \/ from_hms_milli h m s f = Ok v \/ from_hms_micro h m s f = Ok v \/ from_hmsf h m s f fp = Ok v ->
  valid_time v = true.
Proof. exact constructed_time_valid. Qed.
Theorem C12_constructed_date_valid : forall y m d v,
  from_y y = Ok v \/ from_ym y m = Ok v \/ from_ymd y m d = Ok v -> valid_date v = true.
Proof. exact constructed_date_valid. Qed.

(** ** 2. Reported byte length *)
Theorem C12_len :
  (forall d, N.of_nat (length (date_enc d)) = da_byte_len d)
  /\ (forall t, N.of_nat (length (time_enc t)) = tm_byte_len t)
  /\ (forall v, valid_dt v = true -> N.of_nat (length (dt_enc v)) = dt_byte_len v).
Proof. exact (conj date_enc_length (conj time_enc_length dt_enc_length)). Qed.

(** ** 3. Earliest / latest *)
(** calendar order of precise dates = order of their day numbers *)
Theorem C12_calendar_order : forall a b,
  valid_date_p a = true -> valid_date_p b = true -> ((day_num a <= day_num b)%Z <-> date_le a b).
Proof. exact day_num_le_iff. Qed.

(** the bounds exist exactly for calendar dates (e.g. not for February 30) ... *)
Theorem C12_date_bounds_defined : forall v, valid_date v = true ->
  is_ok (date_earliest v) = calendar_ok v /\ is_ok (date_latest v) = calendar_ok v.
Proof. exact date_bounds_defined. Qed.
(** ... and then a precise date agrees with the components of [v] iff it lies between them *)
Theorem C12_date_bounds : forall v lo hi p,
  valid_date v = true -> date_earliest v = Ok lo -> date_latest v = Ok hi -> valid_date_p p = true ->
  (date_consistent v p <-> date_le lo p /\ date_le p hi).
Proof. exact date_bounds. Qed.

(** chrono cannot represent second = 60 in a NaiveTime built from h:m:s: no bounds for leap seconds *)
Theorem C12_time_bounds_defined : forall t, valid_time t = true ->
  is_ok (time_earliest t) = no_leap_second t /\ is_ok (time_latest t) = no_leap_second t.
Proof. exact time_bounds_defined. Qed.
Theorem C12_time_bounds : forall t lo hi p,
  valid_time t = true -> time_earliest t = Ok lo -> time_latest t = Ok hi -> valid_time_p p = true ->
  (time_consistent t p <-> (time_us lo <= time_us p <= time_us hi)%Z).
Proof. exact time_bounds. Qed.

Theorem C12_datetime_bounds_defined : forall v, valid_dt v = true ->
  is_ok (dt_earliest v) = dt_bounds_ok v /\ is_ok (dt_latest v) = dt_bounds_ok v.
Proof. exact dt_bounds_defined. Qed.
(** instants are compared as UTC microseconds; [p] is a precise local date-time in [v]'s zone *)
Theorem C12_datetime_bounds : forall v lo hi p,
  valid_dt v = true -> dt_earliest v = Ok lo -> dt_latest v = Ok hi -> valid_ndt p = true ->
  (dt_consistent v p <->
   (instant_us lo <= instant_us (with_zone (dt_zone v) p) <= instant_us hi)%Z).
Proof. exact dt_bounds. Qed.

(** ** 4. Range texts: [A-B] is the interval from the earliest instant of A to the latest of B *)
Theorem C12_date_range : forall a b, valid_date a = true -> valid_date b = true ->
  parse_date_range (date_enc a ++ dash :: date_enc b)
  = (lo <- date_earliest a;; hi <- date_latest b;; date_from_start_to_end lo hi).
Proof. exact date_range_text. Qed.
Theorem C12_date_range_open : forall v, valid_date v = true ->
  parse_date_range (dash :: date_enc v) = (hi <- date_latest v;; Ok (None, Some hi))
  /\ parse_date_range (date_enc v ++ [dash]) = (lo <- date_earliest v;; Ok (Some lo, None)).
Proof. intros v H. exact (conj (date_range_text_open_start v H) (date_range_text_open_end v H)). Qed.

Theorem C12_time_range : forall a b, valid_time a = true -> valid_time b = true ->
  parse_time_range (time_enc a ++ dash :: time_enc b)
  = (lo <- time_earliest a;; hi <- time_latest b;; time_from_start_to_end lo hi).
Proof. exact time_range_text. Qed.
Theorem C12_time_range_open : forall v, valid_time v = true ->
  parse_time_range (dash :: time_enc v) = (hi <- time_latest v;; Ok (None, Some hi))
  /\ parse_time_range (time_enc v ++ [dash]) = (lo <- time_earliest v;; Ok (Some lo, None)).
Proof. intros v H. exact (conj (time_range_text_open_start v H) (time_range_text_open_end v H)). Qed.

(** Date-time ranges, any of the four ambiguity rules ([mode]).
    FULL STATEMENT (false, see [C12_datetime_range_refuted]):
      forall mode a b, valid_dt a = true -> valid_dt b = true ->
        parse_datetime_range mode (dt_enc a ++ dash :: dt_enc b)
        = (lo <- dt_earliest a;; hi <- dt_latest b;; combine mode lo hi).
    Known failing class (KNOWN_FINDINGS class=AmbiguousWestOffsetRange, documented in the rustdoc of
    parse_datetime_range): A carries the only west offset '-hhmm' of the text and the four digits
    of B's year read as a west offset of at most 12:00; the parser then takes A's offset dash for
    the separator. *)
Definition ambiguous_west_range (a b : dicom_dt) : Prop :=
  west a = true /\ west b = false /\ tz_like (d_year (dt_date b)) = true.

Theorem C12_datetime_range_refuted : exists mode a b,
  valid_dt a = true /\ valid_dt b = true /\ ambiguous_west_range a b
  /\ is_ok (lo <- dt_earliest a;; hi <- dt_latest b;; combine mode lo hi) = true
  /\ parse_datetime_range mode (dt_enc a ++ dash :: dt_enc b)
     <> (lo <- dt_earliest a;; hi <- dt_latest b;; combine mode lo hi).
Proof.
  exists AmbKnown, (mkDT (DYear 1000) None (Some (-39600)%Z)), (mkDT (DYear 1150) None None).
  repeat split; try (vm_compute; reflexivity). vm_compute. discriminate.
Qed.

(** Outside that class the text denotes [earliest A, latest B] (or the error of a missing bound /
    an inverted interval). The remaining hypothesis concerns texts whose only west offset is B's:
    the code returns the interval when it is accepted (not inverted, not refused by [mode]) and
    otherwise retries with the other dash; the property is silent about inverted texts. *)
Theorem C12_datetime_range_outside_known : forall mode a b,
  valid_dt a = true -> valid_dt b = true ->
  ~ ambiguous_west_range a b ->
  (west a = false -> west b = true ->
   exists r, (lo <- dt_earliest a;; hi <- dt_latest b;; combine mode lo hi) = Ok r) ->
  parse_datetime_range mode (dt_enc a ++ dash :: dt_enc b)
  = (lo <- dt_earliest a;; hi <- dt_latest b;; combine mode lo hi).
Proof.
  intros mode a b Ha Hb Hk Hw. apply dt_range_text; auto.
  intros Wa Wb. destruct (tz_like (d_year (dt_date b))) eqn:E; [|reflexivity].
  exfalso. apply Hk. repeat split; assumption.
Qed.
Theorem C12_datetime_range_open : forall mode v, valid_dt v = true ->
  parse_datetime_range mode (dash :: dt_enc v)
  = (hi <- dt_latest v;;
     Ok (match hi with PNaive e => RNaive None (Some e) | PTz e eo => RTz None (Some (e, eo)) end))
  /\ parse_datetime_range mode (dt_enc v ++ [dash])
  = (lo <- dt_earliest v;;
     Ok (match lo with PNaive s => RNaive (Some s) None | PTz s so => RTz (Some (s, so)) None end)).
Proof. intros m v H. exact (conj (dt_range_text_open_start m v H) (dt_range_text_open_end m v H)). Qed.

(** the interval is accepted iff it is not inverted (same kind of bounds) *)
Theorem C12_range_interval :
  (forall lo hi, date_from_start_to_end lo hi
                 = if (day_num hi <? day_num lo)%Z then Err R_inversion else Ok (Some lo, Some hi))
  /\ (forall lo hi, time_from_start_to_end lo hi
                    = if (time_us hi <? time_us lo)%Z then Err R_inversion else Ok (Some lo, Some hi))
  /\ (forall mode s so e eo, combine mode (PTz s so) (PTz e eo)
        = if (instant_us (PTz e eo) <? instant_us (PTz s so))%Z then Err R_inversion
          else Ok (RTz (Some (s, so)) (Some (e, eo))))
  /\ (forall mode s e, combine mode (PNaive s) (PNaive e)
        = if (instant_us (PNaive e) <? instant_us (PNaive s))%Z then Err R_inversion
          else Ok (RNaive (Some s) (Some e))).
Proof. repeat split. Qed.

(** The unconditional date-time statement is refuted by the text syntax itself: two different
    pairs of valid values print to the same range text "1000-1100-0100". *)
Theorem C12_datetime_range_ambiguous :
  let a := mkDT (DYear 1000) None (Some (-39600)%Z) in
  let b := mkDT (DYear 100) None None in
  let a' := mkDT (DYear 1000) None None in
  let b' := mkDT (DYear 1100) None (Some (-3600)%Z) in
  valid_dt a = true /\ valid_dt b = true /\ valid_dt a' = true /\ valid_dt b' = true
  /\ dt_enc a ++ dash :: dt_enc b = dt_enc a' ++ dash :: dt_enc b'
  /\ (a, b) <> (a', b').
Proof. exact dt_range_text_ambiguous. Qed.

(** ** 5. Totality: no parser panics, whatever the bytes (any byte values, any length).
    Every operation of the Rust code that can panic on some input is an explicit [Panic] of the
    model: overflow of read_number's digit fold in its target type (u8/u16/u32/i32), the
    [u8::try_from(n).unwrap()] of the fraction length, the u32 products [fraction * 10^(6-fp)]
    (from_hmsf, earliest, latest, parse_time's padding loop) and [6 - fp]; slices are taken only
    behind the length tests the model repeats. None is reachable. *)
Theorem C12_parse_total : forall (s : bytes) (w : N),
  parse_date_partial s <> Panic w /\ parse_time_partial s <> Panic w
  /\ parse_datetime_partial s <> Panic w
  /\ parse_date s <> Panic w /\ parse_time s <> Panic w
  /\ parse_date_range s <> Panic w /\ parse_time_range s <> Panic w
  /\ (forall mode, parse_datetime_range mode s <> Panic w).
Proof.
  intros s w. repeat split.
  - apply parse_date_partial_np. - apply parse_time_partial_np. - apply parse_datetime_partial_np.
  - apply parse_date_np. - apply parse_time_np.
  - apply parse_date_range_np. - apply parse_time_range_np.
  - intros mode. apply parse_datetime_range_np.
Qed.

(** ... and earliest / latest of whatever the parsers return cannot panic either *)
Theorem C12_bounds_total : forall (s : bytes) (w : N),
  (forall d, date_earliest d <> Panic w /\ date_latest d <> Panic w)
  /\ (forall t r, parse_time_partial s = Ok (t, r) -> time_earliest t <> Panic w /\ time_latest t <> Panic w)
  /\ (forall v, parse_datetime_partial s = Ok v -> dt_earliest v <> Panic w /\ dt_latest v <> Panic w).
Proof.
  intros s w. repeat split.
  - apply date_earliest_np. - apply date_latest_np.
  - apply time_earliest_np. eapply parsed_time_valid; eassumption.
  - apply time_latest_np. eapply parsed_time_valid; eassumption.
  - eapply dt_bounds_of_parsed_np; eassumption.
  - eapply dt_bounds_of_parsed_np; eassumption.
Qed.

(** Non-vacuity: a leap-second time with six fraction digits and a zoned, fractional date-time
    on a leap day are valid; the latter has bounds. *)
Example C12_nonvacuous :
  valid_time (TFrac 23 59 60 999999 6) = true
  /\ valid_dt (mkDT (DDay 2024 2 29) (Some (TFrac 23 59 59 5 1)) (Some (-43200)%Z)) = true
  /\ dt_latest (mkDT (DDay 2024 2 29) (Some (TFrac 23 59 59 5 1)) (Some (-43200)%Z))
     = Ok (PTz ((2024, 2, 29), (23, 59, 59, 599999)) (-43200)%Z)
  /\ dt_bounds_ok (mkDT (DMonth 1900 2) None None) = true
  /\ date_latest (DMonth 1900 2) = Ok (1900, 2, 28).
Proof. repeat split; vm_compute; reflexivity. Qed.

Check C12_date_rt : forall d, valid_date d = true -> parse_date_partial (date_enc d) = Ok (d, []).
Check C12_time_rt : forall t, valid_time t = true -> parse_time_partial (time_enc t) = Ok (t, []).
Check C12_datetime_rt : forall v, valid_dt v = true -> parse_datetime_partial (dt_enc v) = Ok v.
Check C12_len :
  (forall d, N.of_nat (length (date_enc d)) = da_byte_len d)
  /\ (forall t, N.of_nat (length (time_enc t)) = tm_byte_len t)
  /\ (forall v, valid_dt v = true -> N.of_nat (length (dt_enc v)) = dt_byte_len v).
Check C12_date_bounds : forall v lo hi p,
  valid_date v = true -> date_earliest v = Ok lo -> date_latest v = Ok hi -> valid_date_p p = true ->
  (date_consistent v p <-> date_le lo p /\ date_le p hi).
Check C12_time_bounds : forall t lo hi p,
  valid_time t = true -> time_earliest t = Ok lo -> time_latest t = Ok hi -> valid_time_p p = true ->
  (time_consistent t p <-> (time_us lo <= time_us p <= time_us hi)%Z).
Check C12_datetime_bounds : forall v lo hi p,
  valid_dt v = true -> dt_earliest v = Ok lo -> dt_latest v = Ok hi -> valid_ndt p = true ->
  (dt_consistent v p <->
   (instant_us lo <= instant_us (with_zone (dt_zone v) p) <= instant_us hi)%Z).
Check C12_datetime_bounds_defined : forall v, valid_dt v = true ->
  is_ok (dt_earliest v) = dt_bounds_ok v /\ is_ok (dt_latest v) = dt_bounds_ok v.
Check C12_date_range : forall a b, valid_date a = true -> valid_date b = true ->
  parse_date_range (date_enc a ++ dash :: date_enc b)
  = (lo <- date_earliest a;; hi <- date_latest b;; date_from_start_to_end lo hi).
Check C12_time_range : forall a b, valid_time a = true -> valid_time b = true ->
  parse_time_range (time_enc a ++ dash :: time_enc b)
  = (lo <- time_earliest a;; hi <- time_latest b;; time_from_start_to_end lo hi).
Check C12_datetime_range_outside_known : forall mode a b,
  valid_dt a = true -> valid_dt b = true ->
  ~ ambiguous_west_range a b ->
  (west a = false -> west b = true ->
   exists r, (lo <- dt_earliest a;; hi <- dt_latest b;; combine mode lo hi) = Ok r) ->
  parse_datetime_range mode (dt_enc a ++ dash :: dt_enc b)
  = (lo <- dt_earliest a;; hi <- dt_latest b;; combine mode lo hi).

Check C12_parse_total : forall (s : bytes) (w : N),
  parse_date_partial s <> Panic w /\ parse_time_partial s <> Panic w
  /\ parse_datetime_partial s <> Panic w
  /\ parse_date s <> Panic w /\ parse_time s <> Panic w
  /\ parse_date_range s <> Panic w /\ parse_time_range s <> Panic w
  /\ (forall mode, parse_datetime_range mode s <> Panic w).

Print Assumptions C12_date_rt.
Print Assumptions C12_time_rt.
Print Assumptions C12_datetime_rt.
Print Assumptions C12_constructed_time_valid.
Print Assumptions C12_constructed_date_valid.
Print Assumptions C12_len.
Print Assumptions C12_calendar_order.
Print Assumptions C12_date_bounds_defined.
Print Assumptions C12_date_bounds.
Print Assumptions C12_time_bounds_defined.
Print Assumptions C12_time_bounds.
Print Assumptions C12_datetime_bounds_defined.
Print Assumptions C12_datetime_bounds.
Print Assumptions C12_date_range.
Print Assumptions C12_date_range_open.
Print Assumptions C12_time_range.
Print Assumptions C12_time_range_open.
Print Assumptions C12_datetime_range_refuted.
Print Assumptions C12_datetime_range_outside_known.
Print Assumptions C12_datetime_range_open.
Print Assumptions C12_range_interval.
Print Assumptions C12_datetime_range_ambiguous.
Print Assumptions C12_parse_total.
Print Assumptions C12_bounds_total.
