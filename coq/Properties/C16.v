(** C16 — Every registered transfer syntax is described consistently.
    Statements only; proofs are in Proofs/TsRegistryP.v. [observed k] is the registry of
    feature set [k] as regenerated from /repo on every run (Gen/GenTs.v):
    0 = default features, 1 = rle + jpeg + deflate + inventory-registry (the tools' set, plus a
    few private descriptors the harness submits to reach [register]'s replacement rules).
    [get], [register], [build_registry] and the capability functions are the model of
    transfer-syntax-registry/src/lib.rs and encoding/src/transfer_syntax/mod.rs. *)
From DicomV Require Import Model.TsRegistry Proofs.TsRegistryP.
Open Scope N_scope.

(** Trailing NULs and white space never change a lookup: any registry, any UID text,
    any padding of any length. *)
Theorem C16_padding : forall m uid pad,
  Forall (fun c => is_pad c = true) pad -> get m (uid ++ pad) = get m uid.
Proof. exact get_padding. Qed.

(** Looking up a registered UID, padded or not, returns that transfer syntax. *)
Theorem C16_lookup : forall k r pad, In k FS -> In r (observed k) ->
  Forall (fun c => is_pad c = true) pad -> get (observed k) (t_uid r ++ pad) = Some r.
Proof. exact lookup_padded. Qed.

(** UIDs are unique. *)
Theorem C16_uids_unique : forall k, In k FS -> NoDup (map t_uid (observed k)).
Proof. exact uids_unique. Qed.

(** Only Implicit VR Little Endian is implicit and only Explicit VR Big Endian is big endian
    (the flag and the wire layout of the data set codecs handed out). *)
Theorem C16_flags : forall k r, In k FS -> In r (observed k) ->
  (row_implicit r = true <-> t_uid r = UID_IMPLICIT_VR_LE) /\
  (t_big r = true <-> t_uid r = UID_EXPLICIT_VR_BE) /\
  (t_dec r = L_EBE \/ t_enc r = L_EBE <-> t_uid r = UID_EXPLICIT_VR_BE).
Proof. exact flags. Qed.

(** Every transfer syntax whose data sets can be decoded provides a data set decoder and encoder. *)
Theorem C16_codecs : forall k r, In k FS -> In r (observed k) ->
  exists c, codec_of (t_codec r) = Some c /\
            (can_decode_dataset c = true -> t_dec r <> L_NONE /\ t_enc r <> L_NONE).
Proof. exact decodable_has_codecs. Qed.

(** The capability queries agree with the codecs actually offered: for every registered
    transfer syntax and for every descriptor as declared (all seven codec kinds occur there). *)
Theorem C16_capabilities : forall k r, In k FS -> In r (observed k) \/ In r (declared k) ->
  exists c, codec_of (t_codec r) = Some c /\ t_q r = answers c /\
            t_pdr r = pixel_data_reader c /\ t_pdw r = pixel_data_writer c /\
            t_dec r = dataset_codec (t_big r) (row_explicit r) /\ t_enc r = dataset_codec (t_big r) (row_explicit r).
Proof. exact capabilities. Qed.
Theorem C16_all_codec_kinds : forallb (fun c => existsb (fun r => t_codec r =? c) (declared 1)) [0;1;2;3;4;5;6] = true.
Proof. exact all_codec_kinds_declared. Qed.

(** The registry the implementation built is the model's fold of [register] over the
    descriptors in registration order; and [register] never duplicates a UID. *)
Theorem C16_registry_is_model : forall k, In k FS -> same_rows (observed k) (model_registry k) = true.
Proof. exact registry_is_model. Qed.
Theorem C16_register_unique : forall l, NoDup (map t_uid (build_registry l)).
Proof. exact build_registry_uids. Qed.

(** Non-vacuity: both registries hold at least the 46 built-in transfer syntaxes, and the
    padding hypothesis is met by NUL, space and U+3000. *)
Example C16_nonvacuous_size : forall k, In k FS -> (46 <= length (observed k))%nat.
Proof. exact registry_size. Qed.
Example C16_nonvacuous_padding : Forall (fun c => is_pad c = true) [0; 32; 12288; 9] /\
  exists r, get (observed 0) (UID_IMPLICIT_VR_LE ++ [0; 32; 12288; 9]) = Some r /\ t_uid r = UID_IMPLICIT_VR_LE.
Proof. split; [repeat constructor|]. eexists. split; vm_compute; reflexivity. Qed.

Check C16_padding : forall m uid pad,
  Forall (fun c => is_pad c = true) pad -> get m (uid ++ pad) = get m uid.
Check C16_lookup : forall k r pad, In k FS -> In r (observed k) ->
  Forall (fun c => is_pad c = true) pad -> get (observed k) (t_uid r ++ pad) = Some r.
Check C16_flags : forall k r, In k FS -> In r (observed k) ->
  (row_implicit r = true <-> t_uid r = UID_IMPLICIT_VR_LE) /\
  (t_big r = true <-> t_uid r = UID_EXPLICIT_VR_BE) /\
  (t_dec r = L_EBE \/ t_enc r = L_EBE <-> t_uid r = UID_EXPLICIT_VR_BE).
Print Assumptions C16_padding.
Print Assumptions C16_lookup.
Print Assumptions C16_uids_unique.
Print Assumptions C16_flags.
Print Assumptions C16_codecs.
Print Assumptions C16_capabilities.
Print Assumptions C16_all_codec_kinds.
Print Assumptions C16_registry_is_model.
Print Assumptions C16_register_unique.
