(** C11 — Numeric value conversions are exact or fail; extension and truncation
    follow their documentation. Statements only; proofs are in
    Proofs/NumConvP.v. The model (Model/NumConv.v) is of the code AFTER the
    three repairs 5962513, 6e0ade7, 1a71c5e ([C11_unfixed_defects] states
    what the code did before).

    Integers are exact over Z, target types are explicit ranges. Floating
    point casts, parsing and printing are NOT modelled: they are Section
    variables (oracles); for floats only the count and order of the results
    is claimed (and bit-for-bit identity when no cast is involved). *)
From DicomV Require Import Base.RustStr Model.NumConv Proofs.NumConvP.

(** ---------------------------------------------------------------- integers *)

(** The single-valued conversion succeeds exactly when the first stored item
    is a number (a stored integer, or a text that is a decimal integer under
    Rust's syntax after trimming white space and NULs) that is representable
    in the target type, and then returns that very number: never a wrapped or
    truncated one. *)
Theorem C11_int_exact : forall T v n,
  to_int T v = Ok n <-> first_number (t_signed T) v = Some n /\ in_range T n.
Proof. exact to_int_exact. Qed.

(** The multi-valued conversion succeeds exactly when every stored item is
    such a number, and returns exactly those numbers, in order. *)
Theorem C11_multi_int_exact : forall T v l,
  to_multi_int T v = Ok l <-> all_numbers (t_signed T) v = Some l /\ Forall (in_range T) l.
Proof. exact to_multi_int_exact. Qed.

(** one result per stored value *)
Theorem C11_multi_int_len : forall T v l, to_multi_int T v = Ok l -> length l = multiplicity v.
Proof. exact to_multi_int_length. Qed.

(** a value with no items converts to the empty list (every variant that has
    an integer reading: Empty, Strs, U8, I16, U16, I32, U32, I64, U64) *)
Theorem C11_multi_int_empty : forall T v,
  multiplicity v = 0%nat -> int_convertible v -> to_multi_int T v = Ok [].
Proof. exact to_multi_int_empty. Qed.

(** the single-valued conversion returns the first item *)
Theorem C11_single_is_first : forall T v x l, to_multi_int T v = Ok (x :: l) -> to_int T v = Ok x.
Proof. exact to_int_is_first. Qed.

(** otherwise an error, never a panic *)
Theorem C11_int_total : forall T v w, to_int T v <> Panic w /\ to_multi_int T v <> Panic w.
Proof. exact int_conversions_no_panic. Qed.

(** textual numbers are parsed after trimming spaces and NULs: a number in
    range printed in decimal and padded on both sides converts back to itself *)
Theorem C11_padded_text : forall T z a b,
  in_range T z -> ((z < 0)%Z -> t_signed T = true) ->
  Forall (fun c => ws_or_nul c = true) a -> Forall (fun c => ws_or_nul c = true) b ->
  to_int T (PStr (a ++ print_dec_z z ++ b)) = Ok z.
Proof. exact to_int_padded_text. Qed.

(** ---------------------------------------------------------------- floats (count and order only) *)
Section Floats.
  Variable conv : ftarget -> fsrc -> option N.   (* NumCast / str::parse into f32, f64: outside the model *)

  (** exactly one result per stored value, the i-th result being the
      conversion of the i-th stored item *)
  Theorem C11_multi_float : forall tgt v l,
    to_multi_float conv tgt v = Ok l ->
    exists srcs, float_sources tgt v = Ok srcs /\ length srcs = multiplicity v
                 /\ Forall2 (fun s b => conv_item conv tgt s = Ok b) srcs l.
  Proof. exact (to_multi_float_sources conv). Qed.

  Theorem C11_multi_float_len : forall tgt v l,
    to_multi_float conv tgt v = Ok l -> length l = multiplicity v.
  Proof. exact (to_multi_float_length conv). Qed.

  (** a value with no items converts to the empty list, for f32 and f64 alike *)
  Theorem C11_multi_float_empty : forall tgt v,
    multiplicity v = 0%nat -> float_convertible v -> to_multi_float conv tgt v = Ok [].
  Proof. exact (to_multi_float_empty conv). Qed.

  Theorem C11_float_single_is_first : forall tgt v x l,
    to_multi_float conv tgt v = Ok (x :: l) -> to_float conv tgt v = Ok x.
  Proof. exact (to_float_is_first conv). Qed.

  (** stored floats of the requested width come back bit for bit *)
  Theorem C11_float_same_width :
    (forall l, to_multi_float conv TF32 (PF32 l) = Ok l) /\
    (forall l, to_multi_float conv TF64 (PF64 l) = Ok l).
  Proof. exact (to_multi_float_same_width conv). Qed.
End Floats.

(** ---------------------------------------------------------------- extend / truncate against a list model *)

(** truncate keeps exactly the first [k] items (every variant, a single
    string being one item) *)
Theorem C11_truncate : forall k v,
  items (truncate k v) = firstn k (items v) /\ multiplicity (truncate k v) = Nat.min k (multiplicity v).
Proof. intros k v. split; [apply truncate_items | apply truncate_multiplicity]. Qed.

(** extend_str appends exactly the given strings, and works exactly on
    empty and textual values *)
Theorem C11_extend_str : forall v ss,
  (forall v', extend_str v ss = Ok v' -> items v' = items v ++ map IStr ss) /\
  ((exists v', extend_str v ss = Ok v') <-> (v = PEmpty \/ (exists l, v = PStrs l) \/ (exists s, v = PStr s))) /\
  (forall e, extend_str v ss = Err e -> e = E_incompatible_string).
Proof.
  intros v ss. split; [intros v'; apply extend_str_items|]. split; [apply extend_str_ok_iff|intros e; apply extend_str_err].
Qed.

Section Extend.
  Variable ascast : ftarget -> xnum -> N.   (* x as f32 / f64 *)
  Variable f2i : numkind -> fnum -> Z.      (* float as intN *)
  Variable fdisp : fnum -> str.             (* float.to_string() *)

  (** extend_u16 .. extend_f64 append one item per number given: its decimal
      text for textual values, its [as] cast to the value's own number type
      for numeric values, the number itself for an empty value; they fail
      exactly on Tags / Date / DateTime / Time *)
  Theorem C11_extend_num : forall src v xs,
    (forall v', extend_num ascast f2i fdisp src v xs = Ok v' ->
                items v' = items v ++ map (new_item ascast f2i fdisp src v) xs) /\
    ((exists v', extend_num ascast f2i fdisp src v xs = Ok v') <-> float_convertible v).
  Proof.
    intros src v xs. split; [intros v'; apply extend_num_items | apply extend_num_ok_iff].
  Qed.

  (** the integer [as] cast: same residue modulo 2^bits, inside the type,
      the identity on representable numbers *)
  Theorem C11_extend_int_cast : forall k l z,
    exists c, extend_num ascast f2i fdisp SI32 (PNum k l) [XInt z] = Ok (PNum k (l ++ [c]))
      /\ (nk_lo k <= c <= nk_hi k)%Z /\ ((c - z) mod 2 ^ nk_bits k = 0)%Z
      /\ ((nk_lo k <= z <= nk_hi k)%Z -> c = z).
  Proof. exact (extend_num_int_cast ascast f2i fdisp). Qed.
End Extend.

(** ---------------------------------------------------------------- the repaired defects *)
Theorem C11_unfixed_defects :
  to_multi_int_unfixed T_i32 (PNum KI32 []) = Err E_none /\
  to_multi_int_unfixed T_i32 (PNum KU64 []) = Err E_none /\
  to_multi_int_unfixed T_i32 (PNum KI64 []) = Err E_none /\
  float_sources_unfixed TF64 PEmpty = Err E_none /\
  multiplicity (truncate_unfixed 0 (PStr [120])) = 1%nat.
Proof. exact unfixed_defects. Qed.

(** Non-vacuity: concrete values through the model. *)
Example C11_nonvacuous :
  to_int T_u8 (PStr [32; 50; 53; 53; 0]) = Ok 255%Z /\                 (* " 255\0" *)
  to_int T_u8 (PStr [50; 53; 54]) = Err E_parse_int /\                   (* "256" *)
  to_int T_i16 (PNum KU16 [65535%Z]) = Err E_narrow /\
  to_multi_int T_i64 (PNum KI32 [1; -1]%Z) = Ok [1; -1]%Z /\
  to_multi_int T_u32 (PNum KI32 [1; -1]%Z) = Err E_narrow /\
  in_range T_i8 (-128)%Z /\
  wrap KI16 65535 = (-1)%Z /\ wrap KU8 (-1) = 255%Z /\
  truncate 0 (PStr [120]) = PEmpty.
Proof. repeat split; vm_compute; congruence. Qed.

Check C11_int_exact : forall T v n,
  to_int T v = Ok n <-> first_number (t_signed T) v = Some n /\ in_range T n.
Check C11_multi_int_exact : forall T v l,
  to_multi_int T v = Ok l <-> all_numbers (t_signed T) v = Some l /\ Forall (in_range T) l.
Check C11_multi_int_empty : forall T v,
  multiplicity v = 0%nat -> int_convertible v -> to_multi_int T v = Ok [].
Check C11_multi_float_empty : forall conv tgt v,
  multiplicity v = 0%nat -> float_convertible v -> to_multi_float conv tgt v = Ok [].
Check C11_multi_float_len : forall conv tgt v l,
  to_multi_float conv tgt v = Ok l -> length l = multiplicity v.
Check C11_truncate : forall k v,
  items (truncate k v) = firstn k (items v) /\ multiplicity (truncate k v) = Nat.min k (multiplicity v).
Print Assumptions C11_int_exact.
Print Assumptions C11_multi_int_exact.
Print Assumptions C11_multi_int_len.
Print Assumptions C11_multi_int_empty.
Print Assumptions C11_single_is_first.
Print Assumptions C11_int_total.
Print Assumptions C11_padded_text.
Print Assumptions C11_multi_float.
Print Assumptions C11_multi_float_len.
Print Assumptions C11_multi_float_empty.
Print Assumptions C11_float_single_is_first.
Print Assumptions C11_float_same_width.
Print Assumptions C11_truncate.
Print Assumptions C11_extend_str.
Print Assumptions C11_extend_num.
Print Assumptions C11_extend_int_cast.
Print Assumptions C11_unfixed_defects.
