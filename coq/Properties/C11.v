(** C11 — placeholder while the correspondence is being established. *)
From DicomV Require Import Model.NumConv.
Theorem C11_stub : True. Proof. exact I. Qed.
Check C11_stub : True.
Print Assumptions C11_stub.
