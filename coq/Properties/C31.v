(** C31 — Command sets carry a correct Command Group Length.
    Statements only; the model is Model/CommandLen.v, proofs are in
    Proofs/CommandLenP.v.

    [command_from_iter es] is InMemDicomObject::command_from_element_iter on
    the element list [es] (any tags, duplicates included; the map keeps the
    last element of each tag), [write_ile] is write_dataset_with_ts with
    Implicit VR Little Endian, [is_cmd] selects group 0000 without (0000,0000).
    [modelled] delimits the values the writer model is faithful for (ASCII
    text, binary values not under VR DS/IS, 16-bit tag components, value
    shorter than 2^32-1 bytes). *)
From DicomV Require Import Base.Prelude Base.Endian Model.CommandLen Proofs.CommandLenP.

(** The value recorded in (0000,0000) is the number of bytes the remaining
    command elements occupy when written in Implicit VR Little Endian. *)
Theorem C31_group_length : forall es m,
  forallb modelled es = true ->
  command_from_iter es = Ok m ->
  exists gl, get 0 0 m = Some (gl_elem gl)
          /\ gl = lenN (write_ile (filter is_cmd m))
          /\ gl < 2 ^ 32.
Proof. exact group_length_correct. Qed.

(** Self-consistency of the written command set: it starts with the 12 bytes
    of (0000,0000) UL holding [gl], followed by exactly [gl] bytes which are
    the command elements, followed by the elements of other groups (if the
    caller passed any). *)
Theorem C31_written_self_consistent : forall es m,
  forallb modelled es = true ->
  command_from_iter es = Ok m ->
  exists gl, gl < 2 ^ 32 /\
    write_ile m = (le16 0 ++ le16 0 ++ le32 4 ++ le32 gl)
                  ++ write_ile (filter is_cmd m) ++ write_ile (filter other_group m)
    /\ lenN (write_ile (filter is_cmd m)) = gl.
Proof. exact written_layout. Qed.

(** The construction only fails (u32 overflow panic in the debug profile) when
    the command elements would need 4 GiB. *)
Theorem C31_total : forall es,
  sumN (map elem_cost (filter is_cmd (collect es))) < 2 ^ 32 ->
  exists m, command_from_iter es = Ok m.
Proof. exact command_from_iter_ok. Qed.

(** Remark (the defect repaired by the `fix:` commit): the code used to count
    while iterating over its input. That agrees with the count over the
    elements retained when the tags are distinct ... *)
Theorem C31_old_count_agrees_without_duplicates : forall es,
  NoDup (map tagkey es) ->
  group_length_iter_old es = sumN (map elem_cost (filter is_cmd (collect es))).
Proof. exact old_count_nodup. Qed.

(** ... and over-counts when a tag is given twice: Message ID twice, one
    element (10 bytes) is written but 20 was recorded. *)
Definition dup_witness : list elem :=
  [mkE 0 272 21843 (VNum 2 [1]); mkE 0 272 21843 (VNum 2 [2])].
Theorem C31_old_count_refuted :
  group_length_iter_old dup_witness = 20 /\
  lenN (write_ile (filter is_cmd (collect dup_witness))) = 10.
Proof. split; vm_compute; reflexivity. Qed.

(** Non-vacuity: a C-STORE-RQ like command (odd-length UI and AE values, an AT
    value, a caller-supplied group length which is overridden, a duplicate
    tag and a data set element) is inside the hypotheses, and the recorded
    length is the expected one. *)
Definition example_cmd : list elem :=
  [ mkE 0 0 VR_UL (VNum 4 [9999]);
    mkE 0 2 VR_UI (VStr [49;46;50;46;56;52;48]);
    mkE 0 256 21843 (VNum 2 [1]);
    mkE 0 272 21843 (VNum 2 [7]);
    mkE 0 272 21843 (VNum 2 [8]);
    mkE 0 1536 16709 (VStrs [[65];[66;67]]);
    mkE 0 4101 16724 (VTags [(16, 16)]);
    mkE 8 24 VR_UI (VStr [49;46;50]) ].
Example C31_nonvacuous :
  forallb modelled example_cmd = true /\
  (exists m, command_from_iter example_cmd = Ok m /\ gl_of m = Some 60).
Proof. split; [reflexivity|]. eexists. split; vm_compute; reflexivity. Qed.

Check C31_group_length : forall es m,
  forallb modelled es = true ->
  command_from_iter es = Ok m ->
  exists gl, get 0 0 m = Some (gl_elem gl)
          /\ gl = lenN (write_ile (filter is_cmd m))
          /\ gl < 2 ^ 32.
Check C31_written_self_consistent : forall es m,
  forallb modelled es = true ->
  command_from_iter es = Ok m ->
  exists gl, gl < 2 ^ 32 /\
    write_ile m = (le16 0 ++ le16 0 ++ le32 4 ++ le32 gl)
                  ++ write_ile (filter is_cmd m) ++ write_ile (filter other_group m)
    /\ lenN (write_ile (filter is_cmd m)) = gl.
Print Assumptions C31_group_length.
Print Assumptions C31_written_self_consistent.
Print Assumptions C31_total.
Print Assumptions C31_old_count_agrees_without_duplicates.
Print Assumptions C31_old_count_refuted.
