(** C25 — PDUs are encoded and decoded losslessly with exact framing.
    Statements only; proofs are in Proofs/PduP.v (writer), Proofs/PduReadP.v (reader),
    Proofs/Ps38P.v (independent PS3.8 structure).  The model is Model/Pdu.v:
    [write_pdu] = ul/src/pdu/writer.rs, [read_pdu max strict] = ul/src/pdu/reader.rs. *)
From DicomV Require Import Base.Prelude Base.Endian Model.Pdu Spec.Ps38 Proofs.PduP Proofs.PduReadP Proofs.Ps38P Proofs.PduTotalP.

(** Round trip with exact framing: every well-formed PDU (any number of presentation
    contexts, transfer syntaxes, user variables, strings and payloads of any length that
    fits the length fields), followed by arbitrary bytes [rest], reads back equal and
    leaves exactly [rest].  (In strict mode the PDU must be within the maximum, see C25_strict.) *)
Theorem C25_rt : forall max strict p b rest,
  wf_pdu p = true -> max_ok max = true -> write_pdu p = Ok b ->
  (strict = false \/ len b - 6 <= max) ->
  read_pdu max strict (b ++ rest) = Ok (Some (p, rest)).
Proof. exact read_write_rt. Qed.

(** A well-formed PDU can always be written. *)
Theorem C25_writable : forall p, wf_pdu p = true -> write_pdu p = Ok (e_pdu p).
Proof.
  intros p H. unfold wf_pdu in H. apply andb_true_iff in H as [H _]. apply andb_true_iff in H as [H1 H2].
  apply write_ok; assumption.
Qed.

(** Every strict prefix of the bytes of ANY written PDU reads as incomplete: never an
    error, never another PDU. *)
Theorem C25_prefix : forall max strict p b k,
  max_ok max = true -> write_pdu p = Ok b ->
  (strict = false \/ len b - 6 <= max) ->
  (k < length b)%nat ->
  read_pdu max strict (firstn k b) = Ok None.
Proof. exact read_prefix_incomplete. Qed.

(** All length fields of whatever the writer emits match the content they describe, as
    checked by the independent parser of Spec/Ps38.v ([no_alias]: an [Unknown] value
    does not carry a type code that PS3.8 gives a structure to). *)
Theorem C25_lengths : forall p b,
  write_pdu p = Ok b -> no_alias p = true -> ps38_valid b = true.
Proof. exact written_ps38_valid. Qed.

(** A PDU with a content that exceeds what its length field can express (or with a string
    that cannot be encoded) makes writing FAIL with an error: never Ok, never a panic.
    (True of the code since fix 27e8911; before, [write_chunk_u16] truncated the length
    and returned Ok.) *)
Theorem C25_oversize : forall p, fits_pdu p = false -> exists e, write_pdu p = Err e.
Proof. intros p H. apply write_not_ok. rewrite H. apply andb_false_r. Qed.

(** Conversely, when the writer succeeds everything fitted and the output is the layout [e_pdu]. *)
Theorem C25_written_layout : forall p b,
  write_pdu p = Ok b -> b = e_pdu p /\ latin_pdu p = true /\ fits_pdu p = true.
Proof. exact write_inv. Qed.

(** Strict mode rejects a PDU longer than the maximum length (as soon as its header is there). *)
Theorem C25_strict : forall max p b rest,
  max_ok max = true -> write_pdu p = Ok b -> max < len b - 6 ->
  read_pdu max true (b ++ rest) = Err E_PduTooLarge.
Proof. exact read_strict_rejects. Qed.
Theorem C25_strict_header : forall max t r plen tail,
  max_ok max = true -> plen < 4294967296 -> max < plen ->
  read_pdu max true (t :: r :: be32 plen ++ tail) = Err E_PduTooLarge.
Proof. exact read_strict_too_large. Qed.

(** The reader never panics, on ARBITRARY buffers of bytes (values < 256), for any maximum
    and mode: every unguarded [get_u8/get_u16/get_u32/copy_to_bytes/advance] and the u16
    addition of the real reader is an explicit [Panic] in the model, guarded as in the code
    (e.g. [remaining() >= 4 + 1 + 1] before the two [get_u8] of a PDV), and all are unreachable. *)
Theorem C25_read_total : forall max strict b w,
  wf_bytes b -> read_pdu max strict b <> Panic w.
Proof. intros max strict b w H. apply read_pdu_total. exact H. Qed.

(** Non-vacuity: an A-ASSOCIATE-RQ with two presentation contexts and every kind of
    user variable is well-formed, and so is a P-DATA-TF with two PDVs. *)
Example C25_nonvacuous_rq :
  wf_pdu (AssocRQ 1 [83;67;85] [65;78;89;45;83;67;80] [49;46;50;46;56;52;48]
            [ {| pp_id := 1; pp_abstract := [49;46;50]; pp_ts := [[49;46;50;46;49]; [49;46;50;46;50]] |};
              {| pp_id := 3; pp_abstract := [49;46;51]; pp_ts := [] |} ]
            [ UvMaxLength 16384; UvImplClassUid [50;46;50;53]; UvImplVersion [68;67;77];
              UvRole [49;46;50] true false; UvSopExt [49;46;50] [1;0;1]; UvIdentity true IdUsernamePassword [117] [112];
              UvUnknown 83 [1;2;3] ]) = true.
Proof. vm_compute. reflexivity. Qed.
Example C25_nonvacuous_pdata :
  wf_pdu (PData [ {| pdv_id := 1; pdv_command := true; pdv_last := true; pdv_data := [1;2;3] |};
                  {| pdv_id := 3; pdv_command := false; pdv_last := false; pdv_data := [] |} ]) = true.
Proof. vm_compute. reflexivity. Qed.
(** ... and the witness of the repaired defect is oversize. *)
Example C25_oversize_witness :
  fits_pdu (AssocRQ 1 [65] [66] [49] [] [UvUnknown 96 (rep 7 70000)]) = false.
Proof. vm_compute. reflexivity. Qed.

Check C25_rt : forall max strict p b rest,
  wf_pdu p = true -> max_ok max = true -> write_pdu p = Ok b ->
  (strict = false \/ len b - 6 <= max) ->
  read_pdu max strict (b ++ rest) = Ok (Some (p, rest)).
Check C25_prefix : forall max strict p b k,
  max_ok max = true -> write_pdu p = Ok b ->
  (strict = false \/ len b - 6 <= max) ->
  (k < length b)%nat ->
  read_pdu max strict (firstn k b) = Ok None.
Check C25_lengths : forall p b,
  write_pdu p = Ok b -> no_alias p = true -> ps38_valid b = true.
Check C25_oversize : forall p, fits_pdu p = false -> exists e, write_pdu p = Err e.
Check C25_strict : forall max p b rest,
  max_ok max = true -> write_pdu p = Ok b -> max < len b - 6 ->
  read_pdu max true (b ++ rest) = Err E_PduTooLarge.
Check C25_read_total : forall max strict b w,
  wf_bytes b -> read_pdu max strict b <> Panic w.
Print Assumptions C25_read_total.
Print Assumptions C25_rt.
Print Assumptions C25_writable.
Print Assumptions C25_prefix.
Print Assumptions C25_lengths.
Print Assumptions C25_oversize.
Print Assumptions C25_written_layout.
Print Assumptions C25_strict.
Print Assumptions C25_strict_header.
